#!/bin/bash
# usage: round5.sh <Cxx> ...  - takes /tmp/mut/out5/<Cxx>/m1,m2 as <Cxx>-m5,-m6: confirm, install, sweep
for p in "$@"; do
  for k in 1 2; do
    n=$((k+4))
    [ -f /tmp/mut/out5/$p/m$k/patch.diff ] || continue
    mkdir -p /tmp/mut/out/$p; rm -rf /tmp/mut/out/$p/m$n; cp -r /tmp/mut/out5/$p/m$k /tmp/mut/out/$p/m$n
    rm -f /tmp/mut/out/$p/m$n/*.log
    bash /verif/tools/confirm_mut.sh /tmp/mut/out/$p/m$n $p-m$n
  done
  git -C /repo worktree remove --force /tmp/mut/wt5-$p >/dev/null 2>&1
done
python3 /verif/tools/install_seeded.py | grep -E "installed .*-m[56]|NOT"
for p in "$@"; do bash /verif/tools/mut_sweep.sh /tmp/muteval7 $p-m5 $p-m6; done
