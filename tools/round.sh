#!/bin/bash
# usage: round.sh <N> <Cxx> ...  - takes /tmp/mut/out<N>/<Cxx>/m1,m2 (worktree /tmp/mut/wt<N>-<Cxx>) as the next two free
# ids <Cxx>-m<k>: confirm (tools/confirm_mut.sh), install (tools/install_seeded.py), sweep into /tmp/muteval-r<N>
N=$1; shift
for p in "$@"; do
  last=$(ls /verif/seeded | grep "^$p-m" | sed "s/$p-m//" | sort -n | tail -1); last=${last:-0}
  ids=""
  for k in 1 2; do
    [ -f /tmp/mut/out$N/$p/m$k/patch.diff ] || continue
    n=$((last+k))
    mkdir -p /tmp/mut/out/$p; rm -rf /tmp/mut/out/$p/m$n; cp -r /tmp/mut/out$N/$p/m$k /tmp/mut/out/$p/m$n
    rm -f /tmp/mut/out/$p/m$n/*.log
    bash /verif/tools/confirm_mut.sh /tmp/mut/out/$p/m$n $p-m$n
    ids="$ids $p-m$n"
  done
  git -C /repo worktree remove --force /tmp/mut/wt$N-$p >/dev/null 2>&1
  python3 /verif/tools/install_seeded.py | grep -E "installed ($(echo $ids | sed 's/^ //; s/ /|/g'))\$|NOT CONFIRMED ($(echo $ids | sed 's/^ //; s/ /|/g'))"
  bash /verif/tools/mut_sweep.sh /tmp/muteval-r$N $ids
done
