#!/usr/bin/env python3
"""Copies confirmed seeded mutations from /tmp/mut/out into /verif/seeded/<id>-<mk>/ with meta.json."""
import json, os, shutil, sys, glob
props = {json.loads(l)["id"]: json.loads(l) for l in open("/verif/properties.jsonl")}
for res in sorted(glob.glob("/tmp/mutc/results/*.json")):
    r = json.load(open(res))
    name = r["name"]
    pid, mk = name.split("-")
    src = "/tmp/mut/out/%s/%s" % (pid, mk)
    ok = r["apply_rc"] == 0 and r["demo_clean_rc"] == 0 and r["demo_mut_rc"] != 0 and r["suite_mut_rc"] == 0
    dst = "/verif/seeded/%s" % name
    if not ok:
        print("NOT CONFIRMED", name, r)
        continue
    os.makedirs(dst, exist_ok=True)
    for f in os.listdir(src):
        shutil.copyfile(os.path.join(src, f), os.path.join(dst, f))
    readme = open(os.path.join(src, "README.md")).read() if os.path.exists(os.path.join(src, "README.md")) else ""
    meta_path = os.path.join(dst, "meta.json")
    old = json.load(open(meta_path)) if os.path.exists(meta_path) else {}
    meta = {
        "id": name,
        "property": pid,
        "property_title": props[pid]["title"],
        "origin": "fresh sub-agent given only the property text and its own scratch worktree",
        "demo_package": r["pkg"],
        "needs_to_manifest": "see README.md (written by the seeding agent)",
        "confirmed": {
            "how": "tools/confirm_mut.sh in a scratch worktree of /repo HEAD: demo on clean tree, git apply patch.diff, demo with patch, full suite with patch",
            "patch_applies": True, "demo_passes_on_clean_tree": True, "demo_fails_with_patch": True,
            "existing_suite_passes_with_patch": True,
        },
        "detected_by": old.get("detected_by", "not yet evaluated"),
    }
    json.dump(meta, open(meta_path, "w"), indent=1)
    print("installed", name)
