#!/bin/bash
# usage: mut_sweep.sh <outdir> [mutant-id ...]   (default: every /verif/seeded/*/patch.diff)
# Evaluates seeded mutations in ISOLATION: a scratch worktree of /repo HEAD and a scratch copy of /verif whose
# harness points at that worktree, so the sweep never touches /repo or /verif/evidence.  One result file per mutant.
set -u
out=$1; shift
sd=${SEEDED_DIR:-/verif/seeded}
mkdir -p "$out"
base=/tmp/mutsweep.$$; wt=$base/repo; vf=$base/verif
git -C /repo worktree remove --force $wt >/dev/null 2>&1; rm -rf $base; mkdir -p $base
git -C /repo worktree add --detach $wt HEAD >/dev/null 2>&1 || { echo "worktree failed"; exit 2; }
if [ -n "${MUT_FROM_HEAD:-}" ]; then
  # the committed tree only (other people's uncommitted edits in /verif do not interfere)
  mkdir -p $vf; git -C /verif archive HEAD | tar -x -C $vf
else
  rsync -a --exclude build --exclude replays --exclude .git /verif/ $vf/
fi
sed -i "s#=> /repo#=> $wt#" $vf/harness/go.mod
ids="$@"; [ -z "$ids" ] && ids=$(ls $sd)
for id in $ids; do
  p=$sd/$id/patch.diff; [ -f $p ] || p=$sd/$id/patch_rebased_on_hooks.diff
  [ -f $p ] || continue
  prop=${id%%-*}
  git -C $wt checkout -q -- . ; git -C $wt clean -qfd
  if ! git -C $wt apply $p 2>/dev/null; then
    # the mutated lines were rewritten by a later fix: use the equivalent change re-made on the current code
    p=$sd/$id/patch_rebased.diff
    if [ ! -f $p ] || ! git -C $wt apply $p 2>/dev/null; then echo "$id PATCH-DOES-NOT-APPLY" | tee $out/$id.txt; continue; fi
  fi
  checks="$prop"; [ -f $sd/$id/also_checks ] && checks="$prop $(cat $sd/$id/also_checks)"
  : > $out/$id.txt
  for c in $checks; do
    [ -f $vf/lib/props/$c.py ] || { echo "$id $c NO-CHECK" >> $out/$id.txt; continue; }
    ( cd $vf && VERIF_REPO=$wt timeout 1500 ./check $c ${TIER:-quick} > $out/$id.$c.log 2>&1; echo "$id $c exit=$? $(grep -c '^VIOLATION' $out/$id.$c.log) violations: $(grep -o 'key=[^ ]*' $out/$id.$c.log | head -3 | tr '\n' ' ')" >> $out/$id.txt )
  done
  cat $out/$id.txt
done
git -C /repo worktree remove --force $wt >/dev/null 2>&1
rm -rf $base
