#!/bin/bash
# usage: tools_mut.sh <patch.diff> <check args...>   -- apply a seeded mutation to /repo, run a check, undo.
set -u
patch=$1; shift
git -C /repo apply "$patch" || { echo "PATCH DOES NOT APPLY"; exit 9; }
( cd /verif && ./check "$@" ) ; rc=$?
git -C /repo checkout -- .
echo "check exit=$rc"
exit $rc
