#!/usr/bin/env python3
"""usage: seed_prompts.py <prev-round> <new-round> [Cxx ...] - derives the seeding prompts of a new round of
seeded changes from the previous round's (/tmp/mut/prompt<prev>_<Cxx>.txt): new worktree / output paths, and the
changes installed since then (seeded/<Cxx>-m*/) appended to the "already used" list (title line of the README and
the files the patch touches - nothing else from /verif goes into a prompt)."""
import glob
import os
import re
import sys

prev, new = sys.argv[1], sys.argv[2]
props = sys.argv[3:] or sorted({os.path.basename(p).split("_")[1][:3] for p in glob.glob("/tmp/mut/prompt%s_C*.txt" % prev)})
for c in props:
    src = "/tmp/mut/prompt%s_%s.txt" % (prev, c)
    if not os.path.exists(src):
        print("no previous prompt for", c)
        continue
    s = open(src).read().replace("wt%s-" % prev, "wt%s-" % new).replace("out%s/" % prev, "out%s/" % new)
    used = []
    for d in sorted(glob.glob("/verif/seeded/%s-m*" % c), key=lambda p: int(p.rsplit("m", 1)[1])):
        readme = os.path.join(d, "README.md")
        title = open(readme).readline().strip().lstrip("# ").strip() if os.path.exists(readme) else os.path.basename(d)
        files = sorted(set(re.findall(r"^\+\+\+ b/(\S+)", open(os.path.join(d, "patch.diff")).read(), re.M)))
        line = "- %s (%s)" % (title, ", ".join(files))
        if title not in s:
            used.append(line)
    marker = "The library contains files with `//go:build verif` hooks"
    if used and marker in s:
        s = s.replace(marker, "\n".join(used) + "\n" + marker, 1)
    open("/tmp/mut/prompt%s_%s.txt" % (new, c), "w").write(s)
    print(c, "+%d used" % len(used))
