#!/bin/bash
# usage: confirm_mut.sh <srcdir containing patch.diff + demo> <name>
# Confirms a seeded mutation in a scratch worktree: demo passes on clean tree, patch applies, demo fails with
# patch, full existing suite passes with patch.  Writes /tmp/mutc/results/<name>.json; removes the worktree.
set -u
src=$1; name=$2
export GOFLAGS=-mod=mod GOPROXY=off GOSUMDB=off GOTOOLCHAIN=local
mkdir -p /tmp/mutc/results
wt=/tmp/mutc/wt-$name
git -C /repo worktree remove --force $wt >/dev/null 2>&1
git -C /repo worktree add --detach $wt HEAD >/dev/null 2>&1 || { echo "worktree failed"; exit 2; }
demo=$(ls $src/*_test.go 2>/dev/null | head -1)
pkg=$(grep -m1 '^package ' $demo | awk '{print $2}' | sed 's/_test$//')
case $pkg in model3d|model2d|toolbox3d|render3d|fileformats|numerical) dir=$pkg;; *) dir=$pkg;; esac
cp $src/*_test.go $wt/$dir/
cd $wt
clean_rc=1; mut_rc=0; suite_rc=1; apply_rc=1
timeout 600 go test -vet=off -count=1 -run 'ZZ|Demo' ./$dir/ > /tmp/mutc/results/$name.clean.log 2>&1; clean_rc=$?
git apply $src/patch.diff; apply_rc=$?
timeout 600 go test -vet=off -count=1 -run 'ZZ|Demo' ./$dir/ > /tmp/mutc/results/$name.mut.log 2>&1; mut_rc=$?
rm -f $wt/$dir/zz_demo*_test.go $wt/$dir/*demo_test.go
timeout 3400 go test -vet=off -count=1 -timeout 25m ./... > /tmp/mutc/results/$name.suite.log 2>&1; suite_rc=$?
if [ $suite_rc -ne 0 ]; then
  # the existing suite has a randomised test that fails now and then under load: run the failing packages once more
  pk=$(grep "^FAIL\s" /tmp/mutc/results/$name.suite.log | awk "{print \$2}" | sed "s#github.com/unixpickle/model3d#.#")
  if [ -n "$pk" ]; then timeout 1800 go test -vet=off -count=1 -timeout 25m $pk > /tmp/mutc/results/$name.suite-retry.log 2>&1 && suite_rc=0; fi
fi
cd /
git -C /repo worktree remove --force $wt
echo "{\"name\":\"$name\",\"pkg\":\"$dir\",\"apply_rc\":$apply_rc,\"demo_clean_rc\":$clean_rc,\"demo_mut_rc\":$mut_rc,\"suite_mut_rc\":$suite_rc}" > /tmp/mutc/results/$name.json
cat /tmp/mutc/results/$name.json
