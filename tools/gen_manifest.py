#!/usr/bin/env python3
"""Regenerates /verif/MANIFEST.json from the table below (kept valid at all times)."""
import json, os, subprocess
HERE = os.path.dirname(os.path.dirname(os.path.abspath(__file__)))

CHECKS = {}
NA = {}

def check(pid, category, text, note, technique, design_ref):
    CHECKS[pid] = dict(category=category, text=text, note=note, technique=technique, design_ref=design_ref)

exec(open(os.path.join(HERE, "tools", "manifest_table.py")).read())

hook_commits = subprocess.run(["git", "-C", "/repo", "log", "--format=%H %s"], stdout=subprocess.PIPE, text=True).stdout.splitlines()
hook_commits = [l.split()[0] for l in hook_commits if " verif hooks" in l]

man = {
    "version": 1,
    "setup_cmd": "./setup.sh",
    "hooks": {
        "guard": "verif",
        "enable": "go build -tags verif (the harness module /verif/harness imports /repo through a replace directive)",
        "baseline_off_cmd": "cd /repo && GOFLAGS=-mod=mod go test -vet=off -count=1 -timeout 25m ./...",
        "source_commits": hook_commits,
        "add_only": True,
    },
    "engines": [
        {"name": "tlc", "path": "/opt/veriftools/tla/tla2tools.jar", "serves_properties": sorted(CHECKS),
         "kind_free_text": "TLA+ specifications under /verif/spec checked with TLC (exhaustive, -simulate, trace validation)"},
        {"name": "drv", "path": "/verif/harness", "serves_properties": sorted(CHECKS),
         "kind_free_text": "Go harness built from /repo's working tree with -tags verif; replays TLC behaviours into the real code and records traces"},
    ],
    "checks": [],
    "not_applicable": [],
    "notes": "See DESIGN.md. ./check <id> quick|thorough; exit 0 held / 1 VIOLATION / 2 infrastructure error (never a verdict).",
}
for pid in sorted(CHECKS):
    c = CHECKS[pid]
    man["checks"].append({
        "property_id": pid,
        "quick_cmd": "./check %s quick" % pid,
        "thorough_cmd": "./check %s thorough" % pid,
        "evidence_file": "/verif/evidence/%s.json" % pid,
        "replay_cmd_template": "./check %s --replay {path}" % pid,
        "engine": "tlc",
        "level_claimed": {"category": c["category"], "text": c["text"], "design_ref": c["design_ref"]},
        "level_note": c["note"],
        "technique": c["technique"],
    })
for pid in sorted(NA):
    man["not_applicable"].append({"property_id": pid, "reason": NA[pid]})
json.dump(man, open(os.path.join(HERE, "MANIFEST.json"), "w"), indent=1)
print("MANIFEST.json: %d checks, %d not_applicable" % (len(man["checks"]), len(man["not_applicable"])))
