# one entry per claimed property; everything else must be in NA with a reason
check("C09", "model_checking",
      "TLA+ spec MeshADT (abstract face set + transcribed lazy vertex index) and CoordMapADT (fast/slow map "
      "representation) model-checked exhaustively for small constants; every TLC-enumerated history of K operations, "
      "TLC -simulate samples and seeded long histories are executed against the real model3d/model2d Mesh and the "
      "twelve coordinate-keyed map types under four coordinate realisations (plain, fast-hash collision, signed zero, "
      "both) and every observation is validated by TLC against the plain-set / ordinary-map semantics (MeshTrace, MapTrace).",
      "Trusted: TLC, the harness projection (coordinate -> vertex class), Go's map as reference semantics for ==. "
      "Vertex universe is 4 classes; NaN keys excluded; in-place editors of the library are covered through the "
      "algorithms that use them (C01/C10 checks), not as MeshADT actions.",
      "TLA+ model checking (TLC) + replay of TLC behaviours into the real code + TLC trace validation", "DESIGN.md §5 C09")

check("C01", "model_checking",
      "The marching-cubes / marching-squares lookup tables exported from the code (cross-checked black-box through the "
      "public mesher) are model-checked by TLC over EVERY configuration of 1-, 2- and (thorough) 4-cell windows "
      "(McLocal: closed, fan-connected, oriented, one vertex per active edge) - by locality this covers every solid and "
      "lattice size; every subset of small lattices / pixel grids and seeded larger ones is meshed by the real code "
      "(plain, filtered, search, conjugated, coarse-to-fine, Bitmap.Mesh) and judged by TLC (LatticeJudge, Mesh2Judge with "
      "an exact integer winding number); the other generators are recorded as abstract complexes and judged by "
      "ComplexJudge (closed, manifold, oriented, Euler characteristic).",
      "Trusted: TLC, vertex snapping to lattice-edge ids, vertex identity = exact coordinate equality. Integer bounds and "
      "delta=1 (exact float lattice); non-dyadic spacings only through the generators. Orientation witness for 3-D "
      "windows is 'normal exits through at least one of the triangle's lattice edges' + closedness (see Lattice3.tla).",
      "TLA+ model checking of implementation-derived tables (TLC) + TLC judging of real-code outputs", "DESIGN.md §5 C01")
check("C02", "model_checking",
      "On every subset of small lattices and seeded larger ones TLC checks that the real marching cubes/squares output "
      "equals the table-prescribed face set, has exactly one vertex on every active lattice edge and none elsewhere, that "
      "search-refined vertices are within spacing/2^iters of the harness solid's known dyadic transition and reported "
      "interior points are contained; 2-D sample-side agreement by an exact integer winding number; dual contouring with "
      "clipping: one correctly oriented quad per active edge built from the four surrounding cubes, none otherwise, every "
      "vertex inside its cube (DcJudge), for several worker counts / buffer depths / jitter settings.",
      "Trusted: TLC, snapping of vertices to lattice edges / cubes. delta=1 lattices; QEF placement and Repair not covered.",
      "TLC judging of real-code outputs against a TLA+ lattice specification", "DESIGN.md §5 C02")
check("C12", "model_checking",
      "The same lattice solids are meshed under GOMAXPROCS 1/2/3/16, with none / exact / randomly over-approximating "
      "conservative filters, with a coarse-to-fine pre-pass, repeated, and (dual contouring) under several MaxGos and "
      "every buffer depth on non-square footprints; TLC judges every output against the single table-derived face set, so "
      "configurations are equal to each other AND correct.",
      "Trusted: TLC, lattice-edge snapping. Schedules are those the Go runtime produced under the given GOMAXPROCS; the "
      "all-interleavings part is carried by the protocol specs (spec/pipeline) where present.",
      "TLC judging of real-code outputs across configurations + TLA+ protocol specs", "DESIGN.md §5 C12")

check("C04", "model_checking",
      "SolidAlgebra.tla gives the exact denotation (rational point arithmetic) of expression trees over integer boxes; "
      "seeded trees through every combinator/wrapper and operand lists in EVERY permutation through every n-ary "
      "combinator (JoinedSolid, Optimize, SolidMux incl. AllContains/IterContains totals, IntersectedSolid, RectSet.Solid, "
      "StackSolids, StackedSolid) are built with the real constructors, probed on the half-integer grid incl. box faces, "
      "and TLC requires the contained probe set to equal the denotation. Smooth joins: TLC enumerates every radius and "
      "every tuple of operand distances (<= 4-5 operands), checks the laws of the model (radius 0, single operand, fewer "
      "than two operands within the radius, permutation invariance) and judges the real 2-D/3-D SmoothJoin/SmoothJoinV2.",
      "Trusted: TLC, exactness of float arithmetic on dyadic values. Operands are boxes (closed); curved operands are not "
      "used because their membership is not exactly representable.",
      "TLA+ denotational spec evaluated by TLC against real-code answers; TLC-generated cases replayed", "DESIGN.md §5 C04")
check("C03", "model_checking",
      "Seeded expression trees over integer boxes through every combinator and wrapper (Translate, Scale, negative "
      "VecScale, signed axis permutations, ForceSolidBounds, CacheSolidBounds, Optimize, SolidMux, RectSet, stacks) are "
      "built with the real constructors; TLC checks finite min <= max bounds, that no contained probe lies outside the "
      "reported box, and that the contained probes are exactly the tree's denotation (wrappers do not cut the shape).",
      "Trusted: TLC, SolidAlgebra denotation. Box world only at this stage; curved primitives and toolbox solids are "
      "covered only as far as later stages of the check add them (see DESIGN.md).",
      "TLA+ denotational spec evaluated by TLC against real-code answers", "DESIGN.md §5 C03")

_pending = "check not built yet in this session (planned, see DESIGN.md §10)"
for pid in ["C01","C02","C03","C04","C05","C06","C07","C08","C10","C11","C12","C13","C14","C15","C16","C17","C18","C20"]:
    if pid not in CHECKS:
        NA[pid] = _pending
NA["C19"] = ("requires quadrature and statistical tests over real-valued densities; no state, history or finite "
             "combinatorial space for a TLA+ specification to decide (DESIGN.md §9)")
