# one entry per claimed property; everything else must be in NA with a reason
check("C09", "model_checking",
      "TLA+ spec MeshADT (abstract face set + transcribed lazy vertex index) and CoordMapADT (fast/slow map "
      "representation) model-checked exhaustively for small constants; every TLC-enumerated history of K operations, "
      "TLC -simulate samples and seeded long histories are executed against the real model3d/model2d Mesh and the "
      "twelve coordinate-keyed map types under four coordinate realisations (plain, fast-hash collision, signed zero, "
      "both) and every observation is validated by TLC against the plain-set / ordinary-map semantics (MeshTrace, MapTrace).",
      "Trusted: TLC, the harness projection (coordinate -> vertex class), Go's map as reference semantics for ==. "
      "Vertex universe is 4 classes; NaN keys excluded; in-place editors of the library are covered through the "
      "algorithms that use them (C01/C10 checks), not as MeshADT actions.",
      "TLA+ model checking (TLC) + replay of TLC behaviours into the real code + TLC trace validation", "DESIGN.md §5 C09")

_pending = "check not built yet in this session (planned, see DESIGN.md §10)"
for pid in ["C01","C02","C03","C04","C05","C06","C07","C08","C10","C11","C12","C13","C14","C15","C16","C17","C18","C20"]:
    if pid not in CHECKS:
        NA[pid] = _pending
NA["C19"] = ("requires quadrature and statistical tests over real-valued densities; no state, history or finite "
             "combinatorial space for a TLA+ specification to decide (DESIGN.md §9)")
