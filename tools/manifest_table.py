# one entry per claimed property; everything else must be in NA with a reason
check("C09", "model_checking",
      "TLA+ spec MeshADT (abstract face set + transcribed lazy vertex index) and CoordMapADT (fast/slow map "
      "representation) model-checked exhaustively for small constants; every TLC-enumerated history of K operations, "
      "TLC -simulate samples and seeded long histories are executed against the real model3d/model2d Mesh and the "
      "twelve coordinate-keyed map types under four coordinate realisations (plain, fast-hash collision, signed zero, "
      "both) and every observation is validated by TLC against the plain-set / ordinary-map semantics (MeshTrace, MapTrace).",
      "Trusted: TLC, the harness projection (coordinate -> vertex class), Go's map as reference semantics for ==. "
      "Vertex universe is 4 classes; NaN keys excluded; in-place editors of the library are covered through the "
      "algorithms that use them (C01/C10 checks), not as MeshADT actions.",
      "TLA+ model checking (TLC) + replay of TLC behaviours into the real code + TLC trace validation", "DESIGN.md §5 C09")

check("C01", "model_checking",
      "The marching-cubes / marching-squares lookup tables exported from the code (cross-checked black-box through the "
      "public mesher) are model-checked by TLC over EVERY configuration of 1-, 2- and (thorough) 4-cell windows "
      "(McLocal: closed, fan-connected, oriented, one vertex per active edge) - by locality this covers every solid and "
      "lattice size; every subset of small lattices / pixel grids and seeded larger ones is meshed by the real code "
      "(plain, filtered, search, conjugated, coarse-to-fine, Bitmap.Mesh) and judged by TLC (LatticeJudge, Mesh2Judge with "
      "an exact integer winding number); the other generators are recorded as abstract complexes and judged by "
      "ComplexJudge (closed, manifold, oriented, Euler characteristic).",
      "Trusted: TLC, vertex snapping to lattice-edge ids, vertex identity = exact coordinate equality. Integer bounds and "
      "delta=1 (exact float lattice); non-dyadic spacings only through the generators. Orientation witness for 3-D "
      "windows is 'normal exits through at least one of the triangle's lattice edges' + closedness (see Lattice3.tla).",
      "TLA+ model checking of implementation-derived tables (TLC) + TLC judging of real-code outputs", "DESIGN.md §5 C01")
check("C02", "model_checking",
      "On every subset of small lattices and seeded larger ones TLC checks that the real marching cubes/squares output "
      "equals the table-prescribed face set, has exactly one vertex on every active lattice edge and none elsewhere, that "
      "search-refined vertices are within spacing/2^iters of the harness solid's known dyadic transition and reported "
      "interior points are contained; 2-D sample-side agreement by an exact integer winding number; dual contouring with "
      "clipping: one correctly oriented quad per active edge built from the four surrounding cubes, none otherwise, every "
      "vertex inside its cube (DcJudge), for several worker counts / buffer depths / jitter settings.",
      "Trusted: TLC, snapping of vertices to lattice edges / cubes. delta=1 lattices; QEF placement and Repair not covered.",
      "TLC judging of real-code outputs against a TLA+ lattice specification", "DESIGN.md §5 C02")
check("C12", "model_checking",
      "The same lattice solids are meshed under GOMAXPROCS 1/2/3/16, with none / exact / randomly over-approximating "
      "conservative filters, with a coarse-to-fine pre-pass, repeated, and (dual contouring) under several MaxGos and "
      "every buffer depth on non-square footprints; TLC judges every output against the single table-derived face set, so "
      "configurations are equal to each other AND correct.",
      "Trusted: TLC, lattice-edge snapping. Schedules are those the Go runtime produced under the given GOMAXPROCS; the "
      "all-interleavings part is carried by the protocol specs (spec/pipeline) where present.",
      "TLC judging of real-code outputs across configurations + TLA+ protocol specs", "DESIGN.md §5 C12")

check("C04", "model_checking",
      "SolidAlgebra.tla gives the exact denotation (rational point arithmetic) of expression trees over integer boxes; "
      "seeded trees through every combinator/wrapper and operand lists in EVERY permutation through every n-ary "
      "combinator (JoinedSolid, Optimize, SolidMux incl. AllContains/IterContains totals, IntersectedSolid, RectSet.Solid, "
      "StackSolids, StackedSolid) are built with the real constructors, probed on the half-integer grid incl. box faces, "
      "and TLC requires the contained probe set to equal the denotation. Smooth joins: TLC enumerates every radius and "
      "every tuple of operand distances (<= 4-5 operands), checks the laws of the model (radius 0, single operand, fewer "
      "than two operands within the radius, permutation invariance) and judges the real 2-D/3-D SmoothJoin/SmoothJoinV2.",
      "Trusted: TLC, exactness of float arithmetic on dyadic values. Operands are boxes (closed); curved operands are not "
      "used because their membership is not exactly representable.",
      "TLA+ denotational spec evaluated by TLC against real-code answers; TLC-generated cases replayed", "DESIGN.md §5 C04")
check("C03", "model_checking",
      "Seeded expression trees over integer boxes through every combinator and wrapper (Translate, Scale, negative "
      "VecScale, signed axis permutations, ForceSolidBounds, CacheSolidBounds, Optimize, SolidMux, RectSet, stacks) are "
      "built with the real constructors; TLC checks finite min <= max bounds, that no contained probe lies outside the "
      "reported box, and that the contained probes are exactly the tree's denotation (wrappers do not cut the shape).",
      "Trusted: TLC, SolidAlgebra denotation; PrimJudge.tla decides membership of integer-data spheres, boxes, polytopes, "
      "cylinders / capsules / cones with any integer axis, 2-D triangles and bitmaps exactly (stage prims: bounds, leak and "
      "cut clauses on a quarter lattice incl. negative fractional coordinates; metaball solids under Transform / Scale / "
      "VecScaleMetaball with negative scales against their own field definition). Toolbox solids: leak clause only.",
      "TLA+ denotational spec evaluated by TLC against real-code answers", "DESIGN.md §5 C03")

check("C06", "model_checking",
      "VoxelSurface.tla is an exact integer oracle for voxel worlds (boundary faces, inside/outside/on, squared distance, "
      "nearest-point tie sets, face normals). Every non-empty subset of a 2x2x2 voxel grid and seeded larger worlds are "
      "turned into meshes; MeshToSDF (SDF, PointSDF, NormalSDF, FaceSDF, mutually consistent) is probed on the "
      "half-integer grid and TLC requires: sign iff inside, squared distance equal to the brute-force minimum over faces, "
      "nearest point one of the minimisers, normal the normal of a nearest face.",
      "Trusted: TLC, projection of distances to integers (x^2*4 with an exactness flag). Stage prims (PrimJudge.tla): integer-data "
      "primitives (sphere, box, cylinder, capsule, cone, torus; 2-D circle, box, capsule, triangle) at lattice and special "
      "points (centre, axis, apex): sign, point on the surface at |sdf|, unit outward normal, variants agree; exact values "
      "for spheres and boxes.",
      "TLA+ exact-geometry spec evaluated by TLC against real-code answers", "DESIGN.md §5 C06")
check("C07", "model_checking",
      "Same voxel worlds as mesh collider, area-density BVH, grouped-triangle collider and randomly nested joined "
      "colliders. For rays in general position (decided by the spec) TLC requires count = callbacks = count without "
      "callback = exact number of face hits, the reported (parameter, normal) multiset equal to the exact one, first = "
      "minimum, odd count iff the origin is inside; ball queries against the exact squared distance; segment queries "
      "against exact hits in [0,1]; ColliderContains against inside/outside; every query (incl. degenerate ones, box and "
      "triangle queries) must equal the literal linear scan over the individual triangles. Directions are scaled by "
      "2^-e (e up to 30) to cover non-unit directions.",
      "Trusted: TLC, the projection t*4 -> integer with exactness flag. Ball tangency undecided. Stage prims "
      "(PrimJudge.tla): the same primitives as colliders with integer rays (also scaled by 2^-30 and 2^10): counts with / "
      "without callback, hits on the surface with unit outward normals, first = min, parity in general position, ball "
      "queries; exact hit counts for spheres (discriminant signs) and boxes (slab method).",
      "TLA+ exact-geometry spec evaluated by TLC against real-code answers", "DESIGN.md §5 C07")
check("C08", "model_checking",
      "Point trees: every multiset of <= 3-4 points of a small grid (duplicates, split-axis ties) and seeded larger ones, "
      "queried from every half-grid point: TLC checks the real tree is a k-d tree of exactly the input multiset, "
      "NearestNeighbor is a minimiser, KNN returns the k smallest distances as a sub-multiset, SphereCollision iff some "
      "d^2 <= r^2 incl. exact tangency, Contains. Triangle hierarchies (MeshToCollider, BVH, grouped, nested joins, mesh "
      "SDF): answers equal both the exact VoxelSurface oracle and the literal linear scan over individual triangles, for "
      "rays (degenerate ones included), balls, segments, boxes and triangles.",
      "Trusted: TLC; squared distances of half-integer points are exact in float64. render3d object hierarchies are "
      "covered by the C20 check.",
      "TLA+ brute-force specs evaluated by TLC against real-code answers", "DESIGN.md §5 C08")

check("C13", "model_checking",
      "The synchronisation protocols are TLA+ specs model-checked over all interleavings (V2FLazyInit: double-checked "
      "locking of the lazy vertex index, 3 readers - OneBuild, Mutex, PublishedComplete, Agree, termination; SharedCellMax). "
      "The real Mesh.getVertexToFace is bound to the spec by hook traces (one event per critical step, with the observed "
      "publication state) recorded from 2-4 goroutines making their first queries - free-running and with a scheduler gate "
      "that releases late readers while the builder is inside the fill loop - and validated event by event by TLC "
      "(V2FTrace); answers are compared with sequential use. The harness is built with -race; free-running scenarios "
      "(mesh/collider/SDF/solid/hierarchy queries, marching cubes/squares, dual contouring, rasterising, k-means, height-map "
      "filling, three renderers, memoised curves) run at GOMAXPROCS 2/4/16 and every race report or runtime 'concurrent map' "
      "abort is a violation keyed by the racing functions.",
      "Trusted: TLC, the Go race detector as run-time monitor. Executed schedules are a sample; all interleavings are "
      "covered only at the level of the protocol specs and the conformance of hook traces to them.",
      "TLA+ protocol model checking + TLC trace validation of hook traces + race detector on executed schedules", "DESIGN.md §5 C13")

check("C15", "model_checking",
      "PlyProtocol.tla transcribes the row protocol of PLYWriter/PLYReader (element skip loops, isDone/flush, EOF) and TLC "
      "checks it against its requirements (attribution of rows to elements, exactly the declared number of rows, full "
      "flush when the last declared row is written, rows read back in order with their element, EOF exactly at the end) "
      "for every header with <= 3 (thorough 4) elements and counts 0..2 (0..3). Every such header is replayed through the "
      "real writer -> bytes -> reader in ASCII / little / big endian with values at the type limits (and through "
      "STLWriter/STLReader), every call is logged and PlyTrace validates each trace step by step against the PlyProtocol "
      "actions with the requirements evaluated in every state. Mesh API: every abstract mesh of <= 1-2 faces over 4 vertex "
      "names x three coordinate realisations (integers; float32 limits incl. -0, subnormals, 3e38; two vertices equal only "
      "after rounding) through STL, coloured PLY, material / vertex-colour OBJ, 3MF and segment CSV; TLC (CodecJudge) "
      "compares faces, order, orientation and colours. OFF / ASCII STL / PLY / CSV text rendered from the CodecFaults "
      "grammar in every specified variant (with and without final newline, extra PLY elements) must decode to the mesh.",
      "Trusted: TLC, the harness's independent encodings (encoding/binary, strconv) used to decide how many complete rows "
      "reached the sink, Go's float32 conversion as the definition of 'rounded to the format's precision'. Byte-level "
      "fidelity is compared, not modelled. MTL/texture contents and SVG are not covered.",
      "TLA+ protocol model checking (TLC) + TLC trace validation of real writer/reader traces + TLC judging of round trips",
      "DESIGN.md §5 C15")
check("C16", "fault_enumeration",
      "CodecFaults.tla models each format (OFF, ASCII and binary STL, ASCII and binary PLY incl. extra elements and 32-bit "
      "list lengths, segment CSV) as a token stream and TLC enumerates every valid variant x every structured fault: "
      "truncation at and inside every line, every token replaced by every value of its adversarial set (-1, 0, 2^22, "
      "2^31-1, 2^32, 2^63-1, non-numeric, wrong keyword / type name), dropped and duplicated tokens and lines, blank "
      "lines (18k cases quick). Each case is rendered to bytes and run through every decoder of the format (ReadOFF, "
      "OFFReader, ReadSTL, STLReader, ReadColorPLY, PLYReader to EOF, NewPLYHeaderDecode, DecodeCSV, SegmentCSVReader) "
      "with a panic guard, a 3 s deadline, a row-count bound and an allocation meter; a process death is attributed to "
      "its case. TLC (CodecJudge) requires outcome in {data, error}, termination with <= 1 row per input byte, and "
      "allocation <= 4 MiB + 1 KiB per input byte.",
      "Trusted: TLC, runtime.MemStats.TotalAlloc as allocation meter (process-wide, cases run one at a time; records "
      "after an abandoned hang are not judged for allocation). Faults are structured, not arbitrary byte noise. The "
      "allocation bound has a 4 MiB constant because the decoders use bounded capacity hints (<= 2^16 entries).",
      "TLA+ fault model enumerated by TLC, every case executed against the real decoders, outcomes judged by TLC",
      "DESIGN.md §5 C16")

check("C20", "model_checking",
      "Estimator.tla is the abstract per-pixel Monte-Carlo estimator (samples taken, sum, stopped; Finish requires pixel * "
      "taken = sum, stopping only after a criterion said so and not before MinSamples); EstimatorImpl.tla transcribes "
      "rayRenderer.estimateColor and TLC checks that it refines Estimator for every NumSamples <= 5 (7), MinSamples, "
      "sample sequence and answer pattern. Every setting x answer pattern is replayed through the real "
      "RecursiveRayTracer (scripted emissive object, scripted Convergence callback, built-in MaxStddev criterion, with and "
      "without recursion depth) and EstimatorTrace validates the cast / conv / done trace of every pixel. PixelPool.tla "
      "(mapCoordinates) is model-checked over all interleavings (exactly once, termination) and the real renderers run "
      "under CPU sets of 1, 3 and all cores with every pixel cast exactly NumSamples times and written with its own value. "
      "SceneJudge.tla is an exact rational oracle: nearest hit (parameter, material, unit outward normal) of "
      "Joined/BVH/Filtered/nested objects over boxes under chains of Translate/Scale/Rotate(quarter)/MatrixMultiply; which "
      "points of a matte floor+occluder scene a point light reaches, with the closed-form cos(theta) value where the "
      "distance is an integer; Caster directions and Uncaster(Caster) = id for axis-aligned 90-degree cameras on square and "
      "non-square frames.",
      "Trusted: TLC; projection of floats to scaled integers with exactness flags (840*pixel, 12*t, 10^6*pixel, w*h*dir). "
      "Not covered: BidirPathTracer's own sampling (it shares the estimator and the pixel pool), general camera "
      "orientations / fields of view, auto-framing helpers, antialias jitter, materials other than Lambert.",
      "TLA+ refinement model checking (TLC) + TLC trace validation of renderer traces + TLC exact-geometry judging",
      "DESIGN.md §5 C20")

check("C05", "model_checking",
      "Transforms.tla gives the exact rational semantics (integer matrix / denominator / offset on a lattice of 1/8 units, "
      "length factor k) of 13 transform atoms - integer and half translations, Scale 2, 1/2, 3, a mirroring VecScale, axis "
      "permutation, shear, determinant-2 and non-orthogonal determinant-1 matrices, quarter and half turns - and TLC "
      "enumerates every chain (JoinedTransform) of <= 2 (thorough 3) atoms in every order. Each chain is built with the "
      "real transforms; TLC (TransformJudge) requires Apply = exact image on 150 lattice points, Inverse o Apply = Apply o "
      "Inverse = id, ApplyBounds encloses the image of every lattice point of the box, ApplyDistance^2 = squared image "
      "distance, and for TransformSolid / TransformSDF / TransformMetaball / TransformCollider around a box: membership of "
      "image points, SDF = k * original (squared, cross-multiplied), unchanged metaball field, ray hits of the image ray at "
      "the original ray parameters (count with / without callback, FirstRayCollision = min) with unit normals equal to the "
      "image of the original normals, ball queries with radius k*r.",
      "Trusted: TLC, projection of coordinates to the 1/8 lattice with exactness flags. 3-D package only (model2d's "
      "transform.go is generated from the same template; MarchingCubesConj is exercised by the C01/C02 checks); rotations "
      "by general angles, general real matrices and toolbox3d's squeezes/pinches are not covered.",
      "TLA+ exact-semantics spec; TLC-generated chains replayed into the real code and judged by TLC", "DESIGN.md §5 C05")

check("C14", "model_checking",
      "Polygon.tla defines, in exact integer arithmetic, simple polygons, regions with holes (even-odd, winding numbers), "
      "and a valid triangulation (input vertices only, every triangle inside the region, pairwise interior-disjoint, "
      "doubled areas summing to the region's, documented orientation). TLC (PolygonGen) enumerates EVERY simple polygon "
      "with <= 6 vertices on a 3x3 grid (thorough: <= 7, and every 4x4 / <= 6 polygon), colinear runs included, and "
      "(RegionGen) every outer ring x holes x island region of a palette; the harness hands each polygon to "
      "model2d.Triangulate (also at dyadic scales 2^-16 and 2^10) and model3d.TriangulateFace (three lattice planes, one "
      "tilted) in every rotation and both orientations, and each region (rings oriented as documented) to "
      "TriangulateMesh and ProfileMesh; TLC (PolygonJudge) evaluates the definition on every output, requires "
      "termination without panic, and for extrusions a closed oriented manifold complex with 6V = 3 * doubled area * h.",
      "Trusted: TLC; matching of output coordinates to input vertices (exact in 2-D, 1e-9 for TriangulateFace, which "
      "rebuilds coordinates from a 2-D basis). Zero-area output triangles are accepted. ReadOFF polygons are covered by "
      "the C15/C16 checks; non-lattice polygons only through the dyadic re-scalings.",
      "TLC-enumerated inputs replayed into the real code; outputs judged by TLC against a TLA+ definition", "DESIGN.md §5 C14")

check("C11", "model_checking",
      "Diagnostics.tla is the definition (edge use counts, fan connectivity, same-direction traversals, orientability as "
      "existence of a consistent flip assignment). TLC (ComplexGen) enumerates EVERY set of <= 4 (thorough 8) oriented "
      "triangles over 4 vertex names and <= 3 (4) over 5 names - open fans, pinches, three faces on an edge, pillows, "
      "flipped neighbours - and every set of <= 4 (5) directed segments; the real NeedsRepair / SingularVertices / "
      "InconsistentEdges / Orientable / Manifold / InconsistentVertices answers must equal the definitions set for set "
      "(DiagJudge). Every subset of the faces of a tetrahedron (and seeded subsets for an octahedron and a box) is flipped "
      "and RepairNormals / RepairNormalsMajority must restore the outward complex; vertex-jittered copies must be merged "
      "back by Repair. Every forest with <= 4 (5) nodes is realised as nested box shells (cavities, islands, siblings in "
      "seeded corners, isotropic and stretched 8x along each axis) and MeshToHierarchy in 3-D and 2-D must return exactly "
      "that forest with no face lost or duplicated and classify probe points by the even-odd rule.",
      "Trusted: TLC; vertex identity by exact coordinates; the harness's own box layout for 'which shells contain the "
      "probe'. RepairNormals only on convex closed shells; hierarchy components are boxes.",
      "TLC-enumerated complexes / forests replayed into the real code and judged by TLC against TLA+ definitions",
      "DESIGN.md §5 C11")

check("C10", "model_checking",
      "MeshSurgery.tla is an abstract model of the library's elementary surgery steps on closed oriented manifold complexes "
      "- face split, edge split, edge flip, edge collapse - with the guards the code applies (canEliminateSegment's "
      "duplicate-face test + link condition, FlipDelaunay's existing-edge test; geometric tests are free booleans); TLC "
      "checks for every behaviour of depth <= 5 (6) from a tetrahedron / octahedron with <= 7 (8) vertices that closed + "
      "manifold + oriented + Euler characteristic are invariant (with the guards the code had before the repairs it "
      "refutes this in 4 steps). TLC (OpsGen) enumerates every chain of <= 2 operations out of 20 (3-D) / 8 (2-D) on an "
      "11-mesh (6-mesh) palette - subdivided boxes with coplanar runs, voxel shapes, thin boxes, icosphere, torus, two "
      "components, pixel outlines with a hole; the real operations run with a deadline and SurgeryJudge checks on the "
      "abstract result of every step: closed, manifold, oriented, same Euler characteristic and component count, no new "
      "vertices under decimation / elimination / flipping, keep-filters, exact area and volume for shape-preserving "
      "operations on lattice meshes, placement rules (blur 0 / 1, edge midpoints, Loop masks, corner cutting), ARAP "
      "constraints met bit-exactly (also through a re-used SeqDeformer) and rigid motions reproduced.",
      "Trusted: TLC; vertex identity = exact coordinates; placement rules, exact area/volume and the ARAP tolerance (1e-5, "
      "well-shaped palette meshes only) are decided by the harness and handed to TLC as booleans. Steps in which a "
      "vertex-moving operation puts two vertices on the same coordinates (e.g. SmoothSq collapsing a square) are undecided. "
      "Quick tier samples 300 + 150 of the two-operation chains (thorough: all). Quality of results is not covered.",
      "TLA+ model checking of abstract surgery (TLC) + TLC-enumerated operation chains replayed into the real code and judged by TLC",
      "DESIGN.md §5 C10")

check("C18", "model_checking",
      "Charts.tla models the chart-growing loop of the surface parameterisation (seed, pop of ANY queued neighbour - the "
      "priority function is abstracted away -, the code's 'would divide the boundary' guard, close, cut of a closed-up "
      "sphere) and TLC checks for every growth order on a tetrahedron, an octahedron and an annulus (and simulated orders "
      "on a 3x3 torus) that every prefix of the growth is a topological disc and that the finished charts are discs that "
      "partition the faces. The real MeshToPlaneGraphs / MeshToPlaneGraphsLimited (size and area limits) / "
      "SplitPlaneGraph run on 12 meshes (closed of genus 0-2, two components, open disc, annulus) and TLC (ChartJudge) "
      "checks partition, disc topology (edge-connected, <= 2 faces per edge, Euler characteristic 1, boundary one simple "
      "cycle) and size limits; Floater97 (3 weightings x 3 boundary shapes, default solver) on the resulting discs and on "
      "one-interior-vertex fans: boundary fixed, interior vertices at the weighted mean, no flipped triangle; "
      "BuildAutomaticUVMap: unit square, pairwise disjoint chart boxes, barycentric round trip through MapFn. TLC "
      "(IslandGen) enumerates every layout of 3 (4) lattice UV islands and compares the point MapFn used for ~250 "
      "half-lattice queries (gutters included) with the exact nearest-point distance.",
      "Trusted: TLC; the weighted-mean (1e-5) and flip tests and the rounding of atlas boxes are done in the harness and "
      "handed to TLC as booleans / integer boxes. Stretch-minimising parameterisation and packing quality are not covered.",
      "TLA+ model checking of the chart loop (TLC) + TLC judging of real decompositions, parameterisations and UV lookups",
      "DESIGN.md §5 C18")

check("C17", "model_checking",
      "KernelGen.tla enumerates exact inputs and KernelJudge.tla (with KernelMath.tla: exact determinants, adjugates, "
      "characteristic polynomials, polynomial products, de Casteljau in integers scaled by 4^n, arc positions of integer "
      "polylines, angle arithmetic in units of pi/12) decides the defining equations on what the real kernels returned: "
      "polynomial root finding on products of integer linear factors and irreducible quadratics (sound, complete, "
      "multiplicities for simple roots); Det / Inverse / MulColumnInv against the adjugate exactly and SVD / eigenvalues / "
      "CharPoly reconstruction on every 2x2 integer matrix with entries -2..2 and palettes of 3x3 and 4x4 matrices "
      "(diagonal in every order, permutations, symmetric, shears), rotations by multiples of pi/2 and 2pi/3 as exact "
      "signed permutations; least squares, sparse Cholesky and BiCGSTAB on integer systems with integer solutions; GSS, "
      "LineSearch, RecursiveLineSearch, GridSearch2D/3D and the toolbox3d wrappers with every evaluation logged (the "
      "result must be at least as good as every sample); CanonicalAngle / AngleDist on multiples of pi/12; Bezier "
      "Eval / Split / Polynomials against integer de Casteljau for degrees 1-7; SegmentCurve / JoinedCurve at every "
      "integer arc position of axis-parallel polylines.",
      "Trusted: TLC; projection of floats to scaled integers with exactness flags and to decimal error buckets. Tolerances "
      "(1e-9 well-conditioned, 1e-6 / 1e-3 for repeated or zero singular values, simple roots only for completeness) are "
      "those the conditioning allows - see KernelJudge.tla. General real inputs are not covered. Built by a delegated "
      "agent from a written brief and reviewed.",
      "TLC-enumerated exact inputs replayed into the real kernels and judged by TLC in integer arithmetic", "DESIGN.md §5 C17")

_pending = "check not built yet in this session (planned, see DESIGN.md §10)"
for pid in ["C01","C02","C03","C04","C05","C06","C07","C08","C10","C11","C12","C13","C14","C15","C16","C17","C18","C20"]:
    if pid not in CHECKS:
        NA[pid] = _pending
NA["C19"] = ("requires quadrature and statistical tests over real-valued densities; no state, history or finite "
             "combinatorial space for a TLA+ specification to decide (DESIGN.md §9)")

# ---- stages added after the first version of the table (appended to the level text of the property)
def more(pid, text):
    CHECKS[pid]["text"] += " Added later: " + text

more("C01", "parameter sweeps of the parametric mesh generators over every stop count (SweepJudge), the meshers' refusal of solids "
            "that are true on the outer lattice layer, coarse-to-fine 'satellite' solids under the documented margin, truthful "
            "geometric region filters, extruded profiles with non-dyadic heights.")
more("C04", "RectOpsJudge: histories of Add / Remove / AddRectSet / RemoveRectSet over two box sets (each the argument of set "
            "operations on the other) against the folded set algebra and the bounding box of what remains.")
more("C05", "axis squeezes / pinches / SmartSqueeze (Squeeze.tla, SqueezeJudge) and every chain of transform atoms around "
            "solids, SDFs and colliders.")
more("C06", "extruded and derived fields, single triangles against a brute-force distance, 2-D segment fields (Accel2Judge).")
more("C07", "ColliderContains with positive and negative margins against exact squared distances; triangle-against-triangle "
            "on integer corners judged by exact orientation determinants (TriPairJudge); every ray asked again by four "
            "goroutines at once; joined colliders shared by two parents; 2-D accelerated colliders (Accel2Judge).")
more("C08", "2-D BVH / grouped / nested colliders and segment fields against the linear scan, grouping as a permutation "
            "(Accel2Judge); composite render objects against SceneJudge.")
more("C09", "EditorJudge: the same mesh object queried after being handed to the library's own editors, and the meshes the "
            "editors hand back; MeshIndexProof: the index protocol for any pool and history length by the TLA+ proof system.")
more("C10", "25 three-dimensional and 12 two-dimensional operations incl. filtered / negative-rate blur, weighted ARAP "
            "(also with different schemes), decimation to budgets a component cannot meet (clause simple).")
more("C11", "FaceOrientations, dual-contouring repair on every subset of a 2x2x2 voxel block, SelfIntersections, the pointer "
            "mesh's fan cluster search through a verif-tagged export, hierarchies with overlapping sibling bounding boxes.")
more("C12", "hook traces of the layer scan and of the dual-contouring window validated against McScanTrace / DcWindowTrace; "
            "block pieces (BlockJudge); coarse-to-fine at ratios up to 64 against the direct fine mesh (C2FJudge); line "
            "drawings at Scale below 1.")
more("C13", "renderers and joined colliders shared between goroutines, GOMAXPROCS 1 under a deadline, a panic inside a library "
            "goroutine attributed by its crash trace; V2FLazyInitProof: the lazy-index protocol for any set of readers by "
            "the TLA+ proof system.")
more("C14", "regions placed in the sweep frame with vertices nudged off a common sweep line by 1e-12..1e-9, polygons with "
            "63..130 vertices in both orders through Triangulate / TriangulateFace / ReadOFF; polygons with spikes whose sides bend "
            "by 1e-1..1e-7 rad judged on harness-computed aggregates (ThinJudge).")
more("C15", "files beyond the 2^16 capacity hints, float32-exact values, ASCII STL numbers at float32 midpoints, segment CSV "
            "writer / reader.")
more("C16", "byte-level faults (cut / replace / insert at evenly spread positions), CSV at the level of fields (CsvFieldJudge), "
            "integers beyond the signed 64-bit range.")
more("C17", "ridge regression with integer penalties, BiCGSTAB on zero right-hand sides and after exact convergence, closed "
            "Bezier arc length, recursive grid searches.")
more("C18", "StretchMinimizingParameterization (boundary, no flip), ExtendBoundaryUVs, PackMeshUVMaps into rectangles, MapFn "
            "bounds / area / ToBounds, discs with long sparse rows, p-norm boundaries for p = 1..5.")
more("C20", "closed-form radiance (uniform emitter, matte furnace, matte floor under a spherical emitter) through the recursive "
            "and the bidirectional tracer at depth limits 1..60 (RadianceJudge); PixelPoolProof: the pixel pool for any "
            "number of pixels and workers by the TLA+ proof system.")
more("C02", "search refinement on decimal lattices (DecimalSearchJudge), knife-edge wedges, scales 2^-30..2^40, the three "
            "triangle modes of dual contouring with the quad-tiling clause, the package-level shortcuts.")
more("C03", "primitives on and around their reported bounds (PrimJudge), derived and wrapper solids, flat shapes on barely "
            "tilted axes with generator-supplied extreme points, axial primitives in a unit of 2^-20.")
