#!/bin/bash
# usage: iso_check.sh <Cxx> [quick|thorough]  - runs a check from a scratch copy of /verif (own build directory and
# evidence) against /repo's working tree, so that it cannot disturb a check running in /verif itself.
set -u
c=$1; tier=${2:-quick}
base=/tmp/isocheck.$$; rm -rf $base; mkdir -p $base
if [ -n "${ISO_OVERLAY:-}" ]; then
  # the committed tree plus the named working-tree files (so that other people's uncommitted edits do not interfere)
  mkdir -p $base/verif; git -C /verif archive HEAD | tar -x -C $base/verif
  for f in $ISO_OVERLAY; do mkdir -p $base/verif/$(dirname $f); cp /verif/$f $base/verif/$f; done
else
  rsync -a --exclude build --exclude replays --exclude .git ${ISO_EXCLUDE:+--exclude $ISO_EXCLUDE} /verif/ $base/verif/
fi
( cd $base/verif && timeout ${ISO_TIMEOUT:-1800} ./check $c $tier ); rc=$?
rm -rf $base
exit $rc
