#!/bin/bash
# usage: iso_check.sh <Cxx> [quick|thorough]  - runs a check from a scratch copy of /verif (own build directory and
# evidence) against /repo's working tree, so that it cannot disturb a check running in /verif itself.
set -u
c=$1; tier=${2:-quick}
base=/tmp/isocheck.$$; rm -rf $base; mkdir -p $base
rsync -a --exclude build --exclude replays --exclude .git ${ISO_EXCLUDE:+--exclude $ISO_EXCLUDE} /verif/ $base/verif/
( cd $base/verif && timeout ${ISO_TIMEOUT:-1800} ./check $c $tier ); rc=$?
rm -rf $base
exit $rc
