----------------------------- MODULE VoxelJudge -----------------------------
(***************************************************************************)
(* Judge for colliders, distance fields and accelerated queries over voxel *)
(* worlds (C05 conjugacy, C06, C07, C08, C20 nearest hit).                 *)
(* record: [id, site, variant, panic, voxels: <<c...>>,                    *)
(*   rays:    <<[o, d, n, ncb, nnil, hits: <<[t4, axis, sgn]>>, bad,       *)
(*              first: [ok, t4, axis, sgn]]>>,                             *)
(*   spheres: <<[c, m, hit]>>      (ball of radius m/2 around c)           *)
(*   sdf:     <<[p, sgn, d2, np, axis, nsgn, bad]>>,                       *)
(*   contains:<<[p, inside, mg]>>]  (mg: margin in half units, signed)      *)
(* `bad` counts what the harness could not project exactly (a ray          *)
(* parameter that is not a multiple of 1/4, a normal that is not a unit    *)
(* axis vector, a squared distance that is not an integer).                *)
(* Sites: mesh colliders / mesh SDFs of the voxel surface, and objects the  *)
(* library DERIVES whose true shape is the same voxel world: ColliderToSDF  *)
(* (d2 projected with the bisection resolution), and - for worlds that are  *)
(* a pixel set times a z range - ProfileCollider, ProfileSolid, ProfileSDF, *)
(* ProfilePointSDF over the 2-D outline.  Fields that offer no nearest      *)
(* point / normal report np = <<>> / axis = 0 (not decided).  Colliders     *)
(* without triangles report nlin = n, firstsame, hitlin = hit: clause       *)
(* "scan" is vacuous for them.                                              *)
(* Queries that are not in general position are skipped (and counted by    *)
(* the harness-independent operator GPcount for the evidence).             *)
(***************************************************************************)
EXTENDS VoxelSurface, TLC, Json

Recs == ndJsonDeserialize("records.ndjson")
VARIABLES rec, done
R == Recs[rec]
V == {<<R.voxels[i][1], R.voxels[i][2], R.voxels[i][3]>> : i \in 1..Len(R.voxels)}
P3(s) == <<s[1], s[2], s[3]>>

ObsHits(r) == {<<r.hits[i].t4, r.hits[i].axis, r.hits[i].sgn>> : i \in 1..Len(r.hits)}
MinT(S) == CHOOSE t \in {h[1] : h \in S} : \A h \in S : t <= h[1]

RayOK(c, r) ==
    LET o == P3(r.o) d == P3(r.d) IN
    ~GP(V, o, d) \/
    CASE c = "count"  -> r.n = HitCount(V, o, d) /\ r.ncb = r.n /\ r.nnil = r.n
      [] c = "hits"   -> r.bad = 0 /\ ObsHits(r) = Hits(V, o, d) /\ Len(r.hits) = Cardinality(ObsHits(r))
      [] c = "first"  -> /\ r.first.ok = (HitCount(V, o, d) > 0)
                         /\ r.first.ok => <<r.first.t4, r.first.axis, r.first.sgn>> \in
                                             {h \in Hits(V, o, d) : h[1] = MinT(Hits(V, o, d))}
      [] c = "parity" -> ((r.n % 2) = 1) = (Side(V, o) = "in")
      [] OTHER -> TRUE

SphereOK(s) ==
    LET d2 == D2(V, P3(s.c)) IN
    (d2 < s.m * s.m => s.hit) /\ (d2 > s.m * s.m => ~s.hit)

\* ColliderContains(p, margin mg/2): inside and further than the margin from the surface; with a negative margin
\* also outside points closer than -margin.  Points at exactly the margin (and, without a margin, on the surface)
\* are not decided.
ContainsOK(q) ==
    LET p == P3(q.p)
        m2 == q.mg * q.mg IN
    CASE q.mg = 0 -> Side(V, p) = "on" \/ q.inside = (Side(V, p) = "in")
      [] V = {} -> ~q.inside
      [] q.mg > 0 -> D2(V, p) = m2 \/ q.inside = (Side(V, p) = "in" /\ D2(V, p) > m2)
      [] q.mg < 0 -> D2(V, p) = m2 \/ q.inside = (Side(V, p) = "in" \/ D2(V, p) < m2)

SdfOK(c, q) ==
    LET p == P3(q.p) IN
    CASE c = "sdf-sign" -> Side(V, p) = "on" \/ (q.sgn = 1) = (Side(V, p) = "in")
      [] c = "sdf-dist" -> q.bad = 0 /\ q.d2 = D2(V, p)
      [] c = "sdf-point" -> Len(q.np) = 0 \/ \E f \in NearestFaces(V, p) : P3(q.np) = NearestOn(f, p)
      [] c = "sdf-normal" -> q.axis = 0 \/ \E f \in NearestFaces(V, p) : f[1] = q.axis /\ f[5] = q.nsgn
      [] OTHER -> TRUE

Holds(c) ==
    CASE c = "panic" -> R.panic = ""
      [] c \in {"count", "hits", "first", "parity"} -> V = {} \/ \A i \in 1..Len(R.rays) : RayOK(c, R.rays[i])
      [] c = "sphere" -> V = {} \/ \A i \in 1..Len(R.spheres) : SphereOK(R.spheres[i])
      \* C08: the accelerated answer equals the literal linear scan over the individual
      \* triangles for EVERY query, degenerate ones (origin on the surface, rays inside a
      \* face plane, tangent balls) included
      [] c = "scan" -> /\ \A i \in 1..Len(R.rays) : R.rays[i].n = R.rays[i].nlin /\ R.rays[i].firstsame
                       /\ \A i \in 1..Len(R.spheres) : R.spheres[i].hit = R.spheres[i].hitlin
                       /\ \A i \in 1..Len(R.multi) : R.multi[i].hit = R.multi[i].hitlin /\ R.multi[i].n = R.multi[i].nlin
      \* C07: a segment touches the surface iff the ray from a towards b has a hit with
      \* parameter in [0,1] (direction b-a is in half units, b is reached at t = 1/2, i.e. t4 <= 2)
      [] c = "segment" -> V = {} \/ \A i \in 1..Len(R.multi) : R.multi[i].kind # "seg" \/
                             LET o == P3(R.multi[i].a)
                                 d == [k \in 1..3 |-> R.multi[i].b[k] - R.multi[i].a[k]] IN
                             \/ ~GP(V, o, d) \/ Side(V, P3(R.multi[i].b)) = "on"
                             \/ \E k \in 1..3 : d[k] > 2 \/ d[k] < -2
                             \/ R.multi[i].hit = (\E h \in Hits(V, o, d) : h[1] <= 2)
      [] c \in {"sdf-sign", "sdf-dist", "sdf-point", "sdf-normal"} -> V = {} \/ \A i \in 1..Len(R.sdf) : SdfOK(c, R.sdf[i])
      [] c = "contains" -> \A i \in 1..Len(R.contains) : ContainsOK(R.contains[i])
      \* every ray asked again by four goroutines at once was answered as it was answered to one caller
      [] c = "concurrent" -> R.concbad = 0
      [] OTHER -> TRUE
Clauses == {"panic", "scan", "segment", "count", "hits", "first", "parity", "sphere", "sdf-sign", "sdf-dist", "sdf-point", "sdf-normal", "contains", "concurrent"}
Fails == {c \in Clauses : ~Holds(c)}
GPcount == IF V = {} THEN 0 ELSE Cardinality({i \in 1..Len(R.rays) : GP(V, P3(R.rays[i].o), P3(R.rays[i].d))})

Init == rec \in 1..Len(Recs) /\ done = FALSE
Next == /\ ~done /\ done' = TRUE /\ UNCHANGED rec
        /\ \A c \in Fails : PrintT(<<"REJECT", R.id, 0, c>>)
        /\ PrintT(<<"COVER", R.id, GPcount>>)
Spec == Init /\ [][Next]_<<rec, done>>
=============================================================================
