------------------------------ MODULE PrimJudge ------------------------------
(***************************************************************************)
(* Judge for the primitive shapes of model3d / model2d / toolbox3d with     *)
(* INTEGER defining data (stage "prims" of C03, C06 and C07).  The harness   *)
(* (harness/cmd/drv/c03_prims.go) runs the real code on exact inputs -       *)
(* lattice points in QUARTER units, integer ray directions - and projects    *)
(* the floating point answers to scaled integers with an exactness flag      *)
(* (|x*K - round(x*K)| < 1e-6) or, where the property is only a tolerance     *)
(* statement, to booleans.  Every clause is decided here; where the true      *)
(* answer is an integer expression of the data it is computed here, exactly. *)
(* All coordinates q, o, c, p4, bmin ... are integers in quarter units;       *)
(* 2D shapes use z = 0 and dim = 2.                                           *)
(*                                                                           *)
(* Exact shapes  (field shape, integer list data)                            *)
(*   "sphere"  <<cx,cy,cz,r>>            sphere / circle                      *)
(*   "box"     <<lx,ly,lz,hx,hy,hz>>     Rect (3D / 2D)                       *)
(*   "poly"    <<nx,ny,nz,m4, ...>>      ConvexPolytope: n.p <= m4 per group  *)
(*   "cyl"     <<p1x,p1y,p1z,ax,ay,az,r>> cylinder from P1 to P1 + 4a (a in   *)
(*             whole units), any integer axis direction                      *)
(*   "capsule" same data                                                     *)
(*   "cone"    <<bx,by,bz,ax,ay,az,r>>   base centre, tip = base + 4a          *)
(*   "tri2"    <<x1,y1,x2,y2,x3,y3>>     2D triangle                          *)
(*   "bitmap"  <<w,h,b_1..b_wh>>         BitmapToSolid: pixel (i,j) covers     *)
(*             [i,i+1) x [j,j+1)                                              *)
(*   "rbox"    <<lx,ly,lz,hx,hy,hz,k>>   the points closer than k to the box   *)
(*             (SDFToSolid with an outset, NewColliderSolidInset with a        *)
(*             negative inset); squared distance = k^2 is the boundary         *)
(*   "shell"   <<lx,ly,lz,hx,hy,hz,r>>   the points closer than r to the       *)
(*             SURFACE of the box (NewColliderSolidHollow)                     *)
(*   "boxsphere" <<lo, hi, cx,cy,cz, r>> box intersected with a ball            *)
(*             (CheckedFuncSolid around a predicate that ignores the box)      *)
(*   "annulus" <<ax,ay,az,L,r0,r1,y0,y1>> RevolveSolid of the 2-D rect          *)
(*             [r0,r1] x [y0,y1] around the integer axis a of integer length L: *)
(*             with s = p.a: y0 L < s < y1 L and r0^2 L^2 < |p|^2 L^2 - s^2 <   *)
(*             r1^2 L^2 (no inner bound when r0 = 0)                           *)
(*   "none"    no exact predicate                                            *)
(* Side(p) is "in" (strict interior), "out" (strict exterior) or "on"; points *)
(* exactly on a surface are never judged.                                    *)
(*                                                                           *)
(* kind "solid" (C03): [id, site, variant, panic, dim, bok, bexact, bmin,     *)
(*    bmax, plo, phi, nprobe, ncontained, runs: <<<<start,len>>>>, nleaks,    *)
(*    leaks, ncuts, cuts, shape, data]                                       *)
(*    The solid was probed on the whole quarter lattice plo..phi (its         *)
(*    bounding box expanded by 1.5 units); probe i (1-based, x fastest) is    *)
(*    contained iff it lies in one of the runs (runs only for exact shapes).  *)
(*    bounds - Min/Max finite and min <= max (bok, float comparison; and on   *)
(*             the projected integers where exact)                           *)
(*    leak   - no contained probe outside [Min, Max] (nleaks, decided with     *)
(*             the float bounds; re-decided here on integers where the         *)
(*             bounds are exact)                                              *)
(*    cut    - no probe of the true shape is rejected: harness-side            *)
(*             definition (ncuts: polytope constraints without bounds,         *)
(*             metaball field sum > threshold computed from MetaballField)     *)
(*             and every probe with Side = "in" is contained                  *)
(*    panic  - no call panicked                                              *)
(* kind "sdf" (C06): [.., shape, data, qs: <<[q, tag, onsurf, sign, agree,     *)
(*    pdist, psurf, nunit, nout, ncons, v4, v4x, v256, p4, p4x, n1, n1x,       *)
(*    nonormal]>>]   (nonormal: the field has no NormalSDF)                    *)
(*    sign   - SDF > 0 iff Contains (skipped when |SDF| < 1e-9)               *)
(*    agree  - PointSDF and NormalSDF return the value of SDF                 *)
(*    point  - |p - q| = |SDF(q)| and SDF(p) = 0 (1e-9)                       *)
(*    normal - unit, outward (SDF decreases along it from p), and equal to     *)
(*             -grad SDF / the direction p -> q at smooth points, inside the    *)
(*             normal cone at creases of convex shapes                        *)
(*    exact  - sphere / box: the value is the exact distance: equal to the     *)
(*             integer r - s when |q - c|^2 = s^2, bracketed to 1/256 unit      *)
(*             otherwise; box: the point is the exact nearest point, the        *)
(*             normal the unit normal of a face through it                    *)
(* kind "collider" (C07): [.., rays: <<[o, d, e, n, ncb, nnil, tpos, onsurf,   *)
(*    nunit, nout, nsurf, firstok, gp, inside, t24, t24x]>>, balls: <<[c, r4,  *)
(*    hit, near, expect]>>]    (the real direction is d * 2^e)                *)
(*    count  - returned count = callbacks = count with nil callback           *)
(*    hits   - t >= 0, hit point on the surface (1e-7), unit outward normal     *)
(*             (that it is THE surface normal is only asked of rays in general  *)
(*             position: through an apex / rim the direction is ill-defined)    *)
(*             that is the surface normal                                     *)
(*    first  - FirstRayCollision exists iff count > 0 and is the minimum       *)
(*    parity - closed shape: count odd iff Contains(origin); only rays in       *)
(*             general position (gp: no two hits within 1e-6, no grazing hit,    *)
(*             origin off the surface, not through a rim / apex / edge)         *)
(*    ball   - SphereCollision(c, r) iff |SDF(c)| <= r (skipped within 1e-6);    *)
(*             sphere / box: decided exactly here, tangency skipped            *)
(*    exact  - sphere: number of hits from the sign analysis of                 *)
(*             |o + t d - c|^2 = r^2 (zero discriminant and roots at 0 skipped); *)
(*             box: slab method with rationals: count and parameters           *)
(***************************************************************************)
EXTENDS Integers, Sequences, FiniteSets, TLC, Json

Recs == ndJsonDeserialize("records.ndjson")
VARIABLES rec, done
R == Recs[rec]

Dot(a, b) == a[1] * b[1] + a[2] * b[2] + a[3] * b[3]
Sub(a, b) == <<a[1] - b[1], a[2] - b[2], a[3] - b[3]>>
N2(a) == Dot(a, a)
Abs(x) == IF x < 0 THEN -x ELSE x
Min2(a, b) == IF a < b THEN a ELSE b
Max2(a, b) == IF a < b THEN b ELSE a
P3(s) == <<s[1], s[2], s[3]>>
Dims == 1..R.dim
D == R.data

\* integer square root where it exists (else -1)
Sqrt(n) == IF \E s \in 0..400 : s * s = n THEN CHOOSE s \in 0..400 : s * s = n ELSE -1

\* ---------------------------------------------------------------- exact membership
Cmp(x, y) == IF x < y THEN "in" ELSE IF x > y THEN "out" ELSE "on"
\* combine: inside needs all "in", outside one "out"
Both(a, b) == IF a = "out" \/ b = "out" THEN "out" ELSE IF a = "in" /\ b = "in" THEN "in" ELSE "on"

SideSphere(p) == Cmp(N2(Sub(p, <<D[1], D[2], D[3]>>)), D[4] * D[4])

BoxLo == <<D[1], D[2], D[3]>>
BoxHi == <<D[4], D[5], D[6]>>
SideBox(p) == IF \E a \in Dims : p[a] < BoxLo[a] \/ p[a] > BoxHi[a] THEN "out"
              ELSE IF \A a \in Dims : BoxLo[a] < p[a] /\ p[a] < BoxHi[a] THEN "in" ELSE "on"

NCons == Len(D) \div 4
ConN(k) == <<D[4 * k - 3], D[4 * k - 2], D[4 * k - 1]>>
SidePoly(p) == IF \E k \in 1..NCons : Dot(ConN(k), p) > D[4 * k] THEN "out"
               ELSE IF \A k \in 1..NCons : Dot(ConN(k), p) < D[4 * k] THEN "in" ELSE "on"

\* axis shapes: v = p - P1 (quarter units), a whole units, s = v.a in [0, 4 L2]
AxP == <<D[1], D[2], D[3]>>
AxA == <<D[4], D[5], D[6]>>
AxR == D[7]
L2 == N2(AxA)
SideCyl(p) == LET v == Sub(p, AxP)
                  s == Dot(v, AxA) IN
              Both(Both(Cmp(0, s), Cmp(s, 4 * L2)), Cmp(N2(v) * L2 - s * s, AxR * AxR * L2))
SideCapsule(p) == LET v == Sub(p, AxP)
                      s == Dot(v, AxA)
                      w == Sub(v, <<4 * AxA[1], 4 * AxA[2], 4 * AxA[3]>>) IN
                  IF s < 0 THEN Cmp(N2(v), AxR * AxR)
                  ELSE IF s > 4 * L2 THEN Cmp(N2(w), AxR * AxR)
                  ELSE Cmp(N2(v) * L2 - s * s, AxR * AxR * L2)
\* cone: radial^2 * (4 L2)^2 <= r^2 (4 L2 - s)^2 with radial^2 = (|v|^2 L2 - s^2) / L2
SideCone(p) == LET v == Sub(p, AxP)
                   s == Dot(v, AxA) IN
               Both(Both(Cmp(0, s), Cmp(s, 4 * L2)),
                    Cmp(16 * L2 * (N2(v) * L2 - s * s), AxR * AxR * (4 * L2 - s) * (4 * L2 - s)))

Orient(a, b, c) == (b[1] - a[1]) * (c[2] - a[2]) - (b[2] - a[2]) * (c[1] - a[1])
SideTri(p) == LET a == <<D[1], D[2]>> b == <<D[3], D[4]>> c == <<D[5], D[6]>>
                  sg == IF Orient(a, b, c) > 0 THEN 1 ELSE -1
                  o1 == sg * Orient(a, b, p) o2 == sg * Orient(b, c, p) o3 == sg * Orient(c, a, p) IN
              IF o1 < 0 \/ o2 < 0 \/ o3 < 0 THEN "out"
              ELSE IF o1 > 0 /\ o2 > 0 /\ o3 > 0 THEN "in" ELSE "on"

SideBitmap(p) == LET w == D[1] h == D[2] IN
                 IF p[1] < 0 \/ p[2] < 0 \/ p[1] >= 4 * w \/ p[2] >= 4 * h THEN "out"
                 ELSE IF D[3 + (p[1] \div 4) + w * (p[2] \div 4)] = 1 THEN "in" ELSE "out"

\* ---- derived solids (BoxD2 / BoxIn are defined with the distance fields below)
BoxD2s(q) == LET ex(a) == IF a \in Dims THEN Max2(Max2(BoxLo[a] - q[a], q[a] - BoxHi[a]), 0) ELSE 0 IN
             ex(1) * ex(1) + ex(2) * ex(2) + ex(3) * ex(3)
BoxIns(q) == LET m(a) == Min2(q[a] - BoxLo[a], BoxHi[a] - q[a]) IN
             IF R.dim = 2 THEN Min2(m(1), m(2)) ELSE Min2(m(1), Min2(m(2), m(3)))
SideRBox(p) == Cmp(BoxD2s(p), D[7] * D[7])
SideShell(p) == IF SideBox(p) = "out" THEN Cmp(BoxD2s(p), D[7] * D[7]) ELSE Cmp(BoxIns(p), D[7])
SideBoxSphere(p) == Both(SideBox(p), Cmp(N2(Sub(p, <<D[7], D[8], D[9]>>)), D[10] * D[10]))
SideAnnulus(p) == LET a == <<D[1], D[2], D[3]>>
                      L == D[4]
                      s == Dot(p, a)
                      rad == N2(p) * L * L - s * s IN       \* (radial distance * L)^2, quarter units
                  Both(Both(Cmp(D[7] * L, s), Cmp(s, D[8] * L)),
                       Both(IF D[5] = 0 THEN "in" ELSE Cmp(D[5] * D[5] * L * L, rad), Cmp(rad, D[6] * D[6] * L * L)))

Side(p) == CASE R.shape = "sphere" -> SideSphere(p)
             [] R.shape = "rbox" -> SideRBox(p)
             [] R.shape = "shell" -> SideShell(p)
             [] R.shape = "boxsphere" -> SideBoxSphere(p)
             [] R.shape = "annulus" -> SideAnnulus(p)
             [] R.shape = "box" -> SideBox(p)
             [] R.shape = "poly" -> SidePoly(p)
             [] R.shape = "cyl" -> SideCyl(p)
             [] R.shape = "capsule" -> SideCapsule(p)
             [] R.shape = "cone" -> SideCone(p)
             [] R.shape = "tri2" -> SideTri(p)
             [] R.shape = "bitmap" -> SideBitmap(p)
             [] OTHER -> "on"

\* ---------------------------------------------------------------- kind "solid"
W(a) == R.phi[a] - R.plo[a] + 1
NP == W(1) * W(2) * W(3)
Probe(i) == <<R.plo[1] + ((i - 1) % W(1)), R.plo[2] + (((i - 1) \div W(1)) % W(2)),
              R.plo[3] + ((i - 1) \div (W(1) * W(2)))>>
Obs == UNION {R.runs[k][1]..(R.runs[k][1] + R.runs[k][2] - 1) : k \in 1..Len(R.runs)}

SolidHolds(c) ==
    CASE c = "panic"  -> R.panic = ""
      [] c = "bounds" -> R.panic # "" \/ (R.bok /\ (R.bexact => \A a \in Dims : R.bmin[a] <= R.bmax[a]))
      [] c = "leak"   -> /\ R.nleaks = 0
                         /\ (R.shape # "none" /\ R.bexact) =>
                                \A i \in Obs : \A a \in Dims : R.bmin[a] <= Probe(i)[a] /\ Probe(i)[a] <= R.bmax[a]
      [] c = "cut"    -> /\ R.ncuts = 0
                         /\ R.shape # "none" =>
                                LET obs == Obs IN
                                /\ NP = R.nprobe
                                /\ {i \in 1..NP : Side(Probe(i)) = "in"} \subseteq obs
      [] OTHER -> TRUE

\* ---------------------------------------------------------------- kind "sdf"
\* squared distance from q to the (closed) box, and the distance to the nearest face from inside
BoxD2(q) == LET ex(a) == IF a \in Dims THEN Max2(Max2(BoxLo[a] - q[a], q[a] - BoxHi[a]), 0) ELSE 0 IN
            ex(1) * ex(1) + ex(2) * ex(2) + ex(3) * ex(3)
BoxIn(q) == LET m(a) == Min2(q[a] - BoxLo[a], BoxHi[a] - q[a]) IN
            IF R.dim = 2 THEN Min2(m(1), m(2)) ELSE Min2(m(1), Min2(m(2), m(3)))
OnBox(p) == /\ \A a \in Dims : BoxLo[a] <= p[a] /\ p[a] <= BoxHi[a]
            /\ \E a \in Dims : p[a] = BoxLo[a] \/ p[a] = BoxHi[a]
\* the value v (distance d >= 0 expected, squared n2): exact where n2 is a square, bracketed otherwise
\* d256 is the observed distance in 1/256 units = 1/64 quarter units
DistOK(n2, d4, d4x, d256) ==
    /\ Sqrt(n2) >= 0 => (d4x /\ d4 = Sqrt(n2))
    /\ d256 >= 0
    /\ Max2(d256 - 1, 0) * Max2(d256 - 1, 0) <= 4096 * n2
    /\ 4096 * n2 <= (d256 + 1) * (d256 + 1)

SdfExact(q) ==
    LET p == P3(q.q) IN
    CASE R.shape = "sphere" ->
            \* SDF = r - |q - c|
            DistOK(N2(Sub(p, <<D[1], D[2], D[3]>>)), D[4] - q.v4, q.v4x, 64 * D[4] - q.v256)
      [] R.shape = "box" ->
            IF SideBox(p) = "out"
            THEN /\ DistOK(BoxD2(p), -q.v4, q.v4x, -q.v256)
                 \* the nearest point is the clamped query, the normal that of a face through it
                 /\ q.p4x /\ \A a \in Dims : q.p4[a] = Max2(BoxLo[a], Min2(BoxHi[a], p[a]))
            ELSE /\ q.v4x /\ q.v4 = BoxIn(p)
                 /\ q.p4x /\ OnBox(P3(q.p4)) /\ N2(Sub(P3(q.p4), p)) = BoxIn(p) * BoxIn(p)
      [] OTHER -> TRUE
BoxNormalOK(q) ==
    R.shape # "box" \/ q.nonormal \/      \* extruded profiles offer no NormalSDF
    /\ q.n1x /\ q.p4x
    /\ \E a \in Dims : /\ q.n1[a] \in {-1, 1} /\ \A b \in (1..3) \ {a} : q.n1[b] = 0
                       /\ q.p4[a] = (IF q.n1[a] = 1 THEN BoxHi[a] ELSE BoxLo[a])

SdfHolds(c) ==
    CASE c = "panic"  -> R.panic = ""
      [] c = "sign"   -> \A i \in 1..Len(R.qs) : R.qs[i].onsurf \/ R.qs[i].sign
      [] c = "agree"  -> \A i \in 1..Len(R.qs) : R.qs[i].agree
      \* |SDF| is the minimum over the faces (brute force by the harness, where it has such an oracle)
      [] c = "distance" -> \A i \in 1..Len(R.qs) : R.qs[i].orc
      [] c = "point"  -> \A i \in 1..Len(R.qs) : R.qs[i].pdist /\ R.qs[i].psurf
      [] c = "normal" -> \A i \in 1..Len(R.qs) : R.qs[i].nunit /\ R.qs[i].nout /\ R.qs[i].ncons
      [] c = "exact"  -> \A i \in 1..Len(R.qs) : SdfExact(R.qs[i]) /\ BoxNormalOK(R.qs[i])
      [] OTHER -> TRUE

\* ---------------------------------------------------------------- kind "collider"
\* rationals <<num, den>>, den > 0
Q(n, d) == IF d > 0 THEN <<n, d>> ELSE <<-n, -d>>
Lt(a, b) == a[1] * b[2] < b[1] * a[2]
Le(a, b) == a[1] * b[2] <= b[1] * a[2]
Eq(a, b) == a[1] * b[2] = b[1] * a[2]
Zero == <<0, 1>>

\* the box as a 3D slab system; a 2D box is the slab -1 < z < 1 met by rays with z = 0
SLo == IF R.dim = 2 THEN <<D[1], D[2], -1>> ELSE BoxLo
SHi == IF R.dim = 2 THEN <<D[4], D[5], 1>> ELSE BoxHi
Axes(d) == {a \in 1..3 : d[a] # 0}
Enter(o, d, a) == IF d[a] > 0 THEN Q(SLo[a] - o[a], d[a]) ELSE Q(SHi[a] - o[a], d[a])
Leave(o, d, a) == IF d[a] > 0 THEN Q(SHi[a] - o[a], d[a]) ELSE Q(SLo[a] - o[a], d[a])
ParallelInside(o, d) == \A a \in (1..3) \ Axes(d) : SLo[a] < o[a] /\ o[a] < SHi[a]
ParallelTouch(o, d) == \E a \in (1..3) \ Axes(d) : o[a] = SLo[a] \/ o[a] = SHi[a]
TEnter(o, d) == LET A == Axes(d) IN CHOOSE t \in {Enter(o, d, a) : a \in A} : \A a \in A : Le(Enter(o, d, a), t)
TLeave(o, d) == LET A == Axes(d) IN CHOOSE t \in {Leave(o, d, a) : a \in A} : \A a \in A : Le(t, Leave(o, d, a))
\* general position of a ray with respect to the box: no grazing, no start on the surface,
\* the face that is entered / left is unique (not through an edge or corner)
GPBox(o, d) ==
    /\ Axes(d) # {}
    /\ ~ParallelTouch(o, d)
    /\ ~Eq(TEnter(o, d), TLeave(o, d))
    /\ ~Eq(TEnter(o, d), Zero) /\ ~Eq(TLeave(o, d), Zero)
    /\ Cardinality({a \in Axes(d) : Eq(Enter(o, d, a), TEnter(o, d))}) = 1
    /\ Cardinality({a \in Axes(d) : Eq(Leave(o, d, a), TLeave(o, d))}) = 1
BoxHits(o, d) == ParallelInside(o, d) /\ Lt(TEnter(o, d), TLeave(o, d)) /\ Lt(Zero, TLeave(o, d))
\* observed parameter: t24 = 24 * t * 2^e = 6 * tau with tau = (face - o) / d in quarter units
SameT(t24, tau) == t24 * tau[2] = 6 * tau[1]

RayExact(r) ==
    LET o == P3(r.o) d == P3(r.d) IN
    CASE R.shape = "sphere" ->
            LET w == Sub(o, <<D[1], D[2], D[3]>>)
                A == N2(d)
                B == 2 * Dot(d, w)
                C == N2(w) - D[4] * D[4]
                disc == B * B - 4 * A * C IN
            IF disc < 0 THEN r.n = 0
            ELSE IF disc = 0 \/ C = 0 THEN TRUE          \* tangent ray / origin on the surface: not decided
            ELSE IF C < 0 THEN r.n = 1                    \* origin inside: one root on each side of 0
            ELSE IF B < 0 THEN r.n = 2 ELSE r.n = 0       \* both roots have the sign of -B
      [] R.shape = "box" ->
            \/ ~GPBox(o, d)
            \/ IF ~BoxHits(o, d) THEN r.n = 0
               ELSE IF Lt(Zero, TEnter(o, d))
               THEN r.n = 2 /\ Len(r.t24) = 2 /\ r.t24x /\ SameT(r.t24[1], TEnter(o, d)) /\ SameT(r.t24[2], TLeave(o, d))
               ELSE r.n = 1 /\ Len(r.t24) = 1 /\ r.t24x /\ SameT(r.t24[1], TLeave(o, d))
      [] OTHER -> TRUE

\* ball of radius r4 around c against the SURFACE of the shape; "skip" at tangency
BallExact(b) ==
    LET c == P3(b.c) r == b.r4 IN
    CASE R.shape = "sphere" ->
            LET n2 == N2(Sub(c, <<D[1], D[2], D[3]>>))
                far == (D[4] + r) * (D[4] + r)
                near == IF D[4] > r THEN (D[4] - r) * (D[4] - r) ELSE -1 IN
            IF n2 = far \/ n2 = near THEN TRUE
            ELSE b.hit = (n2 < far /\ n2 > near)
      [] R.shape = "box" ->
            IF SideBox(c) = "out" THEN (BoxD2(c) = r * r \/ b.hit = (BoxD2(c) < r * r))
            ELSE (BoxIn(c) = r \/ b.hit = (BoxIn(c) < r))
      [] OTHER -> TRUE

ColHolds(c) ==
    CASE c = "panic"  -> R.panic = ""
      [] c = "count"  -> \A i \in 1..Len(R.rays) : R.rays[i].n = R.rays[i].ncb /\ R.rays[i].n = R.rays[i].nnil
      [] c = "hits"   -> \A i \in 1..Len(R.rays) : LET r == R.rays[i] IN r.tpos /\ r.onsurf /\ r.nunit /\ r.nout /\ (r.nsurf \/ ~r.gp)
      [] c = "first"  -> \A i \in 1..Len(R.rays) : R.rays[i].firstok
      [] c = "parity" -> \A i \in 1..Len(R.rays) : ~R.rays[i].gp \/ ((R.rays[i].n % 2 = 1) = R.rays[i].inside)
      [] c = "ball"   -> \A i \in 1..Len(R.balls) : LET b == R.balls[i] IN
                            (b.near \/ b.hit = b.expect) /\ BallExact(b)
      [] c = "exact"  -> \A i \in 1..Len(R.rays) : RayExact(R.rays[i])
      [] OTHER -> TRUE

\* ----------------------------------------------------------------
Holds(c) == CASE R.kind = "solid" -> SolidHolds(c)
              [] R.kind = "sdf" -> SdfHolds(c)
              [] R.kind = "collider" -> ColHolds(c)
              [] OTHER -> TRUE
Clauses == {"panic", "bounds", "leak", "cut", "sign", "agree", "distance", "point", "normal", "exact", "count", "hits", "first",
            "parity", "ball"}
Fails == {c \in Clauses : ~Holds(c)}

Init == rec \in 1..Len(Recs) /\ done = FALSE
Next == /\ ~done /\ done' = TRUE /\ UNCHANGED rec
        /\ \A c \in Fails : PrintT(<<"REJECT", R.id, 0, c>>)
Spec == Init /\ [][Next]_<<rec, done>>
=============================================================================
