---------------------------- MODULE VoxelSurface ----------------------------
(***************************************************************************)
(* Exact geometry of voxel worlds (C05, C06, C07, C08, C20).               *)
(*                                                                         *)
(* A world is a finite set V of unit cubes <<x,y,z>> (cube [x,x+1]^3).     *)
(* All query coordinates are integers in HALF units (real = n/2); ray      *)
(* directions are small integer vectors in real units.  Everything below   *)
(* is integer arithmetic, so these operators are exact oracles:            *)
(*   Faces(V)      boundary unit squares <<axis, plane, u, v, sign>>       *)
(*   Side(V, p)    "in" / "out" / "on" for a half-unit point               *)
(*   D2(V, p)      squared distance to the surface (half units squared)    *)
(*   Hits(V, o, d) ray hits <<t4, axis, sign>>, t4 = 4 * ray parameter     *)
(*   GP(V, o, d)   general position: no hit on an edge, a vertex or a      *)
(*                 diagonal of a unit face, origin not on the surface,     *)
(*                 no ray running inside a face plane through that face    *)
(* The brute-force answer of the property (a linear scan over the          *)
(* individual triangles) coincides with these on rays in general position, *)
(* because every face of the harness mesh is one unit square split along   *)
(* one of its two diagonals.                                               *)
(***************************************************************************)
EXTENDS Integers, Sequences, FiniteSets

Other(a) == IF a = 1 THEN <<2, 3>> ELSE IF a = 2 THEN <<3, 1>> ELSE <<1, 2>>
UnitV(a, s) == [k \in 1..3 |-> IF k = a THEN s ELSE 0]
AddV(p, q) == [k \in 1..3 |-> p[k] + q[k]]

\* boundary faces: cube c has a face on side s of axis a iff the neighbour there is empty
Faces(V) == {<<a, (IF s = 1 THEN c[a] + 1 ELSE c[a]), c[Other(a)[1]], c[Other(a)[2]], s>> :
               <<c, a, s>> \in {<<cc, aa, ss>> \in V \X (1..3) \X {-1, 1} : AddV(cc, UnitV(aa, ss)) \notin V}}

\* cubes whose closed cube contains the half-unit point p
Touching(p) == {c \in {<<x, y, z>> : x \in ((p[1] - 2) \div 2)..(p[1] \div 2),
                                     y \in ((p[2] - 2) \div 2)..(p[2] \div 2),
                                     z \in ((p[3] - 2) \div 2)..(p[3] \div 2)} :
                  \A k \in 1..3 : 2 * c[k] <= p[k] /\ p[k] <= 2 * c[k] + 2}
Side(V, p) == IF Touching(p) \subseteq V THEN "in"
              ELSE IF Touching(p) \cap V = {} THEN "out" ELSE "on"

Sq(x) == x * x
ClampD(x, lo, hi) == IF x < lo THEN lo - x ELSE IF x > hi THEN x - hi ELSE 0
FaceD2(f, p) == LET a == f[1] u == Other(a)[1] v == Other(a)[2] IN
                Sq(p[a] - 2 * f[2]) + Sq(ClampD(p[u], 2 * f[3], 2 * f[3] + 2)) + Sq(ClampD(p[v], 2 * f[4], 2 * f[4] + 2))
MinOfSet(S) == CHOOSE x \in S : \A y \in S : x <= y
D2(V, p) == MinOfSet({FaceD2(f, p) : f \in Faces(V)})
NearestFaces(V, p) == {f \in Faces(V) : FaceD2(f, p) = D2(V, p)}
\* the point of face f nearest to p (half units)
NearestOn(f, p) == LET a == f[1] u == Other(a)[1] v == Other(a)[2]
                       cl(x, lo, hi) == IF x < lo THEN lo ELSE IF x > hi THEN hi ELSE x
                   IN [k \in 1..3 |-> IF k = a THEN 2 * f[2]
                                      ELSE IF k = u THEN cl(p[u], 2 * f[3], 2 * f[3] + 2)
                                      ELSE cl(p[v], 2 * f[4], 2 * f[4] + 2)]

\* ---- rays: origin o (half units), direction d (real units, integers) ----
Sgn(x) == IF x > 0 THEN 1 ELSE IF x < 0 THEN -1 ELSE 0
Abs(x) == IF x < 0 THEN -x ELSE x
\* For face f on axis a: parameter t = num / (2 * den) with den = |d_a|, num = (2*plane - o_a) * sgn(d_a);
\* hit point (half units, scaled by den): P_k = o_k * den + num * d_k
HitNum(f, o, d) == (2 * f[2] - o[f[1]]) * Sgn(d[f[1]])
HitDen(f, d) == Abs(d[f[1]])
HitP(f, o, d, k) == o[k] * HitDen(f, d) + HitNum(f, o, d) * d[k]
\* position of the hit point inside the unit face, scaled by den: 0..2*den on both axes
FracU(f, o, d) == HitP(f, o, d, Other(f[1])[1]) - 2 * f[3] * HitDen(f, d)
FracV(f, o, d) == HitP(f, o, d, Other(f[1])[2]) - 2 * f[4] * HitDen(f, d)
Crosses(f, o, d) == d[f[1]] # 0 /\ HitNum(f, o, d) >= 0
StrictHit(f, o, d) == /\ Crosses(f, o, d) /\ HitNum(f, o, d) > 0
                      /\ 0 < FracU(f, o, d) /\ FracU(f, o, d) < 2 * HitDen(f, d)
                      /\ 0 < FracV(f, o, d) /\ FracV(f, o, d) < 2 * HitDen(f, d)
TouchHit(f, o, d) == /\ Crosses(f, o, d)
                     /\ 0 <= FracU(f, o, d) /\ FracU(f, o, d) <= 2 * HitDen(f, d)
                     /\ 0 <= FracV(f, o, d) /\ FracV(f, o, d) <= 2 * HitDen(f, d)
OnDiagonal(f, o, d) == FracU(f, o, d) = FracV(f, o, d) \/ FracU(f, o, d) + FracV(f, o, d) = 2 * HitDen(f, d)
\* a ray lying in the plane of some face (excluded wholesale: conservative)
InPlane(f, o, d) == d[f[1]] = 0 /\ o[f[1]] = 2 * f[2]

GP(V, o, d) ==
    /\ Side(V, o) # "on"
    /\ \A f \in Faces(V) :
          /\ ~InPlane(f, o, d)
          /\ (TouchHit(f, o, d) => StrictHit(f, o, d) /\ ~OnDiagonal(f, o, d))

\* t4 = 4 * t = 2 * num / den  (den is 1 or 2 for directions with components in -2..2)
Hits(V, o, d) == {<<(2 * HitNum(f, o, d)) \div HitDen(f, d), f[1], f[5]>> : f \in {g \in Faces(V) : StrictHit(g, o, d)}}
HitCount(V, o, d) == Cardinality({g \in Faces(V) : StrictHit(g, o, d)})
=============================================================================
