---------------------------- MODULE TriPairJudge ----------------------------
(* Mode V for C07 (triangle against triangle): records [id, site, s: <<a,b,c>>, t: <<d,e,f>> (integer *)
(* corners), n: number of segments Triangle.TriangleCollisions / a mesh collider's TriangleCollisions *)
(* reported, common: corners the two triangles share, panic].                                         *)
(* The oracle is exact integer geometry (orientation determinants):                                   *)
(*   Crosses(S, T) - some edge of S has its ends strictly on opposite sides of T's plane and meets    *)
(*                   that plane strictly inside T                                                     *)
(*   Apart(S, T)   - all corners of S that are not corners of T lie strictly on one side of T's plane *)
(*                   and S has at most one corner in common with T (so S meets T's plane in at most   *)
(*                   that corner)                                                                     *)
(* Clauses (documented contract: the intersection of two triangles that are not (nearly) co-planar):  *)
(*   tri-hit  - Crosses(S, T) \/ Crosses(T, S), planes not parallel  =>  n > 0                        *)
(*   tri-miss - Apart(S, T) \/ Apart(T, S)  =>  n = 0                                                 *)
(*   tri-one  - n <= 1 (the intersection of two triangles in general position is one segment)         *)
EXTENDS Integers, Sequences, FiniteSets, TLC, Json
Recs == ndJsonDeserialize("records.ndjson")
VARIABLES rec, done
R == Recs[rec]
Sub(p, q) == <<p[1] - q[1], p[2] - q[2], p[3] - q[3]>>
Det(u, v, w) == u[1] * (v[2] * w[3] - v[3] * w[2]) - u[2] * (v[1] * w[3] - v[3] * w[1]) + u[3] * (v[1] * w[2] - v[2] * w[1])
Orient(a, b, c, d) == Det(Sub(b, a), Sub(c, a), Sub(d, a))
Sgn(x) == IF x > 0 THEN 1 ELSE IF x < 0 THEN -1 ELSE 0
Cross(u, v) == <<u[2] * v[3] - u[3] * v[2], u[3] * v[1] - u[1] * v[3], u[1] * v[2] - u[2] * v[1]>>
Normal(T) == Cross(Sub(T[2], T[1]), Sub(T[3], T[1]))
Parallel(S, T) == Cross(Normal(S), Normal(T)) = <<0, 0, 0>>
\* the edge p-q passes strictly through the interior of T
Pierces(p, q, T) ==
    LET sp == Sgn(Orient(T[1], T[2], T[3], p))
        sq == Sgn(Orient(T[1], T[2], T[3], q))
        s1 == Sgn(Orient(p, q, T[1], T[2]))
        s2 == Sgn(Orient(p, q, T[2], T[3]))
        s3 == Sgn(Orient(p, q, T[3], T[1])) IN
    sp * sq = -1 /\ s1 # 0 /\ s1 = s2 /\ s2 = s3
Crosses(S, T) == \E i \in 1..3 : Pierces(S[i], S[(i % 3) + 1], T)
Corners(T) == {T[1], T[2], T[3]}
Apart(S, T) ==
    LET own == {p \in Corners(S) : p \notin Corners(T)}
        sides == {Sgn(Orient(T[1], T[2], T[3], p)) : p \in own} IN
    Cardinality(own) >= 2 /\ (sides = {1} \/ sides = {-1})
Holds(c) == CASE c = "panic" -> R.panic = ""
              [] c = "tri-hit" -> (R.panic = "" /\ ~Parallel(R.s, R.t) /\ (Crosses(R.s, R.t) \/ Crosses(R.t, R.s))) => R.n > 0
              [] c = "tri-miss" -> (R.panic = "" /\ (Apart(R.s, R.t) \/ Apart(R.t, R.s))) => R.n = 0
              [] c = "tri-one" -> R.panic = "" => R.n <= 1
              [] OTHER -> TRUE
Fails == {c \in {"panic", "tri-hit", "tri-miss", "tri-one"} : ~Holds(c)}
Decided == ~Parallel(R.s, R.t) /\ (Crosses(R.s, R.t) \/ Crosses(R.t, R.s))
Init == rec \in 1..Len(Recs) /\ done = FALSE
Next == /\ ~done /\ done' = TRUE /\ UNCHANGED rec
        /\ \A c \in Fails : PrintT(<<"REJECT", R.id, 0, c>>)
        /\ IF Decided THEN PrintT(<<"NOTE", R.id, "crossing", R.common>>) ELSE TRUE
Spec == Init /\ [][Next]_<<rec, done>>
=============================================================================
