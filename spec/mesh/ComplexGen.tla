------------------------------ MODULE ComplexGen ------------------------------
(***************************************************************************)
(* Mode R for C11: abstract complexes to realise as meshes.                 *)
(*  kind "diag"   every set of at most MaxF oriented triangles over NV      *)
(*                vertex names (both orientations of a triangle may occur:  *)
(*                open fans, pinches, three faces on an edge, pillows,      *)
(*                flipped neighbours ...)                                   *)
(*  kind "diag2"  every set of at most MaxS directed segments over NV names *)
(*  kind "forest" every forest with at most MaxN nodes, as a parent vector  *)
(*                (parent[i] < i, 0 = root), to be realised as nested box   *)
(*                shells                                                    *)
(*  kind "flip"   every subset of the faces of a closed convex complex to   *)
(*                flip before normal repair                                 *)
(*  kind "voxels" every non-empty subset of the MaxF unit cells of a block  *)
(*  kind "pairs"  every set of one or two oriented triangles over NV names  *)
(*                (NV = 6: two faces without a common vertex exist)         *)
(***************************************************************************)
EXTENDS Integers, Sequences, FiniteSets, TLC, Json
CONSTANTS Kind, NV, MaxF, MaxN
Tris == { t \in (1..NV) \X (1..NV) \X (1..NV) : t[1] < t[2] /\ t[1] < t[3] /\ t[2] # t[3] }
Segs == { s \in (1..NV) \X (1..NV) : s[1] # s[2] }
Forests == UNION { { p \in [1..n -> 0..(n - 1)] : \A i \in 1..n : p[i] < i } : n \in 1..MaxN }
Cases == CASE Kind = "diag"   -> { S \in SUBSET Tris : Cardinality(S) <= MaxF /\ S # {} }
           [] Kind = "diag2"  -> { S \in SUBSET Segs : Cardinality(S) <= MaxF /\ S # {} }
           [] Kind = "forest" -> Forests
           [] Kind = "flip"   -> SUBSET (1..MaxF)
           [] Kind = "voxels" -> (SUBSET (1..MaxF)) \ {{}}
           [] Kind = "pairs"  -> { {s, t} : s, t \in Tris }
VARIABLES c, done
Init == c \in Cases /\ done = FALSE
Next == ~done /\ done' = TRUE /\ UNCHANGED c /\ PrintT(<<"CASE", ToJson(c)>>)
Spec == Init /\ [][Next]_<<c, done>>
=============================================================================
