------------------------------ MODULE DiagJudge ------------------------------
(***************************************************************************)
(* Mode V for C11: the real diagnostics, repairs and nesting hierarchies    *)
(* against their definitions (Diagnostics.tla).                             *)
(* kind "diag":  [F: <<<<a,b,c>>>>, needs, sing: <<v>>, incons: <<<<a,b>>>>,*)
(*                orientable, panic]                                        *)
(*   needs / singular / inconsistent / orientable - equal the definitions   *)
(*   orientations - on orientable manifolds (with or without boundary)      *)
(*   FaceOrientations returns the edge-connected groups with flags whose    *)
(*   flips make the orientation consistent (fogroups, foflags, fopanic)     *)
(* kind "dcrepair": [F, sing0, needs0, panic] dual contouring with Repair   *)
(*   and Clip of a set of unit voxels on the half-unit grid (the public      *)
(*   route to ptrCoord.Clusters): dcrepair - the diagnostics are clean       *)
(*   (achievable and achieved for every subset of the 2x2x2 block)           *)
(* forest records of model3d also carry selfint (SelfIntersections of the    *)
(*   nested shells: an "ideal mesh", 0) and selfintx (the same after adding  *)
(*   a copy of a root shell shifted through its own surface: > 0)            *)
(* kind "diag2": [S: <<<<a,b>>>>, manifold, incons: <<v>>]                  *)
(*   manifold2 - every vertex has exactly two segments (the documented      *)
(*   meaning); inconsistent2 - vertices that start or end two segments      *)
(* kind "repair": [F, out: <<<<a,b,c>>>>, copies: <<n per vertex>>]         *)
(*   repair - merging the jittered copies gives back the complex: same      *)
(*   faces, one coordinate per vertex, diagnostics clean                    *)
(* kind "normals": [F (outward oriented, closed), flipped: <<i>>,           *)
(*   out: <<<<a,b,c>>>>, count, site]                                       *)
(*   normals - the repaired mesh is F again and count = number flipped      *)
(* kind "forest": [parent: <<p>>, got: <<p>>, nfaces, per: <<n>>,           *)
(*   probes: <<[in: <<node>>, hit]>>, panic]                                *)
(*   nesting - same forest, 12 faces per node (nf[i] where the shells are   *)
(*             not boxes), none lost or duplicated                          *)
(*   evenodd - a point is contained iff it is inside an odd number of       *)
(*   shells                                                                 *)
(***************************************************************************)
EXTENDS Diagnostics, TLC, Json

Recs == ndJsonDeserialize("records.ndjson")
VARIABLES rec, done
R == Recs[rec]
SeqSet(s) == {s[i] : i \in 1..Len(s)}
Count(s, x) == Cardinality({i \in 1..Len(s) : s[i] = x})
SameBag(s, t) == Len(s) = Len(t) /\ \A i \in 1..Len(s) : Count(s, s[i]) = Count(t, s[i])
Rot(t) == {<<t[1], t[2], t[3]>>, <<t[2], t[3], t[1]>>, <<t[3], t[1], t[2]>>}
\* same oriented faces, as multisets of rotation classes
SameFaces(F, G) == Len(F) = Len(G) /\ \A i \in 1..Len(F) :
                      Cardinality({j \in 1..Len(F) : F[j] \in Rot(F[i])}) = Cardinality({j \in 1..Len(G) : G[j] \in Rot(F[i])})

DirInconsistent(F) == {e \in DirEdgeSet(F) : DirUse(F, e[1], e[2]) >= 2}
Flip(F, fl) == [i \in 1..Len(F) |-> IF fl[i] THEN <<F[i][2], F[i][1], F[i][3]>> ELSE F[i]]
OrientableDef(F) == \E fl \in [1..Len(F) -> BOOLEAN] : DirInconsistent(Flip(F, fl)) = {}

RECURSIVE SumTo(_, _)
SumTo(f(_), n) == IF n = 0 THEN 0 ELSE f(n) + SumTo(f, n - 1)
Holds(c) ==
    CASE R.kind = "diag" /\ c = "panic" -> R.panic = ""
      [] R.kind = "diag" /\ c = "needs" -> R.needs = NeedsRepairDef(R.F)
      [] R.kind = "diag" /\ c = "singular" -> SeqSet(R.sing) = SingularVertsDef(R.F) /\ Len(R.sing) = Cardinality(SeqSet(R.sing))
      [] R.kind = "diag" /\ c = "inconsistent" -> SeqSet(R.incons) = DirInconsistent(R.F)
      \* the pointer mesh's fan search: one row per vertex, the cluster sizes are the component sizes of the fan
      [] R.kind = "diag" /\ c = "clusters" ->
            R.panic = "" =>
                /\ {R.clusters[k][1] : k \in 1..Len(R.clusters)} = VertSet(R.F) /\ Len(R.clusters) = Cardinality(VertSet(R.F))
                /\ \A k \in 1..Len(R.clusters) :
                      LET row == R.clusters[k]
                          comps == FanComponents(R.F, row[1]) IN
                      /\ Len(row) - 1 = Cardinality(comps)
                      /\ \A n \in 1..Len(R.F) : Cardinality({j \in 2..Len(row) : row[j] = n}) = Cardinality({C \in comps : Cardinality(C) = n})
      [] R.kind = "diag" /\ c = "orientable" -> R.orientable = OrientableDef(R.F)
      [] R.kind = "diag" /\ c = "orientations" ->
            (ManifoldWithBoundary(R.F) /\ OrientableDef(R.F)) =>
                (R.fopanic = "" /\ FaceOrientationsDef(R.F, R.fogroups, R.foflags))
      [] R.kind = "dcrepair" /\ c = "dcrepair" ->
            R.panic = "" /\ Len(R.F) > 0 /\ ~NeedsRepairDef(R.F) /\ SingularVertsDef(R.F) = {}
      [] R.kind = "forest" /\ c = "selfint" ->
            R.site = "model3d.MeshToHierarchy" => (R.selfint = 0 /\ R.selfintx > 0)
      [] R.kind = "diag2" /\ c = "manifold2" ->
            R.manifold = \A v \in UNION {{R.S[i][1], R.S[i][2]} : i \in 1..Len(R.S)} :
                            Cardinality({i \in 1..Len(R.S) : v \in {R.S[i][1], R.S[i][2]}}) = 2
      [] R.kind = "diag2" /\ c = "inconsistent2" ->
            SeqSet(R.incons) = {v \in UNION {{R.S[i][1], R.S[i][2]} : i \in 1..Len(R.S)} :
                                   \/ Cardinality({i \in 1..Len(R.S) : R.S[i][1] = v}) > 1
                                   \/ Cardinality({i \in 1..Len(R.S) : R.S[i][2] = v}) > 1}
      [] R.kind = "repair" /\ c = "repair" ->
            /\ R.panic = "" /\ SameFaces(R.F, R.out) /\ \A i \in 1..Len(R.copies) : R.copies[i] = 1
            /\ ~NeedsRepairDef(R.out) /\ SingularVertsDef(R.out) = {}
      [] R.kind = "normals" /\ c = "normals" ->
            /\ R.panic = "" /\ SameFaces(R.F, R.out) /\ R.count = Len(R.flipped) /\ DirInconsistent(R.out) = {}
      [] R.kind = "forest" /\ c = "nesting" ->
            LET nf(i) == IF "nf" \in DOMAIN R THEN R.nf[i] ELSE 12 IN
            /\ R.panic = "" /\ R.got = R.parent /\ \A i \in 1..Len(R.per) : R.per[i] = nf(i)
            /\ R.nfaces = SumTo(nf, Len(R.parent))
      [] R.kind = "forest" /\ c = "evenodd" ->
            \A i \in 1..Len(R.probes) : R.probes[i].hit = (Len(R.probes[i].in) % 2 = 1)
      [] OTHER -> TRUE
Clauses == {"panic", "needs", "singular", "inconsistent", "orientable", "manifold2", "inconsistent2", "repair", "normals",
            "nesting", "evenodd", "orientations", "dcrepair", "selfint", "clusters"}
Fails == {c \in Clauses : ~Holds(c)}
Init == rec \in 1..Len(Recs) /\ done = FALSE
Next == /\ ~done /\ done' = TRUE /\ UNCHANGED rec
        /\ \A c \in Fails : PrintT(<<"REJECT", R.id, 0, c>>)
Spec == Init /\ [][Next]_<<rec, done>>
=============================================================================
