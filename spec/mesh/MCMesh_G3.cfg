SPECIFICATION GenSpec
CONSTANTS
  ARITY = 3
  NV = 4
  Pool <- Pool3
  Maps <- Maps3
  Pos <- Pos3
  MaxId = 12
  MaxLen = 2
INVARIANTS Emit
CHECK_DEADLOCK FALSE
