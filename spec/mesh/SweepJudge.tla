------------------------------ MODULE SweepJudge ------------------------------
(***************************************************************************)
(* C01, parametric generators over whole parameter ranges.  One record per  *)
(* generated mesh: [id, site, param, dim, faces, unmatched, degen, euler,   *)
(* wanteuler, inward, panic], the counts taken by the harness:              *)
(*   unmatched - (3-D) directed edges that are not used exactly once with   *)
(*               their reverse used exactly once; (2-D) vertices without    *)
(*               exactly one incoming and one outgoing segment               *)
(*   degen     - faces with a repeated vertex                               *)
(*   euler     - V - E + F (3-D), V - segments (2-D)                        *)
(*   inward    - faces of a star-shaped mesh whose normal does not point    *)
(*               away from the reference interior point                     *)
(* Clauses: panic; closed (unmatched = 0, degen = 0, faces > 0); euler;     *)
(* outward (inward = 0).                                                    *)
(***************************************************************************)
EXTENDS Integers, Sequences, TLC, Json

Recs == ndJsonDeserialize("records.ndjson")
VARIABLES rec, done
R == Recs[rec]

Holds(c) ==
    CASE c = "panic"   -> R.panic = ""
      [] c = "closed"  -> R.panic # "" \/ (R.faces > 0 /\ R.unmatched = 0 /\ R.degen = 0)
      [] c = "euler"   -> R.panic # "" \/ R.euler = R.wanteuler
      [] c = "outward" -> R.panic # "" \/ R.inward = 0
      [] OTHER -> TRUE
Clauses == {"panic", "closed", "euler", "outward"}
Fails == {c \in Clauses : ~Holds(c)}

Init == rec \in 1..Len(Recs) /\ done = FALSE
Next == /\ ~done /\ done' = TRUE /\ UNCHANGED rec
        /\ \A c \in Fails : PrintT(<<"REJECT", R.id, 0, c>>)
Spec == Init /\ [][Next]_<<rec, done>>
=============================================================================
