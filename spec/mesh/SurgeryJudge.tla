----------------------------- MODULE SurgeryJudge -----------------------------
(***************************************************************************)
(* Mode V for C10: every step of a chain of real mesh-processing operations *)
(* is judged on the abstract complex it produced.                           *)
(* records.ndjson: [id, dim, mesh, ops, steps: <<[op, outcome, F, euler0,   *)
(*   comps0, newverts, keepok, exactok, rule, ruleok, merged]>>]            *)
(*   merged   a vertex-moving operation put two vertices on (nearly) the     *)
(*            same coordinates: the complex is then connected differently by *)
(*            construction; such a step and everything after it is undecided *)
(*   F        faces of the result as triples (3-D) / pairs (2-D) of vertex  *)
(*            names (name = distinct exact coordinate)                      *)
(*   euler0   Euler characteristic of the step's input (computed by TLC for *)
(*            the previous step; the harness only supplies the input mesh's)*)
(* Clauses                                                                 *)
(*  terminates the operation returned within its deadline, without panic    *)
(*  manifold   the result is closed, manifold and consistently oriented     *)
(*  simple     2-D: no two segments join the same two vertices (a closed     *)
(*             polygon has at least three)                                  *)
(*  euler      same Euler characteristic (and number of components) as the  *)
(*             input of the step                                            *)
(*  novert     decimation / elimination introduced no new vertex            *)
(*  keep       vertices protected by the keep-filter are still present      *)
(*  exact      shape-preserving operations keep 6 * volume (2 * area) of    *)
(*             integer-coordinate meshes exactly                            *)
(*  rule       published placement rule (blur 0 = identity, blur 1 =        *)
(*             neighbour mean, edge midpoints, Loop masks, corner cutting,  *)
(*             ARAP constraints met exactly / rigid motion reproduced)      *)
(***************************************************************************)
EXTENDS Diagnostics, TLC, Json

Recs == ndJsonDeserialize("records.ndjson")
VARIABLES rec, done, facts
R == Recs[rec]
S(i) == R.steps[i]
EulerOf(F) == Euler(F)
\* 2-D complexes: closed oriented curves
Verts2(Sg) == UNION {{Sg[i][1], Sg[i][2]} : i \in 1..Len(Sg)}
Euler2(Sg) == Cardinality(Verts2(Sg)) - Len(Sg)
RECURSIVE Grow2(_, _)
Grow2(Sg, C) == LET N == {i \in 1..Len(Sg) : i \notin C /\ \E j \in C : {Sg[i][1], Sg[i][2]} \cap {Sg[j][1], Sg[j][2]} # {}}
                IN IF N = {} THEN C ELSE Grow2(Sg, C \cup N)
RECURSIVE Comp2(_, _)
Comp2(Sg, Left) == IF Left = {} THEN 0 ELSE 1 + Comp2(Sg, Left \ Grow2(Sg, {CHOOSE i \in Left : TRUE}))
\* component counting is quadratic in TLC: only for complexes of moderate size
Comps(F) == IF Len(F) > 200 THEN 0 ELSE IF R.dim = 3 THEN Components(F) ELSE Comp2(F, 1..Len(F))
ManifoldOK(F) == IF R.dim = 3 THEN Len(F) > 0 /\ ClosedManifoldOriented(F) ELSE Len(F) > 0 /\ Manifold2(F)
EulerNow(F) == IF R.dim = 3 THEN EulerOf(F) ELSE Euler2(F)
\* per-step facts, computed once per record
Facts == [i \in 1..Len(R.steps) |->
            IF S(i).outcome # "ok" THEN [ok |-> FALSE, man |-> FALSE, euler |-> 0, comps |-> 0]
            ELSE LET m == ManifoldOK(S(i).F) IN
                 [ok |-> TRUE, man |-> m, euler |-> IF m THEN EulerNow(S(i).F) ELSE 0, comps |-> IF m THEN Comps(S(i).F) ELSE 0]]
Simple2(F) == \A a, b \in 1..Len(F) : a # b => {F[a][1], F[a][2]} # {F[b][1], F[b][2]}
StepHolds(fx, c, i) ==
    LET prevE == IF i = 1 THEN R.euler0 ELSE fx[i - 1].euler
        prevC == IF i = 1 THEN R.comps0 ELSE fx[i - 1].comps IN
    CASE c = "terminates" -> fx[i].ok
      [] ~fx[i].ok -> TRUE
      [] c = "manifold" -> fx[i].man
      [] ~fx[i].man -> TRUE
      \* 2-D: no two segments on the same pair of vertices (a component reduced below a triangle); the inputs of the
      \* palette have none, and a step is only judged while every earlier step passed this too
      [] c = "simple" -> R.dim = 3 \/ (\E j \in 1..(i - 1) : ~Simple2(S(j).F)) \/ Simple2(S(i).F)
      [] c = "euler" -> fx[i].euler = prevE /\ (fx[i].comps = 0 \/ prevC = 0 \/ fx[i].comps = prevC)
      [] c = "novert" -> S(i).newverts = 0
      [] c = "keep" -> S(i).keepok
      [] c = "exact" -> S(i).exactok
      [] c = "rule" -> S(i).ruleok
      [] OTHER -> TRUE
\* a step is judged only if the previous steps produced manifolds (the operations require one)
\* and no step so far merged vertices
Judged(fx, i) == /\ \A j \in 1..(i - 1) : fx[j].ok /\ fx[j].man
                 /\ \A j \in 1..i : ~S(j).merged
Clauses == {"terminates", "manifold", "simple", "euler", "novert", "keep", "exact", "rule"}
Fails == {<<c, i>> \in Clauses \X (1..Len(R.steps)) : Judged(facts, i) /\ ~StepHolds(facts, c, i)}
\* two steps per record: first the per-step facts are computed (once) into a variable, then the clauses
Init == rec \in 1..Len(Recs) /\ done = 0 /\ facts = << >>
Next == \/ /\ done = 0 /\ done' = 1 /\ facts' = Facts /\ UNCHANGED rec
        \/ /\ done = 1 /\ done' = 2 /\ UNCHANGED <<rec, facts>>
           /\ \A f \in Fails : PrintT(<<"REJECT", R.id, f[2], f[1]>>)
Spec == Init /\ [][Next]_<<rec, done, facts>>
=============================================================================
