---------------------------- MODULE ComplexJudge ----------------------------
(***************************************************************************)
(* Judge for meshes produced by the library's generators and mesh          *)
(* processing routines, recorded as abstract complexes (C01, C10, C14).    *)
(* record: [id, site, variant, panic, dim, faces: <<<<a,b,c>>...>>,        *)
(*          volsign, chi, comps, nverts, extra...]                         *)
(* Clauses                                                                 *)
(*   panic     - the generator returned                                    *)
(*   closed    - ClosedOriented (3-D) / Manifold2 (2-D)                    *)
(*   singular  - no vertex whose fan is disconnected                       *)
(*   outward   - sign of the signed volume / area is the documented one    *)
(*   euler     - Euler characteristic equals the expected one (when given) *)
(*   exact     - harness-computed exact integer quantities match (volume,  *)
(*               area, vertex-set relations), when present                 *)
(***************************************************************************)
EXTENDS Diagnostics, TLC, Json

Recs == ndJsonDeserialize("records.ndjson")
VARIABLES rec, done
R == Recs[rec]
F == R.faces

Holds(c) ==
    CASE c = "panic"    -> R.panic = ""
      [] c = "closed"   -> IF R.dim = 3 THEN ClosedOriented(F) ELSE Manifold2(F)
      [] c = "singular" -> R.dim = 2 \/ SingularVertsDef(F) = {}
      [] c = "outward"  -> R.volsign = R.wantsign
      [] c = "euler"    -> R.dim = 2 \/ R.wantchi = -99 \/ Euler(F) = R.wantchi
      [] c = "exact"    -> \A i \in 1..Len(R.exact) : R.exact[i].got = R.exact[i].want
      [] OTHER -> TRUE
Clauses == {"panic", "closed", "singular", "outward", "euler", "exact"}
Fails == {c \in Clauses : ~Holds(c)}

Init == rec \in 1..Len(Recs) /\ done = FALSE
Next == /\ ~done /\ done' = TRUE /\ UNCHANGED rec
        /\ \A c \in Fails : PrintT(<<"REJECT", R.id, 0, c>>)
Spec == Init /\ [][Next]_<<rec, done>>
=============================================================================
