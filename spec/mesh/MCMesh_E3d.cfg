SPECIFICATION Spec
CONSTANTS
  ARITY = 3
  NV = 4
  Pool <- Pool3s
  Maps <- Maps3
  Pos <- Pos3
  MaxId = 4
  MaxLen = 0
VIEW view
INVARIANTS TypeOK IndexConsistent QueriesAgree FlipInvolution
CHECK_DEADLOCK FALSE
