----------------------------- MODULE Diagnostics -----------------------------
(***************************************************************************)
(* Definitional mesh diagnostics on an abstract oriented complex: F is a   *)
(* sequence of faces, each a triple of vertex ids (vertex identity = exact *)
(* coordinate equality, the library's own notion of connectivity).         *)
(* Used by C01 (generators), C10 (mesh surgery), C11 (diagnostics), C14.   *)
(***************************************************************************)
EXTENDS Integers, Sequences, FiniteSets

FaceSet(F) == {i \in 1..Len(F) : TRUE}
DirEdgesOf(t) == {<<t[1], t[2]>>, <<t[2], t[3]>>, <<t[3], t[1]>>}
DirEdgeSet(F) == UNION {DirEdgesOf(F[i]) : i \in 1..Len(F)}
UndEdgeSet(F) == {{e[1], e[2]} : e \in DirEdgeSet(F)}
VertSet(F) == UNION {{F[i][1], F[i][2], F[i][3]} : i \in 1..Len(F)}
NonDegenerate(F) == \A i \in 1..Len(F) : Cardinality({F[i][1], F[i][2], F[i][3]}) = 3

\* how many faces use the undirected edge {a,b}
EdgeUse(F, a, b) == Cardinality({i \in 1..Len(F) : {a, b} \subseteq {F[i][1], F[i][2], F[i][3]}})
\* how many faces traverse a -> b
DirUse(F, a, b) == Cardinality({i \in 1..Len(F) : <<a, b>> \in DirEdgesOf(F[i])})

\* every edge shared by exactly two faces traversing it in opposite directions:
\*   3|F| distinct directed edges (none used twice) and the set is symmetric
ClosedOriented(F) ==
    /\ NonDegenerate(F)
    /\ Cardinality(DirEdgeSet(F)) = 3 * Len(F)
    /\ \A e \in DirEdgeSet(F) : <<e[2], e[1]>> \in DirEdgeSet(F)

\* definitions used by the C11 diagnostics
NeedsRepairDef(F) == \E e \in UndEdgeSet(F) : \E a, b \in e : a # b /\ EdgeUse(F, a, b) # 2
InconsistentEdgesDef(F) == {e \in UndEdgeSet(F) : \E a, b \in e : a # b /\ DirUse(F, a, b) >= 2}

\* fan connectivity: the faces at v, linked through shared edges at v, form one component
FacesAt(F, v) == {i \in 1..Len(F) : v \in {F[i][1], F[i][2], F[i][3]}}
Linked(F, i, j, v) == \E w \in ({F[i][1], F[i][2], F[i][3]} \cap {F[j][1], F[j][2], F[j][3]}) : w # v
RECURSIVE ReachF(_, _, _, _)
ReachF(F, S, v, Rs) ==
    LET N == {i \in S \ Rs : \E j \in Rs : Linked(F, i, j, v)}
    IN IF N = {} THEN Rs ELSE ReachF(F, S, v, Rs \cup N)
FanConnected(F, v) ==
    LET S == FacesAt(F, v) IN S = {} \/ ReachF(F, S, v, {CHOOSE i \in S : TRUE}) = S
\* the components of the fan at v, as sets of face indices
FanComponents(F, v) == {ReachF(F, FacesAt(F, v), v, {i}) : i \in FacesAt(F, v)}
SingularVertsDef(F) == {v \in VertSet(F) : ~FanConnected(F, v)}

ClosedManifoldOriented(F) == ClosedOriented(F) /\ SingularVertsDef(F) = {}

\* ---- Mesh.FaceOrientations (C11): "for each group of connected faces, the relative orientation of every
\* face ... flags indicating whether or not each triangle should be flipped".  groups is a sequence of
\* sequences of face indices, flags the parallel sequences of booleans.  The groups are the classes of
\* faces connected through shared edges (the documented domain is manifold meshes: a shared vertex alone
\* connects nothing there), and flipping the flagged faces leaves no directed edge traversed twice.
EdgeAdjacent(F, i, j) == i # j /\ Cardinality({F[i][1], F[i][2], F[i][3]} \cap {F[j][1], F[j][2], F[j][3]}) >= 2
RECURSIVE GrowEdgeComp(_, _)
GrowEdgeComp(F, C) ==
    LET N == {i \in 1..Len(F) : i \notin C /\ \E j \in C : EdgeAdjacent(F, i, j)}
    IN IF N = {} THEN C ELSE GrowEdgeComp(F, C \cup N)
FlipFaces(F, fl) == [i \in 1..Len(F) |-> IF fl[i] THEN <<F[i][2], F[i][1], F[i][3]>> ELSE F[i]]
FaceOrientationsDef(F, groups, flags) ==
    LET G(k) == {groups[k][n] : n \in 1..Len(groups[k])} IN
    /\ Len(flags) = Len(groups)
    /\ \A k \in 1..Len(groups) : Len(flags[k]) = Len(groups[k]) /\ Len(groups[k]) = Cardinality(G(k)) /\ G(k) # {}
    /\ \A i \in 1..Len(F) : Cardinality({k \in 1..Len(groups) : i \in G(k)}) = 1
    /\ \A k \in 1..Len(groups) : G(k) = GrowEdgeComp(F, {groups[k][1]})
    /\ LET fl == [i \in 1..Len(F) |-> LET k == CHOOSE k \in 1..Len(groups) : i \in G(k)
                                           n == CHOOSE n \in 1..Len(groups[k]) : groups[k][n] = i IN flags[k][n]]
           H == FlipFaces(F, fl) IN
       \A i \in 1..Len(F) : \A e \in DirEdgesOf(H[i]) : DirUse(H, e[1], e[2]) = 1
\* the documented domain: orientable manifolds (a boundary is allowed): no edge with more than two faces, no
\* pinched vertex, some choice of flips is consistent
ManifoldWithBoundary(F) ==
    /\ NonDegenerate(F)
    /\ \A e \in UndEdgeSet(F) : \A a, b \in e : a # b => EdgeUse(F, a, b) <= 2
    /\ SingularVertsDef(F) = {}

Euler(F) == Cardinality(VertSet(F)) - Cardinality(UndEdgeSet(F)) + Len(F)

\* connected components (by shared vertices) - count only
RECURSIVE CompCount(_, _)
RECURSIVE GrowComp(_, _)
GrowComp(F, C) ==
    LET N == {i \in 1..Len(F) : i \notin C /\ \E j \in C : {F[i][1], F[i][2], F[i][3]} \cap {F[j][1], F[j][2], F[j][3]} # {}}
    IN IF N = {} THEN C ELSE GrowComp(F, C \cup N)
CompCount(F, Left) ==
    IF Left = {} THEN 0
    ELSE LET C == GrowComp(F, {CHOOSE i \in Left : TRUE}) IN 1 + CompCount(F, Left \ C)
Components(F) == CompCount(F, 1..Len(F))

\* 2-D: segments <<a, b>>; manifold = every vertex has one incoming and one outgoing segment
Manifold2(Sg) ==
    /\ \A i \in 1..Len(Sg) : Sg[i][1] # Sg[i][2]
    /\ \A v \in UNION {{Sg[i][1], Sg[i][2]} : i \in 1..Len(Sg)} :
          /\ Cardinality({i \in 1..Len(Sg) : Sg[i][1] = v}) = 1
          /\ Cardinality({i \in 1..Len(Sg) : Sg[i][2] = v}) = 1
=============================================================================
