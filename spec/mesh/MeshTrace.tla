------------------------------ MODULE MeshTrace ------------------------------
(***************************************************************************)
(* Trace validation for C09 (mode V): histories executed against the real  *)
(* model3d.Mesh / model2d.Mesh are replayed through the actions of MeshADT *)
(* and every logged observation is compared with the plain-set semantics.  *)
(*                                                                         *)
(* records.ndjson: one record per (history, realisation):                  *)
(*   [id, real, ev: <<[op, a, b, light: <<L1, L2>>, full: <<>> or <<F>>]>>]*)
(* L_m  = [num, ids, iter, cont, min, max] observed on mesh m after the op *)
(*        with queries that never touch the lazy index;                    *)
(* F    = [verts, itv, find1, find2, nbr, avn] observed on mesh `a` by a   *)
(*        Probe operation (the queries that build / use the index).        *)
(* Every record is an independent initial state, so TLC's workers share    *)
(* the records; a record is walked op by op (phase "op" applies the spec   *)
(* action, phase "chk" compares the observations).  A mismatch prints      *)
(* <<"REJECT", id, line, clause>> and parks the record in status "rej".    *)
(***************************************************************************)
EXTENDS MCMesh, SequencesExt

Recs == ndJsonDeserialize("records.ndjson")

VARIABLES rec, l, phase, status
tvars == <<tri, faces, indexed, v2f, hist, rec, l, phase, status>>

R == Recs[rec]
E == R.ev[l]

TInit == /\ Init
         /\ rec \in 1..Len(Recs)
         /\ l = 1 /\ phase = "op" /\ status = "run"

DoOp(e) ==
    \/ e.op = "Add"           /\ Add(e.a, e.b)
    \/ e.op = "Remove"        /\ Remove(e.a, e.b)
    \/ e.op = "AddMesh"       /\ AddMesh(e.a, e.b)
    \/ e.op = "Copy"          /\ Copy(e.a, e.b)
    \/ e.op = "DeepCopy"      /\ DeepCopy(e.a, e.b)
    \/ e.op = "InvertNormals" /\ InvertNormals(e.a, e.b)
    \/ e.op = "MapCoords"     /\ MapCoords(e.a, 3 - e.a, e.b)
    \/ e.op = "Probe"         /\ Probe(e.a)

Sorted(S) == SortInts(S)
Chk(name, cond) == cond \/ (PrintT(<<"REJECT", R.id, l, name>>) /\ FALSE)

LightOK(m, o) ==
    /\ Chk("num",      o.num = Num(m))
    /\ Chk("faces",    o.ids = Sorted(faces[m]))
    /\ Chk("iterate",  o.iter = Sorted(faces[m]))
    \* IterateSorted with "smaller id first": every face exactly once, in that order (ids as delivered)
    /\ Chk("itersorted", o.iters = Sorted(faces[m]))
    /\ Chk("contains", o.cont = Sorted(faces[m]))
    /\ Chk("min",      o.min = MeshMin(m))
    /\ Chk("max",      o.max = MeshMax(m))

Pairs == {<<v, w>> \in Verts \X Verts : v # w}
FullOK(m, o) ==
    /\ Chk("vertexslice",   o.verts = Sorted(VertsOf(m)))
    /\ Chk("itervertices",  o.itv = Sorted(VertsOf(m)))
    /\ Chk("find1", \A v \in Verts : o.find1[v] = Sorted(FindSet(m, {v})))
    /\ Chk("find2", \A i \in 1..Len(o.find2) :
            o.find2[i].ids = Sorted(FindSet(m, {o.find2[i].v, o.find2[i].w})))
    /\ Chk("find2cover", {<<o.find2[i].v, o.find2[i].w>> : i \in 1..Len(o.find2)} = Pairs)
    /\ Chk("neighbors", /\ Len(o.nbr) = Cardinality(Ids)
                        /\ \A f \in Ids : o.nbr[f] = Sorted(Neighbors(m, f)))
    /\ Chk("vertexneighbors", \A v \in Verts : o.avn[v] = Sorted(VertexNbrs(m, v)))

ObsOK(e) ==
    /\ Chk("panic", e.panic = "")
    /\ \A m \in Meshes : LightOK(m, e.light[m])
    /\ (Len(e.full) = 1 => FullOK(e.a, e.full[1]))

Apply == /\ status = "run" /\ phase = "op" /\ l <= Len(R.ev)
         /\ DoOp(E)
         /\ phase' = "chk"
         /\ UNCHANGED <<rec, l, status>>

Check == /\ status = "run" /\ phase = "chk"
         /\ IF ObsOK(E)
            THEN /\ l' = l + 1 /\ phase' = "op"
                 /\ status' = IF l = Len(R.ev) THEN "done" ELSE "run"
            ELSE /\ status' = "rej" /\ UNCHANGED <<l, phase>>
         /\ UNCHANGED <<tri, faces, indexed, v2f, hist, rec>>

Empty == /\ status = "run" /\ phase = "op" /\ l > Len(R.ev)
         /\ status' = "done" /\ UNCHANGED <<tri, faces, indexed, v2f, hist, rec, l, phase>>

Term == status # "run" /\ UNCHANGED tvars

TNext == Apply \/ Check \/ Empty \/ Term
TSpec == TInit /\ [][TNext]_tvars

\* The concrete index of the model stays consistent along every validated history too.
TIndexConsistent == IndexConsistent
=============================================================================
