------------------------------ MODULE EditorJudge ------------------------------
(***************************************************************************)
(* C09, clause "also across the library's own in-place edits": a mesh whose *)
(* lazy vertex index already exists is handed to a library routine (some    *)
(* edit their argument in place by contract, most must leave it alone), and *)
(* afterwards the SAME mesh object is queried again.  Its answers must be   *)
(* those of the plain set of its current faces.                             *)
(* records.ndjson: [id, site, mesh, F: <<<<a,b,c>>>> (the mesh's current    *)
(*   faces as vertex names, read through Iterate), vslice: <<v>>,           *)
(*   find1: <<[v, fs: <<face index>>]>> for EVERY vertex name that occurs   *)
(*   before or after, find2: <<[a, b, fs]>> for sampled vertex pairs,       *)
(*   nbrs: <<[f, fs]>> for sampled faces, panic]                            *)
(*  vertices  - VertexSlice is exactly the vertex set of F (no stale vertex)*)
(*  find      - Find(v) / Find(a, b) are exactly the faces containing them  *)
(*  neighbors - Neighbors(f) are exactly the other faces that a freshly     *)
(*              built list gives: those holding >= 2 of f's three corners   *)
(*              (corners counted by position, as for a degenerate f)        *)
(***************************************************************************)
EXTENDS Integers, Sequences, FiniteSets, TLC, Json
Recs == ndJsonDeserialize("records.ndjson")
VARIABLES rec, done
R == Recs[rec]
SeqSet(s) == {s[i] : i \in 1..Len(s)}
VOf(i) == {R.F[i][1], R.F[i][2], R.F[i][3]}
Verts == UNION {VOf(i) : i \in 1..Len(R.F)}
With(S) == {i \in 1..Len(R.F) : S \subseteq VOf(i)}
NoDup(s) == Len(s) = Cardinality(SeqSet(s))
Holds(c) ==
    CASE c = "panic" -> R.panic = ""
      [] R.panic # "" -> TRUE
      [] c = "vertices" -> SeqSet(R.vslice) = Verts /\ NoDup(R.vslice)
      [] c = "find" -> /\ \A k \in 1..Len(R.find1) : SeqSet(R.find1[k].fs) = With({R.find1[k].v}) /\ NoDup(R.find1[k].fs)
                       /\ \A k \in 1..Len(R.find2) : SeqSet(R.find2[k].fs) = With({R.find2[k].a, R.find2[k].b}) /\ NoDup(R.find2[k].fs)
      [] c = "neighbors" -> \A k \in 1..Len(R.nbrs) :
                               LET f == R.nbrs[k].f IN
                               /\ SeqSet(R.nbrs[k].fs) = {i \in (1..Len(R.F)) \ {f} : Cardinality({q \in 1..3 : R.F[f][q] \in VOf(i)}) >= 2}
                               /\ NoDup(R.nbrs[k].fs)
      [] OTHER -> TRUE
Fails == {c \in {"panic", "vertices", "find", "neighbors"} : ~Holds(c)}
Init == rec \in 1..Len(Recs) /\ done = FALSE
Next == /\ ~done /\ done' = TRUE /\ UNCHANGED rec /\ \A c \in Fails : PrintT(<<"REJECT", R.id, 0, c>>)
Spec == Init /\ [][Next]_<<rec, done>>
=============================================================================
