------------------------------- MODULE MCMesh -------------------------------
(* Constants for model3d.Mesh: triangles over 4 vertex classes.  The harness  *)
(* realises vertex 3 as (0,0,0) with both signs of zero, and vertices 1 and 2 *)
(* as coordinates that collide in the fast hash (realisation "collide").      *)
EXTENDS MeshADT, Json
Pool3 == << <<1,2,3>>,     \* f1
            <<2,1,4>>,     \* f2 shares side 1-2 with f1 (opposite direction)
            <<1,2,3>>,     \* f3 duplicate of f1 (different pointer)
            <<4,3,3>>,     \* f4 degenerate, corners 2 and 3 equal (the maps below create <<v,v,w>> and <<v,w,v>> ones)
            <<3,4,1>> >>   \* f5
Pool3s == << <<1,2,3>>, <<3,3,4>> >>   \* small pool for the derived-mesh config
Maps3 == << <<2,1,3,4>>,   \* swap the colliding pair
            <<1,1,3,4>>,   \* merge 2 into 1 (creates degenerate faces)
            <<4,2,3,3>> >> \* 1->4, 4->3
Pos3  == << <<1,1,0>>, <<1,0,0>>, <<0,0,0>>, <<0,1,1>> >>
Pool2 == << <<1,2>>, <<2,3>>, <<1,2>>, <<3,3>>, <<3,4>>, <<2,1>> >>
Pool2s == << <<1,2>>, <<3,3>> >>
Maps2 == Maps3
Pos2  == << <<1,1>>, <<1,0>>, <<0,0>>, <<0,1>> >>
\* Behaviour generation (mode R): every history of exactly MaxLen operations is printed.
GenSpec == Init /\ [][Len(hist) < MaxLen /\ Next]_vars
Emit == (Len(hist) = MaxLen) => PrintT(<<"BEHAVIOUR", ToJson(hist)>>)
=============================================================================
