------------------------------- MODULE OpsGen -------------------------------
(* Mode R for C10: every chain of at most MaxLen mesh-processing operations (in every order)  *)
(* applied to every input mesh of the palette; 2-D likewise.                                   *)
EXTENDS Integers, Sequences, TLC, Json
CONSTANTS MaxLen, Dim
Meshes3 == {"box", "boxsub", "voxL", "voxStairs", "ico", "torus", "two", "thin", "thinElim", "octa", "prismcap7", "prismcap", "prismcap40"}
Ops3 == {"DecimateSimple", "Decimator", "ElimCoplanar", "ElimCoplanarFiltered", "ElimEdgesShort", "ElimEdgesAll",
         "FlipDelaunay", "SubdivideEdges2", "SubdivideEdges3", "Loop", "Subdivider", "Blur05", "Blur0", "Blur1", "SmoothAreas",
         "MeshSmoother", "VoxelSmoother", "FlattenBase", "ARAP", "ARAPSeq", "SubdividerWild",
         "BlurFiltered", "BlurNeg1", "ARAPAbs", "ARAPUniform", "ARAPMixed"}
Meshes2 == {"rect", "rectsub", "pixelL", "pixelHole", "circle", "two", "circle200", "speck"}
Ops2 == {"Decimate", "DecimateTo3", "DecimateTo1", "EliminateColinear", "EliminateColinearTol", "Subdivide", "Smooth", "SmoothSq", "Blur05", "Blur0", "Invert", "SubdividePath"}
\* a finely tessellated sphere (dihedral angles of a few degrees) through the simplifying operations only
FineOps == {"ElimCoplanar", "ElimCoplanarFiltered", "DecimateSimple", "Decimator", "FlipDelaunay"}
Cases == IF Dim = 3 THEN { [mesh |-> m, ops |-> o] : m \in Meshes3, o \in UNION { [1..n -> Ops3] : n \in 1..MaxLen } }
                         \cup { [mesh |-> "icofine", ops |-> <<o>>] : o \in FineOps }
         ELSE { [mesh |-> m, ops |-> o] : m \in Meshes2, o \in UNION { [1..n -> Ops2] : n \in 1..MaxLen } }
VARIABLES c, done
Init == c \in Cases /\ done = FALSE
Next == ~done /\ done' = TRUE /\ UNCHANGED c /\ PrintT(<<"CASE", ToJson(c)>>)
Spec == Init /\ [][Next]_<<c, done>>
=============================================================================
