SPECIFICATION GenSpec
CONSTANTS
  ARITY = 2
  NV = 4
  Pool <- Pool2
  Maps <- Maps2
  Pos <- Pos2
  MaxId = 12
  MaxLen = 2
INVARIANTS Emit
CHECK_DEADLOCK FALSE
