SPECIFICATION Spec
CONSTANTS
  ARITY = 3
  NV = 4
  Pool <- Pool3
  Maps <- Maps3
  Pos <- Pos3
  MaxId = 5
  MaxLen = 0
VIEW view
INVARIANTS TypeOK IndexConsistent QueriesAgree FlipInvolution
CHECK_DEADLOCK FALSE
