SPECIFICATION Spec
CONSTANTS
  ARITY = 2
  NV = 4
  Pool <- Pool2s
  Maps <- Maps2
  Pos <- Pos2
  MaxId = 4
  MaxLen = 0
VIEW view
INVARIANTS TypeOK IndexConsistent QueriesAgree FlipInvolution
CHECK_DEADLOCK FALSE
