----------------------------- MODULE MeshSurgery -----------------------------
(***************************************************************************)
(* Abstract mesh surgery on closed oriented manifold complexes (C10):       *)
(* the elementary steps of the library's simplification / refinement        *)
(* routines with the GUARDS the code applies, on an abstract complex (a set *)
(* of oriented faces over vertex names).  TLC grows complexes from a        *)
(* tetrahedron / octahedron by the refinement steps and applies the         *)
(* simplification steps in every admissible way; the invariant is that the  *)
(* complex stays closed, manifold and consistently oriented with the same   *)
(* Euler characteristic.                                                    *)
(*                                                                         *)
(*  Split1to3(f)       a new vertex inside a face                           *)
(*  SplitEdge(a, b)    a new vertex on an edge (Subdivider / SubdivideEdges *)
(*                     elementary step): both incident faces are split      *)
(*  Flip(a, b)         FlipDelaunay's step: the diagonal of the quad of the *)
(*                     two faces at edge ab is swapped - guarded by "the    *)
(*                     new diagonal is not already an edge" (the code had   *)
(*                     no such guard before the repair recorded in          *)
(*                     known_findings.json; FlipGuard = FALSE models that)  *)
(*  Collapse(a, b)     EliminateEdges' step (eliminateSegment): b is merged *)
(*                     into a.  CodeGuard is canEliminateSegment's          *)
(*                     combinatorial test: no face at a and face at b       *)
(*                     (other than the two on ab) have the same opposite    *)
(*                     edge.  LinkGuard is the link condition.  The         *)
(*                     geometric fold-over test of the code is a free       *)
(*                     boolean here (any subset of collapses may be refused)*)
(*                                                                         *)
(* With Guard = "code" TLC refutes Inv (a vertex adjacent to both ends of   *)
(* the edge through non-shared faces becomes an edge with four faces); with *)
(* Guard = "link" Inv holds.  The first is a LEAD that the C10 check        *)
(* reproduces on the real EliminateEdges (see known_findings.json).         *)
(***************************************************************************)
EXTENDS Integers, FiniteSets, Sequences, TLC
CONSTANTS MaxV, MaxDepth, Guard, Seed, FlipGuard

VARIABLES F, depth
vars == <<F, depth>>

Canon(t) == IF t[1] <= t[2] /\ t[1] <= t[3] THEN t
            ELSE IF t[2] <= t[1] /\ t[2] <= t[3] THEN <<t[2], t[3], t[1]>> ELSE <<t[3], t[1], t[2]>>
Verts(G) == UNION {{t[1], t[2], t[3]} : t \in G}
DirE(t) == {<<t[1], t[2]>>, <<t[2], t[3]>>, <<t[3], t[1]>>}
DirEdges(G) == UNION {DirE(t) : t \in G}
FacesWith(G, a, b) == {t \in G : <<a, b>> \in DirE(t) \/ <<b, a>> \in DirE(t)}
FacesAt(G, v) == {t \in G : v \in {t[1], t[2], t[3]}}
Third(t, a, b) == CHOOSE x \in {t[1], t[2], t[3]} : x # a /\ x # b
Nbrs(G, v) == Verts(FacesAt(G, v)) \ {v}

Tetra == {<<1, 3, 2>>, <<1, 2, 4>>, <<2, 3, 4>>, <<1, 4, 3>>}
Octa == {<<1, 3, 5>>, <<2, 5, 3>>, <<2, 4, 5>>, <<1, 5, 4>>, <<1, 6, 3>>, <<2, 3, 6>>, <<2, 6, 4>>, <<1, 4, 6>>}

\* ---- invariant ----
NonDegenerate(G) == \A t \in G : Cardinality({t[1], t[2], t[3]}) = 3
ClosedOriented(G) == /\ Cardinality(DirEdges(G)) = 3 * Cardinality(G)
                     /\ \A e \in DirEdges(G) : <<e[2], e[1]>> \in DirEdges(G)
RECURSIVE Reach(_, _, _)
Reach(G, v, S) == LET N == {t \in FacesAt(G, v) \ S : \E u \in S : Cardinality({t[1], t[2], t[3]} \cap {u[1], u[2], u[3]}) >= 2}
                  IN IF N = {} THEN S ELSE Reach(G, v, S \cup N)
FanOK(G, v) == LET A == FacesAt(G, v) IN Reach(G, v, {CHOOSE t \in A : TRUE}) = A
Manifold(G) == NonDegenerate(G) /\ ClosedOriented(G) /\ \A v \in Verts(G) : FanOK(G, v)
Euler(G) == Cardinality(Verts(G)) - (3 * Cardinality(G)) \div 2 + Cardinality(G)
Inv == Manifold(F) /\ Euler(F) = 2

\* ---- steps ----
NewV == CHOOSE n \in 1..(MaxV + 1) : n \notin Verts(F) /\ \A m \in 1..(n - 1) : m \in Verts(F)
Split1to3(t) == LET n == NewV IN
    F' = (F \ {t}) \cup {Canon(<<t[1], t[2], n>>), Canon(<<t[2], t[3], n>>), Canon(<<t[3], t[1], n>>)}
SplitFace(t, a, b, n) == \* t traverses a -> b: replace by (a, n, c) and (n, b, c)
    LET c == Third(t, a, b) IN {Canon(<<a, n, c>>), Canon(<<n, b, c>>)}
SplitEdge(a, b) == LET n == NewV
                       t1 == CHOOSE t \in F : <<a, b>> \in DirE(t)
                       t2 == CHOOSE t \in F : <<b, a>> \in DirE(t) IN
    F' = (F \ {t1, t2}) \cup SplitFace(t1, a, b, n) \cup SplitFace(t2, b, a, n)
Flip(a, b) == LET t1 == CHOOSE t \in F : <<a, b>> \in DirE(t)
                  t2 == CHOOSE t \in F : <<b, a>> \in DirE(t)
                  c == Third(t1, a, b) d == Third(t2, a, b) IN
    /\ c # d /\ (FlipGuard => (<<c, d>> \notin DirEdges(F) /\ <<d, c>> \notin DirEdges(F)))
    /\ F' = (F \ {t1, t2}) \cup {Canon(<<a, d, c>>), Canon(<<b, c, d>>)}
OppEdge(t, v) == {t[1], t[2], t[3]} \ {v}
CodeGuard(a, b) == \* no face at a and face at b (not containing the edge) share their opposite edge
    \A t \in FacesAt(F, a) \ FacesWith(F, a, b) : \A u \in FacesAt(F, b) \ FacesWith(F, a, b) : OppEdge(t, a) # OppEdge(u, b)
LinkGuard(a, b) == \* link condition: the common neighbours of a and b are exactly the two opposite vertices
    Nbrs(F, a) \cap Nbrs(F, b) = {Third(t, a, b) : t \in FacesWith(F, a, b)}
Ren(t, b, a) == Canon(<<IF t[1] = b THEN a ELSE t[1], IF t[2] = b THEN a ELSE t[2], IF t[3] = b THEN a ELSE t[3]>>)
Collapse(a, b) ==
    /\ <<a, b>> \in DirEdges(F)
    /\ IF Guard = "code" THEN CodeGuard(a, b) ELSE (CodeGuard(a, b) /\ LinkGuard(a, b))
    /\ Cardinality(F) > 4
    /\ F' = {Ren(t, b, a) : t \in F \ FacesWith(F, a, b)}

Init == F = (IF Seed = "tetra" THEN Tetra ELSE Octa) /\ depth = 0
Next == /\ depth < MaxDepth /\ depth' = depth + 1
        /\ \/ \E t \in F : Cardinality(Verts(F)) < MaxV /\ Split1to3(t)
           \/ \E e \in DirEdges(F) : e[1] < e[2] /\ Cardinality(Verts(F)) < MaxV /\ SplitEdge(e[1], e[2])
           \/ \E e \in DirEdges(F) : e[1] < e[2] /\ Flip(e[1], e[2])
           \/ \E e \in DirEdges(F) : Collapse(e[1], e[2])
Spec == Init /\ [][Next]_vars
=============================================================================
