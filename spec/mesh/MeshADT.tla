------------------------------- MODULE MeshADT -------------------------------
(***************************************************************************)
(* model3d.Mesh / model2d.Mesh as an abstract data type (property C09).    *)
(*                                                                         *)
(* Abstract state: `tri` gives every allocated face object (identified by  *)
(* pointer = id) its vertex tuple; faces[m] is the set of ids in mesh m.   *)
(* Concrete state transcribed from the code: `indexed[m]` (the lazy        *)
(* vertexToFace index exists) and v2f[m][v][id] = how many times face id   *)
(* occurs in the slice stored for vertex v (CoordToSlice[*Triangle]).      *)
(*                                                                         *)
(* One action per public mutator; `Probe` is the first topological query   *)
(* (Find / Neighbors / VertexSlice ...), whose only effect on the state is *)
(* to build the index.  The code's update rules for v2f are transcribed    *)
(* (Mesh.Add, Mesh.Remove, removeFaceFromVertex, getVertexToFace), and the *)
(* invariant IndexConsistent says the index is always the one a freshly    *)
(* built mesh with the same faces would have - which is what makes every   *)
(* query a function of `faces` alone.                                      *)
(*                                                                         *)
(* Vertices are equality classes of coordinates (+0 == -0, so both signs   *)
(* of zero are one vertex); which bit pattern a face uses, and whether two *)
(* vertices collide in the fast hash, is chosen by the harness realisation *)
(* and must not be observable - so it does not occur in this spec at all.  *)
(***************************************************************************)
EXTENDS Integers, Sequences, FiniteSets, TLC

CONSTANTS ARITY,    \* 3 = triangles (model3d), 2 = segments (model2d)
          NV,       \* vertex classes 1..NV
          Pool,     \* Pool[i] = vertex tuple of the i-th pre-allocated face object
          MaxId,    \* bound on allocated face ids
          Maps,     \* sequence of vertex maps (each a tuple of length NV) for MapCoords
          Pos,      \* Pos[v] = integer coordinates of vertex v (for Min/Max)
          MaxLen    \* bound on history length (generation configs only)

VARIABLES tri, faces, indexed, v2f, hist

vars == <<tri, faces, indexed, v2f, hist>>
view == <<tri, faces, indexed, v2f>>

Meshes == {1, 2}
Verts  == 1..NV
Ids    == DOMAIN tri
Range(s) == {s[i] : i \in DOMAIN s}

-----------------------------------------------------------------------------
(* Plain-set semantics: every query as a function of tri and faces[m].     *)

Num(m)          == Cardinality(faces[m])
VertsOf(m)      == UNION {Range(tri[f]) : f \in faces[m]}
FindSet(m, vs)  == {f \in faces[m] : vs \subseteq Range(tri[f])}
\* Mesh.Find(p1, p2, ...) looks at the faces of p1 and keeps those containing the rest
SharedSlots(f, g) == Cardinality({i \in 1..ARITY : tri[f][i] \in Range(tri[g])})
\* 3-D: a side is shared (count > 1); 2-D: an endpoint is shared (count >= 1).
NbrMin          == ARITY - 1
Neighbors(m, f) == {g \in faces[m] : g # f /\ SharedSlots(f, g) >= NbrMin}
\* AllVertexNeighbors is positional: for slots i # j of a face, t[j] is a neighbour of
\* t[i] (so a degenerate face <<v, v, w>> makes v its own neighbour).
VertexNbrs(m, v) ==
    UNION {{tri[f][j] : j \in (1..ARITY) \ {i}} :
              <<f, i>> \in {<<g, k>> \in faces[m] \X (1..ARITY) : tri[g][k] = v}}
MinOf(S) == CHOOSE x \in S : \A y \in S : x <= y
MaxOf(S) == CHOOSE x \in S : \A y \in S : x >= y
Dim == Len(Pos[1])
MeshMin(m) == IF faces[m] = {} THEN [a \in 1..Dim |-> 0]
              ELSE [a \in 1..Dim |-> MinOf({Pos[v][a] : v \in VertsOf(m)})]
MeshMax(m) == IF faces[m] = {} THEN [a \in 1..Dim |-> 0]
              ELSE [a \in 1..Dim |-> MaxOf({Pos[v][a] : v \in VertsOf(m)})]

\* The index a freshly built mesh with the same faces would have.
FreshIndex(m) == [v \in Verts |-> [f \in Ids |->
                    IF f \in faces[m] /\ v \in Range(tri[f]) THEN 1 ELSE 0]]
EmptyIndex == [v \in Verts |-> [f \in Ids |-> 0]]

-----------------------------------------------------------------------------
(* Derived tuples *)
Flip(t)     == [i \in 1..ARITY |-> IF i = 1 THEN t[2] ELSE IF i = 2 THEN t[1] ELSE t[i]]
MapT(g, t)  == [i \in 1..ARITY |-> g[t[i]]]
Code(t)     == IF ARITY = 3 THEN t[1] * 100 + t[2] * 10 + t[3] ELSE t[1] * 10 + t[2]

\* New face objects of a derived mesh get fresh ids in the order of (tuple code, source
\* id) - the harness numbers the real new objects by tuple code too; objects with equal
\* tuples are interchangeable.
RECURSIVE SortInts(_)
SortInts(S) == IF S = {} THEN <<>>
               ELSE LET x == CHOOSE a \in S : \A b \in S : a <= b
                    IN <<x>> \o SortInts(S \ {x})

Derive(m, F(_)) ==
    LET K(f)  == Code(F(tri[f])) * 1000 + f
        keys  == SortInts({K(f) : f \in faces[m]})
        src   == [i \in 1..Len(keys) |-> keys[i] % 1000]
        n0    == Cardinality(Ids)
        newIds == {n0 + i : i \in 1..Len(src)}
    IN  [newtri |-> [f \in Ids \cup newIds |->
                        IF f \in Ids THEN tri[f] ELSE F(tri[src[f - n0]])],
         ids    |-> newIds]

-----------------------------------------------------------------------------
Init == /\ tri = [i \in 1..Len(Pool) |-> Pool[i]]
        /\ faces = [m \in Meshes |-> {}]
        /\ indexed = [m \in Meshes |-> FALSE]
        /\ v2f = [m \in Meshes |-> [v \in Verts |-> [f \in 1..Len(Pool) |-> 0]]]
        /\ hist = <<>>

H(op, a, b) == hist' = Append(hist, [op |-> op, a |-> a, b |-> b])

\* Mesh.Add: without an index just set the map entry; with an index, skip faces that are
\* already present, else append the face once per *distinct* vertex (uniqueVertices).
AddIdx(ix, present, f) ==
    IF f \in present THEN ix
    ELSE [v \in Verts |-> [g \in DOMAIN ix[v] |->
            IF g = f /\ v \in Range(tri[f]) THEN ix[v][g] + 1 ELSE ix[v][g]]]

Add(m, f) ==
    /\ f \in Ids
    /\ faces' = [faces EXCEPT ![m] = @ \cup {f}]
    /\ v2f' = IF indexed[m] THEN [v2f EXCEPT ![m] = AddIdx(@, faces[m], f)] ELSE v2f
    /\ UNCHANGED <<tri, indexed>>
    /\ H("Add", m, f)

\* Mesh.Remove: no-op for absent faces; removeFaceFromVertex deletes ONE occurrence.
Remove(m, f) ==
    /\ f \in Ids
    /\ faces' = [faces EXCEPT ![m] = @ \ {f}]
    /\ v2f' = IF indexed[m] /\ f \in faces[m]
              THEN [v2f EXCEPT ![m] = [v \in Verts |-> [g \in DOMAIN @[v] |->
                        IF g = f /\ v \in Range(tri[f]) /\ @[v][g] > 0
                        THEN @[v][g] - 1 ELSE @[v][g]]]]
              ELSE v2f
    /\ UNCHANGED <<tri, indexed>>
    /\ H("Remove", m, f)

\* Mesh.AddMesh(m1): m1.Iterate(m.Add)
RECURSIVE AddAllIdx(_, _, _)
AddAllIdx(ix, present, S) ==
    IF S = {} THEN ix
    ELSE LET f == CHOOSE x \in S : TRUE
         IN AddAllIdx(AddIdx(ix, present, f), present \cup {f}, S \ {f})

AddMesh(m, m1) ==
    /\ m # m1
    /\ faces' = [faces EXCEPT ![m] = @ \cup faces[m1]]
    /\ v2f' = IF indexed[m] THEN [v2f EXCEPT ![m] = AddAllIdx(@, faces[m], faces[m1])] ELSE v2f
    /\ UNCHANGED <<tri, indexed>>
    /\ H("AddMesh", m, m1)

\* m2 := m.Copy()  (same pointers, fresh mesh object without index)
Copy(m, m2) ==
    /\ m # m2
    /\ faces' = [faces EXCEPT ![m2] = faces[m]]
    /\ indexed' = [indexed EXCEPT ![m2] = FALSE]
    /\ v2f' = [v2f EXCEPT ![m2] = [v \in Verts |-> [f \in Ids |-> 0]]]
    /\ UNCHANGED tri
    /\ H("Copy", m, m2)

Derived(m, m2, F(_), name, arg) ==
    /\ m # m2
    /\ LET d == Derive(m, F)
       IN /\ Cardinality(DOMAIN d.newtri) <= MaxId
          /\ tri' = d.newtri
          /\ faces' = [faces EXCEPT ![m2] = d.ids]
          /\ indexed' = [indexed EXCEPT ![m2] = FALSE]
          /\ v2f' = [x \in Meshes |-> [v \in Verts |-> [f \in DOMAIN d.newtri |->
                        IF x = m2 \/ f \notin Ids THEN 0 ELSE v2f[x][v][f]]]]
    /\ H(name, m, arg)

DeepCopy(m, m2)      == Derived(m, m2, LAMBDA t : t, "DeepCopy", m2)
InvertNormals(m, m2) == Derived(m, m2, Flip, "InvertNormals", m2)
MapCoords(m, m2, k)  == Derived(m, m2, LAMBDA t : MapT(Maps[k], t), "MapCoords", k)

\* First topological query: getVertexToFace builds the index under the lock.
Probe(m) ==
    /\ indexed' = [indexed EXCEPT ![m] = TRUE]
    /\ v2f' = IF indexed[m] THEN v2f ELSE [v2f EXCEPT ![m] = FreshIndex(m)]
    /\ UNCHANGED <<tri, faces>>
    /\ H("Probe", m, 0)

Next ==
    \/ \E m \in Meshes, f \in Ids : Add(m, f) \/ Remove(m, f)
    \/ \E m \in Meshes : Probe(m)
    \/ AddMesh(1, 2) \/ AddMesh(2, 1) \/ Copy(1, 2)
    \/ DeepCopy(1, 2) \/ InvertNormals(1, 2)
    \/ \E k \in 1..Len(Maps) : MapCoords(1, 2, k)

Spec == Init /\ [][Next]_vars

-----------------------------------------------------------------------------
(* Invariants (mode E) *)

TypeOK ==
    /\ \A f \in Ids : Len(tri[f]) = ARITY /\ Range(tri[f]) \subseteq Verts
    /\ \A m \in Meshes : faces[m] \subseteq Ids
    /\ \A m \in Meshes : DOMAIN v2f[m] = Verts

\* The heart of C09: whenever the index exists it is the fresh one.
IndexConsistent ==
    \A m \in Meshes : indexed[m] => \A v \in Verts : \A f \in Ids :
        v2f[m][v][f] = FreshIndex(m)[v][f]

\* Queries answered through the index (as the code does) = queries on the plain set.
FindViaIndex(m, vs) ==
    LET p == CHOOSE v \in vs : TRUE
    IN {f \in Ids : v2f[m][p][f] > 0 /\ vs \subseteq Range(tri[f])}
QueriesAgree ==
    \A m \in Meshes : indexed[m] =>
        /\ \A v \in Verts : FindViaIndex(m, {v}) = FindSet(m, {v})
        /\ \A v, w \in Verts : FindViaIndex(m, {v, w}) = FindSet(m, {v, w})
        /\ {v \in Verts : \E f \in Ids : v2f[m][v][f] > 0} = VertsOf(m)

\* Orientation reversal is an involution and reverses every face.
FlipInvolution == \A f \in Ids : Flip(Flip(tri[f])) = tri[f] /\ Range(Flip(tri[f])) = Range(tri[f])

LenBound == Len(hist) <= MaxLen
=============================================================================
