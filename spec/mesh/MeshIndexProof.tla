--------------------------- MODULE MeshIndexProof ---------------------------
(***************************************************************************)
(* The core of MeshADT - Add, Remove and the first topological query on ONE *)
(* mesh - for ANY set of face objects, ANY set of vertices and histories of *)
(* ANY length, checked by the TLA+ proof system.  VertsOf(f) is the set of  *)
(* distinct vertices of face object f (uniqueVertices in the code).  The    *)
(* update rules are those of MeshADT (Mesh.Add appends a face that is not   *)
(* yet present once per distinct vertex; removeFaceFromVertex deletes one   *)
(* occurrence of a present face; getVertexToFace builds the index from the  *)
(* faces).  Theorem: whenever the index exists it is the index a freshly    *)
(* built mesh with the same faces would have - the statement TLC checks on  *)
(* MeshADT for bounded pools and histories (IndexConsistent).               *)
(***************************************************************************)
EXTENDS Integers, TLAPS
CONSTANTS Ids, Verts, VertsOf
ASSUME Geometry == VertsOf \in [Ids -> SUBSET Verts]
VARIABLES faces, indexed, ix
vars == <<faces, indexed, ix>>

Fresh(S) == [v \in Verts |-> [f \in Ids |-> IF f \in S /\ v \in VertsOf[f] THEN 1 ELSE 0]]
Init == faces = {} /\ indexed = FALSE /\ ix = Fresh({})
Add(f) == /\ faces' = faces \cup {f}
          /\ ix' = IF indexed /\ f \notin faces
                   THEN [v \in Verts |-> [g \in Ids |-> IF g = f /\ v \in VertsOf[f] THEN ix[v][g] + 1 ELSE ix[v][g]]]
                   ELSE ix
          /\ UNCHANGED indexed
Remove(f) == /\ faces' = faces \ {f}
             /\ ix' = IF indexed /\ f \in faces
                      THEN [v \in Verts |-> [g \in Ids |-> IF g = f /\ v \in VertsOf[f] /\ ix[v][g] > 0 THEN ix[v][g] - 1 ELSE ix[v][g]]]
                      ELSE ix
             /\ UNCHANGED indexed
Probe == /\ indexed' = TRUE
         /\ ix' = IF indexed THEN ix ELSE Fresh(faces)
         /\ UNCHANGED faces
Next == Probe \/ \E f \in Ids : Add(f) \/ Remove(f)
Spec == Init /\ [][Next]_vars

IndexConsistent == indexed => ix = Fresh(faces)
Inv == faces \subseteq Ids /\ indexed \in BOOLEAN /\ IndexConsistent

LEMMA InitInv == Init => Inv
  BY DEF Init, Inv, IndexConsistent

LEMMA NextInv == Inv /\ [Next]_vars => Inv'
<1> SUFFICES ASSUME Inv, [Next]_vars PROVE Inv'
  OBVIOUS
<1> USE Geometry DEF Inv, IndexConsistent, Fresh
<1>0 CASE UNCHANGED vars
  BY <1>0 DEF vars
<1>1 CASE Probe
  BY <1>1 DEF Probe
<1>2 ASSUME NEW f \in Ids, Add(f) PROVE Inv'
  <2>1 CASE indexed /\ f \notin faces
    BY <1>2, <2>1 DEF Add
  <2>2 CASE ~(indexed /\ f \notin faces)
    BY <1>2, <2>2 DEF Add
  <2> QED BY <2>1, <2>2
<1>3 ASSUME NEW f \in Ids, Remove(f) PROVE Inv'
  <2>1 CASE indexed /\ f \in faces
    BY <1>3, <2>1 DEF Remove
  <2>2 CASE ~(indexed /\ f \in faces)
    BY <1>3, <2>2 DEF Remove
  <2> QED BY <2>1, <2>2
<1> QED BY <1>0, <1>1, <1>2, <1>3 DEF Next

THEOREM Consistent == Spec => []IndexConsistent
<1>1 Spec => []Inv
  BY InitInv, NextInv, PTL DEF Spec
<1> QED BY <1>1, PTL DEF Inv
=============================================================================
