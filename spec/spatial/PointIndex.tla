----------------------------- MODULE PointIndex -----------------------------
(***************************************************************************)
(* Point trees (model3d.CoordTree, model2d.CoordTree) against brute force  *)
(* (C08).  Coordinates are integers (half units); distances are compared   *)
(* squared, so every answer below is exact.                                *)
(* record: [id, dim, pts: <<p...>>, tree: <<[c, axis, lt, ge]...>> (node 1 *)
(*          is the root, 0 = nil), slice: <<p...>>,                        *)
(*          queries: <<[q, nn, k, knn, contains, spheres: <<[m, hit]>>]>>] *)
(* Clauses                                                                 *)
(*  tree    - the real tree is a k-d tree of exactly the input multiset:   *)
(*            lt subtree strictly less, ge subtree greater-or-equal on the *)
(*            node's axis; Slice() is a permutation of the input           *)
(*  nn      - NearestNeighbor returns an input point at minimal distance   *)
(*  knn     - KNN returns min(k, n) input points (as a sub-multiset), in   *)
(*            ascending distance, whose distances are the k smallest       *)
(*  sphere  - SphereCollision(q, m/2) iff some point has d^2 <= m^2        *)
(*            (includes exact tangency)                                    *)
(*  contains                                                               *)
(***************************************************************************)
EXTENDS Integers, Sequences, FiniteSets, TLC, Json

Recs == ndJsonDeserialize("records.ndjson")
VARIABLES rec, done
R == Recs[rec]
N == Len(R.pts)

D2(p, q) == (p[1] - q[1]) * (p[1] - q[1]) + (p[2] - q[2]) * (p[2] - q[2]) + (p[3] - q[3]) * (p[3] - q[3])
Count(s, x) == Cardinality({i \in 1..Len(s) : s[i] = x})
SameBag(s, t) == Len(s) = Len(t) /\ \A i \in 1..Len(s) : Count(s, s[i]) = Count(t, s[i])
SubBag(s, t) == \A i \in 1..Len(s) : Count(s, s[i]) <= Count(t, s[i])

\* ---- tree invariants ----
Node(i) == R.tree[i]
RECURSIVE Sub(_)
Sub(i) == IF i = 0 THEN {} ELSE {i} \cup Sub(Node(i).lt) \cup Sub(Node(i).ge)
TreeOK ==
    /\ (N = 0) = (Len(R.tree) = 0)
    /\ N > 0 => /\ Sub(1) = 1..Len(R.tree)
                /\ SameBag([i \in 1..Len(R.tree) |-> Node(i).c], R.pts)
                /\ \A i \in 1..Len(R.tree) :
                      LET a == Node(i).axis + 1 IN
                      /\ \A j \in Sub(Node(i).lt) : Node(j).c[a] < Node(i).c[a]
                      /\ \A j \in Sub(Node(i).ge) : Node(j).c[a] >= Node(i).c[a]
    /\ SameBag(R.slice, R.pts)

MinD2(q) == CHOOSE d \in {D2(R.pts[i], q) : i \in 1..N} : \A j \in 1..N : d <= D2(R.pts[j], q)
\* number of points strictly closer than d / at most d
Closer(q, d) == Cardinality({i \in 1..N : D2(R.pts[i], q) < d})
AtMost(q, d) == Cardinality({i \in 1..N : D2(R.pts[i], q) <= d})

QueryOK(c, o) ==
    CASE c = "nn" -> N = 0 \/ ((\E i \in 1..N : R.pts[i] = o.nn) /\ D2(o.nn, o.q) = MinD2(o.q))
      [] c = "knn" ->
            LET kk == IF o.k < N THEN o.k ELSE N IN
            /\ Len(o.knn) = kk
            /\ SubBag(o.knn, R.pts)
            /\ \A i \in 1..(Len(o.knn) - 1) : D2(o.knn[i], o.q) <= D2(o.knn[i + 1], o.q)
            \* the i-th result is at the i-th smallest distance
            /\ \A i \in 1..Len(o.knn) : LET d == D2(o.knn[i], o.q) IN Closer(o.q, d) < i /\ i <= AtMost(o.q, d)
      [] c = "sphere" -> \A s \in 1..Len(o.spheres) :
                            o.spheres[s].hit = (\E i \in 1..N : D2(R.pts[i], o.q) <= o.spheres[s].m * o.spheres[s].m)
      [] c = "contains" -> o.contains = (\E i \in 1..N : R.pts[i] = o.q)
      [] OTHER -> TRUE

Holds(c) ==
    CASE c = "panic" -> R.panic = ""
      [] c = "tree" -> TreeOK
      [] OTHER -> \A qi \in 1..Len(R.queries) : QueryOK(c, R.queries[qi])
Clauses == {"panic", "tree", "nn", "knn", "sphere", "contains"}
Fails == {c \in Clauses : ~Holds(c)}
Init == rec \in 1..Len(Recs) /\ done = FALSE
Next == /\ ~done /\ done' = TRUE /\ UNCHANGED rec
        /\ \A c \in Fails : PrintT(<<"REJECT", R.id, 0, c>>)
Spec == Init /\ [][Next]_<<rec, done>>
=============================================================================
