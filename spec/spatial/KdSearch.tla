------------------------------ MODULE KdSearch ------------------------------
(***************************************************************************)
(* The pruned searches of model3d/model2d.CoordTree (nearestNeighbor,       *)
(* sphereCollision, Contains) transcribed step for step, and checked by TLC *)
(* against brute force on EVERY k-d tree that satisfies the construction's  *)
(* invariant - not only the trees NewCoordTree happens to build (its sort   *)
(* is not stable, so ties may be split either way).  C08, mode E.           *)
(*                                                                         *)
(* A tree over a multiset of lattice points is a function node -> [c, axis, *)
(* lt, ge] (0 = nil); invariant: every point in the lt subtree is strictly  *)
(* smaller than c on the node's axis, every point in the ge subtree is >=.  *)
(* TLC grows such trees by inserting points one at a time at any admissible *)
(* leaf position (any axis per node), which reaches every valid shape, and  *)
(* evaluates the transcribed searches from every query point of the         *)
(* half-lattice.  Distances are squared integers (doubled coordinates).     *)
(***************************************************************************)
EXTENDS Integers, Sequences, FiniteSets, TLC
CONSTANTS MaxN, G          \* at most MaxN points on the grid 0..G-1 squared (2-D suffices: the code is axis-generic)
VARIABLES tree             \* sequence of nodes; node 1 is the root
Pts == (0..(G - 1)) \X (0..(G - 1))
Queries == (0..(2 * G - 1)) \X (0..(2 * G - 1))         \* doubled coordinates
Dbl(p) == <<2 * p[1], 2 * p[2]>>
D2(p, q) == (p[1] - q[1]) * (p[1] - q[1]) + (p[2] - q[2]) * (p[2] - q[2])
Node(i) == tree[i]

Init == tree = << >>
\* insert p below node i (or as the root)
RECURSIVE Place(_, _, _)
Place(t, i, p) ==      \* the index of the leaf slot [parent, side] where p belongs when descending from node i
    LET n == t[i] IN
    IF p[n.axis] < n.c[n.axis]
    THEN (IF n.lt = 0 THEN <<i, "lt">> ELSE Place(t, n.lt, p))
    ELSE (IF n.ge = 0 THEN <<i, "ge">> ELSE Place(t, n.ge, p))
Insert(p, a) ==
    /\ Len(tree) < MaxN
    /\ IF tree = << >>
       THEN tree' = << [c |-> p, axis |-> a, lt |-> 0, ge |-> 0] >>
       ELSE LET slot == Place(tree, 1, p)
                k == Len(tree) + 1 IN
            tree' = Append([tree EXCEPT ![slot[1]] = IF slot[2] = "lt" THEN [@ EXCEPT !.lt = k] ELSE [@ EXCEPT !.ge = k]],
                           [c |-> p, axis |-> a, lt |-> 0, ge |-> 0])
Next == \E p \in Pts, a \in 1..2 : Insert(p, a)
Spec == Init /\ [][Next]_tree

\* ---- transcription of CoordTree.nearestNeighbor: state = <<best point, bound>> (bound -1 = +Inf) ----
Lt(d, bound) == bound = -1 \/ d < bound
RECURSIVE NN(_, _, _)
NN(i, q, st) ==
    IF i = 0 THEN st ELSE
    LET n == Node(i)
        d == D2(q, Dbl(n.c))
        st1 == IF Lt(d, st[2]) THEN <<n.c, d>> ELSE st
        plane == 2 * n.c[n.axis] - q[n.axis]                 \* planeDist (doubled)
        first == IF plane > 0 THEN n.lt ELSE n.ge
        other == IF plane > 0 THEN n.ge ELSE n.lt
        st2 == NN(first, q, st1) IN
    IF Lt(plane * plane, st2[2]) THEN NN(other, q, st2) ELSE st2
\* ---- sphereCollision with squared radius r2 (doubled units) ----
RECURSIVE Sphere(_, _, _)
Sphere(i, q, r2) ==
    IF i = 0 THEN FALSE ELSE
    LET n == Node(i)
        plane == 2 * n.c[n.axis] - q[n.axis]
        first == IF plane > 0 THEN n.lt ELSE n.ge
        other == IF plane > 0 THEN n.ge ELSE n.lt IN
    \/ D2(q, Dbl(n.c)) <= r2
    \/ Sphere(first, q, r2)
    \/ (plane * plane <= r2 /\ Sphere(other, q, r2))
RECURSIVE Has(_, _)
Has(i, p) == IF i = 0 THEN FALSE ELSE
             LET n == Node(i) IN n.c = p \/ (IF p[n.axis] < n.c[n.axis] THEN Has(n.lt, p) ELSE Has(n.ge, p))

Points == {Node(i).c : i \in 1..Len(tree)}
MinD2(q) == CHOOSE d \in {D2(q, Dbl(p)) : p \in Points} : \A p \in Points : d <= D2(q, Dbl(p))
Radii2 == {0, 1, 2, 4, 5, 8, 9}
NearestIsNearest == tree # << >> => \A q \in Queries : NN(1, q, <<<<0, 0>>, -1>>)[2] = MinD2(q)
SphereIsBrute == tree # << >> => \A q \in Queries : \A r2 \in Radii2 : Sphere(1, q, r2) = (\E p \in Points : D2(q, Dbl(p)) <= r2)
ContainsIsBrute == tree # << >> => \A p \in Pts : Has(1, p) = (p \in Points)
=============================================================================
