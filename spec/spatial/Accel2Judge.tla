----------------------------- MODULE Accel2Judge -----------------------------
(***************************************************************************)
(* Mode V for C08 (and the C06 / C07 clauses that come for free): the 2-D   *)
(* accelerated queries (model2d.MeshToCollider, BVHToCollider over          *)
(* NewBVHAreaDensity and over wide hand-built hierarchies, GroupSegments +  *)
(* GroupedSegmentsToCollider, nested JoinedColliders, MeshToSDF,            *)
(* GroupedSegmentsToSDF) and the grouping routines of both dimensions.      *)
(*                                                                         *)
(* The oracle of the scan-* clauses is the property's own: the literal      *)
(* linear scan over the individual segments with the same primitive         *)
(* routines, recorded by the harness next to the accelerated answer.  They  *)
(* are demanded of EVERY query: rays through vertices and along segments,   *)
(* tangent balls, flat boxes, coincident segments.                          *)
(*                                                                         *)
(* record: [id, site, variant, kind, panic, world, segs,                    *)
(*   rays:  <<[o, d, e, n, ncb, nnil, nlin, hitsame, first, firstlin,       *)
(*            firstsame, gp, nexact]>>,                                     *)
(*   balls: <<[c, m, hit, hitlin]>>,  multi: <<[kind, a, b, hit, hitlin]>>, *)
(*   sdf:   <<[p, pos, zero, same, close, bad, inlin, inexact, d2, d2exact, *)
(*            exactok]>>,                                                   *)
(*   contains: <<[p, inside, exact]>>,  group: [ok, nin, nout]]             *)
(*                                                                         *)
(*  scan-rays  - the number of collisions (with a callback, counted by the  *)
(*               callback, without a callback) is the sum over the          *)
(*               segments; the callbacks are the segments' own collisions   *)
(*  scan-first - the first collision exists iff some segment has one, and   *)
(*               is the minimum over the segments                           *)
(*  scan-ball  - circle query = disjunction over the segments               *)
(*  scan-multi - segment / rectangle query = disjunction over the segments  *)
(*  sdf-dist   - |SDF| = minimum over the segments of Segment.Dist (bit for *)
(*               bit in pixel worlds, where every quantity is exact; to     *)
(*               1e-12 elsewhere); PointSDF / NormalSDF / FaceSDF agree     *)
(*               with it; in pixel worlds 4 SDF^2 is the exact integer      *)
(*  sdf-sign   - off the outline the sign is the parity of the linear scan  *)
(*               and (closed outlines) the exact even-odd parity            *)
(*  grouping   - GroupSegments / GroupBounders / GroupTriangles return a    *)
(*               permutation of their input; the leaves of a hierarchy are  *)
(*               a permutation of the objects                               *)
(*  count      - (C07) a ray in general position has exactly the number of  *)
(*               collisions that integer arithmetic gives                   *)
(*  contains   - (C07) ColliderContains off the outline = even-odd parity   *)
(*  sdf-exact  - (C06) SDF^2 = exact rational squared distance (to 1e-9)    *)
(***************************************************************************)
EXTENDS Integers, Sequences, TLC, Json

Recs == ndJsonDeserialize("records.ndjson")
VARIABLES rec, done
R == Recs[rec]

All(s, P(_)) == \A i \in 1..Len(s) : P(s[i])

RayScan(r)  == r.n = r.nlin /\ r.ncb = r.n /\ r.nnil = r.n /\ r.hitsame
RayFirst(r) == r.first = r.firstlin /\ r.firstsame /\ (r.first = (r.n > 0))
RayCount(r) == r.gp => (r.n = r.nexact)
Same(q)     == q.hit = q.hitlin
SdfDist(q)  == /\ q.bad = 0
               /\ IF R.variant = "pixels" THEN q.same /\ q.d2 = q.d2exact ELSE q.close
SdfSign(q)  == q.zero \/ ( /\ q.pos = (q.inlin = 1)
                           /\ (q.inexact >= 0 => q.pos = (q.inexact = 1)) )
OffOutline(q) == q.inexact >= 0 => ~q.zero
In(c)       == c.exact < 0 \/ c.inside = (c.exact = 1)

Holds(c) ==
    CASE c = "panic"      -> R.panic = ""
      [] c = "scan-rays"  -> All(R.rays, RayScan)
      [] c = "scan-first" -> All(R.rays, RayFirst)
      [] c = "scan-ball"  -> All(R.balls, Same)
      [] c = "scan-multi" -> All(R.multi, Same)
      [] c = "sdf-dist"   -> All(R.sdf, SdfDist)
      [] c = "sdf-sign"   -> All(R.sdf, SdfSign) /\ All(R.sdf, OffOutline)
      [] c = "grouping"   -> R.group.ok /\ R.group.nin = R.group.nout
      [] c = "count"      -> All(R.rays, RayCount)
      [] c = "contains"   -> All(R.contains, In)
      [] c = "sdf-exact"  -> All(R.sdf, LAMBDA q : q.exactok)
      [] OTHER -> TRUE
Clauses == {"panic", "scan-rays", "scan-first", "scan-ball", "scan-multi", "sdf-dist", "sdf-sign", "grouping",
            "count", "contains", "sdf-exact"}
Fails == {c \in Clauses : ~Holds(c)}

Init == rec \in 1..Len(Recs) /\ done = FALSE
Next == /\ ~done /\ done' = TRUE /\ UNCHANGED rec /\ \A c \in Fails : PrintT(<<"REJECT", R.id, 0, c>>)
Spec == Init /\ [][Next]_<<rec, done>>
=============================================================================
