---------------------------- MODULE EstimatorGen ----------------------------
(* Mode R for Estimator: every renderer setting (NumSamples, MinSamples, criterion   *)
(* present) and every answer pattern of the convergence criterion, to be replayed    *)
(* into the real renderers.                                                           *)
EXTENDS Integers, Sequences, TLC, Json
CONSTANTS GenN
VARIABLES g, gdone
Settings == { [num |-> nn, min |-> mm, chk |-> cc, pat |-> pp] :
                 nn \in 1..GenN, mm \in 0..GenN, cc \in BOOLEAN, pp \in [1..GenN -> BOOLEAN] }
GInit == g \in {s \in Settings : (s.chk => s.min > 0) /\ (~s.chk => \A i \in 1..GenN : ~s.pat[i])} /\ gdone = FALSE
GNext == ~gdone /\ gdone' = TRUE /\ UNCHANGED g /\ PrintT(<<"CASE", ToJson(g)>>)
GenSpec == GInit /\ [][GNext]_<<g, gdone>>
=============================================================================
