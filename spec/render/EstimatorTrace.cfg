SPECIFICATION TSpec
CONSTANTS
  Vals = {0}
  MaxN = 1
INVARIANTS EndOK
CHECK_DEADLOCK FALSE
