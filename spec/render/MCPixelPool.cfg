SPECIFICATION Spec
CONSTANTS
  MaxP = 4
  MaxW = 3
INVARIANTS AtMostOnce AllOnceAtEnd
PROPERTIES Terminates
CHECK_DEADLOCK FALSE
