------------------------------ MODULE PixelPool ------------------------------
(***************************************************************************)
(* render3d.mapCoordinates: a channel pre-filled with every pixel, closed,  *)
(* and W worker goroutines that receive from it until it is drained; each   *)
(* received pixel is rendered (f) and written to img.Data[idx].  C20:       *)
(* "every pixel is rendered exactly once regardless of worker count".       *)
(* One action per channel receive and per completed pixel; all              *)
(* interleavings for P <= MaxP pixels and W <= MaxW workers.                *)
(***************************************************************************)
EXTENDS Integers, Sequences, FiniteSets, TLC
CONSTANTS MaxP, MaxW
VARIABLES P, W, chan, holding, rendered, wdone
vars == <<P, W, chan, holding, rendered, wdone>>

Init == /\ P \in 1..MaxP /\ W \in 1..MaxW
        /\ chan = [i \in 1..P |-> i]                \* pre-filled in index order, then closed
        /\ holding = [w \in 1..MaxW |-> 0]
        /\ rendered = [p \in 1..MaxP |-> 0]
        /\ wdone = {}
Receive(w) == /\ w \in 1..W /\ w \notin wdone /\ holding[w] = 0 /\ chan # <<>>
              /\ holding' = [holding EXCEPT ![w] = Head(chan)] /\ chan' = Tail(chan)
              /\ UNCHANGED <<P, W, rendered, wdone>>
Render(w) == /\ w \in 1..W /\ holding[w] # 0
             /\ rendered' = [rendered EXCEPT ![holding[w]] = @ + 1]
             /\ holding' = [holding EXCEPT ![w] = 0]
             /\ UNCHANGED <<P, W, chan, wdone>>
Exit(w) == /\ w \in 1..W /\ w \notin wdone /\ holding[w] = 0 /\ chan = <<>>
           /\ wdone' = wdone \cup {w} /\ UNCHANGED <<P, W, chan, holding, rendered>>
Next == \E w \in 1..MaxW : Receive(w) \/ Render(w) \/ Exit(w)
Spec == Init /\ [][Next]_vars /\ WF_vars(Next)

AtMostOnce == \A p \in 1..MaxP : rendered[p] <= 1
\* wg.Wait() returns when every worker has exited: then every pixel was rendered exactly once
AllOnceAtEnd == wdone = 1..W => \A p \in 1..P : rendered[p] = 1
Terminates == <>(wdone = 1..W)
=============================================================================
