----------------------------- MODULE SceneJudge -----------------------------
(***************************************************************************)
(* Exact oracles for the scene-structure clauses of C20, evaluated by TLC   *)
(* on records of the real render3d code:                                    *)
(*                                                                         *)
(* kind "pixels": [site, w, h, n, cpus, casts: <<count per pixel>>,         *)
(*                dataok: <<BOOLEAN per pixel>>, stray]                     *)
(*    once   - every pixel received exactly n primary rays and img.Data of  *)
(*             that pixel holds that pixel's own value (PixelPool's         *)
(*             AllOnceAtEnd on the real mapCoordinates, for the worker      *)
(*             count of the run)                                            *)
(* kind "hit": a scene of axis-aligned boxes, each under a chain of         *)
(*    transforms (translate, scale 2 or 1/2, quarter turn about z, axis     *)
(*    swap matrix), combined as JoinedObject / BVHToObject / FilteredObject,*)
(*    and integer rays.  Coordinates are integers in half units.            *)
(*    [objs: <<[lo, hi, xf: <<[k, o]>>]>>, rays: <<[o, d, hit, t12, exact,  *)
(*      n: <<3 ints>>, unit, mat]>>]                                        *)
(*    nearest - Cast reports a hit iff some image box is hit, at the        *)
(*              minimum ray parameter over all image boxes, with the        *)
(*              material of a box attaining it and the unit outward normal  *)
(*              of the face that is hit (rays in general position only)     *)
(* kind "shadow": a RecursiveRayTracer (depth 0, one sample) with one point  *)
(*    light renders matte boxes (floor + occluder) from straight above; for   *)
(*    each pixel the harness logs the primary hit point p (integers), the     *)
(*    face normal n, the box it lies on and round(10^6 * pixel).              *)
(*    [objs, light, pts: <<[p, pexact, n, own, pix6]>>]                       *)
(*    lit    - the pixel is non-black iff the surface faces the light and no  *)
(*             box blocks the segment from p to the light (exact segment/box  *)
(*             test; grazing segments are not decided)                        *)
(*    matte  - where |light - p| is an integer the lit value is the closed    *)
(*             form cos(theta) = n.(light - p) / |light - p| (unit light,     *)
(*             unit albedo), compared by cross-multiplication                 *)
(* kind "frame": DirectionalCamera(box, direction, its own field of view):    *)
(*    [box, dir, inside: <<BOOLEAN per corner>>, infront: <<BOOLEAN>>]          *)
(*    frame - the auto-framing camera really contains the object: every corner *)
(*            of the bounding box is in front of the camera and projects into  *)
(*            the frame with the helper's 5 percent margin                     *)
(* kind "camera": [w, h, pts: <<[x, y, c: <<3 ints>>, cexact, ux, uy,       *)
(*                 uexact]>>]                                               *)
(*    caster   - the direction of pixel (x, y), decomposed along the        *)
(*               camera's axes and scaled by w*h, is the rational           *)
(*               perspective direction of a 90-degree camera                *)
(*    uncaster - un-projecting a point on that ray returns (x, y)           *)
(***************************************************************************)
EXTENDS Integers, Sequences, FiniteSets, TLC, Json

Recs == ndJsonDeserialize("records.ndjson")
VARIABLES rec, done
R == Recs[rec]

\* ---------------------------------------------------------------- rationals <<num, den>>, den > 0
Q(n, d) == IF d > 0 THEN <<n, d>> ELSE <<-n, -d>>
Lt(a, b) == a[1] * b[2] < b[1] * a[2]
Le(a, b) == a[1] * b[2] <= b[1] * a[2]
Eq(a, b) == a[1] * b[2] = b[1] * a[2]
MaxQ(a, b) == IF Lt(a, b) THEN b ELSE a
MinQ(a, b) == IF Lt(a, b) THEN a ELSE b

\* ---------------------------------------------------------------- transforms on half-unit integer boxes
ApplyPt(x, p) ==
    CASE x.k = "t"  -> <<p[1] + x.o[1], p[2] + x.o[2], p[3] + x.o[3]>>
      [] x.k = "s2" -> <<2 * p[1], 2 * p[2], 2 * p[3]>>
      [] x.k = "sh" -> <<p[1] \div 2, p[2] \div 2, p[3] \div 2>>     \* coordinates are kept even before a halving
      [] x.k = "rz" -> <<-p[2], p[1], p[3]>>
      [] x.k = "rx" -> <<p[1], -p[3], p[2]>>                         \* quarter turn about x (does not commute with rz / sw)
      [] x.k = "sw" -> <<p[2], p[1], p[3]>>                          \* matrix that swaps x and y
RECURSIVE ApplyAll(_, _, _)
ApplyAll(xf, i, p) == IF i > Len(xf) THEN p ELSE ApplyAll(xf, i + 1, ApplyPt(xf[i], p))
Min2(a, b) == IF a < b THEN a ELSE b
Max2(a, b) == IF a < b THEN b ELSE a
ImageBox(o) == LET a == ApplyAll(o.xf, 1, o.lo)
                   b == ApplyAll(o.xf, 1, o.hi) IN
               [lo |-> [i \in 1..3 |-> Min2(a[i], b[i])], hi |-> [i \in 1..3 |-> Max2(a[i], b[i])]]

\* ---------------------------------------------------------------- ray / box (slab method, exact)
Axes(d) == {a \in 1..3 : d[a] # 0}
Enter(b, o, d, a) == IF d[a] > 0 THEN Q(b.lo[a] - o[a], d[a]) ELSE Q(b.hi[a] - o[a], d[a])
Leave(b, o, d, a) == IF d[a] > 0 THEN Q(b.hi[a] - o[a], d[a]) ELSE Q(b.lo[a] - o[a], d[a])
ParallelInside(b, o, d) == \A a \in (1..3) \ Axes(d) : b.lo[a] < o[a] /\ o[a] < b.hi[a]
ParallelTouch(b, o, d) == \E a \in (1..3) \ Axes(d) : o[a] = b.lo[a] \/ o[a] = b.hi[a]
TEnter(b, o, d) == LET A == Axes(d) IN
                   CHOOSE t \in {Enter(b, o, d, a) : a \in A} : \A a \in A : Le(Enter(b, o, d, a), t)
TLeave(b, o, d) == LET A == Axes(d) IN
                   CHOOSE t \in {Leave(b, o, d, a) : a \in A} : \A a \in A : Le(t, Leave(b, o, d, a))
Zero == <<0, 1>>
\* general position of a ray with respect to a box: no grazing, no start on the surface
GPBox(b, o, d) ==
    /\ ~ParallelTouch(b, o, d)
    /\ ~Eq(TEnter(b, o, d), TLeave(b, o, d))
    /\ ~Eq(TEnter(b, o, d), Zero) /\ ~Eq(TLeave(b, o, d), Zero)
    \* the face that is entered / left is unique
    /\ Cardinality({a \in Axes(d) : Eq(Enter(b, o, d, a), TEnter(b, o, d))}) = 1
    /\ Cardinality({a \in Axes(d) : Eq(Leave(b, o, d, a), TLeave(b, o, d))}) = 1
Hits(b, o, d) == /\ ParallelInside(b, o, d)
                 /\ Lt(TEnter(b, o, d), TLeave(b, o, d))
                 /\ Lt(Zero, TLeave(b, o, d))
\* first hit: entry if the origin is outside, exit otherwise
FirstT(b, o, d) == IF Lt(Zero, TEnter(b, o, d)) THEN TEnter(b, o, d) ELSE TLeave(b, o, d)
FirstNormal(b, o, d) ==
    IF Lt(Zero, TEnter(b, o, d))
    THEN LET a == CHOOSE a \in Axes(d) : Eq(Enter(b, o, d, a), TEnter(b, o, d)) IN
         [i \in 1..3 |-> IF i = a THEN (IF d[a] > 0 THEN -1 ELSE 1) ELSE 0]
    ELSE LET a == CHOOSE a \in Axes(d) : Eq(Leave(b, o, d, a), TLeave(b, o, d)) IN
         [i \in 1..3 |-> IF i = a THEN (IF d[a] > 0 THEN 1 ELSE -1) ELSE 0]

Boxes == [i \in 1..Len(R.objs) |-> ImageBox(R.objs[i])]
HitSet(o, d) == {i \in 1..Len(R.objs) : Hits(Boxes[i], o, d)}
RayGP(o, d) == /\ Axes(d) # {}
               /\ \A i \in 1..Len(R.objs) : GPBox(Boxes[i], o, d)
               \* no two boxes are first hit at the same parameter (the property resolves no such tie)
               /\ \A i, j \in HitSet(o, d) : i # j => ~Eq(FirstT(Boxes[i], o, d), FirstT(Boxes[j], o, d))
RayOK(q) ==
    ~RayGP(q.o, q.d) \/
    LET H == HitSet(q.o, q.d) IN
    IF H = {} THEN ~q.hit
    ELSE LET w == CHOOSE i \in H : \A j \in H : Le(FirstT(Boxes[i], q.o, q.d), FirstT(Boxes[j], q.o, q.d))
             t == FirstT(Boxes[w], q.o, q.d) IN
         /\ q.hit /\ q.exact /\ q.unit
         /\ q.t12 * t[2] = 12 * t[1]
         \* (a part without a material of its own reports none: mat = 0)
         /\ q.mat = (IF R.objs[w].bare THEN 0 ELSE w)
         /\ q.n = FirstNormal(Boxes[w], q.o, q.d)

\* ---------------------------------------------------------------- shadows (segment p -> light)
One == <<1, 1>>
SegLo(b, o, d) == IF Axes(d) = {} THEN Zero ELSE MaxQ(TEnter(b, o, d), Zero)
SegHi(b, o, d) == IF Axes(d) = {} THEN One ELSE MinQ(TLeave(b, o, d), One)
Blocks(b, o, d) == ParallelInside(b, o, d) /\ Lt(SegLo(b, o, d), SegHi(b, o, d))
ParallelClosed(b, o, d) == \A a \in (1..3) \ Axes(d) : b.lo[a] <= o[a] /\ o[a] <= b.hi[a]
Touches(b, o, d) == ParallelClosed(b, o, d) /\ Le(SegLo(b, o, d), SegHi(b, o, d))
Dot(a, b) == a[1] * b[1] + a[2] * b[2] + a[3] * b[3]
IsqrtOrZero(n) == IF \E r \in 1..200 : r * r = n THEN CHOOSE r \in 1..200 : r * r = n ELSE 0
Abs(x) == IF x < 0 THEN -x ELSE x
ShadowPtOK(q) ==
    LET d == [i \in 1..3 |-> R.light[i] - q.p[i]]
        others == (1..Len(R.objs)) \ {q.own}
        own == Boxes[q.own]
        \* p lies in the open interior of one face of its own box, whose normal is q.n
        onface == \E a \in 1..3 :
                     /\ q.n = [i \in 1..3 |-> IF i = a THEN q.n[a] ELSE 0] /\ q.n[a] \in {-1, 1}
                     /\ q.p[a] = (IF q.n[a] = 1 THEN own.hi[a] ELSE own.lo[a])
                     /\ \A i \in (1..3) \ {a} : own.lo[i] < q.p[i] /\ q.p[i] < own.hi[i]
        gp == /\ q.pexact /\ Dot(q.n, d) # 0 /\ onface
              /\ \A i \in others : Blocks(Boxes[i], q.p, d) \/ ~Touches(Boxes[i], q.p, d)
        lit == Dot(q.n, d) > 0 /\ \A i \in others : ~Blocks(Boxes[i], q.p, d)
        len == IsqrtOrZero(Dot(d, d))
    IN ~gp \/ ( /\ (q.pix6 > 0) = lit
                /\ (lit /\ len > 0) => Abs(q.pix6 * len - Dot(q.n, d) * 1000000) <= len )
ShadowDecided == Cardinality({i \in 1..Len(R.pts) :
                    LET q == R.pts[i]
                        d == [k \in 1..3 |-> R.light[k] - q.p[k]] IN
                    q.pexact /\ Dot(q.n, d) > 0 /\ \E j \in (1..Len(R.objs)) \ {q.own} : Blocks(Boxes[j], q.p, d)})

\* ---------------------------------------------------------------- camera (field of view 90 degrees)
CamDir(w, h, x, y) == IF w > h THEN <<(2 * x - w) * h, (2 * y - h) * h, w * h>>
                      ELSE <<(2 * x - w) * w, (2 * y - h) * w, w * h>>

Holds(c) ==
    CASE R.kind = "pixels" /\ c = "once" ->
            /\ R.panic = "" /\ R.stray = 0
            /\ \A p \in 1..Len(R.casts) : R.casts[p] = R.n /\ R.dataok[p]
            /\ Len(R.casts) = R.w * R.h
      [] R.kind = "hit" /\ c = "nearest" -> R.panic = "" /\ \A i \in 1..Len(R.rays) : RayOK(R.rays[i])
      [] R.kind = "shadow" /\ c = "lit" -> R.panic = "" /\ \A i \in 1..Len(R.pts) : ShadowPtOK(R.pts[i])
      \* several point lights, listed in either order: the picture is the sum of the pictures under each group of
      \* lights, for the tracer (entries 1..4) and for the ray caster (entries 5..8), to 2e-6 per pixel
      [] R.kind = "shadow" /\ c = "lights" ->
            R.panic = "" /\ \A i \in 1..Len(R.sums) :
                LET v == R.sums[i] IN
                /\ Len(v) = 8 /\ \A k \in 1..8 : v[k] >= 0
                /\ \A o \in {0, 4} : /\ Abs(v[o + 3] - v[o + 1] - v[o + 2]) <= 2
                                      /\ Abs(v[o + 4] - v[o + 3]) <= 2
      [] R.kind = "frame" /\ c = "frame" -> R.panic = "" /\ Len(R.inside) = 8
                                            /\ \A i \in 1..Len(R.inside) : R.inside[i] /\ R.infront[i]
      [] R.kind = "camera" /\ c = "caster" ->
            \A i \in 1..Len(R.pts) : LET p == R.pts[i] IN p.cexact /\ p.c = CamDir(R.w, R.h, p.x, p.y)
      [] R.kind = "camera" /\ c = "uncaster" ->
            \A i \in 1..Len(R.pts) : LET p == R.pts[i] IN p.uexact /\ p.ux = 1000 * p.x /\ p.uy = 1000 * p.y
      [] OTHER -> TRUE
Clauses == {"once", "nearest", "lit", "lights", "frame", "caster", "uncaster"}
Fails == {c \in Clauses : ~Holds(c)}
\* how many rays of a hit record were in general position and hit something (vacuity counter)
Decided == IF R.kind = "hit"
           THEN Cardinality({i \in 1..Len(R.rays) : RayGP(R.rays[i].o, R.rays[i].d) /\ HitSet(R.rays[i].o, R.rays[i].d) # {}})
           ELSE IF R.kind = "shadow" THEN ShadowDecided ELSE 0
Init == rec \in 1..Len(Recs) /\ done = FALSE
Next == /\ ~done /\ done' = TRUE /\ UNCHANGED rec
        /\ \A c \in Fails : PrintT(<<"REJECT", R.id, 0, c>>)
        /\ (R.kind \in {"hit", "shadow"} => PrintT(<<"NOTE", R.id, Decided>>))
Spec == Init /\ [][Next]_<<rec, done>>
=============================================================================
