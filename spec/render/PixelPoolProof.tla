--------------------------- MODULE PixelPoolProof ---------------------------
(***************************************************************************)
(* PixelPool for ANY number of pixels P and workers W, with the channel     *)
(* abstracted to the index `next` of its head (the channel of PixelPool     *)
(* holds exactly the pixels next..P in order; PixelPool refines this module *)
(* under next = P - Len(chan) + 1, which TLC checks for the bounded         *)
(* constants).  The theorems are machine-checked by TLAPS: no pixel is      *)
(* rendered twice, and once every worker has left every pixel was rendered  *)
(* exactly once - for all P, W, not only the bounds TLC explores.           *)
(***************************************************************************)
EXTENDS Integers, TLAPS
CONSTANTS P, W
ASSUME PW == P \in Nat /\ W \in Nat
VARIABLES next, holding, rendered, wdone
vars == <<next, holding, rendered, wdone>>

Init == /\ next = 1
        /\ holding = [w \in 1..W |-> 0]
        /\ rendered = [p \in 1..P |-> 0]
        /\ wdone = {}
Receive(w) == /\ w \notin wdone /\ holding[w] = 0 /\ next <= P
              /\ holding' = [holding EXCEPT ![w] = next] /\ next' = next + 1
              /\ UNCHANGED <<rendered, wdone>>
Render(w) == /\ holding[w] # 0
             /\ rendered' = [rendered EXCEPT ![holding[w]] = @ + 1]
             /\ holding' = [holding EXCEPT ![w] = 0]
             /\ UNCHANGED <<next, wdone>>
Exit(w) == /\ w \notin wdone /\ holding[w] = 0 /\ next > P
           /\ wdone' = wdone \cup {w} /\ UNCHANGED <<next, holding, rendered>>
Next == \E w \in 1..W : Receive(w) \/ Render(w) \/ Exit(w)
Spec == Init /\ [][Next]_vars

TypeOK == /\ next \in 1..(P + 1)
          /\ holding \in [1..W -> 0..P]
          /\ rendered \in [1..P -> Nat]
          /\ wdone \subseteq 1..W
\* a pixel still in the channel is untouched; a pixel taken out is either held by exactly one worker
\* and not rendered yet, or held by nobody and rendered once
Inv == /\ TypeOK
       /\ \A p \in 1..P : p >= next => rendered[p] = 0 /\ \A w \in 1..W : holding[w] # p
       /\ \A p \in 1..P : p < next =>
             \/ rendered[p] = 1 /\ \A w \in 1..W : holding[w] # p
             \/ rendered[p] = 0 /\ \E w \in 1..W : holding[w] = p /\ \A v \in 1..W : holding[v] = p => v = w
       /\ \A w \in wdone : holding[w] = 0
       /\ wdone # {} => next = P + 1

AtMostOnce == \A p \in 1..P : rendered[p] <= 1
AllOnceAtEnd == (wdone = 1..W /\ W >= 1) => \A p \in 1..P : rendered[p] = 1

LEMMA InitInv == Init => Inv
  BY PW DEF Init, Inv, TypeOK

LEMMA NextInv == Inv /\ [Next]_vars => Inv'
<1> SUFFICES ASSUME Inv, [Next]_vars PROVE Inv'
  OBVIOUS
<1>1 CASE UNCHANGED vars
  BY <1>1 DEF Inv, TypeOK, vars
<1>2 ASSUME NEW w \in 1..W, Receive(w) PROVE Inv'
  BY <1>2, PW DEF Inv, TypeOK, Receive
<1>3 ASSUME NEW w \in 1..W, Render(w) PROVE Inv'
  BY <1>3, PW DEF Inv, TypeOK, Render
<1>4 ASSUME NEW w \in 1..W, Exit(w) PROVE Inv'
  BY <1>4, PW DEF Inv, TypeOK, Exit
<1> QED BY <1>1, <1>2, <1>3, <1>4 DEF Next

THEOREM Safety == Spec => [](AtMostOnce /\ AllOnceAtEnd)
<1>1 Inv => AtMostOnce /\ AllOnceAtEnd
  <2> SUFFICES ASSUME Inv PROVE AtMostOnce /\ AllOnceAtEnd
    OBVIOUS
  <2>1 AtMostOnce
    <3> SUFFICES ASSUME NEW p \in 1..P PROVE rendered[p] <= 1
      BY DEF AtMostOnce
    <3>1 CASE p >= next
      BY <3>1 DEF Inv, TypeOK
    <3>2 CASE p < next
      BY <3>2 DEF Inv, TypeOK
    <3> QED BY <3>1, <3>2, PW DEF Inv, TypeOK
  <2>2 AllOnceAtEnd
    <3> SUFFICES ASSUME wdone = 1..W, W >= 1, NEW p \in 1..P PROVE rendered[p] = 1
      BY DEF AllOnceAtEnd
    <3>1 1 \in wdone
      BY PW
    <3>2 next = P + 1
      BY <3>1 DEF Inv
    <3>3 p < next
      BY <3>2, PW
    <3>4 \A w \in 1..W : holding[w] = 0
      BY DEF Inv
    <3>5 \A w \in 1..W : holding[w] # p
      BY <3>4
    <3> QED BY <3>3, <3>5 DEF Inv
  <2> QED BY <2>1, <2>2
<1>2 Spec => []Inv
  BY InitInv, NextInv, PTL DEF Spec
<1> QED BY <1>1, <1>2, PTL
=============================================================================
