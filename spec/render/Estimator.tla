------------------------------ MODULE Estimator ------------------------------
(***************************************************************************)
(* The per-pixel Monte-Carlo estimator of render3d (rayRenderer.            *)
(* estimateColor, shared by RecursiveRayTracer and BidirPathTracer). C20.   *)
(*                                                                         *)
(* Abstract state: the samples taken so far (count and sum) and whether a   *)
(* convergence criterion has stopped the pixel.  The requirement of C20 is  *)
(* the guard of Finish: the pixel value is the arithmetic mean of exactly   *)
(* the samples taken, "whatever the early-stopping settings"; the settings  *)
(* documented on the renderers bound when a pixel may stop (at least        *)
(* MinSamples samples, at most NumSamples, early only after a criterion     *)
(* said so).  When the criterion is consulted is deliberately left open:    *)
(* any schedule of consultations is a behaviour of this spec.               *)
(***************************************************************************)
EXTENDS Integers, Sequences, TLC

CONSTANTS Vals, MaxN

VARIABLES NumSamples, MinSamples, HasCheck,   \* the renderer's settings (fixed per behaviour)
          taken, sum, stopped, fin
cvars == <<NumSamples, MinSamples, HasCheck>>
evars == <<NumSamples, MinSamples, HasCheck, taken, sum, stopped, fin>>

EInit == /\ NumSamples \in 1..MaxN /\ MinSamples \in 0..MaxN /\ HasCheck \in BOOLEAN
         /\ (HasCheck => MinSamples > 0)      \* the criterion is only active with MinSamples set
         /\ taken = 0 /\ sum = 0 /\ stopped = FALSE /\ fin = FALSE

\* one radiance sample of value v is taken for the pixel
Sample(v) == /\ ~fin /\ ~stopped /\ taken < NumSamples
             /\ taken' = taken + 1 /\ sum' = sum + v
             /\ UNCHANGED <<stopped, fin, cvars>>

\* the convergence criterion is consulted and answers b
Consult(b) == /\ ~fin /\ ~stopped /\ HasCheck /\ taken >= 1
              /\ stopped' = (b /\ taken >= MinSamples)
              /\ (b => taken >= MinSamples)          \* a pixel never stops before MinSamples
              /\ UNCHANGED <<taken, sum, fin, cvars>>

\* the pixel is written: num/den is its value
Finish(num, den) == /\ ~fin /\ (stopped \/ taken = NumSamples)
                    /\ taken >= 1
                    /\ den > 0 /\ num * taken = sum * den   \* the arithmetic mean of the samples taken
                    /\ fin' = TRUE
                    /\ UNCHANGED <<taken, sum, stopped, cvars>>

ENext == \/ \E v \in Vals : Sample(v)
         \/ \E b \in BOOLEAN : Consult(b)
         \/ Finish(sum, taken)
ESpec == EInit /\ [][ENext]_evars
=============================================================================
