---------------------------- MODULE EstimatorImpl ----------------------------
(***************************************************************************)
(* Transcription of rayRenderer.estimateColor (render3d/ray_renderer.go),   *)
(* one action per loop step, and the check that it refines Estimator        *)
(* (mode E): TLC explores every NumSamples <= N, MinSamples, every sample   *)
(* sequence over Vals and every answer pattern of the convergence           *)
(* criterion.                                                               *)
(*                                                                         *)
(*   for n < NumSamples {                                                   *)
(*       sum += sample(); n++                                               *)
(*       if !HasConvergenceCheck() { continue }                             *)
(*       if n < MinSamples || n < 2 { continue }                            *)
(*       if Converged(mean(n), stddev(n)) { break }                         *)
(*   }                                                                      *)
(*   return sum / n                                                         *)
(*                                                                         *)
(* (Before the repair recorded in known_findings.json the counter was       *)
(* incremented by the for statement's post clause, which a break skips, so  *)
(* an early stop divided by one less than the samples taken; TLC refuted    *)
(* RefinesFinish for NumSamples = 3, MinSamples = 1.)                       *)
(***************************************************************************)
EXTENDS Estimator

VARIABLES n, pc, div
ivars == <<n, pc, div, NumSamples, MinSamples, HasCheck, taken, sum, stopped, fin>>

IInit == EInit /\ n = 0 /\ pc = "loop" /\ div = 0

ISample(v) == /\ pc = "loop" /\ n < NumSamples
              /\ Sample(v)
              /\ n' = n + 1
              /\ pc' = IF HasCheck /\ n + 1 >= MinSamples /\ n + 1 >= 2 THEN "conv" ELSE "loop"
              /\ UNCHANGED div
IConverged(b) == /\ pc = "conv"
                 /\ Consult(b)
                 /\ pc' = IF b THEN "ret" ELSE "loop"
                 /\ UNCHANGED <<n, div>>
IExit == /\ pc = "loop" /\ n = NumSamples
         /\ pc' = "ret" /\ UNCHANGED <<n, div, taken, sum, stopped, fin, cvars>>
\* return colorSum.Scale(1 / n): the pixel is sum/n whatever was taken
IReturn == /\ pc = "ret"
           /\ div' = n /\ pc' = "done" /\ fin' = TRUE
           /\ UNCHANGED <<n, taken, sum, stopped, cvars>>

INext == \/ \E v \in Vals : ISample(v)
         \/ \E b \in BOOLEAN : IConverged(b)
         \/ IExit \/ IReturn
ISpec == IInit /\ [][INext]_ivars

\* every step of the code is a step of Estimator: the abstract conjunct of each action above
\* must be enabled whenever the code takes the step (checked as "never stuck before done")
NotStuck == pc # "done" => ENABLED INext
\* the return is a Finish step of Estimator: the divisor is the number of samples taken
RefinesFinish == pc = "ret" => (n = taken /\ taken >= 1 /\ (stopped \/ taken = NumSamples))
Bounds == taken <= NumSamples /\ (stopped => taken >= MinSamples)
=============================================================================
