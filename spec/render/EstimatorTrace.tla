--------------------------- MODULE EstimatorTrace ---------------------------
(***************************************************************************)
(* Validation of per-pixel traces of the real renderers against Estimator   *)
(* (mode V), and generation of the settings to replay (mode R).             *)
(* records.ndjson: [id, site, num, min, chk, silent, ev: <<[op, v, b, pix, exact]>>]*)
(*   cast  - the scripted scene object was asked for the pixel's next       *)
(*           radiance sample and handed out emission (v, 2v, 3v)            *)
(*   conv  - the scripted Convergence callback was consulted, answered b    *)
(*   done  - the pixel was written: pix[k] = round(840 * channel k),        *)
(*           exact = the rounding was exact (840 = lcm(1..8))               *)
(* Every event must be a step of Estimator.  Clauses of a rejection:        *)
(*   mean        the written value is not sum/taken of the samples taken    *)
(*   stop        the pixel was written although neither a criterion stopped *)
(*               it nor NumSamples samples were taken                       *)
(*   oversample  a sample was taken after the stop or beyond NumSamples     *)
(*   minsamples  the pixel stopped before MinSamples samples                *)
(***************************************************************************)
EXTENDS Estimator, Json

Recs == ndJsonDeserialize("records.ndjson")
VARIABLES rec, l, status
tvars == <<NumSamples, MinSamples, HasCheck, taken, sum, stopped, fin, rec, l, status>>
R == Recs[rec]
E == R.ev[l]

TInit == /\ rec \in 1..Len(Recs) /\ l = 1 /\ status = "run"
         /\ NumSamples = Recs[rec].num /\ MinSamples = Recs[rec].min /\ HasCheck = Recs[rec].chk
         /\ taken = 0 /\ sum = 0 /\ stopped = FALSE /\ fin = FALSE

\* R.silent: the built-in MaxStddev criterion cannot be observed, so a stop by it is a silent
\* Consult(TRUE) composed with the Finish step (only where Consult(TRUE) is enabled)
SilentStop == /\ R.silent /\ ~stopped /\ ENABLED Consult(TRUE)
              /\ stopped' = TRUE /\ fin' = TRUE /\ UNCHANGED <<taken, sum, cvars>>
Step(e) ==
    \/ e.op = "cast" /\ Sample(e.v)
    \/ e.op = "conv" /\ Consult(e.b)
    \/ e.op = "done" /\ e.exact
                     /\ (Finish(e.pix[1], 840) \/ (SilentStop /\ e.pix[1] * taken = sum * 840))
                     /\ e.pix[2] * taken = 2 * sum * 840 /\ e.pix[3] * taken = 3 * sum * 840

Why(e) == IF e.op = "cast" THEN "oversample"
          ELSE IF e.op = "conv" THEN "minsamples"
          ELSE IF ~(stopped \/ taken = NumSamples \/ (R.silent /\ ENABLED Consult(TRUE))) \/ taken = 0 THEN "stop"
          ELSE "mean"

Walk == /\ status = "run" /\ l <= Len(R.ev)
        /\ IF ENABLED Step(E)
           THEN Step(E) /\ l' = l + 1 /\ UNCHANGED <<rec, status>>
           ELSE /\ PrintT(<<"REJECT", R.id, l, Why(E)>>)
                /\ status' = "rej"
                /\ UNCHANGED <<NumSamples, MinSamples, HasCheck, taken, sum, stopped, fin, rec, l>>
Finished == /\ status = "run" /\ l > Len(R.ev)
            /\ status' = "done"
            /\ UNCHANGED <<NumSamples, MinSamples, HasCheck, taken, sum, stopped, fin, rec, l>>
Term == status # "run" /\ UNCHANGED tvars
TNext == Walk \/ Finished \/ Term
TSpec == TInit /\ [][TNext]_tvars
\* every complete trace ends with the pixel written
EndOK == status = "done" => fin

=============================================================================
