---------------------------- MODULE RadianceJudge ----------------------------
(* Mode V for C20 (closed-form radiance): records [id, kind, site, depth, finite, dev, tol, panic]    *)
(* from renders of scenes whose radiance is known in closed form (harness c20_radiance.go).           *)
(*   kind "emitter" - a uniform emitter fills the view; dev = largest |pixel - emission| (1e-12 units) *)
(*   kind "furnace" - camera inside a closed matte emitting sphere, recursive tracer;                 *)
(*                    dev = largest |pixel - E (1 + rho + .. + rho^depth)| (1e-12 units)              *)
(*   kind "floor"   - matte floor under a spherical emitter; dev = |mean over the image of            *)
(*                    rendered / closed form - 1| (1e-6 units), a Monte-Carlo estimate whose standard *)
(*                    error is below a tenth of tol                                                   *)
(* Clauses: panic; finite (no NaN / Inf pixel); closed-form (dev <= tol).                             *)
EXTENDS Integers, Sequences, TLC, Json
Recs == ndJsonDeserialize("records.ndjson")
VARIABLES rec, done
R == Recs[rec]
Holds(c) == CASE c = "panic" -> R.panic = ""
              [] c = "finite" -> R.panic = "" => R.finite
              [] c = "closed-form" -> (R.panic = "" /\ R.finite) => R.dev <= R.tol
              [] OTHER -> TRUE
Fails == {c \in {"panic", "finite", "closed-form"} : ~Holds(c)}
Init == rec \in 1..Len(Recs) /\ done = FALSE
Next == /\ ~done /\ done' = TRUE /\ UNCHANGED rec /\ \A c \in Fails : PrintT(<<"REJECT", R.id, 0, c>>)
Spec == Init /\ [][Next]_<<rec, done>>
=============================================================================
