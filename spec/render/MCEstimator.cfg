SPECIFICATION ISpec
CONSTANTS
  MaxN = 5
  Vals = {0, 1, 3}
INVARIANTS NotStuck RefinesFinish Bounds
CHECK_DEADLOCK FALSE
