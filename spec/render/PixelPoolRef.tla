---------------------------- MODULE PixelPoolRef ----------------------------
(* PixelPool (the channel as a sequence, as in render3d.mapCoordinates) refines PixelPoolProof (the channel as *)
(* the index of its head), whose safety theorems TLAPS proves for every number of pixels and workers.          *)
(* Checked by TLC for the behaviours with P = MaxP, W = MaxW, for each pair of bounds in the configuration.    *)
EXTENDS PixelPool
Abs == INSTANCE PixelPoolProof WITH P <- MaxP, W <- MaxW, next <- MaxP - Len(chan) + 1
RefInit == Init /\ P = MaxP /\ W = MaxW
RefSpec == RefInit /\ [][Next]_vars
AbsSpec == Abs!Spec
AbsInv == Abs!Inv
=============================================================================
