------------------------------- MODULE DcJudge -------------------------------
(***************************************************************************)
(* Dual contouring with clipping on a boolean lattice (C02, C12).          *)
(*                                                                         *)
(* Design facts transcribed from dc.go: one vertex per cube that has an    *)
(* active edge, placed (with Clip) strictly inside the cube shrunk by the  *)
(* margin; one quad per active lattice edge, built from the vertices of    *)
(* the four cubes around that edge in cyclic order, flipped iff the first  *)
(* corner is contained; each quad is split into two triangles.             *)
(*                                                                         *)
(* The harness maps every vertex of the real output to the cube that       *)
(* contains it (code = (x*16+y)*16+z of the cube's lower corner; `bad`     *)
(* counts vertices not inside a shrunk cube).  This judge checks:          *)
(*   quads   - every triangle's three cubes surround exactly one lattice   *)
(*             edge; that edge is active; every active edge carries        *)
(*             exactly two triangles which together use all four cubes;    *)
(*             no triangle on an inactive edge                             *)
(*   orient  - seen from the excluded end of the edge, each triangle runs  *)
(*             through its cubes counter-clockwise                         *)
(* Why this gives C02's "crossed exactly once, with the normal from the    *)
(* contained to the excluded end": project along the edge; the four quad   *)
(* vertices lie strictly inside the four open quadrants around the edge,   *)
(* so the quad's boundary winds exactly once around the edge, in the       *)
(* direction given by its cyclic order; the two triangles split that       *)
(* winding between them.  No other quad reaches the edge, because every    *)
(* other triangle has its vertices in cubes that do not all touch it.      *)
(***************************************************************************)
EXTENDS Integers, Sequences, FiniteSets, TLC, Json

Recs == ndJsonDeserialize("records.ndjson")
VARIABLES rec, done
R == Recs[rec]
NXr == R.n[1]
NYr == R.n[2]
NZr == R.n[3]
In(p) == /\ p[1] >= 1 /\ p[1] <= NXr /\ p[2] >= 1 /\ p[2] <= NYr /\ p[3] >= 1 /\ p[3] <= NZr
         /\ R.inside[1 + (p[1] - 1) + NXr * ((p[2] - 1) + NYr * (p[3] - 1))] = 1

CubeCode(p) == (p[1] * 16 + p[2]) * 16 + p[3]
CubeOf(c) == <<c \div 256, (c \div 16) % 16, c % 16>>
Unit(a) == IF a = 0 THEN <<1, 0, 0>> ELSE IF a = 1 THEN <<0, 1, 0>> ELSE <<0, 0, 1>>
Add3(p, q) == <<p[1] + q[1], p[2] + q[2], p[3] + q[3]>>

\* lattice edges: <<lower end point, axis>>
Edges == {<<<<x, y, z>>, a>> : x \in 0..(NXr + 1), y \in 0..(NYr + 1), z \in 0..(NZr + 1), a \in 0..2}
InRange(p) == p[1] <= NXr + 1 /\ p[2] <= NYr + 1 /\ p[3] <= NZr + 1
ActiveE(e) == InRange(Add3(e[1], Unit(e[2]))) /\ In(e[1]) # In(Add3(e[1], Unit(e[2])))

\* the four cubes around edge e, counter-clockwise seen from the + end of its axis
\* ((u, v, axis) right-handed: axis x -> (y,z), y -> (z,x), z -> (x,y))
U(a) == IF a = 0 THEN <<0, 1, 0>> ELSE IF a = 1 THEN <<0, 0, 1>> ELSE <<1, 0, 0>>
V(a) == IF a = 0 THEN <<0, 0, 1>> ELSE IF a = 1 THEN <<1, 0, 0>> ELSE <<0, 1, 0>>
Neg(p) == <<-p[1], -p[2], -p[3]>>
Ring(e) == LET p == e[1] u == U(e[2]) v == V(e[2]) IN
           << Add3(Add3(p, Neg(u)), Neg(v)), Add3(p, Neg(v)), p, Add3(p, Neg(u)) >>
RingCodes(e) == [i \in 1..4 |-> CubeCode(Ring(e)[i])]
ValidRing(e) == \A i \in 1..4 : Ring(e)[i][1] >= 0 /\ Ring(e)[i][2] >= 0 /\ Ring(e)[i][3] >= 0

Tris == {<<R.tris[i][1], R.tris[i][2], R.tris[i][3]>> : i \in 1..Len(R.tris)}
TriIdx == 1..Len(R.tris)
T(i) == R.tris[i]

\* the lattice edge surrounded by the three cubes of triangle i: the cubes must lie in a
\* 2x2x1 block; the block's flat axis is the edge's axis and the edge runs through the
\* lower corner of the block's largest cube.  <<>> if the cubes do not surround an edge.
MinI(x, y, z) == IF x <= y /\ x <= z THEN x ELSE IF y <= z THEN y ELSE z
MaxI(x, y, z) == IF x >= y /\ x >= z THEN x ELSE IF y >= z THEN y ELSE z
TriEdge(i) ==
    LET c1 == CubeOf(T(i)[1]) c2 == CubeOf(T(i)[2]) c3 == CubeOf(T(i)[3])
        lo == [k \in 1..3 |-> MinI(c1[k], c2[k], c3[k])]
        hi == [k \in 1..3 |-> MaxI(c1[k], c2[k], c3[k])]
        flat == {k \in 1..3 : lo[k] = hi[k]}
    IN IF Cardinality(flat) = 1 /\ \A k \in (1..3) \ flat : hi[k] = lo[k] + 1
       THEN LET a == CHOOSE k \in flat : TRUE
            IN <<[k \in 1..3 |-> IF k = a THEN lo[k] ELSE hi[k]], a - 1>>
       ELSE <<>>
EdgesOfTri(i) == IF TriEdge(i) = <<>> THEN {} ELSE {<<<<TriEdge(i)[1][1], TriEdge(i)[1][2], TriEdge(i)[1][3]>>, TriEdge(i)[2]>>}
PosIn(e, c) == CHOOSE k \in 1..4 : RingCodes(e)[k] = c
\* counter-clockwise (seen from the + end) iff the ring positions increase cyclically
CCW(e, t) == LET a == PosIn(e, t[1]) b == PosIn(e, t[2]) c == PosIn(e, t[3])
             IN ((b - a) % 4) + ((c - b) % 4) + ((a - c) % 4) = 4

QuadsOK ==
    /\ \A i \in TriIdx : /\ Cardinality({T(i)[1], T(i)[2], T(i)[3]}) = 3
                         /\ Cardinality(EdgesOfTri(i)) = 1
                         /\ \A e \in EdgesOfTri(i) : ActiveE(e)
    /\ \A e \in {x \in Edges : ActiveE(x)} :
          LET mine == {i \in TriIdx : EdgesOfTri(i) = {e}} IN
          /\ Cardinality(mine) = 2
          /\ UNION {{T(i)[1], T(i)[2], T(i)[3]} : i \in mine} = {RingCodes(e)[k] : k \in 1..4}
          \* the two triangles tile the quad: they meet in one diagonal (two cubes opposite each other in the ring)
          /\ \A i, j \in mine : i # j =>
                LET sh == {T(i)[1], T(i)[2], T(i)[3]} \cap {T(j)[1], T(j)[2], T(j)[3]} IN
                /\ Cardinality(sh) = 2
                /\ \A a, b \in sh : a # b => (PosIn(e, a) - PosIn(e, b)) % 4 = 2

OrientOK ==
    \A i \in TriIdx : \A e \in EdgesOfTri(i) :
        \* normal must point to the excluded end: + axis iff the lower end is contained
        IF In(e[1]) THEN CCW(e, T(i)) ELSE ~CCW(e, T(i))

Holds(c) ==
    CASE c = "panic"    -> R.panic = ""
      [] c = "incube"   -> R.bad = 0
      [] c = "quads"    -> QuadsOK
      [] c = "orient"   -> OrientOK
      [] c = "interior" -> R.interiorbad = 0
      [] OTHER -> TRUE
Clauses == {"panic", "incube", "quads", "orient", "interior"}
Fails == {c \in Clauses : ~Holds(c)}

Init == rec \in 1..Len(Recs) /\ done = FALSE
Next == /\ ~done /\ done' = TRUE /\ UNCHANGED rec
        /\ \A c \in Fails : PrintT(<<"REJECT", R.id, 0, c>>)
Spec == Init /\ [][Next]_<<rec, done>>
=============================================================================
