----------------------------- MODULE BisectJudge -----------------------------
(* Mode V for C02 (search refinement in law form): records [id, site, count, far, n, outside,        *)
(* unbrack, panic] of SolidSurfaceEstimator on solids with non-dyadic transitions.                    *)
(*  interior - every point reported by BisectInterior is contained in the solid (also when the       *)
(*             bisection has converged to floating-point resolution: count >= 48, or far from the    *)
(*             origin)                                                                               *)
(*  bracket  - Bisect's result is within (segment length) / 2^count (+ 4 ulp) of the transition      *)
EXTENDS Integers, Sequences, TLC, Json
Recs == ndJsonDeserialize("records.ndjson")
VARIABLES rec, done
R == Recs[rec]
Holds(c) == CASE c = "panic" -> R.panic = ""
              [] c = "interior" -> R.outside = 0
              [] c = "bracket" -> R.unbrack = 0
              [] OTHER -> TRUE
Fails == {c \in {"panic", "interior", "bracket"} : ~Holds(c)}
Init == rec \in 1..Len(Recs) /\ done = FALSE
Next == /\ ~done /\ done' = TRUE /\ UNCHANGED rec /\ \A c \in Fails : PrintT(<<"REJECT", R.id, 0, c>>)
Spec == Init /\ [][Next]_<<rec, done>>
=============================================================================
