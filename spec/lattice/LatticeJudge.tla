---------------------------- MODULE LatticeJudge ----------------------------
(***************************************************************************)
(* Judge for whole-lattice executions of the real marching-cubes family    *)
(* (C01, C02, C12; modes R/V).  One record per (lattice, variant,          *)
(* configuration):                                                         *)
(*   [id, n: <<nx,ny,nz>>, inside: <<0/1 ...>>, variant, cfg, panic,       *)
(*    unsnap, tris: <<<<c1,c2,c3>> ...>>, den, tnum, pos: <<<<code,num>>>>,*)
(*    interior: <<<<code,num>>>>]                                          *)
(* tris are the triangles of the real output, every vertex snapped to the  *)
(* code of the lattice edge it lies on (canonical rotation).  For search   *)
(* variants pos gives each vertex position along its edge as num/den, and  *)
(* the solid's true transition on every active edge is at tnum/den.        *)
(*                                                                         *)
(* Clauses (all evaluated, every failing clause is printed):               *)
(*  panic, snap, nodup  - the mesher ran and produced lattice-edge vertices *)
(*  table     - face set = UNION of the table rows of all cells (C12: any   *)
(*              configuration gives this same set; C02: bounds the solid)   *)
(*  closed, fan, orient - C01 on the real output                            *)
(*  verts     - exactly one vertex on every active edge, none elsewhere     *)
(*  search    - refined vertices within 1/den of the true transition        *)
(*  interior  - reported interior point is on the contained side, within    *)
(*              2/den of the transition                                     *)
(*                                                                         *)
(* Coarse-to-fine runs on solids with features the pre-pass may miss carry  *)
(* margin16 > 0 and coarse (the pre-pass mesh vertices in units of 1/16).   *)
(* The documented filter is "coarse mesh dilated by 2*sqrt(3)*bigDelta +    *)
(* extraSpace": a fine cell is certainly kept when some pre-pass vertex is  *)
(* within that (Chebyshev) distance of the cell, because every block's box  *)
(* contains its cells.  The clauses are decided only when that holds for    *)
(* every cell the surface passes through (Covered); otherwise the caller    *)
(* asked for too little extraSpace and the record is undecided (NOTE).      *)
(***************************************************************************)
EXTENDS Lattice3, Json

Recs == ndJsonDeserialize("records.ndjson")
VARIABLES rec, done
R == Recs[rec]

NXr == R.n[1]
NYr == R.n[2]
NZr == R.n[3]
\* interior lattice points are 1..n; the border layer (0 and n+1) is always excluded
In(p) == /\ p[1] >= 1 /\ p[1] <= NXr /\ p[2] >= 1 /\ p[2] <= NYr /\ p[3] >= 1 /\ p[3] <= NZr
         /\ R.inside[1 + (p[1] - 1) + NXr * ((p[2] - 1) + NYr * (p[3] - 1))] = 1
Cells == {<<x, y, z>> : x \in 0..NXr, y \in 0..NYr, z \in 0..NZr}
Expected == UNION {CellTris(In, c) : c \in Cells}

Obs == {<<R.tris[i][1], R.tris[i][2], R.tris[i][3]>> : i \in 1..Len(R.tris)}

AllEdges == {ECode(x, y, z, a) : x \in 0..(NXr + 1), y \in 0..(NYr + 1), z \in 0..(NZr + 1), a \in 0..2}
ActiveEdges == {c \in AllEdges :
                  /\ Hi(c)[1] <= NXr + 1 /\ Hi(c)[2] <= NYr + 1 /\ Hi(c)[3] <= NZr + 1
                  /\ Active(In, c)}

Abs(x) == IF x < 0 THEN -x ELSE x

\* The harness solid: lattice point i owns the coordinates [i - s, i + 1 - s) on every axis
\* (s = shift), clipped to its reported bounds [1, n].  So the true transition on an edge
\* is at lower end + tnum/den, except on the edges that leave the bounds.
Tn(code) == LET lo == Lo(code)[EA(code) + 1]
                n  == R.n[EA(code) + 1]
            IN IF lo = 0 THEN R.den ELSE IF lo = n THEN 0 ELSE R.tnum

MixedCells == {c \in Cells : \E k \in 1..7 :
                  In(<<c[1] + (k % 2), c[2] + ((k \div 2) % 2), c[3] + (k \div 4)>>) # In(c)}
Near(c, v) == \A a \in 1..3 : v[a] >= 16 * c[a] - R.margin16 /\ v[a] <= 16 * (c[a] + 1) + R.margin16
Covered == \A c \in MixedCells : \E i \in 1..Len(R.coarse) : Near(c, R.coarse[i])
Decided == R.margin16 = 0 \/ Covered

Holds(c) ==
    IF ~Decided /\ c # "panic" THEN TRUE ELSE
    CASE c = "panic"    -> R.panic = ""
      [] c = "snap"     -> R.unsnap = 0
      [] c = "nodup"    -> Cardinality(Obs) = Len(R.tris)
      [] c = "table"    -> Obs = Expected
      [] c = "closed"   -> ClosedOn(Obs, LAMBDA e : TRUE)
      [] c = "fan"      -> \A v \in VertsOfT(Obs) : FanConnectedAt(Obs, v)
      [] c = "orient"   -> \A t \in Obs : EA(t[1]) < 3 /\ EA(t[2]) < 3 /\ EA(t[3]) < 3 => Outward(In, t)
      [] c = "verts"    -> VertsOfT(Obs) = ActiveEdges
      [] c = "search"   -> \A i \in 1..Len(R.pos) : Abs(R.pos[i][2] - Tn(R.pos[i][1])) <= 1
      [] c = "interior" -> \A i \in 1..Len(R.interior) :
                              LET code == R.interior[i][1] num == R.interior[i][2] IN
                              /\ Abs(num - Tn(code)) <= 2
                              /\ IF In(Lo(code)) THEN (num < Tn(code) \/ (num = 0 /\ Tn(code) = 0))
                                 ELSE num >= Tn(code)
      [] OTHER -> TRUE

Clauses == {"panic", "snap", "nodup", "table", "closed", "fan", "orient", "verts", "search", "interior"}
Fails == {c \in Clauses : ~Holds(c)}

Init == rec \in 1..Len(Recs) /\ done = FALSE
Next == /\ ~done /\ done' = TRUE /\ UNCHANGED rec
        /\ \A c \in Fails : PrintT(<<"REJECT", R.id, 0, c>>)
        /\ Decided \/ PrintT(<<"NOTE", R.id, "undecided">>)
Spec == Init /\ [][Next]_<<rec, done>>
=============================================================================
