------------------------------- MODULE McLocal -------------------------------
(***************************************************************************)
(* Local (window) correctness of the marching-cubes lookup table the code  *)
(* actually uses (C01, C02) - mode E on implementation-derived data.       *)
(*                                                                         *)
(* Every mesh edge lies in one cell or in a face shared by two cells, and  *)
(* the fan of a vertex lies in the (up to) four cells around its lattice   *)
(* edge.  So "closed, manifold, oriented for EVERY solid and lattice size" *)
(* is implied by the same statements on all configurations of 1-cell,      *)
(* 2-cell (NX,NY,NZ a permutation of 2,1,1) and 4-cell (2,2,1) windows.    *)
(* Configurations are enumerated as a binary decision tree (one lattice    *)
(* point per step) so that TLC's workers share them.                       *)
(***************************************************************************)
EXTENDS Lattice3

CONSTANTS NX, NY, NZ      \* window size in cells
VARIABLES inside, k

N == (NX + 1) * (NY + 1) * (NZ + 1)
\* window points have coordinates 1..NX+1 etc. (so that neighbours at 0 are outside)
Pt(i) == <<1 + ((i - 1) % (NX + 1)), 1 + (((i - 1) \div (NX + 1)) % (NY + 1)),
           1 + ((i - 1) \div ((NX + 1) * (NY + 1)))>>
WCells == {<<x, y, z>> : x \in 1..NX, y \in 1..NY, z \in 1..NZ}
In(p) == p \in inside

Init == inside = {} /\ k = 0
Next == /\ k < N /\ k' = k + 1
        /\ (inside' = inside \/ inside' = inside \cup {Pt(k + 1)})
Spec == Init /\ [][Next]_<<inside, k>>

T == UNION {CellTris(In, c) : c \in WCells}

CellEdges(p) == {CellEdge(p, j, kk) : <<j, kk>> \in
    {<<0,1>>, <<2,3>>, <<4,5>>, <<6,7>>, <<0,2>>, <<1,3>>, <<4,6>>, <<5,7>>, <<0,4>>, <<1,5>>, <<2,6>>, <<3,7>>}}

\* C02: each cell uses exactly the vertices on its active edges (one per active edge,
\* none elsewhere)
VertsExactlyOnActiveEdges ==
    \A c \in WCells : VertsOfT(CellTris(In, c)) = {e \in CellEdges(c) : Active(In, e)}

\* no two cells emit the same oriented triangle, no degenerate triangle
NoDuplicate ==
    /\ \A c, d \in WCells : c # d => CellTris(In, c) \cap CellTris(In, d) = {}
    /\ \A c \in WCells : Cardinality(CellTris(In, c)) = Len(ImplTable[Bits(In, c) + 1])
    /\ \A t \in T : Cardinality({t[1], t[2], t[3]}) = 3

Judged(e) == (CellsOfEdge(e[1]) \cap CellsOfEdge(e[2])) \subseteq WCells
Closed == ClosedOn(T, Judged)

FanOK == \A v \in VertsOfT(T) : CellsOfEdge(v) \subseteq WCells => FanConnectedAt(T, v)

Oriented == \A t \in T : Outward(In, t)

Leaf == k = N
Inv == Leaf => /\ VertsExactlyOnActiveEdges
               /\ NoDuplicate
               /\ Closed
               /\ FanOK
               /\ Oriented
\* separate names so that a violation says which clause failed
InvVerts  == Leaf => VertsExactlyOnActiveEdges
InvNoDup  == Leaf => NoDuplicate
InvClosed == Leaf => Closed
InvFan    == Leaf => FanOK
InvOrient == Leaf => Oriented
=============================================================================
