----------------------------- MODULE Mesh2Judge -----------------------------
(***************************************************************************)
(* Judge for 2-D outlines produced by the real code (C01, C02, C12):       *)
(* marching squares family, Bitmap.Mesh, and any other generator of closed *)
(* 2-D meshes.  A record is                                                *)
(*   [id, kind, variant, cfg, panic, n: <<w, h>>, inside: <<0/1...>>, d,   *)
(*    verts: <<<<X, Y>>...>>, segs: <<<<i, j>>...>>, esegs: <<<<c1,c2>>>>, *)
(*    unsnap, den, tnum, pos]                                              *)
(* verts are the distinct vertices (exact coordinate equality, which is    *)
(* the library's notion of connectivity) in integer units of 1/d; segs are *)
(* directed segments between vertex indices.                               *)
(*                                                                         *)
(* Clauses                                                                 *)
(*  manifold - every vertex has exactly one incoming and one outgoing      *)
(*             segment, no degenerate or duplicate segment                 *)
(*  winding  - for every sample point (lattice points for marching         *)
(*             squares, pixel centres for bitmaps) the signed number of    *)
(*             crossings of the ray in direction (3,1) is 1 if the sample  *)
(*             is contained and 0 otherwise.  With the library's normal    *)
(*             (direction rotated by +90 degrees) pointing away from the   *)
(*             contained side this is exactly "outside on the left", and   *)
(*             it is also C02's sample-side agreement.  All arithmetic is  *)
(*             integer; the direction (3,1) cannot hit a vertex whose      *)
(*             offset along a lattice edge is dyadic.                      *)
(*  table    - (marching squares) segment set = UNION of the table rows    *)
(*  verts, search - as in LatticeJudge                                     *)
(***************************************************************************)
EXTENDS Integers, Sequences, FiniteSets, TLC, Json, MCTable

Recs == ndJsonDeserialize("records.ndjson")
VARIABLES rec, done
R == Recs[rec]

W == R.n[1]
Hh == R.n[2]
IsBitmap == R.kind = "bitmap"
\* marching squares: interior lattice points 1..w x 1..h; bitmap: pixels 0..w-1 x 0..h-1
In(p) == IF IsBitmap
         THEN /\ p[1] >= 0 /\ p[1] < W /\ p[2] >= 0 /\ p[2] < Hh
              /\ R.inside[1 + p[1] + W * p[2]] = 1
         ELSE /\ p[1] >= 1 /\ p[1] <= W /\ p[2] >= 1 /\ p[2] <= Hh
              /\ R.inside[1 + (p[1] - 1) + W * (p[2] - 1)] = 1

NSeg == Len(R.segs)
SegA(i) == R.verts[R.segs[i][1]]
SegB(i) == R.verts[R.segs[i][2]]

Manifold ==
    /\ \A i \in 1..NSeg : R.segs[i][1] # R.segs[i][2]
    /\ \A i, j \in 1..NSeg : i # j => R.segs[i] # R.segs[j]
    /\ \A v \in 1..Len(R.verts) :
          /\ Cardinality({i \in 1..NSeg : R.segs[i][1] = v}) = 1
          /\ Cardinality({i \in 1..NSeg : R.segs[i][2] = v}) = 1

\* signed crossing of segment A->B by the ray from P in direction (3,1):
\*   side(Q) = cross((3,1), Q - P);  the segment crosses the ray's line iff the sides of A
\*   and B differ in sign, and it does so in front of P iff cross(A-P, B-P) has the sign of
\*   side(B) - side(A).  Crossing with side going - to + (right to left of the ray) counts
\*   -1, + to - counts +1: a clockwise outline (outside on the left) around P gives +1.
Side(P, Q) == 3 * (Q[2] - P[2]) - (Q[1] - P[1])
CrossPAB(P, A, B) == (A[1] - P[1]) * (B[2] - P[2]) - (A[2] - P[2]) * (B[1] - P[1])
Degenerate(P) == \E v \in 1..Len(R.verts) : Side(P, R.verts[v]) = 0 /\
                    (R.verts[v][1] - P[1]) * 3 + (R.verts[v][2] - P[2]) >= 0
Crossing(P, i) ==
    LET sa == Side(P, SegA(i)) sb == Side(P, SegB(i)) c == CrossPAB(P, SegA(i), SegB(i)) IN
    IF sa < 0 /\ sb > 0 /\ c > 0 THEN -1
    ELSE IF sa > 0 /\ sb < 0 /\ c < 0 THEN 1
    ELSE 0
RECURSIVE SumCross(_, _)
SumCross(P, i) == IF i = 0 THEN 0 ELSE Crossing(P, i) + SumCross(P, i - 1)
Winding(P) == SumCross(P, NSeg)

\* sample points in units of 1/d, with the lattice point / pixel they stand for
Samples == IF IsBitmap
           THEN \* d = 8: the point (x + 1/2, y + 3/8) of pixel (x, y); never collinear with a vertex along (3,1)
                {<<<<x, y>>, <<8 * x + 4, 8 * y + 3>>>> : x \in 0..(W - 1), y \in 0..(Hh - 1)}
           ELSE {<<<<x, y>>, <<x * R.d, y * R.d>>>> : x \in 0..(W + 1), y \in 0..(Hh + 1)}

WindingOK == \A s \in Samples :
                /\ ~Degenerate(s[2])
                /\ Winding(s[2]) = IF In(s[1]) THEN 1 ELSE 0

\* ---- marching squares table ----
ECode2(x, y, a) == (x * 16 + y) * 2 + a
Corner2(p, k) == <<p[1] + (k % 2), p[2] + (k \div 2)>>
CellEdge2(p, j, k) ==
    LET a == Corner2(p, j) b == Corner2(p, k)
    IN ECode2(IF a[1] < b[1] THEN a[1] ELSE b[1], IF a[2] < b[2] THEN a[2] ELSE b[2],
              IF a[1] # b[1] THEN 0 ELSE 1)
Bits2(p) == (IF In(Corner2(p, 0)) THEN 1 ELSE 0) + (IF In(Corner2(p, 1)) THEN 2 ELSE 0)
            + (IF In(Corner2(p, 2)) THEN 4 ELSE 0) + (IF In(Corner2(p, 3)) THEN 8 ELSE 0)
CellSegs(p) == LET row == ImplTable2[Bits2(p) + 1]
               IN {<<CellEdge2(p, row[i][1], row[i][2]), CellEdge2(p, row[i][3], row[i][4])>> : i \in 1..Len(row)}
Expected2 == UNION {CellSegs(<<x, y>>) : x \in 0..W, y \in 0..Hh}
ObsE == {<<R.esegs[i][1], R.esegs[i][2]>> : i \in 1..Len(R.esegs)}
Lo2(c) == <<(c \div 2) \div 16, (c \div 2) % 16>>
Hi2(c) == IF c % 2 = 0 THEN <<Lo2(c)[1] + 1, Lo2(c)[2]>> ELSE <<Lo2(c)[1], Lo2(c)[2] + 1>>
ActiveEdges2 == {c \in {ECode2(x, y, a) : x \in 0..(W + 1), y \in 0..(Hh + 1), a \in 0..1} :
                    /\ Hi2(c)[1] <= W + 1 /\ Hi2(c)[2] <= Hh + 1 /\ In(Lo2(c)) # In(Hi2(c))}
Abs(x) == IF x < 0 THEN -x ELSE x
Tn2(code) == LET lo == Lo2(code)[(code % 2) + 1] n == R.n[(code % 2) + 1]
             IN IF lo = 0 THEN R.den ELSE IF lo = n THEN 0 ELSE R.tnum

\* coarse-to-fine runs with a margin guard: see LatticeJudge
MixedCells2 == {p \in {<<x, y>> : x \in 0..W, y \in 0..Hh} : Bits2(p) \notin {0, 15}}
Near2(p, v) == \A a \in 1..2 : v[a] >= 16 * p[a] - R.margin16 /\ v[a] <= 16 * (p[a] + 1) + R.margin16
Covered == \A p \in MixedCells2 : \E i \in 1..Len(R.coarse) : Near2(p, R.coarse[i])
Decided == R.margin16 = 0 \/ Covered

Holds(c) ==
    IF ~Decided /\ c # "panic" THEN TRUE ELSE
    CASE c = "panic"    -> R.panic = ""
      [] c = "snap"     -> R.unsnap = 0
      [] c = "manifold" -> Manifold
      [] c = "winding"  -> WindingOK
      [] c = "table"    -> IsBitmap \/ (ObsE = Expected2 /\ Len(R.esegs) = Cardinality(ObsE))
      [] c = "verts"    -> IsBitmap \/ UNION {{s[1], s[2]} : s \in ObsE} = ActiveEdges2
      [] c = "search"   -> \A i \in 1..Len(R.pos) : Abs(R.pos[i][2] - Tn2(R.pos[i][1])) <= 1
      [] OTHER -> TRUE
Clauses == {"panic", "snap", "manifold", "winding", "table", "verts", "search"}
Fails == {c \in Clauses : ~Holds(c)}

Init == rec \in 1..Len(Recs) /\ done = FALSE
Next == /\ ~done /\ done' = TRUE /\ UNCHANGED rec
        /\ \A c \in Fails : PrintT(<<"REJECT", R.id, 0, c>>)
        /\ Decided \/ PrintT(<<"NOTE", R.id, "undecided">>)
Spec == Init /\ [][Next]_<<rec, done>>
=============================================================================
