------------------------- MODULE DecimalSearchJudge -------------------------
(* Mode V for C02 (search on decimal lattices): records [id, site, case, nvert, dev, tol, panic] from      *)
(* MarchingCubesSearch / MarchingSquaresSearch on boxes whose faces sit at multiples of a decimal spacing *)
(* (harness c02_decimal.go).  dev is the largest distance of a mesh vertex from the surface of the box,    *)
(* tol the bisection bracket delta / 2^iters plus a rounding allowance of 1e-9 (both in 1e-9 units).      *)
(*   bracket - every vertex is within the bracket of the true transition: dev <= tol                        *)
(*   nonempty - the box was seen: the mesh has vertices                                                     *)
EXTENDS Integers, Sequences, TLC, Json
Recs == ndJsonDeserialize("records.ndjson")
VARIABLES rec, done
R == Recs[rec]
Holds(c) == CASE c = "panic" -> R.panic = ""
              [] c = "nonempty" -> R.panic = "" => R.nvert > 0
              [] c = "bracket" -> R.panic = "" => R.dev <= R.tol
              [] OTHER -> TRUE
Fails == {c \in {"panic", "nonempty", "bracket"} : ~Holds(c)}
Init == rec \in 1..Len(Recs) /\ done = FALSE
Next == /\ ~done /\ done' = TRUE /\ UNCHANGED rec /\ \A c \in Fails : PrintT(<<"REJECT", R.id, 0, c>>)
Spec == Init /\ [][Next]_<<rec, done>>
=============================================================================
