---------------------------- MODULE V2FLazyInit ----------------------------
(***************************************************************************)
(* The lazily built vertex index of Mesh (model3d, model2d): double-checked *)
(* locking in Mesh.getVertexToFace  (C13, also C09).                       *)
(*                                                                         *)
(* Each reader g runs: load1 -> (hit: return) | lock -> load2 -> (hit:     *)
(* unlock, return) | build.begin -> ... fill ... -> build.end -> store ->  *)
(* unlock, return.  `pub` is the atomically published pointer (FALSE = nil, *)
(* TRUE = an index), `complete` says whether the published index has been  *)
(* completely filled.  One action per hook of the real code, so the same   *)
(* actions validate hook traces (V2FTrace).                                *)
(*                                                                         *)
(* Invariants (mode E, every interleaving of N readers):                   *)
(*   OneBuild          at most one reader ever builds an index             *)
(*   Mutex             at most one reader between lock and unlock          *)
(*   PublishedComplete a published index is completely filled, i.e. no     *)
(*                     reader can observe a partially built one            *)
(*   Agree             every reader that has returned got the one index    *)
(* Liveness: every reader eventually returns (weak fairness).              *)
(***************************************************************************)
EXTENDS Integers, FiniteSets, TLC

CONSTANT Readers
VARIABLES pc, pub, complete, lock, builds, got

vars == <<pc, pub, complete, lock, builds, got>>

Init == /\ pc = [g \in Readers |-> "start"]
        /\ pub = FALSE /\ complete = FALSE /\ lock = {} /\ builds = 0
        /\ got = [g \in Readers |-> "none"]

\* first atomic load; `saw` is what the load returned
\* (a reader that has returned may call again: every query starts with this load)
Load1(g, saw) == /\ pc[g] \in {"start", "done"} /\ saw = pub
                 /\ pc' = [pc EXCEPT ![g] = IF saw THEN "done" ELSE "wantlock"]
                 /\ got' = [got EXCEPT ![g] = IF saw THEN (IF complete THEN "full" ELSE "partial") ELSE @]
                 /\ UNCHANGED <<pub, complete, lock, builds>>
Lock(g) == /\ pc[g] = "wantlock" /\ lock = {}
           /\ lock' = {g} /\ pc' = [pc EXCEPT ![g] = "locked"]
           /\ UNCHANGED <<pub, complete, builds, got>>
Load2(g, saw) == /\ pc[g] = "locked" /\ saw = pub
                 /\ pc' = [pc EXCEPT ![g] = IF saw THEN "done" ELSE "build"]
                 /\ lock' = IF saw THEN {} ELSE lock
                 /\ got' = [got EXCEPT ![g] = IF saw THEN (IF complete THEN "full" ELSE "partial") ELSE @]
                 /\ UNCHANGED <<pub, complete, builds>>
BuildBegin(g) == /\ pc[g] = "build"
                 /\ pc' = [pc EXCEPT ![g] = "filling"] /\ builds' = builds + 1
                 /\ UNCHANGED <<pub, complete, lock, got>>
BuildEnd(g) == /\ pc[g] = "filling"
               /\ pc' = [pc EXCEPT ![g] = "filled"]
               /\ UNCHANGED <<pub, complete, lock, builds, got>>
\* publication of the completely filled index, then unlock and return
Store(g) == /\ pc[g] = "filled"
            /\ pub' = TRUE /\ complete' = TRUE
            /\ lock' = {} /\ pc' = [pc EXCEPT ![g] = "done"]
            /\ got' = [got EXCEPT ![g] = "full"]
            /\ UNCHANGED builds

Next == \E g \in Readers : \/ \E s \in BOOLEAN : Load1(g, s) \/ Load2(g, s)
                           \/ Lock(g) \/ BuildBegin(g) \/ BuildEnd(g) \/ Store(g)
Spec == Init /\ [][Next]_vars /\ WF_vars(Next)

OneBuild == builds <= 1
Mutex == Cardinality(lock) <= 1 /\ \A g \in Readers : pc[g] \in {"locked", "build", "filling", "filled"} => lock = {g}
PublishedComplete == pub => complete
Agree == \A g \in Readers : pc[g] = "done" => got[g] = "full"
AllReturn == <>(\A g \in Readers : pc[g] = "done")
=============================================================================
