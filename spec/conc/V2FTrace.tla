------------------------------ MODULE V2FTrace ------------------------------
(***************************************************************************)
(* Validation of hook traces of Mesh.getVertexToFace against V2FLazyInit.   *)
(* records.ndjson: one record per mesh instance: [id, site, readers: n,     *)
(*   ev: <<[g, ev, flag]>>] in the global order in which the hooks fired    *)
(* (the hook takes a global sequence number under a mutex).  flag is the    *)
(* publication state observed by the hook.  Events inside the critical      *)
(* section are ordered exactly; the first, lock-free load may be logged     *)
(* late, so for it only "saw an index => one was published" is required;    *)
(* symmetrically a reader's successful load may be logged before the        *)
(* builder's store event (EarlyLoad1).                                      *)
(***************************************************************************)
EXTENDS V2FLazyInit, Sequences, Json

Recs == ndJsonDeserialize("records.ndjson")
VARIABLES rec, l, status
tvars == <<pc, pub, complete, lock, builds, got, rec, l, status>>
R == Recs[rec]
E == R.ev[l]

TInit == Init /\ rec \in 1..Len(Recs) /\ l = 1 /\ status = "run"

\* the lock-free load may be reported after a concurrent store: saw = FALSE is then stale
StaleLoad1(g) == /\ pc[g] \in {"start", "done"} /\ pub
                 /\ pc' = [pc EXCEPT ![g] = "wantlock"]
                 /\ UNCHANGED <<pub, complete, lock, builds, got>>

\* ... and it may be reported BEFORE the builder's own "v2f.store" event although it happened after
\* the atomic store: the hook fires after the store, and the two goroutines race for the hook's
\* sequence number.  Admissible only when a builder has finished filling (its build.end is logged).
EarlyLoad1(g) == /\ pc[g] \in {"start", "done"} /\ \E b \in Readers : pc[b] = "filled"
                 /\ pub' = TRUE /\ complete' = TRUE
                 /\ pc' = [pc EXCEPT ![g] = "done"] /\ got' = [got EXCEPT ![g] = "full"]
                 /\ UNCHANGED <<lock, builds>>

Step(e) ==
    \/ e.ev = "v2f.load1"       /\ (Load1(e.g, e.flag) \/ (~e.flag /\ StaleLoad1(e.g)) \/ (e.flag /\ ~pub /\ EarlyLoad1(e.g)))
    \/ e.ev = "v2f.locked"      /\ e.flag = pub /\ Lock(e.g)
    \/ e.ev = "v2f.load2"       /\ Load2(e.g, e.flag)
    \/ e.ev = "v2f.build.begin" /\ e.flag = FALSE /\ pub = FALSE /\ BuildBegin(e.g)
    \/ e.ev = "v2f.build.end"   /\ e.flag = FALSE /\ pub = FALSE /\ BuildEnd(e.g)
    \/ e.ev = "v2f.store"       /\ e.flag = TRUE /\ Store(e.g)

Walk == /\ status = "run" /\ l <= Len(R.ev)
        /\ IF ENABLED Step(E)
           THEN Step(E) /\ l' = l + 1 /\ UNCHANGED <<rec, status>>
           ELSE /\ PrintT(<<"REJECT", R.id, l, E.ev>>)
                /\ status' = "rej" /\ UNCHANGED <<pc, pub, complete, lock, builds, got, rec, l>>
Finish == /\ status = "run" /\ l > Len(R.ev)
          /\ status' = "done" /\ UNCHANGED <<pc, pub, complete, lock, builds, got, rec, l>>
Term == status # "run" /\ UNCHANGED tvars
TNext == Walk \/ Finish \/ Term
TSpec == TInit /\ [][TNext]_tvars

\* the protocol invariants hold along every validated trace; at the end exactly one build
TInv == OneBuild /\ Mutex /\ PublishedComplete
EndOK == status = "done" => (Len(R.ev) = 0 \/ builds = 1)
=============================================================================
