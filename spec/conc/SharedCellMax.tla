--------------------------- MODULE SharedCellMax ---------------------------
(***************************************************************************)
(* One cell of a HeightMap updated by the workers of AddSpheresSDF (C13):  *)
(* updateAt is read, compare, write.  With Locked = TRUE the whole update  *)
(* runs under a mutex (the design that holds); with Locked = FALSE the      *)
(* three steps interleave freely, and TLC finds both a conflicting access  *)
(* and a lost maximum.                                                     *)
(***************************************************************************)
EXTENDS Integers, FiniteSets, TLC
CONSTANTS Workers, Heights, Locked
VARIABLES cell, pc, tmp, offer, lock, offered
vars == <<cell, pc, tmp, offer, lock, offered>>
Max(S) == IF S = {} THEN 0 ELSE CHOOSE x \in S : \A y \in S : x >= y

Init == /\ cell = 0 /\ lock = {}
        /\ pc = [w \in Workers |-> "idle"] /\ tmp = [w \in Workers |-> 0]
        /\ offer \in [Workers -> Heights] /\ offered = {}
Acquire(w) == /\ pc[w] = "idle" /\ (Locked => lock = {})
              /\ lock' = IF Locked THEN {w} ELSE lock
              /\ pc' = [pc EXCEPT ![w] = "read"] /\ UNCHANGED <<cell, tmp, offer, offered>>
Read(w) == /\ pc[w] = "read" /\ tmp' = [tmp EXCEPT ![w] = cell]
           /\ pc' = [pc EXCEPT ![w] = "cmp"] /\ UNCHANGED <<cell, offer, lock, offered>>
Write(w) == /\ pc[w] = "cmp"
            /\ cell' = IF tmp[w] < offer[w] THEN offer[w] ELSE cell
            /\ offered' = offered \cup {offer[w]}
            /\ lock' = lock \ {w}
            /\ pc' = [pc EXCEPT ![w] = "done"] /\ UNCHANGED <<tmp, offer>>
Next == \E w \in Workers : Acquire(w) \/ Read(w) \/ Write(w)
Spec == Init /\ [][Next]_vars

\* no two workers inside the read-compare-write of the same cell at once
NoConflict == Cardinality({w \in Workers : pc[w] \in {"read", "cmp"}}) <= 1
FinalIsMax == (\A w \in Workers : pc[w] = "done") => cell = Max({offer[w] : w \in Workers})
=============================================================================
