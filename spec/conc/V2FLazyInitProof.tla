-------------------------- MODULE V2FLazyInitProof --------------------------
(***************************************************************************)
(* The safety invariants of V2FLazyInit for ANY set of readers, checked by  *)
(* the TLA+ proof system (TLC explores three readers exhaustively).         *)
(* IInv is inductive; it implies OneBuild, PublishedComplete, Agree and the *)
(* cardinality-free form of Mutex.                                          *)
(***************************************************************************)
EXTENDS V2FLazyInit, TLAPS

Crit == {"locked", "build", "filling", "filled"}
Building == {"filling", "filled"}
IInv == /\ pc \in [Readers -> {"start", "done", "wantlock", "locked", "build", "filling", "filled"}]
        /\ pub \in BOOLEAN /\ complete \in BOOLEAN /\ builds \in Nat
        /\ got \in [Readers -> {"none", "full", "partial"}]
        /\ lock \subseteq Readers
        /\ \A g, h \in Readers : g \in lock /\ h \in lock => g = h
        /\ \A g \in Readers : pc[g] \in Crit <=> g \in lock
        /\ pub => complete
        /\ \A g \in Readers : pc[g] \in {"build", "filling", "filled"} => ~pub
        /\ (pub \/ \E g \in Readers : pc[g] \in Building) => builds = 1
        /\ (~pub /\ \A g \in Readers : pc[g] \notin Building) => builds = 0
        /\ \A g \in Readers : pc[g] = "done" => got[g] = "full"

MutexNoCard == /\ \A g, h \in Readers : g \in lock /\ h \in lock => g = h
               /\ \A g \in Readers : pc[g] \in Crit => lock = {g}

LEMMA InitIInv == Init => IInv
  BY DEF Init, IInv, Crit, Building

LEMMA NextIInv == IInv /\ [Next]_vars => IInv'
<1> SUFFICES ASSUME IInv, [Next]_vars PROVE IInv'
  OBVIOUS
<1> USE DEF IInv, Crit, Building
<1>0 CASE UNCHANGED vars
  BY <1>0 DEF vars
<1>1 ASSUME NEW g \in Readers, NEW s \in BOOLEAN, Load1(g, s) PROVE IInv'
  BY <1>1 DEF Load1
<1>2 ASSUME NEW g \in Readers, NEW s \in BOOLEAN, Load2(g, s) PROVE IInv'
  BY <1>2 DEF Load2
<1>3 ASSUME NEW g \in Readers, Lock(g) PROVE IInv'
  BY <1>3 DEF Lock
<1>4 ASSUME NEW g \in Readers, BuildBegin(g) PROVE IInv'
  BY <1>4 DEF BuildBegin
<1>5 ASSUME NEW g \in Readers, BuildEnd(g) PROVE IInv'
  BY <1>5 DEF BuildEnd
<1>6 ASSUME NEW g \in Readers, Store(g) PROVE IInv'
  BY <1>6 DEF Store
<1> QED BY <1>0, <1>1, <1>2, <1>3, <1>4, <1>5, <1>6 DEF Next

THEOREM Safety == Spec => [](OneBuild /\ PublishedComplete /\ Agree /\ MutexNoCard)
<1>1 IInv => OneBuild /\ PublishedComplete /\ Agree /\ MutexNoCard
  BY DEF IInv, OneBuild, PublishedComplete, Agree, MutexNoCard, Crit, Building
<1>2 Spec => []IInv
  BY InitIInv, NextIInv, PTL DEF Spec
<1> QED BY <1>1, <1>2, PTL
=============================================================================
