-------------------------------- MODULE Charts --------------------------------
(***************************************************************************)
(* The chart-growing loop of model3d's surface parameterisation             *)
(* (nextMeshPlaneGraphs, used by MeshToPlaneGraphs / SplitPlaneGraph /      *)
(* BuildAutomaticUVMap) on an abstract complex.  C18: "every triangle is    *)
(* assigned to exactly one chart and every chart is a topological disc".    *)
(*                                                                         *)
(* State: the faces not yet assigned (rest), the finished charts, the chart *)
(* being grown and the queue of candidate neighbours.  The priority         *)
(* function of the code is abstracted: ANY queued triangle may be popped    *)
(* next, so every order the real priority could produce is a behaviour.     *)
(*   Seed(t)   a new chart starts with any remaining triangle               *)
(*   Pop(t)    a queued triangle is taken: it is added unless it would      *)
(*             divide the boundary (the code's guard: one of its vertices   *)
(*             is on the boundary although none of its edges at that vertex *)
(*             is a boundary edge); when added its remaining neighbours are *)
(*             queued.  A refused triangle leaves the queue and is queued   *)
(*             again only when another neighbour of it is added.            *)
(*   Close     the queue is empty: the chart is finished; a chart that      *)
(*             closed up into a sphere is cut in two at any prefix of the   *)
(*             growth order (the code cuts at half the area)                *)
(* Invariant: every prefix of the growth is a disc (or the whole sphere).   *)
(***************************************************************************)
EXTENDS Integers, FiniteSets, Sequences, TLC
CONSTANTS Seed

Tetra == {<<1, 3, 2>>, <<1, 2, 4>>, <<2, 3, 4>>, <<1, 4, 3>>}
Octa == {<<1, 3, 5>>, <<2, 5, 3>>, <<2, 4, 5>>, <<1, 5, 4>>, <<1, 6, 3>>, <<2, 3, 6>>, <<2, 6, 4>>, <<1, 4, 6>>}
\* a 3 x 3 torus: vertex (i, j) = 3 * i + j + 1, i, j in 0..2, two triangles per cell
TV(i, j) == 3 * (i % 3) + (j % 3) + 1
Torus == UNION { { <<TV(i, j), TV(i + 1, j), TV(i + 1, j + 1)>>, <<TV(i, j), TV(i + 1, j + 1), TV(i, j + 1)>> } : i \in 0..2, j \in 0..2 }
\* an open disc with a hole (annulus): 4 outer, 4 inner vertices
Annulus == { <<1, 2, 6>>, <<1, 6, 5>>, <<2, 3, 7>>, <<2, 7, 6>>, <<3, 4, 8>>, <<3, 8, 7>>, <<4, 1, 5>>, <<4, 5, 8>> }
All == CASE Seed = "tetra" -> Tetra [] Seed = "octa" -> Octa [] Seed = "torus" -> Torus [] Seed = "annulus" -> Annulus

VARIABLES rest, charts, cur, order, queue
vars == <<rest, charts, cur, order, queue>>

Edges(t) == {{t[1], t[2]}, {t[2], t[3]}, {t[3], t[1]}}
VertsOf(G) == UNION {{t[1], t[2], t[3]} : t \in G}
EdgeUse(G, e) == Cardinality({t \in G : e \in Edges(t)})
Boundary(G) == {e \in UNION {Edges(t) : t \in G} : EdgeUse(G, e) = 1}
BVerts(G) == UNION Boundary(G)
Nbrs(G, t) == {u \in G : u # t /\ Edges(u) \cap Edges(t) # {}}

\* ---- topological disc ----
RECURSIVE Grow(_, _)
Grow(G, S) == LET N == {u \in G \ S : \E t \in S : Edges(u) \cap Edges(t) # {}} IN IF N = {} THEN S ELSE Grow(G, S \cup N)
Connected(G) == G = {} \/ Grow(G, {CHOOSE t \in G : TRUE}) = G
Euler(G) == Cardinality(VertsOf(G)) - Cardinality(UNION {Edges(t) : t \in G}) + Cardinality(G)
\* the boundary is one simple cycle: every boundary vertex has exactly two boundary edges, and it is connected
RECURSIVE GrowB(_, _)
GrowB(B, S) == LET N == {e \in B \ S : \E f \in S : e \cap f # {}} IN IF N = {} THEN S ELSE GrowB(B, S \cup N)
SimpleCycle(B) == /\ B # {}
                  /\ \A v \in UNION B : Cardinality({e \in B : v \in e}) = 2
                  /\ GrowB(B, {CHOOSE e \in B : TRUE}) = B
IsDisc(G) == /\ G # {} /\ Connected(G)
             /\ \A e \in UNION {Edges(t) : t \in G} : EdgeUse(G, e) <= 2
             /\ Euler(G) = 1 /\ SimpleCycle(Boundary(G))
IsSphere(G) == G # {} /\ Connected(G) /\ Boundary(G) = {} /\ Euler(G) = 2

\* ---- the code's guard ----
WouldDivide(G, t) == \E i \in 1..3 : /\ t[i] \in BVerts(G)
                                     /\ \A e \in Edges(t) : t[i] \in e => e \notin Boundary(G)

Init == rest = All /\ charts = {} /\ cur = {} /\ order = << >> /\ queue = {}
SeedStep(t) == /\ cur = {} /\ t \in rest
               /\ cur' = {t} /\ order' = <<t>> /\ rest' = rest \ {t}
               /\ queue' = Nbrs(rest, t) /\ UNCHANGED charts
Pop(t) == /\ cur # {} /\ t \in queue
          /\ IF WouldDivide(cur, t)
             THEN queue' = queue \ {t} /\ UNCHANGED <<rest, cur, order, charts>>
             ELSE /\ cur' = cur \cup {t} /\ order' = Append(order, t) /\ rest' = rest \ {t}
                  /\ queue' = (queue \ {t}) \cup Nbrs(rest \ {t}, t)
                  /\ UNCHANGED charts
Prefix(k) == {order[i] : i \in 1..k}
Close == /\ cur # {} /\ queue = {}
         /\ IF Boundary(cur) = {}
            THEN \E k \in 1..(Len(order) - 1) : charts' = charts \cup {Prefix(k), cur \ Prefix(k)}
            ELSE charts' = charts \cup {cur}
         /\ cur' = {} /\ order' = << >> /\ UNCHANGED <<rest, queue>>
Next == (\E t \in rest : SeedStep(t)) \/ (\E t \in queue : Pop(t)) \/ Close
Spec == Init /\ [][Next]_vars

GrowingIsDisc == cur = {} \/ IsDisc(cur) \/ (IsSphere(cur) /\ queue = {})
ChartsAreDiscs == \A c \in charts : IsDisc(c)
Partition == /\ \A c, d \in charts : c # d => c \cap d = {}
             /\ (UNION charts) \cup cur \cup rest = All
             /\ \A c \in charts : c \cap rest = {} /\ c \cap cur = {}
Done == rest = {} /\ cur = {}
\* when everything is assigned, the charts cover the surface
Complete == Done => UNION charts = All
=============================================================================
