------------------------------ MODULE IslandGen ------------------------------
(* Mode R for C18 (UV lookup): layouts of unit-square "islands" (two lattice triangles each, either  *)
(* diagonal) on a GxG lattice with gutters, every choice of K cells that do not share an edge.        *)
EXTENDS Integers, FiniteSets, Sequences, TLC, Json
CONSTANTS G, K
Cells == (0..(G - 1)) \X (0..(G - 1))
Apart(a, b) == (a[1] - b[1]) * (a[1] - b[1]) + (a[2] - b[2]) * (a[2] - b[2]) > 1
Layouts == { S \in SUBSET Cells : Cardinality(S) = K /\ \A a, b \in S : a # b => Apart(a, b) }
Cases == { [cells |-> S, diag |-> d] : S \in Layouts, d \in 0..1 }
VARIABLES c, done
Init == c \in Cases /\ done = FALSE
Next == ~done /\ done' = TRUE /\ UNCHANGED c /\ PrintT(<<"CASE", ToJson(c)>>)
Spec == Init /\ [][Next]_<<c, done>>
=============================================================================
