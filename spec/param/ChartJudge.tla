------------------------------ MODULE ChartJudge ------------------------------
(***************************************************************************)
(* Mode V for C18: results of the real chart decomposition, disc            *)
(* parameterisation, atlas packing and UV lookup.                           *)
(* kind "charts": [site, nfaces, charts: <<<<<<a,b,c>>>>>> (each chart a    *)
(*   sequence of faces as vertex names), ids: <<<<face ids>>>>, panic]      *)
(*   partition - every input face is in exactly one chart                   *)
(*   disc      - every chart is a topological disc (connected through       *)
(*               edges, every edge in <= 2 faces, Euler characteristic 1,   *)
(*               boundary one simple cycle)                                 *)
(*   limit     - MeshToPlaneGraphsLimited: no chart exceeds maxSize faces   *)
(* kind "floater": [site, mean, noflip, boundary, panic] booleans decided   *)
(*   by the harness with the solver's tolerance: every interior vertex at   *)
(*   the weighted mean of its neighbours; all UV triangles keep one         *)
(*   orientation; boundary vertices where they were put                     *)
(*   (StretchMinimizingParameterization: boundary and noflip only - its     *)
(*   weights are re-estimated; ExtendBoundaryUVs: extend - only tips of     *)
(*   boundary triangles move, by at most maxDist, never towards degeneracy) *)
(* kind "atlas": [inunit, rects: <<[lo, hi]>> (integer boxes of the charts, *)
(*   rounded outwards, in 1e-6 units), bary, panic]                         *)
(*   unit - all UVs in the unit square; disjoint - chart boxes pairwise     *)
(*   disjoint; bary - MapFn at barycentric points of every UV triangle      *)
(*   returns the same barycentric point of the 3-D triangle                 *)
(* kind "mapfn": lattice UV islands: [tris: <<<<p1, p2, p3>>>> (integer 2-D *)
(*   points), qs: <<[c (doubled coordinates), d8, dx, inside, bary]>>]      *)
(*   nearest - the 2-D point that MapFn used for query c is a nearest point *)
(*   of the triangulation: its squared distance (d8 = 8 * d^2) equals the   *)
(*   exact minimum over all triangles; inside points map to themselves      *)
(*   bounds2d - Bounds2D (b2) is the bounding box of the lattice triangles;  *)
(*   area3d - 4 * Area3D^2 (a4) = 6 * n^2 for n half-cell triangles lifted   *)
(*   by (x, y, x + 2y); tobounds - ToBounds(nb) maps every UV point p (tb,   *)
(*   in 1/8 units, same order as tris) affinely: (p' - nmin) * (max - min) = *)
(*   (p - min) * (nmax - nmin) per axis                                      *)
(***************************************************************************)
EXTENDS Integers, Sequences, FiniteSets, TLC, Json

Recs == ndJsonDeserialize("records.ndjson")
VARIABLES rec, done
R == Recs[rec]

\* ---- disc test on a chart given as a sequence of faces ----
EdgesOf(t) == {{t[1], t[2]}, {t[2], t[3]}, {t[3], t[1]}}
AllEdges(C) == UNION {EdgesOf(C[i]) : i \in 1..Len(C)}
Use(C, e) == Cardinality({i \in 1..Len(C) : e \in EdgesOf(C[i])})
Bnd(C) == {e \in AllEdges(C) : Use(C, e) = 1}
VertsOf(C) == UNION {{C[i][1], C[i][2], C[i][3]} : i \in 1..Len(C)}
RECURSIVE GrowF(_, _)
GrowF(C, S) == LET N == {i \in (1..Len(C)) \ S : \E j \in S : EdgesOf(C[i]) \cap EdgesOf(C[j]) # {}} IN
               IF N = {} THEN S ELSE GrowF(C, S \cup N)
RECURSIVE GrowB(_, _)
GrowB(B, S) == LET N == {e \in B \ S : \E f \in S : e \cap f # {}} IN IF N = {} THEN S ELSE GrowB(B, S \cup N)
IsDisc(C) == /\ Len(C) > 0
             /\ \A i \in 1..Len(C) : Cardinality({C[i][1], C[i][2], C[i][3]}) = 3
             /\ GrowF(C, {1}) = 1..Len(C)
             /\ \A e \in AllEdges(C) : Use(C, e) <= 2
             /\ Cardinality(VertsOf(C)) - Cardinality(AllEdges(C)) + Len(C) = 1
             /\ LET B == Bnd(C) IN /\ B # {}
                                   /\ \A v \in UNION B : Cardinality({e \in B : v \in e}) = 2
                                   /\ GrowB(B, {CHOOSE e \in B : TRUE}) = B

\* ---- exact squared distance (times 8) from a doubled point c to a lattice triangle ----
Dbl(p) == <<2 * p[1], 2 * p[2]>>
Cross(o, a, b) == (a[1] - o[1]) * (b[2] - o[2]) - (a[2] - o[2]) * (b[1] - o[1])
Dot(o, a, b) == (a[1] - o[1]) * (b[1] - o[1]) + (a[2] - o[2]) * (b[2] - o[2])
D2(a, b) == (a[1] - b[1]) * (a[1] - b[1]) + (a[2] - b[2]) * (a[2] - b[2])
\* squared distance from c to segment ab as a rational <<num, den>> (all points doubled)
SegD2(c, a, b) == IF Dot(a, b, c) <= 0 THEN <<D2(c, a), 1>>
                  ELSE IF Dot(b, a, c) <= 0 THEN <<D2(c, b), 1>>
                  ELSE <<Cross(a, b, c) * Cross(a, b, c), D2(a, b)>>
InTri(c, t) == LET s == Cross(t[1], t[2], t[3]) IN
               \A i \in 1..3 : LET a == t[i] b == t[(i % 3) + 1] IN Cross(a, b, c) * s >= 0
LeQ(x, y) == x[1] * y[2] <= y[1] * x[2]
TriD2(c, t) == IF InTri(c, t) THEN <<0, 1>>
               ELSE LET ds == {SegD2(c, t[i], t[(i % 3) + 1]) : i \in 1..3} IN CHOOSE d \in ds : \A e \in ds : LeQ(d, e)
MinD2(c) == LET T2 == [i \in 1..Len(R.tris) |-> <<Dbl(R.tris[i][1]), Dbl(R.tris[i][2]), Dbl(R.tris[i][3])>>]
                ds == {TriD2(c, T2[i]) : i \in 1..Len(R.tris)} IN
            CHOOSE d \in ds : \A e \in ds : LeQ(d, e)
\* d8 = 8 * (true distance)^2; doubled coordinates: true d^2 = D2 / 4, so 8 d^2 = 2 * D2
QueryOK(q) == LET m == MinD2(q.c) IN
              /\ q.dx /\ q.d8 * m[2] = 2 * m[1]
              /\ (m[1] = 0 => q.inside) /\ q.bary

RECURSIVE Flat(_, _)
Flat(ss, k) == IF k = 0 THEN << >> ELSE Flat(ss, k - 1) \o ss[k]
Count(s, x) == Cardinality({i \in 1..Len(s) : s[i] = x})
Disjoint(a, b) == a.hi[1] < b.lo[1] \/ b.hi[1] < a.lo[1] \/ a.hi[2] < b.lo[2] \/ b.hi[2] < a.lo[2]

\* bounding box of the lattice triangles of a "mapfn" record
TPts == UNION {{R.tris[i][1], R.tris[i][2], R.tris[i][3]} : i \in 1..Len(R.tris)}
TMin(a) == CHOOSE x \in {p[a] : p \in TPts} : \A p \in TPts : x <= p[a]
TMax(a) == CHOOSE x \in {p[a] : p \in TPts} : \A p \in TPts : x >= p[a]

Holds(c) ==
    CASE c = "panic" -> R.panic = ""
      [] R.panic # "" -> TRUE
      [] R.kind = "charts" /\ c = "partition" ->
            LET all == Flat(R.ids, Len(R.ids)) IN Len(all) = R.nfaces /\ \A f \in 1..R.nfaces : Count(all, f) = 1
      [] R.kind = "charts" /\ c = "disc" -> \A k \in 1..Len(R.charts) : IsDisc(R.charts[k])
      [] R.kind = "charts" /\ c = "limit" -> R.maxsize = 0 \/ \A k \in 1..Len(R.charts) : Len(R.charts[k]) <= R.maxsize
      [] R.kind = "floater" /\ c = "mean" -> R.mean
      [] R.kind = "floater" /\ c = "noflip" -> R.noflip
      [] R.kind = "floater" /\ c = "boundary" -> R.boundary
      [] R.kind = "atlas" /\ c = "unit" -> R.inunit
      [] R.kind = "atlas" /\ c = "disjoint" -> \A i, j \in 1..Len(R.rects) : i < j => Disjoint(R.rects[i], R.rects[j])
      [] R.kind = "atlas" /\ c = "bary" -> R.bary
      [] R.kind = "mapfn" /\ c = "nearest" -> \A i \in 1..Len(R.qs) : QueryOK(R.qs[i])
      [] R.kind = "floater" /\ c = "extend" -> R.extend
      [] R.kind = "mapfn" /\ c = "bounds2d" -> R.bx /\ R.b2 = <<<<TMin(1), TMin(2)>>, <<TMax(1), TMax(2)>>>>
      [] R.kind = "mapfn" /\ c = "area3d" -> R.bx /\ R.a4 = 6 * Len(R.tris) * Len(R.tris)
      [] R.kind = "mapfn" /\ c = "tobounds" ->
            /\ R.bx /\ Len(R.tb) = Len(R.tris)
            /\ \A i \in 1..Len(R.tris) : \A k \in 1..3 : \A a \in 1..2 :
                  (R.tb[i][k][a] - 8 * R.nb[1][a]) * (TMax(a) - TMin(a)) = 8 * (R.tris[i][k][a] - TMin(a)) * (R.nb[2][a] - R.nb[1][a])
      [] OTHER -> TRUE
Clauses == {"panic", "partition", "disc", "limit", "mean", "noflip", "boundary", "unit", "disjoint", "bary", "nearest",
            "extend", "bounds2d", "area3d", "tobounds"}
Fails == {c \in Clauses : ~Holds(c)}
Init == rec \in 1..Len(Recs) /\ done = FALSE
Next == /\ ~done /\ done' = TRUE /\ UNCHANGED rec
        /\ \A c \in Fails : PrintT(<<"REJECT", R.id, 0, c>>)
Spec == Init /\ [][Next]_<<rec, done>>
=============================================================================
