----------------------------- MODULE RasterJudge -----------------------------
(* Mode V for C12 (raster): records [id, site, w, h, aniso, names, diffs: <<number of differing      *)
(* pixels between RasterizeSolid and RasterizeSolidFilter under each conservative filter>>, panic].   *)
(* Clause "filter": every filtered image equals the unfiltered one (RasterTiles!Independent on the    *)
(* real rasteriser).                                                                                  *)
EXTENDS Integers, Sequences, TLC, Json
Recs == ndJsonDeserialize("records.ndjson")
VARIABLES rec, done
R == Recs[rec]
Holds(c) == CASE c = "panic" -> R.panic = ""
              [] c = "filter" -> \A i \in 1..Len(R.diffs) : R.diffs[i] = 0
              [] OTHER -> TRUE
Fails == {c \in {"panic", "filter"} : ~Holds(c)}
Init == rec \in 1..Len(Recs) /\ done = FALSE
Next == /\ ~done /\ done' = TRUE /\ UNCHANGED rec /\ \A c \in Fails : PrintT(<<"REJECT", R.id, 0, c>>)
Spec == Init /\ [][Next]_<<rec, done>>
=============================================================================
