------------------------------- MODULE DcWindow -------------------------------
(***************************************************************************)
(* dcCubeLayout (model3d/dc.go): dual contouring keeps only BufRows planes  *)
(* of lattice corners (and the cube rows between them) in memory and slides *)
(* this window down the z axis.  C12: "results do not depend on ...         *)
(* buffering".  Abstracted to the z axis (x and y are fully buffered):      *)
(*   planes 0..NZ-1 of corners; cube row z lies between planes z and z+1;   *)
(*   edge rows: XY(z) = the x- and y-edges in plane z, Z(z) = the z-edges   *)
(*   of cube row z.  A quad is emitted per active edge from the four cubes  *)
(*   around it: XY(z) needs cube rows z-1 and z (those that exist), Z(z)    *)
(*   needs cube row z.                                                      *)
(* Code: one pass populates the buffer and triangulates every usable edge   *)
(* that is not yet marked Triangulated (UsableEdges leaves out the XY edges *)
(* of the last buffered plane unless the window is at the bottom), then     *)
(* Shift moves the window by at most min(Remaining, BufRows - 2) planes     *)
(* (the code: exactly that many) and keeps the flags of the planes that     *)
(* stay.                                                                    *)
(* Invariants for every NZ <= MaxZ and BufRows in 3..NZ: every edge row is  *)
(* triangulated exactly once, and only while the cube rows it needs are in  *)
(* the window.                                                              *)
(***************************************************************************)
EXTENDS Integers, Sequences, FiniteSets, TLC
CONSTANTS MaxZ
VARIABLES NZ, BufRows, ZOffset, flagXY, flagZ, cntXY, cntZ, bad, pc
vars == <<NZ, BufRows, ZOffset, flagXY, flagZ, cntXY, cntZ, bad, pc>>
Min(a, b) == IF a < b THEN a ELSE b
Remaining == NZ - (BufRows + ZOffset)
AtBottom == ZOffset + BufRows = NZ
CubeRows == 0..(NZ - 2)
InWindow(cz) == ZOffset <= cz /\ cz <= ZOffset + BufRows - 2       \* cube row cz is buffered
NeedsXY(z) == {cz \in {z - 1, z} : cz \in CubeRows}
Init == /\ NZ \in 3..MaxZ /\ BufRows \in 3..MaxZ /\ BufRows <= NZ /\ ZOffset = 0
        /\ flagXY = [r \in 0..(MaxZ - 1) |-> FALSE] /\ flagZ = [r \in 0..(MaxZ - 1) |-> FALSE]
        /\ cntXY = [z \in 0..(MaxZ - 1) |-> 0] /\ cntZ = [z \in 0..(MaxZ - 1) |-> 0]
        /\ bad = FALSE /\ pc = "pass"
\* buffer row r holds plane ZOffset + r
UsableXY(r) == r < BufRows - 1 \/ AtBottom
Pass == /\ pc = "pass"
        /\ LET doXY == {r \in 0..(BufRows - 1) : UsableXY(r) /\ ~flagXY[r]}
               doZ == {r \in 0..(BufRows - 2) : ~flagZ[r]} IN
           /\ flagXY' = [r \in 0..(MaxZ - 1) |-> flagXY[r] \/ r \in doXY]
           /\ flagZ' = [r \in 0..(MaxZ - 1) |-> flagZ[r] \/ r \in doZ]
           /\ cntXY' = [z \in 0..(MaxZ - 1) |-> cntXY[z] + (IF z - ZOffset \in doXY THEN 1 ELSE 0)]
           /\ cntZ' = [z \in 0..(MaxZ - 1) |-> cntZ[z] + (IF z - ZOffset \in doZ THEN 1 ELSE 0)]
           /\ bad' = (bad \/ \E r \in doXY : \E cz \in NeedsXY(ZOffset + r) : ~InWindow(cz))
        /\ pc' = IF Remaining = 0 THEN "end" ELSE "shift"
        /\ UNCHANGED <<NZ, BufRows, ZOffset>>
\* The code moves the window as far as it can, by Min(Remaining, BufRows - 2) planes; the requirements
\* hold for every smaller move too, so the specification allows them (a change of the step size is not
\* a violation of C12).
Shift == /\ pc = "shift"
         /\ \E rows \in 1..Min(Remaining, BufRows - 2) :
            /\ ZOffset' = ZOffset + rows
            /\ flagXY' = [r \in 0..(MaxZ - 1) |-> IF r + rows <= BufRows - 1 THEN flagXY[r + rows] ELSE FALSE]
            /\ flagZ' = [r \in 0..(MaxZ - 1) |-> IF r + rows <= BufRows - 2 THEN flagZ[r + rows] ELSE FALSE]
         /\ pc' = "pass" /\ UNCHANGED <<NZ, BufRows, cntXY, cntZ, bad>>
Next == Pass \/ Shift
Spec == Init /\ [][Next]_vars /\ WF_vars(Next)
NeverWithoutCubes == ~bad
AtMostOnce == \A z \in 0..(MaxZ - 1) : cntXY[z] <= 1 /\ cntZ[z] <= 1
AllOnceAtEnd == pc = "end" => /\ \A z \in 0..(NZ - 1) : cntXY[z] = 1
                              /\ \A z \in 0..(NZ - 2) : cntZ[z] = 1
Terminates == <>(pc = "end")
=============================================================================
