-------------------------------- MODULE McScan --------------------------------
(***************************************************************************)
(* squareSpacer.Scan (model3d/mc.go): the slab pipeline of marching cubes.  *)
(* C12 / C13: "results do not depend on parallelism", "internally parallel  *)
(* routines are race-free and give the sequential result".                  *)
(*                                                                         *)
(* NC = min(GOMAXPROCS, NZ - 1) + 1 slab caches; cache i is filled with     *)
(* slab i by its own goroutine (asyncSolidCache.FetchZ: fill, then send on  *)
(* Done, capacity 1).  The consumer waits for cache 0, then for nextZ =     *)
(* 1 .. NZ-1: waits for cache nextZ mod NC, calls f(nextZ, bottom = cache   *)
(* (nextZ-1) mod NC, top = cache nextZ mod NC), and - if slab               *)
(* nextZ + NC - 1 exists - re-uses the bottom cache for it (a new fill      *)
(* goroutine).  A fill is two steps (begin / end) so that "f reads a cache  *)
(* while it is being overwritten" is a reachable state if the protocol      *)
(* allowed it.                                                              *)
(*                                                                         *)
(* Invariants (all interleavings, NZ <= MaxZ, GOMAXPROCS <= MaxP):          *)
(*   RightSlabs  when f(z) runs, bottom holds slab z-1 and top slab z       *)
(*   NoRace      no fill is in progress on a cache that f is reading, and   *)
(*               no two fills of one cache overlap                          *)
(*   EachOnce    f is called exactly once for each z in 1..NZ-1, in order   *)
(* Liveness: the scan terminates (under weak fairness).                     *)
(***************************************************************************)
EXTENDS Integers, Sequences, FiniteSets, TLC
CONSTANTS MaxZ, MaxP

VARIABLES NZ, NC,
          slab,      \* slab[c] = the z whose values cache c holds (-1 = none)
          filling,   \* filling[c] = the z being written into cache c right now (-1 = idle)
          pending,   \* pending[c] = sequence of z values whose fill goroutine was started but has not begun
          done,      \* done[c] = number of tokens in cache c's Done channel (capacity 1)
          nextZ,     \* consumer loop variable; 0 = waiting for cache 0
          cpc,       \* consumer pc: "wait0" | "wait" | "f" | "refill" | "end"
          calls      \* sequence of z values for which f has been called
vars == <<NZ, NC, slab, filling, pending, done, nextZ, cpc, calls>>

Min(a, b) == IF a < b THEN a ELSE b
Caches == 0..(NC - 1)

Init == /\ NZ \in 2..MaxZ
        /\ \E p \in 1..MaxP : NC = Min(p, NZ - 1) + 1
        /\ slab = [c \in 0..MaxP |-> -1] /\ filling = [c \in 0..MaxP |-> -1]
        \* caches[i].FetchZ(i) for every cache, before the loop
        /\ pending = [c \in 0..MaxP |-> IF c < NC THEN <<c>> ELSE << >>]
        /\ done = [c \in 0..MaxP |-> 0]
        /\ nextZ = 0 /\ cpc = "wait0" /\ calls = << >>

\* a fill goroutine starts writing
FillBegin(c) == /\ c \in Caches /\ pending[c] # << >> /\ filling[c] = -1
                /\ filling' = [filling EXCEPT ![c] = Head(pending[c])]
                /\ pending' = [pending EXCEPT ![c] = Tail(@)]
                /\ slab' = [slab EXCEPT ![c] = -1]                 \* partially overwritten
                /\ UNCHANGED <<NZ, NC, done, nextZ, cpc, calls>>
\* ... finishes writing and signals Done (the channel has capacity 1: the send blocks if a token is there)
FillEnd(c) == /\ c \in Caches /\ filling[c] # -1 /\ done[c] = 0
              /\ slab' = [slab EXCEPT ![c] = filling[c]]
              /\ filling' = [filling EXCEPT ![c] = -1]
              /\ done' = [done EXCEPT ![c] = 1]
              /\ UNCHANGED <<NZ, NC, pending, nextZ, cpc, calls>>
\* two fills of the same cache must never overlap: FillBegin requires filling[c] = -1; a second
\* pending fill while one is running is the (bad) state NoRace excludes
Wait0 == /\ cpc = "wait0" /\ done[0] = 1
         /\ done' = [done EXCEPT ![0] = 0] /\ nextZ' = 1 /\ cpc' = IF NZ > 1 THEN "wait" ELSE "end"
         /\ UNCHANGED <<NZ, NC, slab, filling, pending, calls>>
Wait == /\ cpc = "wait" /\ done[nextZ % NC] = 1
        /\ done' = [done EXCEPT ![nextZ % NC] = 0] /\ cpc' = "f"
        /\ UNCHANGED <<NZ, NC, slab, filling, pending, nextZ, calls>>
CallF == /\ cpc = "f" /\ calls' = Append(calls, nextZ) /\ cpc' = "refill"
         /\ UNCHANGED <<NZ, NC, slab, filling, pending, done, nextZ>>
Refill == /\ cpc = "refill"
          /\ LET prev == (nextZ - 1) % NC
                 z == nextZ + NC - 1 IN
             pending' = IF z < NZ THEN [pending EXCEPT ![prev] = Append(@, z)] ELSE pending
          /\ nextZ' = nextZ + 1
          /\ cpc' = IF nextZ + 1 < NZ THEN "wait" ELSE "end"
          /\ UNCHANGED <<NZ, NC, slab, filling, done, calls>>
Next == (\E c \in 0..MaxP : FillBegin(c) \/ FillEnd(c)) \/ Wait0 \/ Wait \/ CallF \/ Refill
Spec == Init /\ [][Next]_vars /\ WF_vars(Next)

RightSlabs == cpc = "f" => slab[(nextZ - 1) % NC] = nextZ - 1 /\ slab[nextZ % NC] = nextZ
NoRace == /\ cpc = "f" => filling[(nextZ - 1) % NC] = -1 /\ filling[nextZ % NC] = -1
                          /\ pending[(nextZ - 1) % NC] = << >> /\ pending[nextZ % NC] = << >>
          /\ \A c \in Caches : Len(pending[c]) <= 1 /\ (filling[c] # -1 => pending[c] = << >>)
EachOnce == /\ \A i \in 1..Len(calls) : calls[i] = i
            /\ cpc = "end" => Len(calls) = NZ - 1
Terminates == <>(cpc = "end")
=============================================================================
