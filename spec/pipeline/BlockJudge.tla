------------------------------ MODULE BlockJudge ------------------------------
(***************************************************************************)
(* C12: the region-filter queries that the real MarchingCubesFilter /       *)
(* MarchingSquaresFilter make are exactly those of BlockPieces.             *)
(* The region filter is supplied by the harness, so it observes every block *)
(* the mesher asks about (no hook needed).  One record per run:             *)
(*   [id, site, dim, root: <<nx, ny, nz>> (cells), mv1, mv2,                 *)
(*    q: <<[lo, hi, ans]>>]  - every query in the order it was made (level-1 *)
(*    queries by the splitting goroutine, level-2 queries by the workers);  *)
(*    the filter is a function of the block, so a block has one answer.     *)
(* BlockPieces' own Volume / SplitAxis / Split operators (instantiated) say *)
(* which blocks must be queried: the root; both halves of every accepted    *)
(* block that is still splittable at its level; and every accepted level-1  *)
(* leaf once more when a worker picks it up.  Clauses                        *)
(*   queries - the multiset of observed queries is exactly that             *)
(*   answers - the harness's filter was consistent (sanity)                 *)
(***************************************************************************)
EXTENDS Integers, Sequences, FiniteSets, TLC, Json

B == INSTANCE BlockPieces WITH DX <- 32, DY <- 32, DZ <- 32, MaxMinVol <- 1,
                              dims <- <<0, 0, 0>>, mv1 <- 0, mv2 <- 0, surf <- {}, todo <- << >>,
                              leaves <- << >>, level <- 1

Recs == ndJsonDeserialize("records.ndjson")
VARIABLES rec, done
R == Recs[rec]

Blk(i) == [lo |-> <<R.q[i].lo[1], R.q[i].lo[2], R.q[i].lo[3]>>, hi |-> <<R.q[i].hi[1], R.q[i].hi[2], R.q[i].hi[3]>>]
Observed == {Blk(i) : i \in 1..Len(R.q)}
Count(b) == Cardinality({i \in 1..Len(R.q) : Blk(i) = b})
Consistent == \A i, j \in 1..Len(R.q) : Blk(i) = Blk(j) => R.q[i].ans = R.q[j].ans
Ans(b) == \E i \in 1..Len(R.q) : Blk(i) = b /\ R.q[i].ans

Root == [lo |-> <<0, 0, 0>>, hi |-> <<R.root[1], R.root[2], R.root[3]>>]
\* the blocks Pieces(minVol, g, f) asks g about, starting from b, and the leaves it hands to f
RECURSIVE Asked(_, _), Leaves(_, _)
Asked(b, mv) == {b} \cup (IF Ans(b) /\ B!Volume(b) \div 2 >= mv
                           THEN Asked(B!Split(b)[1], mv) \cup Asked(B!Split(b)[2], mv) ELSE {})
Leaves(b, mv) == IF ~Ans(b) THEN {}
                 ELSE IF B!Volume(b) \div 2 < mv THEN {b}
                 ELSE Leaves(B!Split(b)[1], mv) \cup Leaves(B!Split(b)[2], mv)
L1 == Leaves(Root, R.mv1)
Asked1 == Asked(Root, R.mv1)
Asked2 == UNION {Asked(b, R.mv2) : b \in L1}
Expected(b) == (IF b \in Asked1 THEN 1 ELSE 0) + (IF b \in Asked2 THEN 1 ELSE 0)

Holds(c) ==
    CASE c = "panic"   -> R.panic = ""
      [] c = "answers" -> Consistent
      [] c = "queries" -> (R.panic = "" /\ Consistent) =>
                              /\ Observed = Asked1 \cup Asked2
                              /\ \A b \in Observed : Count(b) = Expected(b)
      [] OTHER -> TRUE
Clauses == {"panic", "answers", "queries"}
Fails == {c \in Clauses : ~Holds(c)}

Init == rec \in 1..Len(Recs) /\ done = FALSE
Next == /\ ~done /\ done' = TRUE /\ UNCHANGED rec
        /\ \A c \in Fails : PrintT(<<"REJECT", R.id, 0, c>>)
Spec == Init /\ [][Next]_<<rec, done>>
=============================================================================
