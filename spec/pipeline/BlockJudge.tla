------------------------------ MODULE BlockJudge ------------------------------
(***************************************************************************)
(* C12: the region-filter queries that the real MarchingCubesFilter /       *)
(* MarchingSquaresFilter make are exactly those of BlockPieces.             *)
(* The region filter is supplied by the harness, so it observes every block *)
(* the mesher asks about (no hook needed).  One record per run:             *)
(*   [id, site, dim, root: <<nx, ny, nz>> (cells), mv1, mv2,                 *)
(*    q: <<[lo, hi, ans]>>]  - every query in the order it was made (level-1 *)
(*    queries by the splitting goroutine, level-2 queries by the workers);  *)
(*    the filter is a function of the block, so a block has one answer.     *)
(* What the property needs from the decomposition (clause "decomposition"): *)
(*   the root is asked about; every other block asked about is one half of  *)
(*   an axis-parallel cut of an ACCEPTED block whose other half is asked    *)
(*   about too; no block is cut in two different ways.  Then the accepted   *)
(*   blocks that are not cut (the leaves that get meshed) and the rejected  *)
(*   blocks partition the grid, so with a conservative filter every cell    *)
(*   the surface passes through is meshed exactly once.                     *)
(* Whether the cuts are the ones BlockPieces' Volume / SplitAxis / Split    *)
(* operators prescribe (longest axis, ties y over x and z over both, at the *)
(* midpoint, down to minVolume) is an implementation choice the property    *)
(* does not depend on: a difference is reported as NOTE "split-rule", not   *)
(* as a violation.                                                          *)
(***************************************************************************)
EXTENDS Integers, Sequences, FiniteSets, TLC, Json

B == INSTANCE BlockPieces WITH DX <- 32, DY <- 32, DZ <- 32, MaxMinVol <- 1,
                              dims <- <<0, 0, 0>>, mv1 <- 0, mv2 <- 0, surf <- {}, todo <- << >>,
                              leaves <- << >>, level <- 1

Recs == ndJsonDeserialize("records.ndjson")
VARIABLES rec, done
R == Recs[rec]

Blk(i) == [lo |-> <<R.q[i].lo[1], R.q[i].lo[2], R.q[i].lo[3]>>, hi |-> <<R.q[i].hi[1], R.q[i].hi[2], R.q[i].hi[3]>>]
Observed == {Blk(i) : i \in 1..Len(R.q)}
Count(b) == Cardinality({i \in 1..Len(R.q) : Blk(i) = b})
Consistent == \A i, j \in 1..Len(R.q) : Blk(i) = Blk(j) => R.q[i].ans = R.q[j].ans
Ans(b) == \E i \in 1..Len(R.q) : Blk(i) = b /\ R.q[i].ans

Root == [lo |-> <<0, 0, 0>>, hi |-> <<R.root[1], R.root[2], R.root[3]>>]
\* the blocks Pieces(minVol, g, f) asks g about, starting from b, and the leaves it hands to f
RECURSIVE Asked(_, _), Leaves(_, _)
Asked(b, mv) == {b} \cup (IF Ans(b) /\ B!Volume(b) \div 2 >= mv
                           THEN Asked(B!Split(b)[1], mv) \cup Asked(B!Split(b)[2], mv) ELSE {})
Leaves(b, mv) == IF ~Ans(b) THEN {}
                 ELSE IF B!Volume(b) \div 2 < mv THEN {b}
                 ELSE Leaves(B!Split(b)[1], mv) \cup Leaves(B!Split(b)[2], mv)
L1 == Leaves(Root, R.mv1)
Asked1 == Asked(Root, R.mv1)
Asked2 == UNION {Asked(b, R.mv2) : b \in L1}
Expected(b) == (IF b \in Asked1 THEN 1 ELSE 0) + (IF b \in Asked2 THEN 1 ELSE 0)

\* the two halves of p cut across axis a at coordinate m
Lower(p, a, m) == [lo |-> p.lo, hi |-> [p.hi EXCEPT ![a] = m]]
Upper(p, a, m) == [lo |-> [p.lo EXCEPT ![a] = m], hi |-> p.hi]
\* the ways in which p was cut: both halves were asked about
Cuts(p) == {c \in {<<a, m>> : a \in 1..3, m \in 0..32} :
               /\ p.lo[c[1]] < c[2] /\ c[2] < p.hi[c[1]]
               /\ Lower(p, c[1], c[2]) \in Observed /\ Upper(p, c[1], c[2]) \in Observed}
HasParent(b) == \E p \in Observed : \E c \in Cuts(p) : b \in {Lower(p, c[1], c[2]), Upper(p, c[1], c[2])}
Decomposition ==
    /\ Root \in Observed
    /\ \A b \in Observed : /\ \A k \in 1..3 : Root.lo[k] <= b.lo[k] /\ b.lo[k] < b.hi[k] /\ b.hi[k] <= Root.hi[k]
                            /\ (b = Root \/ HasParent(b))
    \* only accepted blocks are cut, and in one way only
    /\ \A p \in Observed : Cardinality(Cuts(p)) <= 1 /\ (Cuts(p) # {} => Ans(p))
ExactRule == Observed = Asked1 \cup Asked2 /\ \A b \in Observed : Count(b) = Expected(b)

Holds(c) ==
    CASE c = "panic"   -> R.panic = ""
      [] c = "answers" -> Consistent
      [] c = "decomposition" -> (R.panic = "" /\ Consistent) => Decomposition
      [] OTHER -> TRUE
Clauses == {"panic", "answers", "decomposition"}
Fails == {c \in Clauses : ~Holds(c)}

Init == rec \in 1..Len(Recs) /\ done = FALSE
Next == /\ ~done /\ done' = TRUE /\ UNCHANGED rec
        /\ \A c \in Fails : PrintT(<<"REJECT", R.id, 0, c>>)
        /\ (R.panic # "" \/ ~Consistent \/ ExactRule) \/ PrintT(<<"NOTE", R.id, "split-rule">>)
Spec == Init /\ [][Next]_<<rec, done>>
=============================================================================
