------------------------------ MODULE C2FJudge ------------------------------
(* Mode V for C12 (coarse-to-fine at large ratios): records [id, site, shape, ratio, iters, ndirect,  *)
(* nc2f, ncoarse, extra, missing: <<[dist, margin]>>, panic] from MarchingSquaresC2F /               *)
(* MarchingCubesC2F and the direct fine mesh of the same solid.                                       *)
(*   subset - the coarse-to-fine mesh has no face the direct fine mesh lacks                          *)
(*   margin - a face of the direct mesh may be absent only if it is further from the coarse mesh      *)
(*            than the documented margin extraSpace + 2*bigDelta*sqrt(3) (lengths in 1e-5 units; a    *)
(*            face within 2 units of the margin is not decided)                                       *)
(*   count  - with nothing missing and nothing extra the two meshes have the same number of faces     *)
EXTENDS Integers, Sequences, TLC, Json
Recs == ndJsonDeserialize("records.ndjson")
VARIABLES rec, done
R == Recs[rec]
Holds(c) == CASE c = "panic" -> R.panic = ""
              [] c = "subset" -> R.extra = 0
              [] c = "margin" -> \A i \in 1..Len(R.missing) : R.missing[i].dist + 2 >= R.missing[i].margin
              [] c = "count" -> (R.extra = 0 /\ Len(R.missing) = 0) => R.ndirect = R.nc2f
              [] OTHER -> TRUE
Fails == {c \in {"panic", "subset", "margin", "count"} : ~Holds(c)}
Undecided == R.panic = "" /\ Len(R.missing) > 0 /\ Holds("margin")
Init == rec \in 1..Len(Recs) /\ done = FALSE
Next == /\ ~done /\ done' = TRUE /\ UNCHANGED rec
        /\ \A c \in Fails : PrintT(<<"REJECT", R.id, 0, c>>)
        /\ IF Undecided THEN PrintT(<<"NOTE", R.id, "coarse-mesh-misses-feature">>) ELSE TRUE
Spec == Init /\ [][Next]_<<rec, done>>
=============================================================================
