----------------------------- MODULE RasterTiles -----------------------------
(***************************************************************************)
(* model2d.Rasterizer.RasterizeSolidFilter (C12: "results do not depend on  *)
(* ... filtering"): the image is walked in tiles of F x F pixels; the tile's *)
(* rectangle is handed to a filter; if the filter says "no boundary here"   *)
(* every pixel of the tile is filled with Contains(centre of the tile),     *)
(* otherwise every pixel is sampled.  One axis suffices (the two axes are   *)
(* treated independently by the code): H pixels of height PH (an integer    *)
(* number of lattice steps, so PH need not equal the pixel width), the solid*)
(* is a set of lattice intervals, a pixel's value is its covered length.    *)
(* TileHi is the upper bound of the rectangle handed to the filter, as the  *)
(* code computes it: nextY * PH.  The filter is ANY conservative one: it    *)
(* may answer FALSE only if the rectangle contains no boundary point.       *)
(* Invariant: the filtered image equals the unfiltered one.  (With the tile *)
(* bound computed from the other axis' pixel size - TileHi = nextY * PW -   *)
(* TLC refutes it as soon as PW < PH; that is the seeded change C12-m2.)    *)
(***************************************************************************)
EXTENDS Integers, FiniteSets, Sequences, TLC
CONSTANTS MaxH, MaxF, MaxPH
VARIABLES H, F, PH, inside, ph
vars == <<H, F, PH, inside, ph>>
\* lattice cells 0 .. H*PH-1; inside = set of cells in the solid
Cells == 0..(H * PH - 1)
Boundary == {b \in 1..(H * PH - 1) : (b - 1 \in inside) # (b \in inside)}     \* points between cells
Pixel(y) == Cardinality({c \in inside : y * PH <= c /\ c < (y + 1) * PH})
TileOf(y) == y \div F
TileLo(t) == t * F * PH
NextY(t) == IF (t + 1) * F < H THEN (t + 1) * F ELSE H
TileHi(t) == NextY(t) * PH
\* the least conservative filter: FALSE exactly when the closed rectangle holds no boundary point
Filter(t) == \E b \in Boundary : TileLo(t) <= b /\ b <= TileHi(t)
Mid2(t) == TileLo(t) + TileHi(t)                                            \* twice the centre
CentreInside(t) == (Mid2(t) \div 2) \in inside
Filtered(y) == LET t == TileOf(y) IN IF Filter(t) THEN Pixel(y) ELSE (IF CentreInside(t) THEN PH ELSE 0)
Init == /\ H \in 1..MaxH /\ F \in 1..MaxF /\ PH \in 1..MaxPH /\ ph = 0
        /\ inside \in SUBSET (0..(MaxH * MaxPH - 1))
Next == ph = 0 /\ ph' = 1 /\ UNCHANGED <<H, F, PH, inside>>
Spec == Init /\ [][Next]_vars
Independent == \A y \in 0..(H - 1) : Filtered(y) = Pixel(y)
Valid == inside \subseteq Cells
Inv == Valid => Independent
=============================================================================
