---------------------------- MODULE DcWindowTrace ----------------------------
(***************************************************************************)
(* Validation of hook traces of DualContouring.mesh / dcCubeLayout          *)
(* (model3d/dc.go, build tag verif) against DcWindow (C12).                 *)
(* records.ndjson: one record per real dual-contouring run:                 *)
(*   [id, site, cfg, nz, bufrows, ev: <<[ev, zoff, last, tris]>>]            *)
(* ev = "pass": one populate + appendMesh pass at window offset zoff;       *)
(*   tris = the edges marked Triangulated in it, as <<kind, z, pos>> with    *)
(*   kind 0 = x/y edge of plane z, 1 = z edge of cube row z (absolute z),    *)
(*   pos = the edge's index inside its row; last = Remaining() = 0 after it *)
(* ev = "shift": the window moved; zoff is the new offset.                  *)
(* Every pass must be DcWindow!Pass at the logged offset and every shift    *)
(* DcWindow!Shift to the logged offset; every edge the real code            *)
(* triangulated must lie in a row the specification triangulates in that    *)
(* pass (so the cubes it needs are buffered), and no edge twice.            *)
(***************************************************************************)
EXTENDS DcWindow, Json

Recs == ndJsonDeserialize("records.ndjson")
VARIABLES rec, l, status, seen
tvars == <<NZ, BufRows, ZOffset, flagXY, flagZ, cntXY, cntZ, bad, pc, rec, l, status, seen>>
R == Recs[rec]
E == R.ev[l]

TInit == /\ rec \in 1..Len(Recs) /\ l = 1 /\ status = "run" /\ seen = {}
         /\ NZ = R.nz /\ BufRows = R.bufrows /\ ZOffset = 0
         /\ flagXY = [r \in 0..(MaxZ - 1) |-> FALSE] /\ flagZ = [r \in 0..(MaxZ - 1) |-> FALSE]
         /\ cntXY = [z \in 0..(MaxZ - 1) |-> 0] /\ cntZ = [z \in 0..(MaxZ - 1) |-> 0]
         /\ bad = FALSE /\ pc = "pass"

\* rows the specification's Pass triangulates in the current state
DoXY == {r \in 0..(BufRows - 1) : UsableXY(r) /\ ~flagXY[r]}
DoZ == {r \in 0..(BufRows - 2) : ~flagZ[r]}
TriSet(e) == {<<e.tris[i][1], e.tris[i][2], e.tris[i][3]>> : i \in 1..Len(e.tris)}
Allowed(t) == IF t[1] = 0 THEN t[2] - ZOffset \in DoXY ELSE t[2] - ZOffset \in DoZ

Step(e) ==
    \/ /\ e.ev = "pass" /\ e.zoff = ZOffset
       /\ NZ >= 3 /\ NZ <= MaxZ /\ BufRows >= 3 /\ BufRows <= NZ
       /\ Cardinality(TriSet(e)) = Len(e.tris)
       /\ TriSet(e) \cap seen = {}
       /\ \A t \in TriSet(e) : Allowed(t)
       /\ Pass /\ e.last = (Remaining = 0)
       /\ seen' = seen \cup TriSet(e)
    \/ e.ev = "shift" /\ Shift /\ ZOffset' = e.zoff /\ UNCHANGED seen

Walk == /\ status = "run" /\ l <= Len(R.ev)
        /\ IF ENABLED Step(E)
           THEN Step(E) /\ l' = l + 1 /\ UNCHANGED <<rec, status>>
           ELSE /\ PrintT(<<"REJECT", R.id, l, E.ev>>)
                /\ status' = "rej" /\ UNCHANGED <<vars, rec, l, seen>>
Finish == /\ status = "run" /\ l > Len(R.ev)
          /\ IF pc = "end" THEN status' = "done"
             ELSE status' = "rej" /\ PrintT(<<"REJECT", R.id, l, "not-finished">>)
          /\ UNCHANGED <<vars, rec, l, seen>>
Term == status # "run" /\ UNCHANGED tvars
TNext == Walk \/ Finish \/ Term
TSpec == TInit /\ [][TNext]_tvars

TInv == NeverWithoutCubes /\ AtMostOnce /\ AllOnceAtEnd
=============================================================================
