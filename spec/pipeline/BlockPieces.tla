----------------------------- MODULE BlockPieces -----------------------------
(***************************************************************************)
(* mcBlock.Pieces / Split / Volume (model3d/mc.go), the block decomposition *)
(* behind MarchingCubesFilter (and msBlock in 2-D).  C12: "results do not   *)
(* depend on ... filtering": for ANY conservative filter the leaves that    *)
(* are meshed cover every cell that the surface passes through exactly      *)
(* once.                                                                    *)
(* A block is a box of lattice cells [lo, hi) per axis.  Pieces(minVolume,  *)
(* g, f): drop the block if the filter g rejects it; emit it as a leaf if   *)
(* Volume / 2 < minVolume; otherwise split the longest axis (ties: y over   *)
(* x, z over both, as coded) at (lo + hi) div 2 and recurse.  The second    *)
(* level (the workers re-splitting with subDivideVolume) is the same        *)
(* operator applied to the leaves of the first, so Level2 composes them.    *)
(* The filter is the LEAST conservative one for a surface that meets        *)
(* exactly the cells in Surf: g(b) = (b contains a cell of Surf).           *)
(* TLC: every root block with dimensions <= Dims, every minVolume pair,     *)
(* every Surf consisting of one or two cells.                               *)
(***************************************************************************)
EXTENDS Integers, Sequences, FiniteSets, TLC
CONSTANTS DX, DY, DZ, MaxMinVol
VARIABLES dims, mv1, mv2, surf, todo, leaves, level
vars == <<dims, mv1, mv2, surf, todo, leaves, level>>

Len3(b) == <<b.hi[1] - b.lo[1], b.hi[2] - b.lo[2], b.hi[3] - b.lo[3]>>
Volume(b) == Len3(b)[1] * Len3(b)[2] * Len3(b)[3]
CellsOf(b) == {c \in (0..(DX - 1)) \X (0..(DY - 1)) \X (0..(DZ - 1)) : \A a \in 1..3 : b.lo[a] <= c[a] /\ c[a] < b.hi[a]}
SplitAxis(b) == LET l == Len3(b) IN
                IF l[2] >= l[1] /\ l[2] >= l[3] THEN 2 ELSE IF l[3] >= l[1] /\ l[3] >= l[2] THEN 3 ELSE 1
Split(b) == LET a == SplitAxis(b) m == (b.hi[a] + b.lo[a]) \div 2 IN
            << [lo |-> b.lo, hi |-> [b.hi EXCEPT ![a] = m]], [lo |-> [b.lo EXCEPT ![a] = m], hi |-> b.hi] >>
G(b) == CellsOf(b) \cap surf # {}

Init == /\ dims \in (1..DX) \X (1..DY) \X (1..DZ)
        /\ mv1 \in 1..MaxMinVol /\ mv2 \in 1..MaxMinVol
        /\ surf \in {s \in SUBSET ((0..(DX - 1)) \X (0..(DY - 1)) \X (0..(DZ - 1))) : Cardinality(s) \in 1..2}
        /\ todo = << [lo |-> <<0, 0, 0>>, hi |-> dims] >> /\ leaves = << >> /\ level = 1
MinVol == IF level = 1 THEN mv1 ELSE mv2
Step == /\ todo # << >>
        /\ LET b == Head(todo) IN
           IF ~G(b) THEN todo' = Tail(todo) /\ UNCHANGED leaves
           ELSE IF Volume(b) \div 2 < MinVol THEN todo' = Tail(todo) /\ leaves' = Append(leaves, b)
           ELSE todo' = <<Split(b)[1], Split(b)[2]>> \o Tail(todo) /\ UNCHANGED leaves
        /\ UNCHANGED <<dims, mv1, mv2, surf, level>>
\* the queue of level-1 leaves is handed to the workers, which run Pieces again with subDivideVolume
Level2 == /\ todo = << >> /\ level = 1
          /\ todo' = leaves /\ leaves' = << >> /\ level' = 2
          /\ UNCHANGED <<dims, mv1, mv2, surf>>
Next == Step \/ Level2
Spec == Init /\ [][Next]_vars /\ WF_vars(Next)

Root == [lo |-> <<0, 0, 0>>, hi |-> dims]
ValidSurf == surf \subseteq CellsOf(Root)
\* blocks always have positive extent (a split never produces an empty half that recurses forever)
Positive == \A i \in 1..Len(todo) : \A a \in 1..3 : todo[i].lo[a] < todo[i].hi[a]
Disjoint == \A i, j \in 1..Len(leaves) : i < j => CellsOf(leaves[i]) \cap CellsOf(leaves[j]) = {}
Finished == todo = << >> /\ level = 2
Covers == (ValidSurf /\ Finished) => \A c \in surf : Cardinality({i \in 1..Len(leaves) : c \in CellsOf(leaves[i])}) = 1
Terminates == <>Finished
=============================================================================
