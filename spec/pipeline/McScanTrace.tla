----------------------------- MODULE McScanTrace -----------------------------
(***************************************************************************)
(* Validation of hook traces of squareSpacer.Scan / asyncSolidCache.FetchZ  *)
(* (model3d/mc.go, build tag verif) against McScan (C12, C13).              *)
(* records.ndjson: one record per real MarchingCubes run:                   *)
(*   [id, site, procs, ev: <<[ev, z, c, c2, flag]>>]                         *)
(* in the global order in which the hooks fired (one sequence number under  *)
(* a mutex).  c / c2 are labels of the cache OBJECTS (by first appearance); *)
(* the trace spec learns which model cache a label denotes from the initial *)
(* fills and then requires every later event to be about the right object.  *)
(* Hook placement (so that the logged order is a possible order of the real *)
(* steps): fill.begin / fill.end inside the fill goroutine, fill.end BEFORE *)
(* the send on Done; wait AFTER the receive; f BEFORE the callback; refill  *)
(* BEFORE the new fill goroutine is started.                                *)
(* McScan's invariants (RightSlabs, NoRace, EachOnce) are checked on every  *)
(* state of every validated trace.                                          *)
(***************************************************************************)
EXTENDS McScan, Json

Recs == ndJsonDeserialize("records.ndjson")
VARIABLES rec, l, status, lab
tvars == <<NZ, NC, slab, filling, pending, done, nextZ, cpc, calls, rec, l, status, lab>>
R == Recs[rec]
E == R.ev[l]

TInit == /\ rec \in 1..Len(Recs) /\ l = 1 /\ status = "run"
         /\ lab = [i \in 0..MaxP |-> -1]
         /\ Len(R.ev) > 0 /\ R.ev[1].ev = "scan.begin"
         /\ NZ = R.ev[1].z /\ NC = R.ev[1].c
         /\ slab = [c \in 0..MaxP |-> -1] /\ filling = [c \in 0..MaxP |-> -1]
         /\ pending = [c \in 0..MaxP |-> IF c < NC THEN <<c>> ELSE << >>]
         /\ done = [c \in 0..MaxP |-> 0]
         /\ nextZ = 0 /\ cpc = "wait0" /\ calls = << >>

Quiet == \A c \in 0..MaxP : pending[c] = << >> /\ filling[c] = -1

Step(e) ==
    \/ /\ e.ev = "scan.begin" /\ l = 1
       \* (how many caches the code allocates - one more than min(GOMAXPROCS, slabs - 1) - is its own
       \* choice: the protocol and its invariants are stated for any number of caches)
       /\ NZ >= 2 /\ NZ <= MaxZ /\ NC >= 1 /\ NC <= MaxP + 1
       /\ UNCHANGED <<vars, lab>>
    \/ /\ e.ev = "scan.fill.begin"
       /\ \E c \in Caches : /\ FillBegin(c) /\ Head(pending[c]) = e.z
                            /\ lab[e.c] \in {-1, c}
                            /\ (lab[e.c] = -1 => \A i \in 0..MaxP : lab[i] # c)
                            /\ lab' = [lab EXCEPT ![e.c] = c]
    \/ /\ e.ev = "scan.fill.end"
       /\ \E c \in Caches : FillEnd(c) /\ filling[c] = e.z /\ lab[e.c] = c
       /\ UNCHANGED lab
    \/ e.ev = "scan.wait0" /\ Wait0 /\ lab[e.c] = 0 /\ UNCHANGED lab
    \/ e.ev = "scan.wait" /\ Wait /\ nextZ = e.z /\ lab[e.c] = nextZ % NC /\ UNCHANGED lab
    \/ /\ e.ev = "scan.f" /\ CallF /\ nextZ = e.z
       /\ lab[e.c] = (nextZ - 1) % NC /\ lab[e.c2] = nextZ % NC /\ UNCHANGED lab
    \/ /\ e.ev = "scan.refill" /\ Refill /\ nextZ = e.z
       /\ lab[e.c] = (nextZ - 1) % NC /\ e.flag = (nextZ + NC - 1 < NZ) /\ UNCHANGED lab
    \/ e.ev = "scan.end" /\ cpc = "end" /\ Quiet /\ UNCHANGED <<vars, lab>>

Walk == /\ status = "run" /\ l <= Len(R.ev)
        /\ IF ENABLED Step(E)
           THEN Step(E) /\ l' = l + 1 /\ UNCHANGED <<rec, status>>
           ELSE /\ PrintT(<<"REJECT", R.id, l, E.ev>>)
                /\ status' = "rej" /\ UNCHANGED <<vars, rec, l, lab>>
Finish == /\ status = "run" /\ l > Len(R.ev)
          /\ IF R.ev[Len(R.ev)].ev = "scan.end" THEN status' = "done"
             ELSE status' = "rej" /\ PrintT(<<"REJECT", R.id, l, "no-scan.end">>)
          /\ UNCHANGED <<vars, rec, l, lab>>
Term == status # "run" /\ UNCHANGED tvars
TNext == Walk \/ Finish \/ Term
TSpec == TInit /\ [][TNext]_tvars

TInv == RightSlabs /\ NoRace /\ EachOnce
=============================================================================
