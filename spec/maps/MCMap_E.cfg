SPECIFICATION Spec
CONSTANTS
  Keys <- Keys5
  Hash <- Hash5
  Vals = {1, 2}
  MaxLen = 0
VIEW view
INVARIANTS Refines FastIsInjective
PROPERTIES ModeMonotone
CHECK_DEADLOCK FALSE
