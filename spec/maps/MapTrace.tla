------------------------------- MODULE MapTrace -------------------------------
(***************************************************************************)
(* Trace validation for the coordinate-keyed maps (C09, mode V).  One      *)
(* record per (history, map type, realisation); after every operation the  *)
(* harness logs the complete observable state of the real map (Len, Load   *)
(* of every key class, Range / KeyRange / ValueRange contents) and the     *)
(* operation's own return value.  They must equal the ordinary map `abs`.  *)
(***************************************************************************)
EXTENDS MCMap, SequencesExt

Recs == ndJsonDeserialize("records.ndjson")
VARIABLES rec, l, phase, status
tvars == <<abs, mode, cells, slow, hist, rec, l, phase, status>>
R == Recs[rec]
E == R.ev[l]

TInit == Init /\ rec \in 1..Len(Recs) /\ l = 1 /\ phase = "op" /\ status = "run"

DoOp(e) ==
    \/ e.op = "Store"  /\ Store(e.k, e.x)
    \/ e.op = "Append" /\ AppendOp(e.k, e.x)
    \/ e.op = "Add"    /\ AddOp(e.k, e.x)
    \/ e.op = "Delete" /\ Delete(e.k)
    \/ e.op = "Load"   /\ Load(e.k)

Chk(name, cond) == cond \/ (PrintT(<<"REJECT", R.id, l, name>>) /\ FALSE)

RECURSIVE SortInts(_)
SortInts(S) == IF S = {} THEN <<>>
               ELSE LET x == CHOOSE a \in S : \A b \in S : a <= b
                    IN <<x>> \o SortInts(S \ {x})
KeySeq == SortInts(DOMAIN abs)
Expect(k) == IF k \in DOMAIN abs THEN [ok |-> TRUE, val |-> abs[k]] ELSE [ok |-> FALSE, val |-> <<>>]

ObsOK(e) ==
    /\ Chk("panic", e.panic = "")
    /\ Chk("len", e.len = Cardinality(DOMAIN abs))
    /\ Chk("load", \A k \in Keys : e.loads[k] = Expect(k))
    /\ Chk("value", e.valueok)
    /\ Chk("range", e.items = [i \in 1..Len(KeySeq) |-> [k |-> KeySeq[i], v |-> abs[KeySeq[i]]]])
    /\ Chk("keyrange", e.keys = KeySeq)
    /\ Chk("valuerange", e.vals = [i \in 1..Len(KeySeq) |-> abs[KeySeq[i]]])
    /\ Chk("return", (e.op \in {"Append", "Add"}) => e.ret = abs[e.k])
    /\ Chk("return", (e.op = "Load") => e.ret = Expect(e.k).val)

Apply == /\ status = "run" /\ phase = "op" /\ l <= Len(R.ev)
         /\ DoOp(E) /\ phase' = "chk" /\ UNCHANGED <<rec, l, status>>
Check == /\ status = "run" /\ phase = "chk"
         /\ IF ObsOK(E)
            THEN l' = l + 1 /\ phase' = "op" /\ status' = IF l = Len(R.ev) THEN "done" ELSE "run"
            ELSE status' = "rej" /\ UNCHANGED <<l, phase>>
         /\ UNCHANGED <<abs, mode, cells, slow, hist, rec>>
Empty == /\ status = "run" /\ phase = "op" /\ l > Len(R.ev)
         /\ status' = "done" /\ UNCHANGED <<abs, mode, cells, slow, hist, rec, l, phase>>
Term == status # "run" /\ UNCHANGED tvars
TNext == Apply \/ Check \/ Empty \/ Term
TSpec == TInit /\ [][TNext]_tvars
TRefines == Refines
=============================================================================
