------------------------------- MODULE MCMap -------------------------------
EXTENDS CoordMapADT, Json
\* keys 1 and 2 collide; 3 is the origin (both signs of zero); 4, 5 are ordinary
Keys5 == 1..5
Hash5 == <<1, 1, 3, 4, 5>>
Keys4 == 1..4
Hash4 == <<1, 1, 3, 4>>
GenPlain  == Init /\ [][Len(hist) < MaxLen /\ (Next \/ \E k \in Keys : Load(k))]_vars
GenSlice  == Init /\ [][Len(hist) < MaxLen /\ (NextSlice \/ \E k \in Keys : Load(k))]_vars
GenNumber == Init /\ [][Len(hist) < MaxLen /\ (NextNumber \/ \E k \in Keys : Load(k))]_vars
Emit == (Len(hist) = MaxLen) => PrintT(<<"BEHAVIOUR", ToJson(hist)>>)
=============================================================================
