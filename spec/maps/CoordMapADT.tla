----------------------------- MODULE CoordMapADT -----------------------------
(***************************************************************************)
(* The coordinate-keyed maps of model3d / model2d (CoordMap, CoordToSlice,  *)
(* CoordToNumber, EdgeMap, EdgeToSlice, EdgeToNumber) - property C09.       *)
(*                                                                         *)
(* Abstract state: abs, an ordinary map from key classes to values (values *)
(* are sequences of integers: <<v>> for plain maps, the slice for *ToSlice, *)
(* <<n>> for *ToNumber).  Concrete state transcribed from fast_maps.go:     *)
(* mode \in {"fast","slow"}; in fast mode `cells` maps a hash to one        *)
(* <<key, value>> cell; the first Store/Append/Add of a *different* key     *)
(* with an occupied hash converts everything to `slow`, an ordinary map.    *)
(* Hash is a constant function with collisions.  Keys are equality classes  *)
(* (0 and -0 are one key); the fast hash must respect that (HashRespectsEq  *)
(* is an assumption here and is what the harness realisation probes).       *)
(***************************************************************************)
EXTENDS Integers, Sequences, FiniteSets, TLC

CONSTANTS Keys,     \* key classes
          Hash,     \* Hash[k] : hash bucket of key k
          Vals,     \* integers stored / appended / added
          MaxLen    \* history bound (generation)

VARIABLES abs, mode, cells, slow, hist

vars == <<abs, mode, cells, slow, hist>>
view == <<abs, mode, cells, slow>>

Buckets == {Hash[k] : k \in Keys}
NoCell  == <<>>

Init == /\ abs = [k \in {} |-> <<>>]
        /\ mode = "fast"
        /\ cells = [h \in Buckets |-> NoCell]
        /\ slow = [k \in {} |-> <<>>]
        /\ hist = <<>>

H(op, k, x) == hist' = Append(hist, [op |-> op, k |-> k, x |-> x])

Put(f, k, v) == [x \in DOMAIN f \cup {k} |-> IF x = k THEN v ELSE f[x]]
Drop(f, k)   == [x \in DOMAIN f \ {k} |-> f[x]]
Get(f, k)    == IF k \in DOMAIN f THEN f[k] ELSE <<>>

\* fastToSlow(): copy every cell into an ordinary map
FastAsMap == [k \in {cells[h][1] : h \in {b \in Buckets : cells[b] # NoCell}} |->
                 cells[Hash[k]][2]]

\* Generic "write k := F(old value)" following Store / Append / Add in fast_maps.go
Write(k, F(_)) ==
    /\ abs' = Put(abs, k, F(Get(abs, k)))
    /\ IF mode = "fast"
       THEN LET c == cells[Hash[k]] IN
            IF c # NoCell /\ c[1] # k
            THEN \* collision with a different key: switch to the slow map, then write
                 /\ mode' = "slow"
                 /\ slow' = Put(FastAsMap, k, F(Get(FastAsMap, k)))
                 /\ cells' = [h \in Buckets |-> NoCell]
            ELSE /\ cells' = [cells EXCEPT ![Hash[k]] = <<k, F(IF c = NoCell THEN <<>> ELSE c[2])>>]
                 /\ UNCHANGED <<mode, slow>>
       ELSE /\ slow' = Put(slow, k, F(Get(slow, k)))
            /\ UNCHANGED <<mode, cells>>

Store(k, v)  == Write(k, LAMBDA old : <<v>>) /\ H("Store", k, v)
AppendOp(k, x) == Write(k, LAMBDA old : Append(old, x)) /\ H("Append", k, x)
AddOp(k, x)  == Write(k, LAMBDA old : <<(IF old = <<>> THEN 0 ELSE old[1]) + x>>) /\ H("Add", k, x)

Delete(k) ==
    /\ abs' = Drop(abs, k)
    /\ IF mode = "fast"
       THEN /\ cells' = IF cells[Hash[k]] # NoCell /\ cells[Hash[k]][1] = k
                        THEN [cells EXCEPT ![Hash[k]] = NoCell] ELSE cells
            /\ UNCHANGED <<mode, slow>>
       ELSE /\ slow' = Drop(slow, k) /\ UNCHANGED <<mode, cells>>
    /\ H("Delete", k, 0)

\* Queries through the concrete representation, as the code answers them
LoadImpl(k) == IF mode = "fast"
               THEN IF cells[Hash[k]] # NoCell /\ cells[Hash[k]][1] = k
                    THEN <<TRUE, cells[Hash[k]][2]>> ELSE <<FALSE, <<>>>>
               ELSE IF k \in DOMAIN slow THEN <<TRUE, slow[k]>> ELSE <<FALSE, <<>>>>
LenImpl == IF mode = "fast" THEN Cardinality({h \in Buckets : cells[h] # NoCell})
           ELSE Cardinality(DOMAIN slow)

Load(k) == UNCHANGED <<abs, mode, cells, slow>> /\ H("Load", k, 0)

Next == \E k \in Keys : \/ \E v \in Vals : Store(k, v)
                        \/ Delete(k)

NextSlice  == \E k \in Keys : (\E v \in Vals : AppendOp(k, v) \/ Store(k, v)) \/ Delete(k)
NextNumber == \E k \in Keys : (\E v \in Vals : AddOp(k, v) \/ Store(k, v)) \/ Delete(k)

Spec       == Init /\ [][Next]_vars
SpecSlice  == Init /\ [][NextSlice]_vars
SpecNumber == Init /\ [][NextNumber]_vars

-----------------------------------------------------------------------------
\* Refinement: the concrete representation always denotes the abstract map.
Refines ==
    /\ \A k \in Keys : LoadImpl(k) = IF k \in DOMAIN abs THEN <<TRUE, abs[k]>> ELSE <<FALSE, <<>>>>
    /\ LenImpl = Cardinality(DOMAIN abs)
\* In fast mode no two distinct keys share a bucket; the mode only ever goes fast -> slow.
FastIsInjective == mode = "fast" =>
    \A h \in Buckets : cells[h] # NoCell => Hash[cells[h][1]] = h
ModeMonotone == [][mode = "slow" => mode' = "slow"]_vars
ValBound == \A k \in DOMAIN abs : Len(abs[k]) <= 3 /\ \A i \in 1..Len(abs[k]) : abs[k][i] \in -6..6
=============================================================================
