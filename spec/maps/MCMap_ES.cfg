SPECIFICATION SpecSlice
CONSTANTS
  Keys <- Keys4
  Hash <- Hash4
  Vals = {1, 2}
  MaxLen = 0
VIEW view
INVARIANTS Refines FastIsInjective
PROPERTIES ModeMonotone
CHECK_DEADLOCK FALSE
CONSTRAINT ValBound
