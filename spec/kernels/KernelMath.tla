----------------------------- MODULE KernelMath -----------------------------
(***************************************************************************)
(* Exact integer arithmetic shared by the C17 generator (KernelGen) and    *)
(* judge (KernelJudge): polynomials with integer coefficients, small       *)
(* integer matrices (flat, row-major, 1-based), quarter-turn rotations,    *)
(* de Casteljau's repeated linear interpolation in scaled integers, and    *)
(* arc-length positions on axis-parallel polylines.                        *)
(***************************************************************************)
EXTENDS Integers, Sequences, FiniteSets, TLC

Abs(x) == IF x < 0 THEN -x ELSE x
Min2(a, b) == IF a < b THEN a ELSE b
Max2(a, b) == IF a < b THEN b ELSE a
Sum(s) == LET S[i \in 0..Len(s)] == IF i = 0 THEN 0 ELSE S[i - 1] + s[i] IN S[Len(s)]
Pow(b, e) == LET P[i \in 0..e] == IF i = 0 THEN 1 ELSE P[i - 1] * b IN P[e]
SeqSet(s) == {s[i] : i \in 1..Len(s)}
Count(s, x) == Cardinality({i \in 1..Len(s) : s[i] = x})

---------------------------------------------------------------------------
(* polynomials: <<a0, a1, ..., an>> *)
PolyMul(p, q) == [k \in 1..(Len(p) + Len(q) - 1) |->
                    Sum([i \in 1..Len(p) |-> IF (k - i + 1) \in 1..Len(q) THEN p[i] * q[k - i + 1] ELSE 0])]
PolyScale(p, c) == [i \in 1..Len(p) |-> c * p[i]]
PolyEval(p, x) == LET H[i \in 0..Len(p)] == IF i = 0 THEN 0 ELSE H[i - 1] * x + p[Len(p) - i + 1] IN H[Len(p)]
\* the product of (x - r) over a sequence of roots
LinProd(rs) == LET F[i \in 0..Len(rs)] == IF i = 0 THEN <<1>> ELSE PolyMul(F[i - 1], <<-rs[i], 1>>) IN F[Len(rs)]
\* evaluation at the rational num/den, scaled by den^(degree)
PolyEvalScaled(p, num, den) ==
    LET n == Len(p) - 1
    IN Sum([i \in 1..Len(p) |-> p[i] * Pow(num, i - 1) * Pow(den, n - (i - 1))])

---------------------------------------------------------------------------
(* n x n integer matrices as flat row-major sequences *)
At(M, n, i, j) == M[(i - 1) * n + j]
Mat(n, f(_, _)) == [k \in 1..(n * n) |-> f(((k - 1) \div n) + 1, ((k - 1) % n) + 1)]
Ident(n) == Mat(n, LAMBDA i, j : IF i = j THEN 1 ELSE 0)
MatMul(A, B, n) == Mat(n, LAMBDA i, j : Sum([k \in 1..n |-> At(A, n, i, k) * At(B, n, k, j)]))
MatT(A, n) == Mat(n, LAMBDA i, j : At(A, n, j, i))
MatVec(A, n, v) == [i \in 1..n |-> Sum([k \in 1..n |-> At(A, n, i, k) * v[k]])]
Skip(k, i) == IF k < i THEN k ELSE k + 1
\* the matrix without row i and column j
Minor(M, n, i, j) == [k \in 1..((n - 1) * (n - 1)) |->
                        At(M, n, Skip(((k - 1) \div (n - 1)) + 1, i), Skip(((k - 1) % (n - 1)) + 1, j))]
Sign(k) == IF k % 2 = 0 THEN 1 ELSE -1
RECURSIVE Det(_, _)
Det(M, n) == IF n = 0 THEN 1
             ELSE IF n = 1 THEN M[1]
             ELSE Sum([j \in 1..n |-> Sign(1 + j) * At(M, n, 1, j) * Det(Minor(M, n, 1, j), n - 1)])
\* adjugate: Adj(M) * M = Det(M) * I, so M^-1 = Adj(M) / Det(M)
Adj(M, n) == Mat(n, LAMBDA i, j : Sign(i + j) * Det(Minor(M, n, j, i), n - 1))
\* the principal submatrix on the increasing index sequence ix
Principal(M, n, ix) == LET m == Len(ix) IN [k \in 1..(m * m) |-> At(M, n, ix[((k - 1) \div m) + 1], ix[((k - 1) % m) + 1])]
IncSeqs(n, m) == {s \in [1..m -> 1..n] : \A i \in 1..(m - 1) : s[i] < s[i + 1]}
\* e_m = sum of the m x m principal minors (the elementary symmetric function of the eigenvalues)
RECURSIVE SumMinors(_, _, _, _)
SumMinors(M, n, m, S) == IF S = {} THEN 0
                         ELSE LET x == CHOOSE x \in S : TRUE
                              IN Det(Principal(M, n, x), m) + SumMinors(M, n, m, S \ {x})
ESym(M, n, m) == IF m = 0 THEN 1 ELSE SumMinors(M, n, m, IncSeqs(n, m))
\* det(x I - M) = x^n - e1 x^(n-1) + e2 x^(n-2) - ... as <<a0, ..., an>>
CharPoly(M, n) == [k \in 1..(n + 1) |-> Sign(n - (k - 1)) * ESym(M, n, n - (k - 1))]
Trace(M, n) == Sum([i \in 1..n |-> At(M, n, i, i)])
Frob2(M) == Sum([i \in 1..Len(M) |-> M[i] * M[i]])
IsSym(M, n) == \A i, j \in 1..n : At(M, n, i, j) = At(M, n, j, i)

---------------------------------------------------------------------------
(* right-handed quarter turns about the coordinate axes (1 = X, 2 = Y, 3 = Z) and third turns     *)
(* about the cube diagonals                                                                        *)
Quarter(a) == CASE a = 1 -> <<1, 0, 0, 0, 0, -1, 0, 1, 0>>     \* y -> z, z -> -y
                [] a = 2 -> <<0, 0, 1, 0, 1, 0, -1, 0, 0>>     \* z -> x, x -> -z
                [] a = 3 -> <<0, -1, 0, 1, 0, 0, 0, 0, 1>>     \* x -> y, y -> -x
MatPow(A, n, k) == LET P[i \in 0..k] == IF i = 0 THEN Ident(n) ELSE MatMul(P[i - 1], A, n) IN P[k]
\* axis index 1..6 = +X +Y +Z -X -Y -Z; k quarter turns (any integer)
QuarterTurns(axis, k) == LET a == ((axis - 1) % 3) + 1
                             kk == IF axis <= 3 THEN k % 4 ELSE (-k) % 4
                         IN MatPow(Quarter(a), 3, kk)
\* a third of a turn about (s1, s2, s3)/sqrt 3 carries s1 e1 -> s2 e2 -> s3 e3 -> s1 e1
Third(s) == Mat(3, LAMBDA i, j : IF i = (j % 3) + 1 THEN s[j] * s[i] ELSE 0)
\* ... right-handedly when s1 s2 s3 = 1; a reflected diagonal (s1 s2 s3 = -1) turns the other way round
ThirdTurns(s, k) == MatPow(Third(s), 3, (IF s[1] * s[2] * s[3] = 1 THEN k ELSE -k) % 3)
Quarter2 == <<0, -1, 1, 0>>
QuarterTurns2(k) == MatPow(Quarter2, 2, k % 4)

---------------------------------------------------------------------------
(* de Casteljau at t = k/D: row j holds the j-fold interpolated points scaled by D^j *)
NextRow(row, k, D) == [i \in 1..(Len(row) - 1) |->
                          <<row[i][1] * (D - k) + row[i + 1][1] * k, row[i][2] * (D - k) + row[i + 1][2] * k>>]
RECURSIVE CastRows(_, _, _, _)
CastRows(row, k, D, acc) == IF Len(row) = 1 THEN Append(acc, row)
                            ELSE LET nr == TLCEval(NextRow(row, k, D))       \* evaluate each row once (TLC is lazy)
                                 IN CastRows(nr, k, D, Append(acc, row))
\* Casteljau(P, k, D)[j] for j = 0..n
Casteljau(P, k, D) == LET rows == CastRows(P, k, D, <<>>) IN [j \in 0..(Len(P) - 1) |-> rows[j + 1]]
ScalePt(p, c) == <<p[1] * c, p[2] * c>>
\* the curve point at k/D scaled by D^n
BezierAt(P, k, D) == Casteljau(P, k, D)[Len(P) - 1][1]
\* control points of the two halves of the split at k/D, every point scaled by D^n
SplitLeft(P, k, D) == LET n == Len(P) - 1 T == Casteljau(P, k, D)
                      IN [i \in 1..(n + 1) |-> ScalePt(T[i - 1][1], Pow(D, n - (i - 1)))]
SplitRight(P, k, D) == LET n == Len(P) - 1 T == Casteljau(P, k, D)
                       IN [i \in 1..(n + 1) |-> ScalePt(T[n - (i - 1)][i], Pow(D, i - 1))]
Cross2(a, b) == a[1] * b[2] - a[2] * b[1]
Dot2(a, b) == a[1] * b[1] + a[2] * b[2]
Sub2(a, b) == <<a[1] - b[1], a[2] - b[2]>>
\* the control points lie on one line in order (so the curve is that segment traversed monotonically)
StraightMonotone(P) == LET d == Sub2(P[Len(P)], P[1])
                       IN /\ \A i \in 1..Len(P) : Cross2(Sub2(P[i], P[1]), d) = 0
                          /\ \A i \in 1..(Len(P) - 1) : Dot2(Sub2(P[i + 1], P[i]), d) >= 0
                          /\ (d = <<0, 0>> => \A i \in 1..Len(P) : P[i] = P[1])
StrictMono(P, c) == \/ \A i \in 1..(Len(P) - 1) : P[i][c] < P[i + 1][c]
                    \/ \A i \in 1..(Len(P) - 1) : P[i][c] > P[i + 1][c]
IsSquareOf(d2, L) == L >= 0 /\ L * L = d2

---------------------------------------------------------------------------
(* axis-parallel polylines: moves <<dir, len>>, dir 1..4 = +x +y -x -y, starting at the origin *)
DirVec(d) == CASE d = 1 -> <<1, 0>> [] d = 2 -> <<0, 1>> [] d = 3 -> <<-1, 0>> [] d = 4 -> <<0, -1>>
Vertices(moves) == LET V[i \in 0..Len(moves)] ==
                           IF i = 0 THEN <<0, 0>>
                           ELSE <<V[i - 1][1] + DirVec(moves[i][1])[1] * moves[i][2],
                                  V[i - 1][2] + DirVec(moves[i][1])[2] * moves[i][2]>>
                   IN [i \in 1..(Len(moves) + 1) |-> V[i - 1]]
CumLen(moves) == LET C[i \in 0..Len(moves)] == IF i = 0 THEN 0 ELSE C[i - 1] + moves[i][2] IN C
TotalLen(moves) == CumLen(moves)[Len(moves)]
\* the point at arc length a from the start (0 <= a <= total length)
ArcPoint(moves, a) ==
    LET C == CumLen(moves)
        j == CHOOSE j \in 1..Len(moves) : C[j - 1] <= a /\ a <= C[j]
        v == Vertices(moves)[j]
    IN <<v[1] + DirVec(moves[j][1])[1] * (a - C[j - 1]), v[2] + DirVec(moves[j][1])[2] * (a - C[j - 1])>>
\* strictly inside a segment that is not the last one
InteriorEarly(moves, a) == \E j \in 1..(Len(moves) - 1) : CumLen(moves)[j - 1] < a /\ a < CumLen(moves)[j]
=============================================================================
