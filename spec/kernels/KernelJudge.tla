----------------------------- MODULE KernelJudge -----------------------------
(***************************************************************************)
(* Mode V for C17: what the real numerical and curve kernels returned on    *)
(* the exact inputs of KernelGen, against the defining equations evaluated  *)
(* here in integer arithmetic (KernelMath).  The harness projects floats to *)
(* scaled integers with an "exact" flag (within 1e-6 of an integer) or to   *)
(* decimal error exponents e ("bucket": error <= 10^e, -20 for 0).          *)
(*                                                                          *)
(* fam "poly": [site, coef, roots, quad, lead, outcome, got, exact, near,   *)
(*              after]                                                      *)
(*   input        - coef is lead * prod (x - roots[i]) * Quads[quad], and   *)
(*                  the quadratic has a negative discriminant: the real     *)
(*                  roots of coef are exactly the listed integers           *)
(*   terminates   - no panic, no hang                                       *)
(*   sound        - simple roots only: every reported value is within 1e-6  *)
(*                  of an integer x with coef(x) = 0                        *)
(*   complete     - simple roots only: every real root is reported          *)
(*   multiplicity - simple roots only: no root is reported twice; always:   *)
(*                  no more values than the degree                          *)
(*   near-root    - repeated roots (ill-conditioned): every reported value  *)
(*                  is within 1e-2 of a real root.  Completeness is not     *)
(*                  claimed there (a perturbed double root may vanish)      *)
(*   stops        - IterRealRoots: nothing is reported after the callback   *)
(*                  returned false                                          *)
(* fam "matrix", sub "m": [site, n, M, det, detEx, sdet, hasInv, inv,       *)
(*              invEx, invErr, mciC, mci, mciEx, hasSvd, svdRecon,          *)
(*              svdOrtho, svdDiag, svdSorted, svdNonneg, svdP, svdPEx,      *)
(*              hasEig, eig, eigEx, eigIm, hasChar, char, charEx, panic]    *)
(*   Det:exact            - Det() is the Laplace determinant                *)
(*   Inverse:adjugate     - Inverse() * det is the adjugate, entry by entry *)
(*   Inverse:identity     - |M * Inverse() - I| <= 1e-9                     *)
(*   MulColumnInv:adjugate- MulColumnInv(c, det) * det = adj(M) c           *)
(*   SVD:reconstruct      - |U S V^T - M| <= 1e-9 (4x4: 1e-6; it goes       *)
(*                          through a numerically found quartic root and a  *)
(*                          random basis completion) for a non-singular M   *)
(*                          with                                            *)
(*                          distinct singular values (M^T M has a           *)
(*                          squarefree characteristic polynomial; decided   *)
(*                          here by a gcd modulo small primes)              *)
(*   SVD:reconstruct-degenerate - otherwise                                 *)
(*                          (a zero or repeated singular value is the       *)
(*                          square root of a rounded eigenvalue of M^T M,   *)
(*                          good to 1e-8 only): <= 1e-6 for 2x2 and 3x3,    *)
(*                          <= 1e-3 for 4x4 (the library's own test         *)
(*                          accepts 1e-4 there), U and V orthonormal to the *)
(*                          same tolerance                                  *)
(*   SVD:orthonormal      - |U^T U - I|, |V^T V - I| within the same        *)
(*                          tolerance, under the same condition             *)
(*   SVD:invariants       - given the two clauses above: S diagonal, sum    *)
(*                          s_i^2 = sum M_ij^2 and prod s_i = |det M| (so   *)
(*                          no negative "singular value"; well-conditioned  *)
(*                          only)                                           *)
(*   SVD:sorted           - s1 >= s2 >= ...  (documented, but not part of   *)
(*                          the property: reported, not enforced)           *)
(*   Eigenvalues:charpoly - the elementary symmetric functions of the       *)
(*                          returned eigenvalues are the sums of principal  *)
(*                          minors (i.e. they are the roots of det(xI - M)) *)
(*   CharPoly:exact       - the coefficients of det(xI - M)                 *)
(* sub "rot" / "rot2" / "rotg": [aux = <<axis, k, a1, a2, a3>>, rot, rotEx, *)
(*              rotOrtho, rotDet, rotAxis, rotTrace, rotHand]               *)
(*   exact      - quarter turns about +-X, +-Y, +-Z and third turns about   *)
(*                the cube diagonals are the signed permutation matrices    *)
(*                computed here                                             *)
(*   orthogonal, det - R^T R = I and det R = 1 within 1e-9                  *)
(*   axis, trace, handed - (general angles k pi/12) R a = a, tr R = 1 + 2   *)
(*                cos, and the turn is right-handed                         *)
(* fam "linsolve": [sub, site, A, X, B, outcome, got, exact, resid, tolOK,  *)
(*              hasFwd, fwd, fwdEx]                                         *)
(*   (sub "ls3reg": A, B are the normal system rows^T rows + lam I,         *)
(*    rows^T rhs of LeastSquaresReg3's arguments, re-derived by "input")    *)
(*   input      - B = A X in integers (A symmetric, strictly diagonally     *)
(*                dominant, positive diagonal for Cholesky)                 *)
(*   terminates - no panic / hang.  BiCGSTAB on a non-symmetric system may  *)
(*                break down (inherent to the method): it is run with an    *)
(*                iteration limit and its own "NaN detected" panic is       *)
(*                accepted there                                            *)
(*   solution   - the returned x is within 1e-6 of the integer X (BiCGSTAB  *)
(*                on a non-symmetric system: only if it met its tolerance)  *)
(*   residual   - |A x - B| <= 1e-6 (same condition)                        *)
(*   tolerance  - BiCGSTABSolver on an SPD system: mean |A x - b| below     *)
(*                MAETolerance on return                                    *)
(*   apply      - SparseCholesky.ApplyVec(X) = B                            *)
(* fam "search": [site, dim, lo, hi, stops, rec, iters, q, sense, obj,      *)
(*              cells, vals, retCell, retVal, hasRep, repVal, repEx,        *)
(*              inBounds, outcome]                                          *)
(*   objective   - every logged value is G(obj, cell) (harness sanity)      *)
(*   best-sample - the objective at the returned point is <= (>=) every     *)
(*                 value the optimiser was given                            *)
(*   value       - the reported f(x) is the objective at the returned x     *)
(*   in-bounds   - lo <= x <= hi                                            *)
(* fam "angle": [k, bound, canon, canonEx, inRange, dist]                   *)
(*   CanonicalAngle:range / :congruent, AngleDist:distance:nonneg /         *)
(*   :negative (the latter: some argument negative), in units of pi/12      *)
(* fam "bezier": [n, D, P, ev, pv, s1, s2, sm, tr, ct, ix, yx, iy, len ...] *)
(*   Eval:casteljau, Polynomials:casteljau, Split:casteljau (control points *)
(*   of both halves), Split:re-eval (the halves at 1/2), Transpose:swap,    *)
(*   CurveTranspose:swap, InverseX:inverse / EvalX:value (strictly monotone *)
(*   control x), CurveInverseX:inverse (strictly monotone control y),       *)
(*   Length:straight (control points in order on one line of integer        *)
(*   length: Length(1e-6, 0) is the chord within 1e-6)                      *)
(* fam "polyline": [site, moves, scale, pts, exact]                         *)
(*   arc-point:interior / arc-point:other - SegmentCurve.Eval(a/L) is the   *)
(*   point at arc length a (interior: strictly inside a segment that is not *)
(*   the last); sub-curve - JoinedCurve.Eval(m/(4k)) is the point a         *)
(*   fraction (m mod 4)/4 along sub-curve m div 4 (documented: equal shares *)
(*   of t per sub-curve)                                                    *)
(***************************************************************************)
EXTENDS KernelMath, TLC, Json

Recs == ndJsonDeserialize("records.ndjson")
VARIABLES rec, done
R == Recs[rec]

---------------------------------------------------------------------------
Quads == << <<1>>, <<1, 0, 1>>, <<4, 2, 1>>, <<1, 1, 1>>, <<5, -2, 1>> >>
RealRootSet == {x \in -3..3 : PolyEval(R.coef, x) = 0}
Simple == \A x \in SeqSet(R.roots) : Count(R.roots, x) = 1
PolyOk == R.outcome = "ok"
IsRealRoots == R.site = "numerical.Polynomial.RealRoots"
PolyHolds(c) ==
    CASE c = "input" -> /\ R.coef = PolyScale(PolyMul(LinProd(R.roots), Quads[R.quad]), R.lead)
                        /\ SeqSet(R.roots) = RealRootSet
                        /\ LET q == Quads[R.quad] IN Len(q) = 3 => q[2] * q[2] - 4 * q[1] * q[3] < 0
      [] c = "terminates" -> PolyOk
      [] c = "sound" -> (PolyOk /\ Simple) => (R.exact /\ \A i \in 1..Len(R.got) : R.got[i] \in RealRootSet)
      [] c = "complete" -> (PolyOk /\ Simple) =>
                              IF IsRealRoots THEN RealRootSet \subseteq SeqSet(R.got)
                              ELSE (R.got = <<>>) <=> (RealRootSet = {})
      [] c = "multiplicity" -> PolyOk => /\ Len(R.got) <= Len(R.coef) - 1
                                         /\ Simple => \A i \in 1..Len(R.got) : Count(R.got, R.got[i]) = 1
      [] c = "near-root" -> (PolyOk /\ ~Simple) => (R.near /\ \A i \in 1..Len(R.got) : R.got[i] \in RealRootSet)
      [] c = "stops" -> (PolyOk /\ ~IsRealRoots) => (R.after = 0 /\ Len(R.got) <= 1)
PolyClauses == {"input", "terminates", "sound", "complete", "multiplicity", "near-root", "stops"}

---------------------------------------------------------------------------
(* squarefree test for a monic integer polynomial: gcd(p, p') computed modulo small primes; a trivial   *)
(* gcd modulo ONE prime proves that p has no repeated root over the rationals                            *)
Deriv(p) == [i \in 1..(Len(p) - 1) |-> i * p[i + 1]]
RECURSIVE Trim(_, _)
Trim(a, p) == IF a = <<>> THEN a
              ELSE IF a[Len(a)] % p = 0 THEN Trim(SubSeq(a, 1, Len(a) - 1), p)
              ELSE [i \in 1..Len(a) |-> a[i] % p]
InvMod(x, p) == CHOOSE y \in 1..(p - 1) : (x * y) % p = 1
RECURSIVE RemMod(_, _, _)
RemMod(a, b, p) == IF Len(a) < Len(b) THEN a
                   ELSE LET f == (a[Len(a)] * InvMod(b[Len(b)], p)) % p
                            s == Len(a) - Len(b)
                            a2 == [i \in 1..Len(a) |-> IF i > s THEN (a[i] - f * b[i - s]) % p ELSE a[i]]
                        IN RemMod(Trim(a2, p), b, p)
RECURSIVE GcdMod(_, _, _)
GcdMod(a, b, p) == IF b = <<>> THEN a ELSE GcdMod(b, RemMod(a, b, p), p)
Squarefree(poly) == \E p \in {101, 103, 107, 109} : Len(GcdMod(Trim(poly, p), Trim(Deriv(poly), p), p)) = 1

Rn == R.n
RM == R.M
RD == Det(RM, Rn)
\* well-conditioned for the SVD (which goes through the eigenvalues of M^T M, so a zero singular value is only
\* accurate to sqrt(machine epsilon), and so is the split of a repeated one): non-singular with distinct singular values
WellCond == RD # 0 /\ Squarefree(CharPoly(MatMul(MatT(RM, Rn), RM, Rn), Rn))
\* 4x4: the decomposition goes through a numerically found root of a quartic and a randomly completed basis; two
\* close singular values already cost several digits (the library's own test asks for 1e-8 on a generic matrix)
TolWell == IF Rn <= 3 THEN -9 ELSE -6
MatHolds(c) ==
    CASE c = "panic" -> R.panic = ""
      [] c = "Det:exact" -> R.panic = "" => (R.detEx /\ R.det = RD)
      [] c = "Inverse:adjugate" -> (R.panic = "" /\ RD # 0 /\ Rn <= 3) =>
                                      (R.hasInv /\ R.sdet = RD /\ R.invEx /\ R.inv = Adj(RM, Rn))
      [] c = "Inverse:identity" -> (R.panic = "" /\ R.hasInv) => R.invErr <= -9
      [] c = "MulColumnInv:adjugate" -> (R.panic = "" /\ R.hasInv) =>
                                           (R.sdet = RD /\ R.mciEx /\ R.mci = MatVec(Adj(RM, Rn), Rn, R.mciC))
      [] c = "SVD:reconstruct" -> (R.panic = "" /\ R.hasSvd /\ WellCond) => R.svdRecon <= TolWell
      [] c = "SVD:reconstruct-degenerate" -> (R.panic = "" /\ R.hasSvd /\ ~WellCond) =>
                                                LET tol == IF Rn <= 3 THEN -6 ELSE -3 IN R.svdRecon <= tol /\ R.svdOrtho <= tol
      \* the same matrix in other units (entries times 2^-30, 2^-24, 2^20): reconstruction relative to the unit, and
      \* orthonormal factors
      [] c = "SVD:scale-free" -> (R.panic = "" /\ R.hasSvd /\ WellCond) => R.svdScaled <= TolWell
      [] c = "SVD:orthonormal" -> (R.panic = "" /\ R.hasSvd /\ WellCond) => R.svdOrtho <= TolWell
      [] c = "SVD:invariants" -> (R.panic = "" /\ R.hasSvd /\ WellCond /\ R.svdRecon <= -9 /\ R.svdOrtho <= -9) =>
                                    (R.svdDiag <= -9 /\ R.svdPEx /\ R.svdP = <<Frob2(RM), Abs(RD)>>)
      [] c = "SVD:sorted" -> (R.panic = "" /\ R.hasSvd /\ WellCond) => R.svdSorted
      [] c = "Eigenvalues:charpoly" -> (R.panic = "" /\ R.hasEig) =>
                                          (R.eigEx /\ R.eigIm <= -6 /\ R.eig = [k \in 1..Rn |-> ESym(RM, Rn, k)])
      [] c = "CharPoly:exact" -> (R.panic = "" /\ R.hasChar) => (R.charEx /\ R.char = CharPoly(RM, Rn))
MatClauses == {"panic", "Det:exact", "Inverse:adjugate", "Inverse:identity", "MulColumnInv:adjugate", "SVD:reconstruct",
               "SVD:reconstruct-degenerate",
               "SVD:scale-free", "SVD:orthonormal", "SVD:invariants", "SVD:sorted", "Eigenvalues:charpoly", "CharPoly:exact"}

RotExpected == CASE R.sub = "rot2" -> QuarterTurns2(R.aux[2])
                 [] R.sub = "rot" /\ R.aux[1] <= 6 -> QuarterTurns(R.aux[1], R.aux[2])
                 [] R.sub = "rot" /\ R.aux[1] = 7 -> ThirdTurns(<<R.aux[3], R.aux[4], R.aux[5]>>, R.aux[2])
RotHolds(c) ==
    CASE c = "panic" -> R.panic = ""
      [] c = "exact" -> (R.panic = "" /\ R.sub # "rotg") => (R.rotEx /\ R.rot = RotExpected)
      [] c = "orthogonal" -> R.panic = "" => R.rotOrtho <= -9
      [] c = "det" -> R.panic = "" => R.rotDet <= -9
      [] c = "axis" -> (R.panic = "" /\ R.n = 3) => R.rotAxis <= -9
      [] c = "trace" -> (R.panic = "" /\ R.n = 3) => R.rotTrace <= -9
      [] c = "handed" -> (R.panic = "" /\ R.n = 3) => R.rotHand
RotClauses == {"panic", "exact", "orthogonal", "det", "axis", "trace", "handed"}

---------------------------------------------------------------------------
MulRows(A, X) == [i \in 1..Len(A) |-> [c \in 1..Len(X[1]) |-> Sum([k \in 1..Len(X) |-> A[i][k] * X[k][c]])]]
LinOk == R.outcome = "ok"
\* the normal matrix of ridge regression: rows^T rows + lam I
Ridge(rows, lam) == [i \in 1..3 |-> [j \in 1..3 |-> Sum([k \in 1..Len(rows) |-> rows[k][i] * rows[k][j]]) + (IF i = j THEN lam ELSE 0)]]
\* symmetric and strictly diagonally dominant with a positive diagonal: positive definite, so neither Cholesky
\* nor BiCGSTAB (which is then conjugate gradients in disguise) can break down
Spd(A) == /\ \A i, j \in 1..Len(A) : A[i][j] = A[j][i]
          /\ \A i \in 1..Len(A) : A[i][i] > Sum([j \in 1..Len(A) |-> IF j = i THEN 0 ELSE Abs(A[i][j])])
IsBicg == R.sub = "bicg"
\* a non-symmetric system is run with an iteration limit; only an answer that claims convergence is judged
Claimed == LinOk /\ (IsBicg => (Spd(R.A) \/ R.tolOK))
LinHolds(c) ==
    CASE c = "input" -> /\ MulRows(R.A, R.X) = R.B
                        /\ R.sub = "chol" => Spd(R.A)
                        /\ R.sub = "ls3reg" => /\ R.A = Ridge(R.rows, R.lam)
                                               /\ R.B = [i \in 1..3 |-> <<Sum([k \in 1..Len(R.rows) |-> R.rows[k][i] * R.rhs[k][1]])>>]
                        /\ IsBicg => (R.maxIt = 0 <=> \A i, j \in 1..Len(R.A) : R.A[i][j] = R.A[j][i])
      [] c = "terminates" -> IF IsBicg /\ ~Spd(R.A) THEN LinOk \/ (R.outcome = "panic" /\ R.panic = "NaN detected during solving")
                             ELSE LinOk
      [] c = "solution" -> Claimed => (R.exact /\ R.got = R.X)
      [] c = "residual" -> Claimed => R.resid <= -6
      [] c = "tolerance" -> (LinOk /\ IsBicg /\ Spd(R.A)) => R.tolOK
      [] c = "apply" -> (LinOk /\ R.sub = "chol") => (R.hasFwd /\ R.fwdEx /\ R.fwd = R.B)
LinClauses == {"input", "terminates", "solution", "residual", "tolerance", "apply"}

---------------------------------------------------------------------------
L1(z, c) == Sum([i \in 1..Len(z) |-> Abs(z[i] - c[i])])
G(o, z) == CASE o.type = "abs" -> L1(z, o.c)
             [] o.type = "negabs" -> -L1(z, o.c)
             [] o.type = "sq" -> Sum([i \in 1..Len(z) |-> (z[i] - o.c[i]) * (z[i] - o.c[i])])
             [] o.type = "step" -> Cardinality({i \in 1..Len(z) : z[i] >= o.c[i]})
             [] o.type = "two" -> Min2(L1(z, o.c), L1(z, o.c2) + 1)
SearchOk == R.outcome = "ok"
Better(a, b) == IF R.sense = "min" THEN a <= b ELSE a >= b
SearchHolds(c) ==
    CASE c = "terminates" -> SearchOk
      [] c = "objective" -> SearchOk => /\ Len(R.vals) = Len(R.cells) /\ Len(R.vals) > 0
                                        /\ \A i \in 1..Len(R.vals) : R.vals[i] = G(R.obj, R.cells[i])
                                        /\ R.retVal = G(R.obj, R.retCell)
      [] c = "best-sample" -> SearchOk => \A i \in 1..Len(R.vals) : Better(G(R.obj, R.retCell), R.vals[i])
      [] c = "value" -> (SearchOk /\ R.hasRep) => (R.repEx /\ R.repVal = G(R.obj, R.retCell))
      [] c = "in-bounds" -> SearchOk => R.inBounds
SearchClauses == {"terminates", "objective", "best-sample", "value", "in-bounds"}

---------------------------------------------------------------------------
CircDist(d) == LET m == Abs(d) % 24 IN Min2(m, 24 - m)
DistAt(j) == R.dist[j + R.bound + 1]
AngleHolds(c) ==
    CASE c = "panic" -> R.panic = ""
      [] c = "CanonicalAngle:range" -> R.panic = "" => R.inRange
      [] c = "CanonicalAngle:congruent" -> R.panic = "" => (R.canonEx /\ R.canon \in 0..24 /\ (R.canon - R.k) % 24 = 0)
      [] c = "AngleDist:distance:nonneg" -> (R.panic = "" /\ R.k >= 0) => \A j \in 0..R.bound : DistAt(j) = CircDist(R.k - j)
      [] c = "AngleDist:distance:negative" ->
            R.panic = "" => \A j \in (-R.bound)..R.bound : (R.k < 0 \/ j < 0) => DistAt(j) = CircDist(R.k - j)
AngleClauses == {"panic", "CanonicalAngle:range", "CanonicalAngle:congruent", "AngleDist:distance:nonneg",
                 "AngleDist:distance:negative"}

---------------------------------------------------------------------------
Swap(p) == <<p[2], p[1]>>
BOk == R.panic = ""
Ks == 0..R.D
BezHolds(c) ==
    CASE c = "panic" -> BOk
      [] c = "Eval:casteljau" -> BOk => (R.evEx /\ \A k \in Ks : R.ev[k + 1] = BezierAt(R.P, k, R.D))
      [] c = "Polynomials:casteljau" -> BOk => (R.pvEx /\ \A k \in Ks : R.pv[k + 1] = BezierAt(R.P, k, R.D))
      [] c = "Split:casteljau" -> BOk => (R.sEx /\ \A k \in Ks : /\ R.s1[k + 1] = SplitLeft(R.P, k, R.D)
                                                                  /\ R.s2[k + 1] = SplitRight(R.P, k, R.D))
      [] c = "Split:re-eval" -> (BOk /\ R.hasSm) =>
            (R.smEx /\ \A k \in Ks : LET a == BezierAt(R.P, k, 2 * R.D) b == BezierAt(R.P, k + R.D, 2 * R.D)
                                     IN R.sm[k + 1] = <<a[1], a[2], b[1], b[2]>>)
      [] c = "Transpose:swap" -> BOk => (R.trEx /\ \A k \in Ks : R.tr[k + 1] = Swap(BezierAt(R.P, k, R.D)))
      [] c = "CurveTranspose:swap" -> BOk => (R.ctEx /\ \A k \in Ks : R.ct[k + 1] = Swap(BezierAt(R.P, k, R.D)))
      [] c = "InverseX:inverse" -> (BOk /\ StrictMono(R.P, 1)) => (R.monoX /\ R.ixEx /\ \A k \in Ks : R.ix[k + 1] = k)
      [] c = "EvalX:value" -> (BOk /\ StrictMono(R.P, 1)) =>
                                 (R.monoX /\ R.yxEx /\ \A k \in Ks : R.yx[k + 1] = BezierAt(R.P, k, R.D)[2])
      [] c = "CurveInverseX:inverse" -> (BOk /\ StrictMono(R.P, 2)) => (R.monoY /\ R.iyEx /\ \A k \in Ks : R.iy[k + 1] = k)
      [] c = "Length:straight" -> (BOk /\ StraightMonotone(R.P)) =>
                                     LET d == Sub2(R.P[Len(R.P)], R.P[1])
                                         d2 == Dot2(d, d)
                                     IN (\E L \in 0..2000 : L * L = d2) => (R.lenEx /\ IsSquareOf(d2, R.len))
      \* "approximates the arclength of the curve within the given margin of error" (1e-6 here): the polyline
      \* through 16384 exact samples is shorter than the curve by less than 1e-6 for these small control polygons,
      \* and arc length is additive under Split
      [] c = "Length:arc" -> BOk => R.lenArc <= -5
      [] c = "Length:additive" -> BOk => R.lenAdd <= -5
BezClauses == {"panic", "Length:arc", "Length:additive", "Eval:casteljau", "Polynomials:casteljau", "Split:casteljau", "Split:re-eval", "Transpose:swap",
               "CurveTranspose:swap", "InverseX:inverse", "EvalX:value", "CurveInverseX:inverse", "Length:straight"}

---------------------------------------------------------------------------
LOk == R.panic = ""
IsJoined == R.site = "model2d.JoinedCurve"
TL == TotalLen(R.moves)
JoinedPoint(m) == LET k == Len(R.moves)
                      j == Min2(m \div 4, k - 1)
                      f == m - 4 * j
                      V == Vertices(R.moves)
                  IN <<V[j + 1][1] * (4 - f) + V[j + 2][1] * f, V[j + 1][2] * (4 - f) + V[j + 2][2] * f>>
LineHolds(c) ==
    CASE c = "panic" -> LOk
      [] c = "arc-point:interior" -> (LOk /\ ~IsJoined) =>
            (R.exact /\ Len(R.pts) = TL + 1 /\ \A a \in 0..TL : InteriorEarly(R.moves, a) => R.pts[a + 1] = ArcPoint(R.moves, a))
      [] c = "arc-point:other" -> (LOk /\ ~IsJoined) =>
            (Len(R.pts) = TL + 1 /\ \A a \in 0..TL : ~InteriorEarly(R.moves, a) => R.pts[a + 1] = ArcPoint(R.moves, a))
      [] c = "sub-curve" -> (LOk /\ IsJoined) =>
            (R.exact /\ Len(R.pts) = 4 * Len(R.moves) + 1 /\ \A m \in 0..(4 * Len(R.moves)) : R.pts[m + 1] = JoinedPoint(m))
LineClauses == {"panic", "arc-point:interior", "arc-point:other", "sub-curve"}

---------------------------------------------------------------------------
Fails == CASE R.fam = "poly" -> {c \in PolyClauses : ~PolyHolds(c)}
           [] R.fam = "matrix" /\ R.sub = "m" -> {c \in MatClauses : ~MatHolds(c)}
           [] R.fam = "matrix" /\ R.sub # "m" -> {c \in RotClauses : ~RotHolds(c)}
           [] R.fam = "linsolve" -> {c \in LinClauses : ~LinHolds(c)}
           [] R.fam = "search" -> {c \in SearchClauses : ~SearchHolds(c)}
           [] R.fam = "angle" -> {c \in AngleClauses : ~AngleHolds(c)}
           [] R.fam = "bezier" -> {c \in BezClauses : ~BezHolds(c)}
           [] R.fam = "polyline" -> {c \in LineClauses : ~LineHolds(c)}
Init == rec \in 1..Len(Recs) /\ done = FALSE
Next == /\ ~done /\ done' = TRUE /\ UNCHANGED rec
        /\ \A c \in Fails : PrintT(<<"REJECT", R.id, 0, c>>)
Spec == Init /\ [][Next]_<<rec, done>>
=============================================================================
