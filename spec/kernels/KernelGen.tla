------------------------------ MODULE KernelGen ------------------------------
(***************************************************************************)
(* Mode R for C17: small EXACT inputs for the numerical and curve kernels.  *)
(* Kind selects the family; Size is the main bound of the family, Level     *)
(* (1 = quick, 2 = thorough) widens the palettes, Seed varies the           *)
(* right-hand sides / control polygons that are not enumerated.             *)
(*                                                                          *)
(*  "poly"     lead * prod (x - r) * quad: r in -3..3 (0..Size factors,     *)
(*             repetition allowed), quad one of 1, x^2+1, x^2+2x+4,         *)
(*             x^2+x+1, x^2-2x+5, lead in {1,-2,3}; coefficients are        *)
(*             multiplied out here                                          *)
(*  "matrix"   sub "m": all 2x2 over -E..E; 3x3 diagonal orderings, signed  *)
(*             permutations, symmetric palette, shears and products of two  *)
(*             shears; a 4x4 palette.  sub "rot": quarter turns about the   *)
(*             six axis directions and third turns about the eight cube     *)
(*             diagonals; sub "rot2": plane quarter turns; sub "rotg":      *)
(*             multiples of pi/12 about a palette of axes                   *)
(*  "linsolve" sub "ls3": consistent overdetermined A x = b with A of full  *)
(*             column rank; "chol"/"bicg": weighted graph Laplacians plus a *)
(*             diagonal shift (strictly diagonally dominant, so SPD when    *)
(*             symmetric) with integer solutions; b = A x is computed here  *)
(*  "search"   integer-valued piecewise-constant objectives g(floor(q x))   *)
(*             for every optimiser, stop count, recursion depth and centre  *)
(*  "angle"    k for the angle k*pi/12, -Size..Size                         *)
(*  "bezier"   control polygons for degrees 1..Size, parameter grid k/D     *)
(*  "polyline" axis-parallel integer polylines with <= Size segments        *)
(*             (some of length 0: a repeated vertex)                        *)
(***************************************************************************)
EXTENDS KernelMath, TLC, Json
CONSTANTS Kind, Size, Level, Seed

---------------------------------------------------------------------------
NonDec(s) == \A i \in 1..(Len(s) - 1) : s[i] <= s[i + 1]
RootSeqs(z) == UNION {{s \in [1..k -> -3..3] : NonDec(s)} : k \in 0..z}
Quads == << <<1>>, <<1, 0, 1>>, <<4, 2, 1>>, <<1, 1, 1>>, <<5, -2, 1>> >>
PolyCases(z) == {[roots |-> rs, quad |-> q, lead |-> l,
               coef |-> PolyScale(PolyMul(LinProd(rs), Quads[q]), l)] :
                  rs \in RootSeqs(z), q \in 1..5, l \in {1, -2, 3}}

---------------------------------------------------------------------------
E2 == IF Level = 1 THEN 2 ELSE 3
M2(z) == [1..4 -> (-E2)..E2]
Diag(n, d) == Mat(n, LAMBDA i, j : IF i = j THEN d[i] ELSE 0)
Perms(n) == {p \in [1..n -> 1..n] : \A i, j \in 1..n : i # j => p[i] # p[j]}
DiagVals == {1, 2, 3, -2}
Diag3(z) == {Diag(3, d) : d \in {d \in [1..3 -> DiagVals] : d[1] # d[2] /\ d[1] # d[3] /\ d[2] # d[3]}}
SPerm(n) == {Mat(n, LAMBDA i, j : IF p[i] = j THEN s[i] ELSE 0) : p \in Perms(n), s \in [1..n -> {-1, 1}]}
SymD == IF Level = 1 THEN {0, 1, 2} ELSE {-1, 0, 1, 2}
SymO == IF Level = 1 THEN {-1, 0, 1} ELSE {-1, 0, 1, 2}
Sym3(z) == {<<a, d, e, d, b, f, e, f, c>> : a \in SymD, b \in SymD, c \in SymD, d \in SymO, e \in SymO, f \in SymO}
ShearK == IF Level = 1 THEN {-1, 1, 2} ELSE {-2, -1, 1, 2, 3}
Shear(n) == {Mat(n, LAMBDA i, j : IF i = j THEN 1 ELSE IF i = p /\ j = q THEN k ELSE 0) :
                p \in 1..n, q \in 1..n, k \in ShearK}
Shear3(z) == {S \in Shear(3) : Det(S, 3) = 1}
Shear3x2(z) == {MatMul(A, B, 3) : A \in Shear3(z), B \in Shear3(z)}
M3(z) == Diag3(z) \cup SPerm(3) \cup Sym3(z) \cup Shear3(z) \cup Shear3x2(z)
\* 4x4: diagonal orderings, signed permutations (even sign patterns only at level 1), shears,
\* block-diagonal pairs of 2x2 blocks, a symmetric family
Block(A, B) == <<A[1], A[2], 0, 0, A[3], A[4], 0, 0, 0, 0, B[1], B[2], 0, 0, B[3], B[4]>>
Blocks2 == {<<1, 1, 0, 1>>, <<2, 1, 1, 1>>, <<0, -1, 1, 0>>, <<1, 2, 2, 1>>, <<1, 2, 3, 4>>, <<2, 0, 0, -1>>}
Diag4(z) == {Diag(4, d) : d \in {d \in [1..4 -> {1, 2, 3, 4}] : \A i, j \in 1..4 : i # j => d[i] # d[j]}}
SPerm4(z) == {Mat(4, LAMBDA i, j : IF p[i] = j THEN s[i] ELSE 0) :
              p \in Perms(4), s \in IF Level = 1 THEN {<<1, 1, 1, 1>>, <<1, -1, 1, -1>>} ELSE [1..4 -> {-1, 1}]}
Shear4(z) == {S \in Shear(4) : Det(S, 4) = 1}
Sym4(z) == {<<2, a, 0, b, a, 3, c, 0, 0, c, 4, a, b, 0, a, 5>> : a \in {-1, 0, 1}, b \in {-1, 0, 1}, c \in {-1, 0, 1}}
M4(z) == Diag4(z) \cup SPerm4(z) \cup Shear4(z) \cup {Block(A, B) : A \in Blocks2, B \in Blocks2} \cup Sym4(z)
Aux0 == <<0, 0, 0, 0, 0>>
Cube == {<<a, b, c>> : a \in {-1, 1}, b \in {-1, 1}, c \in {-1, 1}}
\* general axes (not normalised here; the harness normalises): index into AxisPalette
AxisPalette == << <<1, 0, 0>>, <<0, 1, 0>>, <<0, 0, 1>>, <<1, 1, 0>>, <<1, 2, 2>>, <<-2, 3, 6>>, <<1, -1, 1>>, <<0, -3, 4>> >>
MatrixCases(z) ==
    {[sub |-> "m", n |-> 2, M |-> m, aux |-> Aux0] : m \in M2(z)}
    \cup {[sub |-> "m", n |-> 3, M |-> m, aux |-> Aux0] : m \in M3(z)}
    \cup {[sub |-> "m", n |-> 4, M |-> m, aux |-> Aux0] : m \in M4(z)}
    \cup {[sub |-> "rot", n |-> 3, M |-> QuarterTurns(a, k), aux |-> <<a, k, 0, 0, 0>>] : a \in 1..6, k \in -5..9}
    \cup {[sub |-> "rot", n |-> 3, M |-> ThirdTurns(s, k), aux |-> <<7, k, s[1], s[2], s[3]>>] : s \in Cube, k \in -4..7}
    \cup {[sub |-> "rot2", n |-> 2, M |-> QuarterTurns2(k), aux |-> <<0, k, 0, 0, 0>>] : k \in -5..9}
    \cup {[sub |-> "rotg", n |-> 3, M |-> Ident(3), aux |-> <<a, k, AxisPalette[a][1], AxisPalette[a][2], AxisPalette[a][3]>>] :
             a \in 1..Len(AxisPalette), k \in -24..24}

---------------------------------------------------------------------------
RowPal == << <<1, 0, 0>>, <<0, 1, 0>>, <<0, 0, 1>>, <<1, 1, 0>>, <<0, 1, 1>>, <<1, 0, -1>>, <<1, 1, 1>>, <<2, -1, 0>>,
             <<1, 2, 3>>, <<-1, 1, 2>> >>
FullRank3(rows) == \E i, j, k \in 1..Len(rows) : i < j /\ j < k /\
                       Det(<<rows[i][1], rows[i][2], rows[i][3], rows[j][1], rows[j][2], rows[j][3],
                             rows[k][1], rows[k][2], rows[k][3]>>, 3) # 0
RowSets(z) == UNION {{[i \in 1..m |-> RowPal[s[i]]] : s \in IncSeqs(Len(RowPal), m)} : m \in 3..z}
\* seeded integer solution vectors
XPat(p, i, c) == CASE p = 1 -> ((i * (Seed + 2) + c * 3 + i * i) % 7) - 3
                   [] p = 2 -> 1
                   [] p = 3 -> ((i * 3 + c + Seed) % 5) - 2
XMat(p, n, d) == [i \in 1..n |-> [c \in 1..d |-> XPat(p, i, c)]]
\* B = A X for A an m x n sequence of rows and X an n x d sequence of rows
MulRows(A, X) == [i \in 1..Len(A) |-> [c \in 1..Len(X[1]) |-> Sum([k \in 1..Len(X) |-> A[i][k] * X[k][c]])]]
LsCases(z) == {[sub |-> "ls3", n |-> 3, A |-> A, X |-> XMat(p, 3, 1), B |-> MulRows(A, XMat(p, 3, 1)), d |-> 1] :
               A \in {A \in RowSets(z) : FullRank3(A)}, p \in 1..3}
\* graphs on 1..n
Edge(g, n, i, j) == LET a == Min2(i, j) b == Max2(i, j)
                    IN a # b /\ CASE g = "path" -> b = a + 1
                                  [] g = "cycle" -> b = a + 1 \/ (a = 1 /\ b = n /\ n >= 3)
                                  [] g = "star" -> a = 1
                                  [] g = "complete" -> TRUE
                                  [] g = "grid" -> (b = a + 1 /\ a % 2 = 1) \/ b = a + 2     \* a 2-wide ladder
                                  [] g = "none" -> FALSE
Graphs == {"path", "cycle", "star", "complete", "grid", "none"}
\* upper entries wu, lower entries wl, diagonal = sum of |off-diagonal| of the row + shift
GraphMat(g, n, wu, wl, shift) ==
    LET off(i, j) == IF Edge(g, n, i, j) THEN (IF i < j THEN wu ELSE wl) ELSE 0
    IN [i \in 1..n |-> [j \in 1..n |-> IF i = j THEN shift + Sum([k \in 1..n |-> IF k = i THEN 0 ELSE Abs(off(i, k))])
                                                 ELSE off(i, j)]]
SpdMats(z) == {GraphMat(g, n, w, w, s) : g \in Graphs, n \in 1..z, w \in {-1, 1, 2}, s \in {1, 2}}
NonSymMats(z) == {GraphMat(g, n, wu, wl, s) : g \in Graphs, n \in 2..z, wu \in {-1, 2}, wl \in {0, 1}, s \in {1, 3}}
CholCases(z) == {[sub |-> "chol", n |-> Len(A), A |-> A, X |-> XMat(p, Len(A), d), B |-> MulRows(A, XMat(p, Len(A), d)), d |-> d] :
                 A \in SpdMats(z), p \in 1..2, d \in 2..3}
BicgCases(z) == {[sub |-> "bicg", n |-> Len(A), A |-> A, X |-> XMat(p, Len(A), 1), B |-> MulRows(A, XMat(p, Len(A), 1)), d |-> 1] :
                 A \in SpdMats(z) \cup NonSymMats(z), p \in {1, 3}}
\* a zero right-hand side (x = 0 is the exact solution and the initial guess) is a valid system like any other
ZeroRhs(z) == {[sub |-> "bicg", n |-> Len(A), A |-> A, X |-> [i \in 1..Len(A) |-> <<0>>], B |-> [i \in 1..Len(A) |-> <<0>>], d |-> 1] :
               A \in SpdMats(z)}
\* scaled identities: the first half step is already exact (the solver's exact-convergence exit), and the
\* solver is then asked for further iterations (iteration limit only, no tolerance)
BicgItCases(z) == {[sub |-> "bicgit", n |-> n, A |-> GraphMat("none", n, 1, 1, s), X |-> XMat(p, n, 1),
                    B |-> MulRows(GraphMat("none", n, 1, 1, s), XMat(p, n, 1)), d |-> 1] :
                   n \in 1..z, s \in {1, 2, 4}, p \in {1, 2, 3}}
LinsolveCases(z) == LsCases(z) \cup CholCases(z) \cup BicgCases(z) \cup BicgItCases(z) \cup ZeroRhs(z)

---------------------------------------------------------------------------
\* objectives: value of the cell vector z; see KernelJudge.G
ObjTypes == {"abs", "sq", "step", "two", "negabs"}
Dom1 == {<<0, 12>>, <<-5, 8>>}
Centres(lo, hi, q) == {c \in (lo * q)..(hi * q - 1) : (c - lo * q) % (IF Level = 1 THEN 3 ELSE 1) = 0}
Obj(t, c, c2) == [type |-> t, c |-> c, c2 |-> c2]
Search1(method, stopsSet, recSet, iterSet, senses, types) ==
    UNION {{[method |-> method, dim |-> 1, lo |-> <<d[1]>>, hi |-> <<d[2]>>, stops |-> <<st>>, rec |-> r, iters |-> it,
             q |-> q, sense |-> s, obj |-> Obj(t, <<c>>, <<d[2] * q - 1 - ((c - d[1] * q) \div 2)>>)] :
               st \in stopsSet, r \in recSet, it \in iterSet, s \in senses, t \in types, c \in Centres(d[1], d[2], q)} :
           d \in Dom1, q \in {1, 4}}
CentresN(z) == IF Level = 1 THEN {<<0, 0, 0>>, <<3, 1, 2>>, <<5, 5, 5>>, <<2, 4, 0>>}
            ELSE {<<a, b, c>> : a \in {0, 2, 3, 5}, b \in {0, 1, 4, 5}, c \in {0, 2, 5}}
Take(s, n) == [i \in 1..n |-> s[i]]
SearchN(method, dim, stopsSet, recSet) ==
    {[method |-> method, dim |-> dim, lo |-> Take(<<0, 0, 0>>, dim), hi |-> Take(<<6, 6, 6>>, dim), stops |-> Take(st, dim),
      rec |-> r, iters |-> 0, q |-> 1, sense |-> s, obj |-> Obj(t, Take(c, dim), Take(<<5 - c[1], 5 - c[2], 5 - c[3]>>, dim))] :
        st \in stopsSet, r \in recSet, s \in {"min", "max"}, t \in ObjTypes, c \in CentresN(0)}
SearchCases(z) ==
    Search1("numerical.GSS", {0}, {0}, {0, 8, 20}, {"min"}, {"abs", "sq"})
    \cup Search1("numerical.LineSearch", {3, 4, 8}, {0, 1, 2}, {0}, {"min", "max"}, ObjTypes)
    \cup Search1("toolbox3d.LineSearch", {4, 5}, {0, 1}, {0}, {"min", "max"}, ObjTypes)
    \cup SearchN("numerical.RecursiveLineSearch2", 2, {<<3, 3, 3>>, <<4, 4, 4>>}, {0, 1})
    \cup SearchN("numerical.RecursiveLineSearch3", 3, {<<3, 3, 3>>}, {0, 1})
    \cup SearchN("toolbox3d.LineSearch3D", 3, {<<4, 4, 4>>}, {0})
    \cup SearchN("numerical.GridSearch2D", 2, {<<3, 3, 3>>, <<4, 5, 4>>, <<6, 6, 6>>}, {0, 1, 2})
    \cup SearchN("toolbox3d.GridSearch2D", 2, {<<3, 4, 3>>}, {0, 1})
    \cup SearchN("numerical.GridSearch3D", 3, {<<3, 3, 3>>, <<4, 3, 2>>, <<4, 4, 4>>, <<2, 2, 2>>}, {0, 1, 2})
    \cup SearchN("toolbox3d.GridSearch3D", 3, {<<3, 2, 3>>}, {0, 1})

---------------------------------------------------------------------------
AngleCases(z) == {[k |-> k, bound |-> z] : k \in (-z)..z}

---------------------------------------------------------------------------
Corners == << <<0, 0>>, <<4, 0>>, <<4, 4>>, <<0, 4>> >>
Tri(i) == (i * (i + 1)) \div 2
CtrlPt(p, i, n) == CASE p = 1 -> <<2 * i, 0>>
                     [] p = 2 -> <<3 * Tri(i), 4 * Tri(i)>>
                     [] p = 3 -> <<i, (i * i) % 5>>
                     [] p = 4 -> <<n - i, ((i * 3) % 4) - 1>>
                     [] p = 5 -> <<(i % 2) * 3, i>>
                     [] p = 6 -> <<((i * 7 + Seed * 3) % 9) - 4, ((i * 5 + Seed) % 7) - 3>>
                     [] p = 7 -> Corners[(i % 4) + 1]
                     [] p = 8 -> <<0, i * i>>
                     [] p = 9 -> <<2, 3>>
                     [] p = 10 -> <<-4 * i, 3 * i>>
                     [] p = 11 -> <<((i * i * 3 + Seed) % 11) - 5, ((i * 4 + Seed * 5) % 9) - 4>>
                     \* closed curves: the last control point is the first one, bit for bit
                     [] p = 12 -> IF i = 0 \/ i = n THEN <<0, 0>> ELSE <<3 * i, ((i * i) % 5) + 1>>
                     [] p = 13 -> IF i = 0 \/ i = n THEN <<2, -1>> ELSE <<((i * 5 + Seed) % 7) - 3, 4 - i>>
BezierCases(z) == {[n |-> n, pat |-> p, D |-> IF n <= 7 THEN 4 ELSE 2, P |-> [i \in 1..(n + 1) |-> CtrlPt(p, i - 1, n)]] :
                   n \in 1..z, p \in 1..13}

---------------------------------------------------------------------------
MaxStep == IF Level = 1 THEN 3 ELSE 4
\* a move of length 0 (written with direction 1) repeats a vertex: a zero-length segment inside the polyline
Steps == ((1..4) \X (1..MaxStep)) \cup {<<1, 0>>}
Moves(z) == {m \in UNION {[1..k -> Steps] : k \in 1..z} :
             /\ m[1][2] > 0 /\ m[Len(m)][2] > 0
             \* no immediate reversal (looking through repeated vertices)
             /\ \A i, j \in 1..Len(m) :
                   (i < j /\ m[i][2] > 0 /\ m[j][2] > 0 /\ \A k \in (i + 1)..(j - 1) : m[k][2] = 0)
                      => Abs(m[i][1] - m[j][1]) # 2}
PolylineCases(z) == {[moves |-> m] : m \in Moves(z)}

---------------------------------------------------------------------------
Cases == CASE Kind = "poly" -> PolyCases(Size)
           [] Kind = "matrix" -> MatrixCases(Size)
           [] Kind = "linsolve" -> LinsolveCases(Size)
           [] Kind = "search" -> SearchCases(Size)
           [] Kind = "angle" -> AngleCases(Size)
           [] Kind = "bezier" -> BezierCases(Size)
           [] Kind = "polyline" -> PolylineCases(Size)
VARIABLES c, done
Init == c \in Cases /\ done = FALSE
Next == ~done /\ done' = TRUE /\ UNCHANGED c /\ PrintT(<<"CASE", ToJson(c)>>)
Spec == Init /\ [][Next]_<<c, done>>
=============================================================================
