------------------------------ MODULE Squeeze ------------------------------
(***************************************************************************)
(* Exact semantics of the piecewise axis maps of toolbox3d/squeeze.go       *)
(* (C05: "axis squeeze/pinch, and arbitrary compositions").  All            *)
(* coordinates are integers in units of 1/U; interval ends are whole units. *)
(*                                                                         *)
(*  Sq(mn, mx, rn, rd, p)    AxisSqueeze{Min, Max, Ratio = rn/rd}.Apply      *)
(*  Pinch2(c, h, p)          AxisPinch{c-h, c+h, Power 2}.Apply              *)
(*  Smart(cs, p)             SmartSqueeze.Transform(bounds).Apply: the       *)
(*      documented meaning - every part of [lo, hi] that is neither inside  *)
(*      an unsqueezable range nor inside a pinch zone shrinks by the ratio, *)
(*      everything else keeps its length, pinch zones are pinched in place. *)
(*      With M(p) = length of the squeezable set below p:                   *)
(*          Smart(p) = PinchAll(p) - (1 - r) * M(p)                         *)
(* The definition does not mention the order in which the code walks the    *)
(* ranges or composes its elementary squeezes.                              *)
(***************************************************************************)
EXTENDS Integers, Sequences, FiniteSets

U == 64

Sq(mn, mx, rn, rd, p) ==
    IF p < mn THEN p
    ELSE IF p > mx THEN p - ((mx - mn) * (rd - rn)) \div rd
    ELSE mn + ((p - mn) * rn) \div rd
SqExact(mn, mx, rn, rd, p) ==
    IF p < mn THEN TRUE
    ELSE IF p > mx THEN ((mx - mn) * (rd - rn)) % rd = 0
    ELSE ((p - mn) * rn) % rd = 0

\* the inverse squeeze as the code constructs it
SqInv(mn, mx, rn, rd, p) == Sq(mn, mn + ((mx - mn) * rn) \div rd, rd, rn, p)

\* pinch with power 2 about centre c (units 1/U) with half width h (units 1/U)
Pinch2(c, h, p) ==
    IF p < c - h \/ p > c + h THEN p
    ELSE IF p >= c THEN c + ((p - c) * (p - c)) \div h
    ELSE c - ((c - p) * (c - p)) \div h
Pinch2Exact(c, h, p) == (p < c - h \/ p > c + h) \/ ((p - c) * (p - c)) % h = 0

\* ---- SmartSqueeze -------------------------------------------------------
\* cs: [lo, hi (whole units), rn, rd, unsq: seq of <<a, b>> (whole units), pinches: seq of whole
\*      units, prange (whole units)]
InUnsq(cs, k) == \E i \in 1..Len(cs.unsq) : cs.unsq[i][1] <= k /\ k < cs.unsq[i][2]
InPinch(cs, k) == \E i \in 1..Len(cs.pinches) :
                     cs.pinches[i] - cs.prange <= k /\ k < cs.pinches[i] + cs.prange
\* unit cell [k, k+1] is squeezable
Squeezable(cs, k) == k >= cs.lo /\ k + 1 <= cs.hi /\ ~InUnsq(cs, k) /\ ~InPinch(cs, k)
Clamp(x) == IF x < 0 THEN 0 ELSE IF x > U THEN U ELSE x
RECURSIVE MeasureFrom(_, _, _)
MeasureFrom(cs, k, p) ==
    IF k >= cs.hi THEN 0
    ELSE (IF Squeezable(cs, k) THEN Clamp(p - U * k) ELSE 0) + MeasureFrom(cs, k + 1, p)
M(cs, p) == MeasureFrom(cs, cs.lo, p)
RECURSIVE PinchAll(_, _, _)
PinchAll(cs, i, p) ==
    IF i > Len(cs.pinches) THEN p
    ELSE PinchAll(cs, i + 1, Pinch2(U * cs.pinches[i], U * cs.prange, p))
Smart(cs, p) == PinchAll(cs, 1, p) - (M(cs, p) * (cs.rd - cs.rn)) \div cs.rd
SmartExact(cs, p) == (M(cs, p) * (cs.rd - cs.rn)) % cs.rd = 0

\* pinch zones must be disjoint for the order of pinching not to matter
PinchesDisjoint(cs) == \A i, j \in 1..Len(cs.pinches) :
                          i # j => (cs.pinches[i] - cs.pinches[j] >= 2 * cs.prange
                                    \/ cs.pinches[j] - cs.pinches[i] >= 2 * cs.prange)
=============================================================================
