----------------------------- MODULE SolidJudge -----------------------------
(***************************************************************************)
(* Judge for solids built with the real constructors (C03, C04).           *)
(* record: [id, site, variant, tree, plo, phi (probe grid, half units),    *)
(*          inside: <<probe indices the real solid contains>>, panic,      *)
(*          bvalid, bexact, bmin, bmax (real bounds in 1/16 units),        *)
(*          mux: <<>> or <<[all, iter, cb, nilcb, dup]>>]                  *)
(* Clauses                                                                 *)
(*   bounds - finite bounds with min <= max (C03)                          *)
(*   leak   - every contained probe lies inside the reported box (C03)     *)
(*   exact  - the contained probes are exactly those the denotation of the *)
(*            tree contains: combinators are exact set algebra in every    *)
(*            operand order (C04), wrappers do not cut the shape (C03)     *)
(*   mux    - AllContains / IterContains totals over all probes equal the  *)
(*            number of (probe, operand) incidences; callback count equal  *)
(*            to the returned count with and without callback; no operand  *)
(*            index reported twice (C04)                                   *)
(***************************************************************************)
EXTENDS SolidAlgebra, Json

Recs == ndJsonDeserialize("records.ndjson")
VARIABLES rec, done
R == Recs[rec]

W(a) == R.phi[a] - R.plo[a] + 1
NP == W(1) * W(2) * W(3)
Probe(i) == Pt(R.plo[1] + ((i - 1) % W(1)), R.plo[2] + (((i - 1) \div W(1)) % W(2)),
               R.plo[3] + ((i - 1) \div (W(1) * W(2))), 2)
\* probe coordinate a in 1/16 units
P16(i, a) == 8 * Probe(i)[a][1]

Obs == {R.inside[k] : k \in 1..Len(R.inside)}
Den == {i \in 1..NP : In(R.tree, Probe(i))}

\* number of (probe, direct operand) incidences of a mux
Incidences == Cardinality({<<i, k>> \in (1..NP) \X (1..Len(R.tree.args)) : In(R.tree.args[k], Probe(i))})

Holds(c) ==
    CASE c = "panic"  -> R.panic = ""
      [] c = "bounds" -> R.bvalid /\ R.bexact /\ \A a \in 1..3 : R.bmin[a] <= R.bmax[a]
      [] c = "leak"   -> \A i \in Obs : \A a \in 1..3 : R.bmin[a] <= P16(i, a) /\ P16(i, a) <= R.bmax[a]
      [] c = "exact"  -> Obs = Den /\ Len(R.inside) = Cardinality(Obs)
      [] c = "mux"    -> Len(R.mux) = 0 \/
                         LET m == R.mux[1] s == Incidences IN
                         m.all = s /\ m.iter = s /\ m.cb = s /\ m.nilcb = s /\ m.dup = 0
      [] OTHER -> TRUE
Clauses == {"panic", "bounds", "leak", "exact", "mux"}
Fails == {c \in Clauses : ~Holds(c)}

Init == rec \in 1..Len(Recs) /\ done = FALSE
Next == /\ ~done /\ done' = TRUE /\ UNCHANGED rec
        /\ \A c \in Fails : PrintT(<<"REJECT", R.id, 0, c>>)
Spec == Init /\ [][Next]_<<rec, done>>
=============================================================================
