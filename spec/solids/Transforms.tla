----------------------------- MODULE Transforms -----------------------------
(***************************************************************************)
(* Exact semantics of model3d's coordinate transforms on a rational         *)
(* sub-universe, and the laws of C05.                                       *)
(*                                                                         *)
(* One unit of length is D = 8 lattice steps; every point below is an       *)
(* integer vector.  An atom is an affine map p |-> (m.p)/den + off with an  *)
(* integer matrix m; a chain <<a1, ..., an>> is the JoinedTransform that    *)
(* applies a1 first.  k = knum/kden is the factor by which a distance       *)
(* transform scales lengths.                                                *)
(*                                                                         *)
(* Mode R: GenSpec prints every chain of at most MaxLen atoms (every order).*)
(* Mode V: JudgeSpec judges records of the real code, one per chain:        *)
(*  [id, chain, dist, pts: <<[p, ap, apx, inv, inv2]>>,                     *)
(*   box: [lo, hi], blo, bhi, bx,                                           *)
(*   dists: <<[p, q, ad2, adx]>>, solid: <<[x, in]>>,                       *)
(*   sdf: <<[x, s2, pos, sx]>>, meta: <<[x, same]>>,                        *)
(*   rays: <<[o, d, n, cb, nn, hits: <<[t12, tx, n, unit]>>,                *)
(*            first: [hit, t12], sphere: <<[c, r8, hit]>>]>>]               *)
(* Clauses                                                                 *)
(*  apply    Apply(p) is the exact image (projection exact)                 *)
(*  inverse  Inverse(Apply(p)) = p and Apply(Inverse(p)) = p to 1e-9        *)
(*  bounds   ApplyBounds(box) encloses the image of every lattice point of  *)
(*           the box (corners, face and interior points)                    *)
(*  distance ApplyDistance(|pq|)^2 = |Apply(p) Apply(q)|^2                  *)
(*  solid    TransformSolid(t, box).Contains(Apply(x)) = (x in box)         *)
(*  sdf      TransformSDF(t, box).SDF(Apply(x)) = k * SDF_box(x)            *)
(*  meta     TransformMetaball(t, box).MetaballField(Apply(x)) =            *)
(*           box.MetaballField(x)                                           *)
(*  ray      TransformCollider(t, box) hit by the image ray                 *)
(*           (Apply(o), Apply(o+d) - Apply(o)): same number of hits with    *)
(*           and without callback, at the original ray parameters, with     *)
(*           unit normals that are the images of the original normals;      *)
(*           FirstRayCollision = the smallest; ball queries with radius k*r *)
(***************************************************************************)
EXTENDS Integers, Sequences, FiniteSets, TLC, Json

D == 8

I3 == << <<1, 0, 0>>, <<0, 1, 0>>, <<0, 0, 1>> >>
Diag(a, b, c) == << <<a, 0, 0>>, <<0, b, 0>>, <<0, 0, c>> >>
Z3 == <<0, 0, 0>>
A(m, den, off, kn, kd, dist) == [m |-> m, den |-> den, off |-> off, kn |-> kn, kd |-> kd, dist |-> dist]
Atom(name) ==
    CASE name = "T1"  -> A(I3, 1, <<8, -16, 24>>, 1, 1, TRUE)            \* Translate(1, -2, 3)
      [] name = "T2"  -> A(I3, 1, <<-4, 0, 4>>, 1, 1, TRUE)              \* Translate(-1/2, 0, 1/2)
      [] name = "S2"  -> A(Diag(2, 2, 2), 1, Z3, 2, 1, TRUE)             \* Scale(2)
      [] name = "Sh"  -> A(I3, 2, Z3, 1, 2, TRUE)                        \* Scale(1/2)
      [] name = "S3"  -> A(Diag(3, 3, 3), 1, Z3, 3, 1, TRUE)             \* Scale(3)
      [] name = "V"   -> A(Diag(4, -2, 1), 2, Z3, 1, 1, FALSE)           \* VecScale(2, -1, 1/2)
      [] name = "Mp"  -> A(<< <<0, 0, 1>>, <<1, 0, 0>>, <<0, 1, 0>> >>, 1, Z3, 1, 1, FALSE)   \* axis permutation
      [] name = "Ms"  -> A(<< <<1, 1, 0>>, <<0, 1, 0>>, <<0, 0, 1>> >>, 1, Z3, 1, 1, FALSE)   \* shear
      [] name = "Md"  -> A(<< <<2, 1, 0>>, <<0, 1, 0>>, <<0, 0, 1>> >>, 1, Z3, 1, 1, FALSE)   \* determinant 2
      [] name = "Mu"  -> A(<< <<2, 1, 0>>, <<1, 1, 0>>, <<0, 0, 1>> >>, 1, Z3, 1, 1, FALSE)   \* determinant 1, not orthogonal
      [] name = "Ma"  -> A(<< <<1, 1, 1>>, <<0, 1, 0>>, <<0, 0, 1>> >>, 1, Z3, 1, 1, FALSE)   \* a row of three entries of one sign: one corner of a box is the unique extreme along x
      [] name = "Rz"  -> A(<< <<0, -1, 0>>, <<1, 0, 0>>, <<0, 0, 1>> >>, 1, Z3, 1, 1, TRUE)   \* Rotation(z, pi/2)
      [] name = "Rx2" -> A(Diag(1, -1, -1), 1, Z3, 1, 1, TRUE)                                \* Rotation(x, pi)
      [] name = "Ry"  -> A(<< <<0, 0, 1>>, <<0, 1, 0>>, <<-1, 0, 0>> >>, 1, Z3, 1, 1, TRUE)   \* Rotation(y, pi/2)
Atoms == {"T1", "T2", "S2", "Sh", "S3", "V", "Mp", "Ms", "Md", "Mu", "Ma", "Rz", "Rx2", "Ry"}

MulV(m, p) == [i \in 1..3 |-> m[i][1] * p[1] + m[i][2] * p[2] + m[i][3] * p[3]]
ApplyA(a, p) == LET q == MulV(a.m, p) IN [i \in 1..3 |-> q[i] \div a.den + a.off[i]]
ExactA(a, p) == LET q == MulV(a.m, p) IN \A i \in 1..3 : q[i] % a.den = 0
RECURSIVE ApplyC(_, _, _), ExactC(_, _, _)
ApplyC(c, i, p) == IF i > Len(c) THEN p ELSE ApplyC(c, i + 1, ApplyA(Atom(c[i]), p))
ExactC(c, i, p) == IF i > Len(c) THEN TRUE ELSE ExactA(Atom(c[i]), p) /\ ExactC(c, i + 1, ApplyA(Atom(c[i]), p))
Img(c, p) == ApplyC(c, 1, p)
RECURSIVE KN(_, _), KD(_, _)
KN(c, i) == IF i > Len(c) THEN 1 ELSE Atom(c[i]).kn * KN(c, i + 1)
KD(c, i) == IF i > Len(c) THEN 1 ELSE Atom(c[i]).kd * KD(c, i + 1)
IsDist(c) == \A i \in 1..Len(c) : Atom(c[i]).dist
\* linear part: image of a direction
Lin(c, v) == LET a == Img(c, v) b == Img(c, Z3) IN [i \in 1..3 |-> a[i] - b[i]]

Sq(x) == x * x
D2(p, q) == Sq(p[1] - q[1]) + Sq(p[2] - q[2]) + Sq(p[3] - q[3])

=============================================================================
