---------------------------- MODULE TransformGen ----------------------------
(* Mode R for C05: every chain of at most MaxLen transform atoms, in every order. *)
EXTENDS Transforms
CONSTANTS MaxLen
VARIABLES g, gdone
Chains == UNION { [1..n -> Atoms] : n \in 1..MaxLen }
GInit == g \in Chains /\ gdone = FALSE
GNext == ~gdone /\ gdone' = TRUE /\ UNCHANGED g /\ PrintT(<<"CASE", ToJson(g)>>)
GenSpec == GInit /\ [][GNext]_<<g, gdone>>
=============================================================================
