----------------------------- MODULE SqueezeGen -----------------------------
(* Mode R for C05: every axis squeeze / pinch / smart squeeze over small whole-unit data. *)
EXTENDS Squeeze, TLC, Json
CONSTANTS Level
VARIABLES c, gdone

Ratios == {<<1, 2>>, <<1, 4>>, <<2, 1>>, <<4, 1>>, <<1, 1>>}
\* Max < Min is not a valid squeeze (its "image" of a box is an inverted box)
SqueezeCases == {s \in {[kind |-> "squeeze", axis |-> a, min |-> mn, max |-> mx, rn |-> r[1], rd |-> r[2]] :
                           a \in 0..2, mn \in {-1, 0, 2}, mx \in 0..6, r \in Ratios} : s.min <= s.max}
PinchCases == {[kind |-> "pinch", axis |-> a, centre |-> ce, half |-> h] :
                    a \in 0..2, ce \in {0, 2, 3}, h \in {1, 2, 4}}
Ivals == IF Level = 0 THEN {<<a, b>> : a \in {-1, 0, 1, 3, 4}, b \in {0, 1, 2, 4, 5, 7, 9}}
         ELSE {<<a, b>> : a \in -1..6, b \in -1..9}
GoodIvals == {iv \in Ivals : iv[1] <= iv[2]}
SmallIvals == {iv \in {<<a, b>> : a \in {-1, 0, 1, 3, 4}, b \in {0, 1, 2, 4, 5, 7, 9}} : iv[1] <= iv[2]}
Unsqs == {<<>>} \cup {<<i>> : i \in GoodIvals} \cup {<<i, j>> : i \in GoodIvals, j \in SmallIvals}
PinchAt == IF Level = 0 THEN {0, 2, 3, 5, 7} ELSE 0..8
PinchSets == {<<>>} \cup {<<p>> : p \in PinchAt} \cup {<<p, q>> : p \in PinchAt, q \in {0, 2, 3, 5, 7}}
SmartCases == {cs \in [kind : {"smart"}, axis : (IF Level = 0 THEN {2} ELSE {0}), lo : (IF Level = 0 THEN {-1, 0} ELSE {0}), hi : {5, 8}, rn : {1}, rd : {2, 4},
                       unsq : Unsqs, pinches : PinchSets, prange : {1}] : PinchesDisjoint(cs)}
Cases == SqueezeCases \cup PinchCases \cup SmartCases

Init == c \in Cases /\ gdone = FALSE
Next == ~gdone /\ gdone' = TRUE /\ UNCHANGED c /\ PrintT(<<"CASE", ToJson(c)>>)
Spec == Init /\ [][Next]_<<c, gdone>>
=============================================================================
