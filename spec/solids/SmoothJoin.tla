----------------------------- MODULE SmoothJoin -----------------------------
(***************************************************************************)
(* Smooth joins (C04).  The probe point is the origin; operand i is a box  *)
(* SDF placed along direction Dir(i) at distance ks[i]/4, so its signed    *)
(* distance at the probe is exactly -ks[i]/4 and its nearest-surface       *)
(* normal is -Dir(i).  TLC enumerates every radius and every tuple of      *)
(* operand distances (mode R: Gen), and judges the real answers (Judge).   *)
(*                                                                         *)
(* Law (quarter units, rq = 4*radius, d_i = -ks[i] < 0): with a >= b the   *)
(* two largest distances,                                                  *)
(*   SmoothJoin contains the probe iff some d_i > 0, or there are at least *)
(*   two operands and max(0,a+rq)^2 + max(0,b+rq)^2 > rq^2.                *)
(* Consequences checked as theorems of the model (Laws): it equals the     *)
(* plain union for rq = 0, for one operand, and whenever fewer than two    *)
(* operands are within the radius; it is invariant under permutation.      *)
(* SmoothJoinV2 shrinks the radius by sin of the angle between the two     *)
(* nearest normals: orthogonal directions keep it, opposite directions     *)
(* give the plain union; when the runner-up is tied between candidates     *)
(* with different angles either answer is admissible.                      *)
(***************************************************************************)
EXTENDS Integers, Sequences, FiniteSets, TLC, Json

CONSTANTS MaxN, Dists, Radii
VARIABLES ks, rq, phase, rec, done

\* directions: +x, +y, +z, -x, -y, -z  (axis = ((i-1) % 3) + 1, sign flips after 3)
Axis(i) == ((i - 1) % 3) + 1
Parallel(i, j) == Axis(i) = Axis(j)

Max0(x) == IF x > 0 THEN x ELSE 0
D(s, i) == -s[i]
TopPairs(s) == {<<i, j>> \in (1..Len(s)) \X (1..Len(s)) :
                  /\ i # j
                  /\ \A k \in 1..Len(s) : D(s, i) >= D(s, k)
                  /\ \A k \in (1..Len(s)) \ {i} : D(s, j) >= D(s, k)}
Formula(a, b, r) == Max0(a + r) * Max0(a + r) + Max0(b + r) * Max0(b + r) > r * r

ExpectV1(s, r) == Len(s) >= 2 /\ \E p \in TopPairs(s) : Formula(D(s, p[1]), D(s, p[2]), r)
\* admissible answers of V2
ExpectV2(s, r) == IF Len(s) < 2 THEN {FALSE}
                  ELSE {IF Parallel(p[1], p[2]) THEN FALSE ELSE Formula(D(s, p[1]), D(s, p[2]), r) : p \in TopPairs(s)}

\* ---- generation (mode R) ----
GInit == ks = <<>> /\ rq \in Radii /\ phase = "gen" /\ rec = 0 /\ done = FALSE
GNext == /\ Len(ks) < MaxN
         /\ \E d \in Dists : ks' = Append(ks, d)
         /\ UNCHANGED <<rq, phase, rec, done>>
GenSpec == GInit /\ [][GNext]_<<ks, rq, phase, rec, done>>
Emit == Len(ks) >= 1 => PrintT(<<"CASE", ToJson([r |-> rq, ks |-> ks])>>)

\* laws of the model itself (mode E)
Perms(s) == {t \in [1..Len(s) -> 1..Len(s)] : \A i, j \in 1..Len(s) : i # j => t[i] # t[j]}
Laws == Len(ks) >= 1 =>
    /\ (rq = 0 => ~ExpectV1(ks, rq))                       \* radius zero = plain union (probe outside)
    /\ (Len(ks) = 1 => ~ExpectV1(ks, rq))                  \* single operand = plain union
    /\ (Cardinality({i \in 1..Len(ks) : D(ks, i) + rq > 0}) < 2 => ~ExpectV1(ks, rq))
    /\ \A t \in Perms(ks) : ExpectV1([i \in 1..Len(ks) |-> ks[t[i]]], rq) = ExpectV1(ks, rq)

\* ---- judge (mode V) ----
Recs == ndJsonDeserialize("records.ndjson")
R == Recs[rec]
\* 2-D directions: +x, +y, -x, -y
Axis2(i) == ((i - 1) % 2) + 1
ExpectV2x(s, r) == IF Len(s) < 2 THEN {FALSE}
                   ELSE {IF Axis2(p[1]) = Axis2(p[2]) THEN FALSE ELSE Formula(D(s, p[1]), D(s, p[2]), r) : p \in TopPairs(s)}
Holds(c) ==
    CASE c = "panic" -> R.panic = ""
      [] c = "v1-3d" -> R.v1_3d = ExpectV1(R.ks, R.r)
      [] c = "v1-2d" -> Len(R.ks) > 4 \/ R.v1_2d = ExpectV1(R.ks, R.r)
      [] c = "v2-3d" -> R.v2_3d \in ExpectV2(R.ks, R.r)
      [] c = "v2-2d" -> Len(R.ks) > 4 \/ R.v2_2d \in ExpectV2x(R.ks, R.r)
      [] OTHER -> TRUE
Clauses == {"panic", "v1-3d", "v1-2d", "v2-3d", "v2-2d"}
Fails == {c \in Clauses : ~Holds(c)}
JInit == rec \in 1..Len(Recs) /\ done = FALSE /\ ks = <<>> /\ rq = 0 /\ phase = "judge"
JNext == /\ ~done /\ done' = TRUE /\ UNCHANGED <<rec, ks, rq, phase>>
         /\ \A c \in Fails : PrintT(<<"REJECT", R.id, 0, c>>)
JudgeSpec == JInit /\ [][JNext]_<<rec, done, ks, rq, phase>>
=============================================================================
