----------------------------- MODULE RectOpsJudge -----------------------------
(***************************************************************************)
(* C04: "split-plane box set": a history of Add / Remove (and the RectSet   *)
(* variants) over integer boxes denotes the plain set algebra of the boxes. *)
(* One record per history:                                                  *)
(*  [id, site, ops: <<[op, set, src, lo, hi]>>, plo, phi (probe lattice,    *)
(*   half units), inside / inside2: <<indices of contained probes of set 1  *)
(*   / 2>>, empty, smin, smax (RectSet                                      *)
(*   Min / Max), bmin, bmax (bounds of RectSet.Solid()), bexact, panic]     *)
(* A probe is decided only if it lies on no face of any box of the history  *)
(* (the set is a union of closed cells, so removal leaves faces behind:     *)
(* boundary points are not prescribed).  Clauses                            *)
(*   exact  - decided probes: contained iff the folded set algebra says so  *)
(*   exact2 - the same for the second set of the history (operated on       *)
(*            directly and used as the argument of set operations on the    *)
(*            first one, which must not change it)                          *)
(*   bounds - non-empty set (histories in whole units only: in tenths the   *)
(*            integers of this module take faces a few 1e-17 apart for one  *)
(*            plane, and the sliver a removal leaves between them belongs   *)
(*            to the set): Min / Max of the set and of its solid are the    *)
(*            bounding box of the cells that remain (no stale planes)       *)
(***************************************************************************)
EXTENDS Integers, Sequences, FiniteSets, TLC, Json

Recs == ndJsonDeserialize("records.ndjson")
VARIABLES rec, done
R == Recs[rec]

W(a) == R.phi[a] - R.plo[a] + 1
Probe(i) == <<R.plo[1] + ((i - 1) % W(1)), R.plo[2] + (((i - 1) \div W(1)) % W(2)), R.plo[3] + ((i - 1) \div (W(1) * W(2)))>>
NP == W(1) * W(2) * W(3)
\* p in half units, boxes in whole units
InBox(o, p) == \A a \in 1..3 : 2 * o.lo[a] <= p[a] /\ p[a] <= 2 * o.hi[a]
OnFace(o, p) == InBox(o, p) /\ \E a \in 1..3 : p[a] = 2 * o.lo[a] \/ p[a] = 2 * o.hi[a]
Decided(p) == \A k \in 1..Len(R.ops) : ~OnFace(R.ops[k], p)
IsAdd(o) == o.op \in {"add", "addset"}
\* membership of p in set s after the first k operations; a set operation whose argument is the other set (src # 0)
\* uses that set as it is at that moment, and must leave it as it was
RECURSIVE Fold(_, _, _)
Fold(k, s, p) ==
    IF k = 0 THEN FALSE
    ELSE LET o == R.ops[k] IN
         IF o.set # s THEN Fold(k - 1, s, p)
         ELSE IF o.op \in {"addset", "removeset"} /\ o.src # 0
              THEN IF o.op = "addset" THEN Fold(k - 1, s, p) \/ Fold(k - 1, o.src, p)
                   ELSE Fold(k - 1, s, p) /\ ~Fold(k - 1, o.src, p)
              ELSE IF InBox(o, p) THEN IsAdd(o) ELSE Fold(k - 1, s, p)
Den(p) == Fold(Len(R.ops), 1, p)
Den2(p) == Fold(Len(R.ops), 2, p)
Obs == {R.inside[i] : i \in 1..Len(R.inside)}
Obs2 == {R.inside2[i] : i \in 1..Len(R.inside2)}
DenSet == {i \in 1..NP : Decided(Probe(i)) /\ Den(Probe(i))}
\* bounding box of what remains: every remaining cell has a decided (half-integer) interior point
Coord(a) == {Probe(i)[a] : i \in DenSet}
Lo(a) == (CHOOSE v \in Coord(a) : \A w \in Coord(a) : v <= w) - 1
Hi(a) == (CHOOSE v \in Coord(a) : \A w \in Coord(a) : v >= w) + 1

Holds(c) ==
    CASE c = "panic"  -> R.panic = ""
      [] c = "exact"  -> R.panic # "" \/ \A i \in 1..NP : Decided(Probe(i)) => ((i \in Obs) = Den(Probe(i)))
      [] c = "exact2" -> R.panic # "" \/ \A i \in 1..NP : Decided(Probe(i)) => ((i \in Obs2) = Den2(Probe(i)))
      [] c = "bounds" -> R.panic # "" \/ R.nobounds \/ DenSet = {} \/
                           (R.bexact /\ \A a \in 1..3 : /\ R.smin[a] = Lo(a) /\ R.smax[a] = Hi(a)
                                                        /\ R.bmin[a] = Lo(a) /\ R.bmax[a] = Hi(a))
      [] OTHER -> TRUE
Clauses == {"panic", "exact", "exact2", "bounds"}
Fails == {c \in Clauses : ~Holds(c)}

Init == rec \in 1..Len(Recs) /\ done = FALSE
Next == /\ ~done /\ done' = TRUE /\ UNCHANGED rec
        /\ \A c \in Fails : PrintT(<<"REJECT", R.id, 0, c>>)
Spec == Init /\ [][Next]_<<rec, done>>
=============================================================================
