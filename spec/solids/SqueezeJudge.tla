---------------------------- MODULE SqueezeJudge ----------------------------
(***************************************************************************)
(* Judge for C05 axis maps.  One record per case:                          *)
(*  [id, site, case, panic, exact, probes, img, back, pre, fwd, other,      *)
(*   blo, bhi, bmin, bmax, slo, shi, solid, smin, smax]                     *)
(* in units of 1/64 along the case's axis:                                  *)
(*   img[i]  = t.Apply(probes[i])            back[i] = t.Inverse().Apply(img[i]) *)
(*   pre[i]  = t.Inverse().Apply(probes[i])  fwd[i]  = t.Apply(pre[i])       *)
(*   other   = no other coordinate ever changed                            *)
(*   bmin, bmax = t.ApplyBounds of the box [blo, bhi]                       *)
(*   solid[i] = TransformSolid(t, box [slo, shi]).Contains(probes[i]),       *)
(*   smin, smax its reported bounds.  NA marks a value that is not on the   *)
(*   1/64 lattice (irrational pinch pre-images): clauses skip it.           *)
(* Clauses                                                                 *)
(*   apply   - img = the exact semantics of module Squeeze                  *)
(*   inverse - back = probes and fwd = probes (both orders)                 *)
(*   bounds  - [bmin, bmax] encloses the image of every probe of the box    *)
(*   solid   - membership at c  <=>  the pre-image of c is in the box, and  *)
(*             the reported bounds enclose every contained probe            *)
(***************************************************************************)
EXTENDS Squeeze, TLC, Json

Recs == ndJsonDeserialize("records.ndjson")
VARIABLES rec, done
R == Recs[rec]
C == R.case
NA == -99999999
N == Len(R.probes)

F(p) == CASE C.kind = "squeeze" -> Sq(U * C.min, U * C.max, C.rn, C.rd, p)
          [] C.kind = "pinch"   -> Pinch2(U * C.centre, U * C.half, p)
          [] C.kind = "smart"   -> Smart(C, p)
FExact(p) == CASE C.kind = "squeeze" -> SqExact(U * C.min, U * C.max, C.rn, C.rd, p)
               [] C.kind = "pinch"   -> Pinch2Exact(U * C.centre, U * C.half, p)
               [] C.kind = "smart"   -> SmartExact(C, p) /\ \A i \in 1..Len(C.pinches) :
                                            Pinch2Exact(U * C.pinches[i], U * C.prange, p)
\* degenerate squeezes (Max < Min) have no documented meaning: only "no panic" is asked of them
Meaningful == C.kind # "squeeze" \/ C.min <= C.max

Holds(cl) ==
    IF cl = "panic" THEN R.panic = ""
    ELSE IF R.panic # "" \/ ~Meaningful THEN TRUE ELSE
    CASE cl = "apply"   -> /\ R.other
                           /\ \A i \in 1..N : FExact(R.probes[i]) => R.img[i] = F(R.probes[i])
      [] cl = "inverse" -> /\ \A i \in 1..N : R.img[i] # NA => R.back[i] = R.probes[i]
                           /\ \A i \in 1..N : R.pre[i] # NA => R.fwd[i] = R.probes[i]
      [] cl = "bounds"  -> \A i \in 1..N : (R.probes[i] >= R.blo /\ R.probes[i] <= R.bhi /\ R.img[i] # NA)
                               => (R.bmin <= R.img[i] /\ R.img[i] <= R.bmax)
      [] cl = "solid"   -> /\ \A i \in 1..N : R.pre[i] # NA =>
                                 ((R.solid[i] = 1) = (R.pre[i] >= R.slo /\ R.pre[i] <= R.shi))
                           /\ \A i \in 1..N : R.solid[i] = 1 => (R.smin <= R.probes[i] /\ R.probes[i] <= R.smax)
      [] OTHER -> TRUE
Clauses == {"panic", "apply", "inverse", "bounds", "solid"}
Fails == {cl \in Clauses : ~Holds(cl)}

Init == rec \in 1..Len(Recs) /\ done = FALSE
Next == /\ ~done /\ done' = TRUE /\ UNCHANGED rec
        /\ \A cl \in Fails : PrintT(<<"REJECT", R.id, 0, cl>>)
Spec == Init /\ [][Next]_<<rec, done>>
=============================================================================
