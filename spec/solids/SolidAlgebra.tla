---------------------------- MODULE SolidAlgebra ----------------------------
(***************************************************************************)
(* Denotational specification of the solid combinators (C03, C04) on the   *)
(* box world: expression trees over integer boxes, with exact rational     *)
(* point arithmetic (a point is <<<<nx,dx>>,<<ny,dy>>,<<nz,dz>>>>, each    *)
(* coordinate n/d with d > 0).  In(e, p) is THE meaning of a tree; the     *)
(* judge compares it with what the real constructors answer.               *)
(*                                                                         *)
(* Trees (JSON records produced by the harness, built with the real        *)
(* constructors on the Go side):                                           *)
(*   box(lo,hi)               model3d.Rect (closed box)                    *)
(*   join / joinopt / mux / rectset (args)    union                        *)
(*   isect(args)   sub(a,b)                                                *)
(*   stack / stacked (args)   StackSolids / StackedSolid: each operand is  *)
(*                            lifted so that its bounding box sits on the  *)
(*                            previous one's                               *)
(*   xlate(t,e)  scale(num/den,e)  vscale(num[]/den[],e)  perm(p,sg,e)     *)
(*   force(lo,hi,e)  cache(e)                                              *)
(***************************************************************************)
EXTENDS Integers, Sequences, FiniteSets, TLC

Pt(x, y, z, d) == << <<x, d>>, <<y, d>> , <<z, d>> >>

InBox(lo, hi, p) == \A a \in 1..3 : lo[a] * p[a][2] <= p[a][1] /\ p[a][1] <= hi[a] * p[a][2]

\* model bounding boxes (integers) - needed only for the operands of stack
RECURSIVE MB(_)
MinI2(a, b) == IF a < b THEN a ELSE b
MaxI2(a, b) == IF a > b THEN a ELSE b
RECURSIVE FoldBox(_, _, _)
FoldBox(args, i, acc) ==
    IF i > Len(args) THEN acc
    ELSE LET b == MB(args[i]) IN
         FoldBox(args, i + 1, << [a \in 1..3 |-> MinI2(acc[1][a], b[1][a])], [a \in 1..3 |-> MaxI2(acc[2][a], b[2][a])] >>)
MB(e) ==
    CASE e.op = "box" -> <<e.lo, e.hi>>
      [] e.op \in {"join", "joinopt", "mux", "rectset"} -> FoldBox(e.args, 2, MB(e.args[1]))
      [] e.op = "xlate" -> LET b == MB(e.e) IN << [a \in 1..3 |-> b[1][a] + e.t[a]], [a \in 1..3 |-> b[2][a] + e.t[a]] >>
      [] e.op = "cache" -> MB(e.e)
      [] e.op = "force" -> <<e.lo, e.hi>>

RECURSIVE In(_, _)
RECURSIVE StackIn(_, _, _, _)
\* operand i of a stack, lifted by (top of the previous, lifted operand) - (its own bottom)
StackIn(args, i, top, p) ==
    IF i > Len(args) THEN FALSE
    ELSE LET b == MB(args[i])
             delta == IF i = 1 THEN 0 ELSE top - b[1][3]
             q == <<p[1], p[2], <<p[3][1] - delta * p[3][2], p[3][2]>>>>
         IN In(args[i], q) \/ StackIn(args, i + 1, b[2][3] + delta, p)

In(e, p) ==
    CASE e.op = "box"   -> InBox(e.lo, e.hi, p)
      [] e.op \in {"join", "joinopt", "mux", "rectset"} -> \E i \in 1..Len(e.args) : In(e.args[i], p)
      [] e.op = "isect" -> \A i \in 1..Len(e.args) : In(e.args[i], p)
      [] e.op = "sub"   -> In(e.a, p) /\ ~In(e.b, p)
      [] e.op \in {"stack", "stacked"} -> StackIn(e.args, 1, 0, p)
      [] e.op = "xlate" -> In(e.e, [a \in 1..3 |-> <<p[a][1] - e.t[a] * p[a][2], p[a][2]>>])
      [] e.op = "scale" -> In(e.e, [a \in 1..3 |-> <<p[a][1] * e.den, p[a][2] * e.num>>])
      [] e.op = "vscale" -> In(e.e, [a \in 1..3 |->
                               IF e.num[a] > 0 THEN <<p[a][1] * e.den[a], p[a][2] * e.num[a]>>
                               ELSE <<-(p[a][1] * e.den[a]), p[a][2] * (-e.num[a])>>])
      \* perm: image[k] = sg[k] * original[p[k]]; so original[j] = sg[k] * image[k] for the k with p[k] = j
      [] e.op = "perm"  -> In(e.e, [j \in 1..3 |->
                               LET k == CHOOSE kk \in 1..3 : e.p[kk] = j
                               IN <<e.sg[k] * p[k][1], p[k][2]>>])
      [] e.op = "force" -> In(e.e, p) /\ InBox(e.lo, e.hi, p)
      [] e.op = "cache" -> In(e.e, p)

\* number of direct operands of a mux containing p (for IterContains / AllContains)
CountIn(e, p) == Cardinality({i \in 1..Len(e.args) : In(e.args[i], p)})
=============================================================================
