--------------------------- MODULE TransformJudge ---------------------------
(* Mode V for C05: judges records of the real transforms and transformed objects   *)
(* against the exact semantics of Transforms.tla (record format and clauses there). *)
EXTENDS Transforms

Recs == ndJsonDeserialize("records.ndjson")
VARIABLES rec, done
R == Recs[rec]
C == R.chain

\* ---- the wrapped object: an axis-aligned box (integers, unit = D steps) ----
InBox(x) == \A i \in 1..3 : R.box.lo[i] <= x[i] /\ x[i] <= R.box.hi[i]
OnBoxBoundary(x) == InBox(x) /\ \E i \in 1..3 : x[i] = R.box.lo[i] \/ x[i] = R.box.hi[i]
Pos(x) == IF x > 0 THEN x ELSE 0
Min2(a, b) == IF a < b THEN a ELSE b
OutD2(x) == Sq(Pos(R.box.lo[1] - x[1]) + Pos(x[1] - R.box.hi[1]))
          + Sq(Pos(R.box.lo[2] - x[2]) + Pos(x[2] - R.box.hi[2]))
          + Sq(Pos(R.box.lo[3] - x[3]) + Pos(x[3] - R.box.hi[3]))
InD(x) == LET f(i) == Min2(x[i] - R.box.lo[i], R.box.hi[i] - x[i]) IN Min2(f(1), Min2(f(2), f(3)))
BoxD2(x) == IF InBox(x) THEN Sq(InD(x)) ELSE OutD2(x)

\* ---- rays against the box (exact slab method; rationals <<num, den>>, den > 0) ----
Q(n, d) == IF d > 0 THEN <<n, d>> ELSE <<-n, -d>>
Lt(a, b) == a[1] * b[2] < b[1] * a[2]
Le(a, b) == a[1] * b[2] <= b[1] * a[2]
Eq(a, b) == a[1] * b[2] = b[1] * a[2]
Axes(d) == {a \in 1..3 : d[a] # 0}
Enter(o, d, a) == IF d[a] > 0 THEN Q(R.box.lo[a] - o[a], d[a]) ELSE Q(R.box.hi[a] - o[a], d[a])
Leave(o, d, a) == IF d[a] > 0 THEN Q(R.box.hi[a] - o[a], d[a]) ELSE Q(R.box.lo[a] - o[a], d[a])
TEnter(o, d) == CHOOSE t \in {Enter(o, d, a) : a \in Axes(d)} : \A a \in Axes(d) : Le(Enter(o, d, a), t)
TLeave(o, d) == CHOOSE t \in {Leave(o, d, a) : a \in Axes(d)} : \A a \in Axes(d) : Le(t, Leave(o, d, a))
ParIn(o, d) == \A a \in (1..3) \ Axes(d) : R.box.lo[a] < o[a] /\ o[a] < R.box.hi[a]
ParTouch(o, d) == \E a \in (1..3) \ Axes(d) : o[a] = R.box.lo[a] \/ o[a] = R.box.hi[a]
Zero == <<0, 1>>
RayGP(o, d) == /\ Axes(d) # {} /\ ~ParTouch(o, d) /\ ~OnBoxBoundary(o)
               /\ ~Eq(TEnter(o, d), TLeave(o, d)) /\ ~Eq(TEnter(o, d), Zero) /\ ~Eq(TLeave(o, d), Zero)
               /\ Cardinality({a \in Axes(d) : Eq(Enter(o, d, a), TEnter(o, d))}) = 1
               /\ Cardinality({a \in Axes(d) : Eq(Leave(o, d, a), TLeave(o, d))}) = 1
RayHits(o, d) == ParIn(o, d) /\ Lt(TEnter(o, d), TLeave(o, d)) /\ Lt(Zero, TLeave(o, d))
EnterN(o, d) == LET a == CHOOSE a \in Axes(d) : Eq(Enter(o, d, a), TEnter(o, d)) IN
                [i \in 1..3 |-> IF i = a THEN (IF d[a] > 0 THEN -1 ELSE 1) ELSE 0]
LeaveN(o, d) == LET a == CHOOSE a \in Axes(d) : Eq(Leave(o, d, a), TLeave(o, d)) IN
                [i \in 1..3 |-> IF i = a THEN (IF d[a] > 0 THEN 1 ELSE -1) ELSE 0]
\* expected hits of the original ray: set of <<t, normal>>
ExpHits(o, d) == IF ~RayHits(o, d) THEN {}
                 ELSE (IF Lt(Zero, TEnter(o, d)) THEN {<<TEnter(o, d), EnterN(o, d)>>} ELSE {})
                      \cup {<<TLeave(o, d), LeaveN(o, d)>>}
\* image of a unit normal under a similarity: Lin(n) / k, as an integer vector
ImgN(n) == LET v == Lin(C, [i \in 1..3 |-> D * n[i]]) IN [i \in 1..3 |-> (v[i] * KD(C, 1)) \div (KN(C, 1) * D)]
HitMatches(h, e) == h.tx /\ h.unit /\ h.t12 * e[1][2] = 12 * e[1][1] /\ h.n = ImgN(e[2])
RayOK(q) ==
    ~RayGP(q.o, q.d) \/
    LET E == ExpHits(q.o, q.d) IN
    /\ q.n = Cardinality(E) /\ q.cb = q.n /\ q.nn = q.n /\ Len(q.hits) = q.n
    /\ \A e \in E : \E i \in 1..Len(q.hits) : HitMatches(q.hits[i], e)
    /\ \A i \in 1..Len(q.hits) : \E e \in E : HitMatches(q.hits[i], e)
    /\ q.first.hit = (E # {})
    /\ (E # {} => LET m == CHOOSE e \in E : \A f \in E : Le(e[1], f[1]) IN q.first.t12 * m[1][2] = 12 * m[1][1])
\* ball of radius r8/8 (original space) around c: touches the box surface iff the distance of c
\* to the surface is < r (tangency is not decided)
BallOK(b) == Sq(b.r8) = BoxD2(b.c) \/ b.hit = (BoxD2(b.c) < Sq(b.r8))

\* model2d records pad z with 0: only x and y are compared
Is2D == R.site = "model2d"
P2(v) == IF Is2D THEN <<v[1], v[2], 0>> ELSE v
AxesCmp == IF Is2D THEN 1..2 ELSE 1..3
Holds(c) ==
    CASE c = "panic" -> R.panic = ""
      [] c = "apply" -> \A i \in 1..Len(R.pts) : LET q == R.pts[i] IN
                           ExactC(C, 1, q.p) => (q.apx /\ q.ap = P2(Img(C, q.p)))
      [] c = "inverse" -> \A i \in 1..Len(R.pts) : R.pts[i].inv /\ R.pts[i].inv2
      [] c = "bounds" -> /\ R.bx
                         /\ \A i \in 1..Len(R.pts) : LET q == R.pts[i] IN
                              (InBox(q.p) /\ ExactC(C, 1, q.p)) =>
                                 \A a \in AxesCmp : R.blo[a] <= Img(C, q.p)[a] /\ Img(C, q.p)[a] <= R.bhi[a]
      [] c = "distance" -> \A i \in 1..Len(R.dists) : LET q == R.dists[i] IN
                              (ExactC(C, 1, q.p) /\ ExactC(C, 1, q.q)) => (q.adx /\ q.ad2 = D2(Img(C, q.p), Img(C, q.q)))
      [] c = "solid" -> \A i \in 1..Len(R.solid) : LET q == R.solid[i] IN OnBoxBoundary(q.x) \/ q.in = InBox(q.x)
      [] c = "sdf" -> \A i \in 1..Len(R.sdf) : LET q == R.sdf[i] IN
                         OnBoxBoundary(q.x) \/ ( /\ q.sx /\ q.pos = InBox(q.x)
                                                 /\ q.s2 * Sq(KD(C, 1)) = 64 * Sq(KN(C, 1)) * BoxD2(q.x) )
      [] c = "meta" -> \A i \in 1..Len(R.meta) : R.meta[i].same
      [] c = "ray" -> \A i \in 1..Len(R.rays) : RayOK(R.rays[i])
      [] c = "ball" -> \A i \in 1..Len(R.balls) : BallOK(R.balls[i])
      [] OTHER -> TRUE
Clauses == {"panic", "apply", "inverse", "bounds", "distance", "solid", "sdf", "meta", "ray", "ball"}
Fails == {c \in Clauses : ~Holds(c)}
Decided == Cardinality({i \in 1..Len(R.rays) : RayGP(R.rays[i].o, R.rays[i].d) /\ RayHits(R.rays[i].o, R.rays[i].d)})
Init == rec \in 1..Len(Recs) /\ done = FALSE
Next == /\ ~done /\ done' = TRUE /\ UNCHANGED rec
        /\ \A c \in Fails : PrintT(<<"REJECT", R.id, 0, c>>)
        /\ PrintT(<<"NOTE", R.id, Decided>>)
Spec == Init /\ [][Next]_<<rec, done>>
=============================================================================
