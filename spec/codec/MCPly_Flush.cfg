SPECIFICATION Spec
CONSTANTS
  MaxEl = 3
  MaxCount = 2
INVARIANTS FlushedWhenComplete
CHECK_DEADLOCK FALSE
