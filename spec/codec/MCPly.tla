------------------------------- MODULE MCPly -------------------------------
(* Model-checking wrapper of PlyProtocol: bounds, and emission of every     *)
(* header (count vector) for replay into the real writer/reader (mode R).   *)
EXTENDS PlyProtocol, Json
Emit == (last.op = "open" /\ w = 0 /\ ph = "write") => PrintT(<<"CASE", ToJson(counts)>>)
=============================================================================
