---------------------------- MODULE CsvFieldJudge ----------------------------
(***************************************************************************)
(* Judges the segment-CSV decoders on the field-level cases of CodecFaults  *)
(* (Fmt = "csvf": rows with 0, 1, 2, 3, 5, 6 fields anywhere incl. the      *)
(* first row, trailing / leading commas, blank lines, quoted fields, a lone *)
(* quote, empty and non-numeric fields).                                    *)
(* records.ndjson: kind "fault" records of the harness [id, site, fmt, s    *)
(*   (row faults, "/"-separated), expect, len, outcome, rows, allockb,      *)
(*   noisy, meshok]                                                         *)
(*  panic / hang / alloc - as in CodecJudge (C16: data or an error, never a *)
(*           panic, terminates, allocation in proportion to the input)      *)
(*  expect - what the format prescribes for the file:                       *)
(*           "err": some row is not four numbers - the decoder reports an   *)
(*                  error (it neither accepts the file with made-up or      *)
(*                  missing coordinates nor drops the row silently)         *)
(*           "ok" : every line is a row of four numbers (plain or quoted):  *)
(*                  accepted, and decoded to exactly those segments in order*)
(*           "any": well-formed rows and blank lines only: either an error, *)
(*                  or exactly the segments of the rows                     *)
(***************************************************************************)
EXTENDS Integers, Sequences, FiniteSets, TLC, Json

Recs == ndJsonDeserialize("records.ndjson")
VARIABLES rec, done
R == Recs[rec]
Died == R.outcome \in {"panic", "crash", "hang"}
Holds(c) ==
    CASE c = "panic" -> R.outcome \notin {"panic", "crash"}
      [] c = "hang"  -> R.outcome # "hang" /\ R.rows <= R.len + 2
      [] c = "alloc" -> R.noisy \/ Died \/ R.allockb <= 4096 + R.len
      [] c = "expect" -> Died \/ (CASE R.expect = "err" -> R.outcome = "err"
                                    [] R.expect = "ok"  -> R.outcome = "ok" /\ R.meshok
                                    [] R.expect = "any" -> R.outcome = "err" \/ R.meshok
                                    [] OTHER -> FALSE)
      [] OTHER -> TRUE
Clauses == {"panic", "hang", "alloc", "expect"}
Fails == {c \in Clauses : ~Holds(c)}
Init == rec \in 1..Len(Recs) /\ done = FALSE
Next == /\ ~done /\ done' = TRUE /\ UNCHANGED rec
        /\ \A c \in Fails : PrintT(<<"REJECT", R.id, 0, c>>)
Spec == Init /\ [][Next]_<<rec, done>>
=============================================================================
