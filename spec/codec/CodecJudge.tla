----------------------------- MODULE CodecJudge -----------------------------
(***************************************************************************)
(* Judges outcomes of the real decoders / encoders (C15, C16).              *)
(* records.ndjson, two kinds of record:                                     *)
(*  kind "fault" (from CodecFaults cases): [id, site, fmt, fault, valid,    *)
(*     len, outcome, rows, allockb, noisy, meshok]                          *)
(*     panic - the decoder returned (data or an error): outcome # panic     *)
(*     hang  - it terminated, and returned at most one row per input byte   *)
(*     alloc - memory allocated <= 4 MiB + 1 KiB per input byte             *)
(*     valid - a file written to the format's specification (the unfaulted  *)
(*             file, with or without the final newline) is accepted and     *)
(*             decodes to the case's mesh (same faces, order, orientation)  *)
(*  kind "rt" (mesh API round trips of MeshCodec cases): [id, site, real,   *)
(*     faces: <<ids>>, cls: <<id>>, out: <<ids>>, err, ordered, colors]     *)
(*     err    - encoding and decoding succeeded                             *)
(*     faces  - the decoded faces are the written ones, vertex by vertex    *)
(*              (cls maps a vertex to the representative of the vertices    *)
(*              that round to the same stored coordinate; 0 = a coordinate  *)
(*              that is not the rounded original), in order where the       *)
(*              format keeps order, as a multiset otherwise                 *)
(*     colors - every vertex colour is unchanged                            *)
(***************************************************************************)
(*  kind "big" (files larger than the decoders' capacity hints): [id, site, *)
(*     nin, nout, same, err]                                               *)
(*     count  - as many faces come back as were written (2^16 + k faces),  *)
(*              each equal to the one written at that position              *)
(***************************************************************************)
EXTENDS Integers, Sequences, FiniteSets, TLC, Json

Recs == ndJsonDeserialize("records.ndjson")
VARIABLES rec, done
R == Recs[rec]

Count(s, x) == Cardinality({i \in 1..Len(s) : s[i] = x})
SameBag(s, t) == Len(s) = Len(t) /\ \A i \in 1..Len(s) : Count(s, s[i]) = Count(t, s[i])
Expected == [i \in 1..Len(R.faces) |-> [k \in 1..Len(R.faces[i]) |-> R.cls[R.faces[i][k]]]]

Holds(c) ==
    IF R.kind = "big" THEN
        CASE c = "err" -> R.err = ""
          [] c = "count" -> R.err # "" \/ (R.nout = R.nin /\ R.same)
          [] OTHER -> TRUE
    ELSE IF R.kind = "fault" THEN
        CASE c = "panic" -> R.outcome \notin {"panic", "crash"}
          [] c = "hang"  -> R.outcome # "hang" /\ R.rows <= R.len + 2
          [] c = "alloc" -> R.noisy \/ R.outcome \in {"panic", "hang", "crash"} \/ R.allockb <= 4096 + R.len
          [] c = "valid" -> R.valid => (R.outcome = "ok" /\ R.meshok)
          [] OTHER -> TRUE
    ELSE
        CASE c = "err"    -> R.err = ""
          [] c = "faces"  -> R.err # "" \/ IF R.ordered THEN R.out = Expected ELSE SameBag(R.out, Expected)
          [] c = "colors" -> R.err # "" \/ R.colors
          [] OTHER -> TRUE
Clauses == {"panic", "hang", "alloc", "valid", "err", "faces", "colors", "count"}
Fails == {c \in Clauses : ~Holds(c)}
Init == rec \in 1..Len(Recs) /\ done = FALSE
Next == /\ ~done /\ done' = TRUE /\ UNCHANGED rec
        /\ \A c \in Fails : PrintT(<<"REJECT", R.id, 0, c>>)
Spec == Init /\ [][Next]_<<rec, done>>
=============================================================================
