---------------------------- MODULE CodecFaults ----------------------------
(***************************************************************************)
(* Mesh file formats as token streams, the fault model of C16 and the       *)
(* "written to the format's specification" variants of C15.                 *)
(*                                                                         *)
(* A file is a sequence of lines; a line is [bin, toks]; a token is         *)
(* [t, v]: t = "w" a text word, otherwise a binary field type (u8, u16,     *)
(* u32, i32, f32, f64, raw80) whose value v is a decimal string.  Text      *)
(* lines are rendered as the words joined by one blank and ended by "\n";   *)
(* binary lines as the concatenated little-endian (PLY big endian: "be")    *)
(* field encodings.  A value "$i:a" stands for coordinate a of vertex i of  *)
(* the case's mesh (the harness substitutes a number; TLC has no floats).   *)
(*                                                                         *)
(* Valid files are produced from an abstract mesh [nv, faces] by the        *)
(* grammar operators below, in every variant the format's specification     *)
(* allows and that the property names (counts on the OFF line or on the     *)
(* next one, final newline or not, "endsolid" with or without a name,       *)
(* polygons of 3-5 vertices).  A fault rewrites the token stream:           *)
(*   cutl(k, nl)   keep the first k lines (nl: keep the final newline)      *)
(*   cutt(k, j, c) keep k-1 lines and j tokens of line k (c = 1: plus one   *)
(*                 byte of the next token)                                  *)
(*   repl(k, j, s) replace the value of token j of line k by s, for every   *)
(*                 s of the adversarial set of its kind                     *)
(*   dropt / dupt(k, j), dropl / dupl(k), blank(k)                          *)
(*   cutb(k) / byte(k, s) / insb(k, s)  the rendered file cut / damaged /   *)
(*                 extended at byte floor(n * k / ByteK)                    *)
(* TLC enumerates (variant x fault) and prints one CASE per pair; the       *)
(* harness renders the bytes and runs every decoder of that format on them; *)
(* CodecJudge judges the recorded outcomes.                                 *)
(***************************************************************************)
EXTENDS Integers, Sequences, FiniteSets, TLC, Json

CONSTANTS Fmt, Tier, OnlyValid

T(n) == ToString(n)
W(s) == [t |-> "w", v |-> s]
F(ty, s) == [t |-> ty, v |-> s]
TL(ws) == [bin |-> FALSE, toks |-> [i \in 1..Len(ws) |-> W(ws[i])]]
BL(fs) == [bin |-> TRUE, toks |-> fs]
C(v, a) == "$" \o T(v) \o ":" \o T(a)

\* ---------------------------------------------------------------- abstract meshes
\* faces are sequences of 0-based vertex indices
Tri1 == [nv |-> 3, faces |-> << <<0, 1, 2>> >>]
Quad2 == [nv |-> 4, faces |-> << <<0, 1, 2>>, <<0, 2, 3>> >>]
Poly == [nv |-> 5, faces |-> << <<0, 1, 2, 3>>, <<0, 3, 4>>, <<4, 3, 2, 1, 0>> >>]
\* concave quadrilaterals (vertex 6 lies inside the pentagon 0..4): reflex corner listed second / fourth, both orientations
Dart == [nv |-> 7, faces |-> << <<4, 0, 1, 6>>, <<1, 6, 4, 0>>, <<0, 4, 6, 1>>, <<6, 4, 0, 1>> >>]
Empty == [nv |-> 0, faces |-> << >>]
Unused == [nv |-> 4, faces |-> << <<3, 1, 0>> >>]

RECURSIVE Flat(_)
Flat(ss) == IF ss = << >> THEN << >> ELSE Head(ss) \o Flat(Tail(ss))
Map(f(_), s) == [i \in 1..Len(s) |-> f(s[i])]

\* ---------------------------------------------------------------- OFF
OffVertex(v) == TL(<<C(v, 1), C(v, 2), C(v, 3)>>)
OffFace(f) == TL(<<T(Len(f))>> \o [i \in 1..Len(f) |-> T(f[i])])
OffFile(m, sameLine) ==
    (IF sameLine THEN <<TL(<<"OFF", T(m.nv), T(Len(m.faces)), "0">>)>>
     ELSE <<TL(<<"OFF">>), TL(<<T(m.nv), T(Len(m.faces)), "0">>)>>)
    \o [v \in 1..m.nv |-> OffVertex(v)]
    \o [i \in 1..Len(m.faces) |-> OffFace(m.faces[i])]

\* ---------------------------------------------------------------- ASCII STL (triangles only)
StlFacet(f) ==
    << TL(<<"facet", "normal", "0", "0", "0">>), TL(<<"outer", "loop">>),
       TL(<<"vertex", C(f[1] + 1, 1), C(f[1] + 1, 2), C(f[1] + 1, 3)>>),
       TL(<<"vertex", C(f[2] + 1, 1), C(f[2] + 1, 2), C(f[2] + 1, 3)>>),
       TL(<<"vertex", C(f[3] + 1, 1), C(f[3] + 1, 2), C(f[3] + 1, 3)>>),
       TL(<<"endloop">>), TL(<<"endfacet">>) >>
StlaFile(m, named) ==
    <<TL(IF named THEN <<"solid", "name">> ELSE <<"solid">>)>>
    \o Flat([i \in 1..Len(m.faces) |-> StlFacet(m.faces[i])])
    \o <<TL(IF named THEN <<"endsolid", "name">> ELSE <<"endsolid">>)>>

\* ---------------------------------------------------------------- binary STL
StlbTri(f) ==
    BL(<<F("f32", "0"), F("f32", "0"), F("f32", "0")>>
       \o Flat([k \in 1..3 |-> <<F("f32", C(f[k] + 1, 1)), F("f32", C(f[k] + 1, 2)), F("f32", C(f[k] + 1, 3))>>])
       \o <<F("u16", "0")>>)
StlbFile(m, solidHdr) ==
    <<BL(<<F(IF solidHdr THEN "raw80s" ELSE "raw80", "0"), F("u32", T(Len(m.faces)))>>)>>
    \o [i \in 1..Len(m.faces) |-> StlbTri(m.faces[i])]

\* ---------------------------------------------------------------- PLY (coloured mesh)
PlyHeader(m, fmt, extra) ==
    << TL(<<"ply">>), TL(<<"format", fmt, "1.0">>) >>
    \o (IF extra = "comment" THEN <<TL(<<"comment", "made", "by", "hand">>)>> ELSE << >>)
    \o << TL(<<"element", "vertex", T(m.nv)>>),
          TL(<<"property", "float", "x">>), TL(<<"property", "float", "y">>), TL(<<"property", "float", "z">>),
          TL(<<"property", "uchar", "red">>), TL(<<"property", "uchar", "green">>), TL(<<"property", "uchar", "blue">>) >>
    \o (IF extra = "edge" THEN << TL(<<"element", "edge", "1">>), TL(<<"property", "int", "x">>),
                                  TL(<<"property", "list", "uchar", "double", "w">>) >> ELSE << >>)
    \o << TL(<<"element", "face", T(Len(m.faces))>>),
          TL(<<"property", "list", IF extra = "biglist" THEN "uint" ELSE IF extra = "signedlist" THEN "int" ELSE "uchar", "int", "vertex_index">>) >>
    \o (IF extra = "tail" THEN << TL(<<"element", "tail", "0">>), TL(<<"property", "int", "q">>) >> ELSE << >>)
    \* a last element without any property: its rows occupy no bytes at all (not claimed to be a valid file)
    \o (IF extra = "noprops" THEN << TL(<<"element", "pad", "2">>) >> ELSE << >>)
    \o << TL(<<"end_header">>) >>
PlyaFile(m, extra) ==
    PlyHeader(m, "ascii", extra)
    \o [v \in 1..m.nv |-> TL(<<C(v, 1), C(v, 2), C(v, 3), T(10 * v), T(20 * v), T(255)>>)]
    \o (IF extra = "edge" THEN <<TL(<<"7", "2", "0.5", "0.25">>)>> ELSE << >>)
    \o [i \in 1..Len(m.faces) |-> OffFace(m.faces[i])]
PlybFile(m, extra, be) ==
    LET e == IF be THEN "be" ELSE "" IN
    PlyHeader(m, IF be THEN "binary_big_endian" ELSE "binary_little_endian", extra)
    \o [v \in 1..m.nv |-> BL(<<F("f32" \o e, C(v, 1)), F("f32" \o e, C(v, 2)), F("f32" \o e, C(v, 3)),
                              F("u8", T(10 * v)), F("u8", T(20 * v)), F("u8", "255")>>)]
    \o (IF extra = "edge" THEN <<BL(<<F("i32" \o e, "7"), F("u8", "2"), F("f64" \o e, "0.5"), F("f64" \o e, "0.25")>>)>>
        ELSE << >>)
    \o [i \in 1..Len(m.faces) |->
          BL(<<F(IF extra = "biglist" THEN "u32" \o e ELSE IF extra = "signedlist" THEN "i32" \o e ELSE "u8", T(Len(m.faces[i])))>>
             \o [k \in 1..Len(m.faces[i]) |-> F("i32" \o e, T(m.faces[i][k]))])]

\* ---------------------------------------------------------------- segment CSV (2-D: axis 1, 2 of two vertices)
CsvFile(m) ==
    [i \in 1..Len(m.faces) |->
        TL(<<C(m.faces[i][1] + 1, 1) \o "," \o C(m.faces[i][1] + 1, 2) \o "," \o
             C(m.faces[i][2] + 1, 1) \o "," \o C(m.faces[i][2] + 1, 2)>>)]

\* ---------------------------------------------------------------- segment CSV, field level (Fmt = "csvf")
\* A row is a sequence of FIELDS (the harness joins them with commas); "~q" stands for a double quote.  Every row of
\* the file carries its own row fault, so the first row, every row, or rows with differing field counts are malformed:
\*   drop(j)   the last j fields are missing (3, 2, 1 fields)      add(j)   j extra fields (5, 6 fields)
\*   trail / lead   a trailing / leading comma (an empty fifth field)      blankline   an empty line (no row)
\*   quoted    every field quoted (a valid CSV rendering of the row)      q1(j)   field j quoted (valid)
\*   qrow      the whole row inside one pair of quotes (one field)
\*   empty(j) / word(j) / lone(j)   field j is empty / "abc" / a lone double quote
\* The case says what the format prescribes: expect = "err" if some row does not consist of four numbers, "ok" (with the
\* segments of the rows, in order) if every line is such a row, "any" if the only irregularity is blank lines (the csv
\* package skips them; an error would be acceptable too).
SegMesh == [nv |-> 4, faces |-> << <<0, 1>>, <<1, 2>>, <<2, 3>> >>]
CsvNum(f, p) == C(f[((p - 1) \div 2) + 1] + 1, ((p - 1) % 2) + 1)
Q == "~q"
RowFaults == { [kd |-> k, j |-> 0] : k \in {"ok", "trail", "lead", "blankline", "quoted", "qrow"} }
             \cup { [kd |-> "drop", j |-> j] : j \in 1..3 } \cup { [kd |-> "add", j |-> j] : j \in 1..2 }
             \cup { [kd |-> k, j |-> j] : k \in {"empty", "word", "q1", "lone"}, j \in 1..4 }
CsvFields(f, x) ==
    LET g == [p \in 1..4 |-> CsvNum(f, p)] IN
    CASE x.kd = "ok" -> g
      [] x.kd = "drop" -> SubSeq(g, 1, 4 - x.j)
      [] x.kd = "add" -> g \o [i \in 1..x.j |-> "7"]
      [] x.kd = "trail" -> g \o <<"">>
      [] x.kd = "lead" -> <<"">> \o g
      [] x.kd = "blankline" -> << >>
      [] x.kd = "quoted" -> [p \in 1..4 |-> Q \o g[p] \o Q]
      [] x.kd = "qrow" -> << Q \o g[1] \o "," \o g[2] \o "," \o g[3] \o "," \o g[4] \o Q >>
      [] x.kd = "empty" -> [g EXCEPT ![x.j] = ""]
      [] x.kd = "word" -> [g EXCEPT ![x.j] = "abc"]
      [] x.kd = "q1" -> [g EXCEPT ![x.j] = Q \o @ \o Q]
      [] x.kd = "lone" -> [g EXCEPT ![x.j] = Q]
RowGood(x) == x.kd \in {"ok", "quoted", "q1"}
RowBad(x) == ~RowGood(x) /\ x.kd # "blankline"
RowName(x) == x.kd \o (IF x.j = 0 THEN "" ELSE T(x.j))
RECURSIVE Names(_, _), Wanted(_, _)
Names(xs, k) == IF k = 0 THEN "" ELSE Names(xs, k - 1) \o (IF k = 1 THEN "" ELSE "/") \o RowName(xs[k])
Wanted(xs, k) == IF k = 0 THEN << >>
                 ELSE Wanted(xs, k - 1) \o (IF RowGood(xs[k]) THEN <<SegMesh.faces[k]>> ELSE << >>)
RowSeqs == LET n == IF Tier = "quick" THEN 2 ELSE 3 IN
           UNION { [1..k -> RowFaults] : k \in 1..n } \cup { [k \in 1..3 |-> x] : x \in RowFaults }
CsvfCase(xs, nl) ==
    [fmt |-> Fmt, mesh |-> SegMesh, var |-> "fields", nlines |-> Len(xs),
     fault |-> [kind |-> "rows", k |-> Len(xs), j |-> nl, s |-> Names(xs, Len(xs))],
     file |-> [lines |-> [k \in 1..Len(xs) |-> TL(CsvFields(SegMesh.faces[k], xs[k]))], nl |-> nl, cut |-> 0],
     expect |-> IF \E k \in 1..Len(xs) : RowBad(xs[k]) THEN "err"
                ELSE IF \E k \in 1..Len(xs) : xs[k].kd = "blankline" THEN "any" ELSE "ok",
     want |-> Wanted(xs, Len(xs))]
CsvfCases == { CsvfCase(xs, nl) : xs \in RowSeqs, nl \in 0..1 }

\* ---------------------------------------------------------------- valid variants
TriMeshes == IF Tier = "quick" THEN {Tri1, Quad2} ELSE {Tri1, Quad2, Empty, Unused}
PlyMeshes == IF Tier = "quick" /\ ~OnlyValid THEN {Tri1} ELSE TriMeshes
Variants ==
    CASE Fmt = "off"  -> { [mesh |-> m, var |-> IF s THEN "sameline" ELSE "nextline", lines |-> OffFile(m, s)] :
                              m \in TriMeshes \cup {Poly, Dart}, s \in BOOLEAN }
      [] Fmt = "stla" -> { [mesh |-> m, var |-> IF n THEN "named" ELSE "anonymous", lines |-> StlaFile(m, n)] :
                              m \in TriMeshes, n \in BOOLEAN }
      [] Fmt = "stlb" -> { [mesh |-> m, var |-> IF s THEN "solid-header" ELSE "zero-header", lines |-> StlbFile(m, s)] :
                              m \in TriMeshes, s \in BOOLEAN }
      [] Fmt = "plya" -> { [mesh |-> m, var |-> x, lines |-> PlyaFile(m, x)] :
                              m \in PlyMeshes, x \in {"plain", "comment", "edge", "tail", "biglist", "signedlist"} \cup (IF OnlyValid THEN {} ELSE {"noprops"}) }
      [] Fmt = "plyb" -> { [mesh |-> m, var |-> x \o (IF b THEN "-be" ELSE "-le"), lines |-> PlybFile(m, x, b)] :
                              m \in PlyMeshes, x \in {"plain", "edge", "tail", "biglist", "signedlist"} \cup (IF OnlyValid THEN {} ELSE {"noprops"}), b \in BOOLEAN }
      [] Fmt = "csv"  -> { [mesh |-> m, var |-> "plain", lines |-> CsvFile(m)] : m \in TriMeshes }

\* ---------------------------------------------------------------- faults
AdvWord == {"-1", "0", "1", "2", "3", "255", "256", "4194304", "2147483647", "4294967296",
            "9223372036854775807", "-9223372036854775808", "9223372036854775808", "18446744073709551615",
            "18446744073709551616", "+3", "3.0", "abc", "NaN", "1e999", "0x10", "-"}
AdvKey == {"element", "property", "list", "uchar", "int8", "uint", "int", "float64", "ushort", "end_header", "comment",
           "vertex", "face", "x", "solid", "endsolid", "facet", "endfacet", "OFF", "binary_big_endian"}
AdvBin == {"0", "1", "3", "127", "128", "255", "65535", "4194304", "2147483647", "2147483648", "4294967295"}
KeyWords == AdvKey \cup {"name", "normal", "outer", "loop", "endloop", "ply", "format", "ascii", "1.0", "made", "by", "hand",
                          "float", "double", "y", "z", "red", "green", "blue", "edge", "w", "tail", "q", "vertex_index",
                          "binary_little_endian"}
IsNumber(s) == s \notin KeyWords
Adv(tok) == IF tok.t = "w" THEN (IF IsNumber(tok.v) THEN AdvWord ELSE AdvKey \cup {"0"})
            ELSE IF tok.t \in {"raw80", "raw80s"} THEN {} ELSE AdvBin

NoFault == [kind |-> "none", k |-> 0, j |-> 0, s |-> ""]
\* A text file may lack the newline after its last DATA line.  The header terminator of a PLY file
\* is the line "end_header<newline>" (it delimits the body, which may be binary), so a header-only
\* file without that newline is not claimed to be valid.
EndsWithHeader(f) == Len(f[Len(f)].toks) > 0 /\ f[Len(f)].toks[1].v = "end_header"
ValidFaults(f) == {NoFault} \cup (IF Len(f) > 0 /\ ~f[Len(f)].bin /\ ~EndsWithHeader(f)
                                   THEN {[kind |-> "cutl", k |-> Len(f), j |-> 0, s |-> ""]} ELSE {})
\* Byte-level faults act on the rendered file of n bytes at the position floor(n * k / ByteK): the file cut there,
\* the byte there replaced by, or a byte inserted there with, every value of AdvBytes (NUL, 0xFF, 0x80, '-', '9',
\* 'e', blank, newline).  They reach what no token rewrite does: cuts and damage inside numbers, keywords and
\* binary fields.
ByteK == IF Tier = "quick" THEN 24 ELSE 96
AdvBytes == {"0", "255", "128", "45", "57", "101", "32", "10"}
ByteFaults == { [kind |-> "cutb", k |-> k, j |-> ByteK, s |-> ""] : k \in 0..ByteK }
              \cup { [kind |-> kd, k |-> k, j |-> ByteK, s |-> s] : kd \in {"byte", "insb"}, k \in 0..(ByteK - 1), s \in AdvBytes }
Faults(f) ==
    IF OnlyValid THEN ValidFaults(f) ELSE
    {NoFault}
    \cup { [kind |-> "cutl", k |-> k, j |-> nl, s |-> ""] : k \in 0..Len(f), nl \in 0..1 }
    \cup { [kind |-> "cutt", k |-> k, j |-> j, s |-> T(c)] :
              k \in 1..Len(f), j \in 0..4, c \in 0..1 }
    \cup UNION { UNION { { [kind |-> "repl", k |-> k, j |-> j, s |-> s] : s \in Adv(f[k].toks[j]) \ {f[k].toks[j].v} } :
                           j \in 1..Len(f[k].toks) } : k \in 1..Len(f) }
    \cup { [kind |-> kd, k |-> k, j |-> j, s |-> ""] : kd \in {"dropt", "dupt"}, k \in 1..Len(f), j \in 1..5 }
    \cup { [kind |-> kd, k |-> k, j |-> 0, s |-> ""] : kd \in {"dropl", "dupl", "blank"}, k \in 1..Len(f) }
    \cup ByteFaults

WellFormed(f, x) ==
    CASE x.kind \in {"repl", "dropt", "dupt"} -> x.j <= Len(f[x.k].toks)
      [] x.kind = "cutt" -> x.j < Len(f[x.k].toks) /\ (x.s = "0" \/ f[x.k].bin)
      [] OTHER -> TRUE

Remove(s, j) == SubSeq(s, 1, j - 1) \o SubSeq(s, j + 1, Len(s))
Apply(f, x) ==
    CASE x.kind = "none" -> [lines |-> f, nl |-> 1, cut |-> 0]
      [] x.kind = "cutl" -> [lines |-> SubSeq(f, 1, x.k), nl |-> x.j, cut |-> 0]
      [] x.kind = "cutt" -> [lines |-> SubSeq(f, 1, x.k - 1) \o <<[f[x.k] EXCEPT !.toks = SubSeq(@, 1, x.j)]>>,
                             nl |-> 0, cut |-> IF x.s = "1" THEN 1 ELSE 0]
      [] x.kind = "repl" -> [lines |-> [f EXCEPT ![x.k].toks[x.j].v = x.s], nl |-> 1, cut |-> 0]
      [] x.kind = "dropt" -> [lines |-> [f EXCEPT ![x.k].toks = Remove(@, x.j)], nl |-> 1, cut |-> 0]
      [] x.kind = "dupt" -> [lines |-> [f EXCEPT ![x.k].toks = SubSeq(@, 1, x.j) \o SubSeq(@, x.j, Len(@))], nl |-> 1, cut |-> 0]
      [] x.kind = "dropl" -> [lines |-> Remove(f, x.k), nl |-> 1, cut |-> 0]
      [] x.kind = "dupl" -> [lines |-> SubSeq(f, 1, x.k) \o SubSeq(f, x.k, Len(f)), nl |-> 1, cut |-> 0]
      [] x.kind = "blank" -> [lines |-> SubSeq(f, 1, x.k) \o <<TL(<< >>)>> \o SubSeq(f, x.k + 1, Len(f)), nl |-> 1, cut |-> 0]
      \* applied by the renderer to the bytes of the unfaulted file
      [] x.kind \in {"cutb", "byte", "insb"} -> [lines |-> f, nl |-> 1, cut |-> 0]

\* the "none" fault in both newline variants is the C15 clause "text written to the
\* format's specification is read back"
CasesOf(v) == { [fmt |-> Fmt, mesh |-> v.mesh, var |-> v.var, nlines |-> Len(v.lines), fault |-> x, file |-> Apply(v.lines, x)] :
                   x \in {y \in Faults(v.lines) : WellFormed(v.lines, y)} }
Cases == IF Fmt = "csvf" THEN CsvfCases ELSE UNION { CasesOf(v) : v \in Variants }

VARIABLES c, done
Init == c \in Cases /\ done = FALSE
Next == /\ ~done /\ done' = TRUE /\ UNCHANGED c
        /\ PrintT(<<"CASE", ToJson(c)>>)
Spec == Init /\ [][Next]_<<c, done>>
=============================================================================
