---------------------------- MODULE PlyProtocol ----------------------------
(***************************************************************************)
(* The row protocol of counted-element streams: fileformats.PLYWriter /     *)
(* PLYReader (and, with one element and no buffering, STLWriter/STLReader   *)
(* and OFFReader).  C15 (protocol half), C16 (reader progress).             *)
(*                                                                         *)
(* A header declares a sequence of elements, element i with counts[i] rows. *)
(* The writer is handed rows one at a time and decides itself which element *)
(* a row belongs to (it validates the number of fields against that         *)
(* element's layout, so a wrong attribution corrupts or rejects the file);  *)
(* it buffers and promises "the full file will always be flushed by the     *)
(* time the last element is written".  The reader hands rows back with the  *)
(* element they belong to and reports io.EOF after the last declared row.   *)
(*                                                                         *)
(* The ACTIONS below are a transcription of the code (one action per public *)
(* call; the writer's nextElement skip loop, its isDone test, the reader's  *)
(* skip loop).  The REQUIREMENTS are state predicates over the abstract      *)
(* state (rows accepted w, rows in the sink `sunk`, rows returned r); TLC   *)
(* checks them for every header with <= MaxEl elements and counts           *)
(* 0..MaxCount (mode E), and PlyTrace replays traces of the real writer and *)
(* reader through the same actions (mode V).                                *)
(***************************************************************************)
EXTENDS Integers, Sequences, FiniteSets, TLC

CONSTANTS MaxEl, MaxCount

VARIABLES
    counts,   \* header: counts[i] = declared rows of element i
    ph,       \* "hdr" | "write" | "read" | "done"
    wcur, wn, \* writer: curElement (1-based), curElementWritten
    w,        \* rows accepted by the writer
    sunk,     \* rows that have reached the underlying io.Writer completely
    rcur, rn, \* reader: curElement, curElementRead
    r,        \* rows returned by the reader
    last      \* result of the last call: [op, res, el]

vars == <<counts, ph, wcur, wn, w, sunk, rcur, rn, r, last>>

RECURSIVE SumTo(_, _)
SumTo(cs, i) == IF i = 0 THEN 0 ELSE cs[i] + SumTo(cs, i - 1)
TotalOf(cs) == SumTo(cs, Len(cs))
\* the element that owns the k-th row of the file (1 <= k <= Total)
ElemOfIn(cs, k) == CHOOSE i \in 1..Len(cs) : SumTo(cs, i - 1) < k /\ k <= SumTo(cs, i)
Total == TotalOf(counts)
ElemOf(k) == ElemOfIn(counts, k)
NEl == Len(counts)

\* ---------------------------------------------------------------- code-shaped steps
\* PLYWriter.nextElement: skip every element whose declared count is reached
RECURSIVE SkipW(_, _, _)
SkipW(cs, cur, n) == IF cur <= Len(cs) /\ n >= cs[cur] THEN SkipW(cs, cur + 1, 0) ELSE <<cur, n>>

\* PLYWriter.isDone after a successful write, as coded: no declared row remains, i.e. the
\* current element and every later one is exhausted.  (Before the repair recorded in
\* known_findings.json the code only tested "in the last element and its rows are written",
\* which TLC refuted with counts <<0, 1, 0>>.)
RECURSIVE RestDone(_, _, _)
RestDone(cs, i, n) == IF i > Len(cs) THEN TRUE ELSE n >= cs[i] /\ RestDone(cs, i + 1, 0)
IsDoneW(cs, cur, n) == RestDone(cs, cur, n)

Init == /\ counts = <<>> /\ ph = "hdr"
        /\ wcur = 1 /\ wn = 0 /\ w = 0 /\ sunk = 0
        /\ rcur = 1 /\ rn = 0 /\ r = 0
        /\ last = [op |-> "none", res |-> "ok", el |-> 0]

AddElement(c) == /\ ph = "hdr" /\ Len(counts) < MaxEl
                 /\ counts' = Append(counts, c)
                 /\ UNCHANGED <<ph, wcur, wn, w, sunk, rcur, rn, r, last>>

\* NewPLYWriter: writes and flushes the header
Open == /\ ph = "hdr" /\ Len(counts) > 0
        /\ ph' = "write"
        /\ last' = [op |-> "open", res |-> "ok", el |-> 0]
        /\ UNCHANGED <<counts, wcur, wn, w, sunk, rcur, rn, r>>

\* PLYWriter.Write(row); s = complete rows in the sink afterwards (the bufio layer may
\* pass any prefix on; it must pass everything on when isDone)
Write(s) ==
    /\ ph = "write"
    /\ LET sk == SkipW(counts, wcur, wn) IN
       IF sk[1] > NEl
       THEN /\ wcur' = sk[1] /\ wn' = sk[2]
            /\ last' = [op |-> "write", res |-> "err", el |-> 0]
            /\ s = sunk
            /\ UNCHANGED <<w, sunk>>
       ELSE /\ wcur' = sk[1] /\ wn' = sk[2] + 1
            /\ w' = w + 1
            /\ last' = [op |-> "write", res |-> "ok", el |-> sk[1]]
            /\ s \in sunk..(w + 1)
            /\ (IsDoneW(counts, sk[1], sk[2] + 1) => s = w + 1)
            /\ sunk' = s
    /\ UNCHANGED <<counts, ph, rcur, rn, r>>

\* the sink is handed to NewPLYReader
StartRead == /\ ph = "write"
             /\ ph' = "read"
             /\ last' = [op |-> "ropen", res |-> "ok", el |-> 0]
             /\ UNCHANGED <<counts, wcur, wn, w, sunk, rcur, rn, r>>

\* PLYReader.Read
RECURSIVE SkipR(_, _, _)
SkipR(cs, cur, n) == IF cur <= Len(cs) /\ n >= cs[cur] THEN SkipR(cs, cur + 1, 0) ELSE <<cur, n>>

Read ==
    /\ ph = "read"
    /\ LET sk == SkipR(counts, rcur, rn) IN
       IF sk[1] > NEl
       THEN /\ rcur' = sk[1] /\ rn' = sk[2]
            /\ last' = [op |-> "read", res |-> "eof", el |-> 0]
            /\ UNCHANGED r
       ELSE IF r < sunk
       THEN /\ rcur' = sk[1] /\ rn' = sk[2] + 1
            /\ r' = r + 1
            /\ last' = [op |-> "read", res |-> "row", el |-> sk[1]]
       ELSE \* the sink ends before the declared rows do
            /\ last' = [op |-> "read", res |-> "err", el |-> 0]
            /\ UNCHANGED <<rcur, rn, r>>
    /\ UNCHANGED <<counts, ph, wcur, wn, w, sunk>>

Stop == /\ ph = "read" /\ ph' = "done"
        /\ UNCHANGED <<counts, wcur, wn, w, sunk, rcur, rn, r, last>>

Next == \/ \E c \in 0..MaxCount : AddElement(c)
        \/ Open
        \/ \E s \in 0..(MaxEl * MaxCount) : Write(s)
        \/ StartRead
        \/ Read
        \/ Stop
Spec == Init /\ [][Next]_vars

\* ---------------------------------------------------------------- requirements
TypeOK == /\ w \in 0..Total /\ sunk \in 0..w /\ r \in 0..sunk
          /\ ph \in {"hdr", "write", "read", "done"}

\* a row is attributed to the element that owns its position in the file
WriteAttribution == (last.op = "write" /\ last.res = "ok") => last.el = ElemOf(w)
\* exactly the declared number of rows is accepted
WriteCount == (last.op = "write" /\ last.res = "err") => w = Total
\* "the full file will always be flushed by the time the last element is written"
FlushedWhenComplete == (ph = "write" /\ w = Total) => sunk = Total
\* rows come back in file order with their element; EOF exactly after the last row;
\* an error only when the stream really lacks a declared row
ReadAttribution == (last.op = "read" /\ last.res = "row") => last.el = ElemOf(r)
ReadEOF == (last.op = "read" /\ last.res = "eof") => r = Total
ReadErr == (last.op = "read" /\ last.res = "err") => (r = sunk /\ sunk < Total)
Requirements == /\ WriteAttribution /\ WriteCount /\ FlushedWhenComplete
                /\ ReadAttribution /\ ReadEOF /\ ReadErr

\* bound for mode E: the harness writes Total rows plus one surplus row
Bounded == w <= Total
=============================================================================
