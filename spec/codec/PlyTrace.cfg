SPECIFICATION TSpec
CONSTANTS
  MaxEl = 9
  MaxCount = 99
INVARIANTS EndOK
CHECK_DEADLOCK FALSE
