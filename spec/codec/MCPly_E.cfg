SPECIFICATION Spec
CONSTANTS
  MaxEl = 3
  MaxCount = 2
INVARIANTS TypeOK WriteAttribution WriteCount ReadAttribution ReadEOF ReadErr Emit
CHECK_DEADLOCK FALSE
