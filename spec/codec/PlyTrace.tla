------------------------------ MODULE PlyTrace ------------------------------
(***************************************************************************)
(* Validation of traces recorded from the real fileformats.PLYWriter /      *)
(* PLYReader (and STLWriter / STLReader as the one-element, unbuffered      *)
(* instance) against PlyProtocol (mode V).                                  *)
(*                                                                         *)
(* records.ndjson, one record per stream:                                   *)
(*   [id, site, fmt, counts: <<n...>>, ev: <<[op, res, el, sunk, ok]>>]     *)
(*   op = "open"  : NewPLYWriter; ok = the header decodes to itself         *)
(*      = "write" : Write(row k); res ok|err; sunk = complete rows in the   *)
(*                  sink afterwards; ok = the sink is a prefix of the        *)
(*                  harness's own encoding of the rows handed over          *)
(*      = "ropen" : NewPLYReader on the sink                                *)
(*      = "read"  : Read(); res row|eof|err; el = index of the returned     *)
(*                  element; ok = values equal the row written at that      *)
(*                  position                                                *)
(* The harness gives element i a layout with a distinct number of           *)
(* properties, so a row attributed to the wrong element is refused by the   *)
(* writer ("declared n properties but writing m fields") and shows as a     *)
(* res mismatch.  The element chosen by the writer is not logged: TLC       *)
(* infers it (it is determined by the action).                              *)
(* Every event must be a step of PlyProtocol with the logged result, and    *)
(* the Requirements of PlyProtocol must hold in every state of the trace.   *)
(***************************************************************************)
EXTENDS PlyProtocol, Json

Recs == ndJsonDeserialize("records.ndjson")
VARIABLES rec, l, status
tvars == <<counts, ph, wcur, wn, w, sunk, rcur, rn, r, last, rec, l, status>>
R == Recs[rec]
E == R.ev[l]

TInit == /\ rec \in 1..Len(Recs) /\ l = 1 /\ status = "run"
         /\ counts = Recs[rec].counts /\ ph = "hdr"
         /\ wcur = 1 /\ wn = 0 /\ w = 0 /\ sunk = 0
         /\ rcur = 1 /\ rn = 0 /\ r = 0
         /\ last = [op |-> "none", res |-> "ok", el |-> 0]

Step(e) ==
    \/ e.op = "open"  /\ e.res = "ok" /\ e.ok /\ Open
    \/ e.op = "write" /\ e.ok /\ Write(e.sunk) /\ last'.res = e.res
    \/ e.op = "ropen" /\ e.res = "ok" /\ StartRead
    \/ e.op = "read"  /\ Read /\ last'.res = e.res
                      /\ (e.res = "row" => (e.ok /\ e.el = last'.el))

Walk == /\ status = "run" /\ l <= Len(R.ev)
        /\ IF ENABLED Step(E)
           THEN /\ Step(E) /\ l' = l + 1 /\ UNCHANGED rec
                /\ IF Requirements'
                   THEN status' = status
                   ELSE /\ PrintT(<<"REJECT", R.id, l,
                                    IF ~FlushedWhenComplete' THEN "flush"
                                    ELSE IF ~(WriteAttribution' /\ WriteCount') THEN "write"
                                    ELSE "read">>)
                        /\ status' = "rej"
           ELSE /\ PrintT(<<"REJECT", R.id, l, "conform:" \o E.op>>)
                /\ status' = "rej"
                /\ UNCHANGED <<counts, ph, wcur, wn, w, sunk, rcur, rn, r, last, rec, l>>
Finish == /\ status = "run" /\ l > Len(R.ev)
          /\ status' = "done"
          /\ UNCHANGED <<counts, ph, wcur, wn, w, sunk, rcur, rn, r, last, rec, l>>
Term == status # "run" /\ UNCHANGED tvars
TNext == Walk \/ Finish \/ Term
TSpec == TInit /\ [][TNext]_tvars

\* a finished trace wrote every declared row, read every row back and saw EOF
EndOK == status = "done" => (w = Total /\ r = Total)
=============================================================================
