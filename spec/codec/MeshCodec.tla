----------------------------- MODULE MeshCodec -----------------------------
(***************************************************************************)
(* Abstract meshes for the round-trip clauses of C15: every sequence of at  *)
(* most MaxF faces over vertex names 1..NV (shared and repeated vertices,   *)
(* duplicate faces, degenerate faces, both orientations, every order).      *)
(* The harness realises the vertex names with coordinates (plain integers;  *)
(* values at the limits of float32 incl. -0 and subnormals; a pair of       *)
(* vertices that differ in float64 but round to the same float32) and       *)
(* colours, pushes each mesh through every writer/reader pair of the mesh   *)
(* API and records the decoded faces as vertex names again; CodecJudge      *)
(* compares.  ARITY = 3 for triangles, 2 for segments (CSV).                *)
(***************************************************************************)
EXTENDS Integers, Sequences, FiniteSets, TLC, Json
CONSTANTS NV, MaxF, ARITY
Faces == [1..ARITY -> 1..NV]
Meshes == UNION { [1..n -> Faces] : n \in 0..MaxF }
VARIABLES m, done
Init == m \in Meshes /\ done = FALSE
Next == /\ ~done /\ done' = TRUE /\ UNCHANGED m
        /\ PrintT(<<"CASE", ToJson(m)>>)
Spec == Init /\ [][Next]_<<m, done>>
=============================================================================
