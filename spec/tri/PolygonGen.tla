----------------------------- MODULE PolygonGen -----------------------------
(***************************************************************************)
(* Mode R for C14: every simple polygon with at most MaxV vertices on the   *)
(* GX x GY integer grid, grown vertex by vertex (an extension that makes    *)
(* the chain touch itself is pruned at once), colinear runs included.  Each *)
(* polygon is emitted once: its first vertex is its lexicographic minimum   *)
(* and its second vertex is smaller than its last; the harness presents it  *)
(* to the code in every rotation and both orientations.                     *)
(***************************************************************************)
EXTENDS Polygon, Json
CONSTANTS GX, GY, MaxV
VARIABLES chain
Pts == (0..(GX - 1)) \X (0..(GY - 1))
Less(p, q) == p[1] < q[1] \/ (p[1] = q[1] /\ p[2] < q[2])
n == Len(chain)
\* the open chain stays simple when p is appended
CanExtend(p) ==
    /\ \A i \in 1..n : chain[i] # p
    /\ Less(chain[1], p)
    /\ \A i \in 1..(n - 2) : ~Meet(chain[i], chain[i + 1], chain[n], p)
    /\ n >= 2 => (Cross(chain[n], chain[n - 1], p) # 0 \/ Dot(chain[n], chain[n - 1], p) < 0)
Init == chain \in {<<p>> : p \in Pts}
Next == \E p \in Pts : n < MaxV /\ CanExtend(p) /\ chain' = Append(chain, p)
Spec == Init /\ [][Next]_chain
Closed == n >= 3 /\ Less(chain[2], chain[n]) /\ Simple(chain)
Emit == Closed => PrintT(<<"CASE", ToJson(chain)>>)
=============================================================================
