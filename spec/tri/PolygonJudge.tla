----------------------------- MODULE PolygonJudge -----------------------------
(***************************************************************************)
(* Mode V for C14: judges triangulations produced by the real code against  *)
(* the definition in Polygon.tla.                                           *)
(* records.ndjson: [id, site, variant, rings: <<ring>> (as handed to the    *)
(*   code; rings[1] is the outer ring), tris: <<<<i, j, k>>>> (indices into *)
(*   the concatenation of the rings; 0 = a coordinate that is not an input  *)
(*   vertex), outcome: "ok" | "panic" | "hang", clockwise: BOOLEAN (the API *)
(*   documents clockwise output), colinear: BOOLEAN (the API may drop       *)
(*   colinear input vertices), extrude: [h, faces: <<<<a, b, c>>>>, nv,     *)
(*   vol6, volx] for ProfileMesh (h = 0 otherwise)]                         *)
(* Clauses                                                                 *)
(*  terminates  the call returned (no panic such as "no ears detected",     *)
(*              no hang) on a valid simple input                            *)
(*  verts       only input vertices are used                                *)
(*  inside      every triangle lies inside the region                       *)
(*  overlap     triangles have pairwise disjoint interiors                  *)
(*  area        the doubled areas sum to the region's doubled area          *)
(*  clockwise   documented orientation                                      *)
(*  extrude     ProfileMesh: closed oriented manifold (every directed edge  *)
(*              once, its reverse once, vertex fans connected) with         *)
(*              6 * volume = 3 * doubled area * height                      *)
(***************************************************************************)
EXTENDS Polygon, Json

Recs == ndJsonDeserialize("records.ndjson")
VARIABLES rec, done
R == Recs[rec]
RECURSIVE Concat(_, _)
Concat(rs, k) == IF k = 0 THEN << >> ELSE Concat(rs, k - 1) \o rs[k]
V == Concat(R.rings, Len(R.rings))
KnownVerts == \A i \in 1..Len(R.tris) : \A j \in 1..3 : R.tris[i][j] # 0
T == [i \in 1..Len(R.tris) |-> <<V[R.tris[i][1]], V[R.tris[i][2]], V[R.tris[i][3]]>>]

\* ---- extruded mesh as an abstract complex ----
F == R.extrude.faces
DirEdges == { <<F[i][j], F[i][(j % 3) + 1]>> : i \in 1..Len(F), j \in 1..3 }
CountDir(e) == Cardinality({ <<i, j>> \in (1..Len(F)) \X (1..3) : <<F[i][j], F[i][(j % 3) + 1]>> = e })
ClosedOriented == \A e \in DirEdges : CountDir(e) = 1 /\ CountDir(<<e[2], e[1]>>) = 1
FacesAt(v) == { i \in 1..Len(F) : \E j \in 1..3 : F[i][j] = v }
Adj(i, k, v) == \E a \in 1..3, b \in 1..3 : F[i][a] # v /\ F[i][a] = F[k][b]
RECURSIVE Grow(_, _)
Grow(S, v) == LET S2 == S \cup { k \in FacesAt(v) : \E i \in S : Adj(i, k, v) } IN IF S2 = S THEN S ELSE Grow(S2, v)
FanConnected(v) == LET A == FacesAt(v) IN A = {} \/ Grow({CHOOSE i \in A : TRUE}, v) = A
ExtrudeOK == R.extrude.h = 0 \/
             ( /\ Len(F) > 0 /\ ClosedOriented
               /\ \A v \in 1..R.extrude.nv : FanConnected(v)
               /\ R.extrude.volx
               /\ R.extrude.vol6 = 3 * RegionArea2(R.rings, Len(R.rings)) * R.extrude.h )

Holds(c) ==
    CASE c = "terminates" -> R.outcome = "ok"
      [] R.outcome # "ok" -> TRUE
      [] c = "verts" -> KnownVerts
      [] ~KnownVerts -> TRUE
      [] c = "extrude" -> ExtrudeOK
      [] R.extrude.h # 0 -> TRUE                      \* ProfileMesh records carry no 2-D triangles
      [] c = "inside" -> Inside(R.rings, T)
      [] c = "overlap" -> NoOverlap(T)
      [] c = "area" -> ExactArea(R.rings, T)
      [] c = "clockwise" -> ~R.clockwise \/ Clockwise(T)
      [] OTHER -> TRUE
Clauses == {"terminates", "verts", "inside", "overlap", "area", "clockwise", "extrude"}
Fails == {c \in Clauses : ~Holds(c)}
\* the input is a valid region (otherwise the record is outside the property): checked, not assumed
ValidInput == \A k \in 1..Len(R.rings) : Simple(R.rings[k])
Init == rec \in 1..Len(Recs) /\ done = FALSE
Next == /\ ~done /\ done' = TRUE /\ UNCHANGED rec
        /\ (IF ValidInput THEN \A c \in Fails : PrintT(<<"REJECT", R.id, 0, c>>)
            ELSE PrintT(<<"REJECT", R.id, 0, "invalid-input">>))
Spec == Init /\ [][Next]_<<rec, done>>
=============================================================================
