------------------------------- MODULE Polygon -------------------------------
(***************************************************************************)
(* Integer polygon geometry for C14: orientation, proper crossing, simple   *)
(* polygons, doubled area, point in region (exact winding number), and the  *)
(* definition of a valid triangulation of a polygonal region.               *)
(* A point is <<x, y>>; a ring is a sequence of points (closed implicitly). *)
(***************************************************************************)
EXTENDS Integers, Sequences, FiniteSets, TLC

Cross(o, a, b) == (a[1] - o[1]) * (b[2] - o[2]) - (a[2] - o[2]) * (b[1] - o[1])
Dot(o, a, b) == (a[1] - o[1]) * (b[1] - o[1]) + (a[2] - o[2]) * (b[2] - o[2])
Sgn(x) == IF x > 0 THEN 1 ELSE IF x < 0 THEN -1 ELSE 0
Abs(x) == IF x < 0 THEN -x ELSE x
Min2(a, b) == IF a < b THEN a ELSE b
Max2(a, b) == IF a < b THEN b ELSE a
\* c lies on the closed segment ab
OnSeg(a, b, c) == /\ Cross(a, b, c) = 0
                  /\ Min2(a[1], b[1]) <= c[1] /\ c[1] <= Max2(a[1], b[1])
                  /\ Min2(a[2], b[2]) <= c[2] /\ c[2] <= Max2(a[2], b[2])
\* the closed segments ab and cd have a common point
Meet(a, b, c, d) ==
    \/ /\ Sgn(Cross(a, b, c)) * Sgn(Cross(a, b, d)) < 0
       /\ Sgn(Cross(c, d, a)) * Sgn(Cross(c, d, b)) < 0
    \/ OnSeg(a, b, c) \/ OnSeg(a, b, d) \/ OnSeg(c, d, a) \/ OnSeg(c, d, b)
\* the open segments cross at a single interior point of both
ProperCross(a, b, c, d) == /\ Sgn(Cross(a, b, c)) * Sgn(Cross(a, b, d)) < 0
                           /\ Sgn(Cross(c, d, a)) * Sgn(Cross(c, d, b)) < 0

Nxt(r, i) == r[(i % Len(r)) + 1]
RECURSIVE Area2Upto(_, _)
Area2Upto(r, i) == IF i = 0 THEN 0 ELSE r[i][1] * Nxt(r, i)[2] - Nxt(r, i)[1] * r[i][2] + Area2Upto(r, i - 1)
Area2(r) == Area2Upto(r, Len(r))          \* twice the signed area; > 0 counter-clockwise (y up)

\* a ring is simple: non-adjacent edges are disjoint, adjacent edges share only their endpoint
Simple(r) ==
    LET n == Len(r) IN
    /\ n >= 3
    /\ \A i, j \in 1..n : i < j => r[i] # r[j]
    /\ \A i, j \in 1..n : i < j =>
          IF j = i + 1 \/ (i = 1 /\ j = n)
          THEN \* adjacent edges: the far endpoints must not fold back onto the other edge
               LET s == IF j = i + 1 THEN r[j] ELSE r[1]            \* shared vertex
                   p == IF j = i + 1 THEN r[i] ELSE r[n]            \* start of the first edge
                   q == IF j = i + 1 THEN Nxt(r, j) ELSE r[2] IN    \* end of the second edge
               Cross(s, p, q) # 0 \/ Dot(s, p, q) < 0
          ELSE ~Meet(r[i], Nxt(r, i), r[j], Nxt(r, j))
    /\ Area2(r) # 0

\* winding number of ring r around point p (p not on the ring); all points may be pre-scaled
RECURSIVE WindUpto(_, _, _)
WindUpto(r, p, i) ==
    IF i = 0 THEN 0 ELSE
    LET a == r[i] b == Nxt(r, i) IN
    (IF a[2] <= p[2] THEN (IF b[2] > p[2] /\ Cross(a, b, p) > 0 THEN 1 ELSE 0)
                     ELSE (IF b[2] <= p[2] /\ Cross(a, b, p) < 0 THEN -1 ELSE 0))
    + WindUpto(r, p, i - 1)
Wind(r, p) == WindUpto(r, p, Len(r))
OnRing(r, p) == \E i \in 1..Len(r) : OnSeg(r[i], Nxt(r, i), p)
Scale(r, k) == [i \in 1..Len(r) |-> <<k * r[i][1], k * r[i][2]>>]

\* a region: outer ring + hole rings (even-odd).  p strictly inside / in the closure
InRegionClosed(rings, p) ==
    \/ \E k \in 1..Len(rings) : OnRing(rings[k], p)
    \/ Cardinality({k \in 1..Len(rings) : Wind(rings[k], p) # 0}) % 2 = 1
InRegionOpen(rings, p) ==
    /\ \A k \in 1..Len(rings) : ~OnRing(rings[k], p)
    /\ Cardinality({k \in 1..Len(rings) : Wind(rings[k], p) # 0}) % 2 = 1
RECURSIVE RegionArea2(_, _)
RegionArea2(rings, k) == IF k = 0 THEN 0
                         ELSE (IF k = 1 THEN Abs(Area2(rings[k])) ELSE -Abs(Area2(rings[k]))) + RegionArea2(rings, k - 1)

\* two triangles have disjoint interiors: some edge of one separates them
Tri(t, i) == t[((i - 1) % 3) + 1]
Separates(t, u) == \E i \in 1..3 :
                      LET a == Tri(t, i) b == Tri(t, i + 1) c == Tri(t, i + 2) s == Sgn(Cross(a, b, c)) IN
                      \A j \in 1..3 : Sgn(Cross(a, b, u[j])) * s <= 0
TrisDisjoint(t, u) == Separates(t, u) \/ Separates(u, t)

\* ---- the definition: tris (sequences of 3 points) triangulate the region ----
AllVerts(rings) == UNION { {rings[k][i] : i \in 1..Len(rings[k])} : k \in 1..Len(rings) }
UsesInputVertices(rings, tris) == \A i \in 1..Len(tris) : \A j \in 1..3 : tris[i][j] \in AllVerts(rings)
NonDegenerate(tris) == \A i \in 1..Len(tris) : Cross(tris[i][1], tris[i][2], tris[i][3]) # 0
\* every triangle lies in the region: its edges do not properly cross a region edge, the midpoint
\* of every edge and the centroid lie in the closed region (coordinates scaled by 6)
TriInside(rings, t) ==
    Cross(t[1], t[2], t[3]) = 0 \/      \* a degenerate triangle has no interior
    LET R6 == [k \in 1..Len(rings) |-> Scale(rings[k], 6)] IN
    /\ \A j \in 1..3 : \A k \in 1..Len(rings) : \A i \in 1..Len(rings[k]) :
          ~ProperCross(Tri(t, j), Tri(t, j + 1), rings[k][i], Nxt(rings[k], i))
    /\ \A j \in 1..3 : InRegionClosed(R6, <<3 * (Tri(t, j)[1] + Tri(t, j + 1)[1]), 3 * (Tri(t, j)[2] + Tri(t, j + 1)[2])>>)
    /\ InRegionOpen(R6, <<2 * (t[1][1] + t[2][1] + t[3][1]), 2 * (t[1][2] + t[2][2] + t[3][2])>>)
    \* no vertex of the region strictly inside the triangle (would be a hole or a pinch)
    /\ \A v \in AllVerts(rings) : ~(/\ Sgn(Cross(t[1], t[2], v)) = Sgn(Cross(t[1], t[2], t[3]))
                                    /\ Sgn(Cross(t[2], t[3], v)) = Sgn(Cross(t[2], t[3], t[1]))
                                    /\ Sgn(Cross(t[3], t[1], v)) = Sgn(Cross(t[3], t[1], t[2])))
Inside(rings, tris) == \A i \in 1..Len(tris) : TriInside(rings, tris[i])
NoOverlap(tris) == \A i, j \in 1..Len(tris) : i < j => TrisDisjoint(tris[i], tris[j])
RECURSIVE SumArea2(_, _)
SumArea2(tris, i) == IF i = 0 THEN 0 ELSE Abs(Cross(tris[i][1], tris[i][2], tris[i][3])) + SumArea2(tris, i - 1)
ExactArea(rings, tris) == SumArea2(tris, Len(tris)) = RegionArea2(rings, Len(rings))
Clockwise(tris) == \A i \in 1..Len(tris) : Cross(tris[i][1], tris[i][2], tris[i][3]) <= 0
=============================================================================
