------------------------------ MODULE ThinJudge ------------------------------
(* Mode V for C14 (thin spikes): records [id, site, case, n, ntri, vertsok, orient, areadev, outcome, panic]  *)
(* from TriangulateMesh on polygons with a long sharp spike one side of which bends by 1e-1 .. 1e-7 rad        *)
(* (harness c14_thin.go).  The aggregates are computed in floating point by the harness: angles this small     *)
(* cannot be written with the integer coordinates PolygonJudge decides exactly.                                 *)
(*   terminates - returned within its deadline, without panic                                                   *)
(*   count      - n - 2 triangles                                                                               *)
(*   verts      - only input vertices are used                                                                  *)
(*   clockwise  - the documented orientation of the output triangles                                            *)
(*   area       - the triangle areas add up to the polygon's area to a relative 1e-9 (areadev is the power of   *)
(*                ten of the relative difference): triangles that overlap or stick out add up to more           *)
EXTENDS Integers, Sequences, TLC, Json
Recs == ndJsonDeserialize("records.ndjson")
VARIABLES rec, done
R == Recs[rec]
Ok == R.outcome = "ok"
Holds(c) == CASE c = "terminates" -> Ok
              [] c = "count" -> Ok => R.ntri = R.n - 2
              [] c = "verts" -> Ok => R.vertsok
              [] c = "clockwise" -> Ok => R.orient
              [] c = "area" -> Ok => R.areadev <= -9
              [] OTHER -> TRUE
Fails == {c \in {"terminates", "count", "verts", "clockwise", "area"} : ~Holds(c)}
Init == rec \in 1..Len(Recs) /\ done = FALSE
Next == /\ ~done /\ done' = TRUE /\ UNCHANGED rec /\ \A c \in Fails : PrintT(<<"REJECT", R.id, 0, c>>)
Spec == Init /\ [][Next]_<<rec, done>>
=============================================================================
