------------------------------ MODULE RegionGen ------------------------------
(***************************************************************************)
(* Mode R for C14: polygonal regions with holes on a lattice: a 7x7 outer   *)
(* square or an L-shaped outer ring, zero to two holes (squares of side 1-3 *)
(* and right triangles, at every lattice position, pairwise not touching)   *)
(* and optionally an island inside a hole (even-odd nesting of depth 3).    *)
(* Rings are emitted in an arbitrary orientation; the harness orients them  *)
(* as the API documents.                                                    *)
(***************************************************************************)
EXTENDS Polygon, Json
CONSTANTS MaxHoles
Sq(a, b, s) == << <<a, b>>, <<a + s, b>>, <<a + s, b + s>>, <<a, b + s>> >>
Rt(a, b, s) == << <<a, b>>, <<a + s, b>>, <<a, b + s>> >>
Outer == { Sq(0, 0, 7), << <<0, 0>>, <<7, 0>>, <<7, 4>>, <<4, 4>>, <<4, 7>>, <<0, 7>> >> }
Holes == { [ring |-> Sq(a, b, s), lo |-> <<a, b>>, hi |-> <<a + s, b + s>>] : a \in 1..5, b \in 1..5, s \in 1..3 }
         \cup { [ring |-> Rt(a, b, s), lo |-> <<a, b>>, hi |-> <<a + s, b + s>>] : a \in 1..5, b \in 1..5, s \in 1..2 }
Fits(o, h) == \* the hole's box lies strictly inside the outer ring (all four corners strictly inside)
    \A c \in {h.lo, h.hi, <<h.lo[1], h.hi[2]>>, <<h.hi[1], h.lo[2]>>} : InRegionOpen(<<o>>, c)
Apart(h, k) == h.hi[1] < k.lo[1] \/ k.hi[1] < h.lo[1] \/ h.hi[2] < k.lo[2] \/ k.hi[2] < h.lo[2]
Island(h) == IF h.hi[1] - h.lo[1] = 3 /\ Len(h.ring) = 4 THEN {<<Sq(h.lo[1] + 1, h.lo[2] + 1, 1)>>, << >>} ELSE {<< >>}
VARIABLES r, done
Cands == { <<o>> : o \in Outer }
         \cup UNION { UNION { { <<o, h.ring>> \o isl : isl \in Island(h) } : h \in {x \in Holes : Fits(o, x)} } : o \in Outer }
         \cup (IF MaxHoles >= 2
               THEN UNION { UNION { { <<o, h.ring, k.ring>> : k \in {y \in Holes : Fits(o, y) /\ Apart(h, y) /\ h.lo[1] * 8 + h.lo[2] < y.lo[1] * 8 + y.lo[2]} } :
                                     h \in {x \in Holes : Fits(o, x)} } : o \in Outer }
               ELSE {})
Init == r \in Cands /\ done = FALSE
Next == ~done /\ done' = TRUE /\ UNCHANGED r /\ PrintT(<<"CASE", ToJson(r)>>)
Spec == Init /\ [][Next]_<<r, done>>
=============================================================================
