module verifharness

go 1.18

require github.com/unixpickle/model3d v0.0.0

require (
	github.com/pkg/errors v0.9.1 // indirect
	github.com/unixpickle/essentials v1.3.0 // indirect
	github.com/unixpickle/splaytree v1.1.0 // indirect
)

replace github.com/unixpickle/model3d => /repo
