package main

// C07 (triangle against triangle): Triangle.TriangleCollisions and a mesh collider's
// TriangleCollisions on pairs of triangles with small integer corners - unrelated pairs, pairs that
// share exactly one corner (neighbouring faces folded through each other or not), pairs that share
// an edge.  spec/geom/TriPairJudge.tla decides with exact orientation determinants.

import (
	"math/rand"

	"github.com/unixpickle/model3d/model3d"
)

type triPairRec struct {
	ID     int      `json:"id"`
	Site   string   `json:"site"`
	S      [][3]int `json:"s"`
	T      [][3]int `json:"t"`
	N      int      `json:"n"`
	Common int      `json:"common"`
	Panic  string   `json:"panic"`
}

func init() {
	register("c07-tripairs", func(a args) {
		rng := rand.New(rand.NewSource(int64(a.int("seed", 1))))
		out := newNDWriter(a.str("out", "records.ndjson"))
		defer out.close()
		stats := map[string]int{}
		pt := func() [3]int { return [3]int{rng.Intn(9) - 4, rng.Intn(9) - 4, rng.Intn(9) - 4} }
		c3 := func(p [3]int) model3d.Coord3D { return model3d.XYZ(float64(p[0]), float64(p[1]), float64(p[2])) }
		tri := func(t [][3]int) *model3d.Triangle { return &model3d.Triangle{c3(t[0]), c3(t[1]), c3(t[2])} }
		flat := func(t [][3]int) bool { return tri(t).Area() == 0 }
		n := a.int("n", 600)
		for id := 1; id <= n; id++ {
			var s, t [][3]int
			for {
				s = [][3]int{pt(), pt(), pt()}
				t = [][3]int{pt(), pt(), pt()}
				switch id % 4 {
				case 1, 2: // exactly one corner in common, at any position of either triangle
					t[rng.Intn(3)] = s[rng.Intn(3)]
				case 3: // an edge in common
					i, j := rng.Intn(3), rng.Intn(3)
					t[j], t[(j+1)%3] = s[(i+1)%3], s[i]
				}
				if !flat(s) && !flat(t) {
					break
				}
			}
			rec := triPairRec{ID: id, S: s, T: t}
			for _, p := range s {
				for _, q := range t {
					if p == q {
						rec.Common++
					}
				}
			}
			ts, tt := tri(s), tri(t)
			if id%5 == 0 {
				rec.Site = "model3d.MeshToCollider.TriangleCollisions"
				rec.Panic = protect(func() {
					m := model3d.NewMesh()
					m.Add(ts)
					m.AddMesh(model3d.NewMeshRect(model3d.XYZ(20, 20, 20), model3d.XYZ(21, 21, 21)))
					rec.N = len(model3d.MeshToCollider(m).TriangleCollisions(tt))
				})
			} else {
				rec.Site = "model3d.Triangle.TriangleCollisions"
				rec.Panic = protect(func() { rec.N = len(ts.TriangleCollisions(tt)) })
			}
			out.write(rec)
			stats["records"]++
			stats["site:"+rec.Site]++
			if rec.N > 0 {
				stats["nonempty"]++
			}
		}
		writeJSONFile(a.str("stats", "stats.json"), stats)
	})
}
