package main

// C05: the piecewise axis maps of toolbox3d (AxisSqueeze, AxisPinch, SmartSqueeze.Transform)
// on whole-unit data, probed on the half-unit lattice; values are reported in units of 1/64.

import (
	"encoding/json"
	"math"
	"os"
	"time"

	"github.com/unixpickle/model3d/model3d"
	"github.com/unixpickle/model3d/toolbox3d"
)

const sqzNA = -99999999

type sqzCase struct {
	Kind    string   `json:"kind"`
	Axis    int      `json:"axis"`
	Min     int      `json:"min"`
	Max     int      `json:"max"`
	Rn      int      `json:"rn"`
	Rd      int      `json:"rd"`
	Centre  int      `json:"centre"`
	Half    int      `json:"half"`
	Lo      int      `json:"lo"`
	Hi      int      `json:"hi"`
	Unsq    [][2]int `json:"unsq"`
	Pinches []int    `json:"pinches"`
	Prange  int      `json:"prange"`
}

type sqzRecord struct {
	Id     int             `json:"id"`
	Site   string          `json:"site"`
	Case   json.RawMessage `json:"case"`
	Panic  string          `json:"panic"`
	Probes []int           `json:"probes"`
	Img    []int           `json:"img"`
	Back   []int           `json:"back"`
	Pre    []int           `json:"pre"`
	Fwd    []int           `json:"fwd"`
	Other  bool            `json:"other"`
	Blo    int             `json:"blo"`
	Bhi    int             `json:"bhi"`
	Bmin   int             `json:"bmin"`
	Bmax   int             `json:"bmax"`
	Slo    int             `json:"slo"`
	Shi    int             `json:"shi"`
	Solid  []int           `json:"solid"`
	Smin   int             `json:"smin"`
	Smax   int             `json:"smax"`
}

func sqzTo64(x float64) int {
	v := x * 64
	r := math.Round(v)
	if math.IsNaN(v) || math.IsInf(v, 0) || math.Abs(v-r) > 1e-9 {
		return sqzNA
	}
	return int(r)
}

func sqzPoint(axis int, p float64) model3d.Coord3D {
	arr := [3]float64{0.25, -0.5, 0.75}
	arr[axis] = p
	return model3d.NewCoord3DArray(arr)
}

func sqzBox(axis int, lo, hi float64) *model3d.Rect {
	mn := [3]float64{-1, -1, -1}
	mx := [3]float64{1, 1, 1}
	mn[axis], mx[axis] = lo, hi
	return &model3d.Rect{MinVal: model3d.NewCoord3DArray(mn), MaxVal: model3d.NewCoord3DArray(mx)}
}

func sqzRun(id int, raw json.RawMessage) sqzRecord {
	var c sqzCase
	if err := json.Unmarshal(raw, &c); err != nil {
		fatal("bad squeeze case: %v", err)
	}
	rec := sqzRecord{Id: id, Case: raw, Probes: []int{}, Img: []int{}, Back: []int{}, Pre: []int{}, Fwd: []int{},
		Solid: []int{}, Other: true}
	rec.Blo = 64 * (-2 + id%4)
	rec.Bhi = rec.Blo + 64*(3+id%5)
	rec.Slo = 64 * (-1 + id%3)
	rec.Shi = rec.Slo + 64*(1+id%6)
	outcome, pan := withDeadline(10*time.Second, func() {
		var t model3d.Transform
		switch c.Kind {
		case "squeeze":
			rec.Site = "AxisSqueeze"
			t = &toolbox3d.AxisSqueeze{Axis: toolbox3d.Axis(c.Axis), Min: float64(c.Min), Max: float64(c.Max),
				Ratio: float64(c.Rn) / float64(c.Rd)}
		case "pinch":
			rec.Site = "AxisPinch"
			t = &toolbox3d.AxisPinch{Axis: toolbox3d.Axis(c.Axis), Min: float64(c.Centre - c.Half),
				Max: float64(c.Centre + c.Half), Power: 2}
		case "smart":
			rec.Site = "SmartSqueeze"
			ss := &toolbox3d.SmartSqueeze{Axis: toolbox3d.Axis(c.Axis), SqueezeRatio: float64(c.Rn) / float64(c.Rd),
				PinchRange: float64(c.Prange), PinchPower: 2}
			for _, u := range c.Unsq {
				ss.AddUnsqueezable(float64(u[0]), float64(u[1]))
			}
			for _, p := range c.Pinches {
				ss.AddPinch(float64(p))
			}
			t = ss.Transform(sqzBox(c.Axis, float64(c.Lo), float64(c.Hi)))
		default:
			fatal("unknown squeeze case kind %q", c.Kind)
		}
		inv := t.Inverse()
		axisOf := func(p model3d.Coord3D, ref model3d.Coord3D) float64 {
			a, b := p.Array(), ref.Array()
			for i := 0; i < 3; i++ {
				if i != c.Axis && a[i] != b[i] {
					rec.Other = false
				}
			}
			return a[c.Axis]
		}
		solid := model3d.TransformSolid(t, sqzBox(c.Axis, float64(rec.Slo)/64, float64(rec.Shi)/64))
		for k := -6; k <= 24; k++ {
			p := float64(k) / 2
			pt := sqzPoint(c.Axis, p)
			rec.Probes = append(rec.Probes, 32*k)
			im := t.Apply(pt)
			rec.Img = append(rec.Img, sqzTo64(axisOf(im, pt)))
			rec.Back = append(rec.Back, sqzTo64(axisOf(inv.Apply(im), pt)))
			pre := inv.Apply(pt)
			rec.Pre = append(rec.Pre, sqzTo64(axisOf(pre, pt)))
			rec.Fwd = append(rec.Fwd, sqzTo64(axisOf(t.Apply(pre), pt)))
			if solid.Contains(pt) {
				rec.Solid = append(rec.Solid, 1)
			} else {
				rec.Solid = append(rec.Solid, 0)
			}
		}
		b := sqzBox(c.Axis, float64(rec.Blo)/64, float64(rec.Bhi)/64)
		mn, mx := t.ApplyBounds(b.MinVal, b.MaxVal)
		rec.Bmin, rec.Bmax = sqzTo64(mn.Array()[c.Axis]), sqzTo64(mx.Array()[c.Axis])
		rec.Smin, rec.Smax = sqzTo64(solid.Min().Array()[c.Axis]), sqzTo64(solid.Max().Array()[c.Axis])
	})
	rec.Panic = pan
	if outcome == "hang" {
		// the abandoned goroutine may still be writing to rec: report a fresh record
		rec = sqzRecord{Id: id, Site: map[string]string{"squeeze": "AxisSqueeze", "pinch": "AxisPinch",
			"smart": "SmartSqueeze"}[c.Kind], Case: raw, Probes: []int{}, Img: []int{}, Back: []int{}, Pre: []int{},
			Fwd: []int{}, Solid: []int{}, Panic: "did not terminate within 10s"}
	}
	return rec
}

func init() {
	// c05-squeeze in=cases.ndjson out=records.ndjson stats=stats.json
	register("c05-squeeze", func(a args) {
		out := newNDWriter(a.str("out", "records.ndjson"))
		defer out.close()
		stats := map[string]int{}
		id := 0
		readNDJSON(a.str("in", "cases.ndjson"), func(raw []byte) {
			id++
			rec := sqzRun(id, append(json.RawMessage{}, raw...))
			stats["records"]++
			stats["site:"+rec.Site]++
			if rec.Panic != "" {
				stats["panics"]++
			}
			out.write(rec)
			if rec.Panic == "did not terminate within 10s" {
				// the runaway call keeps consuming memory: stop here, the records so far are judged
				stats["aborted_after_hang"] = 1
				out.close()
				writeJSONFile(a.str("stats", "stats.json"), stats)
				os.Exit(0)
			}
		})
		writeJSONFile(a.str("stats", "stats.json"), stats)
	})
}
