package main

// C17: the exact inputs of spec/kernels/KernelGen.tla run through the real numerical and curve
// kernels.  Float results are projected to scaled integers (with an "exact" flag: the scaled value
// is within 1e-6 of an integer) or to decimal error exponents ("buckets": the smallest e with
// error <= 10^e, -20 for 0), so that spec/kernels/KernelJudge.tla can decide every clause in
// integer arithmetic.

import (
	"encoding/json"
	"fmt"
	"math"
	"math/cmplx"
	"time"

	"github.com/unixpickle/model3d/model2d"
	"github.com/unixpickle/model3d/model3d"
	"github.com/unixpickle/model3d/numerical"
	"github.com/unixpickle/model3d/toolbox3d"
)

// ---------------------------------------------------------------- projections

const k17Tol = 1e-6

// k17Int projects x*scale to an integer; ok is false if it is not within 1e-6 of one.
func k17Int(x, scale float64) (int, bool) {
	y := x * scale
	if math.IsNaN(y) || math.IsInf(y, 0) || math.Abs(y) > 1e9 {
		return 0, false
	}
	r := math.Round(y)
	return int(r), math.Abs(y-r) < k17Tol
}

func k17Ints(xs []float64, scale float64) ([]int, bool) {
	res := make([]int, len(xs))
	all := true
	for i, x := range xs {
		v, ok := k17Int(x, scale)
		res[i] = v
		all = all && ok
	}
	return res, all
}

// k17Bucket returns the smallest integer e in -20..20 with err <= 10^e (99 for NaN).
func k17Bucket(err float64) int {
	if math.IsNaN(err) {
		return 99
	}
	err = math.Abs(err)
	if err == 0 {
		return -20
	}
	if math.IsInf(err, 0) {
		return 20
	}
	e := int(math.Ceil(math.Log10(err)))
	if e < -20 {
		e = -20
	}
	if e > 20 {
		e = 20
	}
	return e
}

func k17Raw(v any) string {
	s := fmt.Sprint(v)
	if len(s) > 300 {
		s = s[:300]
	}
	return s
}

func k17Floats(xs []int) []float64 {
	r := make([]float64, len(xs))
	for i, x := range xs {
		r[i] = float64(x)
	}
	return r
}

// integer determinant (Laplace expansion), independent of the library
func k17Det(m []int, n int) int {
	if n == 1 {
		return m[0]
	}
	sum := 0
	for j := 0; j < n; j++ {
		sub := make([]int, 0, (n-1)*(n-1))
		for r := 1; r < n; r++ {
			for c := 0; c < n; c++ {
				if c != j {
					sub = append(sub, m[r*n+c])
				}
			}
		}
		t := m[j] * k17Det(sub, n-1)
		if j%2 == 1 {
			t = -t
		}
		sum += t
	}
	return sum
}

// dense helpers on flat row-major float matrices
func k17Mul(a, b []float64, n int) []float64 {
	r := make([]float64, n*n)
	for i := 0; i < n; i++ {
		for j := 0; j < n; j++ {
			for k := 0; k < n; k++ {
				r[i*n+j] += a[i*n+k] * b[k*n+j]
			}
		}
	}
	return r
}

func k17T(a []float64, n int) []float64 {
	r := make([]float64, n*n)
	for i := 0; i < n; i++ {
		for j := 0; j < n; j++ {
			r[j*n+i] = a[i*n+j]
		}
	}
	return r
}

func k17MaxDiff(a, b []float64) float64 {
	m := 0.0
	for i := range a {
		d := math.Abs(a[i] - b[i])
		if math.IsNaN(d) {
			return math.NaN()
		}
		m = math.Max(m, d)
	}
	return m
}

func k17Ident(n int) []float64 {
	r := make([]float64, n*n)
	for i := 0; i < n; i++ {
		r[i*n+i] = 1
	}
	return r
}

// ---------------------------------------------------------------- poly

type k17PolyCase struct {
	Roots []int `json:"roots"`
	Quad  int   `json:"quad"`
	Lead  int   `json:"lead"`
	Coef  []int `json:"coef"`
}

type k17PolyRec struct {
	ID      int    `json:"id"`
	Fam     string `json:"fam"`
	Site    string `json:"site"`
	Coef    []int  `json:"coef"`
	Roots   []int  `json:"roots"`
	Quad    int    `json:"quad"`
	Lead    int    `json:"lead"`
	Outcome string `json:"outcome"`
	Panic   string `json:"panic"`
	Got     []int  `json:"got"`
	Exact   bool   `json:"exact"`
	Near    bool   `json:"near"`  // every reported value is within 1e-2 of an integer (repeated roots)
	After   int    `json:"after"` // calls made after the callback returned false
	Raw     string `json:"raw"`
}

func k17Near(xs []float64) bool {
	for _, x := range xs {
		if !(math.Abs(x-math.Round(x)) < 1e-2) {
			return false
		}
	}
	return true
}

func k17Poly(c k17PolyCase, emit func(any)) {
	base := k17PolyRec{Fam: "poly", Coef: c.Coef, Roots: c.Roots, Quad: c.Quad, Lead: c.Lead, Got: []int{}}
	{
		rec := base
		rec.Site = "numerical.Polynomial.RealRoots"
		var roots []float64
		rec.Outcome, rec.Panic = withDeadline(5*time.Second, func() {
			roots = numerical.Polynomial(k17Floats(c.Coef)).RealRoots()
		})
		if rec.Outcome == "ok" {
			rec.Got, rec.Exact = k17Ints(roots, 1)
			rec.Near = k17Near(roots)
			rec.Raw = k17Raw(roots)
		}
		emit(rec)
	}
	{
		rec := base
		rec.Site = "numerical.Polynomial.IterRealRoots"
		var roots []float64
		stopped := false
		rec.Outcome, rec.Panic = withDeadline(5*time.Second, func() {
			numerical.Polynomial(k17Floats(c.Coef)).IterRealRoots(func(x float64) bool {
				if stopped {
					rec.After++
					return false
				}
				roots = append(roots, x)
				stopped = true
				return false
			})
		})
		if rec.Outcome == "ok" {
			rec.Got, rec.Exact = k17Ints(roots, 1)
			rec.Near = k17Near(roots)
			rec.Raw = k17Raw(roots)
		}
		emit(rec)
	}
}

// ---------------------------------------------------------------- matrix

type k17MatCase struct {
	Sub string `json:"sub"`
	N   int    `json:"n"`
	M   []int  `json:"M"`
	Aux []int  `json:"aux"`
}

type k17MatRec struct {
	ID    int    `json:"id"`
	Fam   string `json:"fam"`
	Sub   string `json:"sub"`
	Site  string `json:"site"`
	N     int    `json:"n"`
	M     []int  `json:"M"`
	Aux   []int  `json:"aux"`
	Panic string `json:"panic"`

	Det   int  `json:"det"`
	DetEx bool `json:"detEx"`
	SDet  int  `json:"sdet"` // integer determinant used as the scale of inv / mci

	HasInv bool  `json:"hasInv"`
	Inv    []int `json:"inv"` // Inverse() * sdet
	InvEx  bool  `json:"invEx"`
	InvErr int   `json:"invErr"` // bucket of max |M*Inverse - I|
	MciC   []int `json:"mciC"`
	Mci    []int `json:"mci"` // MulColumnInv(c, det) * sdet
	MciEx  bool  `json:"mciEx"`

	HasSvd    bool  `json:"hasSvd"`
	SvdRecon  int   `json:"svdRecon"`  // bucket of max |U S V^T - M|
	SvdScaled int   `json:"svdScaled"` // the same for the matrix scaled by 2^-30, 2^-24, 2^20 (error relative to the scale; largest)
	SvdOrtho  int   `json:"svdOrtho"`  // bucket of max(|U^T U - I|, |V^T V - I|)
	SvdDiag   int   `json:"svdDiag"`   // bucket of the largest off-diagonal |S_ij|
	SvdSorted bool  `json:"svdSorted"` // s1 >= s2 >= ...
	SvdNonneg bool  `json:"svdNonneg"`
	SvdP      []int `json:"svdP"` // <<sum s_i^2, prod s_i>>
	SvdPEx    bool  `json:"svdPEx"`

	HasEig bool  `json:"hasEig"`
	Eig    []int `json:"eig"` // elementary symmetric functions e1..en of the eigenvalues (real parts)
	EigEx  bool  `json:"eigEx"`
	EigIm  int   `json:"eigIm"` // bucket of the largest imaginary part among e1..en

	HasChar bool  `json:"hasChar"`
	Char    []int `json:"char"`
	CharEx  bool  `json:"charEx"`

	Rot      []int `json:"rot"`
	RotEx    bool  `json:"rotEx"`
	RotOrtho int   `json:"rotOrtho"` // bucket of |R^T R - I|
	RotDet   int   `json:"rotDet"`   // bucket of |det R - 1|
	RotAxis  int   `json:"rotAxis"`  // bucket of |R a - a|
	RotTrace int   `json:"rotTrace"` // bucket of |tr R - (1 + 2 cos)|
	RotHand  bool  `json:"rotHand"`  // (v x R v) . a has the sign of sin(angle) (or |sin| < 0.1)

	Raw string `json:"raw"`
}

// k17MatOps is what the harness needs from a concrete matrix type.
type k17MatOps struct {
	site   string
	det    func() float64
	inv    func() []float64 // nil if the type has no Inverse
	mci    func(c []float64, det float64) []float64
	svd    func() (u, s, v []float64)
	eig    func() []complex128
	charpl func() []float64
}

func k17Ops(n int, mi []int) []k17MatOps { return k17OpsScaled(n, mi, 1) }

// k17OpsScaled: the same matrix with every entry multiplied by a power of two (exact)
func k17OpsScaled(n int, mi []int, scale float64) []k17MatOps {
	f := k17Floats(mi)
	for i := range f {
		f[i] *= scale
	}
	switch n {
	case 2:
		var a numerical.Matrix2
		var b model2d.Matrix2
		copy(a[:], f)
		copy(b[:], f)
		return []k17MatOps{
			{site: "numerical.Matrix2",
				det: func() float64 { m := a; return m.Det() },
				inv: func() []float64 { m := a; r := m.Inverse(); return r[:] },
				mci: func(c []float64, det float64) []float64 {
					m := a
					r := m.MulColumnInv(numerical.Vec2{c[0], c[1]}, det)
					return r[:]
				},
				svd: func() (u, s, v []float64) {
					m := a
					var uu, ss, vv numerical.Matrix2
					m.SVD(&uu, &ss, &vv)
					return uu[:], ss[:], vv[:]
				},
				eig: func() []complex128 { m := a; e := m.Eigenvalues(); return e[:] }},
			{site: "model2d.Matrix2",
				det: func() float64 { m := b; return m.Det() },
				inv: func() []float64 { m := b; r := m.Inverse(); return r[:] },
				mci: func(c []float64, det float64) []float64 {
					m := b
					r := m.MulColumnInv(model2d.XY(c[0], c[1]), det)
					return []float64{r.X, r.Y}
				},
				svd: func() (u, s, v []float64) {
					m := b
					var uu, ss, vv model2d.Matrix2
					m.SVD(&uu, &ss, &vv)
					return uu[:], ss[:], vv[:]
				},
				eig: func() []complex128 { m := b; e := m.Eigenvalues(); return e[:] }},
		}
	case 3:
		var a numerical.Matrix3
		var b model3d.Matrix3
		copy(a[:], f)
		copy(b[:], f)
		return []k17MatOps{
			{site: "numerical.Matrix3",
				det: func() float64 { m := a; return m.Det() },
				inv: func() []float64 { m := a; r := m.Inverse(); return r[:] },
				mci: func(c []float64, det float64) []float64 {
					m := a
					r := m.MulColumnInv(numerical.Vec3{c[0], c[1], c[2]}, det)
					return r[:]
				},
				svd: func() (u, s, v []float64) {
					m := a
					var uu, ss, vv numerical.Matrix3
					m.SVD(&uu, &ss, &vv)
					return uu[:], ss[:], vv[:]
				},
				eig: func() []complex128 { m := a; e := m.Eigenvalues(); return e[:] }},
			{site: "model3d.Matrix3",
				det: func() float64 { m := b; return m.Det() },
				inv: func() []float64 { m := b; r := m.Inverse(); return r[:] },
				mci: func(c []float64, det float64) []float64 {
					m := b
					r := m.MulColumnInv(model3d.XYZ(c[0], c[1], c[2]), det)
					return []float64{r.X, r.Y, r.Z}
				},
				svd: func() (u, s, v []float64) {
					m := b
					var uu, ss, vv model3d.Matrix3
					m.SVD(&uu, &ss, &vv)
					return uu[:], ss[:], vv[:]
				},
				eig: func() []complex128 { m := b; e := m.Eigenvalues(); return e[:] }},
		}
	case 4:
		var a numerical.Matrix4
		copy(a[:], f)
		return []k17MatOps{
			{site: "numerical.Matrix4",
				det: func() float64 { m := a; return m.Det() },
				svd: func() (u, s, v []float64) {
					m := a
					var uu, ss, vv numerical.Matrix4
					m.SVD(&uu, &ss, &vv)
					return uu[:], ss[:], vv[:]
				},
				charpl: func() []float64 { m := a; return m.CharPoly() }},
		}
	}
	fatal("c17: bad matrix size %d", n)
	return nil
}

// elementary symmetric functions e1..en of complex numbers
func k17ESym(z []complex128) []complex128 {
	n := len(z)
	e := make([]complex128, n+1)
	e[0] = 1
	for _, x := range z {
		for k := n; k >= 1; k-- {
			e[k] += e[k-1] * x
		}
	}
	return e[1:]
}

var k17Seed = 1

func k17MatGeneral(c k17MatCase, emit func(any)) {
	n := c.N
	fm := k17Floats(c.M)
	sdet := k17Det(c.M, n)
	cvec := []int{1 + k17Seed%3, -2, 3 - k17Seed%2, 2}[:n]
	for _, ops := range k17Ops(n, c.M) {
		rec := k17MatRec{Fam: "matrix", Sub: c.Sub, Site: ops.site, N: n, M: c.M, Aux: c.Aux, SDet: sdet,
			Inv: []int{}, Mci: []int{}, MciC: cvec, SvdP: []int{}, Eig: []int{}, Char: []int{}, Rot: []int{}}
		raw := map[string]any{}
		rec.Panic = protect(func() {
			rec.Det, rec.DetEx = k17Int(ops.det(), 1)
			if sdet != 0 && ops.inv != nil {
				rec.HasInv = true
				inv := ops.inv()
				rec.Inv, rec.InvEx = k17Ints(inv, float64(sdet))
				rec.InvErr = k17Bucket(k17MaxDiff(k17Mul(fm, inv, n), k17Ident(n)))
				mci := ops.mci(k17Floats(cvec), ops.det())
				rec.Mci, rec.MciEx = k17Ints(mci, float64(sdet))
				raw["inv"] = inv
			}
			if ops.svd != nil {
				rec.HasSvd = true
				u, s, v := ops.svd()
				rec.SvdRecon = k17Bucket(k17MaxDiff(k17Mul(k17Mul(u, s, n), k17T(v, n), n), fm))
				rec.SvdOrtho = k17Bucket(math.Max(k17MaxDiff(k17Mul(k17T(u, n), u, n), k17Ident(n)),
					k17MaxDiff(k17Mul(k17T(v, n), v, n), k17Ident(n))))
				off := 0.0
				rec.SvdSorted, rec.SvdNonneg = true, true
				sum2, prod := 0.0, 1.0
				for i := 0; i < n; i++ {
					for j := 0; j < n; j++ {
						if i != j {
							off = math.Max(off, math.Abs(s[i*n+j]))
							if math.IsNaN(s[i*n+j]) {
								off = math.NaN()
							}
						}
					}
					d := s[i*n+i]
					sum2 += d * d
					prod *= d
					if !(d >= 0) {
						rec.SvdNonneg = false
					}
					if i > 0 && !(s[(i-1)*n+i-1] >= d) {
						rec.SvdSorted = false
					}
				}
				rec.SvdDiag = k17Bucket(off)
				// the decomposition does not depend on the unit of the entries
				worstScaled := 0.0
				for _, e := range []int{-30, -24, 20} {
					sc := math.Ldexp(1, e)
					for _, o2 := range k17OpsScaled(n, c.M, sc) {
						if o2.site != ops.site {
							continue
						}
						u2, s2, v2 := o2.svd()
						fs := make([]float64, len(fm))
						for i := range fm {
							fs[i] = fm[i] * sc
						}
						d := k17MaxDiff(k17Mul(k17Mul(u2, s2, n), k17T(v2, n), n), fs) / sc
						o := math.Max(k17MaxDiff(k17Mul(k17T(u2, n), u2, n), k17Ident(n)), k17MaxDiff(k17Mul(k17T(v2, n), v2, n), k17Ident(n)))
						if math.IsNaN(d) || math.IsNaN(o) {
							worstScaled = math.NaN()
						} else if !math.IsNaN(worstScaled) {
							worstScaled = math.Max(worstScaled, math.Max(d, o))
						}
					}
				}
				rec.SvdScaled = k17Bucket(worstScaled)
				rec.SvdP, rec.SvdPEx = k17Ints([]float64{sum2, prod}, 1)
				raw["s"] = s
			}
			if ops.eig != nil {
				rec.HasEig = true
				ev := ops.eig()
				es := k17ESym(ev)
				re := make([]float64, len(es))
				im := 0.0
				for i, z := range es {
					re[i] = real(z)
					im = math.Max(im, math.Abs(imag(z)))
					if cmplx.IsNaN(z) {
						im = math.NaN()
					}
				}
				rec.Eig, rec.EigEx = k17Ints(re, 1)
				rec.EigIm = k17Bucket(im)
				raw["eig"] = ev
			}
			if ops.charpl != nil {
				rec.HasChar = true
				rec.Char, rec.CharEx = k17Ints(ops.charpl(), 1)
			}
		})
		rec.Raw = k17Raw(raw)
		emit(rec)
	}
}

func k17RotChecks(rec *k17MatRec, r []float64, n int) {
	rec.Rot, rec.RotEx = k17Ints(r, 1)
	rec.RotOrtho = k17Bucket(k17MaxDiff(k17Mul(k17T(r, n), r, n), k17Ident(n)))
	det := 0.0
	if n == 2 {
		det = r[0]*r[3] - r[1]*r[2]
	} else {
		det = r[0]*(r[4]*r[8]-r[5]*r[7]) - r[1]*(r[3]*r[8]-r[5]*r[6]) + r[2]*(r[3]*r[7]-r[4]*r[6])
	}
	rec.RotDet = k17Bucket(det - 1)
}

func k17MatRot(c k17MatCase, emit func(any)) {
	newRec := func(site string) k17MatRec {
		return k17MatRec{Fam: "matrix", Sub: c.Sub, Site: site, N: c.N, M: c.M, Aux: c.Aux,
			Inv: []int{}, Mci: []int{}, MciC: []int{}, SvdP: []int{}, Eig: []int{}, Char: []int{}, Rot: []int{}}
	}
	switch c.Sub {
	case "rot2":
		theta := float64(c.Aux[1]) * math.Pi / 2
		for _, site := range []string{"numerical.NewMatrix2Rotation", "model2d.NewMatrix2Rotation"} {
			rec := newRec(site)
			rec.Panic = protect(func() {
				var r []float64
				if site[0] == 'n' {
					r = numerical.NewMatrix2Rotation(theta)[:]
				} else {
					r = model2d.NewMatrix2Rotation(theta)[:]
				}
				k17RotChecks(&rec, r, 2)
				rec.Raw = k17Raw(r)
			})
			emit(rec)
		}
	case "rot", "rotg":
		var axis [3]float64
		var theta float64
		if c.Sub == "rot" && c.Aux[0] <= 6 {
			axis[(c.Aux[0]-1)%3] = 1
			if c.Aux[0] > 3 {
				axis[(c.Aux[0]-1)%3] = -1
			}
			theta = float64(c.Aux[1]) * math.Pi / 2
		} else {
			axis = [3]float64{float64(c.Aux[2]), float64(c.Aux[3]), float64(c.Aux[4])}
			norm := math.Sqrt(axis[0]*axis[0] + axis[1]*axis[1] + axis[2]*axis[2])
			for i := range axis {
				axis[i] /= norm
			}
			if c.Sub == "rot" {
				theta = float64(c.Aux[1]) * 2 * math.Pi / 3
			} else {
				theta = float64(c.Aux[1]) * math.Pi / 12
			}
		}
		for _, site := range []string{"numerical.NewMatrix3Rotation", "model3d.NewMatrix3Rotation"} {
			rec := newRec(site)
			rec.Panic = protect(func() {
				var r []float64
				if site[0] == 'n' {
					r = numerical.NewMatrix3Rotation(numerical.Vec3(axis), theta)[:]
				} else {
					r = model3d.NewMatrix3Rotation(model3d.NewCoord3DArray(axis), theta)[:]
				}
				k17RotChecks(&rec, r, 3)
				a := numerical.Vec3(axis)
				m := numerical.Matrix3{}
				copy(m[:], r)
				rec.RotAxis = k17Bucket(m.MulColumn(a).Dist(a))
				rec.RotTrace = k17Bucket(r[0] + r[4] + r[8] - (1 + 2*math.Cos(theta)))
				v, _ := a.OrthoBasis()
				s := v.Cross(m.MulColumn(v)).Dot(a)
				rec.RotHand = math.Abs(math.Sin(theta)) < 0.1 || (s > 0) == (math.Sin(theta) > 0)
				rec.Raw = k17Raw(r)
			})
			emit(rec)
		}
	}
}

// ---------------------------------------------------------------- linsolve

type k17LinCase struct {
	Sub string  `json:"sub"`
	N   int     `json:"n"`
	D   int     `json:"d"`
	A   [][]int `json:"A"`
	X   [][]int `json:"X"`
	B   [][]int `json:"B"`
}

type k17LinRec struct {
	ID      int     `json:"id"`
	Fam     string  `json:"fam"`
	Sub     string  `json:"sub"`
	Site    string  `json:"site"`
	N       int     `json:"n"`
	D       int     `json:"d"`
	A       [][]int `json:"A"`
	X       [][]int `json:"X"`
	B       [][]int `json:"B"`
	Outcome string  `json:"outcome"`
	Panic   string  `json:"panic"`
	Got     [][]int `json:"got"`
	Exact   bool    `json:"exact"`
	Resid   int     `json:"resid"`  // bucket of max |A got - B|
	TolOK   bool    `json:"tolOK"`  // BiCGSTAB: the mean absolute residual is below the requested tolerance
	MaxIt   int     `json:"maxIt"`  // BiCGSTAB: iteration limit (0 = none; only symmetric matrices are run without one)
	HasFwd  bool    `json:"hasFwd"` // Cholesky: Apply (A * X) reported
	Fwd     [][]int `json:"fwd"`
	FwdEx   bool    `json:"fwdEx"`
	Raw     string  `json:"raw"`
	Rows    [][]int `json:"rows,omitempty"` // ls3reg: the rows handed to the routine, its penalty and right-hand side
	Lam     int     `json:"lam,omitempty"`
	Rhs     [][]int `json:"rhs,omitempty"`
}

const k17BicgTol = 1e-10

func k17Project2(rows [][]float64) ([][]int, bool) {
	res := make([][]int, len(rows))
	all := true
	for i, r := range rows {
		v, ok := k17Ints(r, 1)
		res[i] = v
		all = all && ok
	}
	return res, all
}

func k17Resid(a [][]int, x [][]float64, b [][]int) float64 {
	worst := 0.0
	for i, row := range a {
		for c := range b[i] {
			s := 0.0
			for k, v := range row {
				s += float64(v) * x[k][c]
			}
			d := math.Abs(s - float64(b[i][c]))
			if math.IsNaN(d) {
				return math.NaN()
			}
			worst = math.Max(worst, d)
		}
	}
	return worst
}

func k17Sparse(a [][]int) *numerical.SparseMatrix {
	m := numerical.NewSparseMatrix(len(a))
	for i, row := range a {
		for j, v := range row {
			if v != 0 {
				m.Set(i, j, float64(v))
			}
		}
	}
	return m
}

func k17Lin(c k17LinCase, emit func(any)) {
	base := k17LinRec{Fam: "linsolve", Sub: c.Sub, N: c.N, D: c.D, A: c.A, X: c.X, B: c.B, Got: [][]int{}, Fwd: [][]int{}}
	finish := func(rec *k17LinRec, sol [][]float64) {
		if rec.Outcome == "ok" && sol != nil {
			rec.Got, rec.Exact = k17Project2(sol)
			rec.Resid = k17Bucket(k17Resid(c.A, sol, c.B))
			rec.Raw = k17Raw(sol)
		}
		emit(*rec)
	}
	switch c.Sub {
	case "ls3":
		rec := base
		rec.Site = "numerical.LeastSquares3"
		var sol [][]float64
		rec.Outcome, rec.Panic = withDeadline(5*time.Second, func() {
			rows := make([]numerical.Vec3, len(c.A))
			b := make([]float64, len(c.A))
			for i, r := range c.A {
				rows[i] = numerical.Vec3{float64(r[0]), float64(r[1]), float64(r[2])}
				b[i] = float64(c.B[i][0])
			}
			x := numerical.LeastSquares3(rows, b, 1e-6)
			sol = [][]float64{{x[0]}, {x[1]}, {x[2]}}
		})
		finish(&rec, sol)
		// ridge regression with an integer penalty: the rows [I; A] and the right-hand side
		// [I; A] X + lam [X; 0] have the regularised solution X exactly; the record carries the 3x3
		// normal system (rows^T rows + lam I) x = rows^T rhs, which the judge re-derives in integers
		for _, lam := range []int{1, 3, 40} {
			rr := base
			rr.Sub, rr.Site = "ls3reg", "numerical.LeastSquaresReg3"
			rr.Lam = lam
			rr.Rows = [][]int{{1, 0, 0}, {0, 1, 0}, {0, 0, 1}}
			rr.Rhs = [][]int{{c.X[0][0] * (1 + lam)}, {c.X[1][0] * (1 + lam)}, {c.X[2][0] * (1 + lam)}}
			for i, r := range c.A {
				rr.Rows = append(rr.Rows, []int{r[0], r[1], r[2]})
				rr.Rhs = append(rr.Rhs, []int{c.B[i][0]})
			}
			m := [][]int{{lam, 0, 0}, {0, lam, 0}, {0, 0, lam}}
			mb := [][]int{{0}, {0}, {0}}
			for k, r := range rr.Rows {
				for i := 0; i < 3; i++ {
					for j := 0; j < 3; j++ {
						m[i][j] += r[i] * r[j]
					}
					mb[i][0] += r[i] * rr.Rhs[k][0]
				}
			}
			rr.A, rr.B, rr.N = m, mb, 3
			var rsol [][]float64
			rr.Outcome, rr.Panic = withDeadline(5*time.Second, func() {
				rows := make([]numerical.Vec3, len(rr.Rows))
				b := make([]float64, len(rr.Rows))
				for i, r := range rr.Rows {
					rows[i] = numerical.Vec3{float64(r[0]), float64(r[1]), float64(r[2])}
					b[i] = float64(rr.Rhs[i][0])
				}
				x := numerical.LeastSquaresReg3(rows, b, float64(lam), 1e-6)
				rsol = [][]float64{{x[0]}, {x[1]}, {x[2]}}
			})
			if rr.Outcome == "ok" && rsol != nil {
				rr.Got, rr.Exact = k17Project2(rsol)
				// the residual of the normal system, relative to its largest coefficient
				big := 1
				for _, row := range m {
					for _, v := range row {
						if v > big {
							big = v
						} else if -v > big {
							big = -v
						}
					}
				}
				rr.Resid = k17Bucket(k17Resid(rr.A, rsol, rr.B) / float64(big))
				rr.Raw = k17Raw(rsol)
			}
			emit(rr)
		}
	case "chol":
		rec := base
		rec.Site = fmt.Sprintf("numerical.SparseCholesky.ApplyInverseVec%d", c.D)
		var sol, fwd [][]float64
		rec.Outcome, rec.Panic = withDeadline(5*time.Second, func() {
			ch := numerical.NewSparseCholesky(k17Sparse(c.A))
			if c.D == 2 {
				b := make([]numerical.Vec2, c.N)
				x := make([]numerical.Vec2, c.N)
				for i := range b {
					b[i] = numerical.Vec2{float64(c.B[i][0]), float64(c.B[i][1])}
					x[i] = numerical.Vec2{float64(c.X[i][0]), float64(c.X[i][1])}
				}
				for _, v := range ch.ApplyInverseVec2(b) {
					sol = append(sol, []float64{v[0], v[1]})
				}
				for _, v := range ch.ApplyVec2(x) {
					fwd = append(fwd, []float64{v[0], v[1]})
				}
			} else {
				b := make([]numerical.Vec3, c.N)
				x := make([]numerical.Vec3, c.N)
				for i := range b {
					b[i] = numerical.Vec3{float64(c.B[i][0]), float64(c.B[i][1]), float64(c.B[i][2])}
					x[i] = numerical.Vec3{float64(c.X[i][0]), float64(c.X[i][1]), float64(c.X[i][2])}
				}
				for _, v := range ch.ApplyInverseVec3(b) {
					sol = append(sol, []float64{v[0], v[1], v[2]})
				}
				for _, v := range ch.ApplyVec3(x) {
					fwd = append(fwd, []float64{v[0], v[1], v[2]})
				}
			}
		})
		if rec.Outcome == "ok" && fwd != nil {
			rec.HasFwd = true
			rec.Fwd, rec.FwdEx = k17Project2(fwd)
		}
		finish(&rec, sol)
	case "bicg":
		rec := base
		rec.Site = "numerical.BiCGSTABSolver.SolveLinearSystem"
		for i := range c.A {
			for j := range c.A {
				if c.A[i][j] != c.A[j][i] {
					// BiCGSTAB may break down on a non-symmetric system: bound the iterations
					rec.MaxIt = 100 * c.N
				}
			}
		}
		var sol [][]float64
		rec.Outcome, rec.Panic = withDeadline(5*time.Second, func() {
			sp := k17Sparse(c.A)
			b := make(numerical.Vec, c.N)
			for i := range b {
				b[i] = float64(c.B[i][0])
			}
			solver := &numerical.BiCGSTABSolver{MAETolerance: k17BicgTol, MaxIters: rec.MaxIt}
			x := solver.SolveLinearSystem(sp.Apply, b, nil)
			mae := 0.0
			for _, r := range sp.Apply(x).Sub(b) {
				mae += math.Abs(r)
			}
			rec.TolOK = mae < k17BicgTol*float64(c.N)
			for _, v := range x {
				sol = append(sol, []float64{v})
			}
		})
		finish(&rec, sol)
	case "bicgit":
		// iteration limit only: the solver keeps being asked after it has converged exactly
		for _, manual := range []bool{false, true} {
			rec := base
			rec.Site = "numerical.BiCGSTABSolver.SolveLinearSystem(MaxIters)"
			if manual {
				rec.Site = "numerical.BiCGSTAB.Iter"
			}
			rec.MaxIt = 4
			var sol [][]float64
			rec.Outcome, rec.Panic = withDeadline(5*time.Second, func() {
				sp := k17Sparse(c.A)
				b := make(numerical.Vec, c.N)
				for i := range b {
					b[i] = float64(c.B[i][0])
				}
				var x numerical.Vec
				if manual {
					it := numerical.NewBiCGSTAB(sp.Apply, b, nil)
					for i := 0; i < rec.MaxIt; i++ {
						x = it.Iter()
					}
				} else {
					x = (&numerical.BiCGSTABSolver{MaxIters: rec.MaxIt}).SolveLinearSystem(sp.Apply, b, nil)
				}
				rec.TolOK = true
				for _, v := range x {
					sol = append(sol, []float64{v})
				}
			})
			finish(&rec, sol)
		}
	default:
		fatal("c17: unknown linsolve sub %q", c.Sub)
	}
}

// ---------------------------------------------------------------- search

type k17Obj struct {
	Type string `json:"type"`
	C    []int  `json:"c"`
	C2   []int  `json:"c2"`
}

type k17SearchCase struct {
	Method string `json:"method"`
	Dim    int    `json:"dim"`
	Lo     []int  `json:"lo"`
	Hi     []int  `json:"hi"`
	Stops  []int  `json:"stops"`
	Rec    int    `json:"rec"`
	Iters  int    `json:"iters"`
	Q      int    `json:"q"`
	Sense  string `json:"sense"`
	Obj    k17Obj `json:"obj"`
}

type k17SearchRec struct {
	ID   int    `json:"id"`
	Fam  string `json:"fam"`
	Site string `json:"site"`
	k17SearchCase
	Outcome  string  `json:"outcome"`
	Panic    string  `json:"panic"`
	Cells    [][]int `json:"cells"` // the cell of every evaluation, in order
	Vals     []int   `json:"vals"`  // the objective value the harness returned for it
	RetCell  []int   `json:"retCell"`
	RetVal   int     `json:"retVal"` // objective at the returned point, evaluated by the harness
	HasRep   bool    `json:"hasRep"` // the routine also reports f(x)
	RepVal   int     `json:"repVal"`
	RepEx    bool    `json:"repEx"`
	InBounds bool    `json:"inBounds"`
	Raw      string  `json:"raw"`
}

func k17Abs(x int) int {
	if x < 0 {
		return -x
	}
	return x
}

// k17G is the integer objective on cells (mirrors KernelJudge.G; the judge recomputes every value).
func k17G(o k17Obj, z []int) int {
	l1 := func(c []int) int {
		s := 0
		for i := range z {
			s += k17Abs(z[i] - c[i])
		}
		return s
	}
	switch o.Type {
	case "abs":
		return l1(o.C)
	case "negabs":
		return -l1(o.C)
	case "sq":
		s := 0
		for i := range z {
			s += (z[i] - o.C[i]) * (z[i] - o.C[i])
		}
		return s
	case "step":
		s := 0
		for i := range z {
			if z[i] >= o.C[i] {
				s++
			}
		}
		return s
	case "two":
		a, b := l1(o.C), l1(o.C2)+1
		if b < a {
			return b
		}
		return a
	}
	fatal("c17: unknown objective %q", o.Type)
	return 0
}

func k17Search(c k17SearchCase, emit func(any)) {
	rec := k17SearchRec{Fam: "search", Site: c.Method, k17SearchCase: c, Cells: [][]int{}, Vals: []int{}, RetCell: []int{}}
	cellOf := func(x []float64) []int {
		z := make([]int, len(x))
		for i, v := range x {
			z[i] = int(math.Floor(v * float64(c.Q)))
		}
		return z
	}
	f := func(x []float64) float64 {
		z := cellOf(x)
		v := k17G(c.Obj, z)
		if len(rec.Cells) < 5000 {
			rec.Cells = append(rec.Cells, z)
			rec.Vals = append(rec.Vals, v)
		}
		return float64(v)
	}
	f1 := func(x float64) float64 { return f([]float64{x}) }
	f2 := func(x numerical.Vec2) float64 { return f(x[:]) }
	f3 := func(x numerical.Vec3) float64 { return f(x[:]) }
	lo, hi := k17Floats(c.Lo), k17Floats(c.Hi)
	min := c.Sense == "min"
	var ret []float64
	var rep float64
	rec.HasRep = true
	rec.Outcome, rec.Panic = withDeadline(10*time.Second, func() {
		switch c.Method {
		case "numerical.GSS":
			rec.HasRep = false
			ret = []float64{numerical.GSS(lo[0], hi[0], c.Iters, f1)}
		case "numerical.LineSearch":
			ls := &numerical.LineSearch{Stops: c.Stops[0], Recursions: c.Rec}
			var x float64
			if min {
				x, rep = ls.Minimize(lo[0], hi[0], f1)
			} else {
				x, rep = ls.Maximize(lo[0], hi[0], f1)
			}
			ret = []float64{x}
		case "toolbox3d.LineSearch":
			ls := &toolbox3d.LineSearch{Stops: c.Stops[0], Recursions: c.Rec}
			var x float64
			if min {
				x, rep = ls.Minimize(lo[0], hi[0], f1)
			} else {
				x, rep = ls.Maximize(lo[0], hi[0], f1)
			}
			ret = []float64{x}
		case "numerical.RecursiveLineSearch2":
			rs := &numerical.RecursiveLineSearch[numerical.Vec2]{LineSearch: numerical.LineSearch{Stops: c.Stops[0], Recursions: c.Rec}}
			var x numerical.Vec2
			if min {
				x, rep = rs.Minimize(numerical.Vec2{lo[0], lo[1]}, numerical.Vec2{hi[0], hi[1]}, f2)
			} else {
				x, rep = rs.Maximize(numerical.Vec2{lo[0], lo[1]}, numerical.Vec2{hi[0], hi[1]}, f2)
			}
			ret = x[:]
		case "numerical.RecursiveLineSearch3":
			rs := &numerical.RecursiveLineSearch[numerical.Vec3]{LineSearch: numerical.LineSearch{Stops: c.Stops[0], Recursions: c.Rec}}
			var x numerical.Vec3
			if min {
				x, rep = rs.Minimize(numerical.Vec3{lo[0], lo[1], lo[2]}, numerical.Vec3{hi[0], hi[1], hi[2]}, f3)
			} else {
				x, rep = rs.Maximize(numerical.Vec3{lo[0], lo[1], lo[2]}, numerical.Vec3{hi[0], hi[1], hi[2]}, f3)
			}
			ret = x[:]
		case "toolbox3d.LineSearch3D":
			rs := &toolbox3d.LineSearch3D{LineSearch: numerical.LineSearch{Stops: c.Stops[0], Recursions: c.Rec}}
			g := func(p model3d.Coord3D) float64 { return f([]float64{p.X, p.Y, p.Z}) }
			var x model3d.Coord3D
			if min {
				x, rep = rs.Minimize(model3d.XYZ(lo[0], lo[1], lo[2]), model3d.XYZ(hi[0], hi[1], hi[2]), g)
			} else {
				x, rep = rs.Maximize(model3d.XYZ(lo[0], lo[1], lo[2]), model3d.XYZ(hi[0], hi[1], hi[2]), g)
			}
			ret = []float64{x.X, x.Y, x.Z}
		case "numerical.GridSearch2D":
			gs := &numerical.GridSearch2D{XStops: c.Stops[0], YStops: c.Stops[1], Recursions: c.Rec}
			var x numerical.Vec2
			if min {
				x, rep = gs.Minimize(numerical.Vec2{lo[0], lo[1]}, numerical.Vec2{hi[0], hi[1]}, f2)
			} else {
				x, rep = gs.Maximize(numerical.Vec2{lo[0], lo[1]}, numerical.Vec2{hi[0], hi[1]}, f2)
			}
			ret = x[:]
		case "toolbox3d.GridSearch2D":
			gs := &toolbox3d.GridSearch2D{XStops: c.Stops[0], YStops: c.Stops[1], Recursions: c.Rec}
			g := func(p model2d.Coord) float64 { return f([]float64{p.X, p.Y}) }
			var x model2d.Coord
			if min {
				x, rep = gs.Minimize(model2d.XY(lo[0], lo[1]), model2d.XY(hi[0], hi[1]), g)
			} else {
				x, rep = gs.Maximize(model2d.XY(lo[0], lo[1]), model2d.XY(hi[0], hi[1]), g)
			}
			ret = []float64{x.X, x.Y}
		case "numerical.GridSearch3D":
			gs := &numerical.GridSearch3D{XStops: c.Stops[0], YStops: c.Stops[1], ZStops: c.Stops[2], Recursions: c.Rec}
			var x numerical.Vec3
			if min {
				x, rep = gs.Minimize(numerical.Vec3{lo[0], lo[1], lo[2]}, numerical.Vec3{hi[0], hi[1], hi[2]}, f3)
			} else {
				x, rep = gs.Maximize(numerical.Vec3{lo[0], lo[1], lo[2]}, numerical.Vec3{hi[0], hi[1], hi[2]}, f3)
			}
			ret = x[:]
		case "toolbox3d.GridSearch3D":
			gs := &toolbox3d.GridSearch3D{XStops: c.Stops[0], YStops: c.Stops[1], ZStops: c.Stops[2], Recursions: c.Rec}
			g := func(p model3d.Coord3D) float64 { return f([]float64{p.X, p.Y, p.Z}) }
			var x model3d.Coord3D
			if min {
				x, rep = gs.Minimize(model3d.XYZ(lo[0], lo[1], lo[2]), model3d.XYZ(hi[0], hi[1], hi[2]), g)
			} else {
				x, rep = gs.Maximize(model3d.XYZ(lo[0], lo[1], lo[2]), model3d.XYZ(hi[0], hi[1], hi[2]), g)
			}
			ret = []float64{x.X, x.Y, x.Z}
		default:
			fatal("c17: unknown search method %q", c.Method)
		}
	})
	if rec.Outcome == "ok" {
		// the objective at the returned point, evaluated here (not logged as a sample)
		rec.RetCell = cellOf(ret)
		rec.RetVal = k17G(c.Obj, rec.RetCell)
		rec.InBounds = true
		for i, x := range ret {
			if !(x >= lo[i] && x <= hi[i]) {
				rec.InBounds = false
			}
		}
		if rec.HasRep {
			rec.RepVal, rec.RepEx = k17Int(rep, 1)
		}
		rec.Raw = k17Raw(ret)
	}
	emit(rec)
}

// ---------------------------------------------------------------- angle

type k17AngleCase struct {
	K     int `json:"k"`
	Bound int `json:"bound"`
}

type k17AngleRec struct {
	ID      int    `json:"id"`
	Fam     string `json:"fam"`
	Site    string `json:"site"`
	K       int    `json:"k"`
	Bound   int    `json:"bound"`
	Panic   string `json:"panic"`
	Canon   int    `json:"canon"` // CanonicalAngle(k pi/12) * 12/pi
	CanonEx bool   `json:"canonEx"`
	InRange bool   `json:"inRange"` // 0 <= result < 2 pi
	Dist    []int  `json:"dist"`    // AngleDist(k pi/12, j pi/12) * 12/pi for j = -bound..bound (-1: not a multiple)
	Raw     string `json:"raw"`
}

func k17Angle(c k17AngleCase, emit func(any)) {
	rec := k17AngleRec{Fam: "angle", Site: "toolbox3d", K: c.K, Bound: c.Bound, Dist: []int{}}
	ang := func(k int) float64 { return float64(k) * math.Pi / 12 }
	rec.Panic = protect(func() {
		r := toolbox3d.CanonicalAngle(ang(c.K))
		rec.Canon, rec.CanonEx = k17Int(r, 12/math.Pi)
		rec.InRange = r >= 0 && r < 2*math.Pi
		// the same angle a hair to either side (down to the smallest denormal): still inside [0, 2 pi)
		for _, tiny := range []float64{1e-17, 5e-324, 4e-16, 1e-300, 3e-16} {
			for _, sg := range []float64{-1, 1} {
				if q := toolbox3d.CanonicalAngle(ang(c.K) + sg*tiny); !(q >= 0 && q < 2*math.Pi) {
					rec.InRange = false
				}
			}
		}
		rec.Raw = k17Raw(r)
		for j := -c.Bound; j <= c.Bound; j++ {
			d, ok := k17Int(toolbox3d.AngleDist(ang(c.K), ang(j)), 12/math.Pi)
			if !ok {
				d = -1
			}
			rec.Dist = append(rec.Dist, d)
		}
	})
	emit(rec)
}

// ---------------------------------------------------------------- bezier

type k17BezCase struct {
	N   int     `json:"n"`
	Pat int     `json:"pat"`
	D   int     `json:"D"`
	P   [][]int `json:"P"`
}

type k17BezRec struct {
	ID    int     `json:"id"`
	Fam   string  `json:"fam"`
	Site  string  `json:"site"`
	N     int     `json:"n"`
	Pat   int     `json:"pat"`
	D     int     `json:"D"`
	P     [][]int `json:"P"`
	Panic string  `json:"panic"`

	Ev    [][]int   `json:"ev"` // Eval(k/D) * D^n, k = 0..D
	EvEx  bool      `json:"evEx"`
	Pv    [][]int   `json:"pv"` // Polynomials() evaluated at k/D, * D^n
	PvEx  bool      `json:"pvEx"`
	S1    [][][]int `json:"s1"` // control points of the first half of Split(k/D), * D^n
	S2    [][][]int `json:"s2"`
	SEx   bool      `json:"sEx"`
	HasSm bool      `json:"hasSm"`
	Sm    [][]int   `json:"sm"` // <<first.Eval(1/2), second.Eval(1/2)>> * (2D)^n as <<x1, y1, x2, y2>>
	SmEx  bool      `json:"smEx"`
	Tr    [][]int   `json:"tr"` // Transpose().Eval(k/D) * D^n
	TrEx  bool      `json:"trEx"`
	Ct    [][]int   `json:"ct"` // CurveTranspose(b).Eval(k/D) * D^n
	CtEx  bool      `json:"ctEx"`

	MonoX bool  `json:"monoX"` // control x strictly monotone: inverse lookups reported
	Ix    []int `json:"ix"`    // InverseX(Eval(k/D).X) * D
	IxEx  bool  `json:"ixEx"`
	Yx    []int `json:"yx"` // EvalX(Eval(k/D).X) * D^n
	YxEx  bool  `json:"yxEx"`
	MonoY bool  `json:"monoY"`
	Iy    []int `json:"iy"` // CurveInverseX(CurveTranspose(b), Eval(k/D).Y) * D
	IyEx  bool  `json:"iyEx"`

	Len   int  `json:"len"` // Length(1e-6, 0)
	LenEx bool `json:"lenEx"`
	// |Length(1e-6) - length of the polyline through 16384 Eval samples| and
	// |Length(b) - Length(left half) - Length(right half)| as decimal exponents (k17Bucket)
	LenArc int    `json:"lenArc"`
	LenAdd int    `json:"lenAdd"`
	Raw    string `json:"raw"`
}

func k17StrictMono(p [][]int, c int) bool {
	inc, dec := true, true
	for i := 1; i < len(p); i++ {
		if !(p[i-1][c] < p[i][c]) {
			inc = false
		}
		if !(p[i-1][c] > p[i][c]) {
			dec = false
		}
	}
	return inc || dec
}

func k17Pts(cs []model2d.Coord, scale float64) ([][]int, bool) {
	res := make([][]int, len(cs))
	all := true
	for i, c := range cs {
		v, ok := k17Ints([]float64{c.X, c.Y}, scale)
		res[i] = v
		all = all && ok
	}
	return res, all
}

func k17Bez(c k17BezCase, emit func(any)) {
	rec := k17BezRec{Fam: "bezier", Site: "model2d.BezierCurve", N: c.N, Pat: c.Pat, D: c.D, P: c.P,
		Ev: [][]int{}, Pv: [][]int{}, S1: [][][]int{}, S2: [][][]int{}, Sm: [][]int{}, Tr: [][]int{}, Ct: [][]int{},
		Ix: []int{}, Yx: []int{}, Iy: []int{}}
	rec.MonoX = k17StrictMono(c.P, 0)
	rec.MonoY = k17StrictMono(c.P, 1)
	rec.HasSm = c.N <= 7
	scale := math.Pow(float64(c.D), float64(c.N))
	scale2 := math.Pow(float64(2*c.D), float64(c.N))
	rec.Panic = protect(func() {
		b := make(model2d.BezierCurve, len(c.P))
		for i, p := range c.P {
			b[i] = model2d.XY(float64(p[0]), float64(p[1]))
		}
		polys := b.Polynomials()
		bt := b.Transpose()
		ct := model2d.CurveTranspose(b)
		var ev, pv, tr, ctv []model2d.Coord
		var ix, yx, iy []float64
		rec.SEx, rec.SmEx = true, true
		for k := 0; k <= c.D; k++ {
			t := float64(k) / float64(c.D)
			e := b.Eval(t)
			ev = append(ev, e)
			pv = append(pv, model2d.XY(polys[0].Eval(t), polys[1].Eval(t)))
			tr = append(tr, bt.Eval(t))
			ctv = append(ctv, ct.Eval(t))
			h1, h2 := b.Split(t)
			p1, ok1 := k17Pts(h1, scale)
			p2, ok2 := k17Pts(h2, scale)
			rec.S1 = append(rec.S1, p1)
			rec.S2 = append(rec.S2, p2)
			rec.SEx = rec.SEx && ok1 && ok2
			if rec.HasSm {
				m1, m2 := h1.Eval(0.5), h2.Eval(0.5)
				v, ok := k17Ints([]float64{m1.X, m1.Y, m2.X, m2.Y}, scale2)
				rec.Sm = append(rec.Sm, v)
				rec.SmEx = rec.SmEx && ok
			}
			if rec.MonoX {
				ix = append(ix, b.InverseX(e.X))
				yx = append(yx, b.EvalX(e.X))
			}
			if rec.MonoY {
				iy = append(iy, model2d.CurveInverseX(ct, e.Y))
			}
		}
		rec.Ev, rec.EvEx = k17Pts(ev, scale)
		rec.Pv, rec.PvEx = k17Pts(pv, scale)
		rec.Tr, rec.TrEx = k17Pts(tr, scale)
		rec.Ct, rec.CtEx = k17Pts(ctv, scale)
		rec.Ix, rec.IxEx = k17Ints(ix, float64(c.D))
		rec.Yx, rec.YxEx = k17Ints(yx, scale)
		rec.Iy, rec.IyEx = k17Ints(iy, float64(c.D))
		l := b.Length(1e-6, 0)
		rec.Len, rec.LenEx = k17Int(l, 1)
		const nPoly = 16384
		lp := 0.0
		prev := b.Eval(0)
		for i := 1; i <= nPoly; i++ {
			cur := b.Eval(float64(i) / nPoly)
			lp += cur.Dist(prev)
			prev = cur
		}
		rec.LenArc = k17Bucket(l - lp)
		h1, h2 := b.Split(0.5)
		rec.LenAdd = k17Bucket(l - h1.Length(1e-6, 0) - h2.Length(1e-6, 0))
		rec.Raw = k17Raw(map[string]any{"ev": ev, "len": l, "ix": ix})
	})
	emit(rec)
}

// ---------------------------------------------------------------- polyline

type k17LineCase struct {
	Moves [][]int `json:"moves"`
}

type k17LineRec struct {
	ID    int     `json:"id"`
	Fam   string  `json:"fam"`
	Site  string  `json:"site"`
	Moves [][]int `json:"moves"`
	Panic string  `json:"panic"`
	Scale int     `json:"scale"`
	Pts   [][]int `json:"pts"` // SegmentCurve: Eval(i/L) for i = 0..L; JoinedCurve: Eval(m/(4k)) * 4 for m = 0..4k
	Exact bool    `json:"exact"`
	Raw   string  `json:"raw"`
}

func k17Line(c k17LineCase, emit func(any)) {
	dirs := [][2]int{{1, 0}, {0, 1}, {-1, 0}, {0, -1}}
	verts := [][2]int{{0, 0}}
	total := 0
	for _, m := range c.Moves {
		last := verts[len(verts)-1]
		d := dirs[m[0]-1]
		verts = append(verts, [2]int{last[0] + d[0]*m[1], last[1] + d[1]*m[1]})
		total += m[1]
	}
	pt := func(v [2]int) model2d.Coord { return model2d.XY(float64(v[0]), float64(v[1])) }
	segs := func() []*model2d.Segment {
		var res []*model2d.Segment
		for i := 1; i < len(verts); i++ {
			res = append(res, &model2d.Segment{pt(verts[i-1]), pt(verts[i])})
		}
		return res
	}
	evalAll := func(rec *k17LineRec, curve func() model2d.Curve, n int, scale int) {
		rec.Scale = scale
		rec.Panic = protect(func() {
			cv := curve()
			var pts []model2d.Coord
			for i := 0; i <= n; i++ {
				pts = append(pts, cv.Eval(float64(i)/float64(n)))
			}
			rec.Pts, rec.Exact = k17Pts(pts, float64(scale))
			rec.Raw = k17Raw(pts)
		})
		emit(*rec)
	}
	rec := k17LineRec{Fam: "polyline", Site: "model2d.SegmentCurve", Moves: c.Moves, Pts: [][]int{}}
	evalAll(&rec, func() model2d.Curve { return model2d.NewSegmentCurve(segs()) }, total, 1)

	distinct := true
	seen := map[[2]int]bool{}
	for _, v := range verts {
		if seen[v] {
			distinct = false
		}
		seen[v] = true
	}
	if distinct {
		rec := k17LineRec{Fam: "polyline", Site: "model2d.NewSegmentCurveMesh", Moves: c.Moves, Pts: [][]int{}}
		evalAll(&rec, func() model2d.Curve {
			m := model2d.NewMesh()
			ss := segs()
			// insertion order must not matter: add back to front
			for i := len(ss) - 1; i >= 0; i-- {
				m.Add(ss[i])
			}
			return model2d.NewSegmentCurveMesh(m)
		}, total, 1)
	}
	rec2 := k17LineRec{Fam: "polyline", Site: "model2d.JoinedCurve", Moves: c.Moves, Pts: [][]int{}}
	evalAll(&rec2, func() model2d.Curve {
		var j model2d.JoinedCurve
		for i, s := range segs() {
			if i%2 == 0 {
				j = append(j, model2d.BezierCurve{s[0], s[1]})
			} else {
				j = append(j, model2d.NewSegmentCurve([]*model2d.Segment{s}))
			}
		}
		return j
	}, 4*len(c.Moves), 4)
}

// ---------------------------------------------------------------- command

func init() {
	register("c17-kernels", func(a args) {
		kind := a.str("kind", "")
		k17Seed = a.int("seed", 1)
		if k17Seed < 0 {
			k17Seed = -k17Seed
		}
		out := newNDWriter(a.str("out", "records.ndjson"))
		stats := map[string]int{}
		id := 0
		emit := func(v any) {
			id++
			// set the id through a generic round trip-free path: every record type starts with ID
			switch r := v.(type) {
			case k17PolyRec:
				r.ID = id
				stats["site:"+r.Site]++
				stats["outcome:"+r.Outcome]++
				out.write(r)
			case k17MatRec:
				r.ID = id
				stats["site:"+r.Site]++
				out.write(r)
			case k17LinRec:
				r.ID = id
				stats["site:"+r.Site]++
				stats["outcome:"+r.Outcome]++
				out.write(r)
			case k17SearchRec:
				r.ID = id
				stats["site:"+r.Site]++
				stats["outcome:"+r.Outcome]++
				stats["evaluations"] += len(r.Vals)
				out.write(r)
			case k17AngleRec:
				r.ID = id
				stats["site:"+r.Site]++
				out.write(r)
			case k17BezRec:
				r.ID = id
				stats["site:"+r.Site]++
				out.write(r)
			case k17LineRec:
				r.ID = id
				stats["site:"+r.Site]++
				out.write(r)
			default:
				fatal("c17: unknown record type %T", v)
			}
		}
		parse := func(line []byte, v any) {
			if err := json.Unmarshal(line, v); err != nil {
				fatal("c17: bad case %s: %v", line, err)
			}
		}
		readNDJSON(a.str("in", "cases.ndjson"), func(line []byte) {
			stats["cases"]++
			switch kind {
			case "poly":
				var c k17PolyCase
				parse(line, &c)
				k17Poly(c, emit)
			case "matrix":
				var c k17MatCase
				parse(line, &c)
				if c.Sub == "m" {
					k17MatGeneral(c, emit)
				} else {
					k17MatRot(c, emit)
				}
			case "linsolve":
				var c k17LinCase
				parse(line, &c)
				k17Lin(c, emit)
			case "search":
				var c k17SearchCase
				parse(line, &c)
				k17Search(c, emit)
			case "angle":
				var c k17AngleCase
				parse(line, &c)
				k17Angle(c, emit)
			case "bezier":
				var c k17BezCase
				parse(line, &c)
				k17Bez(c, emit)
			case "polyline":
				var c k17LineCase
				parse(line, &c)
				k17Line(c, emit)
			default:
				fatal("c17: unknown kind %q", kind)
			}
		})
		out.close()
		stats["records"] = out.n
		writeJSONFile(a.str("stats", "stats.json"), stats)
	})
}
