package main

// C09 (maps): histories of map operations executed against the twelve coordinate-keyed
// map types.  Vocabulary mirrors spec/maps/CoordMapADT.tla.

import (
	"encoding/json"
	"math/rand"
	"sort"

	"github.com/unixpickle/model3d/model2d"
	"github.com/unixpickle/model3d/model3d"
)

type mapOp struct {
	Op string `json:"op"`
	K  int    `json:"k"`
	X  int    `json:"x"`
}

type loadObs struct {
	Ok  bool  `json:"ok"`
	Val []int `json:"val"`
}

type itemObs struct {
	K int   `json:"k"`
	V []int `json:"v"`
}

type mapEvent struct {
	Op      string    `json:"op"`
	K       int       `json:"k"`
	X       int       `json:"x"`
	Panic   string    `json:"panic"`
	Ret     []int     `json:"ret"`
	Len     int       `json:"len"`
	Loads   []loadObs `json:"loads"`
	Items   []itemObs `json:"items"`
	Keys    []int     `json:"keys"`
	Vals    [][]int   `json:"vals"`
	Fast    bool      `json:"fast"`
	ValueOK bool      `json:"valueok"`
}

type mapRecord struct {
	Id   int        `json:"id"`
	Kind string     `json:"kind"`
	Real string     `json:"real"`
	Ev   []mapEvent `json:"ev"`
}

type kvMap[K any, V any] interface {
	Len() int
	Load(K) (V, bool)
	Value(K) V
	Delete(K)
	Store(K, V)
	KeyRange(func(K) bool)
	ValueRange(func(V) bool)
	Range(func(K, V) bool)
	VerifIsFast() bool
}

// mapDriver is the type-erased view used by the history runner.
type mapDriver struct {
	kind    string
	store   func(k, rep, v int)
	appendX func(k, rep, x int) []int // nil if unsupported
	addX    func(k, rep, x int) []int // nil if unsupported
	del     func(k, rep int)
	load    func(k, rep int) ([]int, bool)
	value   func(k, rep int) []int
	length  func() int
	items   func() []itemObs
	keys    func() []int
	vals    func() [][]int
	fast    func() bool
}

func genericDriver[K any, V any](kind string, m kvMap[K, V], key func(class, rep int) K, classOf func(K) int,
	enc func(V) []int, dec func(int) V) mapDriver {
	encOk := func(v V, ok bool) ([]int, bool) {
		if !ok {
			return []int{}, false
		}
		return enc(v), true
	}
	return mapDriver{
		kind:  kind,
		store: func(k, rep, v int) { m.Store(key(k, rep), dec(v)) },
		del:   func(k, rep int) { m.Delete(key(k, rep)) },
		load: func(k, rep int) ([]int, bool) {
			v, ok := m.Load(key(k, rep))
			return encOk(v, ok)
		},
		value:  func(k, rep int) []int { return enc(m.Value(key(k, rep))) },
		length: m.Len,
		items: func() []itemObs {
			var out []itemObs
			m.Range(func(k K, v V) bool {
				out = append(out, itemObs{classOf(k), enc(v)})
				return true
			})
			sort.SliceStable(out, func(i, j int) bool { return out[i].K < out[j].K })
			if out == nil {
				out = []itemObs{}
			}
			return out
		},
		keys: func() []int {
			out := []int{}
			m.KeyRange(func(k K) bool {
				out = append(out, classOf(k))
				return true
			})
			sort.Ints(out)
			return out
		},
		vals: func() [][]int {
			out := [][]int{}
			m.ValueRange(func(v V) bool {
				out = append(out, enc(v))
				return true
			})
			return out
		},
		fast: m.VerifIsFast,
	}
}

func encInt(v int) []int {
	return []int{v}
}
func encSlice(v []int) []int {
	if v == nil {
		return []int{}
	}
	return append([]int{}, v...)
}
func decInt(v int) int     { return v }
func decSlice(v int) []int { return []int{v} }

// key realisations ---------------------------------------------------------------

func coord3Key(collide, negzero bool) (func(class, rep int) model3d.Coord3D, func(model3d.Coord3D) int) {
	cs := []model3d.Coord3D{
		model3d.XYZ(1, 1, 0), model3d.XYZ(1, 0, 0), model3d.XYZ(0, 0, 0), model3d.XYZ(0, 1, 1), model3d.XYZ(2, 0, 3),
	}
	if collide {
		cs[0], cs[1] = model3d.XYZ(1e20, 1, 0), model3d.XYZ(1e20, 0, 0)
	}
	if negzero {
		// a key with a denormal component between two zeros: the zeros come in both signs, and the products of the
		// hash underflow to a zero of either sign
		cs[3] = model3d.XYZ(0, -5e-324, 0)
	}
	key := func(class, rep int) model3d.Coord3D {
		if class == 3 && negzero && rep%2 == 1 {
			z := axisVal(0, false, true)
			return model3d.XYZ(z, z, z)
		}
		if class == 4 && negzero && rep%2 == 1 {
			z := axisVal(0, false, true)
			return model3d.XYZ(z, -5e-324, z)
		}
		return cs[class-1]
	}
	classOf := func(c model3d.Coord3D) int {
		for i, x := range cs {
			if x == c {
				return i + 1
			}
		}
		return 0
	}
	return key, classOf
}

func coord2Key(collide, negzero bool) (func(class, rep int) model2d.Coord, func(model2d.Coord) int) {
	cs := []model2d.Coord{
		model2d.XY(1, 1), model2d.XY(1, 0), model2d.XY(0, 0), model2d.XY(0, 1), model2d.XY(2, 3),
	}
	if collide {
		cs[0], cs[1] = model2d.XY(1e20, 1), model2d.XY(1e20, 0)
	}
	key := func(class, rep int) model2d.Coord {
		if class == 3 && negzero && rep%2 == 1 {
			z := axisVal(0, false, true)
			return model2d.XY(z, z)
		}
		return cs[class-1]
	}
	classOf := func(c model2d.Coord) int {
		for i, x := range cs {
			if x == c {
				return i + 1
			}
		}
		return 0
	}
	return key, classOf
}

// edge key classes: 1 = (c1,c4), 2 = (c2,c4) (collide with 1), 3 = (origin,c4), 4 = (c4,c1), 5 = (c5,c5)
func edgeOf(class int) (int, int) {
	switch class {
	case 1:
		return 1, 4
	case 2:
		return 2, 4
	case 3:
		return 3, 4
	case 4:
		return 4, 1
	}
	return 5, 5
}

func edge3Key(collide, negzero bool) (func(class, rep int) [2]model3d.Coord3D, func([2]model3d.Coord3D) int) {
	ck, cc := coord3Key(collide, negzero)
	key := func(class, rep int) [2]model3d.Coord3D {
		a, b := edgeOf(class)
		return [2]model3d.Coord3D{ck(a, rep), ck(b, rep)}
	}
	classOf := func(e [2]model3d.Coord3D) int {
		a, b := cc(e[0]), cc(e[1])
		for cl := 1; cl <= 5; cl++ {
			x, y := edgeOf(cl)
			if x == a && y == b {
				return cl
			}
		}
		return 0
	}
	return key, classOf
}

func edge2Key(collide, negzero bool) (func(class, rep int) [2]model2d.Coord, func([2]model2d.Coord) int) {
	ck, cc := coord2Key(collide, negzero)
	key := func(class, rep int) [2]model2d.Coord {
		a, b := edgeOf(class)
		return [2]model2d.Coord{ck(a, rep), ck(b, rep)}
	}
	classOf := func(e [2]model2d.Coord) int {
		a, b := cc(e[0]), cc(e[1])
		for cl := 1; cl <= 5; cl++ {
			x, y := edgeOf(cl)
			if x == a && y == b {
				return cl
			}
		}
		return 0
	}
	return key, classOf
}

func mapDrivers(family string, collide, negzero bool) []mapDriver {
	var out []mapDriver
	k3, c3 := coord3Key(collide, negzero)
	k2, c2 := coord2Key(collide, negzero)
	e3, ec3 := edge3Key(collide, negzero)
	e2, ec2 := edge2Key(collide, negzero)
	switch family {
	case "plain":
		out = append(out,
			genericDriver[model3d.Coord3D, int]("model3d.CoordMap", model3d.NewCoordMap[int](), k3, c3, encInt, decInt),
			genericDriver[model2d.Coord, int]("model2d.CoordMap", model2d.NewCoordMap[int](), k2, c2, encInt, decInt),
			genericDriver[[2]model3d.Coord3D, int]("model3d.EdgeMap", model3d.NewEdgeMap[int](), e3, ec3, encInt, decInt),
			genericDriver[[2]model2d.Coord, int]("model2d.EdgeMap", model2d.NewEdgeMap[int](), e2, ec2, encInt, decInt))
	case "slice":
		{
			m := model3d.NewCoordToSlice[int]()
			d := genericDriver[model3d.Coord3D, []int]("model3d.CoordToSlice", m, k3, c3, encSlice, decSlice)
			d.appendX = func(k, rep, x int) []int { return encSlice(m.Append(k3(k, rep), x)) }
			out = append(out, d)
		}
		{
			m := model2d.NewCoordToSlice[int]()
			d := genericDriver[model2d.Coord, []int]("model2d.CoordToSlice", m, k2, c2, encSlice, decSlice)
			d.appendX = func(k, rep, x int) []int { return encSlice(m.Append(k2(k, rep), x)) }
			out = append(out, d)
		}
		{
			m := model3d.NewEdgeToSlice[int]()
			d := genericDriver[[2]model3d.Coord3D, []int]("model3d.EdgeToSlice", m, e3, ec3, encSlice, decSlice)
			d.appendX = func(k, rep, x int) []int { return encSlice(m.Append(e3(k, rep), x)) }
			out = append(out, d)
		}
		{
			m := model2d.NewEdgeToSlice[int]()
			d := genericDriver[[2]model2d.Coord, []int]("model2d.EdgeToSlice", m, e2, ec2, encSlice, decSlice)
			d.appendX = func(k, rep, x int) []int { return encSlice(m.Append(e2(k, rep), x)) }
			out = append(out, d)
		}
	case "number":
		{
			m := model3d.NewCoordToNumber[int]()
			d := genericDriver[model3d.Coord3D, int]("model3d.CoordToNumber", m, k3, c3, encInt, decInt)
			d.addX = func(k, rep, x int) []int { return encInt(m.Add(k3(k, rep), x)) }
			out = append(out, d)
		}
		{
			m := model2d.NewCoordToNumber[int]()
			d := genericDriver[model2d.Coord, int]("model2d.CoordToNumber", m, k2, c2, encInt, decInt)
			d.addX = func(k, rep, x int) []int { return encInt(m.Add(k2(k, rep), x)) }
			out = append(out, d)
		}
		{
			m := model3d.NewEdgeToNumber[int]()
			d := genericDriver[[2]model3d.Coord3D, int]("model3d.EdgeToNumber", m, e3, ec3, encInt, decInt)
			d.addX = func(k, rep, x int) []int { return encInt(m.Add(e3(k, rep), x)) }
			out = append(out, d)
		}
		{
			m := model2d.NewEdgeToNumber[int]()
			d := genericDriver[[2]model2d.Coord, int]("model2d.EdgeToNumber", m, e2, ec2, encInt, decInt)
			d.addX = func(k, rep, x int) []int { return encInt(m.Add(e2(k, rep), x)) }
			out = append(out, d)
		}
	}
	return out
}

func runMapHistory(d mapDriver, ops []mapOp, nkeys, id int, realName string) (mapRecord, bool) {
	rec := mapRecord{Id: id, Kind: d.kind, Real: realName, Ev: []mapEvent{}}
	wentSlow := false
	for i, op := range ops {
		ev := mapEvent{Op: op.Op, K: op.K, X: op.X, Ret: []int{}, ValueOK: true}
		rep := i
		ev.Panic = protect(func() {
			switch op.Op {
			case "Store":
				d.store(op.K, rep, op.X)
			case "Append":
				ev.Ret = d.appendX(op.K, rep, op.X)
			case "Add":
				ev.Ret = d.addX(op.K, rep, op.X)
			case "Delete":
				d.del(op.K, rep)
			case "Load":
				v, _ := d.load(op.K, rep)
				ev.Ret = v
			default:
				fatal("unknown map op %q", op.Op)
			}
			ev.Len = d.length()
			for k := 1; k <= nkeys; k++ {
				v, ok := d.load(k, rep+k)
				v2 := d.value(k, rep+k+1)
				if ok && !equalInts(v, v2) {
					ev.ValueOK = false
				}
				if !ok && !(len(v2) == 0 || (len(v2) == 1 && v2[0] == 0)) {
					ev.ValueOK = false
				}
				ev.Loads = append(ev.Loads, loadObs{ok, v})
			}
			ev.Items = d.items()
			ev.Keys = d.keys()
			// ValueRange order is arbitrary: report the values in key order if they form the
			// same multiset as Range's values, else report them raw (the judge will reject).
			vals := d.vals()
			ev.Vals = alignVals(vals, ev.Items)
			ev.Fast = d.fast()
		})
		if ev.Panic != "" {
			ev.Loads = []loadObs{}
			ev.Items = []itemObs{}
			ev.Keys = []int{}
			ev.Vals = [][]int{}
			ev.Len = -1
		}
		if !ev.Fast {
			wentSlow = true
		}
		rec.Ev = append(rec.Ev, ev)
		if ev.Panic != "" {
			break
		}
	}
	return rec, wentSlow
}

func alignVals(vals [][]int, items []itemObs) [][]int {
	if len(vals) != len(items) {
		return vals
	}
	used := make([]bool, len(vals))
	out := make([][]int, 0, len(vals))
	for _, it := range items {
		found := false
		for j, v := range vals {
			if !used[j] && equalInts(v, it.V) {
				used[j] = true
				out = append(out, v)
				found = true
				break
			}
		}
		if !found {
			return vals
		}
	}
	return out
}

func equalInts(a, b []int) bool {
	if len(a) != len(b) {
		return false
	}
	for i := range a {
		if a[i] != b[i] {
			return false
		}
	}
	return true
}

func randomMapOps(rng *rand.Rand, family string, nkeys, n int) []mapOp {
	ops := make([]mapOp, 0, n)
	for len(ops) < n {
		k := 1 + rng.Intn(nkeys)
		x := 1 + rng.Intn(2)
		switch r := rng.Intn(10); {
		case r < 4:
			ops = append(ops, mapOp{"Store", k, x})
		case r < 6:
			ops = append(ops, mapOp{"Delete", k, 0})
		case r < 7:
			ops = append(ops, mapOp{"Load", k, 0})
		default:
			switch family {
			case "slice":
				ops = append(ops, mapOp{"Append", k, x})
			case "number":
				ops = append(ops, mapOp{"Add", k, x})
			default:
				ops = append(ops, mapOp{"Store", k, x})
			}
		}
	}
	return ops
}

func init() {
	// c09-maps family=plain|slice|number in=<behaviours.ndjson> out=<records.ndjson> nkeys=5 random=N len=L
	register("c09-maps", func(a args) {
		family := a.str("family", "plain")
		nkeys := a.int("nkeys", 5)
		out := newNDWriter(a.str("out", "records.ndjson"))
		defer out.close()
		var behaviours [][]mapOp
		if in := a.str("in", ""); in != "" {
			readNDJSON(in, func(line []byte) {
				var ops []mapOp
				if err := json.Unmarshal(line, &ops); err != nil {
					fatal("bad behaviour: %v", err)
				}
				behaviours = append(behaviours, ops)
			})
		}
		rng := rand.New(rand.NewSource(int64(a.int("seed", 1))))
		for i := 0; i < a.int("random", 0); i++ {
			behaviours = append(behaviours, randomMapOps(rng, family, nkeys, a.int("len", 30)))
		}
		id := 0
		stats := map[string]int{}
		reals := []struct {
			name             string
			collide, negzero bool
		}{{"plain", false, false}, {"collide", true, false}, {"negzero", false, true}, {"collide+negzero", true, true}}
		for _, ops := range behaviours {
			for _, rl := range reals {
				for _, d := range mapDrivers(family, rl.collide, rl.negzero) {
					id++
					rec, slow := runMapHistory(d, ops, nkeys, id, rl.name)
					if slow {
						stats["crossed_fast_to_slow"]++
					}
					stats["events"] += len(rec.Ev)
					out.write(rec)
				}
			}
		}
		stats["records"] = id
		stats["behaviours"] = len(behaviours)
		writeJSONFile(a.str("stats", "stats.json"), stats)
	})
}
