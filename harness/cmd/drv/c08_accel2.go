package main

// C08 (and the C06 / C07 clauses that come for free): the 2-D accelerated queries - model2d.MeshToCollider,
// BVHToCollider over NewBVHAreaDensity and over hand-built wide hierarchies, GroupSegments +
// GroupedSegmentsToCollider, nested JoinedColliders, MeshToSDF, GroupedSegmentsToSDF - against the property's own
// oracle, the literal linear scan over the individual segments with the SAME primitive routines
// (Segment.RayCollisions, Segment.CircleCollision, Segment.Dist ...), plus the grouping routines of both
// dimensions as permutations.  Records for spec/spatial/Accel2Judge.tla.
//
// All coordinates of the worlds are integers, all query points are half-integers ("half units": a point p is
// recorded as the integer pair 2p).  For rays in general position and points off the outline the harness also
// computes the exact answers in integer arithmetic (crossing count, even-odd parity, squared distance).

import (
	"math"
	"math/rand"
	"sort"
	"strings"

	"github.com/unixpickle/model3d/model2d"
	"github.com/unixpickle/model3d/model3d"
)

type a2Ray struct {
	O         [2]int `json:"o"` // half units
	D         [2]int `json:"d"` // the real direction is d * 2^-e
	E         int    `json:"e"`
	N         int    `json:"n"`    // RayCollisions with a callback
	Ncb       int    `json:"ncb"`  // number of callbacks
	Nnil      int    `json:"nnil"` // RayCollisions without a callback
	Nlin      int    `json:"nlin"` // sum over the segments
	Hitsame   bool   `json:"hitsame"`
	First     bool   `json:"first"`
	Firstlin  bool   `json:"firstlin"`
	Firstsame bool   `json:"firstsame"`
	Gp        bool   `json:"gp"`     // in general position (exact integer test)
	Nexact    int    `json:"nexact"` // exact number of proper crossings (meaningful if gp)
}

type a2Ball struct {
	C      [2]int `json:"c"`
	M      int    `json:"m"` // radius m/2
	Hit    bool   `json:"hit"`
	Hitlin bool   `json:"hitlin"`
}

type a2Multi struct {
	Kind   string `json:"kind"` // seg | rect
	A      [2]int `json:"a"`
	B      [2]int `json:"b"`
	Hit    bool   `json:"hit"`
	Hitlin bool   `json:"hitlin"`
}

type a2Sdf struct {
	P       [2]int `json:"p"`
	Pos     bool   `json:"pos"`     // SDF > 0
	Zero    bool   `json:"zero"`    // SDF == 0
	Same    bool   `json:"same"`    // |SDF| == min over the segments of Segment.Dist, bit for bit
	Close   bool   `json:"close"`   // ... within 1e-12 (relative)
	Bad     int    `json:"bad"`     // PointSDF / NormalSDF / FaceSDF disagree with SDF or with each other
	Inlin   int    `json:"inlin"`   // parity of the linear scan with ColliderContains' own ray (1 = inside)
	Inexact int    `json:"inexact"` // exact even-odd parity; -1 on the outline or in a world without an inside
	D2      int    `json:"d2"`      // round(4 SDF^2)              (pixel worlds: an exact integer)
	D2exact int    `json:"d2exact"` // exact 4 * squared distance  (pixel worlds; -1 otherwise)
	Exactok bool   `json:"exactok"` // SDF^2 agrees with the exact rational squared distance to 1e-9
}

type a2Contains struct {
	P      [2]int `json:"p"`
	Inside bool   `json:"inside"`
	Exact  int    `json:"exact"` // -1: on the outline / no inside
}

type a2Group struct {
	Ok   bool `json:"ok"` // same multiset of pointers
	Nin  int  `json:"nin"`
	Nout int  `json:"nout"`
}

type a2Record struct {
	Id       int          `json:"id"`
	Site     string       `json:"site"`
	Variant  string       `json:"variant"` // pixels | polygon | soup | voxel-mesh | bounders
	Kind     string       `json:"kind"`    // collider | sdf | grouping
	Panic    string       `json:"panic"`
	World    string       `json:"world"`
	Segs     [][4]int     `json:"segs"`
	Rays     []a2Ray      `json:"rays"`
	Balls    []a2Ball     `json:"balls"`
	Multi    []a2Multi    `json:"multi"`
	Sdf      []a2Sdf      `json:"sdf"`
	Contains []a2Contains `json:"contains"`
	Group    a2Group      `json:"group"`
}

// ---------------------------------------------------------------------------- worlds

type a2World struct {
	variant string
	name    string
	segs    [][4]int // x0,y0,x1,y1 (integers), directed so that Segment.Normal points outwards
	closed  bool     // a union of closed outlines: there is an inside (even-odd)
	lo, hi  [2]int   // integer bounds of the world
}

func (w *a2World) finish() *a2World {
	for i, s := range w.segs {
		if i == 0 {
			w.lo, w.hi = [2]int{s[0], s[1]}, [2]int{s[0], s[1]}
		}
		for k := 0; k < 2; k++ {
			for _, v := range []int{s[k], s[k+2]} {
				if v < w.lo[k] {
					w.lo[k] = v
				}
				if v > w.hi[k] {
					w.hi[k] = v
				}
			}
		}
	}
	return w
}

// segments builds fresh Segment objects (every site gets its own).
func (w *a2World) segments() []*model2d.Segment {
	out := make([]*model2d.Segment, len(w.segs))
	for i, s := range w.segs {
		out[i] = &model2d.Segment{model2d.XY(float64(s[0]), float64(s[1])), model2d.XY(float64(s[2]), float64(s[3]))}
	}
	return out
}

func a2PixelWorld(pix [][2]int, name string) *a2World {
	w := &a2World{variant: "pixels", name: name, closed: true}
	for _, s := range pixelOutline(pix).SegmentSlice() {
		w.segs = append(w.segs, [4]int{int(s[0].X), int(s[0].Y), int(s[1].X), int(s[1].Y)})
	}
	// the mesh hands its segments out in map order: make the world itself deterministic
	sort.Slice(w.segs, func(i, j int) bool {
		for k := 0; k < 4; k++ {
			if w.segs[i][k] != w.segs[j][k] {
				return w.segs[i][k] < w.segs[j][k]
			}
		}
		return false
	})
	return w.finish()
}

// a2PolyWorld: closed polygons with integer vertices; each is oriented clockwise (y up), which is what makes
// Segment.Normal point outwards according to the documentation of Segment; holes are oriented the other way.
func a2PolyWorld(name string, outer [][][2]int, holes [][][2]int) *a2World {
	w := &a2World{variant: "polygon", name: name, closed: true}
	add := func(p [][2]int, clockwise bool) {
		a := 0
		for i := range p {
			q := p[(i+1)%len(p)]
			a += p[i][0]*q[1] - q[0]*p[i][1]
		}
		if (a < 0) != clockwise {
			r := make([][2]int, len(p))
			for i := range p {
				r[i] = p[len(p)-1-i]
			}
			p = r
		}
		for i := range p {
			q := p[(i+1)%len(p)]
			w.segs = append(w.segs, [4]int{p[i][0], p[i][1], q[0], q[1]})
		}
	}
	for _, p := range outer {
		add(p, true)
	}
	for _, p := range holes {
		add(p, false)
	}
	return w.finish()
}

// the 8 symmetries of the integer lattice, then a translation
func a2Transform(p [][2]int, sym, tx, ty int) [][2]int {
	out := make([][2]int, len(p))
	for i, v := range p {
		x, y := v[0], v[1]
		if sym&1 != 0 {
			x = -x
		}
		if sym&2 != 0 {
			y = -y
		}
		if sym&4 != 0 {
			x, y = y, x
		}
		out[i] = [2]int{x + tx, y + ty}
	}
	return out
}

var a2Palette = []struct {
	name  string
	outer [][][2]int
	holes [][][2]int
}{
	{"triangle", [][][2]int{{{0, 0}, {4, 1}, {1, 3}}}, nil},
	{"sliver", [][][2]int{{{0, 0}, {5, 1}, {5, 2}}}, nil},
	{"kite", [][][2]int{{{0, 2}, {2, 0}, {5, 2}, {2, 3}}}, nil},
	{"arrow", [][][2]int{{{0, 0}, {2, 1}, {4, 0}, {2, 4}}}, nil},
	{"pentagon", [][][2]int{{{1, 0}, {4, 0}, {5, 3}, {2, 5}, {0, 2}}}, nil},
	{"345", [][][2]int{{{0, 0}, {3, 0}, {0, 4}}}, nil},
	{"two-triangles", [][][2]int{{{0, 0}, {2, 1}, {1, 3}}, {{3, 2}, {6, 1}, {5, 4}}}, nil},
	{"touching-triangles", [][][2]int{{{0, 0}, {3, 1}, {1, 2}}, {{3, 1}, {6, 0}, {5, 3}}}, nil},
	{"ring", [][][2]int{{{0, 0}, {6, 1}, {5, 6}, {-1, 4}}}, [][][2]int{{{1, 2}, {4, 2}, {3, 4}}}},
	{"comb", [][][2]int{{{0, 0}, {6, 0}, {6, 4}, {5, 1}, {4, 4}, {3, 1}, {2, 4}, {1, 1}, {0, 4}}}, nil},
}

// a2StarPolygon: integer points sorted by angle around (0,0), one per direction: a star-shaped simple polygon
func a2StarPolygon(rng *rand.Rand, n, r int) [][2]int {
	type dir struct{ x, y int }
	seen := map[dir]bool{}
	var pts [][2]int
	for tries := 0; len(pts) < n && tries < 1000; tries++ {
		x, y := rng.Intn(2*r+1)-r, rng.Intn(2*r+1)-r
		if x == 0 && y == 0 {
			continue
		}
		g := a2gcd(a2abs(x), a2abs(y))
		d := dir{x / g, y / g}
		if seen[d] {
			continue
		}
		seen[d] = true
		pts = append(pts, [2]int{x, y})
	}
	sort.Slice(pts, func(i, j int) bool {
		return math.Atan2(float64(pts[i][1]), float64(pts[i][0])) < math.Atan2(float64(pts[j][1]), float64(pts[j][0]))
	})
	// the polygon is simple iff consecutive points turn by less than pi around the origin; otherwise the origin
	// is outside some edge's half-plane - keep only polygons where every edge has the origin strictly on one side
	for i := range pts {
		q := pts[(i+1)%len(pts)]
		if pts[i][0]*q[1]-pts[i][1]*q[0] <= 0 {
			return nil
		}
	}
	return pts
}

func a2gcd(a, b int) int {
	for b != 0 {
		a, b = b, a%b
	}
	if a == 0 {
		return 1
	}
	return a
}

func a2abs(x int) int {
	if x < 0 {
		return -x
	}
	return x
}

// a2SoupWorld: arbitrary segments (no inside): coincident segments, segments sharing bounds, axis-parallel ones
// (flat boxes) and crossing ones
func a2SoupWorld(rng *rand.Rand, n int, name string) *a2World {
	w := &a2World{variant: "soup", name: name}
	for len(w.segs) < n {
		s := [4]int{rng.Intn(7), rng.Intn(6), rng.Intn(7), rng.Intn(6)}
		switch rng.Intn(4) {
		case 0:
			s[2] = s[0] // vertical: flat box
		case 1:
			s[3] = s[1] // horizontal
		}
		if s[0] == s[2] && s[1] == s[3] {
			continue
		}
		w.segs = append(w.segs, s)
		if rng.Intn(4) == 0 && len(w.segs) < n { // a coincident copy, possibly reversed
			if rng.Intn(2) == 0 {
				s = [4]int{s[2], s[3], s[0], s[1]}
			}
			w.segs = append(w.segs, s)
		}
	}
	return w.finish()
}

// ---------------------------------------------------------------------------- exact integer geometry (half units)

func a2cross(ax, ay, bx, by int) int { return ax*by - ay*bx }

// onOutline: p (half units) lies on some segment
func (w *a2World) onOutline(p [2]int) bool {
	for _, s := range w.segs {
		ax, ay, bx, by := 2*s[0], 2*s[1], 2*s[2], 2*s[3]
		if a2cross(bx-ax, by-ay, p[0]-ax, p[1]-ay) != 0 {
			continue
		}
		dot := (p[0]-ax)*(bx-ax) + (p[1]-ay)*(by-ay)
		if dot >= 0 && dot <= (bx-ax)*(bx-ax)+(by-ay)*(by-ay) {
			return true
		}
	}
	return false
}

// inside: exact even-odd parity; -1 on the outline or when the world has no inside
func (w *a2World) inside(p [2]int) int {
	if !w.closed || w.onOutline(p) {
		return -1
	}
	n := 0
	for _, s := range w.segs {
		ax, ay, bx, by := 2*s[0], 2*s[1], 2*s[2], 2*s[3]
		if (ay > p[1]) == (by > p[1]) {
			continue
		}
		// the segment crosses the horizontal line through p: is the crossing to the right of p?
		l, r := (p[0]-ax)*(by-ay), (p[1]-ay)*(bx-ax)
		if by-ay < 0 {
			l, r = -l, -r
		}
		if l < r {
			n++
		}
	}
	return n % 2
}

// rayExact: whether the ray o + t d (t >= 0) is in general position (the origin on no segment, no vertex on the
// ray) and, if so, its exact number of proper crossings
func (w *a2World) rayExact(o, d [2]int) (bool, int) {
	if w.onOutline(o) {
		return false, 0
	}
	n := 0
	for _, s := range w.segs {
		ax, ay, bx, by := 2*s[0]-o[0], 2*s[1]-o[1], 2*s[2]-o[0], 2*s[3]-o[1]
		ca, cb := a2cross(d[0], d[1], ax, ay), a2cross(d[0], d[1], bx, by)
		if ca == 0 && ax*d[0]+ay*d[1] >= 0 {
			return false, 0
		}
		if cb == 0 && bx*d[0]+by*d[1] >= 0 {
			return false, 0
		}
		if (ca > 0) == (cb > 0) || ca == 0 || cb == 0 {
			continue
		}
		// the line of the ray crosses the open segment; the parameter has the sign of
		// cross(a, b-a) / cross(d, b-a)
		num, den := a2cross(ax, ay, bx-ax, by-ay), a2cross(d[0], d[1], bx-ax, by-ay)
		if (num > 0) == (den > 0) && num != 0 {
			n++
		}
	}
	return true, n
}

// dist2: exact squared distance from p to the outline as a rational num/den in half units squared (so that
// 4 * real distance^2 = num / den)
func (w *a2World) dist2(p [2]int) (num, den int) {
	first := true
	for _, s := range w.segs {
		ax, ay, bx, by := 2*s[0], 2*s[1], 2*s[2], 2*s[3]
		vx, vy, qx, qy := bx-ax, by-ay, p[0]-ax, p[1]-ay
		l2, dot := vx*vx+vy*vy, qx*vx+qy*vy
		var n1, d1 int
		switch {
		case dot <= 0:
			n1, d1 = qx*qx+qy*qy, 1
		case dot >= l2:
			n1, d1 = (p[0]-bx)*(p[0]-bx)+(p[1]-by)*(p[1]-by), 1
		default:
			c := a2cross(vx, vy, qx, qy)
			n1, d1 = c*c, l2
		}
		if first || n1*den < num*d1 {
			num, den, first = n1, d1, false
		}
	}
	return
}

// ---------------------------------------------------------------------------- sites

func a2pt(p [2]int) model2d.Coord { return model2d.XY(float64(p[0])/2, float64(p[1])/2) }

type a2ColliderSite struct {
	name  string
	build func(segs []*model2d.Segment, rng *rand.Rand) model2d.Collider
}

func a2MeshOf(segs []*model2d.Segment) *model2d.Mesh {
	m := model2d.NewMesh()
	for _, s := range segs {
		m.Add(s)
	}
	return m
}

func a2Shuffle(segs []*model2d.Segment, rng *rand.Rand) []*model2d.Segment {
	out := append([]*model2d.Segment{}, segs...)
	rng.Shuffle(len(out), func(i, j int) { out[i], out[j] = out[j], out[i] })
	return out
}

func a2ColliderSites() []a2ColliderSite {
	return []a2ColliderSite{
		{"model2d.MeshToCollider", func(segs []*model2d.Segment, _ *rand.Rand) model2d.Collider {
			return model2d.MeshToCollider(a2MeshOf(segs))
		}},
		{"model2d.BVHToCollider(NewBVHAreaDensity)", func(segs []*model2d.Segment, rng *rand.Rand) model2d.Collider {
			return model2d.BVHToCollider(model2d.NewBVHAreaDensity(a2Shuffle(segs, rng)))
		}},
		{"model2d.BVHToCollider(wide)", func(segs []*model2d.Segment, rng *rand.Rand) model2d.Collider {
			// a hand-built hierarchy with 2..4 children per branch (the documentation of BVH allows "two or more")
			var build func(s []*model2d.Segment) *model2d.BVH[*model2d.Segment]
			build = func(s []*model2d.Segment) *model2d.BVH[*model2d.Segment] {
				if len(s) == 1 {
					return &model2d.BVH[*model2d.Segment]{Leaf: s[0]}
				}
				k := 2 + rng.Intn(3)
				if k > len(s) {
					k = len(s)
				}
				node := &model2d.BVH[*model2d.Segment]{}
				for i := 0; i < k; i++ {
					node.Branch = append(node.Branch, build(s[i*len(s)/k:(i+1)*len(s)/k]))
				}
				return node
			}
			return model2d.BVHToCollider(build(a2Shuffle(segs, rng)))
		}},
		{"model2d.GroupedSegmentsToCollider(GroupSegments)", func(segs []*model2d.Segment, rng *rand.Rand) model2d.Collider {
			s := a2Shuffle(segs, rng)
			model2d.GroupSegments(s)
			return model2d.GroupedSegmentsToCollider(s)
		}},
		// the grouping is documented as a matter of efficiency only
		{"model2d.GroupedSegmentsToCollider(ungrouped)", func(segs []*model2d.Segment, rng *rand.Rand) model2d.Collider {
			return model2d.GroupedSegmentsToCollider(a2Shuffle(segs, rng))
		}},
		{"model2d.JoinedCollider(nested)", func(segs []*model2d.Segment, rng *rand.Rand) model2d.Collider {
			var leaves []model2d.Collider
			for _, s := range a2Shuffle(segs, rng) {
				leaves = append(leaves, s)
			}
			var nest func(cs []model2d.Collider, depth int) model2d.Collider
			nest = func(cs []model2d.Collider, depth int) model2d.Collider {
				if len(cs) <= 2 || depth == 0 {
					return model2d.NewJoinedCollider(cs)
				}
				k := 1 + rng.Intn(len(cs)-1)
				return model2d.NewJoinedCollider([]model2d.Collider{nest(cs[:k], depth-1), nest(cs[k:], depth-1)})
			}
			return nest(leaves, 4)
		}},
	}
}

type a2SdfSite struct {
	name  string
	build func(segs []*model2d.Segment, rng *rand.Rand) model2d.SDF
}

func a2SdfSites() []a2SdfSite {
	return []a2SdfSite{
		{"model2d.MeshToSDF", func(segs []*model2d.Segment, _ *rand.Rand) model2d.SDF {
			return model2d.MeshToSDF(a2MeshOf(segs))
		}},
		{"model2d.GroupedSegmentsToSDF(GroupSegments)", func(segs []*model2d.Segment, rng *rand.Rand) model2d.SDF {
			s := a2Shuffle(segs, rng)
			model2d.GroupSegments(s)
			return model2d.GroupedSegmentsToSDF(s)
		}},
		{"model2d.GroupedSegmentsToSDF(ungrouped)", func(segs []*model2d.Segment, rng *rand.Rand) model2d.SDF {
			return model2d.GroupedSegmentsToSDF(a2Shuffle(segs, rng))
		}},
	}
}

// ---------------------------------------------------------------------------- observations

func a2NewRecord(id int, site, kind string, w *a2World) a2Record {
	segs := w.segs
	if segs == nil {
		segs = [][4]int{}
	}
	return a2Record{Id: id, Site: site, Variant: w.variant, Kind: kind, World: w.name, Segs: segs, Rays: []a2Ray{},
		Balls: []a2Ball{}, Multi: []a2Multi{}, Sdf: []a2Sdf{}, Contains: []a2Contains{}, Group: a2Group{Ok: true}}
}

func (w *a2World) randPt(rng *rand.Rand) [2]int {
	return [2]int{2*w.lo[0] - 3 + rng.Intn(2*(w.hi[0]-w.lo[0])+7), 2*w.lo[1] - 3 + rng.Intn(2*(w.hi[1]-w.lo[1])+7)}
}

func a2ObserveRay(c model2d.Collider, segs []*model2d.Segment, w *a2World, o, d [2]int, e int) a2Ray {
	sc := math.Ldexp(1, -e)
	ray := &model2d.Ray{Origin: a2pt(o), Direction: model2d.XY(float64(d[0]), float64(d[1])).Scale(sc)}
	obs := a2Ray{O: o, D: d, E: e}
	type hit struct {
		seg   *model2d.Segment
		scale float64
	}
	var acc, lin []hit
	badNormal := false
	obs.N = c.RayCollisions(ray, func(rc model2d.RayCollision) {
		obs.Ncb++
		s, _ := rc.Extra.(*model2d.Segment)
		if s == nil || rc.Normal != s.Normal() {
			badNormal = true
		}
		acc = append(acc, hit{s, rc.Scale})
	})
	obs.Nnil = c.RayCollisions(ray, nil)
	fc, ok := c.FirstRayCollision(ray)
	obs.First = ok
	// the literal linear scan over the individual segments
	firstLin := math.Inf(1)
	for _, s := range segs {
		obs.Nlin += s.RayCollisions(ray, func(rc model2d.RayCollision) { lin = append(lin, hit{s, rc.Scale}) })
		if rc, ok := s.FirstRayCollision(ray); ok && rc.Scale < firstLin {
			firstLin = rc.Scale
		}
	}
	obs.Firstlin = !math.IsInf(firstLin, 1)
	obs.Firstsame = ok == obs.Firstlin && (!ok || fc.Scale == firstLin)
	if ok {
		// the reported first collision is the collision of one of the segments
		s, _ := fc.Extra.(*model2d.Segment)
		if s == nil {
			obs.Firstsame = false
		} else if rc, ok1 := s.FirstRayCollision(ray); !ok1 || rc.Scale != fc.Scale || rc.Normal != fc.Normal {
			obs.Firstsame = false
		}
	}
	// the same multiset of (segment, parameter) pairs
	less := func(h []hit) func(i, j int) bool {
		idx := map[*model2d.Segment]int{}
		for i, s := range segs {
			if _, ok := idx[s]; !ok {
				idx[s] = i
			}
		}
		return func(i, j int) bool {
			if h[i].seg != h[j].seg {
				return idx[h[i].seg] < idx[h[j].seg]
			}
			return h[i].scale < h[j].scale
		}
	}
	sort.SliceStable(acc, less(acc))
	sort.SliceStable(lin, less(lin))
	obs.Hitsame = len(acc) == len(lin) && !badNormal
	for i := 0; obs.Hitsame && i < len(acc); i++ {
		if acc[i] != lin[i] {
			obs.Hitsame = false
		}
	}
	obs.Gp, obs.Nexact = w.rayExact(o, d)
	return obs
}

func a2RunCollider(id int, w *a2World, site a2ColliderSite, rng *rand.Rand, nrays, nballs int) a2Record {
	rec := a2NewRecord(id, site.name, "collider", w)
	rec.Panic = protect(func() {
		segs := w.segments()
		coll := site.build(segs, rng)
		var verts [][2]int
		for _, s := range w.segs {
			verts = append(verts, [2]int{s[0], s[1]}, [2]int{s[2], s[3]})
		}
		for i := 0; i < nrays; i++ {
			o := w.randPt(rng)
			var d [2]int
			switch {
			case i%4 == 3 && len(verts) > 0:
				// aimed at a vertex of the outline (a corner of some bounding box)
				v := verts[rng.Intn(len(verts))]
				d = [2]int{2*v[0] - o[0], 2*v[1] - o[1]}
			case i%8 == 1:
				// origin on the boundary of the world's bounding box
				if rng.Intn(2) == 0 {
					o[0] = 2 * []int{w.lo[0], w.hi[0]}[rng.Intn(2)]
				} else {
					o[1] = 2 * []int{w.lo[1], w.hi[1]}[rng.Intn(2)]
				}
			}
			for d == [2]int{} {
				d = [2]int{rng.Intn(5) - 2, rng.Intn(5) - 2}
			}
			e := []int{0, 0, 1, 10, 30, -3}[rng.Intn(6)]
			rec.Rays = append(rec.Rays, a2ObserveRay(coll, segs, w, o, d, e))
		}
		for i := 0; i < nballs; i++ {
			c, m := w.randPt(rng), rng.Intn(7)
			b := a2Ball{C: c, M: m, Hit: coll.CircleCollision(a2pt(c), float64(m)/2)}
			for _, s := range segs {
				if s.CircleCollision(a2pt(c), float64(m)/2) {
					b.Hitlin = true
				}
			}
			rec.Balls = append(rec.Balls, b)
			rec.Contains = append(rec.Contains, a2Contains{c, model2d.ColliderContains(coll, a2pt(c), 0), w.inside(c)})
		}
		if sc, ok := coll.(model2d.SegmentCollider); ok {
			for i := 0; i < nballs; i++ {
				a, b := w.randPt(rng), w.randPt(rng)
				if a == b {
					continue
				}
				q := &model2d.Segment{a2pt(a), a2pt(b)}
				o := a2Multi{Kind: "seg", A: a, B: b, Hit: sc.SegmentCollision(q)}
				for _, s := range segs {
					if s.SegmentCollision(q) {
						o.Hitlin = true
					}
				}
				rec.Multi = append(rec.Multi, o)
			}
		}
		if rc, ok := coll.(model2d.RectCollider); ok {
			for i := 0; i < nballs; i++ {
				lo, hi := w.randPt(rng), w.randPt(rng)
				for k := 0; k < 2; k++ {
					if lo[k] > hi[k] {
						lo[k], hi[k] = hi[k], lo[k]
					}
				}
				if i%5 == 4 { // a flat rectangle
					k := rng.Intn(2)
					hi[k] = lo[k]
				}
				r := model2d.NewRect(a2pt(lo), a2pt(hi))
				o := a2Multi{Kind: "rect", A: lo, B: hi, Hit: rc.RectCollision(r)}
				for _, s := range segs {
					if s.RectCollision(r) {
						o.Hitlin = true
					}
				}
				rec.Multi = append(rec.Multi, o)
			}
		}
	})
	return rec
}

func a2RunSdf(id int, w *a2World, site a2SdfSite, rng *rand.Rand, n int) a2Record {
	rec := a2NewRecord(id, site.name, "sdf", w)
	rec.Panic = protect(func() {
		segs := w.segments()
		isSeg := map[*model2d.Segment]bool{}
		for _, s := range segs {
			isSeg[s] = true
		}
		sdf := site.build(segs, rng)
		psdf, _ := sdf.(model2d.PointSDF)
		nsdf, _ := sdf.(model2d.NormalSDF)
		fsdf, _ := sdf.(model2d.FaceSDF)
		// ColliderContains' own ray (the sign of a mesh field is documented through NewColliderSolid)
		containsDir := model2d.Coord{X: 0.5224892708603626, Y: 0.10494477243214506}
		for i := 0; i < n; i++ {
			p := w.randPt(rng)
			c := a2pt(p)
			d := sdf.SDF(c)
			o := a2Sdf{P: p, Pos: d > 0, Zero: d == 0, D2exact: -1}
			minLin := math.Inf(1)
			cnt := 0
			for _, s := range segs {
				minLin = math.Min(minLin, s.Dist(c))
				cnt += s.RayCollisions(&model2d.Ray{Origin: c, Direction: containsDir}, nil)
			}
			o.Inlin = cnt % 2
			if p[0] < 2*w.lo[0] || p[0] > 2*w.hi[0] || p[1] < 2*w.lo[1] || p[1] > 2*w.hi[1] {
				// the field's sign is that of NewColliderSolid, a solid, which contains nothing outside the bounds
				// of the segments (for closed outlines the parity is even there anyway; an open soup has rays
				// of odd parity that leave the bounds)
				o.Inlin = 0
			}
			o.Inexact = w.inside(p)
			o.Same = math.Abs(d) == minLin
			o.Close = math.Abs(math.Abs(d)-minLin) <= 1e-12*(1+minLin)
			num, den := w.dist2(p)
			exact := float64(num) / float64(den) / 4
			o.Exactok = math.Abs(d*d-exact) <= 1e-9
			o.D2 = int(math.Round(4 * d * d))
			if w.variant == "pixels" {
				o.D2exact = num / den
				if math.Abs(4*d*d-math.Round(4*d*d)) > 1e-9 {
					o.Bad++
				}
			}
			var np, nrm model2d.Coord
			if psdf != nil {
				var d1 float64
				np, d1 = psdf.PointSDF(c)
				if d1 != d {
					o.Bad++
				}
				// the reported point is the closest point of one of the segments, at the reported distance
				found := false
				for _, s := range segs {
					if s.Closest(c) == np {
						found = true
					}
				}
				if !found || np.Dist(c) != math.Abs(d) {
					o.Bad++
				}
			}
			if nsdf != nil {
				var d2 float64
				nrm, d2 = nsdf.NormalSDF(c)
				if d2 != d {
					o.Bad++
				}
			}
			if fsdf != nil {
				face, np2, d3 := fsdf.FaceSDF(c)
				if d3 != d || np2 != np {
					o.Bad++
				}
				if face == nil || !isSeg[face] || face.Closest(c) != np || face.Normal() != nrm {
					o.Bad++
				}
			}
			rec.Sdf = append(rec.Sdf, o)
		}
	})
	return rec
}

// ---------------------------------------------------------------------------- grouping

func a2Permutation[T any](in, out []T) a2Group {
	g := a2Group{Ok: len(in) == len(out), Nin: len(in), Nout: len(out)}
	cnt := map[any]int{} // the objects are pointers: identity, not value
	for _, x := range in {
		cnt[any(x)]++
	}
	for _, x := range out {
		cnt[any(x)]--
	}
	for _, v := range cnt {
		if v != 0 {
			g.Ok = false
		}
	}
	return g
}

func a2Leaves2(b *model2d.BVH[*model2d.Segment], out *[]*model2d.Segment, bad *bool) {
	if b.Leaf != nil {
		if len(b.Branch) != 0 {
			*bad = true
		}
		*out = append(*out, b.Leaf)
		return
	}
	if len(b.Branch) < 2 {
		*bad = true
	}
	for _, c := range b.Branch {
		a2Leaves2(c, out, bad)
	}
}

func a2Leaves3(b *model3d.BVH[*model3d.Triangle], out *[]*model3d.Triangle, bad *bool) {
	if b.Leaf != nil {
		if len(b.Branch) != 0 {
			*bad = true
		}
		*out = append(*out, b.Leaf)
		return
	}
	if len(b.Branch) < 2 {
		*bad = true
	}
	for _, c := range b.Branch {
		a2Leaves3(c, out, bad)
	}
}

// a2Grouping2: the 2-D grouping routines on the segments of a world (shuffled, a prefix of random length, with
// some pointers listed twice: the input is a multiset)
func a2Grouping2(nextID func() int, w *a2World, rng *rand.Rand, put func(a2Record)) {
	input := func() []*model2d.Segment {
		s := a2Shuffle(w.segments(), rng)
		if len(s) > 0 && rng.Intn(3) == 0 {
			s = s[:rng.Intn(len(s)+1)]
		}
		if len(s) > 0 && rng.Intn(3) == 0 {
			for k := rng.Intn(3); k >= 0; k-- {
				s = append(s, s[rng.Intn(len(s))])
			}
			rng.Shuffle(len(s), func(i, j int) { s[i], s[j] = s[j], s[i] })
		}
		return s
	}
	run := func(site string, f func(rec *a2Record)) {
		rec := a2NewRecord(nextID(), site, "grouping", w)
		rec.Panic = protect(func() { f(&rec) })
		put(rec)
	}
	run("model2d.GroupSegments", func(rec *a2Record) {
		in := input()
		out := append([]*model2d.Segment{}, in...)
		model2d.GroupSegments(out)
		rec.Group = a2Permutation(in, out)
	})
	run("model2d.GroupBounders", func(rec *a2Record) {
		// a mixed bag of bounders: segments, circles, rectangles
		var in []model2d.Bounder
		for _, s := range input() {
			switch rng.Intn(3) {
			case 0:
				in = append(in, s)
			case 1:
				in = append(in, &model2d.Circle{Center: s.Mid(), Radius: float64(rng.Intn(3)) / 2})
			default:
				in = append(in, model2d.NewRect(s.Min(), s.Max()))
			}
		}
		out := append([]model2d.Bounder{}, in...)
		model2d.GroupBounders(out)
		rec.Group = a2Permutation(in, out)
	})
	run("model2d.NewBVHAreaDensity", func(rec *a2Record) {
		in := input()
		if len(in) == 0 {
			return // an empty hierarchy is not offered (newBVH panics by design: "empty sorted objects")
		}
		var out []*model2d.Segment
		bad := false
		a2Leaves2(model2d.NewBVHAreaDensity(append([]*model2d.Segment{}, in...)), &out, &bad)
		rec.Group = a2Permutation(in, out)
		if bad {
			rec.Group.Ok = false
		}
	})
}

// a2Grouping3: the 3-D grouping routines on the triangles of the voxel world (pixel set) x [0, 1]
func a2Grouping3(nextID func() int, pix [][2]int, name string, rng *rand.Rand, put func(a2Record)) {
	var vox [][3]int
	for _, p := range pix {
		vox = append(vox, [3]int{p[0], p[1], 0})
	}
	w := &a2World{variant: "voxel-mesh", name: name}
	input := func() []*model3d.Triangle {
		// the mesh hands its triangles out in map order; the check must not depend on it
		t := voxelMesh(vox).TriangleSlice()
		rng.Shuffle(len(t), func(i, j int) { t[i], t[j] = t[j], t[i] })
		if rng.Intn(3) == 0 {
			t = t[:rng.Intn(len(t)+1)]
		}
		if len(t) > 0 && rng.Intn(3) == 0 {
			for k := rng.Intn(3); k >= 0; k-- {
				t = append(t, t[rng.Intn(len(t))])
			}
			rng.Shuffle(len(t), func(i, j int) { t[i], t[j] = t[j], t[i] })
		}
		return t
	}
	run := func(site string, f func(rec *a2Record)) {
		rec := a2NewRecord(nextID(), site, "grouping", w)
		rec.Panic = protect(func() { f(&rec) })
		put(rec)
	}
	run("model3d.GroupTriangles", func(rec *a2Record) {
		in := input()
		out := append([]*model3d.Triangle{}, in...)
		model3d.GroupTriangles(out)
		rec.Group = a2Permutation(in, out)
	})
	run("model3d.GroupBounders", func(rec *a2Record) {
		var in []model3d.Bounder
		for _, t := range input() {
			switch rng.Intn(3) {
			case 0:
				in = append(in, t)
			case 1:
				in = append(in, &model3d.Sphere{Center: t[0].Mid(t[1]), Radius: float64(rng.Intn(3)) / 2})
			default:
				in = append(in, model3d.NewRect(t.Min(), t.Max()))
			}
		}
		out := append([]model3d.Bounder{}, in...)
		model3d.GroupBounders(out)
		rec.Group = a2Permutation(in, out)
	})
	run("model3d.NewBVHAreaDensity", func(rec *a2Record) {
		in := input()
		if len(in) == 0 {
			return
		}
		var out []*model3d.Triangle
		bad := false
		a2Leaves3(model3d.NewBVHAreaDensity(append([]*model3d.Triangle{}, in...)), &out, &bad)
		rec.Group = a2Permutation(in, out)
		if bad {
			rec.Group.Ok = false
		}
	})
}

// ---------------------------------------------------------------------------- command

func init() {
	// c08-accel2 out= stats= seed= plan=  items all:NX,NY | rand:NX,NY:COUNT | poly:COUNT | star:COUNT | soup:COUNT |
	// small ; rays=N balls=N sdf=N kinds=collider,sdf,grouping
	//   all / rand: pixel worlds (unions of unit pixels of an NX x NY grid; outline segments with outward normals)
	//   poly: the palette of non-lattice integer polygons under a random lattice symmetry and translation
	//   star: random star-shaped integer polygons;  soup: arbitrary integer segments, coincident ones included
	//   small: the empty set and single segments
	register("c08-accel2", func(a args) {
		out := newNDWriter(a.str("out", "records.ndjson"))
		defer out.close()
		seed := int64(a.int("seed", 1))
		stats := map[string]int{}
		id := 0
		nextID := func() int { id++; return id }
		put := func(rec a2Record) {
			stats["records"]++
			if len(rec.Segs) > 0 || rec.Variant == "voxel-mesh" {
				stats["nonempty"]++
			}
			stats["site:"+rec.Site]++
			stats["kind:"+rec.Kind]++
			stats["variant:"+rec.Variant]++
			stats["rays"] += len(rec.Rays)
			for _, r := range rec.Rays {
				if r.Gp {
					stats["rays-gp"]++
				}
				if r.Nlin > 0 {
					stats["rays-hitting"]++
				}
			}
			for _, b := range rec.Balls {
				if b.Hitlin {
					stats["balls-hitting"]++
				}
			}
			for _, m := range rec.Multi {
				if m.Hitlin {
					stats["multi-hitting"]++
				}
			}
			for _, s := range rec.Sdf {
				if s.Inexact >= 0 {
					stats["sdf-signed"]++
				}
			}
			stats["balls"] += len(rec.Balls)
			stats["multi"] += len(rec.Multi)
			stats["sdf"] += len(rec.Sdf)
			out.write(rec)
		}
		nrays, nballs, nsdf := a.int("rays", 40), a.int("balls", 24), a.int("sdf", 40)
		nworld := 0
		// every record draws from its own stream: a record does not depend on which other records are requested
		stream := func(k int) *rand.Rand {
			return rand.New(rand.NewSource(seed*1000003 + int64(nworld)*131 + int64(k)))
		}
		kinds := a.str("kinds", "collider,sdf,grouping")
		emit := func(w *a2World) {
			nworld++
			stats["worlds"]++
			for k, site := range a2ColliderSites() {
				if !strings.Contains(kinds, "collider") {
					break
				}
				if len(w.segs) == 0 && strings.Contains(site.name, "BVH") {
					continue // an empty hierarchy is not offered (see a2Grouping2)
				}
				put(a2RunCollider(nextID(), w, site, stream(k), nrays, nballs))
			}
			if len(w.segs) > 0 && strings.Contains(kinds, "sdf") { // GroupedSegmentsToSDF documents its panic on the empty set
				for k, site := range a2SdfSites() {
					put(a2RunSdf(nextID(), w, site, stream(20+k), nsdf))
				}
			}
			if strings.Contains(kinds, "grouping") {
				a2Grouping2(nextID, w, stream(40), put)
			}
		}
		subsetPixels := func(nx, ny int, bits uint64) [][2]int {
			var pix [][2]int
			for j := 0; j < nx*ny; j++ {
				if bits&(1<<uint(j)) != 0 {
					pix = append(pix, [2]int{j % nx, j / nx})
				}
			}
			return pix
		}
		pixelWorld := func(nx, ny int, bits uint64) {
			pix := subsetPixels(nx, ny, bits)
			name := "pixels " + itoa(nx) + "x" + itoa(ny) + " #" + itoa(int(bits))
			emit(a2PixelWorld(pix, name))
			if strings.Contains(kinds, "grouping") {
				a2Grouping3(nextID, pix, name, stream(41), put)
			}
		}
		wrng := rand.New(rand.NewSource(seed*7907 + 5))
		for _, item := range strings.Split(a.str("plan", ""), ";") {
			if item == "" {
				continue
			}
			f := strings.Split(item, ":")
			switch f[0] {
			case "all", "rand":
				d := strings.Split(f[1], ",")
				nx, ny := atoi(d[0]), atoi(d[1])
				if f[0] == "all" {
					for bits := uint64(1); bits < 1<<uint(nx*ny); bits++ {
						pixelWorld(nx, ny, bits)
					}
					continue
				}
				for i := 0; i < atoi(f[2]); i++ {
					dens := 0.2 + 0.6*wrng.Float64()
					var bits uint64
					for bits == 0 {
						for j := 0; j < nx*ny; j++ {
							if wrng.Float64() < dens {
								bits |= 1 << uint(j)
							}
						}
					}
					pixelWorld(nx, ny, bits)
				}
			case "poly":
				for i := 0; i < atoi(f[1]); i++ {
					p := a2Palette[i%len(a2Palette)]
					sym, tx, ty := wrng.Intn(8), wrng.Intn(7)-3, wrng.Intn(7)-3
					var outer, holes [][][2]int
					for _, q := range p.outer {
						outer = append(outer, a2Transform(q, sym, tx, ty))
					}
					for _, q := range p.holes {
						holes = append(holes, a2Transform(q, sym, tx, ty))
					}
					emit(a2PolyWorld(p.name+" sym "+itoa(sym), outer, holes))
				}
			case "star":
				for i := 0; i < atoi(f[1]); {
					p := a2StarPolygon(wrng, 3+wrng.Intn(8), 2+wrng.Intn(4))
					if len(p) < 3 {
						continue
					}
					i++
					emit(a2PolyWorld("star "+itoa(len(p)), [][][2]int{p}, nil))
				}
			case "soup":
				for i := 0; i < atoi(f[1]); i++ {
					emit(a2SoupWorld(wrng, 1+wrng.Intn(14), "soup"))
				}
			case "small":
				emit((&a2World{variant: "soup", name: "empty"}).finish())
				for _, s := range [][4]int{{0, 0, 1, 0}, {0, 0, 0, 2}, {1, 2, 3, 1}, {2, 2, 0, 0}} {
					emit((&a2World{variant: "soup", name: "single", segs: [][4]int{s}}).finish())
				}
			default:
				fatal("c08-accel2: unknown plan item %q", item)
			}
		}
		writeJSONFile(a.str("stats", "stats.json"), stats)
	})
}
