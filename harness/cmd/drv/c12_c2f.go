package main

// C12 (coarse-to-fine at large ratios): MarchingSquaresC2F / MarchingCubesC2F against the direct
// fine mesh on solids with sharp corners, coarse/fine ratios 2..64.  A face of the direct mesh that
// the coarse-to-fine mesh lacks is recorded with the distance from its nearest corner to the coarse
// mesh and the documented margin (extraSpace + 2*bigDelta*sqrt(3)); spec/pipeline/C2FJudge.tla
// rejects a missing face inside the margin and any face the direct mesh does not have.

import (
	"math"
	"math/rand"

	"github.com/unixpickle/model3d/model2d"
	"github.com/unixpickle/model3d/model3d"
)

type c2fMissing struct {
	Dist   int `json:"dist"`   // distance of the nearest corner to the coarse mesh, in 1e-5 units
	Margin int `json:"margin"` // the documented margin, in 1e-5 units
}

type c2fRec struct {
	ID      int          `json:"id"`
	Site    string       `json:"site"`
	Shape   string       `json:"shape"`
	Ratio   int          `json:"ratio"`
	Iters   int          `json:"iters"`
	NDirect int          `json:"ndirect"`
	NC2F    int          `json:"nc2f"`
	NCoarse int          `json:"ncoarse"`
	Extra   int          `json:"extra"`
	Missing []c2fMissing `json:"missing"`
	Panic   string       `json:"panic"`
}

type funcSolid2 struct {
	min, max model2d.Coord
	f        func(c model2d.Coord) bool
}

func (s *funcSolid2) Min() model2d.Coord { return s.min }
func (s *funcSolid2) Max() model2d.Coord { return s.max }
func (s *funcSolid2) Contains(c model2d.Coord) bool {
	return model2d.InBounds(s, c) && s.f(c)
}

type funcSolid3 struct {
	min, max model3d.Coord3D
	f        func(c model3d.Coord3D) bool
}

func (s *funcSolid3) Min() model3d.Coord3D { return s.min }
func (s *funcSolid3) Max() model3d.Coord3D { return s.max }
func (s *funcSolid3) Contains(c model3d.Coord3D) bool {
	return model3d.InBounds(s, c) && s.f(c)
}

func segPointDist2(p, a, b model2d.Coord) float64 {
	d := b.Sub(a)
	l := d.Dot(d)
	t := 0.0
	if l > 0 {
		t = math.Max(0, math.Min(1, p.Sub(a).Dot(d)/l))
	}
	return p.Dist(a.Add(d.Scale(t)))
}

func c2fShapes2(rng *rand.Rand) (string, *funcSolid2) {
	ox, oy := 0.37*rng.Float64(), 0.41*rng.Float64()
	switch rng.Intn(4) {
	case 0:
		r := 1 + 0.5*rng.Float64()
		return "diamond", &funcSolid2{model2d.XY(-2, -2), model2d.XY(2, 2), func(c model2d.Coord) bool {
			return math.Abs(c.X-ox)+math.Abs(c.Y-oy) < r
		}}
	case 1:
		r := 0.9 + 0.5*rng.Float64()
		return "square", &funcSolid2{model2d.XY(-2, -2), model2d.XY(2, 2), func(c model2d.Coord) bool {
			return math.Abs(c.X-ox) < r && math.Abs(c.Y-oy) < r*0.8
		}}
	case 2:
		th := rng.Float64()
		cs, sn := math.Cos(th), math.Sin(th)
		return "rotated-L", &funcSolid2{model2d.XY(-2.5, -2.5), model2d.XY(2.5, 2.5), func(c model2d.Coord) bool {
			x, y := cs*(c.X-ox)+sn*(c.Y-oy), -sn*(c.X-ox)+cs*(c.Y-oy)
			return (math.Abs(x) < 1.3 && math.Abs(y+0.6) < 0.6) || (math.Abs(x+0.7) < 0.6 && math.Abs(y) < 1.2)
		}}
	default:
		// a disc with a wedge cut out of it: a smooth outline and two sharp corners
		return "pacman", &funcSolid2{model2d.XY(-2, -2), model2d.XY(2, 2), func(c model2d.Coord) bool {
			x, y := c.X-ox, c.Y-oy
			return x*x+y*y < 1.7 && !(x > 0 && math.Abs(y) < 0.6*x)
		}}
	}
}

func c2fShapes3(rng *rand.Rand) (string, *funcSolid3) {
	o := model3d.XYZ(0.2*rng.Float64(), 0.2*rng.Float64(), 0.2*rng.Float64())
	switch rng.Intn(3) {
	case 0:
		r := 1 + 0.3*rng.Float64()
		return "octahedron", &funcSolid3{model3d.XYZ(-1.6, -1.6, -1.6), model3d.XYZ(1.6, 1.6, 1.6), func(c model3d.Coord3D) bool {
			d := c.Sub(o)
			return math.Abs(d.X)+math.Abs(d.Y)+math.Abs(d.Z) < r
		}}
	case 1:
		return "box", &funcSolid3{model3d.XYZ(-1.6, -1.6, -1.6), model3d.XYZ(1.6, 1.6, 1.6), func(c model3d.Coord3D) bool {
			d := c.Sub(o)
			return math.Abs(d.X) < 1 && math.Abs(d.Y) < 0.8 && math.Abs(d.Z) < 0.9
		}}
	default:
		th := rng.Float64()
		cs, sn := math.Cos(th), math.Sin(th)
		return "tilted-box", &funcSolid3{model3d.XYZ(-1.8, -1.8, -1.8), model3d.XYZ(1.8, 1.8, 1.8), func(c model3d.Coord3D) bool {
			d := c.Sub(o)
			x, y := cs*d.X+sn*d.Y, -sn*d.X+cs*d.Y
			y2, z := cs*y+sn*d.Z, -sn*y+cs*d.Z
			return math.Abs(x) < 0.9 && math.Abs(y2) < 0.8 && math.Abs(z) < 0.7
		}}
	}
}

func init() {
	register("c12-c2f", func(a args) {
		rng := rand.New(rand.NewSource(int64(a.int("seed", 1))))
		out := newNDWriter(a.str("out", "records.ndjson"))
		defer out.close()
		stats := map[string]int{}
		n2, n3 := a.int("n2", 12), a.int("n3", 4)
		maxRatio3 := a.int("maxratio3", 24)
		ratios := []int{2, 3, 8, 16, 24, 32, 64}
		id := 0
		for k := 0; k < n2; k++ {
			id++
			name, s := c2fShapes2(rng)
			ratio := ratios[k%len(ratios)]
			iters := []int{0, 3, 6}[rng.Intn(3)]
			big := 0.22 + 0.1*rng.Float64()
			small := big / float64(ratio)
			extra := []float64{0, 0, 0.1}[rng.Intn(3)]
			rec := c2fRec{ID: id, Site: "model2d.MarchingSquaresC2F", Shape: name, Ratio: ratio, Iters: iters, Missing: []c2fMissing{}}
			rec.Panic = protect(func() {
				direct := model2d.MarchingSquaresSearch(s, small, iters)
				c2f := model2d.MarchingSquaresC2F(s, big, small, extra, iters)
				coarse := model2d.MarchingSquaresSearch(s, big, iters).SegmentSlice()
				rec.NDirect, rec.NC2F, rec.NCoarse = direct.NumSegments(), c2f.NumSegments(), len(coarse)
				margin := extra + 2*big*math.Sqrt(3)
				have := map[model2d.Segment]int{}
				c2f.Iterate(func(sg *model2d.Segment) { have[*sg]++ })
				direct.Iterate(func(sg *model2d.Segment) {
					if have[*sg] > 0 {
						have[*sg]--
						return
					}
					best := math.Inf(1)
					for _, cs := range coarse {
						for _, p := range sg {
							best = math.Min(best, segPointDist2(p, cs[0], cs[1]))
						}
					}
					if len(rec.Missing) < 50 {
						rec.Missing = append(rec.Missing, c2fMissing{Dist: int(math.Min(best, 1000) * 1e5), Margin: int(margin * 1e5)})
					}
				})
				for _, c := range have {
					rec.Extra += c
				}
			})
			out.write(rec)
			stats["records"]++
			stats["site:"+rec.Site]++
			if rec.NC2F > 0 {
				stats["nonempty"]++
			}
		}
		for k := 0; k < n3; k++ {
			id++
			name, s := c2fShapes3(rng)
			ratio := []int{2, 24, 8, 16, 3, 32}[k%6]
			if ratio > maxRatio3 {
				ratio = maxRatio3
			}
			iters := []int{0, 3}[rng.Intn(2)]
			big := 0.3 + 0.1*rng.Float64()
			small := big / float64(ratio)
			extra := []float64{0, 0, 0.1}[rng.Intn(3)]
			rec := c2fRec{ID: id, Site: "model3d.MarchingCubesC2F", Shape: name, Ratio: ratio, Iters: iters, Missing: []c2fMissing{}}
			rec.Panic = protect(func() {
				direct := model3d.MarchingCubesSearch(s, small, iters)
				c2f := model3d.MarchingCubesC2F(s, big, small, extra, iters)
				coarse := model3d.MarchingCubesSearch(s, big, iters).TriangleSlice()
				rec.NDirect, rec.NC2F, rec.NCoarse = direct.NumTriangles(), c2f.NumTriangles(), len(coarse)
				margin := extra + 2*big*math.Sqrt(3)
				have := map[model3d.Triangle]int{}
				c2f.Iterate(func(t *model3d.Triangle) { have[*t]++ })
				direct.Iterate(func(t *model3d.Triangle) {
					if have[*t] > 0 {
						have[*t]--
						return
					}
					if len(rec.Missing) >= 50 {
						return
					}
					best := math.Inf(1)
					for _, ct := range coarse {
						for _, p := range t {
							best = math.Min(best, bruteTriDist(c3v(p), c3v(ct[0]), c3v(ct[1]), c3v(ct[2])))
						}
					}
					rec.Missing = append(rec.Missing, c2fMissing{Dist: int(math.Min(best, 1000) * 1e5), Margin: int(margin * 1e5)})
				})
				for _, c := range have {
					rec.Extra += c
				}
			})
			out.write(rec)
			stats["records"]++
			stats["site:"+rec.Site]++
			if rec.NC2F > 0 {
				stats["nonempty"]++
			}
		}
		writeJSONFile(a.str("stats", "stats.json"), stats)
	})
}
