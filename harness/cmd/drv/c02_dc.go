package main

// C02 / C12: dual contouring with clipping on lattice solids.

import (
	"fmt"
	"math"
	"math/rand"
	"strings"

	"github.com/unixpickle/model3d/model3d"
)

type dcRecord struct {
	Id          int      `json:"id"`
	N           []int    `json:"n"`
	Inside      []int    `json:"inside"`
	Variant     string   `json:"variant"`
	Cfg         string   `json:"cfg"`
	Panic       string   `json:"panic"`
	Tris        [][3]int `json:"tris"`
	Bad         int      `json:"bad"`
	Interiorbad int      `json:"interiorbad"`
	Ninterior   int      `json:"ninterior"`
}

const dcJitter = 0.012923982

type dcCfg struct {
	maxGos   int
	bufRows  int // 0 = default buffer
	noJitter bool
	interior bool
	exp      int  // the whole problem scaled by 2^exp (solid, spacing): the answer must scale with it
	shortcut bool // through the package-level shortcuts DualContour / DualContourInterior(solid, delta, repair=false, clip=true)
}

// scaledLattice is the lattice solid in units of k (a power of two, so scaling is exact)
type scaledLattice struct {
	l *latticeSolid3
	k float64
}

func (s scaledLattice) Min() model3d.Coord3D { return s.l.Min().Scale(s.k) }
func (s scaledLattice) Max() model3d.Coord3D { return s.l.Max().Scale(s.k) }
func (s scaledLattice) Contains(c model3d.Coord3D) bool {
	return s.l.Contains(c.Scale(1 / s.k))
}

func (c dcCfg) String() string {
	if c.exp != 0 {
		return fmt.Sprintf("gos=%d,rows=%d,nojitter=%v,interior=%v,scale=2^%d,shortcut=%v", c.maxGos, c.bufRows, c.noJitter, c.interior, c.exp, c.shortcut)
	}
	if c.shortcut {
		return fmt.Sprintf("gos=%d,rows=%d,nojitter=%v,interior=%v,shortcut", c.maxGos, c.bufRows, c.noJitter, c.interior)
	}
	return fmt.Sprintf("gos=%d,rows=%d,nojitter=%v,interior=%v", c.maxGos, c.bufRows, c.noJitter, c.interior)
}

func runDC(id int, l *latticeSolid3, cfg dcCfg) dcRecord {
	rec := dcRecord{Id: id, N: l.n[:], Inside: latticeBits(l), Variant: "DualContouring", Cfg: cfg.String(), Tris: [][3]int{}}
	rec.Panic = protect(func() {
		k := math.Ldexp(1, cfg.exp)
		var solid model3d.Solid = l
		if cfg.exp != 0 {
			solid = scaledLattice{l, k}
		}
		dc := &model3d.DualContouring{
			S:        model3d.SolidSurfaceEstimator{Solid: solid},
			Delta:    k,
			NoJitter: cfg.noJitter,
			MaxGos:   cfg.maxGos,
			Clip:     true,
		}
		if cfg.bufRows > 0 {
			dc.BufferSize = cfg.bufRows * (l.n[0] + 2) * (l.n[1] + 2)
		}
		// which diagonal splits a quad is a matter of taste (three documented modes): either way the two triangles
		// make up the quad of the four cubes around the edge
		dc.TriangleMode = []model3d.DualContouringTriangleMode{model3d.DualContouringTriangleModeMaxMinArea,
			model3d.DualContouringTriangleModeSharpest, model3d.DualContouringTriangleModeFlattest}[id%3]
		var m *model3d.Mesh
		var pts []model3d.Coord3D
		if cfg.shortcut && cfg.interior {
			m, pts = model3d.DualContourInterior(solid, k, false, true)
		} else if cfg.shortcut {
			m = model3d.DualContour(solid, k, false, true)
		} else if cfg.interior {
			m, pts = dc.MeshInterior()
		} else {
			m = dc.Mesh()
		}
		if cfg.shortcut {
			cfg.noJitter = false // the shortcuts use the default jitter
		}
		jit := dcJitter
		if cfg.noJitter {
			jit = 0
		}
		// what the algorithm samples: the lattice points shifted by the jitter (the
		// classification of these sample points is the lattice the judge reasons about)
		for z := 1; z <= l.n[2]; z++ {
			for y := 1; y <= l.n[1]; y++ {
				for x := 1; x <= l.n[0]; x++ {
					v := 0
					if l.Contains(model3d.XYZ(float64(x)+jit, float64(y)+jit, float64(z)+jit)) {
						v = 1
					}
					rec.Inside[x-1+l.n[0]*(y-1+l.n[1]*(z-1))] = v
				}
			}
		}
		cube := func(c model3d.Coord3D) (int, bool) {
			code := 0
			ok := true
			for _, v := range c.Array() {
				w := v/k - jit
				f := math.Floor(w)
				if w-f < 0.0009 || w-f > 0.9991 || f < 0 || f > 15 {
					ok = false
				}
				code = code*16 + int(f)
			}
			return code, ok
		}
		m.Iterate(func(t *model3d.Triangle) {
			var tri [3]int
			for i, c := range t {
				code, ok := cube(c)
				if !ok {
					rec.Bad++
				}
				tri[i] = code
			}
			rec.Tris = append(rec.Tris, tri)
		})
		rec.Ninterior = len(pts)
		for _, p := range pts {
			if !solid.Contains(p) {
				rec.Interiorbad++
			}
		}
	})
	return rec
}

func init() {
	// c02-dc out= stats= plan=  items  all:NX,NY,NZ:cfgs | rand:NX,NY,NZ:COUNT:cfgs
	// cfgs = comma separated  gos/rows/nojitter/interior[/scale exponent]  e.g. 1/0/0/0,3/4/1/1,1/0/0/0/-12
	register("c02-dc", func(a args) {
		out := newNDWriter(a.str("out", "records.ndjson"))
		defer out.close()
		rng := rand.New(rand.NewSource(int64(a.int("seed", 1))))
		stats := map[string]int{}
		id := 0
		parseCfgs := func(s string) []dcCfg {
			var res []dcCfg
			for _, item := range strings.Split(s, ",") {
				f := strings.Split(item, "/")
				c := dcCfg{maxGos: atoi(f[0]), bufRows: atoi(f[1]), noJitter: f[2] == "1", interior: f[3] == "1"}
				if len(f) > 4 {
					c.exp = atoi(strings.TrimPrefix(f[4], "-"))
					if strings.HasPrefix(f[4], "-") {
						c.exp = -c.exp
					}
				}
				if len(f) > 5 {
					c.shortcut = f[5] == "1"
				}
				res = append(res, c)
			}
			return res
		}
		emit := func(l *latticeSolid3, cfgs []dcCfg) {
			l.shift = float64(latShiftNum) / 16
			for _, c := range cfgs {
				id++
				rec := runDC(id, l, c)
				stats["records"]++
				stats["triangles"] += len(rec.Tris)
				if len(rec.Tris) > 0 {
					stats["nonempty"]++
				}
				out.write(rec)
			}
		}
		for _, item := range strings.Split(a.str("plan", ""), ";") {
			if item == "" {
				continue
			}
			f := strings.Split(item, ":")
			var nx, ny, nz int
			parseDims(f[1], &nx, &ny, &nz)
			switch f[0] {
			case "all":
				for bits := uint64(0); bits < 1<<uint(nx*ny*nz); bits++ {
					emit(newLatticeSolid3(nx, ny, nz, bits), parseCfgs(f[2]))
				}
			case "wedge":
				// knife edges: the least-squares vertex of a cell on the ridge lies far outside the cell unless
				// it is clipped (narrow wedges along x, y and a diagonal, with the ridge inside the lattice)
				for i := 0; i < atoi(f[2]); i++ {
					l := newLatticeSolid3(nx, ny, nz, 0)
					slope := []float64{0.18, 0.36, 0.1}[i%3]
					cy, cz := 0.5*float64(ny+1)+0.13*float64(i%4), 0.5*float64(nz+1)+0.21*float64(i%3)
					axis := i % 2
					l.fn = func(c model3d.Coord3D) bool {
						a, b, d := c.X-1.3, c.Y-cy, c.Z-cz
						if axis == 1 {
							a, b = c.Y-1.3, c.X-0.5*float64(nx+1)-0.17
						}
						return a > 0 && math.Abs(b) <= slope*a && math.Abs(d) <= 0.9*float64(nz)/2-0.2
					}
					emit(l, parseCfgs(f[3]))
				}
			case "rand":
				for i := 0; i < atoi(f[2]); i++ {
					l := newLatticeSolid3(nx, ny, nz, 0)
					dens := 0.15 + 0.7*rng.Float64()
					for j := range l.inside {
						l.inside[j] = rng.Float64() < dens
					}
					emit(l, parseCfgs(f[3]))
				}
			}
		}
		writeJSONFile(a.str("stats", "stats.json"), stats)
	})
}
