package main

// C09: histories of mesh operations executed against the real model3d.Mesh and
// model2d.Mesh.  Operation vocabulary and constants mirror spec/mesh/MCMesh.tla.

import (
	"encoding/json"
	"math"
	"math/rand"
	"sort"

	"github.com/unixpickle/model3d/model2d"
	"github.com/unixpickle/model3d/model3d"
)

type meshOp struct {
	Op string `json:"op"`
	A  int    `json:"a"`
	B  int    `json:"b"`
}

type meshLight struct {
	Num  int   `json:"num"`
	Ids  []int `json:"ids"`
	Iter []int `json:"iter"`
	// IterateSorted with "smaller id first" as the order: the ids exactly as delivered (not sorted by the harness)
	IterS []int `json:"iters"`
	Cont  []int `json:"cont"`
	Min   []int `json:"min"`
	Max   []int `json:"max"`
}

type find2Obs struct {
	V   int   `json:"v"`
	W   int   `json:"w"`
	Ids []int `json:"ids"`
}

type meshFull struct {
	Verts []int      `json:"verts"`
	Itv   []int      `json:"itv"`
	Find1 [][]int    `json:"find1"`
	Find2 []find2Obs `json:"find2"`
	Nbr   [][]int    `json:"nbr"`
	Avn   [][]int    `json:"avn"`
}

type meshEvent struct {
	Op      string      `json:"op"`
	A       int         `json:"a"`
	B       int         `json:"b"`
	Panic   string      `json:"panic"`
	Via     string      `json:"via,omitempty"` // the library call that realised the operation, where there are several
	Indexed []bool      `json:"indexed"`
	Light   []meshLight `json:"light"`
	Full    []meshFull  `json:"full"`
}

type meshRecord struct {
	Id   int         `json:"id"`
	Real string      `json:"real"`
	Src  int         `json:"src"`
	Ev   []meshEvent `json:"ev"`
}

// meshAPI adapts the two concrete mesh types.
type meshAPI[F comparable, C comparable, M any] struct {
	arity       int
	newMesh     func() M
	newFace     func(cs []C) F
	faceCoords  func(F) []C
	add         func(M, F)
	remove      func(M, F)
	addMesh     func(M, M)
	copy        func(M) M
	fromSlice   func([]F) M // NewMeshTriangles / NewMeshSegments
	iterSorted  func(M, func(F), func(a, b F) bool)
	deepCopy    func(M) M
	mapCoords   func(M, func(C) C) M
	invert      func(M) M
	contains    func(M, F) bool
	num         func(M) int
	slice       func(M) []F
	iterate     func(M, func(F))
	iterVerts   func(M, func(C))
	neighbors   func(M, F) []F
	find        func(M, ...C) []F
	vertexSlice func(M) []C
	min, max    func(M) []float64
	avn         func(M) func(C) []C
	indexed     func(M) bool
}

var mesh3API = meshAPI[*model3d.Triangle, model3d.Coord3D, *model3d.Mesh]{
	arity:   3,
	newMesh: model3d.NewMesh,
	newFace: func(cs []model3d.Coord3D) *model3d.Triangle {
		return &model3d.Triangle{cs[0], cs[1], cs[2]}
	},
	faceCoords: func(t *model3d.Triangle) []model3d.Coord3D { return t[:] },
	add:        func(m *model3d.Mesh, f *model3d.Triangle) { m.Add(f) },
	remove:     func(m *model3d.Mesh, f *model3d.Triangle) { m.Remove(f) },
	addMesh:    func(m, m1 *model3d.Mesh) { m.AddMesh(m1) },
	copy:       func(m *model3d.Mesh) *model3d.Mesh { return m.Copy() },
	fromSlice:  func(fs []*model3d.Triangle) *model3d.Mesh { return model3d.NewMeshTriangles(fs) },
	iterSorted: func(m *model3d.Mesh, f func(*model3d.Triangle), cmp func(a, b *model3d.Triangle) bool) {
		m.IterateSorted(f, cmp)
	},
	deepCopy:    func(m *model3d.Mesh) *model3d.Mesh { return m.DeepCopy() },
	mapCoords:   func(m *model3d.Mesh, f func(model3d.Coord3D) model3d.Coord3D) *model3d.Mesh { return m.MapCoords(f) },
	invert:      func(m *model3d.Mesh) *model3d.Mesh { return m.InvertNormals() },
	contains:    func(m *model3d.Mesh, f *model3d.Triangle) bool { return m.Contains(f) },
	num:         func(m *model3d.Mesh) int { return m.NumTriangles() },
	slice:       func(m *model3d.Mesh) []*model3d.Triangle { return m.TriangleSlice() },
	iterate:     func(m *model3d.Mesh, f func(*model3d.Triangle)) { m.Iterate(f) },
	iterVerts:   func(m *model3d.Mesh, f func(model3d.Coord3D)) { m.IterateVertices(f) },
	neighbors:   func(m *model3d.Mesh, f *model3d.Triangle) []*model3d.Triangle { return m.Neighbors(f) },
	find:        func(m *model3d.Mesh, cs ...model3d.Coord3D) []*model3d.Triangle { return m.Find(cs...) },
	vertexSlice: func(m *model3d.Mesh) []model3d.Coord3D { return m.VertexSlice() },
	min:         func(m *model3d.Mesh) []float64 { c := m.Min(); return []float64{c.X, c.Y, c.Z} },
	max:         func(m *model3d.Mesh) []float64 { c := m.Max(); return []float64{c.X, c.Y, c.Z} },
	avn: func(m *model3d.Mesh) func(model3d.Coord3D) []model3d.Coord3D {
		x := m.AllVertexNeighbors()
		return func(c model3d.Coord3D) []model3d.Coord3D { return x.Value(c) }
	},
	indexed: func(m *model3d.Mesh) bool { return m.VerifIndexed() },
}

var mesh2API = meshAPI[*model2d.Segment, model2d.Coord, *model2d.Mesh]{
	arity:   2,
	newMesh: model2d.NewMesh,
	newFace: func(cs []model2d.Coord) *model2d.Segment {
		return &model2d.Segment{cs[0], cs[1]}
	},
	faceCoords: func(t *model2d.Segment) []model2d.Coord { return t[:] },
	add:        func(m *model2d.Mesh, f *model2d.Segment) { m.Add(f) },
	remove:     func(m *model2d.Mesh, f *model2d.Segment) { m.Remove(f) },
	addMesh:    func(m, m1 *model2d.Mesh) { m.AddMesh(m1) },
	copy:       func(m *model2d.Mesh) *model2d.Mesh { return m.Copy() },
	fromSlice:  func(fs []*model2d.Segment) *model2d.Mesh { return model2d.NewMeshSegments(fs) },
	iterSorted: func(m *model2d.Mesh, f func(*model2d.Segment), cmp func(a, b *model2d.Segment) bool) {
		m.IterateSorted(f, cmp)
	},
	deepCopy:    func(m *model2d.Mesh) *model2d.Mesh { return m.DeepCopy() },
	mapCoords:   func(m *model2d.Mesh, f func(model2d.Coord) model2d.Coord) *model2d.Mesh { return m.MapCoords(f) },
	invert:      func(m *model2d.Mesh) *model2d.Mesh { return m.InvertNormals() },
	contains:    func(m *model2d.Mesh, f *model2d.Segment) bool { return m.Contains(f) },
	num:         func(m *model2d.Mesh) int { return m.NumSegments() },
	slice:       func(m *model2d.Mesh) []*model2d.Segment { return m.SegmentSlice() },
	iterate:     func(m *model2d.Mesh, f func(*model2d.Segment)) { m.Iterate(f) },
	iterVerts:   func(m *model2d.Mesh, f func(model2d.Coord)) { m.IterateVertices(f) },
	neighbors:   func(m *model2d.Mesh, f *model2d.Segment) []*model2d.Segment { return m.Neighbors(f) },
	find:        func(m *model2d.Mesh, cs ...model2d.Coord) []*model2d.Segment { return m.Find(cs...) },
	vertexSlice: func(m *model2d.Mesh) []model2d.Coord { return m.VertexSlice() },
	min:         func(m *model2d.Mesh) []float64 { c := m.Min(); return []float64{c.X, c.Y} },
	max:         func(m *model2d.Mesh) []float64 { c := m.Max(); return []float64{c.X, c.Y} },
	avn: func(m *model2d.Mesh) func(model2d.Coord) []model2d.Coord {
		x := m.AllVertexNeighbors()
		return func(c model2d.Coord) []model2d.Coord { return x.Value(c) }
	},
	indexed: func(m *model2d.Mesh) bool { return m.VerifIndexed() },
}

// A realisation maps vertex classes to real coordinates.  rep selects between bit
// patterns that are == (only class 3, the origin, has two).
type realisation[C comparable] struct {
	name    string
	coord   func(class int, rep int) C
	classOf func(c C) int
	axisInt func(x float64) int // real component -> spec integer (for Min/Max)
	negzero bool
}

var (
	pool3 = [][]int{{1, 2, 3}, {2, 1, 4}, {1, 2, 3}, {4, 3, 3}, {3, 4, 1}}
	pool2 = [][]int{{1, 2}, {2, 3}, {1, 2}, {3, 3}, {3, 4}, {2, 1}}
	maps  = [][]int{{2, 1, 3, 4}, {1, 1, 3, 4}, {4, 2, 3, 3}}
	pos3  = [][]int{{1, 1, 0}, {1, 0, 0}, {0, 0, 0}, {0, 1, 1}}
	pos2  = [][]int{{1, 1}, {1, 0}, {0, 0}, {0, 1}}
)

func axisVal(i int, big bool, neg bool) float64 {
	switch {
	case i == 0 && neg:
		return math.Copysign(0, -1)
	case i == 0:
		return 0
	case big:
		return 1e20
	default:
		return 1
	}
}

func axisToInt(x float64) int {
	switch x {
	case 0:
		return 0
	case 1, 1e20:
		return 1
	}
	return 99
}

func real3(name string, collide, negzero bool) realisation[model3d.Coord3D] {
	coord := func(class, rep int) model3d.Coord3D {
		p := pos3[class-1]
		neg := negzero && class == 3 && rep%2 == 1
		return model3d.XYZ(axisVal(p[0], collide, neg), axisVal(p[1], false, neg), axisVal(p[2], false, neg))
	}
	return realisation[model3d.Coord3D]{
		name:  name,
		coord: coord,
		classOf: func(c model3d.Coord3D) int {
			for cl := 1; cl <= 4; cl++ {
				if coord(cl, 0) == c {
					return cl
				}
			}
			return 0
		},
		axisInt: axisToInt,
		negzero: negzero,
	}
}

func real2(name string, collide, negzero bool) realisation[model2d.Coord] {
	coord := func(class, rep int) model2d.Coord {
		p := pos2[class-1]
		neg := negzero && class == 3 && rep%2 == 1
		return model2d.XY(axisVal(p[0], collide, neg), axisVal(p[1], false, neg))
	}
	return realisation[model2d.Coord]{
		name:  name,
		coord: coord,
		classOf: func(c model2d.Coord) int {
			for cl := 1; cl <= 4; cl++ {
				if coord(cl, 0) == c {
					return cl
				}
			}
			return 0
		},
		axisInt: axisToInt,
		negzero: negzero,
	}
}

type meshRunner[F comparable, C comparable, M any] struct {
	api    meshAPI[F, C, M]
	rl     realisation[C]
	pool   [][]int
	faces  []F       // registry: id-1 -> face object
	idOf   map[F]int // face object -> id
	meshes [3]M
	step   int
}

func (r *meshRunner[F, C, M]) code(f F) int {
	cs := r.api.faceCoords(f)
	k := 0
	for _, c := range cs {
		k = k*10 + r.rl.classOf(c)
	}
	return k
}

func (r *meshRunner[F, C, M]) ids(fs []F) []int {
	out := make([]int, 0, len(fs))
	for _, f := range fs {
		out = append(out, r.idOf[f]) // 0 for unknown objects
	}
	sort.Ints(out)
	return out
}

func (r *meshRunner[F, C, M]) classes(cs []C) []int {
	out := make([]int, 0, len(cs))
	for _, c := range cs {
		out = append(out, r.rl.classOf(c))
	}
	sort.Ints(out)
	return out
}

// adopt registers the (new) face objects of a derived mesh in tuple-code order.
func (r *meshRunner[F, C, M]) adopt(m M) {
	var fresh []F
	for _, f := range r.api.slice(m) {
		if _, ok := r.idOf[f]; !ok {
			fresh = append(fresh, f)
		}
	}
	sort.SliceStable(fresh, func(i, j int) bool { return r.code(fresh[i]) < r.code(fresh[j]) })
	for _, f := range fresh {
		r.faces = append(r.faces, f)
		r.idOf[f] = len(r.faces)
	}
}

func (r *meshRunner[F, C, M]) light(m M) meshLight {
	api := r.api
	var l meshLight
	l.Num = api.num(m)
	l.Ids = r.ids(api.slice(m))
	var it []F
	api.iterate(m, func(f F) { it = append(it, f) })
	l.Iter = r.ids(it)
	l.IterS = []int{}
	api.iterSorted(m, func(f F) { l.IterS = append(l.IterS, r.idOf[f]) }, func(a, b F) bool { return r.idOf[a] < r.idOf[b] })
	l.Cont = []int{}
	for i, f := range r.faces {
		if api.contains(m, f) {
			l.Cont = append(l.Cont, i+1)
		}
	}
	for _, x := range api.min(m) {
		l.Min = append(l.Min, r.rl.axisInt(x))
	}
	for _, x := range api.max(m) {
		l.Max = append(l.Max, r.rl.axisInt(x))
	}
	return l
}

func (r *meshRunner[F, C, M]) full(m M) meshFull {
	api := r.api
	var o meshFull
	rep := 0
	if r.rl.negzero {
		rep = r.step % 2 // query with either bit pattern of the origin
	}
	o.Verts = r.classes(api.vertexSlice(m))
	var itv []C
	api.iterVerts(m, func(c C) { itv = append(itv, c) })
	o.Itv = r.classes(itv)
	for v := 1; v <= 4; v++ {
		o.Find1 = append(o.Find1, r.ids(api.find(m, r.rl.coord(v, rep))))
	}
	for v := 1; v <= 4; v++ {
		for w := 1; w <= 4; w++ {
			if v != w {
				o.Find2 = append(o.Find2, find2Obs{v, w, r.ids(api.find(m, r.rl.coord(v, rep), r.rl.coord(w, rep+1)))})
			}
		}
	}
	for _, f := range r.faces {
		o.Nbr = append(o.Nbr, r.ids(api.neighbors(m, f)))
	}
	look := api.avn(m)
	for v := 1; v <= 4; v++ {
		o.Avn = append(o.Avn, r.classes(look(r.rl.coord(v, rep))))
	}
	return o
}

func (r *meshRunner[F, C, M]) apply(op meshOp) {
	api := r.api
	ms := &r.meshes
	switch op.Op {
	case "Add":
		api.add(ms[op.A], r.faces[op.B-1])
	case "Remove":
		api.remove(ms[op.A], r.faces[op.B-1])
	case "AddMesh":
		api.addMesh(ms[op.A], ms[op.B])
	case "Copy":
		if r.step%2 == 1 {
			// the same plain-set meaning through the constructor: a mesh of the given face objects
			ms[op.B] = api.fromSlice(api.slice(ms[op.A]))
		} else {
			ms[op.B] = api.copy(ms[op.A])
		}
	case "DeepCopy":
		ms[op.B] = api.deepCopy(ms[op.A])
		r.adopt(ms[op.B])
	case "InvertNormals":
		ms[op.B] = api.invert(ms[op.A])
		r.adopt(ms[op.B])
	case "MapCoords":
		g := maps[op.B-1]
		k := 0
		other := 3 - op.A
		ms[other] = api.mapCoords(ms[op.A], func(c C) C {
			k++
			cl := r.rl.classOf(c)
			if cl == 0 {
				return c
			}
			return r.rl.coord(g[cl-1], k)
		})
		r.adopt(ms[other])
	case "Probe":
		// observation only (done by the caller)
	default:
		fatal("unknown mesh op %q", op.Op)
	}
}

func runMeshBehaviour[F comparable, C comparable, M any](api meshAPI[F, C, M], rl realisation[C],
	pool [][]int, ops []meshOp, id, src int) meshRecord {
	r := &meshRunner[F, C, M]{api: api, rl: rl, pool: pool, idOf: map[F]int{}}
	slot := 0
	for _, p := range pool {
		cs := make([]C, len(p))
		for i, cl := range p {
			cs[i] = rl.coord(cl, slot)
			slot++
		}
		f := api.newFace(cs)
		r.faces = append(r.faces, f)
		r.idOf[f] = len(r.faces)
	}
	r.meshes[1] = api.newMesh()
	r.meshes[2] = api.newMesh()
	rec := meshRecord{Id: id, Real: rl.name, Src: src, Ev: []meshEvent{}}
	for i, op := range ops {
		r.step = i
		ev := meshEvent{Op: op.Op, A: op.A, B: op.B, Full: []meshFull{}}
		if op.Op == "Copy" && i%2 == 1 {
			ev.Via = map[int]string{3: "NewMeshTriangles", 2: "NewMeshSegments"}[api.arity]
		}
		ev.Panic = protect(func() {
			r.apply(op)
			ev.Light = []meshLight{r.light(r.meshes[1]), r.light(r.meshes[2])}
			if op.Op == "Probe" {
				ev.Full = []meshFull{r.full(r.meshes[op.A])}
			}
			ev.Indexed = []bool{api.indexed(r.meshes[1]), api.indexed(r.meshes[2])}
		})
		if ev.Panic != "" {
			empty := meshLight{Num: -1, Ids: []int{}, Iter: []int{}, IterS: []int{}, Cont: []int{}, Min: []int{}, Max: []int{}}
			ev.Light = []meshLight{empty, empty}
			ev.Full = []meshFull{}
			ev.Indexed = []bool{false, false}
		}
		rec.Ev = append(rec.Ev, ev)
		if ev.Panic != "" {
			break
		}
	}
	return rec
}

// randomMeshOps draws a long history (Go-side generator for mode V).  A shadow of the
// plain-set semantics (ids only) keeps the number of allocated face ids within maxId.
func randomMeshOps(rng *rand.Rand, npool, n, maxId int) []meshOp {
	var ops []meshOp
	nids := npool
	faces := [3]map[int]bool{nil, {}, {}}
	cp := func(m map[int]bool) map[int]bool {
		r := map[int]bool{}
		for k := range m {
			r[k] = true
		}
		return r
	}
	for len(ops) < n {
		m := 1 + rng.Intn(2)
		switch k := rng.Intn(20); {
		case k < 7:
			f := 1 + rng.Intn(nids)
			ops = append(ops, meshOp{"Add", m, f})
			faces[m][f] = true
		case k < 11:
			f := 1 + rng.Intn(nids)
			ops = append(ops, meshOp{"Remove", m, f})
			delete(faces[m], f)
		case k < 14:
			ops = append(ops, meshOp{"Probe", m, 0})
		case k == 14:
			ops = append(ops, meshOp{"AddMesh", m, 3 - m})
			for f := range faces[3-m] {
				faces[m][f] = true
			}
		case k == 15:
			ops = append(ops, meshOp{"Copy", 1, 2})
			faces[2] = cp(faces[1])
		default:
			if nids+len(faces[1]) > maxId {
				continue
			}
			switch k {
			case 16:
				ops = append(ops, meshOp{"DeepCopy", 1, 2})
			case 17:
				ops = append(ops, meshOp{"InvertNormals", 1, 2})
			default:
				ops = append(ops, meshOp{"MapCoords", 1, 1 + rng.Intn(len(maps))})
			}
			faces[2] = map[int]bool{}
			for i := 0; i < len(faces[1]); i++ {
				nids++
				faces[2][nids] = true
			}
		}
	}
	return ops
}

func init() {
	// c09-mesh in=<behaviours.ndjson> out=<records.ndjson> dim=3|2 [random=N len=L maxid=K]
	register("c09-mesh", func(a args) {
		dim := a.int("dim", 3)
		out := newNDWriter(a.str("out", "records.ndjson"))
		defer out.close()
		var behaviours [][]meshOp
		if in := a.str("in", ""); in != "" {
			readNDJSON(in, func(line []byte) {
				var ops []meshOp
				if err := json.Unmarshal(line, &ops); err != nil {
					fatal("bad behaviour: %v", err)
				}
				behaviours = append(behaviours, ops)
			})
		}
		rng := rand.New(rand.NewSource(int64(a.int("seed", 1))))
		npool := len(pool3)
		if dim == 2 {
			npool = len(pool2)
		}
		for i := 0; i < a.int("random", 0); i++ {
			behaviours = append(behaviours, randomMeshOps(rng, npool, a.int("len", 40), a.int("maxid", 40)))
		}
		id := 0
		stats := map[string]int{}
		for src, ops := range behaviours {
			// a final Probe of both meshes closes every history
			ops = append(append([]meshOp{}, ops...), meshOp{"Probe", 1, 0}, meshOp{"Probe", 2, 0})
			if dim == 3 {
				for _, rl := range []realisation[model3d.Coord3D]{
					real3("plain", false, false), real3("collide", true, false),
					real3("negzero", false, true), real3("collide+negzero", true, true)} {
					id++
					rec := runMeshBehaviour(mesh3API, rl, pool3, ops, id, src+1)
					countMeshStats(rec, stats)
					out.write(rec)
				}
			} else {
				for _, rl := range []realisation[model2d.Coord]{
					real2("plain", false, false), real2("collide", true, false),
					real2("negzero", false, true), real2("collide+negzero", true, true)} {
					id++
					rec := runMeshBehaviour(mesh2API, rl, pool2, ops, id, src+1)
					countMeshStats(rec, stats)
					out.write(rec)
				}
			}
		}
		// sanity of the realisations (infrastructure check, not a verdict)
		if model3d.VerifFastHash64(real3("c", true, false).coord(1, 0)) != model3d.VerifFastHash64(real3("c", true, false).coord(2, 0)) ||
			model2d.VerifFastHash64(real2("c", true, false).coord(1, 0)) != model2d.VerifFastHash64(real2("c", true, false).coord(2, 0)) {
			fatal("realisation 'collide' does not collide in the fast hash any more")
		}
		stats["records"] = id
		stats["behaviours"] = len(behaviours)
		writeJSONFile(a.str("stats", "stats.json"), stats)
	})
}

// countMeshStats counts what makes a history non-trivial: a mutation after the index
// was built, a derived mesh, a panic.
func countMeshStats(rec meshRecord, stats map[string]int) {
	mutAfterIndex, derived := false, false
	idx := []bool{false, false}
	for _, ev := range rec.Ev {
		switch ev.Op {
		case "Add", "Remove", "AddMesh":
			if idx[ev.A-1] {
				mutAfterIndex = true
			}
		case "DeepCopy", "InvertNormals", "MapCoords":
			derived = true
		}
		if len(ev.Indexed) == 2 {
			idx = ev.Indexed
		}
		if ev.Panic != "" {
			stats["panics"]++
		}
	}
	if mutAfterIndex {
		stats["mutation_after_index"]++
	}
	if derived {
		stats["with_derived_mesh"]++
	}
	stats["events"] += len(rec.Ev)
}
