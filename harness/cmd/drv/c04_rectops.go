package main

// C04: histories of box-set operations on two sets (toolbox3d.RectSet Add / Remove / AddRectSet / RemoveRectSet with a
// fresh one-box set or the other set as the argument, including removals that miss the set) against the plain set
// algebra of the same boxes; both sets are observed at the end; judged by
// spec/solids/RectOpsJudge.tla.  Boxes have integer corners, probes are the half-integer points (never on
// a face) plus the integer points that lie on no face of any box of the history.

import (
	"math/rand"

	"github.com/unixpickle/model3d/model3d"
	"github.com/unixpickle/model3d/toolbox3d"
)

type rectOp struct {
	Op  string `json:"op"`  // add | remove | addset | removeset
	Set int    `json:"set"` // the set operated on (1 or 2)
	Src int    `json:"src"` // addset / removeset: 0 = a fresh one-box RectSet (lo, hi), otherwise the other set as it is then
	Lo  []int  `json:"lo"`
	Hi  []int  `json:"hi"`
}

type rectOpsRec struct {
	ID      int      `json:"id"`
	Site    string   `json:"site"`
	Ops     []rectOp `json:"ops"`
	Plo     []int    `json:"plo"` // probe lattice in half units
	Phi     []int    `json:"phi"`
	Inside  []int    `json:"inside"`  // indices (1-based, x fastest) of contained probes of set 1
	Inside2 []int    `json:"inside2"` // the same for set 2 (which also serves as an argument of the set operations)
	Empty   bool     `json:"empty"`   // the set has no cells (bounds are then not prescribed)
	Smin    []int    `json:"smin"`    // RectSet.Min / Max in half units
	Smax    []int    `json:"smax"`
	Bmin    []int    `json:"bmin"` // bounds of RectSet.Solid()
	Bmax    []int    `json:"bmax"`
	Bexact  bool     `json:"bexact"`
	// NoBounds: a history in tenths - faces that the judge's integers take for one plane are a few 1e-17 apart, and the
	// sliver a removal leaves between them belongs to the set (and to its bounds) although no probe can see it
	NoBounds bool   `json:"nobounds"`
	Panic    string `json:"panic"`
}

func init() {
	// c04-rectops out= stats= n=N seed=S
	register("c04-rectops", func(a args) {
		out := newNDWriter(a.str("out", "records.ndjson"))
		defer out.close()
		rng := rand.New(rand.NewSource(int64(a.int("seed", 1))*53 + 4))
		stats := map[string]int{}
		for id := 1; id <= a.int("n", 60); id++ {
			rec := rectOpsRec{ID: id, Site: "toolbox3d.RectSet", Ops: []rectOp{}, Inside: []int{}, Inside2: []int{}, Plo: []int{-9, -9, -9}, Phi: []int{9, 9, 9},
				Smin: []int{0, 0, 0}, Smax: []int{0, 0, 0}, Bmin: []int{0, 0, 0}, Bmax: []int{0, 0, 0}}
			nops := 1 + rng.Intn(5)
			for k := 0; k < nops; k++ {
				var lo, hi [3]int
				for i := 0; i < 3; i++ {
					lo[i] = rng.Intn(6) - 3
					hi[i] = lo[i] + 1 + rng.Intn(3)
				}
				op := "add"
				switch r := rng.Intn(10); {
				case k == 0 && id%5 == 0:
					op = "remove" // a removal before anything was added
				case r < 4 && k > 0:
					op = "remove"
				case r == 4 && k > 0:
					op = "removeset"
				case r == 5:
					op = "addset"
				}
				if op == "remove" && rng.Intn(3) == 0 {
					// far away: certainly misses the set
					sh := []int{6, -7, 5}[rng.Intn(3)]
					for i := 0; i < 3; i++ {
						lo[i] += sh
						hi[i] += sh
					}
				}
				o := rectOp{Op: op, Set: 1, Lo: lo[:], Hi: hi[:]}
				if id%3 != 0 {
					// two sets: operations on either, set operations with the other set as the argument
					if rng.Intn(10) < 4 {
						o.Set = 2
					}
					if (op == "addset" || op == "removeset") && rng.Intn(2) == 0 {
						o.Src = 3 - o.Set
					}
				}
				rec.Ops = append(rec.Ops, o)
			}
			if id%4 == 1 {
				// a set built from two boxes that share a plane, taken over by the still empty other set, then
				// each of the two sets extended on its own
				var bs [4][2][3]int
				for b := range bs {
					for i := 0; i < 3; i++ {
						bs[b][0][i] = rng.Intn(6) - 3
						bs[b][1][i] = bs[b][0][i] + 1 + rng.Intn(3)
					}
				}
				ax := rng.Intn(3)
				bs[0][0][ax] = rng.Intn(4) - 3 // (everything stays inside the probe lattice)
				bs[0][1][ax] = bs[0][0][ax] + 1 + rng.Intn(2)
				bs[1][0][ax] = bs[0][1][ax]
				bs[1][1][ax] = bs[1][0][ax] + 1 + rng.Intn(2)
				rec.Ops = []rectOp{
					{Op: "add", Set: 2, Lo: bs[0][0][:], Hi: bs[0][1][:]},
					{Op: "add", Set: 2, Lo: bs[1][0][:], Hi: bs[1][1][:]},
					{Op: "addset", Set: 1, Src: 2, Lo: []int{0, 0, 0}, Hi: []int{0, 0, 0}},
					{Op: "add", Set: 1 + rng.Intn(2), Lo: bs[2][0][:], Hi: bs[2][1][:]},
					{Op: []string{"add", "remove"}[rng.Intn(2)], Set: 1 + rng.Intn(2), Lo: bs[3][0][:], Hi: bs[3][1][:]},
				}
			}
			if id%6 == 2 {
				// a box whose face is written as k*0.1, then a removal up to the nearly equal plane k/10 on the same axis
				ax := rng.Intn(3)
				k := []int{3, 6, 7}[rng.Intn(3)] - 3
				a := rectOp{Op: "add", Set: 1, Lo: []int{-3, -3, -3}, Hi: []int{0, 0, 0}}
				a.Hi[ax] = k
				a.Hi[(ax+1)%3], a.Hi[(ax+2)%3] = -1+rng.Intn(3), -1+rng.Intn(3)
				b := rectOp{Op: "remove", Set: 1, Lo: []int{-2, -2, -2}, Hi: []int{1, 1, 1}}
				b.Lo[ax], b.Hi[ax] = -2+rng.Intn(2), k
				c := rectOp{Op: "add", Set: 1, Lo: []int{-1, -1, -1}, Hi: []int{2, 2, 2}}
				c.Lo[ax], c.Hi[ax] = k, k+1
				rec.Ops = []rectOp{a, b, c}[:2+rng.Intn(2)]
			}
			rec.Panic = protect(func() {
				sets := [2]*toolbox3d.RectSet{toolbox3d.NewRectSet(), toolbox3d.NewRectSet()}
				// every third history in tenths: the coordinate k/10 is written as k*0.1, k/10 or a sum of tenths, which
				// differ from each other by an ulp now and then (faces that are nearly, but not exactly, in one plane)
				unit := 1.0
				forced := -1 // (tenths) which way of writing k/10 the next box uses; -1: any
				cv := func(k int) float64 { return float64(k) }
				if id%3 == 2 {
					unit = 0.1
					rec.NoBounds = true
					cv = func(k int) float64 {
						way := rng.Intn(3)
						if forced >= 0 {
							way = forced
						}
						switch way {
						case 0:
							return float64(k) * 0.1
						case 1:
							return float64(k) / 10
						}
						v, step := 0.0, 0.1
						if k < 0 {
							step = -0.1
						}
						for i := 0; i < k || i < -k; i++ {
							v += step
						}
						return v
					}
				}
				for oi, o := range rec.Ops {
					if id%6 == 2 {
						// the template below: additions written as k*0.1, removals as k/10 (which is smaller for k = 3, 6, 7)
						forced = map[string]int{"add": 0, "remove": 1}[o.Op]
					}
					_ = oi
					r := model3d.NewRect(model3d.XYZ(cv(o.Lo[0]), cv(o.Lo[1]), cv(o.Lo[2])),
						model3d.XYZ(cv(o.Hi[0]), cv(o.Hi[1]), cv(o.Hi[2])))
					arg := toolbox3d.NewRectSet()
					if o.Src != 0 {
						arg = sets[o.Src-1]
					} else if o.Op == "addset" || o.Op == "removeset" {
						arg.Add(r)
					}
					rs := sets[o.Set-1]
					// the solid of the set is asked for between the operations too (and thrown away): what the set
					// denotes at the end must not depend on it
					if rng.Intn(2) == 0 {
						rs.Solid()
						arg.Solid()
					}
					switch o.Op {
					case "add":
						rs.Add(r)
					case "remove":
						rs.Remove(r)
					case "addset":
						rs.AddRectSet(arg)
					default:
						rs.RemoveRectSet(arg)
					}
				}
				rs := sets[0]
				solid := rs.Solid()
				solid2 := sets[1].Solid()
				var e1, e2, e3, e4 bool
				rec.Smin, e1 = scaledVec(c3v(rs.Min()), 2/unit)
				rec.Smax, e2 = scaledVec(c3v(rs.Max()), 2/unit)
				rec.Bmin, e3 = scaledVec(c3v(solid.Min()), 2/unit)
				rec.Bmax, e4 = scaledVec(c3v(solid.Max()), 2/unit)
				rec.Bexact = e1 && e2 && e3 && e4
				idx := 0
				for z := rec.Plo[2]; z <= rec.Phi[2]; z++ {
					for y := rec.Plo[1]; y <= rec.Phi[1]; y++ {
						for x := rec.Plo[0]; x <= rec.Phi[0]; x++ {
							idx++
							if solid.Contains(model3d.XYZ(float64(x)/2*unit, float64(y)/2*unit, float64(z)/2*unit)) {
								rec.Inside = append(rec.Inside, idx)
							}
							if solid2.Contains(model3d.XYZ(float64(x)/2*unit, float64(y)/2*unit, float64(z)/2*unit)) {
								rec.Inside2 = append(rec.Inside2, idx)
							}
						}
					}
				}
				rec.Empty = len(rec.Inside) == 0 // every cell has integer corners, hence a half-integer interior point
			})
			stats["records"]++
			if len(rec.Inside) > 0 {
				stats["nonempty"]++
			}
			out.write(rec)
		}
		writeJSONFile(a.str("stats", "stats.json"), stats)
	})
}
