package main

// C04: histories of box-set operations (toolbox3d.RectSet Add / Remove / AddRectSet / RemoveRectSet, including
// removals that miss the set) against the plain set algebra of the same boxes; judged by
// spec/solids/RectOpsJudge.tla.  Boxes have integer corners, probes are the half-integer points (never on
// a face) plus the integer points that lie on no face of any box of the history.

import (
	"math/rand"

	"github.com/unixpickle/model3d/model3d"
	"github.com/unixpickle/model3d/toolbox3d"
)

type rectOp struct {
	Op string `json:"op"` // add | remove | addset | removeset (the *set variants pass a one-box RectSet)
	Lo []int  `json:"lo"`
	Hi []int  `json:"hi"`
}

type rectOpsRec struct {
	ID     int      `json:"id"`
	Site   string   `json:"site"`
	Ops    []rectOp `json:"ops"`
	Plo    []int    `json:"plo"` // probe lattice in half units
	Phi    []int    `json:"phi"`
	Inside []int    `json:"inside"` // indices (1-based, x fastest) of contained probes
	Empty  bool     `json:"empty"`  // the set has no cells (bounds are then not prescribed)
	Smin   []int    `json:"smin"`   // RectSet.Min / Max in half units
	Smax   []int    `json:"smax"`
	Bmin   []int    `json:"bmin"` // bounds of RectSet.Solid()
	Bmax   []int    `json:"bmax"`
	Bexact bool     `json:"bexact"`
	Panic  string   `json:"panic"`
}

func init() {
	// c04-rectops out= stats= n=N seed=S
	register("c04-rectops", func(a args) {
		out := newNDWriter(a.str("out", "records.ndjson"))
		defer out.close()
		rng := rand.New(rand.NewSource(int64(a.int("seed", 1))*53 + 4))
		stats := map[string]int{}
		for id := 1; id <= a.int("n", 60); id++ {
			rec := rectOpsRec{ID: id, Site: "toolbox3d.RectSet", Ops: []rectOp{}, Inside: []int{}, Plo: []int{-9, -9, -9}, Phi: []int{9, 9, 9},
				Smin: []int{0, 0, 0}, Smax: []int{0, 0, 0}, Bmin: []int{0, 0, 0}, Bmax: []int{0, 0, 0}}
			nops := 1 + rng.Intn(5)
			for k := 0; k < nops; k++ {
				var lo, hi [3]int
				for i := 0; i < 3; i++ {
					lo[i] = rng.Intn(6) - 3
					hi[i] = lo[i] + 1 + rng.Intn(3)
				}
				op := "add"
				switch r := rng.Intn(10); {
				case k == 0 && id%5 == 0:
					op = "remove" // a removal before anything was added
				case r < 4 && k > 0:
					op = "remove"
				case r == 4 && k > 0:
					op = "removeset"
				case r == 5:
					op = "addset"
				}
				if op == "remove" && rng.Intn(3) == 0 {
					// far away: certainly misses the set
					sh := []int{6, -7, 5}[rng.Intn(3)]
					for i := 0; i < 3; i++ {
						lo[i] += sh
						hi[i] += sh
					}
				}
				rec.Ops = append(rec.Ops, rectOp{Op: op, Lo: lo[:], Hi: hi[:]})
			}
			rec.Panic = protect(func() {
				rs := toolbox3d.NewRectSet()
				for _, o := range rec.Ops {
					r := model3d.NewRect(model3d.XYZ(float64(o.Lo[0]), float64(o.Lo[1]), float64(o.Lo[2])),
						model3d.XYZ(float64(o.Hi[0]), float64(o.Hi[1]), float64(o.Hi[2])))
					one := toolbox3d.NewRectSet()
					one.Add(r)
					switch o.Op {
					case "add":
						rs.Add(r)
					case "remove":
						rs.Remove(r)
					case "addset":
						rs.AddRectSet(one)
					default:
						rs.RemoveRectSet(one)
					}
				}
				solid := rs.Solid()
				var e1, e2, e3, e4 bool
				rec.Smin, e1 = scaledVec(c3v(rs.Min()), 2)
				rec.Smax, e2 = scaledVec(c3v(rs.Max()), 2)
				rec.Bmin, e3 = scaledVec(c3v(solid.Min()), 2)
				rec.Bmax, e4 = scaledVec(c3v(solid.Max()), 2)
				rec.Bexact = e1 && e2 && e3 && e4
				idx := 0
				for z := rec.Plo[2]; z <= rec.Phi[2]; z++ {
					for y := rec.Plo[1]; y <= rec.Phi[1]; y++ {
						for x := rec.Plo[0]; x <= rec.Phi[0]; x++ {
							idx++
							if solid.Contains(model3d.XYZ(float64(x)/2, float64(y)/2, float64(z)/2)) {
								rec.Inside = append(rec.Inside, idx)
							}
						}
					}
				}
				rec.Empty = len(rec.Inside) == 0 // every cell has integer corners, hence a half-integer interior point
			})
			stats["records"]++
			if len(rec.Inside) > 0 {
				stats["nonempty"]++
			}
			out.write(rec)
		}
		writeJSONFile(a.str("stats", "stats.json"), stats)
	})
}
