package main

// C02 (search on decimal lattices): MarchingCubesSearch / MarchingSquaresSearch on boxes whose faces sit at
// multiples of a decimal spacing (0.1, 0.3, 0.7): the lattice built by repeated addition and the arithmetic
// x0 + i*delta differ by an ulp now and then, so faces fall just inside / just outside lattice planes.  Every
// vertex of the refined mesh must be within delta / 2^iters (the bisection bracket) of the surface of the box.
// Judged by spec/lattice/DecimalSearchJudge.tla on the integers dev and tol (1e-9 units).

import (
	"math"
	"math/rand"
	"strconv"

	"github.com/unixpickle/model3d/model2d"
	"github.com/unixpickle/model3d/model3d"
)

type decSearchRec struct {
	ID    int    `json:"id"`
	Site  string `json:"site"`
	Case  string `json:"case"`
	NVert int    `json:"nvert"`
	Dev   int    `json:"dev"` // largest distance of a vertex from the surface of the box, 1e-9 units (capped)
	Tol   int    `json:"tol"` // delta / 2^iters + rounding allowance, same units
	Panic string `json:"panic"`
}

func init() {
	register("c02-decimal", func(a args) {
		rng := rand.New(rand.NewSource(int64(a.int("seed", 1))))
		out := newNDWriter(a.str("out", "records.ndjson"))
		defer out.close()
		stats := map[string]int{}
		id := 0
		for k := 0; k < a.int("n", 40); k++ {
			delta := []float64{0.1, 0.3, 0.7, 0.05}[k%4]
			iters := []int{4, 8, 12}[rng.Intn(3)]
			var lo, hi [3]float64
			for i := 0; i < 3; i++ {
				lo[i] = float64(rng.Intn(5)-2) * delta
				hi[i] = lo[i] + float64(2+rng.Intn(4))*delta
			}
			distBox := func(p [3]float64, dim int) float64 {
				// distance from p to the surface of the box
				out2, inside := 0.0, math.Inf(1)
				for i := 0; i < dim; i++ {
					if p[i] < lo[i] {
						out2 += (lo[i] - p[i]) * (lo[i] - p[i])
					} else if p[i] > hi[i] {
						out2 += (p[i] - hi[i]) * (p[i] - hi[i])
					} else {
						inside = math.Min(inside, math.Min(p[i]-lo[i], hi[i]-p[i]))
					}
				}
				if out2 > 0 {
					return math.Sqrt(out2)
				}
				return inside
			}
			tol := delta/math.Ldexp(1, iters) + 1e-9
			id++
			rec := decSearchRec{ID: id, Site: "model3d.MarchingCubesSearch", Tol: int(tol * 1e9)}
			rec.Case = formatCase(lo, hi, delta, iters)
			rec.Panic = protect(func() {
				box := model3d.NewRect(model3d.XYZ(lo[0], lo[1], lo[2]), model3d.XYZ(hi[0], hi[1], hi[2]))
				m := model3d.MarchingCubesSearch(box, delta, iters)
				worst := 0.0
				for _, v := range m.VertexSlice() {
					worst = math.Max(worst, distBox(v.Array(), 3))
					rec.NVert++
				}
				rec.Dev = int(math.Min(worst*1e9, 2e9))
			})
			out.write(rec)
			stats["records"]++
			stats["site:"+rec.Site]++
			if rec.NVert > 0 {
				stats["nonempty"]++
			}
			id++
			rec2 := decSearchRec{ID: id, Site: "model2d.MarchingSquaresSearch", Tol: int(tol * 1e9), Case: rec.Case}
			rec2.Panic = protect(func() {
				box := model2d.NewRect(model2d.XY(lo[0], lo[1]), model2d.XY(hi[0], hi[1]))
				m := model2d.MarchingSquaresSearch(box, delta, iters)
				worst := 0.0
				for _, v := range m.VertexSlice() {
					worst = math.Max(worst, distBox([3]float64{v.X, v.Y, 0}, 2))
					rec2.NVert++
				}
				rec2.Dev = int(math.Min(worst*1e9, 2e9))
			})
			out.write(rec2)
			stats["records"]++
			stats["site:"+rec2.Site]++
			if rec2.NVert > 0 {
				stats["nonempty"]++
			}
		}
		writeJSONFile(a.str("stats", "stats.json"), stats)
	})
}

func formatCase(lo, hi [3]float64, delta float64, iters int) string {
	return "box " + fmtF(lo[0]) + "," + fmtF(lo[1]) + "," + fmtF(lo[2]) + " .. " + fmtF(hi[0]) + "," + fmtF(hi[1]) + "," + fmtF(hi[2]) +
		" delta " + fmtF(delta) + " iters " + itoa(iters)
}

func fmtF(x float64) string { return strconv.FormatFloat(x, 'g', -1, 64) }
