package main

// C15 (protocol half): traces of the real fileformats.PLYWriter / PLYReader and
// STLWriter / STLReader for TLC-enumerated headers, validated by spec/codec/PlyTrace.tla.

import (
	"bytes"
	"encoding/binary"
	"encoding/json"
	"errors"
	"io"
	"math"
	"math/rand"
	"strconv"
	"strings"

	ff "github.com/unixpickle/model3d/fileformats"
)

type plyEv struct {
	Op   string `json:"op"`
	Res  string `json:"res"`
	El   int    `json:"el"`
	Sunk int    `json:"sunk"`
	Ok   bool   `json:"ok"`
	Note string `json:"note,omitempty"`
}

type plyRec struct {
	ID     int     `json:"id"`
	Site   string  `json:"site"`
	Fmt    string  `json:"fmt"`
	Counts []int   `json:"counts"`
	Layout []int   `json:"layout"`
	Ev     []plyEv `json:"ev"`
}

// layouts with pairwise distinct numbers of properties (see PlyTrace.tla)
func plyLayout(k int) []*ff.PLYProperty {
	switch k {
	case 1:
		return []*ff.PLYProperty{{Name: "vertex_index", LenType: ff.PLYPropertyTypeUchar, ElemType: ff.PLYPropertyTypeInt}}
	case 2:
		return []*ff.PLYProperty{{Name: "x", ElemType: ff.PLYPropertyTypeFloat}, {Name: "c", ElemType: ff.PLYPropertyTypeUchar}}
	case 3:
		return []*ff.PLYProperty{{Name: "d", ElemType: ff.PLYPropertyTypeDouble},
			{Name: "l", LenType: ff.PLYPropertyTypeUshort, ElemType: ff.PLYPropertyTypeShort},
			{Name: "i", ElemType: ff.PLYPropertyTypeInt32}}
	default:
		return []*ff.PLYProperty{{Name: "a", ElemType: ff.PLYPropertyTypeChar}, {Name: "b", ElemType: ff.PLYPropertyTypeUint16},
			{Name: "u", ElemType: ff.PLYPropertyTypeUint}, {Name: "m", LenType: ff.PLYPropertyTypeUint8, ElemType: ff.PLYPropertyTypeFloat64}}
	}
}

// plyAlias: the second spelling of a property type
func plyAlias(t ff.PLYPropertyType) ff.PLYPropertyType {
	pairs := [][2]ff.PLYPropertyType{
		{ff.PLYPropertyTypeChar, ff.PLYPropertyTypeInt8}, {ff.PLYPropertyTypeUchar, ff.PLYPropertyTypeUint8},
		{ff.PLYPropertyTypeShort, ff.PLYPropertyTypeInt16}, {ff.PLYPropertyTypeUshort, ff.PLYPropertyTypeUint16},
		{ff.PLYPropertyTypeInt, ff.PLYPropertyTypeInt32}, {ff.PLYPropertyTypeUint, ff.PLYPropertyTypeUint32},
		{ff.PLYPropertyTypeFloat, ff.PLYPropertyTypeFloat32}, {ff.PLYPropertyTypeDouble, ff.PLYPropertyTypeFloat64},
	}
	for _, p := range pairs {
		if t == p[0] {
			return p[1]
		}
		if t == p[1] {
			return p[0]
		}
	}
	return t
}

var f32Palette = []float32{0, float32(math.Copysign(0, -1)), 1.5, math.MaxFloat32, 1e-40, -2.75, 1.0 / 3, 16777216, -math.SmallestNonzeroFloat32}
var f64Palette = []float64{0, math.Copysign(0, -1), 1.0 / 3, 1e300, 5e-324, -2.5, math.MaxFloat64, 0.1, 123456789.123456789}

func plyScalar(t ff.PLYPropertyType, rng *rand.Rand) ff.PLYValue {
	pick := func(vals ...int64) int64 { return vals[rng.Intn(len(vals))] }
	switch t {
	case ff.PLYPropertyTypeChar, ff.PLYPropertyTypeInt8:
		return ff.PLYValueInt8{Value: int8(pick(-128, 127, 0, -1, 1, 5))}
	case ff.PLYPropertyTypeUchar, ff.PLYPropertyTypeUint8:
		return ff.PLYValueUint8{Value: uint8(pick(0, 255, 1, 128, 3))}
	case ff.PLYPropertyTypeShort, ff.PLYPropertyTypeInt16:
		return ff.PLYValueInt16{Value: int16(pick(-32768, 32767, 0, -1, 258))}
	case ff.PLYPropertyTypeUshort, ff.PLYPropertyTypeUint16:
		return ff.PLYValueUint16{Value: uint16(pick(0, 65535, 1, 258, 32768))}
	case ff.PLYPropertyTypeInt, ff.PLYPropertyTypeInt32:
		return ff.PLYValueInt32{Value: int32(pick(math.MinInt32, math.MaxInt32, 0, -1, 16909060))}
	case ff.PLYPropertyTypeUint, ff.PLYPropertyTypeUint32:
		return ff.PLYValueUint32{Value: uint32(pick(0, math.MaxUint32, 1, 16909060, 1<<31))}
	case ff.PLYPropertyTypeFloat, ff.PLYPropertyTypeFloat32:
		return ff.PLYValueFloat32{Value: f32Palette[rng.Intn(len(f32Palette))]}
	default:
		return ff.PLYValueFloat64{Value: f64Palette[rng.Intn(len(f64Palette))]}
	}
}

func plyLenValue(t ff.PLYPropertyType, n int) ff.PLYValue {
	switch t {
	case ff.PLYPropertyTypeUchar, ff.PLYPropertyTypeUint8:
		return ff.PLYValueUint8{Value: uint8(n)}
	case ff.PLYPropertyTypeUshort, ff.PLYPropertyTypeUint16:
		return ff.PLYValueUint16{Value: uint16(n)}
	default:
		return ff.PLYValueInt32{Value: int32(n)}
	}
}

func plyRow(props []*ff.PLYProperty, rng *rand.Rand) []ff.PLYValue {
	row := make([]ff.PLYValue, len(props))
	for i, p := range props {
		if p.LenType == ff.PLYPropertyTypeNone {
			row[i] = plyScalar(p.ElemType, rng)
			continue
		}
		lens := []int{0, 1, 3, 4}
		if rng.Intn(6) == 0 {
			lens = []int{255}
		}
		if p.LenType != ff.PLYPropertyTypeUchar && p.LenType != ff.PLYPropertyTypeUint8 && rng.Intn(5) == 0 {
			// longer than any capacity hint of the reader (length types wider than a byte only)
			lens = []int{1024, 1025, 1500}
		}
		n := lens[rng.Intn(len(lens))]
		vals := make([]ff.PLYValue, n)
		for j := range vals {
			vals[j] = plyScalar(p.ElemType, rng)
		}
		row[i] = ff.PLYValueList{Length: plyLenValue(p.LenType, n), Values: vals}
	}
	return row
}

// independent encodings ----------------------------------------------------------------

func flattenPLY(row []ff.PLYValue) []ff.PLYValue {
	var out []ff.PLYValue
	for _, v := range row {
		if l, ok := v.(ff.PLYValueList); ok {
			out = append(out, l.Length)
			out = append(out, l.Values...)
		} else {
			out = append(out, v)
		}
	}
	return out
}

func plyBinary(row []ff.PLYValue, order binary.ByteOrder) []byte {
	var buf bytes.Buffer
	for _, v := range flattenPLY(row) {
		switch x := v.(type) {
		case ff.PLYValueInt8:
			buf.WriteByte(byte(x.Value))
		case ff.PLYValueUint8:
			buf.WriteByte(x.Value)
		case ff.PLYValueInt16:
			binary.Write(&buf, order, x.Value)
		case ff.PLYValueUint16:
			binary.Write(&buf, order, x.Value)
		case ff.PLYValueInt32:
			binary.Write(&buf, order, x.Value)
		case ff.PLYValueUint32:
			binary.Write(&buf, order, x.Value)
		case ff.PLYValueFloat32:
			binary.Write(&buf, order, math.Float32bits(x.Value))
		case ff.PLYValueFloat64:
			binary.Write(&buf, order, math.Float64bits(x.Value))
		}
	}
	return buf.Bytes()
}

// the text of a row means the same numbers (any spelling that parses to the value is fine)
func plyTextMeans(line string, row []ff.PLYValue) bool {
	toks := strings.Fields(line)
	flat := flattenPLY(row)
	if len(toks) != len(flat) {
		return false
	}
	for i, v := range flat {
		switch x := v.(type) {
		case ff.PLYValueInt8:
			n, err := strconv.ParseInt(toks[i], 10, 64)
			if err != nil || n != int64(x.Value) {
				return false
			}
		case ff.PLYValueUint8:
			n, err := strconv.ParseInt(toks[i], 10, 64)
			if err != nil || n != int64(x.Value) {
				return false
			}
		case ff.PLYValueInt16:
			n, err := strconv.ParseInt(toks[i], 10, 64)
			if err != nil || n != int64(x.Value) {
				return false
			}
		case ff.PLYValueUint16:
			n, err := strconv.ParseInt(toks[i], 10, 64)
			if err != nil || n != int64(x.Value) {
				return false
			}
		case ff.PLYValueInt32:
			n, err := strconv.ParseInt(toks[i], 10, 64)
			if err != nil || n != int64(x.Value) {
				return false
			}
		case ff.PLYValueUint32:
			n, err := strconv.ParseInt(toks[i], 10, 64)
			if err != nil || n != int64(x.Value) {
				return false
			}
		case ff.PLYValueFloat32:
			f, err := strconv.ParseFloat(toks[i], 32)
			if err != nil || math.Float32bits(float32(f)) != math.Float32bits(x.Value) {
				return false
			}
		case ff.PLYValueFloat64:
			f, err := strconv.ParseFloat(toks[i], 64)
			if err != nil || math.Float64bits(f) != math.Float64bits(x.Value) {
				return false
			}
		}
	}
	return true
}

func plyValuesEqual(a, b []ff.PLYValue) bool {
	fa, fb := flattenPLY(a), flattenPLY(b)
	if len(a) != len(b) || len(fa) != len(fb) {
		return false
	}
	for i := range a {
		_, la := a[i].(ff.PLYValueList)
		_, lb := b[i].(ff.PLYValueList)
		if la != lb {
			return false
		}
	}
	for i := range fa {
		switch x := fa[i].(type) {
		case ff.PLYValueFloat32:
			y, ok := fb[i].(ff.PLYValueFloat32)
			if !ok || math.Float32bits(x.Value) != math.Float32bits(y.Value) {
				return false
			}
		case ff.PLYValueFloat64:
			y, ok := fb[i].(ff.PLYValueFloat64)
			if !ok || math.Float64bits(x.Value) != math.Float64bits(y.Value) {
				return false
			}
		default:
			if fa[i] != fb[i] {
				return false
			}
		}
	}
	return true
}

// sinkState: complete rows in the sink and whether the sink is a prefix of what was handed over
func plySinkState(sink []byte, hdrLen int, format ff.PLYFormat, rows [][]ff.PLYValue) (int, bool) {
	if len(sink) < hdrLen {
		return 0, false
	}
	body := sink[hdrLen:]
	if format == ff.PLYFormatASCII {
		lines := strings.Split(string(body), "\n")
		complete := len(lines) - 1
		if complete > len(rows) {
			return complete, false
		}
		for i := 0; i < complete; i++ {
			if !plyTextMeans(lines[i], rows[i]) {
				return complete, false
			}
		}
		return complete, true
	}
	var order binary.ByteOrder = binary.LittleEndian
	if format == ff.PLYFormatBinaryBig {
		order = binary.BigEndian
	}
	var want []byte
	complete := 0
	for _, r := range rows {
		want = append(want, plyBinary(r, order)...)
		if len(want) <= len(body) {
			complete++
		}
	}
	if len(body) > len(want) {
		return complete, false
	}
	return complete, bytes.Equal(body, want[:len(body)])
}

func headersEqual(a, b *ff.PLYHeader) bool {
	if a.Format != b.Format || len(a.Elements) != len(b.Elements) {
		return false
	}
	for i := range a.Elements {
		x, y := a.Elements[i], b.Elements[i]
		if x.Name != y.Name || x.Count != y.Count || len(x.Properties) != len(y.Properties) {
			return false
		}
		for j := range x.Properties {
			if *x.Properties[j] != *y.Properties[j] {
				return false
			}
		}
	}
	return true
}

func errClass(err error) string {
	if err == nil {
		return "ok"
	}
	if errors.Is(err, io.EOF) {
		return "eof"
	}
	return "err"
}

func plyTrace(id int, counts []int, format ff.PLYFormat, rot int, rng *rand.Rand) plyRec {
	names := []string{"vertex", "face", "edge", "cell"}
	fmtName := map[ff.PLYFormat]string{ff.PLYFormatASCII: "ascii", ff.PLYFormatBinaryLittle: "little", ff.PLYFormatBinaryBig: "big"}[format]
	rec := plyRec{ID: id, Site: "PLY", Fmt: fmtName, Counts: counts}
	hdr := &ff.PLYHeader{Format: format}
	for i, c := range counts {
		lay := (i+rot)%4 + 1
		rec.Layout = append(rec.Layout, lay)
		props := plyLayout(lay)
		if id%2 == 1 {
			// the other spelling of every type ("uint32" for "uint", "float64" for "double", ...)
			for _, p := range props {
				p.ElemType = plyAlias(p.ElemType)
				if p.LenType != ff.PLYPropertyTypeNone {
					p.LenType = plyAlias(p.LenType)
				}
			}
		}
		hdr.Elements = append(hdr.Elements, &ff.PLYElement{Name: names[i%4], Count: int64(c), Properties: props})
	}
	total := 0
	for _, c := range counts {
		total += c
	}
	var sink bytes.Buffer
	var w *ff.PLYWriter
	var err error
	note := protect(func() { w, err = ff.NewPLYWriter(&sink, hdr) })
	hdrLen := sink.Len()
	hdrOK := false
	if note == "" && err == nil {
		if h2, e2 := ff.NewPLYHeaderDecode(sink.String()); e2 == nil && headersEqual(hdr, h2) {
			hdrOK = true
		}
		// the same header with element counts beyond 32 bits (a header can be written and read without its rows)
		big := &ff.PLYHeader{Format: hdr.Format}
		for i, e := range hdr.Elements {
			big.Elements = append(big.Elements, &ff.PLYElement{Name: e.Name, Properties: e.Properties,
				Count: []int64{1<<31 - 1, 1 << 31, 1<<40 + 7, 1<<62 + 1}[(id+i)%4]})
		}
		var bsink bytes.Buffer
		if p := protect(func() {
			if _, e := ff.NewPLYWriter(&bsink, big); e != nil {
				hdrOK = false
			}
		}); p != "" {
			hdrOK = false
		}
		if h3, e3 := ff.NewPLYHeaderDecode(bsink.String()); e3 != nil || !headersEqual(big, h3) {
			hdrOK = false
		}
	}
	rec.Ev = append(rec.Ev, plyEv{Op: "open", Res: resOrPanic(errClass(err), note), Ok: hdrOK, Note: note})
	if note != "" || err != nil {
		return rec
	}
	// rows in file order, each with the layout of the element that owns its position
	var rows [][]ff.PLYValue
	var owner []int
	for i, c := range counts {
		for k := 0; k < c; k++ {
			rows = append(rows, plyRow(hdr.Elements[i].Properties, rng))
			owner = append(owner, i+1)
		}
	}
	for k := 0; k <= total; k++ {
		var row []ff.PLYValue
		if k < total {
			row = rows[k]
		} else {
			// surplus row (shaped like the last element)
			row = plyRow(hdr.Elements[len(counts)-1].Properties, rng)
		}
		var werr error
		note := protect(func() { werr = w.Write(row) })
		upto := k + 1
		if upto > total {
			upto = total
		}
		sunk, ok := plySinkState(sink.Bytes(), hdrLen, format, rows[:upto])
		rec.Ev = append(rec.Ev, plyEv{Op: "write", Res: resOrPanic(errClass(werr), note), Sunk: sunk, Ok: ok, Note: note})
	}
	var rd *ff.PLYReader
	note = protect(func() { rd, err = ff.NewPLYReader(bytes.NewReader(sink.Bytes())) })
	rec.Ev = append(rec.Ev, plyEv{Op: "ropen", Res: resOrPanic(errClass(err), note), Note: note})
	if note != "" || err != nil {
		return rec
	}
	for k := 0; k <= total; k++ {
		var vals []ff.PLYValue
		var el *ff.PLYElement
		var rerr error
		note := protect(func() { vals, el, rerr = rd.Read() })
		ev := plyEv{Op: "read", Res: resOrPanic(errClass(rerr), note), Note: note}
		if ev.Res == "ok" {
			ev.Res = "row"
			for i, e := range rd.Header().Elements {
				if e == el {
					ev.El = i + 1
				}
			}
			ev.Ok = k < total && plyValuesEqual(vals, rows[k])
		}
		rec.Ev = append(rec.Ev, ev)
		if ev.Res != "row" {
			break
		}
	}
	return rec
}

func resOrPanic(res, note string) string {
	if note != "" {
		return "panic"
	}
	return res
}

func stlTrace(id, n int, rng *rand.Rand) plyRec {
	rec := plyRec{ID: id, Site: "STL", Fmt: "stl", Counts: []int{n}, Layout: []int{0}}
	var sink bytes.Buffer
	var w *ff.STLWriter
	var err error
	note := protect(func() { w, err = ff.NewSTLWriter(&sink, uint32(n)) })
	rec.Ev = append(rec.Ev, plyEv{Op: "open", Res: resOrPanic(errClass(err), note), Ok: sink.Len() == 84, Note: note})
	if note != "" || err != nil {
		return rec
	}
	type tri struct {
		n [3]float32
		v [3][3]float32
	}
	var tris []tri
	var want []byte
	want = append(want, make([]byte, 80)...)
	want = binary.LittleEndian.AppendUint32(want, uint32(n))
	for k := 0; k <= n; k++ {
		var t tri
		for i := 0; i < 3; i++ {
			t.n[i] = f32Palette[rng.Intn(len(f32Palette))]
			for j := 0; j < 3; j++ {
				t.v[i][j] = f32Palette[rng.Intn(len(f32Palette))]
			}
		}
		var werr error
		note := protect(func() { werr = w.WriteTriangle(t.n, t.v) })
		if k < n {
			tris = append(tris, t)
			for i := 0; i < 3; i++ {
				want = binary.LittleEndian.AppendUint32(want, math.Float32bits(t.n[i]))
			}
			for i := 0; i < 3; i++ {
				for j := 0; j < 3; j++ {
					want = binary.LittleEndian.AppendUint32(want, math.Float32bits(t.v[i][j]))
				}
			}
			want = append(want, 0, 0)
		}
		sunk := 0
		if sink.Len() >= 84 {
			sunk = (sink.Len() - 84) / 50
		}
		ok := sink.Len() <= len(want) && bytes.Equal(sink.Bytes(), want[:sink.Len()])
		rec.Ev = append(rec.Ev, plyEv{Op: "write", Res: resOrPanic(errClass(werr), note), Sunk: sunk, Ok: ok, Note: note})
	}
	var rd *ff.STLReader
	note = protect(func() { rd, err = ff.NewSTLReader(bytes.NewReader(sink.Bytes())) })
	rec.Ev = append(rec.Ev, plyEv{Op: "ropen", Res: resOrPanic(errClass(err), note), Note: note})
	if note != "" || err != nil {
		return rec
	}
	for k := 0; k <= n; k++ {
		var nn [3]float32
		var vv [3][3]float32
		var rerr error
		note := protect(func() { nn, vv, rerr = rd.ReadTriangle() })
		ev := plyEv{Op: "read", Res: resOrPanic(errClass(rerr), note), Note: note}
		if ev.Res == "ok" {
			ev.Res = "row"
			ev.El = 1
			if k < n {
				ev.Ok = true
				for i := 0; i < 3; i++ {
					if math.Float32bits(nn[i]) != math.Float32bits(tris[k].n[i]) {
						ev.Ok = false
					}
					for j := 0; j < 3; j++ {
						if math.Float32bits(vv[i][j]) != math.Float32bits(tris[k].v[i][j]) {
							ev.Ok = false
						}
					}
				}
			}
		}
		rec.Ev = append(rec.Ev, ev)
		if ev.Res != "row" {
			break
		}
	}
	return rec
}

func init() {
	register("c15-ply", func(a args) {
		rng := rand.New(rand.NewSource(int64(a.int("seed", 1))))
		out := newNDWriter(a.str("out", "records.ndjson"))
		defer out.close()
		reps := a.int("reps", 1)
		id := 0
		stats := map[string]int{}
		readNDJSON(a.str("in", "cases.ndjson"), func(line []byte) {
			var counts []int
			if err := json.Unmarshal(line, &counts); err != nil {
				fatal("bad case %s: %v", line, err)
			}
			for rep := 0; rep < reps; rep++ {
				for _, f := range []ff.PLYFormat{ff.PLYFormatASCII, ff.PLYFormatBinaryLittle, ff.PLYFormatBinaryBig} {
					id++
					rec := plyTrace(id, counts, f, rng.Intn(4), rng)
					out.write(rec)
					stats["events"] += len(rec.Ev)
					total := 0
					for _, c := range counts {
						total += c
					}
					if total > 0 {
						stats["nonempty"]++
					}
				}
			}
			if len(counts) == 1 {
				id++
				rec := stlTrace(id, counts[0], rng)
				out.write(rec)
				stats["events"] += len(rec.Ev)
			}
		})
		stats["records"] = id
		writeJSONFile(a.str("stats", "stats.json"), stats)
	})
}
