package main

// C10: chains of real mesh-processing operations (spec/mesh/OpsGen.tla) on a palette of closed
// oriented manifolds; each step's result is recorded as an abstract complex for SurgeryJudge.tla.

import (
	"encoding/json"
	"math"
	"sort"
	"time"

	"github.com/unixpickle/model3d/model2d"
	"github.com/unixpickle/model3d/model3d"
	"github.com/unixpickle/model3d/toolbox3d"
)

type opStep struct {
	Op       string  `json:"op"`
	Outcome  string  `json:"outcome"`
	Panic    string  `json:"panic"`
	F        [][]int `json:"F"`
	NewVerts int     `json:"newverts"`
	KeepOK   bool    `json:"keepok"`
	ExactOK  bool    `json:"exactok"`
	RuleOK   bool    `json:"ruleok"`
	Merged   bool    `json:"merged"`
	Note     string  `json:"note,omitempty"`
}
type opRec struct {
	ID     int      `json:"id"`
	Dim    int      `json:"dim"`
	Mesh   string   `json:"mesh"`
	Ops    []string `json:"ops"`
	Euler0 int      `json:"euler0"`
	Comps0 int      `json:"comps0"`
	Steps  []opStep `json:"steps"`
}

func opsVoxelMesh(cells [][3]int) *model3d.Mesh {
	rs := toolbox3d.NewRectSet()
	for _, c := range cells {
		lo := model3d.XYZ(float64(c[0]), float64(c[1]), float64(c[2]))
		rs.Add(&model3d.Rect{MinVal: lo, MaxVal: lo.Add(model3d.Ones(1))})
	}
	return rs.ExactMesh()
}

func mesh3(name string) (*model3d.Mesh, int, int) {
	switch name {
	case "box":
		return model3d.NewMeshRect(model3d.XYZ(0, 0, 0), model3d.XYZ(2, 3, 4)), 2, 1
	case "boxsub":
		return model3d.SubdivideEdges(model3d.NewMeshRect(model3d.XYZ(0, 0, 0), model3d.XYZ(2, 2, 4)), 2), 2, 1
	case "voxL":
		return opsVoxelMesh([][3]int{{0, 0, 0}, {1, 0, 0}, {0, 1, 0}}), 2, 1
	case "voxStairs":
		return opsVoxelMesh([][3]int{{0, 0, 0}, {1, 0, 0}, {2, 0, 0}, {1, 0, 1}, {2, 0, 1}, {2, 0, 2}, {0, 1, 0}}), 2, 1
	case "icofine":
		return model3d.NewMeshIcosphere(model3d.XYZ(0.5, 0.25, 0), 2, 4), 2, 1 // (320 faces: below the size limit of the chains)
	case "ico":
		return model3d.NewMeshIcosphere(model3d.XYZ(1, 2, 3), 2, 1), 2, 1
	case "torus":
		return model3d.NewMeshTorus(model3d.XYZ(0, 0, 0), model3d.Z(1), 0.5, 2, 5, 8), 0, 1
	case "two":
		m := model3d.NewMeshRect(model3d.XYZ(0, 0, 0), model3d.XYZ(1, 1, 1))
		m.AddMesh(model3d.SubdivideEdges(model3d.NewMeshRect(model3d.XYZ(3, 0, 0), model3d.XYZ(5, 2, 2)), 2))
		return m, 4, 2
	case "thin":
		return model3d.SubdivideEdges(model3d.NewMeshRect(model3d.XYZ(0, 0, 0), model3d.XYZ(4, 4, 0.125)), 2), 2, 1
	case "thinElim":
		// the thin box after coplanar elimination: opposite vertices of some edges are already connected
		m, e, k := mesh3("thin")
		return m.EliminateCoplanar(1e-8), e, k
	case "prismcap7", "prismcap", "prismcap40":
		// a prism over an irregular polygon inscribed in a circle, caps triangulated as fans: every pair of
		// adjacent cap triangles forms a cocircular quadrilateral (an exact tie for the Delaunay criterion,
		// up to rounding of the computed angles)
		n := map[string]int{"prismcap7": 7, "prismcap": 12, "prismcap40": 40}[name]
		pt := func(i int, z float64) model3d.Coord3D {
			i %= n
			a := 2 * math.Pi * (float64(i) + 0.35*math.Sin(float64(i)*1.7+0.3)) / float64(n)
			return model3d.XYZ(1.3*math.Cos(a), 1.3*math.Sin(a), z)
		}
		m := model3d.NewMesh()
		for i := 1; i+1 < n; i++ {
			m.Add(&model3d.Triangle{pt(0, 0.7), pt(i, 0.7), pt(i+1, 0.7)})
			m.Add(&model3d.Triangle{pt(0, 0), pt(i+1, 0), pt(i, 0)})
		}
		for i := 0; i < n; i++ {
			m.Add(&model3d.Triangle{pt(i, 0), pt(i+1, 0), pt(i+1, 0.7)})
			m.Add(&model3d.Triangle{pt(i, 0), pt(i+1, 0.7), pt(i, 0.7)})
		}
		return m, 2, 1
	case "octa":
		m := model3d.NewMesh()
		v := []model3d.Coord3D{{X: 2}, {X: -2}, {Y: 2}, {Y: -2}, {Z: 2}, {Z: -2}}
		for _, f := range [][3]int{{1, 3, 5}, {3, 2, 5}, {2, 4, 5}, {4, 1, 5}, {3, 1, 6}, {2, 3, 6}, {4, 2, 6}, {1, 4, 6}} {
			m.Add(&model3d.Triangle{v[f[0]-1], v[f[1]-1], v[f[2]-1]})
		}
		return m, 2, 1
	}
	fatal("unknown mesh %q", name)
	return nil, 0, 0
}

func vol6(m *model3d.Mesh) float64 {
	s := 0.0
	m.Iterate(func(t *model3d.Triangle) { s += t[0].Dot(t[1].Cross(t[2])) })
	return s
}

func roundKey(c model3d.Coord3D) [3]int64 {
	return [3]int64{int64(math.Round(c.X * 1e8)), int64(math.Round(c.Y * 1e8)), int64(math.Round(c.Z * 1e8))}
}

// sameVertexSet: the vertices of m are the points of want (repetitions in want allowed), each to within 1e-8.
// Decided by distance, not by comparing rounded coordinates: the library and the reference add the same numbers
// in different orders (map iteration), and a coordinate such as 0.035546875 sits exactly on a rounding boundary of
// the 1e-8 grid, where a difference in the last bit used to flip the verdict.
func sameVertexSet(m *model3d.Mesh, want []model3d.Coord3D) bool {
	const tol = 1e-8
	// candidates by grid cell of 4 * tol; a point within tol lies in the same or an adjacent cell
	cell := func(c model3d.Coord3D) [3]int64 {
		return [3]int64{int64(math.Floor(c.X / (4 * tol))), int64(math.Floor(c.Y / (4 * tol))), int64(math.Floor(c.Z / (4 * tol)))}
	}
	near := func(grid map[[3]int64][]model3d.Coord3D, c model3d.Coord3D) bool {
		k := cell(c)
		for dx := int64(-1); dx <= 1; dx++ {
			for dy := int64(-1); dy <= 1; dy++ {
				for dz := int64(-1); dz <= 1; dz++ {
					for _, p := range grid[[3]int64{k[0] + dx, k[1] + dy, k[2] + dz}] {
						if p.Dist(c) <= tol {
							return true
						}
					}
				}
			}
		}
		return false
	}
	for _, c := range want {
		if math.IsNaN(c.X+c.Y+c.Z) || math.IsInf(c.X+c.Y+c.Z, 0) {
			return false
		}
	}
	have := m.VertexSlice()
	hg := map[[3]int64][]model3d.Coord3D{}
	for _, v := range have {
		if math.IsNaN(v.X+v.Y+v.Z) || math.IsInf(v.X+v.Y+v.Z, 0) {
			return false
		}
		hg[cell(v)] = append(hg[cell(v)], v)
	}
	wg, dg := map[[3]int64][]model3d.Coord3D{}, map[[3]int64][]model3d.Coord3D{}
	distinct := 0
	for _, w := range want {
		if !near(dg, w) { // repetitions of a wanted point count once
			distinct++
			dg[cell(w)] = append(dg[cell(w)], w)
		}
		wg[cell(w)] = append(wg[cell(w)], w)
		if !near(hg, w) {
			return false
		}
	}
	for _, v := range have {
		if !near(wg, v) {
			return false
		}
	}
	return distinct == len(have)
}

func neighbours(m *model3d.Mesh, v model3d.Coord3D) []model3d.Coord3D {
	seen := map[model3d.Coord3D]bool{}
	var res []model3d.Coord3D
	for _, t := range m.Find(v) {
		for _, p := range t {
			if p != v && !seen[p] {
				seen[p] = true
				res = append(res, p)
			}
		}
	}
	return res
}

// apply3 runs one operation; rule / exact / keep results are filled in for the operations
// that document them (true otherwise)
func apply3(op string, in *model3d.Mesh, first bool) (out *model3d.Mesh, st opStep) {
	st = opStep{Op: op, KeepOK: true, ExactOK: true, RuleOK: true, F: [][]int{}}
	protectedX := func(c model3d.Coord3D) bool { return c.X == 0 } // vertices on the plane x = 0 are kept
	decimating := false
	exact := false
	st.Outcome, st.Panic = withDeadline(60*time.Second, func() {
		switch op {
		case "DecimateSimple":
			out, decimating = model3d.DecimateSimple(in, 0.02), true
		case "Decimator":
			d := &model3d.Decimator{PlaneDistance: 0.05, BoundaryDistance: 0.05, EliminateCorners: true,
				FilterFunc: func(c model3d.Coord3D) bool { return !protectedX(c) }}
			// the documented options in turn: how many ways of splitting a loop are tried, the feature angle
			switch in.NumTriangles() % 3 {
			case 1:
				d.SplitAttempts = 3
			case 2:
				d.SplitAttempts = 2
				d.FeatureAngle = 0.3
			}
			out, decimating = d.Decimate(in), true
		case "ElimCoplanar":
			out, decimating, exact = in.EliminateCoplanar(1e-8), true, true
		case "ElimCoplanarFiltered":
			out = in.EliminateCoplanarFiltered(1e-8, func(c model3d.Coord3D) bool { return !protectedX(c) })
			decimating, exact = true, true
		case "ElimEdgesShort":
			out = in.EliminateEdges(func(tmp *model3d.Mesh, s model3d.Segment) bool { return s.Length() < 1.2 })
		case "ElimEdgesAll":
			out = in.EliminateEdges(func(tmp *model3d.Mesh, s model3d.Segment) bool { return true })
		case "FlipDelaunay":
			out, decimating = in.FlipDelaunay(), true
		case "SubdivideEdges2":
			out, exact = model3d.SubdivideEdges(in, 2), true
			var want []model3d.Coord3D
			want = append(want, in.VertexSlice()...)
			in.Iterate(func(t *model3d.Triangle) {
				for i := 0; i < 3; i++ {
					want = append(want, t[i].Mid(t[(i+1)%3]))
				}
			})
			st.RuleOK = sameVertexSet(out, want)
		case "SubdivideEdges3":
			// (not a power of two: the points along an edge are computed from either end)
			if in.NumTriangles() > 130 {
				out = model3d.SubdivideEdges(in, 1)
			} else {
				out = model3d.SubdivideEdges(in, 3)
			}
		case "Loop":
			out = model3d.LoopSubdivision(in, 1)
			var want []model3d.Coord3D
			for _, v := range in.VertexSlice() {
				nb := neighbours(in, v)
				n := float64(len(nb))
				beta := 3.0 / (8 * n)
				if len(nb) == 3 {
					beta = 3.0 / 16
				}
				sum := model3d.Coord3D{}
				for _, p := range nb {
					sum = sum.Add(p)
				}
				want = append(want, v.Scale(1-n*beta).Add(sum.Scale(beta)))
			}
			seen := map[model3d.Segment]bool{}
			in.Iterate(func(t *model3d.Triangle) {
				for i := 0; i < 3; i++ {
					a, b := t[i], t[(i+1)%3]
					sg := model3d.NewSegment(a, b)
					if seen[sg] {
						continue
					}
					seen[sg] = true
					opp := model3d.Coord3D{}
					for _, u := range in.Find(a, b) {
						for _, p := range u {
							if p != a && p != b {
								opp = opp.Add(p)
							}
						}
					}
					want = append(want, a.Add(b).Scale(3.0/8).Add(opp.Scale(1.0/8)))
				}
			})
			st.RuleOK = sameVertexSet(out, want)
		case "Subdivider":
			out = in.Copy()
			sub := model3d.NewSubdivider()
			sub.AddFiltered(out, func(p1, p2 model3d.Coord3D) bool { return p1.Dist(p2) > 1.5 })
			sub.Subdivide(out, func(p1, p2 model3d.Coord3D) model3d.Coord3D { return p1.Mid(p2) })
			exact = true
		case "SubdividerWild":
			// an arbitrary (but symmetric) midpoint function: the new vertex is displaced by up to an
			// edge length in a direction derived from the edge - the complex must stay oriented
			out = in.Copy()
			sub := model3d.NewSubdivider()
			sub.AddFiltered(out, func(p1, p2 model3d.Coord3D) bool { return p1.Dist(p2) > 1.5 })
			sub.Subdivide(out, func(p1, p2 model3d.Coord3D) model3d.Coord3D {
				m := p1.Mid(p2)
				h := math.Sin(m.X*12.9898+m.Y*78.233+m.Z*37.719) * 43758.5453
				h -= math.Floor(h)
				dir := model3d.XYZ(math.Cos(7*h), math.Sin(11*h), math.Cos(13*h+1))
				return m.Add(dir.Scale(0.9 * p1.Dist(p2)))
			})
		case "ARAPSeq":
			// SeqDeformer reused for a second constraint set of the same size in which one constrained
			// vertex is swapped for a free one; both results must be the translated mesh
			a := model3d.NewARAP(in)
			vs := in.VertexSlice()
			sort.Slice(vs, func(i, j int) bool {
				if vs[i].X != vs[j].X {
					return vs[i].X < vs[j].X
				}
				if vs[i].Y != vs[j].Y {
					return vs[i].Y < vs[j].Y
				}
				return vs[i].Z < vs[j].Z
			})
			shift := model3d.XYZ(1, -2, 0.5)
			want := make([]model3d.Coord3D, len(vs))
			for i, v := range vs {
				want[i] = v.Add(shift)
			}
			step := 1 + len(vs)/6
			tried := 0
			for swapIn := 1; swapIn < len(vs) && tried < 14; swapIn++ {
				if swapIn%step == 0 {
					continue // already constrained
				}
				tried++
				deform := a.SeqDeformer(true)
				c1 := model3d.ARAPConstraints{}
				for i := 0; i < len(vs); i += step {
					c1[vs[i]] = want[i]
				}
				r1 := deform(c1)
				c2 := model3d.ARAPConstraints{}
				for i := step; i < len(vs); i += step {
					c2[vs[i]] = want[i]
				}
				c2[vs[swapIn]] = want[swapIn]
				// a component without any constraint has no determined position (the linear system is singular there and
				// the result is NaN): such constraint sets are not valid inputs.  Which vertices fall on the constrained
				// indices depends on the order of nearly equal coordinates, i.e. on rounding noise of earlier steps.
				if !constraintsCoverComponents(in, c1) || !constraintsCoverComponents(in, c2) {
					continue
				}
				r2 := deform(c2)
				out = r2
				for k, r := range []*model3d.Mesh{r1, r2} {
					have := map[model3d.Coord3D]bool{}
					for _, v := range r.VertexSlice() {
						have[v] = true
					}
					cons := c1
					if k == 1 {
						cons = c2
					}
					for _, dst := range cons {
						if !have[dst] {
							st.RuleOK = false
							st.Note = "constraint not met exactly by the sequential deformer"
						}
					}
					if first && !sameVertexSet(r, want) {
						// tolerance of sameVertexSet is 1e-8; the motion is a translation, which the
						// initial guess already solves
						worst := 0.0
						for _, v := range r.VertexSlice() {
							best := math.Inf(1)
							for _, w := range want {
								if d := v.Dist(w); d < best {
									best = d
								}
							}
							if best > worst {
								worst = best
							}
						}
						if worst > 1e-5 {
							st.RuleOK = false
							st.Note += " translation not reproduced by the sequential deformer"
						}
					}
				}
			}
		case "Blur05":
			out = in.Blur(0.5)
		case "Blur0":
			out, exact = in.Blur(0), true
			st.RuleOK = sameVertexSet(out, in.VertexSlice()) && out.NumTriangles() == in.NumTriangles()
		case "Blur1":
			out = in.Blur(1)
			var want []model3d.Coord3D
			for _, v := range in.VertexSlice() {
				nb := neighbours(in, v)
				sum := model3d.Coord3D{}
				for _, p := range nb {
					sum = sum.Add(p)
				}
				want = append(want, sum.Scale(1/float64(len(nb))))
			}
			st.RuleOK = sameVertexSet(out, want)
		// ---- BlurFiltered: vertices on the plane x = 0 are neighbours of nothing (symmetric filter): they must stay,
		// the others average their unprotected neighbours; the neighbour lists are fixed over the iterations
		case "BlurFiltered":
			f := func(c1, c2 model3d.Coord3D) bool { return !protectedX(c1) && !protectedX(c2) }
			rates := []float64{1, 0.5}
			out = in.BlurFiltered(f, rates...)
			st.RuleOK = sameVertexSet(out, blurRef3(in, f, rates))
			st.KeepOK = keptInPlace3(in, out, protectedX)
		case "BlurNeg1": // documented: rate -1 averages every point together with its neighbours
			out = in.Blur(-1)
			st.RuleOK = sameVertexSet(out, blurRef3(in, nil, []float64{-1}))
		// ----
		case "SmoothAreas":
			out = in.SmoothAreas(0.05, 3)
		case "MeshSmoother":
			out = (&model3d.MeshSmoother{StepSize: 0.1, Iterations: 5}).Smooth(in)
		case "VoxelSmoother":
			out = (&model3d.VoxelSmoother{StepSize: 0.1, Iterations: 5}).Smooth(in)
		case "FlattenBase":
			out = in.FlattenBase(0)
		case "ARAP", "ARAPAbs", "ARAPUniform", "ARAPMixed":
			a := model3d.NewARAP(in)
			// ---- other weighting schemes (NewARAPWeighted), started from the Laplace guess
			switch op {
			case "ARAPAbs":
				a = model3d.NewARAPWeighted(in, model3d.ARAPWeightingAbsCotangent, model3d.ARAPWeightingAbsCotangent)
			case "ARAPUniform":
				a = model3d.NewARAPWeighted(in, model3d.ARAPWeightingUniform, model3d.ARAPWeightingUniform)
			case "ARAPMixed":
				// different schemes for the linear solves and for the rotations
				pairs := [][2]model3d.ARAPWeightingScheme{
					{model3d.ARAPWeightingUniform, model3d.ARAPWeightingCotangent},
					{model3d.ARAPWeightingAbsCotangent, model3d.ARAPWeightingUniform},
					{model3d.ARAPWeightingUniform, model3d.ARAPWeightingAbsCotangent},
					{model3d.ARAPWeightingCotangent, model3d.ARAPWeightingUniform},
				}
				pr := pairs[in.NumTriangles()%len(pairs)]
				a = model3d.NewARAPWeighted(in, pr[0], pr[1])
			}
			// ----
			vs := in.VertexSlice()
			sort.Slice(vs, func(i, j int) bool {
				if vs[i].X != vs[j].X {
					return vs[i].X < vs[j].X
				}
				if vs[i].Y != vs[j].Y {
					return vs[i].Y < vs[j].Y
				}
				return vs[i].Z < vs[j].Z
			})
			// a rigid motion as the constraint set: quarter turn about z plus a translation
			move := func(c model3d.Coord3D) model3d.Coord3D { return model3d.XYZ(-c.Y+1, c.X+2, c.Z-3) }
			if op == "ARAPMixed" {
				// with different schemes the iteration need not find its way from the Laplace guess to a turned
				// copy (measured: it often does not); a translated copy IS the Laplace guess, and it is a fixed
				// point of the iteration for any pair of schemes
				move = func(c model3d.Coord3D) model3d.Coord3D { return model3d.XYZ(c.X+1, c.Y+2, c.Z-3) }
			}
			cons := model3d.ARAPConstraints{}
			// four constraints per connected component (a rigid motion is determined by them)
			comp := map[model3d.Coord3D]int{}
			ncomp := 0
			for _, v := range vs {
				if _, ok := comp[v]; ok {
					continue
				}
				ncomp++
				queue := []model3d.Coord3D{v}
				comp[v] = ncomp
				for len(queue) > 0 {
					x := queue[0]
					queue = queue[1:]
					for _, y := range neighbours(in, x) {
						if _, ok := comp[y]; !ok {
							comp[y] = ncomp
							queue = append(queue, y)
						}
					}
				}
			}
			// well spread constraints: per component the lexicographic quartiles and the extremes in z
			byComp := map[int][]model3d.Coord3D{}
			for _, v := range vs {
				byComp[comp[v]] = append(byComp[comp[v]], v)
			}
			for _, cv := range byComp {
				n := len(cv)
				for _, i := range []int{0, n / 3, (2 * n) / 3, n - 1} {
					cons[cv[i]] = move(cv[i])
				}
				lo, hi := cv[0], cv[0]
				for _, v := range cv {
					if v.Z < lo.Z || (v.Z == lo.Z && v.Y > lo.Y) {
						lo = v
					}
					if v.Z > hi.Z || (v.Z == hi.Z && v.Y < hi.Y) {
						hi = v
					}
				}
				cons[lo], cons[hi] = move(lo), move(hi)
			}
			var guess map[model3d.Coord3D]model3d.Coord3D
			if op != "ARAP" { // ---- Laplace: "can be used to generate an initial guess"; it maps every old coordinate
				guess = a.Laplace(cons)
				for src, dst := range cons {
					if guess[src] != dst {
						st.RuleOK = false
						st.Note = "Laplace: constraint not met exactly"
					}
				}
				if len(guess) != len(vs) {
					st.RuleOK = false
					st.Note += " Laplace: not every coordinate mapped"
				}
			}
			mapping := a.DeformMap(cons, guess)
			out = in.MapCoords(func(c model3d.Coord3D) model3d.Coord3D { return mapping[c] })
			for src, dst := range cons {
				if mapping[src] != dst {
					st.RuleOK = false
					st.Note = "constraint not met exactly"
				}
			}
			for _, v := range vs {
				// reproduction of the rigid motion is an iterative, conditioning-dependent result:
				// only asked of the (well-shaped) palette meshes, not of meshes mid-chain
				if first && mapping[v].Dist(move(v)) > 1e-5 {
					st.RuleOK = false
					st.Note += " rigid motion not reproduced"
					break
				}
			}
		default:
			fatal("unknown op %q", op)
		}
	})
	if st.Outcome != "ok" {
		return nil, st
	}
	if out == nil {
		out = in.Copy() // an operation that had nothing to do
	}
	if decimating {
		inV := map[model3d.Coord3D]bool{}
		for _, v := range in.VertexSlice() {
			inV[v] = true
		}
		for _, v := range out.VertexSlice() {
			if !inV[v] {
				st.NewVerts++
			}
		}
	}
	if op == "ElimCoplanarFiltered" || op == "Decimator" {
		outV := map[model3d.Coord3D]bool{}
		for _, v := range out.VertexSlice() {
			outV[v] = true
		}
		for _, v := range in.VertexSlice() {
			if protectedX(v) && !outV[v] {
				st.KeepOK = false
			}
		}
	}
	switch op {
	case "Blur05", "Blur0", "Blur1", "SmoothAreas", "MeshSmoother", "VoxelSmoother", "FlattenBase", "ARAP", "ARAPSeq",
		"BlurFiltered", "BlurNeg1", "ARAPAbs", "ARAPUniform", "ARAPMixed":
		// these move vertices and keep the face structure; if two vertices land on (nearly) the same
		// coordinates the result is connected differently by construction - not decided
		st.Merged = len(out.VertexSlice()) < len(in.VertexSlice()) || minVertexGap3(out) < 1e-9
	}
	if exact && !isLattice3(in) {
		exact = false // tolerance-based elimination on arbitrary coordinates is only approximately shape-preserving:
		// faces within acos(1 - 1e-8) = 1.4e-4 rad of each other are merged, which moves the surface by far less than a
		// thousandth of the volume or the area on the meshes of the palette
		a, b := vol6(in), vol6(out)
		st.ExactOK = math.Abs(a-b) <= 1e-3*math.Max(1, math.Abs(a)) && math.Abs(in.Area()-out.Area()) <= 1e-3*math.Max(1, in.Area())
	}
	if exact {
		a, b := vol6(in), vol6(out)
		st.ExactOK = math.Abs(a-b) <= 1e-9*math.Max(1, math.Abs(a)) && math.Abs(in.Area()-out.Area()) <= 1e-9*math.Max(1, in.Area())
	}
	return out, st
}

// constraintsCoverComponents: every connected component of m has at least one constrained vertex
func constraintsCoverComponents(m *model3d.Mesh, cons model3d.ARAPConstraints) bool {
	seen := map[model3d.Coord3D]bool{}
	for _, v := range m.VertexSlice() {
		if seen[v] {
			continue
		}
		covered := false
		queue := []model3d.Coord3D{v}
		seen[v] = true
		for len(queue) > 0 {
			x := queue[0]
			queue = queue[1:]
			if _, ok := cons[x]; ok {
				covered = true
			}
			for _, y := range neighbours(m, x) {
				if !seen[y] {
					seen[y] = true
					queue = append(queue, y)
				}
			}
		}
		if !covered {
			return false
		}
	}
	return true
}

// blurRef3: the documented blur rule with the neighbour relation fixed by the initial coordinates
func blurRef3(in *model3d.Mesh, f func(c1, c2 model3d.Coord3D) bool, rates []float64) []model3d.Coord3D {
	vs := in.VertexSlice()
	idx := map[model3d.Coord3D]int{}
	for i, v := range vs {
		idx[v] = i
	}
	nbs := make([][]int, len(vs))
	for i, v := range vs {
		for _, p := range neighbours(in, v) {
			if f == nil || f(v, p) {
				nbs[i] = append(nbs[i], idx[p])
			}
		}
	}
	cur := append([]model3d.Coord3D{}, vs...)
	for _, rate := range rates {
		next := make([]model3d.Coord3D, len(cur))
		for i, c := range cur {
			if len(nbs[i]) == 0 {
				next[i] = c
				continue
			}
			sum := model3d.Coord3D{}
			for _, j := range nbs[i] {
				sum = sum.Add(cur[j])
			}
			if rate == -1 {
				next[i] = sum.Add(c).Scale(1 / float64(len(nbs[i])+1))
			} else {
				next[i] = sum.Scale(rate / float64(len(nbs[i]))).Add(c.Scale(1 - rate))
			}
		}
		cur = next
	}
	return cur
}

// keptInPlace3: every protected vertex of in is still a vertex of out
func keptInPlace3(in, out *model3d.Mesh, protected func(model3d.Coord3D) bool) bool {
	have := map[model3d.Coord3D]bool{}
	for _, v := range out.VertexSlice() {
		have[v] = true
	}
	for _, v := range in.VertexSlice() {
		if protected(v) && !have[v] {
			return false
		}
	}
	return true
}

func isLattice3(m *model3d.Mesh) bool {
	for _, v := range m.VertexSlice() {
		for _, x := range v.Array() {
			if x*64 != math.Round(x*64) {
				return false
			}
		}
	}
	return true
}

func minVertexGap3(m *model3d.Mesh) float64 {
	vs := m.VertexSlice()
	best := math.Inf(1)
	for i := range vs {
		for j := i + 1; j < len(vs); j++ {
			if d := vs[i].Dist(vs[j]); d < best {
				best = d
			}
		}
	}
	return best
}

func complex3(m *model3d.Mesh, names map[model3d.Coord3D]int) [][]int {
	res := [][]int{}
	tris := m.TriangleSlice()
	for _, t := range tris {
		f := []int{0, 0, 0}
		for k, c := range t {
			if _, ok := names[c]; !ok {
				names[c] = len(names) + 1
			}
			f[k] = names[c]
		}
		res = append(res, f)
	}
	sort.Slice(res, func(i, j int) bool {
		for k := 0; k < 3; k++ {
			if res[i][k] != res[j][k] {
				return res[i][k] < res[j][k]
			}
		}
		return false
	})
	return res
}

// ---------------------------------------------------------------- 2-D

func mesh2(name string) (*model2d.Mesh, int, int) {
	switch name {
	case "rect":
		return model2d.NewMeshRect(model2d.XY(0, 0), model2d.XY(3, 2)), 0, 1
	case "rectsub":
		m := model2d.NewMesh()
		pts := []model2d.Coord{{X: 0, Y: 0}, {X: 0, Y: 3}, {X: 3, Y: 3}, {X: 3, Y: 0}, {X: 2, Y: 0}, {X: 1, Y: 0}}
		for i := range pts {
			m.Add(&model2d.Segment{pts[i], pts[(i+1)%len(pts)]})
		}
		return m, 0, 1
	case "pixelL":
		bmp := model2d.NewBitmap(4, 4)
		for _, p := range [][2]int{{1, 1}, {2, 1}, {1, 2}} {
			bmp.Set(p[0], p[1], true)
		}
		return bmp.Mesh(), 0, 1
	case "pixelHole":
		bmp := model2d.NewBitmap(5, 5)
		for x := 1; x <= 3; x++ {
			for y := 1; y <= 3; y++ {
				bmp.Set(x, y, x != 2 || y != 2)
			}
		}
		return bmp.Mesh(), 0, 2
	case "circle":
		m := model2d.NewMesh()
		n := 12
		for i := 0; i < n; i++ {
			a0, a1 := 2*math.Pi*float64(i)/float64(n), 2*math.Pi*float64(i+1)/float64(n)
			if i == n-1 {
				a1 = 0
			}
			// clockwise
			m.Add(&model2d.Segment{model2d.XY(math.Cos(-a0), math.Sin(-a0)), model2d.XY(math.Cos(-a1), math.Sin(-a1))})
		}
		return m, 0, 1
	case "two":
		m := model2d.NewMeshRect(model2d.XY(0, 0), model2d.XY(1, 1))
		m.AddMesh(model2d.NewMeshRect(model2d.XY(3, 0), model2d.XY(5, 2)))
		return m, 0, 2
	case "speck":
		// a dodecagon with a tiny square beside it: the square's vertices have the smallest areas
		m, _, _ := mesh2("circle")
		m.AddMesh(model2d.NewMeshRect(model2d.XY(2, 0), model2d.XY(2.01, 0.01)))
		return m, 0, 2
	case "circle200":
		// finely sampled: the turning angle per vertex is 2*pi/200 = 0.0314
		m := model2d.NewMesh()
		n := 200
		pt := func(i int) model2d.Coord {
			a := -2 * math.Pi * float64(i%n) / float64(n)
			return model2d.XY(3*math.Cos(a), 3*math.Sin(a))
		}
		for i := 0; i < n; i++ {
			m.Add(&model2d.Segment{pt(i), pt(i + 1)})
		}
		return m, 0, 1
	}
	fatal("unknown 2-D mesh %q", name)
	return nil, 0, 0
}

func area2d(m *model2d.Mesh) float64 {
	s := 0.0
	m.Iterate(func(sg *model2d.Segment) { s += sg[0].X*sg[1].Y - sg[1].X*sg[0].Y })
	return s
}

func apply2(op string, in *model2d.Mesh) (out *model2d.Mesh, st opStep) {
	st = opStep{Op: op, KeepOK: true, ExactOK: true, RuleOK: true, F: [][]int{}}
	decimating, exact := false, false
	st.Outcome, st.Panic = withDeadline(20*time.Second, func() {
		switch op {
		case "Decimate":
			out, decimating = in.Decimate(in.NumSegments()-1), true
		case "DecimateTo3", "DecimateTo1":
			// down to a budget that some component cannot meet: it stays a triangle
			out, decimating = in.Decimate(map[string]int{"DecimateTo3": 3, "DecimateTo1": 1}[op]), true
		case "EliminateColinear":
			out, decimating, exact = in.EliminateColinear(1e-8), true, true
		case "EliminateColinearTol":
			// a tolerance between one and two turning steps of the finely sampled circle
			out, decimating = in.EliminateColinear(0.05), true
		case "Subdivide", "SubdividePath":
			out = in.Subdivide(1)
			if op == "SubdividePath" { // ---- "like Subdivide" for meshes that may include open paths; closed curves here
				out = in.SubdividePath(1)
			}
			// corner cutting: every new vertex is 3/4 - 1/4 along an input segment
			var want []model2d.Coord
			in.Iterate(func(s *model2d.Segment) {
				want = append(want, s[0].Scale(0.75).Add(s[1].Scale(0.25)), s[1].Scale(0.75).Add(s[0].Scale(0.25)))
			})
			vs := out.VertexSlice()
			near := func(p model2d.Coord, set []model2d.Coord) bool {
				for _, q := range set {
					if p.Dist(q) < 1e-9 {
						return true
					}
				}
				return false
			}
			for _, v := range vs {
				if !near(v, want) {
					st.RuleOK = false
				}
			}
			for _, w := range want {
				if !near(w, vs) {
					st.RuleOK = false
				}
			}
		case "Smooth":
			out = in.Smooth(3)
		case "SmoothSq":
			out = in.SmoothSq(3)
		case "Blur05":
			out = in.Blur(0.5)
		case "Blur0":
			out, exact = in.Blur(0), true
		case "Invert":
			out = in.Invert().Invert()
			exact = true
		default:
			fatal("unknown 2-D op %q", op)
		}
	})
	if st.Outcome != "ok" {
		return nil, st
	}
	if decimating {
		inV := map[model2d.Coord]bool{}
		for _, v := range in.VertexSlice() {
			inV[v] = true
		}
		for _, v := range out.VertexSlice() {
			if !inV[v] {
				st.NewVerts++
			}
		}
	}
	switch op {
	case "Smooth", "SmoothSq", "Blur05", "Blur0":
		vs := out.VertexSlice()
		st.Merged = len(vs) < len(in.VertexSlice())
		for i := range vs {
			for j := i + 1; j < len(vs); j++ {
				if vs[i].Dist(vs[j]) < 1e-9 {
					st.Merged = true
				}
			}
		}
	}
	if exact {
		for _, v := range in.VertexSlice() {
			if v.X*64 != math.Round(v.X*64) || v.Y*64 != math.Round(v.Y*64) {
				exact = false
			}
		}
	}
	if exact {
		st.ExactOK = math.Abs(area2d(in)-area2d(out)) < 1e-9
	}
	return out, st
}

func complex2(m *model2d.Mesh, names map[model2d.Coord]int) [][]int {
	res := [][]int{}
	for _, s := range m.SegmentsSlice() {
		f := []int{0, 0}
		for k, c := range s {
			if _, ok := names[c]; !ok {
				names[c] = len(names) + 1
			}
			f[k] = names[c]
		}
		res = append(res, f)
	}
	sort.Slice(res, func(i, j int) bool {
		if res[i][0] != res[j][0] {
			return res[i][0] < res[j][0]
		}
		return res[i][1] < res[j][1]
	})
	return res
}

func init() {
	register("c10-ops", func(a args) {
		out := newNDWriter(a.str("out", "records.ndjson"))
		defer out.close()
		stats := map[string]int{}
		id := 0
		dim := a.int("dim", 3)
		hangs := 0
		readNDJSON(a.str("in", "cases.ndjson"), func(line []byte) {
			var c struct {
				Mesh string   `json:"mesh"`
				Ops  []string `json:"ops"`
			}
			if err := json.Unmarshal(line, &c); err != nil {
				fatal("bad case: %v", err)
			}
			if hangs >= 8 {
				stats["skipped-after-hangs"]++
				return
			}
			id++
			rec := opRec{ID: id, Dim: dim, Mesh: c.Mesh, Ops: c.Ops, Steps: []opStep{}}
			if dim == 3 {
				cur, e, k := mesh3(c.Mesh)
				rec.Euler0, rec.Comps0 = e, k
				names := map[model3d.Coord3D]int{}
				for _, op := range c.Ops {
					if cur.NumTriangles() > 400 {
						break // keep the complexes small enough for TLC to judge quickly
					}
					next, st := apply3(op, cur, len(rec.Steps) == 0 && c.Mesh != "thin" && c.Mesh != "thinElim")
					if st.Outcome == "ok" {
						st.F = complex3(next, names)
					}
					rec.Steps = append(rec.Steps, st)
					stats["op:"+op]++
					if st.Outcome != "ok" {
						if st.Outcome == "hang" {
							hangs++
						}
						break
					}
					if !st.RuleOK {
						break // already rejected; a result that breaks its own rule (NaN, wild coordinates) is no input for more operations
					}
					cur = next
				}
			} else {
				cur, e, k := mesh2(c.Mesh)
				rec.Euler0, rec.Comps0 = e, k
				names := map[model2d.Coord]int{}
				for _, op := range c.Ops {
					next, st := apply2(op, cur)
					if st.Outcome == "ok" {
						st.F = complex2(next, names)
					}
					rec.Steps = append(rec.Steps, st)
					stats["op:"+op]++
					if st.Outcome != "ok" {
						if st.Outcome == "hang" {
							hangs++
						}
						break
					}
					cur = next
				}
			}
			out.write(rec)
			stats["records"]++
		})
		writeJSONFile(a.str("stats", "stats.json"), stats)
	})
}
