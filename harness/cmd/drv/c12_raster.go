package main

// C12 (raster): RasterizeSolid vs RasterizeSolidFilter under conservative filters and
// RasterizeColliderSolid, on rectangle-union solids with anisotropic pixel sizes.

import (
	"image"
	"math/rand"

	"github.com/unixpickle/model3d/model2d"
)

type rasterRec struct {
	ID    int      `json:"id"`
	Site  string   `json:"site"`
	W     int      `json:"w"`
	H     int      `json:"h"`
	Aniso bool     `json:"aniso"`
	Diffs []int    `json:"diffs"`
	Names []string `json:"names"`
	Panic string   `json:"panic"`
}

func imgDiff(a, b *image.Gray) int {
	if a.Bounds() != b.Bounds() {
		return -1
	}
	n := 0
	for i := range a.Pix {
		if a.Pix[i] != b.Pix[i] {
			n++
		}
	}
	return n
}

func init() {
	register("c12-raster", func(a args) {
		rng := rand.New(rand.NewSource(int64(a.int("seed", 1))))
		out := newNDWriter(a.str("out", "records.ndjson"))
		defer out.close()
		stats := map[string]int{}
		for id := 1; id <= a.int("n", 40); id++ {
			rec := rasterRec{ID: id, Site: "Rasterizer", Diffs: []int{}, Names: []string{}}
			// a union of rectangles inside bounds whose scaled extents are not integers
			bw := 3 + 4*rng.Float64()
			bh := 3 + 4*rng.Float64()
			if id%4 == 0 {
				bw, bh = 4, 4 // isotropic control
			}
			bounds := model2d.NewRect(model2d.XY(0, 0), model2d.XY(bw, bh))
			var rects []*model2d.Rect
			for k := 0; k < 1+rng.Intn(3); k++ {
				x0, y0 := 0.3+rng.Float64()*(bw-1.5), 0.3+rng.Float64()*(bh-1.5)
				rects = append(rects, model2d.NewRect(model2d.XY(x0, y0), model2d.XY(x0+0.4+rng.Float64(), y0+0.4+rng.Float64()*(bh-y0-0.8))))
			}
			var solid model2d.JoinedSolid
			for _, r := range rects {
				solid = append(solid, r)
			}
			bounded := model2d.ForceSolidBounds(solid, bounds.MinVal, bounds.MaxVal)
			touches := func(q *model2d.Rect) bool {
				// does the closed query rectangle meet the boundary of some rectangle (a superset of
				// the union's boundary)?  conservative by construction
				for _, r := range rects {
					overlap := q.MinVal.X <= r.MaxVal.X && r.MinVal.X <= q.MaxVal.X && q.MinVal.Y <= r.MaxVal.Y && r.MinVal.Y <= q.MaxVal.Y
					inside := r.MinVal.X < q.MinVal.X && q.MaxVal.X < r.MaxVal.X && r.MinVal.Y < q.MinVal.Y && q.MaxVal.Y < r.MaxVal.Y
					if overlap && !inside {
						return true
					}
				}
				return false
			}
			rec.Panic = protect(func() {
				r := &model2d.Rasterizer{Scale: 5 + 20*rng.Float64(), Bounds: bounds}
				base := r.RasterizeSolid(bounded)
				rec.W, rec.H = base.Bounds().Dx(), base.Bounds().Dy()
				pw, ph := bw/float64(rec.W), bh/float64(rec.H)
				rec.Aniso = pw != ph
				variants := map[string]func(*model2d.Rect) bool{
					"always":      func(*model2d.Rect) bool { return true },
					"exact":       touches,
					"exact+extra": func(q *model2d.Rect) bool { return touches(q) || int(q.MinVal.X*7+q.MinVal.Y*13)%3 == 0 },
				}
				for _, name := range []string{"always", "exact", "exact+extra"} {
					rec.Names = append(rec.Names, name)
					rec.Diffs = append(rec.Diffs, imgDiff(base, r.RasterizeSolidFilter(bounded, variants[name])))
				}
				// an outline as a collider: RasterizeColliderSolid applies its own region filter (regions at the
				// right / bottom edge of an image of odd size are not square) and must give the image of the
				// unfiltered rasterisation of the same collider's solid
				quad := model2d.NewMesh()
				pts := []model2d.Coord{
					model2d.XY(0.2+0.3*bw*rng.Float64(), 0.2+0.3*bh*rng.Float64()),
					model2d.XY(0.2+0.3*bw*rng.Float64(), bh-0.2-0.3*bh*rng.Float64()),
					model2d.XY(bw-0.02-0.3*bw*rng.Float64()*float64(id%2), bh-0.2-0.3*bh*rng.Float64()),
					model2d.XY(bw-0.02-0.3*bw*rng.Float64()*float64(id%2), 0.2+0.3*bh*rng.Float64()),
				}
				for i := range pts {
					quad.Add(&model2d.Segment{pts[i], pts[(i+1)%4]})
				}
				coll := model2d.MeshToCollider(quad)
				rec.Names = append(rec.Names, "collider")
				rec.Diffs = append(rec.Diffs, imgDiff(r.RasterizeSolid(model2d.NewColliderSolid(coll)), r.RasterizeColliderSolid(coll)))
				// the same outline as a line drawing, at the scene's own scale and blown up so that one
				// pixel spans many model units (Scale < 1); the line's half width is given in pixels
				lw := 1 + 3*rng.Float64()
				rl := &model2d.Rasterizer{Scale: r.Scale, Bounds: bounds, LineWidth: lw}
				rec.Names = append(rec.Names, "line")
				rec.Diffs = append(rec.Diffs, imgDiff(rl.RasterizeSolid(model2d.NewColliderSolidHollow(coll, 0.5*lw/rl.Scale)), rl.RasterizeCollider(coll)))
				k := 8 + 60*rng.Float64()
				big := quad.Scale(k)
				bigColl := model2d.MeshToCollider(big)
				rb := &model2d.Rasterizer{Scale: r.Scale / k, Bounds: model2d.NewRect(bounds.MinVal.Scale(k), bounds.MaxVal.Scale(k)), LineWidth: lw}
				rec.Names = append(rec.Names, "line-coarse")
				rec.Diffs = append(rec.Diffs, imgDiff(rb.RasterizeSolid(model2d.NewColliderSolidHollow(bigColl, 0.5*lw/rb.Scale)), rb.RasterizeCollider(bigColl)))
			})
			out.write(rec)
			stats["records"]++
			if rec.Aniso {
				stats["nonempty"]++
			}
		}
		writeJSONFile(a.str("stats", "stats.json"), stats)
	})
}
