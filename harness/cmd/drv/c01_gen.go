package main

// C01 (other generators): meshes from the library's parametric generators recorded as
// abstract complexes for spec/mesh/ComplexJudge.tla.  Also the shared complex projection
// used by C10 / C14.

import (
	"fmt"
	"math"
	"math/rand"

	"github.com/unixpickle/model3d/model2d"
	"github.com/unixpickle/model3d/model3d"
	"github.com/unixpickle/model3d/toolbox3d"
)

type exactPair struct {
	Name string `json:"name"`
	Got  int    `json:"got"`
	Want int    `json:"want"`
}

type complexRecord struct {
	Id       int         `json:"id"`
	Site     string      `json:"site"`
	Variant  string      `json:"variant"`
	Panic    string      `json:"panic"`
	Dim      int         `json:"dim"`
	Faces    [][3]int    `json:"faces"`
	NVerts   int         `json:"nverts"`
	Volsign  int         `json:"volsign"`
	Wantsign int         `json:"wantsign"`
	Wantchi  int         `json:"wantchi"`
	Exact    []exactPair `json:"exact"`
}

func sign(x float64) int {
	if x > 1e-12 {
		return 1
	} else if x < -1e-12 {
		return -1
	}
	return 0
}

// signedVolume is the harness's own computation (not the library's Volume()).
func signedVolume(tris []*model3d.Triangle) float64 {
	v := 0.0
	for _, t := range tris {
		a, b, c := t[0], t[1], t[2]
		v += a.X*(b.Y*c.Z-b.Z*c.Y) - a.Y*(b.X*c.Z-b.Z*c.X) + a.Z*(b.X*c.Y-b.Y*c.X)
	}
	return v / 6
}

func signedArea2(segs []*model2d.Segment) float64 {
	a := 0.0
	for _, s := range segs {
		a += s[0].X*s[1].Y - s[1].X*s[0].Y
	}
	return a / 2
}

func complexFromMesh3(rec *complexRecord, m *model3d.Mesh) {
	rec.Dim = 3
	idx := map[model3d.Coord3D]int{}
	tris := m.TriangleSlice()
	for _, t := range tris {
		var f [3]int
		for i, c := range t {
			id, ok := idx[c]
			if !ok {
				id = len(idx) + 1
				idx[c] = id
			}
			f[i] = id
		}
		rec.Faces = append(rec.Faces, f)
	}
	rec.NVerts = len(idx)
	rec.Volsign = sign(signedVolume(tris))
}

func complexFromMesh2(rec *complexRecord, m *model2d.Mesh) {
	rec.Dim = 2
	idx := map[model2d.Coord]int{}
	segs := m.SegmentSlice()
	for _, s := range segs {
		var f [3]int
		for i, c := range s {
			id, ok := idx[c]
			if !ok {
				id = len(idx) + 1
				idx[c] = id
			}
			f[i] = id
		}
		rec.Faces = append(rec.Faces, f)
	}
	rec.NVerts = len(idx)
	// the library's convention: clockwise outlines (negative shoelace area, y up) have
	// outward normals
	rec.Volsign = sign(-signedArea2(segs))
}

type genWriter struct {
	out   *ndWriter
	id    int
	stats map[string]int
}

func (g *genWriter) mesh3(site, variant string, wantchi int, f func() *model3d.Mesh) {
	g.id++
	rec := complexRecord{Id: g.id, Site: site, Variant: variant, Faces: [][3]int{}, Wantsign: 1, Wantchi: wantchi,
		Exact: []exactPair{}}
	rec.Panic = protect(func() { complexFromMesh3(&rec, f()) })
	if rec.Panic == "" && len(rec.Faces) == 0 {
		rec.Wantsign = 0 // an empty set of boxes / pixels has an empty surface
	}
	g.emit(rec)
}

func (g *genWriter) mesh2(site, variant string, f func() *model2d.Mesh) {
	g.id++
	rec := complexRecord{Id: g.id, Site: site, Variant: variant, Faces: [][3]int{}, Wantsign: 1, Wantchi: -99,
		Exact: []exactPair{}}
	rec.Panic = protect(func() { complexFromMesh2(&rec, f()) })
	g.emit(rec)
}

func (g *genWriter) emit(rec complexRecord) {
	g.stats["records"]++
	g.stats["site:"+rec.Site]++
	if len(rec.Faces) > 0 {
		g.stats["nonempty"]++
	}
	g.stats["triangles"] += len(rec.Faces)
	g.out.write(rec)
}

func randDir(rng *rand.Rand) model3d.Coord3D {
	for {
		d := model3d.XYZ(float64(rng.Intn(7)-3), float64(rng.Intn(7)-3), float64(rng.Intn(7)-3))
		if d.Norm() > 0 {
			return d
		}
	}
}

// polytopes with vertices where more than three planes meet
func octahedron(rot *model3d.Matrix3, scale float64) model3d.ConvexPolytope {
	var p model3d.ConvexPolytope
	for _, sx := range []float64{-1, 1} {
		for _, sy := range []float64{-1, 1} {
			for _, sz := range []float64{-1, 1} {
				n := model3d.XYZ(sx, sy, sz)
				if rot != nil {
					n = rot.MulColumn(n)
				}
				p = append(p, &model3d.LinearConstraint{Normal: n, Max: scale})
			}
		}
	}
	return p
}

func pyramid(apex float64, rot *model3d.Matrix3) model3d.ConvexPolytope {
	// square base z >= 0, four slanted sides meeting at (0,0,apex)
	ns := []model3d.Coord3D{model3d.XYZ(0, 0, -1), model3d.XYZ(apex, 0, 1), model3d.XYZ(-apex, 0, 1),
		model3d.XYZ(0, apex, 1), model3d.XYZ(0, -apex, 1)}
	maxs := []float64{0, apex, apex, apex, apex}
	var p model3d.ConvexPolytope
	for i, n := range ns {
		if rot != nil {
			n = rot.MulColumn(n)
		}
		p = append(p, &model3d.LinearConstraint{Normal: n, Max: maxs[i]})
	}
	return p
}

func randomRectSet(rng *rand.Rand, steps int, useSets bool) *toolbox3d.RectSet {
	rs := toolbox3d.NewRectSet()
	box := func() *model3d.Rect {
		var lo, hi [3]float64
		dims := [3]int{4, 3, 3}
		for a := 0; a < 3; a++ {
			x := rng.Intn(dims[a])
			y := x + 1 + rng.Intn(dims[a]-x)
			lo[a], hi[a] = float64(x), float64(y)
		}
		return model3d.NewRect(model3d.NewCoord3DArray(lo), model3d.NewCoord3DArray(hi))
	}
	for i := 0; i < steps; i++ {
		switch k := rng.Intn(10); {
		case k < 6:
			rs.Add(box())
		case k < 8:
			rs.Remove(box())
		default:
			if useSets {
				other := toolbox3d.NewRectSet()
				for j := 0; j < 1+rng.Intn(2); j++ {
					other.Add(box())
				}
				if k == 8 {
					rs.AddRectSet(other)
				} else {
					rs.RemoveRectSet(other)
				}
			} else {
				rs.Add(box())
			}
		}
	}
	return rs
}

func init() {
	// c01-gen out= stats= scale=N seed=S
	register("c01-gen", func(a args) {
		g := &genWriter{out: newNDWriter(a.str("out", "records.ndjson")), stats: map[string]int{}}
		defer g.out.close()
		rng := rand.New(rand.NewSource(int64(a.int("seed", 1))))
		scale := a.int("scale", 1)

		// boxes
		for i := 0; i < 4*scale; i++ {
			lo := model3d.XYZ(float64(rng.Intn(5)-2), float64(rng.Intn(5)-2), float64(rng.Intn(5)-2))
			hi := lo.Add(model3d.XYZ(float64(1+rng.Intn(3)), float64(1+rng.Intn(3)), float64(1+rng.Intn(3))))
			g.mesh3("NewMeshRect", "int-box", 2, func() *model3d.Mesh { return model3d.NewMeshRect(lo, hi) })
			l2, h2 := model2d.XY(lo.X, lo.Y), model2d.XY(hi.X, hi.Y)
			g.mesh2("model2d.NewMeshRect", "int-box", func() *model2d.Mesh { return model2d.NewMeshRect(l2, h2) })
		}
		// polar / icosphere / icosahedron
		for stops := 3; stops <= 8; stops++ {
			s := stops
			g.mesh3("NewMeshPolar", "unit", 2, func() *model3d.Mesh { return model3d.NewMeshPolar(nil, s) })
			g.mesh3("NewMeshPolar", "varying-radius", 2, func() *model3d.Mesh {
				return model3d.NewMeshPolar(func(gc model3d.GeoCoord) float64 {
					return 1 + 0.3*math.Sin(2*gc.Lon)*math.Cos(gc.Lat)
				}, s)
			})
			g.mesh2("model2d.NewMeshPolar", "unit", func() *model2d.Mesh {
				return model2d.NewMeshPolar(func(float64) float64 { return 1 }, s)
			})
			g.mesh2("model2d.NewMeshPolar", "open-ended", func() *model2d.Mesh {
				return model2d.NewMeshPolar(func(t float64) float64 { return 1 + t/10 }, s)
			})
		}
		g.mesh3("NewMeshIcosahedron", "-", 2, func() *model3d.Mesh { return model3d.NewMeshIcosahedron() })
		for n := 1; n <= 3; n++ {
			nn := n
			g.mesh3("NewMeshIcosphere", "n", 2, func() *model3d.Mesh {
				return model3d.NewMeshIcosphere(model3d.XYZ(1, -2, 0.5), 2, nn)
			})
		}
		// cylinders, cones, tori in arbitrary integer directions
		for i := 0; i < 6*scale; i++ {
			p1 := model3d.XYZ(float64(rng.Intn(5)-2), float64(rng.Intn(5)-2), float64(rng.Intn(5)-2))
			d := randDir(rng)
			p2 := p1.Add(d)
			r := float64(1+rng.Intn(3)) / 2
			stops := 3 + rng.Intn(6)
			g.mesh3("NewMeshCylinder", "int-axis", 2, func() *model3d.Mesh { return model3d.NewMeshCylinder(p1, p2, r, stops) })
			g.mesh3("NewMeshCone", "int-axis", 2, func() *model3d.Mesh { return model3d.NewMeshCone(p1, p2, r, stops) })
			inner := float64(1+rng.Intn(2)) / 2
			outer := inner + float64(1+rng.Intn(3))/2 // the generator requires inner < outer
			is, os := 3+rng.Intn(4), 3+rng.Intn(4)
			g.mesh3("NewMeshTorus", "int-axis", 0, func() *model3d.Mesh {
				return model3d.NewMeshTorus(p1, d, inner, outer, is, os)
			})
		}
		// polytopes: boxes, sheared boxes, octahedra / pyramids (vertices where > 3 planes meet)
		for i := 0; i < 3*scale; i++ {
			lo := model3d.XYZ(float64(rng.Intn(3)-2), float64(rng.Intn(3)-2), float64(rng.Intn(3)-2))
			hi := lo.Add(model3d.XYZ(float64(1+rng.Intn(3)), float64(1+rng.Intn(3)), float64(1+rng.Intn(3))))
			g.mesh3("ConvexPolytope.Mesh", "rect", 2, func() *model3d.Mesh { return model3d.NewConvexPolytopeRect(lo, hi).Mesh() })
			sh := float64(rng.Intn(3) - 1)
			g.mesh3("ConvexPolytope.Mesh", "sheared-rect", 2, func() *model3d.Mesh {
				p := model3d.NewConvexPolytopeRect(lo, hi)
				for _, c := range p {
					c.Normal = c.Normal.Add(model3d.XYZ(0, 0, sh*c.Normal.X))
				}
				return p.Mesh()
			})
			l2, h2 := model2d.XY(lo.X, lo.Y), model2d.XY(hi.X, hi.Y)
			g.mesh2("model2d.ConvexPolytope.Mesh", "rect", func() *model2d.Mesh { return model2d.NewConvexPolytopeRect(l2, h2).Mesh() })
		}
		g.mesh3("ConvexPolytope.Mesh", "octahedron", 2, func() *model3d.Mesh { return octahedron(nil, 1).Mesh() })
		g.mesh3("ConvexPolytope.Mesh", "pyramid", 2, func() *model3d.Mesh { return pyramid(1, nil).Mesh() })
		for i := 0; i < 4*scale; i++ {
			rot := model3d.NewMatrix3Rotation(randDir(rng).Normalize(), rng.Float64()*3)
			sc := 0.5 + rng.Float64()*2
			g.mesh3("ConvexPolytope.Mesh", "rotated-octahedron", 2, func() *model3d.Mesh { return octahedron(rot, sc).Mesh() })
			ap := 0.3 + rng.Float64()*2
			g.mesh3("ConvexPolytope.Mesh", "rotated-pyramid", 2, func() *model3d.Mesh { return pyramid(ap, rot).Mesh() })
		}
		// extruded profiles: polyomino outlines (Bitmap.Mesh) and rectangles
		for i := 0; i < 12*scale; i++ {
			bmp := model2d.NewBitmap(4, 4)
			n := 0
			for j := 0; j < 16; j++ {
				if rng.Intn(2) == 0 {
					bmp.Set(j%4, j/4, true)
					n++
				}
			}
			if n == 0 {
				bmp.Set(1, 1, true)
			}
			z0 := float64(rng.Intn(3) - 1)
			z1 := z0 + float64(1+rng.Intn(3))
			if i%2 == 1 {
				// heights in tenths: z0 + (z1 - z0) is not z1 for about a quarter of such pairs
				z0 = float64(rng.Intn(41)-20) / 10
				z1 = float64(rng.Intn(41)-20) / 10
				for z1 < z0+0.05 { // (at least a tenth apart: sums of tenths are not exact)
					z1 += float64(1+rng.Intn(30)) / 10
				}
			}
			g.mesh3("ProfileMesh", "bitmap-outline", -99, func() *model3d.Mesh { return model3d.ProfileMesh(bmp.Mesh(), z0, z1) })
		}
		// marching cubes with interior points on boxes: the lattice is anchored one spacing below the bounds, so a whole
		// lattice layer lies on every face of the box
		for i := 0; i < 6*scale; i++ {
			lo := model3d.XYZ(float64(rng.Intn(3)), float64(rng.Intn(3)), float64(rng.Intn(3)))
			hi := lo.Add(model3d.XYZ(float64(1+rng.Intn(3)), float64(1+rng.Intn(3)), float64(1+rng.Intn(3))))
			delta := []float64{1, 0.5}[rng.Intn(2)]
			iters := []int{0, 2, 5}[i%3]
			g.mesh3("MarchingCubesInterior", fmt.Sprintf("box iters=%d", iters), 2, func() *model3d.Mesh {
				m, _ := model3d.MarchingCubesInterior(model3d.NewRect(lo, hi), delta, iters)
				return m
			})
		}
		// box sets: histories of Add / Remove / AddRectSet / RemoveRectSet
		for i := 0; i < 12*scale; i++ {
			seed := rng.Int63()
			steps := 1 + rng.Intn(6)
			g.mesh3("RectSet.Mesh", "history", -99, func() *model3d.Mesh {
				return randomRectSet(rand.New(rand.NewSource(seed)), steps, true).Mesh()
			})
		}
		// height maps
		for i := 0; i < 5*scale; i++ {
			hm := toolbox3d.NewHeightMap(model2d.XY(0, 0), model2d.XY(3, 2), 4)
			for r := 0; r < hm.Rows; r++ {
				for c := 0; c < hm.Cols; c++ {
					if rng.Intn(3) > 0 {
						h := float64(1 + rng.Intn(3))
						hm.Data[r*hm.Cols+c] = h * h
					}
				}
			}
			g.mesh3("HeightMap.Mesh", "int-heights", -99, func() *model3d.Mesh { return hm.Mesh() })
			g.mesh3("HeightMap.MeshBidir", "int-heights", -99, func() *model3d.Mesh { return hm.MeshBidir() })
		}
		writeJSONFile(a.str("stats", "stats.json"), g.stats)
	})
}
