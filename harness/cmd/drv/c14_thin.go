package main

// C14 (thin spikes): polygons with a long sharp spike one side of which bends by 1e-1 .. 1e-7 rad, in sixteen
// placements.  Such angles cannot be written with the small integer coordinates the exact judge works on, so this
// stage is judged on aggregates computed in floating point by the harness (spec/tri/ThinJudge.tla): the number of
// triangles, that only input vertices are used, the documented orientation, and the total area (the triangles of a
// triangulation that overlap or stick out have a larger total area than the polygon).

import (
	"math"
	"time"

	"github.com/unixpickle/model3d/model2d"
)

type thinRec struct {
	ID      int    `json:"id"`
	Site    string `json:"site"`
	Case    string `json:"case"`
	N       int    `json:"n"`
	NTri    int    `json:"ntri"`
	VertsOK bool   `json:"vertsok"`
	Orient  bool   `json:"orient"`  // every triangle of non-negligible area is clockwise
	AreaDev int    `json:"areadev"` // bucket (power of ten) of |sum of triangle areas - polygon area| / polygon area
	Outcome string `json:"outcome"`
	Panic   string `json:"panic"`
}

func thinSignedArea(pts ...model2d.Coord) float64 {
	s := 0.0
	for i, p := range pts {
		q := pts[(i+1)%len(pts)]
		s += (p.X-pts[0].X)*(q.Y-pts[0].Y) - (p.Y-pts[0].Y)*(q.X-pts[0].X)
	}
	return s / 2
}

func init() {
	register("c14-thin", func(a args) {
		out := newNDWriter(a.str("out", "records.ndjson"))
		defer out.close()
		stats := map[string]int{}
		id := 0
		bends := []float64{1e-1, 1e-2, 1e-3, 1e-4, 3e-5, 1e-5, 1e-6, 1e-7}
		if a.int("quick", 1) == 1 {
			bends = []float64{1e-2, 1e-4, 3e-5, 1e-6}
		}
		for _, delta := range bends {
			for _, epsf := range []float64{1.7, 3} {
				for variant := 0; variant < 2; variant++ {
					// given in the frame in which TriangulateMesh sweeps, clockwise
					poly := []model2d.Coord{model2d.XY(-3, -1), model2d.XY(-2, 2), model2d.XY(1, 1), model2d.XY(2, 2-delta),
						model2d.XY(4, 4), model2d.XY(3, 3-epsf*delta), model2d.XY(0, 0)}
					if variant == 1 {
						// the same spike pointing the other way (mirrored in x: the vertex order is reversed to stay clockwise)
						m := make([]model2d.Coord, len(poly))
						for i, p := range poly {
							m[len(poly)-1-i] = model2d.XY(-p.X, p.Y)
						}
						poly = m
					}
					for rot := 0; rot < 8; rot++ {
						for _, off := range []model2d.Coord{{}, model2d.XY(7, -3)} {
							theta := 0.5037616150469717 + float64(rot)*math.Pi/4
							cs, sn := math.Cos(theta), math.Sin(theta)
							placed := make([]model2d.Coord, len(poly))
							for i, p := range poly {
								placed[i] = model2d.XY(cs*p.X-sn*p.Y, sn*p.X+cs*p.Y).Add(off)
							}
							id++
							rec := thinRec{ID: id, Site: "model2d.TriangulateMesh", N: len(poly),
								Case: fmtF(delta) + " x" + fmtF(epsf) + " variant " + itoa(variant) + " rot " + itoa(rot)}
							mesh := model2d.NewMesh()
							verts := map[model2d.Coord]bool{}
							for i, p := range placed {
								mesh.Add(&model2d.Segment{p, placed[(i+1)%len(placed)]})
								verts[p] = true
							}
							polyArea := math.Abs(thinSignedArea(placed...))
							var tris [][3]model2d.Coord
							rec.Outcome, rec.Panic = withDeadline(10*time.Second, func() { tris = model2d.TriangulateMesh(mesh) })
							if rec.Outcome == "ok" {
								rec.NTri, rec.VertsOK, rec.Orient = len(tris), true, true
								total := 0.0
								for _, t := range tris {
									for _, c := range t {
										if !verts[c] {
											rec.VertsOK = false
										}
									}
									sa := thinSignedArea(t[:]...)
									total += math.Abs(sa)
									if sa > 1e-12*polyArea {
										rec.Orient = false // counter-clockwise
									}
								}
								rec.AreaDev = k17Bucket(math.Abs(total-polyArea) / polyArea)
							}
							out.write(rec)
							stats["records"]++
							stats["nonempty"]++
							stats["outcome:"+rec.Outcome]++
						}
					}
				}
			}
		}
		writeJSONFile(a.str("stats", "stats.json"), stats)
	})
}
