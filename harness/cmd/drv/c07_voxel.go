package main

// C06 / C07 / C08: colliders, distance fields and accelerated queries over voxel worlds
// (records for spec/geom/VoxelJudge.tla).

import (
	"math"
	"math/rand"
	"sort"
	"strings"

	"github.com/unixpickle/model3d/model3d"
)

type hitObs struct {
	T4   int `json:"t4"`
	Axis int `json:"axis"`
	Sgn  int `json:"sgn"`
}

type firstObs struct {
	Ok   bool `json:"ok"`
	T4   int  `json:"t4"`
	Axis int  `json:"axis"`
	Sgn  int  `json:"sgn"`
}

type rayObs struct {
	O       [3]int   `json:"o"`
	D       [3]int   `json:"d"`
	N       int      `json:"n"`
	Ncb     int      `json:"ncb"`
	Nnil    int      `json:"nnil"`
	Hits    []hitObs `json:"hits"`
	Bad     int      `json:"bad"`
	First   firstObs `json:"first"`
	Nlin    int      `json:"nlin"`
	Firstok bool     `json:"firstsame"`
	E       int      `json:"e"` // the real direction is d * 2^-e
}

type sphObs struct {
	C      [3]int `json:"c"`
	M      int    `json:"m"`
	Hit    bool   `json:"hit"`
	Hitlin bool   `json:"hitlin"`
}

type sdfObs struct {
	P    [3]int `json:"p"`
	Sgn  int    `json:"sgn"`
	D2   int    `json:"d2"`
	Np   []int  `json:"np"`
	Axis int    `json:"axis"`
	Nsgn int    `json:"nsgn"`
	Bad  int    `json:"bad"`
}

type multiObs struct {
	Kind   string `json:"kind"` // seg | rect | tri
	A      [3]int `json:"a"`
	B      [3]int `json:"b"`
	C      [3]int `json:"c"`
	N      int    `json:"n"`
	Nlin   int    `json:"nlin"`
	Hit    bool   `json:"hit"`
	Hitlin bool   `json:"hitlin"`
}

type containsObs struct {
	P      [3]int `json:"p"`
	Inside bool   `json:"inside"`
}

type voxelRecord struct {
	Id       int           `json:"id"`
	Site     string        `json:"site"`
	Variant  string        `json:"variant"`
	Panic    string        `json:"panic"`
	Voxels   [][3]int      `json:"voxels"`
	Rays     []rayObs      `json:"rays"`
	Spheres  []sphObs      `json:"spheres"`
	Sdf      []sdfObs      `json:"sdf"`
	Contains []containsObs `json:"contains"`
	Multi    []multiObs    `json:"multi"`
}

var axisOther = [3][2]int{{1, 2}, {2, 0}, {0, 1}}

// voxelMesh builds the boundary surface of a voxel set: one quad (two triangles) per
// boundary unit face, counter-clockwise seen from outside.
func voxelMesh(vox [][3]int) *model3d.Mesh {
	set := map[[3]int]bool{}
	for _, v := range vox {
		set[v] = true
	}
	m := model3d.NewMesh()
	for _, c := range vox {
		for a := 0; a < 3; a++ {
			for _, s := range []int{-1, 1} {
				nb := c
				nb[a] += s
				if set[nb] {
					continue
				}
				u, v := axisOther[a][0], axisOther[a][1]
				base := [3]float64{float64(c[0]), float64(c[1]), float64(c[2])}
				if s == 1 {
					base[a]++
				}
				corner := func(du, dv float64) model3d.Coord3D {
					p := base
					p[u] += du
					p[v] += dv
					return model3d.NewCoord3DArray(p)
				}
				if s == 1 {
					m.AddQuad(corner(0, 0), corner(1, 0), corner(1, 1), corner(0, 1))
				} else {
					m.AddQuad(corner(0, 1), corner(1, 1), corner(1, 0), corner(0, 0))
				}
			}
		}
	}
	return m
}

func axisNormal(n model3d.Coord3D) (axis, sgn int, ok bool) {
	arr := n.Array()
	for i, v := range arr {
		if math.Abs(math.Abs(v)-1) < 1e-9 {
			o1, o2 := arr[(i+1)%3], arr[(i+2)%3]
			if math.Abs(o1) < 1e-9 && math.Abs(o2) < 1e-9 {
				if v > 0 {
					return i + 1, 1, true
				}
				return i + 1, -1, true
			}
		}
	}
	return 0, 0, false
}

func quarter(t float64) (int, bool) {
	x := t * 4
	r := math.Round(x)
	return int(r), math.Abs(x-r) < 1e-9
}

func halfPt(p [3]int) model3d.Coord3D {
	return model3d.XYZ(float64(p[0])/2, float64(p[1])/2, float64(p[2])/2)
}

func observeRay(c model3d.Collider, tris []*model3d.Triangle, o, d [3]int, e int) rayObs {
	sc := math.Ldexp(1, -e)
	ray := &model3d.Ray{Origin: halfPt(o), Direction: model3d.XYZ(float64(d[0]), float64(d[1]), float64(d[2])).Scale(sc)}
	obs := rayObs{O: o, D: d, Hits: []hitObs{}, E: e}
	obs.N = c.RayCollisions(ray, func(rc model3d.RayCollision) {
		obs.Ncb++
		t4, ok := quarter(rc.Scale * sc)
		ax, sg, ok2 := axisNormal(rc.Normal)
		if !ok || !ok2 || rc.Scale < 0 {
			obs.Bad++
		}
		obs.Hits = append(obs.Hits, hitObs{t4, ax, sg})
	})
	obs.Nnil = c.RayCollisions(ray, nil)
	fc, ok := c.FirstRayCollision(ray)
	obs.First.Ok = ok
	if ok {
		t4, e1 := quarter(fc.Scale * sc)
		ax, sg, e2 := axisNormal(fc.Normal)
		if !e1 || !e2 {
			obs.Bad++
		}
		obs.First = firstObs{true, t4, ax, sg}
	}
	// the literal linear scan over the individual triangles
	firstLin := math.Inf(1)
	for _, t := range tris {
		obs.Nlin += t.RayCollisions(ray, nil)
		if rc, ok := t.FirstRayCollision(ray); ok && rc.Scale < firstLin {
			firstLin = rc.Scale
		}
	}
	obs.Firstok = (ok == !math.IsInf(firstLin, 1)) && (!ok || fc.Scale == firstLin)
	return obs
}

type voxCollider struct {
	name  string
	build func(m *model3d.Mesh, rng *rand.Rand) model3d.Collider
}

func voxColliders() []voxCollider {
	return []voxCollider{
		{"MeshToCollider", func(m *model3d.Mesh, _ *rand.Rand) model3d.Collider { return model3d.MeshToCollider(m) }},
		{"BVHAreaDensity", func(m *model3d.Mesh, _ *rand.Rand) model3d.Collider {
			return model3d.BVHToCollider(model3d.NewBVHAreaDensity(m.TriangleSlice()))
		}},
		{"GroupedTriangles", func(m *model3d.Mesh, _ *rand.Rand) model3d.Collider {
			tris := m.TriangleSlice()
			model3d.GroupTriangles(tris)
			return model3d.GroupedTrianglesToCollider(tris)
		}},
		{"JoinedNested", func(m *model3d.Mesh, rng *rand.Rand) model3d.Collider {
			tris := m.TriangleSlice()
			rng.Shuffle(len(tris), func(i, j int) { tris[i], tris[j] = tris[j], tris[i] })
			var leaves []model3d.Collider
			for _, t := range tris {
				leaves = append(leaves, t)
			}
			// random nesting: joined(joined(a...), joined(b...), c...)
			var nest func(cs []model3d.Collider, depth int) model3d.Collider
			nest = func(cs []model3d.Collider, depth int) model3d.Collider {
				if len(cs) <= 2 || depth == 0 {
					return model3d.NewJoinedCollider(cs)
				}
				k := 1 + rng.Intn(len(cs)-1)
				return model3d.NewJoinedCollider([]model3d.Collider{nest(cs[:k], depth-1), nest(cs[k:], depth-1)})
			}
			return nest(leaves, 3)
		}},
	}
}

func runVoxelWorld(id int, vox [][3]int, vc voxCollider, rng *rand.Rand, nrays, nsph int, ext [3]int) voxelRecord {
	rec := voxelRecord{Id: id, Site: vc.name, Variant: "voxel-world", Voxels: vox, Rays: []rayObs{}, Spheres: []sphObs{},
		Sdf: []sdfObs{}, Contains: []containsObs{}, Multi: []multiObs{}}
	rec.Panic = protect(func() {
		m := voxelMesh(vox)
		tris := m.TriangleSlice()
		coll := vc.build(m, rng)
		randPt := func() [3]int {
			return [3]int{rng.Intn(2*ext[0]+5) - 2, rng.Intn(2*ext[1]+5) - 2, rng.Intn(2*ext[2]+5) - 2}
		}
		for i := 0; i < nrays; i++ {
			var d [3]int
			for d == [3]int{} {
				d = [3]int{rng.Intn(5) - 2, rng.Intn(5) - 2, rng.Intn(5) - 2}
			}
			rec.Rays = append(rec.Rays, observeRay(coll, tris, randPt(), d, []int{0, 0, 1, 10, 30, -3}[rng.Intn(6)]))
		}
		for i := 0; i < nsph; i++ {
			c := randPt()
			mrad := rng.Intn(6)
			o := sphObs{C: c, M: mrad, Hit: coll.SphereCollision(halfPt(c), float64(mrad)/2)}
			for _, t := range tris {
				if t.SphereCollision(halfPt(c), float64(mrad)/2) {
					o.Hitlin = true
				}
			}
			rec.Spheres = append(rec.Spheres, o)
			rec.Contains = append(rec.Contains, containsObs{c, model3d.ColliderContains(coll, halfPt(c), 0)})
		}
		if mc, ok := coll.(model3d.MultiCollider); ok {
			for i := 0; i < nsph; i++ {
				a, b, c3 := randPt(), randPt(), randPt()
				switch i % 3 {
				case 0:
					if a == b {
						continue
					}
					o := multiObs{Kind: "seg", A: a, B: b}
					seg := model3d.NewSegment(halfPt(a), halfPt(b))
					o.Hit = mc.SegmentCollision(seg)
					for _, t := range tris {
						if t.SegmentCollision(seg) {
							o.Hitlin = true
						}
					}
					rec.Multi = append(rec.Multi, o)
				case 1:
					lo, hi := a, b
					for k := 0; k < 3; k++ {
						if lo[k] > hi[k] {
							lo[k], hi[k] = hi[k], lo[k]
						}
					}
					o := multiObs{Kind: "rect", A: lo, B: hi}
					r := model3d.NewRect(halfPt(lo), halfPt(hi))
					o.Hit = mc.RectCollision(r)
					for _, t := range tris {
						if t.RectCollision(r) {
							o.Hitlin = true
						}
					}
					rec.Multi = append(rec.Multi, o)
				default:
					if i%2 == 0 { // axis-aligned query triangles (flat bounding boxes)
						k := rng.Intn(3)
						b[k], c3[k] = a[k], a[k]
					}
					q := &model3d.Triangle{halfPt(a), halfPt(b), halfPt(c3)}
					if q.Area() == 0 {
						continue
					}
					o := multiObs{Kind: "tri", A: a, B: b, C: c3}
					o.N = len(mc.TriangleCollisions(q))
					for _, t := range tris {
						o.Nlin += len(t.TriangleCollisions(q))
					}
					o.Hit, o.Hitlin = o.N > 0, o.Nlin > 0
					rec.Multi = append(rec.Multi, o)
				}
			}
		}
	})
	return rec
}

func runVoxelSDF(id int, vox [][3]int, rng *rand.Rand, n int, ext [3]int) voxelRecord {
	rec := voxelRecord{Id: id, Site: "MeshToSDF", Variant: "voxel-world", Voxels: vox, Rays: []rayObs{}, Spheres: []sphObs{},
		Sdf: []sdfObs{}, Contains: []containsObs{}, Multi: []multiObs{}}
	rec.Panic = protect(func() {
		m := voxelMesh(vox)
		sdf := model3d.MeshToSDF(m)
		for i := 0; i < n; i++ {
			p := [3]int{rng.Intn(2*ext[0]+5) - 2, rng.Intn(2*ext[1]+5) - 2, rng.Intn(2*ext[2]+5) - 2}
			c := halfPt(p)
			o := sdfObs{P: p, Np: []int{}}
			d := sdf.SDF(c)
			np, d1 := sdf.PointSDF(c)
			nrm, d2 := sdf.NormalSDF(c)
			face, np2, d3 := sdf.FaceSDF(c)
			if d != d1 || d != d2 || d != d3 || np != np2 {
				o.Bad++
			}
			o.Sgn = sign(d)
			x := d * d * 4
			if math.Abs(x-math.Round(x)) > 1e-9 {
				o.Bad++
			}
			o.D2 = int(math.Round(x))
			for _, v := range np.Array() {
				h := v * 2
				if math.Abs(h-math.Round(h)) > 1e-9 {
					o.Bad++
				}
				o.Np = append(o.Np, int(math.Round(h)))
			}
			ax, sg, ok := axisNormal(nrm)
			if !ok {
				o.Bad++
			}
			o.Axis, o.Nsgn = ax, sg
			// the reported face must contain the reported point and have the reported normal
			if face == nil || math.Abs(face.Dist(np)) > 1e-9 || face.Normal().Dist(nrm) > 1e-9 {
				o.Bad++
			}
			// the reported point is at the reported distance
			if math.Abs(np.Dist(c)-math.Abs(d)) > 1e-9 {
				o.Bad++
			}
			rec.Sdf = append(rec.Sdf, o)
		}
	})
	return rec
}

func subsetVoxels(nx, ny, nz int, bits uint64) [][3]int {
	var out [][3]int
	i := 0
	for z := 0; z < nz; z++ {
		for y := 0; y < ny; y++ {
			for x := 0; x < nx; x++ {
				if bits&(1<<uint(i)) != 0 {
					out = append(out, [3]int{x, y, z})
				}
				i++
			}
		}
	}
	return out
}

func init() {
	// c07-voxel out= stats= plan=  items all:NX,NY,NZ | rand:NX,NY,NZ:COUNT ; rays=N spheres=N sdf=N kinds=collider,sdf
	register("c07-voxel", func(a args) {
		out := newNDWriter(a.str("out", "records.ndjson"))
		defer out.close()
		rng := rand.New(rand.NewSource(int64(a.int("seed", 1))))
		stats := map[string]int{}
		id := 0
		kinds := a.str("kinds", "collider,sdf")
		colliders := voxColliders()
		emit := func(vox [][3]int, ext [3]int) {
			if len(vox) == 0 {
				return
			}
			sort.Slice(vox, func(i, j int) bool {
				for k := 2; k >= 0; k-- {
					if vox[i][k] != vox[j][k] {
						return vox[i][k] < vox[j][k]
					}
				}
				return false
			})
			if strings.Contains(kinds, "collider") {
				for _, vc := range colliders {
					id++
					rec := runVoxelWorld(id, vox, vc, rng, a.int("rays", 40), a.int("spheres", 20), ext)
					stats["records"]++
					stats["nonempty"]++
					stats["site:"+rec.Site]++
					stats["rays"] += len(rec.Rays)
					out.write(rec)
				}
			}
			if strings.Contains(kinds, "sdf") {
				id++
				rec := runVoxelSDF(id, vox, rng, a.int("sdf", 40), ext)
				stats["records"]++
				stats["nonempty"]++
				stats["site:"+rec.Site]++
				out.write(rec)
			}
		}
		for _, item := range strings.Split(a.str("plan", ""), ";") {
			if item == "" {
				continue
			}
			f := strings.Split(item, ":")
			var nx, ny, nz int
			parseDims(f[1], &nx, &ny, &nz)
			ext := [3]int{nx, ny, nz}
			switch f[0] {
			case "all":
				for bits := uint64(1); bits < 1<<uint(nx*ny*nz); bits++ {
					emit(subsetVoxels(nx, ny, nz, bits), ext)
				}
			case "rand":
				for i := 0; i < atoi(f[2]); i++ {
					dens := 0.2 + 0.6*rng.Float64()
					var bits uint64
					for j := 0; j < nx*ny*nz; j++ {
						if rng.Float64() < dens {
							bits |= 1 << uint(j)
						}
					}
					emit(subsetVoxels(nx, ny, nz, bits), ext)
				}
			}
		}
		writeJSONFile(a.str("stats", "stats.json"), stats)
	})
}
