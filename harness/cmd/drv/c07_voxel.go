package main

// C06 / C07 / C08: colliders, distance fields and accelerated queries over voxel worlds
// (records for spec/geom/VoxelJudge.tla).

import (
	"math"
	"math/rand"
	"runtime"
	"sort"
	"strings"
	"sync"
	"sync/atomic"

	"github.com/unixpickle/model3d/model2d"
	"github.com/unixpickle/model3d/model3d"
)

type hitObs struct {
	T4   int `json:"t4"`
	Axis int `json:"axis"`
	Sgn  int `json:"sgn"`
}

type firstObs struct {
	Ok   bool `json:"ok"`
	T4   int  `json:"t4"`
	Axis int  `json:"axis"`
	Sgn  int  `json:"sgn"`
}

type rayObs struct {
	O       [3]int   `json:"o"`
	D       [3]int   `json:"d"`
	N       int      `json:"n"`
	Ncb     int      `json:"ncb"`
	Nnil    int      `json:"nnil"`
	Hits    []hitObs `json:"hits"`
	Bad     int      `json:"bad"`
	First   firstObs `json:"first"`
	Nlin    int      `json:"nlin"`
	Firstok bool     `json:"firstsame"`
	E       int      `json:"e"` // the real direction is d * 2^-e
}

type sphObs struct {
	C      [3]int `json:"c"`
	M      int    `json:"m"`
	Hit    bool   `json:"hit"`
	Hitlin bool   `json:"hitlin"`
}

type sdfObs struct {
	P    [3]int `json:"p"`
	Sgn  int    `json:"sgn"`
	D2   int    `json:"d2"`
	Np   []int  `json:"np"`
	Axis int    `json:"axis"`
	Nsgn int    `json:"nsgn"`
	Bad  int    `json:"bad"`
}

type multiObs struct {
	Kind   string `json:"kind"` // seg | rect | tri
	A      [3]int `json:"a"`
	B      [3]int `json:"b"`
	C      [3]int `json:"c"`
	N      int    `json:"n"`
	Nlin   int    `json:"nlin"`
	Hit    bool   `json:"hit"`
	Hitlin bool   `json:"hitlin"`
}

type containsObs struct {
	P      [3]int `json:"p"`
	Inside bool   `json:"inside"`
	Mg     int    `json:"mg"` // margin in half units (signed)
}

type voxelRecord struct {
	Id       int           `json:"id"`
	Site     string        `json:"site"`
	Variant  string        `json:"variant"`
	Panic    string        `json:"panic"`
	Voxels   [][3]int      `json:"voxels"`
	Rays     []rayObs      `json:"rays"`
	Spheres  []sphObs      `json:"spheres"`
	Sdf      []sdfObs      `json:"sdf"`
	Contains []containsObs `json:"contains"`
	Multi    []multiObs    `json:"multi"`
	Skipped  int           `json:"skipped"` // rays not put to the collider (see skipRay)
	ConcBad  int           `json:"concbad"` // rays that were answered differently when four goroutines asked at once
}

var axisOther = [3][2]int{{1, 2}, {2, 0}, {0, 1}}

// voxelMesh builds the boundary surface of a voxel set: one quad (two triangles) per
// boundary unit face, counter-clockwise seen from outside.
func voxelMesh(vox [][3]int) *model3d.Mesh {
	set := map[[3]int]bool{}
	for _, v := range vox {
		set[v] = true
	}
	m := model3d.NewMesh()
	for _, c := range vox {
		for a := 0; a < 3; a++ {
			for _, s := range []int{-1, 1} {
				nb := c
				nb[a] += s
				if set[nb] {
					continue
				}
				u, v := axisOther[a][0], axisOther[a][1]
				base := [3]float64{float64(c[0]), float64(c[1]), float64(c[2])}
				if s == 1 {
					base[a]++
				}
				corner := func(du, dv float64) model3d.Coord3D {
					p := base
					p[u] += du
					p[v] += dv
					return model3d.NewCoord3DArray(p)
				}
				if s == 1 {
					m.AddQuad(corner(0, 0), corner(1, 0), corner(1, 1), corner(0, 1))
				} else {
					m.AddQuad(corner(0, 1), corner(1, 1), corner(1, 0), corner(0, 0))
				}
			}
		}
	}
	return m
}

func axisNormal(n model3d.Coord3D) (axis, sgn int, ok bool) {
	arr := n.Array()
	for i, v := range arr {
		if math.Abs(math.Abs(v)-1) < 1e-9 {
			o1, o2 := arr[(i+1)%3], arr[(i+2)%3]
			if math.Abs(o1) < 1e-9 && math.Abs(o2) < 1e-9 {
				if v > 0 {
					return i + 1, 1, true
				}
				return i + 1, -1, true
			}
		}
	}
	return 0, 0, false
}

func quarter(t float64) (int, bool) {
	x := t * 4
	r := math.Round(x)
	return int(r), math.Abs(x-r) < 1e-9
}

func halfPt(p [3]int) model3d.Coord3D {
	return model3d.XYZ(float64(p[0])/2, float64(p[1])/2, float64(p[2])/2)
}

func observeRay(c model3d.Collider, tris []*model3d.Triangle, o, d [3]int, e int, interpNormals bool) rayObs {
	sc := math.Ldexp(1, -e)
	ray := &model3d.Ray{Origin: halfPt(o), Direction: model3d.XYZ(float64(d[0]), float64(d[1]), float64(d[2])).Scale(sc)}
	obs := rayObs{O: o, D: d, Hits: []hitObs{}, E: e}
	// flat: the normal that is put on record.  MeshToInterpNormalCollider reports Phong-interpolated normals, which
	// differ from the face normals BY DESIGN; for that variant only, the normal part of the clauses "hits" / "first"
	// is made vacuous by recording the normal of the (first) triangle whose own collision has the reported
	// parameter - the parameter, the counts and every other clause are judged as for MeshToCollider.
	flat := func(rc model3d.RayCollision) model3d.Coord3D {
		if !interpNormals {
			return rc.Normal
		}
		for _, t := range tris {
			if rc1, ok := t.FirstRayCollision(ray); ok && rc1.Scale == rc.Scale {
				return rc1.Normal
			}
		}
		return model3d.Coord3D{} // no triangle has such a collision: recorded as "bad"
	}
	obs.N = c.RayCollisions(ray, func(rc model3d.RayCollision) {
		obs.Ncb++
		t4, ok := quarter(rc.Scale * sc)
		ax, sg, ok2 := axisNormal(flat(rc))
		if !ok || !ok2 || rc.Scale < 0 {
			obs.Bad++
		}
		obs.Hits = append(obs.Hits, hitObs{t4, ax, sg})
	})
	obs.Nnil = c.RayCollisions(ray, nil)
	fc, ok := c.FirstRayCollision(ray)
	obs.First.Ok = ok
	if ok {
		t4, e1 := quarter(fc.Scale * sc)
		ax, sg, e2 := axisNormal(flat(fc))
		if !e1 || !e2 {
			obs.Bad++
		}
		obs.First = firstObs{true, t4, ax, sg}
	}
	if tris == nil {
		// a collider that is not made of triangles (extruded outlines): there is no linear scan to
		// compare with, the clause "scan" is vacuous for these records by construction
		obs.Nlin, obs.Firstok = obs.N, true
		return obs
	}
	// the literal linear scan over the individual triangles
	firstLin := math.Inf(1)
	for _, t := range tris {
		obs.Nlin += t.RayCollisions(ray, nil)
		if rc, ok := t.FirstRayCollision(ray); ok && rc.Scale < firstLin {
			firstLin = rc.Scale
		}
	}
	obs.Firstok = (ok == !math.IsInf(firstLin, 1)) && (!ok || fc.Scale == firstLin)
	return obs
}

type voxCollider struct {
	name   string
	build  func(m *model3d.Mesh, rng *rand.Rand) model3d.Collider
	noTris bool // not a collection of triangles: nothing to scan linearly (clause "scan" is vacuous)
	// skipRay (may be nil): rays (origin in half units, integer direction) that are not put to this collider
	skipRay func(o, d [3]int) bool
	// interpNormals: the collider reports interpolated normals (see observeRay)
	interpNormals bool
}

func voxColliders() []voxCollider {
	return []voxCollider{
		{"MeshToCollider", func(m *model3d.Mesh, _ *rand.Rand) model3d.Collider { return model3d.MeshToCollider(m) }, false, nil, false},
		{"BVHAreaDensity", func(m *model3d.Mesh, _ *rand.Rand) model3d.Collider {
			return model3d.BVHToCollider(model3d.NewBVHAreaDensity(m.TriangleSlice()))
		}, false, nil, false},
		{"GroupedTriangles", func(m *model3d.Mesh, _ *rand.Rand) model3d.Collider {
			tris := m.TriangleSlice()
			model3d.GroupTriangles(tris)
			return model3d.GroupedTrianglesToCollider(tris)
		}, false, nil, false},
		{"JoinedNested", func(m *model3d.Mesh, rng *rand.Rand) model3d.Collider {
			tris := m.TriangleSlice()
			rng.Shuffle(len(tris), func(i, j int) { tris[i], tris[j] = tris[j], tris[i] })
			var leaves []model3d.Collider
			for _, t := range tris {
				leaves = append(leaves, t)
			}
			// random nesting: joined(joined(a...), joined(b...), c...)
			var nest func(cs []model3d.Collider, depth int) model3d.Collider
			nest = func(cs []model3d.Collider, depth int) model3d.Collider {
				if len(cs) <= 2 || depth == 0 {
					return model3d.NewJoinedCollider(cs)
				}
				k := 1 + rng.Intn(len(cs)-1)
				return model3d.NewJoinedCollider([]model3d.Collider{nest(cs[:k], depth-1), nest(cs[k:], depth-1)})
			}
			return nest(leaves, 3)
		}, false, nil, false},
	}
}

// voxColliders2: further accelerated colliders over the same triangles.  They are run from their own random stream
// and numbered from their own counter, so that the records of voxColliders() stay what they were.
func voxColliders2() []voxCollider {
	return []voxCollider{
		// hand-built hierarchies with 2..4 children per branch ("a branch with two or more children") and the
		// binary one of NewBVHAreaDensity, through BVHToCollider
		{"BVHToCollider(wide)", func(m *model3d.Mesh, rng *rand.Rand) model3d.Collider {
			tris := m.TriangleSlice()
			rng.Shuffle(len(tris), func(i, j int) { tris[i], tris[j] = tris[j], tris[i] })
			var build func(s []*model3d.Triangle) *model3d.BVH[*model3d.Triangle]
			build = func(s []*model3d.Triangle) *model3d.BVH[*model3d.Triangle] {
				if len(s) == 1 {
					return &model3d.BVH[*model3d.Triangle]{Leaf: s[0]}
				}
				k := 2 + rng.Intn(3)
				if k > len(s) {
					k = len(s)
				}
				node := &model3d.BVH[*model3d.Triangle]{}
				for i := 0; i < k; i++ {
					node.Branch = append(node.Branch, build(s[i*len(s)/k:(i+1)*len(s)/k]))
				}
				return node
			}
			return model3d.BVHToCollider(build(tris))
		}, false, nil, false},
		// a joined collider that is a member of two parents: building the second parent must not change the first
		{"JoinedShared", func(m *model3d.Mesh, rng *rand.Rand) model3d.Collider {
			tris := m.TriangleSlice()
			if len(tris) < 8 {
				return model3d.MeshToCollider(m)
			}
			for try := 0; ; try++ {
				rng.Shuffle(len(tris), func(i, j int) { tris[i], tris[j] = tris[j], tris[i] })
				nrest := 1 + rng.Intn(2)
				k := []int{3, 5, 6, 7}[rng.Intn(4)]
				if k > len(tris)-nrest {
					k = 3
				}
				// the "room": k members that together span the bounds of the whole surface
				var members []model3d.Collider
				per := (len(tris) - nrest) / k
				for i := 0; i < k; i++ {
					lo, hi := i*per, (i+1)*per
					if i == k-1 {
						hi = len(tris) - nrest
					}
					var cs []model3d.Collider
					for _, t := range tris[lo:hi] {
						cs = append(cs, t)
					}
					if len(cs) == 1 {
						members = append(members, cs[0])
					} else {
						members = append(members, model3d.NewJoinedCollider(cs))
					}
				}
				room := model3d.NewJoinedCollider(members)
				if (room.Min() != m.Min() || room.Max() != m.Max()) && try < 50 {
					continue
				}
				var rest []model3d.Collider
				for _, t := range tris[len(tris)-nrest:] {
					rest = append(rest, t)
				}
				first := model3d.NewJoinedCollider(append([]model3d.Collider{room}, rest...))
				// a second parent of the room, with something else inside the same bounds
				mid := m.Min().Mid(m.Max())
				lamp := &model3d.Triangle{mid, mid.Add(model3d.XYZ(0.25, 0, 0.125)), mid.Add(model3d.XYZ(0, 0.25, 0.125))}
				model3d.NewJoinedCollider([]model3d.Collider{room, lamp})
				return first
			}
		}, false, nil, false},
		// "To group the colliders, see GroupBounders()": the triangles as plain colliders; every other time in
		// random order (grouping is documented as a matter of efficiency: "otherwise, the resulting Collider may not
		// be efficient")
		{"GroupedColliders", func(m *model3d.Mesh, rng *rand.Rand) model3d.Collider {
			tris := m.TriangleSlice()
			rng.Shuffle(len(tris), func(i, j int) { tris[i], tris[j] = tris[j], tris[i] })
			cs := make([]model3d.Collider, len(tris))
			for i, t := range tris {
				cs[i] = t
			}
			if rng.Intn(2) == 0 {
				model3d.GroupBounders(cs)
			}
			return model3d.GroupedCollidersToCollider(cs)
		}, false, nil, false},
		{"MeshToInterpNormalCollider", func(m *model3d.Mesh, _ *rand.Rand) model3d.Collider {
			return model3d.MeshToInterpNormalCollider(m)
		}, false, nil, true},
	}
}

func runVoxelWorld(id int, vox [][3]int, vc voxCollider, rng *rand.Rand, nrays, nsph int, ext [3]int) voxelRecord {
	rec := voxelRecord{Id: id, Site: vc.name, Variant: "voxel-world", Voxels: vox, Rays: []rayObs{}, Spheres: []sphObs{},
		Sdf: []sdfObs{}, Contains: []containsObs{}, Multi: []multiObs{}}
	rec.Panic = protect(func() {
		m := voxelMesh(vox)
		tris := m.TriangleSlice()
		coll := vc.build(m, rng)
		if vc.noTris {
			tris = nil
		}
		randPt := func() [3]int {
			return [3]int{rng.Intn(2*ext[0]+5) - 2, rng.Intn(2*ext[1]+5) - 2, rng.Intn(2*ext[2]+5) - 2}
		}
		for i, tries := 0, 0; i < nrays && tries < 8*nrays; tries++ {
			var d [3]int
			for d == [3]int{} {
				d = [3]int{rng.Intn(5) - 2, rng.Intn(5) - 2, rng.Intn(5) - 2}
			}
			o, e := randPt(), []int{0, 0, 1, 10, 30, -3}[rng.Intn(6)]
			if vc.skipRay != nil && vc.skipRay(o, d) {
				rec.Skipped++
				continue
			}
			rec.Rays = append(rec.Rays, observeRay(coll, tris, o, d, e, vc.interpNormals))
			i++
		}
		// the same rays once more from four goroutines at once (every method of a Collider is documented as safe
		// for concurrent use): each of them must be told what the single caller was told
		var concBad int32
		var wg sync.WaitGroup
		for g := 0; g < 4; g++ {
			wg.Add(1)
			go func(g int) {
				defer wg.Done()
				for k := range rec.Rays {
					r := rec.Rays[(k+7*g)%len(rec.Rays)]
					sc := math.Ldexp(1, -r.E)
					ray := &model3d.Ray{Origin: halfPt(r.O), Direction: model3d.XYZ(float64(r.D[0]), float64(r.D[1]), float64(r.D[2])).Scale(sc)}
					var got []int
					n := 0
					if p := protect(func() {
						n = coll.RayCollisions(ray, func(rc model3d.RayCollision) {
							t4, _ := quarter(rc.Scale * sc)
							got = append(got, t4)
							runtime.Gosched()
						})
					}); p != "" {
						atomic.AddInt32(&concBad, 1)
						continue
					}
					want := make([]int, len(r.Hits))
					for i, h := range r.Hits {
						want[i] = h.T4
					}
					sort.Ints(want)
					sort.Ints(got)
					same := n == r.N && len(got) == len(want)
					for i := 0; same && i < len(got); i++ {
						same = got[i] == want[i]
					}
					if !same {
						atomic.AddInt32(&concBad, 1)
					}
				}
			}(g)
		}
		wg.Wait()
		rec.ConcBad = int(concBad)
		for i := 0; i < nsph; i++ {
			c := randPt()
			mrad := rng.Intn(6)
			o := sphObs{C: c, M: mrad, Hit: coll.SphereCollision(halfPt(c), float64(mrad)/2)}
			for _, t := range tris {
				if t.SphereCollision(halfPt(c), float64(mrad)/2) {
					o.Hitlin = true
				}
			}
			if vc.noTris {
				o.Hitlin = o.Hit // no triangles to scan: vacuous
			}
			rec.Spheres = append(rec.Spheres, o)
			rec.Contains = append(rec.Contains, containsObs{c, model3d.ColliderContains(coll, halfPt(c), 0), 0})
			// with a margin (positive: at least that far inside; negative: also points that close outside)
			mg := rng.Intn(7) - 3
			rec.Contains = append(rec.Contains, containsObs{c, model3d.ColliderContains(coll, halfPt(c), float64(mg)/2), mg})
		}
		if mc, ok := coll.(model3d.MultiCollider); ok {
			for i := 0; i < nsph; i++ {
				a, b, c3 := randPt(), randPt(), randPt()
				switch i % 3 {
				case 0:
					if a == b {
						continue
					}
					o := multiObs{Kind: "seg", A: a, B: b}
					seg := model3d.NewSegment(halfPt(a), halfPt(b))
					o.Hit = mc.SegmentCollision(seg)
					for _, t := range tris {
						if t.SegmentCollision(seg) {
							o.Hitlin = true
						}
					}
					rec.Multi = append(rec.Multi, o)
				case 1:
					lo, hi := a, b
					for k := 0; k < 3; k++ {
						if lo[k] > hi[k] {
							lo[k], hi[k] = hi[k], lo[k]
						}
					}
					o := multiObs{Kind: "rect", A: lo, B: hi}
					r := model3d.NewRect(halfPt(lo), halfPt(hi))
					o.Hit = mc.RectCollision(r)
					for _, t := range tris {
						if t.RectCollision(r) {
							o.Hitlin = true
						}
					}
					rec.Multi = append(rec.Multi, o)
				default:
					if i%2 == 0 { // axis-aligned query triangles (flat bounding boxes)
						k := rng.Intn(3)
						b[k], c3[k] = a[k], a[k]
					}
					q := &model3d.Triangle{halfPt(a), halfPt(b), halfPt(c3)}
					if q.Area() == 0 {
						continue
					}
					o := multiObs{Kind: "tri", A: a, B: b, C: c3}
					o.N = len(mc.TriangleCollisions(q))
					for _, t := range tris {
						o.Nlin += len(t.TriangleCollisions(q))
					}
					o.Hit, o.Hitlin = o.N > 0, o.Nlin > 0
					rec.Multi = append(rec.Multi, o)
				}
			}
		}
	})
	return rec
}

// voxSDF is one way of obtaining a distance field for a voxel world.  Whatever the field offers beyond SDF
// (PointSDF, NormalSDF, FaceSDF) is observed as well; what it does not offer is left out of the record (empty
// np / axis 0), which VoxelJudge does not decide.
type voxSDF struct {
	name  string
	build func(m *model3d.Mesh) model3d.SDF
	// tol: the documented accuracy of the value where the true distance is about v (nil: exact up to rounding)
	tol func(v float64) float64
}

// bisectTol: ColliderToSDF brackets the distance d between two powers of two (x < d <= 2x) and halves the bracket
// `iterations` times, so the answer is within d * 2^-iterations of d; a distance below 2^-iterations cannot be
// bracketed and is answered by a value in [2^-iterations, 2^-(iterations-1)].
func bisectTol(iterations int) func(float64) float64 {
	if iterations == 0 {
		iterations = 32 // documented default
	}
	return func(v float64) float64 {
		return v*math.Ldexp(1, -iterations) + math.Ldexp(1, 1-iterations) + 1e-12
	}
}

func voxSDFs(rng *rand.Rand) []voxSDF {
	iters := []int{0, 24, 16}[rng.Intn(3)]
	return []voxSDF{
		{"ColliderToSDF", func(m *model3d.Mesh) model3d.SDF {
			return model3d.ColliderToSDF(model3d.MeshToCollider(m), iters)
		}, bisectTol(iters)},
	}
}

var meshToSDF = voxSDF{"MeshToSDF", func(m *model3d.Mesh) model3d.SDF { return model3d.MeshToSDF(m) }, nil}

// groupedTrianglesToSDF: the constructor behind MeshToSDF, called directly - on triangles grouped by GroupTriangles
// and, every other time, on triangles in random order ("if the triangles are not grouped by GroupTriangles(), the
// resulting PointSDF is inefficient": grouping is a matter of speed, the answers must be the same)
func groupedTrianglesToSDF(rng *rand.Rand) voxSDF {
	grouped := rng.Intn(2) == 0
	return voxSDF{"GroupedTrianglesToSDF", func(m *model3d.Mesh) model3d.SDF {
		tris := m.TriangleSlice()
		rng.Shuffle(len(tris), func(i, j int) { tris[i], tris[j] = tris[j], tris[i] })
		if grouped {
			model3d.GroupTriangles(tris)
		}
		return model3d.GroupedTrianglesToSDF(tris)
	}, nil}
}

func runVoxelSDF(id int, vox [][3]int, vs voxSDF, rng *rand.Rand, n int, ext [3]int) voxelRecord {
	rec := voxelRecord{Id: id, Site: vs.name, Variant: "voxel-world", Voxels: vox, Rays: []rayObs{}, Spheres: []sphObs{},
		Sdf: []sdfObs{}, Contains: []containsObs{}, Multi: []multiObs{}}
	rec.Panic = protect(func() {
		m := voxelMesh(vox)
		sdf := vs.build(m)
		psdf, _ := sdf.(model3d.PointSDF)
		nsdf, _ := sdf.(model3d.NormalSDF)
		fsdf, _ := sdf.(model3d.FaceSDF)
		for i := 0; i < n; i++ {
			p := [3]int{rng.Intn(2*ext[0]+5) - 2, rng.Intn(2*ext[1]+5) - 2, rng.Intn(2*ext[2]+5) - 2}
			c := halfPt(p)
			o := sdfObs{P: p, Np: []int{}}
			d := sdf.SDF(c)
			o.Sgn = sign(d)
			// the squared distance in half units is an integer: the value is exact (to the documented
			// accuracy) iff 4 d^2 is within the corresponding distance of that integer
			x := d * d * 4
			tol := 1e-9
			if vs.tol != nil {
				t := vs.tol(math.Abs(d))
				tol += 4 * t * (2*math.Abs(d) + t)
			}
			if math.Abs(x-math.Round(x)) > tol {
				o.Bad++
			}
			o.D2 = int(math.Round(x))
			var np, nrm model3d.Coord3D
			if psdf != nil {
				var d1 float64
				np, d1 = psdf.PointSDF(c)
				if d1 != d {
					o.Bad++
				}
				for _, v := range np.Array() {
					h := v * 2
					if math.Abs(h-math.Round(h)) > 1e-9 {
						o.Bad++
					}
					o.Np = append(o.Np, int(math.Round(h)))
				}
				// the reported point is at the reported distance
				if math.Abs(np.Dist(c)-math.Abs(d)) > 1e-9 {
					o.Bad++
				}
			}
			if nsdf != nil {
				var d2 float64
				nrm, d2 = nsdf.NormalSDF(c)
				if d2 != d {
					o.Bad++
				}
				ax, sg, ok := axisNormal(nrm)
				if !ok {
					o.Bad++
				}
				o.Axis, o.Nsgn = ax, sg
			}
			if fsdf != nil {
				face, np2, d3 := fsdf.FaceSDF(c)
				if d3 != d || np2 != np {
					o.Bad++
				}
				// the reported face must contain the reported point and have the reported normal
				if face == nil || math.Abs(face.Dist(np)) > 1e-9 || face.Normal().Dist(nrm) > 1e-9 {
					o.Bad++
				}
			}
			rec.Sdf = append(rec.Sdf, o)
		}
		// the same probes once more from four goroutines at once ("all methods of an SDF are safe for
		// concurrency"): every value must be the one the single caller got, bit for bit
		want := make([]float64, len(rec.Sdf))
		for i, o := range rec.Sdf {
			want[i] = sdf.SDF(halfPt(o.P))
		}
		var concBad int32
		var wg sync.WaitGroup
		for g := 0; g < 4; g++ {
			wg.Add(1)
			go func(g int) {
				defer wg.Done()
				for rep := 0; rep < 3; rep++ {
					for k := range rec.Sdf {
						i := (k*5 + g*7 + rep) % len(rec.Sdf)
						var d float64
						if p := protect(func() { d = sdf.SDF(halfPt(rec.Sdf[i].P)) }); p != "" || d != want[i] {
							atomic.AddInt32(&concBad, 1)
						}
						runtime.Gosched()
					}
				}
			}(g)
		}
		wg.Wait()
		rec.ConcBad = int(concBad)
	})
	return rec
}

// ---------------------------------------------------------------------------- extrusions
//
// A pixel set P (unit squares [x,x+1] x [y,y+1]) extruded from z0 to z1 IS the voxel world P x {z0..z1-1}.  The
// library's extruded objects (ProfileCollider, ProfileSDF, ProfilePointSDF, ProfileSolid over the 2-D outline of
// P) must therefore give the answers VoxelJudge demands of that voxel world.

// pixelOutline is the boundary of a pixel set: one unit segment per boundary pixel side, directed so that
// Segment.Normal points out of the set (the direction convention of Bitmap.Mesh, without its corner cutting).
func pixelOutline(pix [][2]int) *model2d.Mesh {
	set := map[[2]int]bool{}
	for _, p := range pix {
		set[p] = true
	}
	m := model2d.NewMesh()
	for _, p := range pix {
		x, y := float64(p[0]), float64(p[1])
		p1, p2, p3, p4 := model2d.XY(x, y), model2d.XY(x+1, y), model2d.XY(x+1, y+1), model2d.XY(x, y+1)
		if !set[[2]int{p[0] - 1, p[1]}] {
			m.Add(&model2d.Segment{p1, p4})
		}
		if !set[[2]int{p[0] + 1, p[1]}] {
			m.Add(&model2d.Segment{p3, p2})
		}
		if !set[[2]int{p[0], p[1] + 1}] {
			m.Add(&model2d.Segment{p4, p3})
		}
		if !set[[2]int{p[0], p[1] - 1}] {
			m.Add(&model2d.Segment{p2, p1})
		}
	}
	return m
}

type extWorld struct {
	pix    [][2]int
	z0, z1 int
}

func (w *extWorld) voxels() [][3]int {
	var out [][3]int
	for z := w.z0; z < w.z1; z++ {
		for _, p := range w.pix {
			out = append(out, [3]int{p[0], p[1], z})
		}
	}
	return out
}

func (w *extWorld) bitmap() *model2d.Bitmap {
	mx, my := 0, 0
	for _, p := range w.pix {
		if p[0] >= mx {
			mx = p[0] + 1
		}
		if p[1] >= my {
			my = p[1] + 1
		}
	}
	b := model2d.NewBitmap(mx, my)
	for _, p := range w.pix {
		b.Set(p[0], p[1], true)
	}
	return b
}

// extColliders: the extruded outline as a collider (no triangles: clause "scan" is vacuous for these)
func extColliders(w *extWorld) []voxCollider {
	z0, z1 := float64(w.z0), float64(w.z1)
	// (Finding D1, fixed in /repo: profileCollider.RayCollisions decided the top / bottom faces by the parity of all
	// later 2-D collisions of the ray's xy-shadow, which is wrong when the shadow passes through an outline vertex
	// anywhere further along the ray.)  Rays whose shadow meets an outline vertex INSIDE the z range touch a vertical
	// edge of the surface: they are not in general position and are not put to the profile colliders.
	verts := map[[2]int]bool{}
	for _, s := range pixelOutline(w.pix).SegmentSlice() {
		for _, c := range s {
			verts[[2]int{int(c.X), int(c.Y)}] = true
		}
	}
	skip := func(o, d [3]int) bool {
		if d[0] == 0 && d[1] == 0 {
			return false
		}
		for v := range verts {
			wx, wy := 2*v[0]-o[0], 2*v[1]-o[1]
			if wx*d[1]-wy*d[0] != 0 || wx*d[0]+wy*d[1] < 0 {
				continue
			}
			// the shadow passes through v at parameter t = (w.d)/(d.d) (half units); z there, doubled
			num, den := wx*d[0]+wy*d[1], d[0]*d[0]+d[1]*d[1]
			// z2 = o_z + t*d_z in half units, compared with the doubled z range, all times den
			z := o[2]*den + num*d[2]
			if z >= 2*w.z0*den && z <= 2*w.z1*den {
				return true
			}
		}
		return false
	}
	return []voxCollider{
		{"ProfileCollider(MeshToCollider)", func(_ *model3d.Mesh, _ *rand.Rand) model3d.Collider {
			return model3d.ProfileCollider(model2d.MeshToCollider(pixelOutline(w.pix)), z0, z1)
		}, true, skip, false},
		{"ProfileCollider(JoinedCollider)", func(_ *model3d.Mesh, rng *rand.Rand) model3d.Collider {
			segs := pixelOutline(w.pix).SegmentSlice()
			rng.Shuffle(len(segs), func(i, j int) { segs[i], segs[j] = segs[j], segs[i] })
			var cs []model2d.Collider
			for _, s := range segs {
				cs = append(cs, s)
			}
			return model3d.ProfileCollider(model2d.NewJoinedCollider(cs), z0, z1)
		}, true, skip, false},
	}
}

// extSolids: the extruded 2-D solid, observed through Contains only
func extSolids(w *extWorld) []struct {
	name  string
	build func() model3d.Solid
} {
	z0, z1 := float64(w.z0), float64(w.z1)
	return []struct {
		name  string
		build func() model3d.Solid
	}{
		{"ProfileSolid(ColliderSolid)", func() model3d.Solid {
			return model3d.ProfileSolid(model2d.NewColliderSolid(model2d.MeshToCollider(pixelOutline(w.pix))), z0, z1)
		}},
		{"ProfileSolid(BitmapToSolid)", func() model3d.Solid {
			return model3d.ProfileSolid(model2d.BitmapToSolid(w.bitmap()), z0, z1)
		}},
	}
}

func extSDFs(w *extWorld, rng *rand.Rand) []voxSDF {
	z0, z1 := float64(w.z0), float64(w.z1)
	iters := []int{0, 24, 16}[rng.Intn(3)]
	return []voxSDF{
		{"ProfileSDF(MeshToSDF)", func(_ *model3d.Mesh) model3d.SDF {
			return model3d.ProfileSDF(model2d.MeshToSDF(pixelOutline(w.pix)), z0, z1)
		}, nil},
		{"ProfilePointSDF(MeshToSDF)", func(_ *model3d.Mesh) model3d.SDF {
			return model3d.ProfilePointSDF(model2d.MeshToSDF(pixelOutline(w.pix)), z0, z1)
		}, nil},
		{"ProfileSDF(model2d.ColliderToSDF)", func(_ *model3d.Mesh) model3d.SDF {
			return model3d.ProfileSDF(model2d.ColliderToSDF(model2d.MeshToCollider(pixelOutline(w.pix)), iters), z0, z1)
		}, bisectTol(iters)},
	}
}

func runExtSolid(id int, vox [][3]int, name string, build func() model3d.Solid, rng *rand.Rand, n int, ext [3]int) voxelRecord {
	rec := voxelRecord{Id: id, Site: name, Variant: "voxel-world", Voxels: vox, Rays: []rayObs{}, Spheres: []sphObs{},
		Sdf: []sdfObs{}, Contains: []containsObs{}, Multi: []multiObs{}}
	rec.Panic = protect(func() {
		s := build()
		for i := 0; i < n; i++ {
			p := [3]int{rng.Intn(2*ext[0]+5) - 2, rng.Intn(2*ext[1]+5) - 2, rng.Intn(2*ext[2]+5) - 2}
			rec.Contains = append(rec.Contains, containsObs{p, s.Contains(halfPt(p)), 0})
		}
	})
	return rec
}

func subsetVoxels(nx, ny, nz int, bits uint64) [][3]int {
	var out [][3]int
	i := 0
	for z := 0; z < nz; z++ {
		for y := 0; y < ny; y++ {
			for x := 0; x < nx; x++ {
				if bits&(1<<uint(i)) != 0 {
					out = append(out, [3]int{x, y, z})
				}
				i++
			}
		}
	}
	return out
}

func init() {
	// c07-voxel out= stats= plan=  items all:NX,NY,NZ | rand:NX,NY,NZ:COUNT | extall:NX,NY,NZ | ext:NX,NY,NZ:COUNT ;
	// rays=N spheres=N sdf=N kinds=collider,sdf derived=0|1
	// all / rand: voxel worlds as mesh colliders and mesh distance fields (derived=1: also ColliderToSDF).
	// extall / ext: extrusions (a pixel set of the NX x NY grid times a z range inside 0..NZ) as the library's
	// extruded objects: ProfileCollider, ProfileSolid, ProfileSDF, ProfilePointSDF over the 2-D outline.
	register("c07-voxel", func(a args) {
		out := newNDWriter(a.str("out", "records.ndjson"))
		defer out.close()
		rng := rand.New(rand.NewSource(int64(a.int("seed", 1))))
		// the derived variants draw from their own stream, so that the records of the mesh variants do not
		// depend on whether the derived ones are requested
		rng2 := rand.New(rand.NewSource(int64(a.int("seed", 1))*7919 + 77))
		// ... and so do the variants added later (voxColliders2, GroupedTrianglesToSDF); their ids come from a
		// counter of their own: every record that existed before them is still written with the same contents
		rng3 := rand.New(rand.NewSource(int64(a.int("seed", 1))*104729 + 13))
		stats := map[string]int{}
		id, id3 := 0, 1<<20
		kinds := a.str("kinds", "collider,sdf")
		derived := a.int("derived", 0) != 0
		colliders := voxColliders()
		colliders2 := voxColliders2()
		put := func(rec voxelRecord) {
			stats["records"]++
			stats["nonempty"]++
			stats["site:"+rec.Site]++
			stats["rays"] += len(rec.Rays)
			stats["rays-skipped"] += rec.Skipped
			out.write(rec)
		}
		sortVox := func(vox [][3]int) {
			sort.Slice(vox, func(i, j int) bool {
				for k := 2; k >= 0; k-- {
					if vox[i][k] != vox[j][k] {
						return vox[i][k] < vox[j][k]
					}
				}
				return false
			})
		}
		emit := func(vox [][3]int, ext [3]int) {
			if len(vox) == 0 {
				return
			}
			sortVox(vox)
			if strings.Contains(kinds, "collider") {
				for _, vc := range colliders {
					id++
					put(runVoxelWorld(id, vox, vc, rng, a.int("rays", 40), a.int("spheres", 20), ext))
				}
			}
			if strings.Contains(kinds, "sdf") {
				id++
				put(runVoxelSDF(id, vox, meshToSDF, rng, a.int("sdf", 40), ext))
				if derived {
					for _, vs := range voxSDFs(rng2) {
						id++
						put(runVoxelSDF(id, vox, vs, rng2, a.int("sdf", 40), ext))
					}
				}
			}
			if strings.Contains(kinds, "collider") {
				for _, vc := range colliders2 {
					id3++
					put(runVoxelWorld(id3, vox, vc, rng3, a.int("rays", 40), a.int("spheres", 20), ext))
				}
			}
			if strings.Contains(kinds, "sdf") {
				id3++
				put(runVoxelSDF(id3, vox, groupedTrianglesToSDF(rng3), rng3, a.int("sdf", 40), ext))
			}
		}
		emitExt := func(w *extWorld, ext [3]int) {
			if len(w.pix) == 0 || w.z0 >= w.z1 {
				return
			}
			vox := w.voxels()
			sortVox(vox)
			stats["extrusions"]++
			if strings.Contains(kinds, "collider") {
				for _, vc := range extColliders(w) {
					id++
					put(runVoxelWorld(id, vox, vc, rng2, a.int("rays", 40), a.int("spheres", 20), ext))
				}
				for _, es := range extSolids(w) {
					id++
					put(runExtSolid(id, vox, es.name, es.build, rng2, 2*a.int("spheres", 20), ext))
				}
			}
			if strings.Contains(kinds, "sdf") {
				for _, vs := range extSDFs(w, rng2) {
					id++
					put(runVoxelSDF(id, vox, vs, rng2, a.int("sdf", 40), ext))
				}
			}
		}
		subsetPixels := func(nx, ny int, bits uint64) [][2]int {
			var pix [][2]int
			for j := 0; j < nx*ny; j++ {
				if bits&(1<<uint(j)) != 0 {
					pix = append(pix, [2]int{j % nx, j / nx})
				}
			}
			return pix
		}
		for _, item := range strings.Split(a.str("plan", ""), ";") {
			if item == "" {
				continue
			}
			f := strings.Split(item, ":")
			var nx, ny, nz int
			parseDims(f[1], &nx, &ny, &nz)
			ext := [3]int{nx, ny, nz}
			switch f[0] {
			case "all":
				for bits := uint64(1); bits < 1<<uint(nx*ny*nz); bits++ {
					emit(subsetVoxels(nx, ny, nz, bits), ext)
				}
			case "rand":
				for i := 0; i < atoi(f[2]); i++ {
					dens := 0.2 + 0.6*rng.Float64()
					var bits uint64
					for j := 0; j < nx*ny*nz; j++ {
						if rng.Float64() < dens {
							bits |= 1 << uint(j)
						}
					}
					emit(subsetVoxels(nx, ny, nz, bits), ext)
				}
			case "extall": // every non-empty pixel set, every z range
				for bits := uint64(1); bits < 1<<uint(nx*ny); bits++ {
					for z0 := 0; z0 < nz; z0++ {
						for z1 := z0 + 1; z1 <= nz; z1++ {
							emitExt(&extWorld{subsetPixels(nx, ny, bits), z0, z1}, ext)
						}
					}
				}
			case "ext":
				for i := 0; i < atoi(f[2]); i++ {
					dens := 0.2 + 0.6*rng2.Float64()
					var bits uint64
					for bits == 0 {
						for j := 0; j < nx*ny; j++ {
							if rng2.Float64() < dens {
								bits |= 1 << uint(j)
							}
						}
					}
					z0 := rng2.Intn(nz)
					z1 := z0 + 1 + rng2.Intn(nz-z0)
					emitExt(&extWorld{subsetPixels(nx, ny, bits), z0, z1}, ext)
				}
			default:
				fatal("c07-voxel: unknown plan item %q", item)
			}
		}
		writeJSONFile(a.str("stats", "stats.json"), stats)
	})
}
