package main

// C11: abstract complexes / forests / flip sets of spec/mesh/ComplexGen.tla realised as real
// meshes; observations of the real diagnostics, repairs and hierarchies for DiagJudge.tla.

import (
	"encoding/json"
	"math"
	"math/rand"
	"sort"
	"time"

	"github.com/unixpickle/model3d/model2d"
	"github.com/unixpickle/model3d/model3d"
)

var genericPts = []model3d.Coord3D{
	{X: 0.13, Y: 0.21, Z: 0.05}, {X: 1.31, Y: 0.17, Z: -0.11}, {X: 0.47, Y: 1.23, Z: 0.19},
	{X: 0.59, Y: 0.43, Z: 1.37}, {X: -0.71, Y: 0.83, Z: 0.67}, {X: 1.1, Y: 1.4, Z: 1.2},
}

type diagRec struct {
	ID         int     `json:"id"`
	Kind       string  `json:"kind"`
	Site       string  `json:"site"`
	F          [][]int `json:"F"`
	Needs      bool    `json:"needs"`
	Sing       []int   `json:"sing"`
	Incons     [][]int `json:"incons"`
	Orientable bool    `json:"orientable"`
	Panic      string  `json:"panic"`
	// FaceOrientations: groups of face indices (1-based, as in F) with their flags; its own panic (the call
	// is documented for orientable manifolds only - DiagJudge decides whether F is one)
	// Clusters: per vertex (first entry: its name) the sizes, ascending, of the clusters the pointer mesh's fan
	// search (ptrCoord.Clusters, the search behind the dual contouring repair) puts its faces into
	Clusters [][]int  `json:"clusters"`
	FoGroups [][]int  `json:"fogroups"`
	FoFlags  [][]bool `json:"foflags"`
	FoPanic  string   `json:"fopanic"`
}

func diagRun(id int, faces [][]int, indexFirst bool) diagRec {
	rec := diagRec{ID: id, Kind: "diag", Site: "model3d.Mesh", F: faces, Sing: []int{}, Incons: [][]int{}, Clusters: [][]int{},
		FoGroups: [][]int{}, FoFlags: [][]bool{}}
	var mesh *model3d.Mesh
	faceOf := map[*model3d.Triangle]int{}
	name := map[model3d.Coord3D]int{}
	for i, p := range genericPts {
		name[p] = i + 1
	}
	rec.Panic = protect(func() {
		m := model3d.NewMesh()
		if indexFirst {
			m.VertexSlice() // build the lazy index before the faces are added
		}
		for i, f := range faces {
			t := &model3d.Triangle{genericPts[f[0]-1], genericPts[f[1]-1], genericPts[f[2]-1]}
			faceOf[t] = i + 1
			m.Add(t)
		}
		mesh = m
		rec.Needs = m.NeedsRepair()
		for _, v := range m.SingularVertices() {
			rec.Sing = append(rec.Sing, name[v])
		}
		sort.Ints(rec.Sing)
		for _, e := range m.InconsistentEdges() {
			rec.Incons = append(rec.Incons, []int{name[e[0]], name[e[1]]})
		}
		rec.Orientable = m.Orientable()
		for v, groups := range model3d.VerifFanClusters(m) {
			row := []int{}
			for _, g := range groups {
				row = append(row, len(g))
			}
			sort.Ints(row)
			rec.Clusters = append(rec.Clusters, append([]int{name[v]}, row...))
		}
		sort.Slice(rec.Clusters, func(i, j int) bool { return rec.Clusters[i][0] < rec.Clusters[j][0] })
	})
	if rec.Panic == "" {
		rec.FoPanic = protect(func() {
			for _, g := range mesh.FaceOrientations() {
				idx := []int{}
				for t := range g {
					idx = append(idx, faceOf[t])
				}
				sort.Ints(idx)
				flags := make([]bool, len(idx))
				for t, fl := range g {
					flags[sort.SearchInts(idx, faceOf[t])] = fl
				}
				rec.FoGroups = append(rec.FoGroups, idx)
				rec.FoFlags = append(rec.FoFlags, flags)
			}
		})
		if rec.FoPanic != "" {
			rec.FoGroups, rec.FoFlags = [][]int{}, [][]bool{}
		}
	}
	return rec
}

// ---------------------------------------------------------------- dual contouring repair (ptrCoord.Clusters)

type dcRepairRec struct {
	ID     int     `json:"id"`
	Kind   string  `json:"kind"`
	Site   string  `json:"site"`
	Cells  []int   `json:"cells"`
	F      [][]int `json:"F"`
	Sing0  int     `json:"sing0"`
	Needs0 bool    `json:"needs0"`
	Panic  string  `json:"panic"`
}

// dcRepairRun: unit voxels of a 2x2x2 block (cell k = bits x, y, z of k-1) contoured on the half-unit grid
func dcRepairRun(id int, cells []int) dcRepairRec {
	rec := dcRepairRec{ID: id, Kind: "dcrepair", Site: "model3d.DualContouring(Repair)", Cells: cells, F: [][]int{}}
	var solid model3d.JoinedSolid
	for _, c := range cells {
		k := c - 1
		lo := model3d.XYZ(float64(k&1), float64(k>>1&1), float64(k>>2&1))
		solid = append(solid, model3d.NewRect(lo, lo.Add(model3d.Ones(1))))
	}
	outcome, pan := withDeadline(20*time.Second, func() {
		plain := (&model3d.DualContouring{S: model3d.SolidSurfaceEstimator{Solid: solid}, Delta: 0.5, Clip: true}).Mesh()
		rec.Sing0, rec.Needs0 = len(plain.SingularVertices()), plain.NeedsRepair()
		m := (&model3d.DualContouring{S: model3d.SolidSurfaceEstimator{Solid: solid}, Delta: 0.5, Clip: true, Repair: true}).Mesh()
		rec.F = complex3(m, map[model3d.Coord3D]int{})
	})
	if outcome != "ok" {
		rec.Panic = outcome + " " + pan
		rec.F = [][]int{}
	}
	return rec
}

type diag2Rec struct {
	ID       int     `json:"id"`
	Kind     string  `json:"kind"`
	Site     string  `json:"site"`
	S        [][]int `json:"S"`
	Manifold bool    `json:"manifold"`
	Incons   []int   `json:"incons"`
	Panic    string  `json:"panic"`
}

func diag2Run(id int, segs [][]int) diag2Rec {
	rec := diag2Rec{ID: id, Kind: "diag2", Site: "model2d.Mesh", S: segs, Incons: []int{}}
	pt := func(i int) model2d.Coord { return model2d.XY(genericPts[i-1].X, genericPts[i-1].Y) }
	name := map[model2d.Coord]int{}
	for i := range genericPts {
		name[pt(i+1)] = i + 1
	}
	rec.Panic = protect(func() {
		m := model2d.NewMesh()
		for _, s := range segs {
			m.Add(&model2d.Segment{pt(s[0]), pt(s[1])})
		}
		rec.Manifold = m.Manifold()
		for _, v := range m.InconsistentVertices() {
			rec.Incons = append(rec.Incons, name[v])
		}
		sort.Ints(rec.Incons)
	})
	return rec
}

// closed, outward-oriented convex complexes with lattice realisations
type solidComplex struct {
	name  string
	verts []model3d.Coord3D
	faces [][]int
}

func convexComplexes() []solidComplex {
	tet := solidComplex{name: "tetrahedron",
		verts: []model3d.Coord3D{{X: 0, Y: 0, Z: 0}, {X: 2, Y: 0, Z: 0}, {X: 0, Y: 2, Z: 0}, {X: 0, Y: 0, Z: 2}},
		faces: [][]int{{1, 3, 2}, {1, 2, 4}, {2, 3, 4}, {1, 4, 3}}}
	oct := solidComplex{name: "octahedron",
		verts: []model3d.Coord3D{{X: 2}, {X: -2}, {Y: 2}, {Y: -2}, {Z: 2}, {Z: -2}},
		faces: [][]int{{1, 3, 5}, {3, 2, 5}, {2, 4, 5}, {4, 1, 5}, {3, 1, 6}, {2, 3, 6}, {4, 2, 6}, {1, 4, 6}}}
	cube := solidComplex{name: "cube"}
	ids := map[model3d.Coord3D]int{}
	model3d.NewMeshRect(model3d.XYZ(1, 1, 1), model3d.XYZ(3, 4, 5)).Iterate(func(t *model3d.Triangle) {
		f := []int{0, 0, 0}
		for k, c := range t {
			if _, ok := ids[c]; !ok {
				ids[c] = len(ids) + 1
				cube.verts = append(cube.verts, c)
			}
			f[k] = ids[c]
		}
		cube.faces = append(cube.faces, f)
	})
	return []solidComplex{tet, oct, cube}
}

type repairRec struct {
	ID      int     `json:"id"`
	Kind    string  `json:"kind"`
	Site    string  `json:"site"`
	F       [][]int `json:"F"`
	Out     [][]int `json:"out"`
	Copies  []int   `json:"copies"`
	Flipped []int   `json:"flipped"`
	Count   int     `json:"count"`
	Panic   string  `json:"panic"`
}

func nearestVertex(verts []model3d.Coord3D, c model3d.Coord3D, tol float64) int {
	for i, v := range verts {
		if v.Dist(c) <= tol {
			return i + 1
		}
	}
	return 0
}

// repairRun: every face gets its own copies of its vertices.  chain = false: jittered by less than
// epsilon/4 per coordinate (one tight cluster per vertex); chain = true: three copies per vertex
// in a row, 3/4 epsilon apart (neighbours closer than epsilon, the ends further apart: they fall
// into three consecutive cells of the merge grid and are merged through the middle one).
func repairRun(id int, sc solidComplex, rng *rand.Rand, chain bool) repairRec {
	eps := 0.01
	site := "Repair:"
	if chain {
		eps = 1.0 / 128
		site = "Repair(chain):"
	}
	rec := repairRec{ID: id, Kind: "repair", Site: site + sc.name, F: sc.faces, Out: [][]int{}, Flipped: []int{}}
	rec.Panic = protect(func() {
		m := model3d.NewMesh()
		occ := map[int]int{} // occurrences of each vertex so far: its copies are used in the order -1, 0, +1, -1, ...
		for _, f := range sc.faces {
			t := &model3d.Triangle{}
			for k := 0; k < 3; k++ {
				j := model3d.XYZ(rng.Float64()-0.5, rng.Float64()-0.5, rng.Float64()-0.5).Scale(eps / 2)
				if chain {
					var off [3]float64
					off[(f[k]+id)%3] = float64(occ[f[k]]%3-1) * 0.75 * eps
					occ[f[k]]++
					j = model3d.NewCoord3DArray(off)
				}
				t[k] = sc.verts[f[k]-1].Add(j)
			}
			m.Add(t)
		}
		out := m.Repair(eps)
		seen := make([]map[model3d.Coord3D]bool, len(sc.verts))
		for i := range seen {
			seen[i] = map[model3d.Coord3D]bool{}
		}
		out.Iterate(func(t *model3d.Triangle) {
			f := []int{0, 0, 0}
			for k, c := range t {
				f[k] = nearestVertex(sc.verts, c, eps)
				if f[k] > 0 {
					seen[f[k]-1][c] = true
				}
			}
			rec.Out = append(rec.Out, f)
		})
		for _, s := range seen {
			rec.Copies = append(rec.Copies, len(s))
		}
	})
	return rec
}

func normalsRun(id int, sc solidComplex, flipped []int, majority bool) repairRec {
	site := "RepairNormals:"
	if majority {
		site = "RepairNormalsMajority:"
	}
	rec := repairRec{ID: id, Kind: "normals", Site: site + sc.name, F: sc.faces, Out: [][]int{}, Flipped: flipped, Copies: []int{}}
	isFlipped := map[int]bool{}
	for _, i := range flipped {
		isFlipped[i] = true
	}
	rec.Panic = protect(func() {
		m := model3d.NewMesh()
		for i, f := range sc.faces {
			t := &model3d.Triangle{sc.verts[f[0]-1], sc.verts[f[1]-1], sc.verts[f[2]-1]}
			if isFlipped[i+1] {
				t[0], t[1] = t[1], t[0]
			}
			m.Add(t)
		}
		var out *model3d.Mesh
		if majority {
			out, rec.Count = m.RepairNormalsMajority()
		} else {
			out, rec.Count = m.RepairNormals(1e-4)
		}
		out.Iterate(func(t *model3d.Triangle) {
			rec.Out = append(rec.Out, []int{nearestVertex(sc.verts, t[0], 0), nearestVertex(sc.verts, t[1], 0), nearestVertex(sc.verts, t[2], 0)})
		})
	})
	return rec
}

// ---------------------------------------------------------------- nesting forests

type forestProbe struct {
	In  []int `json:"in"`
	Hit bool  `json:"hit"`
}
type forestRec struct {
	ID     int           `json:"id"`
	Kind   string        `json:"kind"`
	Site   string        `json:"site"`
	Parent []int         `json:"parent"`
	Got    []int         `json:"got"`
	NFaces int           `json:"nfaces"`
	Per    []int         `json:"per"`
	NF     []int         `json:"nf,omitempty"` // faces per node where the shells are not boxes (default 12 each)
	Probes []forestProbe `json:"probes"`
	Panic  string        `json:"panic"`
	// model3d only: SelfIntersections of the nested shells / with a shifted copy of a root shell added
	SelfInt  int `json:"selfint"`
	SelfIntX int `json:"selfintx"`
}

type box3 struct{ lo, hi [3]float64 }

// lays the forest out as nested boxes: the children of a node sit in distinct corners
// (chosen by perm) of their parent, roots side by side along x
func forestLayout(parent []int, perm []int) []box3 {
	n := len(parent)
	children := make([][]int, n+1)
	for i, p := range parent {
		children[p] = append(children[p], i+1)
	}
	size := make([]float64, n+1)
	var measure func(v int) float64
	measure = func(v int) float64 {
		mx := 0.0
		for _, c := range children[v] {
			if s := measure(c); s > mx {
				mx = s
			}
		}
		if len(children[v]) == 0 {
			size[v] = 1
		} else {
			size[v] = 2*mx + 3 // two cells of side mx+1 plus margins
		}
		return size[v]
	}
	boxes := make([]box3, n+1)
	var place func(v int, lo [3]float64)
	place = func(v int, lo [3]float64) {
		boxes[v] = box3{lo, [3]float64{lo[0] + size[v], lo[1] + size[v], lo[2] + size[v]}}
		cell := (size[v] - 3) / 2
		for k, c := range children[v] {
			corner := perm[k%len(perm)]
			var clo [3]float64
			for a := 0; a < 3; a++ {
				if corner>>uint(a)&1 == 0 {
					clo[a] = lo[a] + 1
				} else {
					clo[a] = lo[a] + size[v] - 1 - size[c]
				}
				_ = cell
			}
			place(c, clo)
		}
	}
	x := 0.0
	for _, r := range children[0] {
		measure(r)
		place(r, [3]float64{x, 0.5, -0.25})
		x += size[r] + 1.5
	}
	return boxes
}

func forestRun(id int, parent []int, rng *rand.Rand) forestRec {
	rec := forestRec{ID: id, Kind: "forest", Site: "model3d.MeshToHierarchy", Parent: parent, Got: make([]int, len(parent)),
		Per: make([]int, len(parent)), Probes: []forestProbe{}}
	perm := rng.Perm(8)
	// make sure the (+x, +y, -z) corner, which the sweep axis treats specially, is used first
	if rng.Intn(2) == 0 {
		for i, c := range perm {
			if c == 3 {
				perm[0], perm[i] = perm[i], perm[0]
			}
		}
	}
	boxes := forestLayout(parent, perm)
	// anisotropic shells (tall / long boxes): the layout is stretched along one axis
	stretch := [][3]float64{{1, 1, 1}, {1, 1, 8}, {8, 1, 1}, {1, 8, 1}}[rng.Intn(4)]
	for v := range boxes {
		for a := 0; a < 3; a++ {
			boxes[v].lo[a] *= stretch[a]
			boxes[v].hi[a] *= stretch[a]
		}
	}
	mesh := model3d.NewMesh()
	for v := 1; v <= len(parent); v++ {
		b := boxes[v]
		mesh.AddMesh(model3d.NewMeshRect(model3d.XYZ(b.lo[0], b.lo[1], b.lo[2]), model3d.XYZ(b.hi[0], b.hi[1], b.hi[2])))
	}
	nodeOf := func(m *model3d.Mesh) int {
		mn, mx := m.Min(), m.Max()
		for v := 1; v <= len(parent); v++ {
			b := boxes[v]
			if mn == model3d.XYZ(b.lo[0], b.lo[1], b.lo[2]) && mx == model3d.XYZ(b.hi[0], b.hi[1], b.hi[2]) {
				return v
			}
		}
		return 0
	}
	var roots []*model3d.MeshHierarchy
	outcome, pan := withDeadline(10*time.Second, func() { roots = model3d.MeshToHierarchy(mesh) })
	if outcome != "ok" {
		rec.Panic = outcome + " " + pan
		return rec
	}
	rec.Panic = protect(func() {
		for i := range rec.Got {
			rec.Got[i] = -1
		}
		var walk func(h *model3d.MeshHierarchy, par int)
		walk = func(h *model3d.MeshHierarchy, par int) {
			v := nodeOf(h.Mesh)
			if v > 0 {
				rec.Got[v-1] = par
				rec.Per[v-1] += h.Mesh.NumTriangles()
			}
			for _, c := range h.Children {
				walk(c, v)
			}
		}
		// SelfIntersections: disjoint nested shells are an "ideal mesh"; a copy of the first root shell shifted by
		// 3/8 .. 1/2 of its size along every axis passes through that shell's surface
		rec.SelfInt = mesh.SelfIntersections()
		rec.SelfIntX = -1
		for v := 1; v <= len(parent); v++ {
			if parent[v-1] == 0 {
				b := boxes[v]
				sz := model3d.XYZ(b.hi[0]-b.lo[0], b.hi[1]-b.lo[1], b.hi[2]-b.lo[2])
				sh := sz.Mul(model3d.XYZ(0.5, 0.4375, 0.375))
				crossed := mesh.Copy()
				lo := model3d.XYZ(b.lo[0], b.lo[1], b.lo[2]).Add(sh)
				crossed.AddMesh(model3d.NewMeshRect(lo, lo.Add(sz)))
				rec.SelfIntX = crossed.SelfIntersections()
				break
			}
		}
		// FullMesh must leave the hierarchy as it is: it is taken (twice) BEFORE the nodes are inspected
		for _, r := range roots {
			r.FullMesh()
			rec.NFaces += r.FullMesh().NumTriangles()
		}
		for _, r := range roots {
			walk(r, 0)
		}
		for k := 0; k < 60; k++ {
			// probe points off every face: coordinates with a fractional part of 0.37
			var p [3]float64
			b := boxes[1+rng.Intn(len(parent))]
			for a := 0; a < 3; a++ {
				// a lattice cell of the unstretched layout, offset by 0.37 cells (off every face)
				lo, hi := b.lo[a]/stretch[a], b.hi[a]/stretch[a]
				p[a] = (lo - 1 + float64(rng.Intn(int(hi-lo)+2)) + 0.37) * stretch[a]
			}
			pr := forestProbe{In: []int{}}
			for v := 1; v <= len(parent); v++ {
				in := true
				for a := 0; a < 3; a++ {
					if p[a] < boxes[v].lo[a] || p[a] > boxes[v].hi[a] {
						in = false
					}
				}
				if in {
					pr.In = append(pr.In, v)
				}
			}
			c := model3d.XYZ(p[0], p[1], p[2])
			for _, r := range roots {
				if r.Contains(c) {
					pr.Hit = true
				}
			}
			rec.Probes = append(rec.Probes, pr)
		}
	})
	return rec
}

// hierOverlapRun: a box with two or three cavities that are NOT boxes - corner tetrahedra at two opposite corners
// and an octahedron between them - so that the siblings are disjoint while their bounding boxes overlap
func hierOverlapRun(id int, k int, rng *rand.Rand) forestRec {
	parent := []int{0, 1, 1, 1}[:k+1]
	rec := forestRec{ID: id, Kind: "forest", Site: "model3d.MeshToHierarchy", Parent: parent, Got: make([]int, len(parent)),
		Per: make([]int, len(parent)), Probes: []forestProbe{}, NF: []int{12, 4, 4, 8}[:k+1]}
	sc := [3]float64{1 + float64(rng.Intn(3)), 1 + float64(rng.Intn(3)), 1 + float64(rng.Intn(3))}
	pt := func(x, y, z float64) model3d.Coord3D { return model3d.XYZ(x*sc[0], y*sc[1], z*sc[2]) }
	mesh := model3d.NewMeshRect(pt(0, 0, 0), pt(10, 10, 10))
	tetra := func(c, leg float64) *model3d.Mesh {
		p0, px, py, pz := pt(c, c, c), pt(c+leg, c, c), pt(c, c+leg, c), pt(c, c, c+leg)
		faces := [][3]model3d.Coord3D{{p0, py, px}, {p0, px, pz}, {p0, pz, py}, {px, py, pz}}
		m := model3d.NewMesh()
		for _, f := range faces {
			if leg < 0 { // mirrored in all three axes: turn every face round
				f[1], f[2] = f[2], f[1]
			}
			m.Add(&model3d.Triangle{f[0], f[1], f[2]})
		}
		return m
	}
	shells := []*model3d.Mesh{mesh.Copy(), tetra(1, 6), tetra(9, -6)}
	if k == 3 {
		o := model3d.NewMesh()
		c := [3]float64{5, 5, 5}
		for _, sx := range []float64{-2, 2} {
			for _, sy := range []float64{-2, 2} {
				for _, sz := range []float64{-2, 2} {
					a, b, d := pt(c[0]+sx, c[1], c[2]), pt(c[0], c[1]+sy, c[2]), pt(c[0], c[1], c[2]+sz)
					if sx*sy*sz < 0 {
						a, b = b, a
					}
					o.Add(&model3d.Triangle{a, b, d})
				}
			}
		}
		shells = append(shells, o)
	}
	for _, sh := range shells[1:] {
		mesh.AddMesh(sh)
	}
	rec.NFaces = 0
	nodeOf := func(m *model3d.Mesh) int {
		for v, sh := range shells {
			if m.Min() == sh.Min() && m.Max() == sh.Max() {
				return v + 1
			}
		}
		return 0
	}
	var roots []*model3d.MeshHierarchy
	outcome, pan := withDeadline(10*time.Second, func() { roots = model3d.MeshToHierarchy(mesh) })
	if outcome != "ok" {
		rec.Panic = outcome + " " + pan
		return rec
	}
	rec.Panic = protect(func() {
		for i := range rec.Got {
			rec.Got[i] = -1
		}
		var walk func(h *model3d.MeshHierarchy, par int)
		walk = func(h *model3d.MeshHierarchy, par int) {
			v := nodeOf(h.Mesh)
			if v > 0 {
				rec.Got[v-1] = par
				rec.Per[v-1] += h.Mesh.NumTriangles()
			}
			rec.NFaces += h.Mesh.NumTriangles()
			for _, c := range h.Children {
				walk(c, v)
			}
		}
		for _, r := range roots {
			walk(r, 0)
		}
		rec.SelfInt, rec.SelfIntX = 0, 1 // (self-intersections are observed on the box forests)
		abs := math.Abs
		for k2 := 0; k2 < 120; k2++ {
			x, y, z := float64(rng.Intn(13)-1)+0.37, float64(rng.Intn(13)-1)+0.37, float64(rng.Intn(13)-1)+0.37
			if k2%2 == 0 {
				// inside the overlap of the cavities' bounding boxes
				x, y, z = float64(3+rng.Intn(4))+0.37, float64(3+rng.Intn(4))+0.37, float64(3+rng.Intn(4))+0.37
			}
			pr := forestProbe{In: []int{}}
			if x > 0 && x < 10 && y > 0 && y < 10 && z > 0 && z < 10 {
				pr.In = append(pr.In, 1)
			}
			if x > 1 && y > 1 && z > 1 && (x-1)+(y-1)+(z-1) < 6 {
				pr.In = append(pr.In, 2)
			}
			if x < 9 && y < 9 && z < 9 && (9-x)+(9-y)+(9-z) < 6 {
				pr.In = append(pr.In, 3)
			}
			if k == 3 && abs(x-5)+abs(y-5)+abs(z-5) < 2 {
				pr.In = append(pr.In, 4)
			}
			c := pt(x, y, z)
			for _, r := range roots {
				if r.Contains(c) {
					pr.Hit = true
				}
			}
			rec.Probes = append(rec.Probes, pr)
		}
	})
	return rec
}

func forest2Run(id int, parent []int, rng *rand.Rand) forestRec {
	rec := forestRec{ID: id, Kind: "forest", Site: "model2d.MeshToHierarchy", Parent: parent, Got: make([]int, len(parent)),
		Per: make([]int, len(parent)), Probes: []forestProbe{}}
	boxes := forestLayout(parent, rng.Perm(4)) // corners 0..3 differ in x / y only
	mesh := model2d.NewMesh()
	for v := 1; v <= len(parent); v++ {
		b := boxes[v]
		mesh.AddMesh(model2d.NewMeshRect(model2d.XY(b.lo[0], b.lo[1]), model2d.XY(b.hi[0], b.hi[1])))
	}
	// in 2-D children in corners that differ only in z would overlap: keep forests whose nodes
	// have at most 4 children and use corners 0..3
	nodeOf := func(m *model2d.Mesh) int {
		mn, mx := m.Min(), m.Max()
		for v := 1; v <= len(parent); v++ {
			b := boxes[v]
			if mn == model2d.XY(b.lo[0], b.lo[1]) && mx == model2d.XY(b.hi[0], b.hi[1]) {
				return v
			}
		}
		return 0
	}
	var roots []*model2d.MeshHierarchy
	outcome, pan := withDeadline(10*time.Second, func() { roots = model2d.MeshToHierarchy(mesh) })
	if outcome != "ok" {
		rec.Panic = outcome + " " + pan
		return rec
	}
	rec.Panic = protect(func() {
		for i := range rec.Got {
			rec.Got[i] = -1
		}
		var walk func(h *model2d.MeshHierarchy, par int)
		walk = func(h *model2d.MeshHierarchy, par int) {
			v := nodeOf(h.Mesh)
			if v > 0 {
				rec.Got[v-1] = par
				rec.Per[v-1] += 3 * h.Mesh.NumSegments() // 4 segments per shell -> 12, as in 3-D
			}
			for _, c := range h.Children {
				walk(c, v)
			}
		}
		for _, r := range roots {
			r.FullMesh()
			rec.NFaces += 3 * r.FullMesh().NumSegments()
		}
		for _, r := range roots {
			walk(r, 0)
		}
		for k := 0; k < 60; k++ {
			var p [2]float64
			b := boxes[1+rng.Intn(len(parent))]
			for a := 0; a < 2; a++ {
				p[a] = b.lo[a] - 1 + float64(rng.Intn(int(b.hi[a]-b.lo[a])+2)) + 0.37
			}
			pr := forestProbe{In: []int{}}
			for v := 1; v <= len(parent); v++ {
				if p[0] >= boxes[v].lo[0] && p[0] <= boxes[v].hi[0] && p[1] >= boxes[v].lo[1] && p[1] <= boxes[v].hi[1] {
					pr.In = append(pr.In, v)
				}
			}
			for _, r := range roots {
				if r.Contains(model2d.XY(p[0], p[1])) {
					pr.Hit = true
				}
			}
			rec.Probes = append(rec.Probes, pr)
		}
	})
	return rec
}

func init() {
	register("c11-diag", func(a args) {
		rng := rand.New(rand.NewSource(int64(a.int("seed", 1))))
		out := newNDWriter(a.str("out", "records.ndjson"))
		defer out.close()
		stats := map[string]int{}
		id := a.int("firstid", 0)
		kind := a.str("kind", "diag")
		n := 0
		readNDJSON(a.str("in", "cases.ndjson"), func(line []byte) {
			n++
			switch kind {
			case "diag":
				var faces [][]int
				if err := json.Unmarshal(line, &faces); err != nil {
					fatal("bad case: %v", err)
				}
				rng.Shuffle(len(faces), func(i, j int) { faces[i], faces[j] = faces[j], faces[i] })
				id++
				out.write(diagRun(id, faces, n%2 == 0))
			case "diag2":
				var segs [][]int
				if err := json.Unmarshal(line, &segs); err != nil {
					fatal("bad case: %v", err)
				}
				id++
				out.write(diag2Run(id, segs))
			case "forest":
				var parent []int
				if err := json.Unmarshal(line, &parent); err != nil {
					fatal("bad case: %v", err)
				}
				for rep := 0; rep < a.int("reps", 2); rep++ {
					id++
					out.write(forestRun(id, parent, rng))
				}
				if len(parent) == 3 || len(parent) == 4 {
					// once per forest size: cavities that are not boxes (two and three siblings)
					star := true
					for i, p := range parent {
						if (i == 0) != (p == 0) || p > 1 {
							star = false
						}
					}
					if star {
						for rep := 0; rep < a.int("reps", 2); rep++ {
							id++
							out.write(hierOverlapRun(id, len(parent)-1, rng))
						}
					}
				}
				ok2d := true
				cnt := map[int]int{}
				for _, p := range parent {
					cnt[p]++
					if p != 0 && cnt[p] > 4 {
						ok2d = false
					}
				}
				if ok2d {
					id++
					out.write(forest2Run(id, parent, rand.New(rand.NewSource(int64(1000+n)))))
				}
			case "voxels":
				var cells []int
				if err := json.Unmarshal(line, &cells); err != nil {
					fatal("bad case: %v", err)
				}
				id++
				r := dcRepairRun(id, cells)
				if r.Sing0 > 0 || r.Needs0 {
					stats["nonmanifold-before-repair"]++
				}
				out.write(r)
			case "flip":
				var flipped []int
				if err := json.Unmarshal(line, &flipped); err != nil {
					fatal("bad case: %v", err)
				}
				if flipped == nil {
					flipped = []int{}
				}
				for _, sc := range convexComplexes() {
					ok := true
					for _, i := range flipped {
						if i > len(sc.faces) {
							ok = false
						}
					}
					if !ok {
						continue
					}
					id++
					out.write(normalsRun(id, sc, flipped, false))
					if 2*len(flipped) < len(sc.faces) {
						id++
						out.write(normalsRun(id, sc, flipped, true))
					}
					if len(flipped) == 0 {
						for rep := 0; rep < 5; rep++ {
							id++
							out.write(repairRun(id, sc, rng, false))
						}
						for rep := 0; rep < 6; rep++ {
							id++
							out.write(repairRun(id, sc, rng, true))
						}
					}
				}
			}
		})
		stats["records"] = out.n
		stats["cases"] = n
		stats["lastid"] = id
		writeJSONFile(a.str("stats", "stats.json"), stats)
	})
}
