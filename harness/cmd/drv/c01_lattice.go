package main

// Whole-lattice executions of the marching cubes family (C01, C02, C12).

import (
	"math"
	"math/rand"
	"runtime"
	"strings"
	"sync"

	"github.com/unixpickle/model3d/model3d"
)

type latRecord struct {
	Id       int      `json:"id"`
	N        []int    `json:"n"`
	Inside   []int    `json:"inside"`
	Variant  string   `json:"variant"`
	Cfg      string   `json:"cfg"`
	Panic    string   `json:"panic"`
	Unsnap   int      `json:"unsnap"`
	Tris     [][3]int `json:"tris"`
	Den      int      `json:"den"`
	Tnum     int      `json:"tnum"`
	Pos      [][2]int `json:"pos"`
	Interior [][2]int `json:"interior"`
	Queries  int      `json:"queries"`
	// coarse-to-fine variants run on solids with features the pre-pass may miss: the
	// vertices of the pre-pass mesh in units of 1/16, and a lower bound of 16 * (the
	// documented filter margin 2*sqrt(3)*bigDelta + extraSpace); 0 = not such a variant
	Coarse   [][3]int `json:"coarse"`
	Margin16 int      `json:"margin16"`
}

func latticeBits(l *latticeSolid3) []int {
	out := make([]int, len(l.inside))
	for i, b := range l.inside {
		if b {
			out[i] = 1
		}
	}
	return out
}

// exactFilter3 answers whether the rectangle (lattice coordinates, slightly enlarged by
// the mesher) contains a cell whose corners are not all equal - the tightest conservative
// filter; extra(rect) may add arbitrary further "true" answers.
func exactFilter3(l *latticeSolid3, extra func(r *model3d.Rect) bool) func(*model3d.Rect) bool {
	return func(r *model3d.Rect) bool {
		lo := [3]int{int(math.Round(r.MinVal.X)), int(math.Round(r.MinVal.Y)), int(math.Round(r.MinVal.Z))}
		hi := [3]int{int(math.Round(r.MaxVal.X)), int(math.Round(r.MaxVal.Y)), int(math.Round(r.MaxVal.Z))}
		for z := lo[2]; z < hi[2]; z++ {
			for y := lo[1]; y < hi[1]; y++ {
				for x := lo[0]; x < hi[0]; x++ {
					first := l.at(x, y, z)
					for k := 1; k < 8; k++ {
						if l.at(x+k%2, y+k/2%2, z+k/4) != first {
							return true
						}
					}
				}
			}
		}
		if extra != nil {
			return extra(r)
		}
		return false
	}
}

func meshToLatRecord(rec *latRecord, m *model3d.Mesh, den int, interior *model3d.CoordMap[model3d.Coord3D]) {
	seenV := map[int]bool{}
	m.Iterate(func(t *model3d.Triangle) {
		var tri [3]int
		ok := true
		for i, c := range t {
			code, frac, snapped := snapEdge3(c)
			if !snapped {
				ok = false
				continue
			}
			tri[i] = code
			if den > 0 && !seenV[code] {
				seenV[code] = true
				num := frac * float64(den)
				rn := math.Round(num)
				if math.Abs(num-rn) > 1e-9 {
					rec.Unsnap++ // not a dyadic position of the expected precision
				}
				rec.Pos = append(rec.Pos, [2]int{code, int(rn)})
				if interior != nil {
					ip, has := interior.Load(c)
					icode, ifrac, isnap := snapEdge3(ip)
					if !has {
						rec.Interior = append(rec.Interior, [2]int{code, -1000})
					} else if !isnap {
						// the interior point may sit exactly on a lattice point
						lo := [3]int{floorShift(ip.X, 0), floorShift(ip.Y, 0), floorShift(ip.Z, 0)}
						axis := code % 4
						base := [3]int{code / 4 / 256, code / 4 / 16 % 16, code / 4 % 16}
						num := (lo[axis] - base[axis]) * den
						other := true
						for j := 0; j < 3; j++ {
							if j != axis && lo[j] != base[j] {
								other = false
							}
						}
						if !other || float64(lo[0]) != ip.X || float64(lo[1]) != ip.Y || float64(lo[2]) != ip.Z {
							num = -1000
						}
						rec.Interior = append(rec.Interior, [2]int{code, num})
					} else if icode != code {
						rec.Interior = append(rec.Interior, [2]int{code, -1000})
					} else {
						rec.Interior = append(rec.Interior, [2]int{code, int(math.Round(ifrac * float64(den)))})
					}
				}
			}
		}
		if !ok {
			rec.Unsnap++
			return
		}
		rec.Tris = append(rec.Tris, canon3(tri))
	})
	sortTris(rec.Tris)
}

type latVariant struct {
	name string
	// run returns the mesh, the dyadic denominator of refined vertex positions (0 if
	// vertices are midpoints), and the interior map if any
	run func(l *latticeSolid3, rng *rand.Rand) (*model3d.Mesh, int, *model3d.CoordMap[model3d.Coord3D])
	// c2f, if set, is {bigDelta, extraSpace} of a coarse-to-fine run at fine spacing 1, 3 iterations
	c2f *[2]float64
}

// geomFilter3 is the truthful geometric filter of a lattice solid: does the closed
// rectangle meet the solid's boundary?  Lattice point i owns [i-s, i+1-s) on every axis,
// so the boundary consists of unit squares at coordinate i-s between differing
// neighbours i-1 and i.
func geomFilter3(l *latticeSolid3) func(*model3d.Rect) bool {
	s := l.shift
	return func(r *model3d.Rect) bool {
		lo, hi := r.MinVal.Array(), r.MaxVal.Array()
		for z := 1; z <= l.n[2]+1; z++ {
			for y := 1; y <= l.n[1]+1; y++ {
				for x := 1; x <= l.n[0]+1; x++ {
					p := [3]int{x, y, z}
					for a := 0; a < 3; a++ {
						q := p
						q[a]--
						if l.at(p[0], p[1], p[2]) == l.at(q[0], q[1], q[2]) {
							continue
						}
						hit := true
						for b := 0; b < 3; b++ {
							// clipped to the solid's reported bounds [1, n]
							flo := math.Max(float64(p[b])-s, 1)
							fhi := math.Min(float64(p[b])+1-s, float64(l.n[b]))
							if b == a {
								flo = math.Min(flo, float64(l.n[b]))
								fhi = flo
							}
							if fhi < lo[b] || flo > hi[b] {
								hit = false
							}
						}
						if hit {
							return true
						}
					}
				}
			}
		}
		return false
	}
}

const latShiftNum = 5 // shift = 5/16, so every transition is at lower end + 11/16

func latVariants() map[string]latVariant {
	vs := []latVariant{
		{"MC", func(l *latticeSolid3, _ *rand.Rand) (*model3d.Mesh, int, *model3d.CoordMap[model3d.Coord3D]) {
			return model3d.MarchingCubes(l, 1), 0, nil
		}, nil},
		{"MCFilterTrue", func(l *latticeSolid3, _ *rand.Rand) (*model3d.Mesh, int, *model3d.CoordMap[model3d.Coord3D]) {
			return model3d.MarchingCubesFilter(l, func(*model3d.Rect) bool { return true }, 1), 0, nil
		}, nil},
		{"MCFilterExact", func(l *latticeSolid3, _ *rand.Rand) (*model3d.Mesh, int, *model3d.CoordMap[model3d.Coord3D]) {
			return model3d.MarchingCubesFilter(l, exactFilter3(l, nil), 1), 0, nil
		}, nil},
		{"MCFilterExactPlus", func(l *latticeSolid3, rng *rand.Rand) (*model3d.Mesh, int, *model3d.CoordMap[model3d.Coord3D]) {
			var mu sync.Mutex
			extra := func(*model3d.Rect) bool {
				mu.Lock()
				defer mu.Unlock()
				return rng.Intn(2) == 0
			}
			return model3d.MarchingCubesFilter(l, exactFilter3(l, extra), 1), 0, nil
		}, nil},
		{"MCSearch3", func(l *latticeSolid3, _ *rand.Rand) (*model3d.Mesh, int, *model3d.CoordMap[model3d.Coord3D]) {
			return model3d.MarchingCubesSearch(l, 1, 3), 16, nil
		}, nil},
		{"MCSearch5", func(l *latticeSolid3, _ *rand.Rand) (*model3d.Mesh, int, *model3d.CoordMap[model3d.Coord3D]) {
			return model3d.MarchingCubesSearch(l, 1, 5), 64, nil
		}, nil},
		{"MCSearch5tiny", func(l *latticeSolid3, _ *rand.Rand) (*model3d.Mesh, int, *model3d.CoordMap[model3d.Coord3D]) {
			// the same problem at scale 2^-24: the answer must scale with it
			k := math.Ldexp(1, -24)
			m := model3d.MarchingCubesSearch(scaledLattice{l, k}, k, 5)
			return m.Scale(1 / k), 64, nil
		}, nil},
		{"MCSearchFilter3", func(l *latticeSolid3, _ *rand.Rand) (*model3d.Mesh, int, *model3d.CoordMap[model3d.Coord3D]) {
			return model3d.MarchingCubesSearchFilter(l, exactFilter3(l, nil), 1, 3), 16, nil
		}, nil},
		{"MCInterior4", func(l *latticeSolid3, _ *rand.Rand) (*model3d.Mesh, int, *model3d.CoordMap[model3d.Coord3D]) {
			m, in := model3d.MarchingCubesInterior(l, 1, 4)
			return m, 32, in
		}, nil},
		{"MCConj3", func(l *latticeSolid3, _ *rand.Rand) (*model3d.Mesh, int, *model3d.CoordMap[model3d.Coord3D]) {
			return model3d.MarchingCubesConj(l, 2, 3, &model3d.Scale{Scale: 2},
				&model3d.Translate{Offset: model3d.XYZ(4, -2, 6)}), 16, nil
		}, nil},
		{"MCC2F", func(l *latticeSolid3, _ *rand.Rand) (*model3d.Mesh, int, *model3d.CoordMap[model3d.Coord3D]) {
			return model3d.MarchingCubesC2F(l, 2, 1, 0, 3), 16, nil
		}, nil},
		{"MCC2Fx0", func(l *latticeSolid3, _ *rand.Rand) (*model3d.Mesh, int, *model3d.CoordMap[model3d.Coord3D]) {
			return model3d.MarchingCubesC2F(l, 2, 1, 0, 3), 16, nil
		}, &[2]float64{2, 0}},
		{"MCC2Fx3", func(l *latticeSolid3, _ *rand.Rand) (*model3d.Mesh, int, *model3d.CoordMap[model3d.Coord3D]) {
			return model3d.MarchingCubesC2F(l, 2, 1, 3, 3), 16, nil
		}, &[2]float64{2, 3}},
		{"MCC2Fx6", func(l *latticeSolid3, _ *rand.Rand) (*model3d.Mesh, int, *model3d.CoordMap[model3d.Coord3D]) {
			return model3d.MarchingCubesC2F(l, 2, 1, 6, 3), 16, nil
		}, &[2]float64{2, 6}},
		{"MCFilterGeom", func(l *latticeSolid3, _ *rand.Rand) (*model3d.Mesh, int, *model3d.CoordMap[model3d.Coord3D]) {
			// boundary within the mesher's epsilon (1e-3 * delta) below the grid planes
			old := l.shift
			l.shift = 1.0 / 2048
			defer func() { l.shift = old }()
			return model3d.MarchingCubesFilter(l, geomFilter3(l), 1), 0, nil
		}, nil},
		{"MCFilterGeomHi", func(l *latticeSolid3, _ *rand.Rand) (*model3d.Mesh, int, *model3d.CoordMap[model3d.Coord3D]) {
			// ... and just above them
			old := l.shift
			l.shift = 2047.0 / 2048
			defer func() { l.shift = old }()
			return model3d.MarchingCubesFilter(l, geomFilter3(l), 1), 0, nil
		}, nil},
	}
	out := map[string]latVariant{}
	for _, v := range vs {
		out[v.name] = v
	}
	return out
}

func runLattice(id int, l *latticeSolid3, v latVariant, cfg string, procs int, rng *rand.Rand) latRecord {
	rec := latRecord{Id: id, N: l.n[:], Inside: latticeBits(l), Variant: v.name, Cfg: cfg,
		Tris: [][3]int{}, Pos: [][2]int{}, Interior: [][2]int{}, Coarse: [][3]int{}}
	var mu sync.Mutex
	l.probe = func(model3d.Coord3D) {
		mu.Lock()
		rec.Queries++
		mu.Unlock()
	}
	defer func() { l.probe = nil }()
	if procs > 0 {
		old := runtime.GOMAXPROCS(procs)
		defer runtime.GOMAXPROCS(old)
	}
	rec.Panic = protect(func() {
		m, den, interior := v.run(l, rng)
		rec.Den = den
		if den > 0 {
			rec.Tnum = den - den*latShiftNum/16
		}
		meshToLatRecord(&rec, m, den, interior)
		if v.c2f != nil {
			rec.Margin16 = int(math.Floor(16*(2*v.c2f[0]*math.Sqrt(3)+v.c2f[1]))) - 1
			for _, c := range model3d.MarchingCubesSearch(l, v.c2f[0], 3).VertexSlice() {
				rec.Coarse = append(rec.Coarse, [3]int{int(math.Round(c.X * 16)), int(math.Round(c.Y * 16)), int(math.Round(c.Z * 16))})
			}
		}
	})
	return rec
}

// blockySolid builds a lattice solid whose features are cubes of side >= feat lattice
// points (so that a pre-pass at spacing 2 provably sees every feature).
func blockySolid(rng *rand.Rand, n, feat int) *latticeSolid3 {
	l := newLatticeSolid3(n, n, n, 0)
	l.shift = float64(latShiftNum) / 16
	for k := 0; k < 2+rng.Intn(3); k++ {
		sz := [3]int{}
		lo := [3]int{}
		for a := 0; a < 3; a++ {
			sz[a] = feat + rng.Intn(n-feat+1)
			lo[a] = 1 + rng.Intn(n-sz[a]+1)
		}
		for z := lo[2]; z < lo[2]+sz[2]; z++ {
			for y := lo[1]; y < lo[1]+sz[1]; y++ {
				for x := lo[0]; x < lo[0]+sz[0]; x++ {
					l.inside[x-1+n*(y-1+n*(z-1))] = true
				}
			}
		}
	}
	return l
}

// satelliteSolid is a block the coarse pre-pass sees plus a few single lattice points or
// short sticks which it may miss entirely, at various distances from the block.
func satelliteSolid(rng *rand.Rand, n int) *latticeSolid3 {
	l := newLatticeSolid3(n, n, n, 0)
	var lo, sz [3]int
	for a := 0; a < 3; a++ {
		sz[a] = 2 + rng.Intn(3)
		lo[a] = 1 + rng.Intn(2)
	}
	for z := lo[2]; z < lo[2]+sz[2]; z++ {
		for y := lo[1]; y < lo[1]+sz[1]; y++ {
			for x := lo[0]; x < lo[0]+sz[0]; x++ {
				l.inside[x-1+n*(y-1+n*(z-1))] = true
			}
		}
	}
	for k := 0; k < 1+rng.Intn(3); k++ {
		p := [3]int{1 + rng.Intn(n), 1 + rng.Intn(n), 1 + rng.Intn(n)}
		if k == 0 {
			// the first one at a chosen distance from the block on some axis
			a := rng.Intn(3)
			p[a] = lo[a] + sz[a] + 2 + rng.Intn(n)
			if p[a] > n {
				p[a] = n - rng.Intn(3)
			}
		}
		axis, length := rng.Intn(3), 1+rng.Intn(2)
		for i := 0; i < length && p[axis] <= n; i++ {
			l.inside[p[0]-1+n*(p[1]-1+n*(p[2]-1))] = true
			p[axis]++
		}
	}
	return l
}

// alignedSolids: boxes with one face on every lattice plane in turn (so that whatever
// planes the block splitting chooses, some solid has a face exactly there and nothing
// else in the neighbouring block).
func alignedSolids(rng *rand.Rand, n int, f func(*latticeSolid3)) {
	for a := 0; a < 3; a++ {
		for k := 2; k <= n; k++ {
			for _, up := range []bool{true, false} {
				l := newLatticeSolid3(n, n, n, 0)
				var lo, hi [3]int
				for b := 0; b < 3; b++ {
					lo[b] = 2 + rng.Intn(n/2-1)
					hi[b] = n/2 + 1 + rng.Intn(n/2-1)
				}
				if up {
					lo[a], hi[a] = k, k+rng.Intn(3)
				} else {
					lo[a], hi[a] = k-rng.Intn(3), k
				}
				for z := lo[2]; z <= hi[2]; z++ {
					for y := lo[1]; y <= hi[1]; y++ {
						for x := lo[0]; x <= hi[0]; x++ {
							if x >= 1 && y >= 1 && z >= 1 && x <= n && y <= n && z <= n {
								l.inside[x-1+n*(y-1+n*(z-1))] = true
							}
						}
					}
				}
				f(l)
			}
		}
	}
}

func init() {
	// c01-lattice out=records.ndjson plan=<plan> seed=N
	// plan items separated by ';' :  all:NX,NY,NZ:variant,variant:procs   (every subset)
	//                                rand:NX,NY,NZ:COUNT:variant,...:procs,procs
	//                                blocky:N:COUNT:variant,...:procs,...
	//                                sat:N:COUNT:variant,...:procs,...
	register("c01-lattice", func(a args) {
		out := newNDWriter(a.str("out", "records.ndjson"))
		defer out.close()
		rng := rand.New(rand.NewSource(int64(a.int("seed", 1))))
		variants := latVariants()
		id := 0
		stats := map[string]int{}
		emit := func(l *latticeSolid3, vnames, procs string) {
			for _, vn := range strings.Split(vnames, ",") {
				v, ok := variants[vn]
				if !ok {
					fatal("unknown variant %q", vn)
				}
				for _, p := range strings.Split(procs, ",") {
					pn := 0
					for _, ch := range p {
						pn = pn*10 + int(ch-'0')
					}
					id++
					l.shift = float64(latShiftNum) / 16
					rec := runLattice(id, l, v, "procs="+p, pn, rng)
					stats["records"]++
					stats["triangles"] += len(rec.Tris)
					if len(rec.Tris) > 0 {
						stats["nonempty"]++
					}
					if rec.Margin16 > 0 {
						stats["guarded"]++
					}
					out.write(rec)
				}
			}
		}
		for _, item := range strings.Split(a.str("plan", ""), ";") {
			if item == "" {
				continue
			}
			f := strings.Split(item, ":")
			switch f[0] {
			case "all":
				var nx, ny, nz int
				parseDims(f[1], &nx, &ny, &nz)
				for bits := uint64(0); bits < 1<<uint(nx*ny*nz); bits++ {
					emit(newLatticeSolid3(nx, ny, nz, bits), f[2], f[3])
				}
			case "rand":
				var nx, ny, nz int
				parseDims(f[1], &nx, &ny, &nz)
				for i := 0; i < atoi(f[2]); i++ {
					l := newLatticeSolid3(nx, ny, nz, 0)
					dens := 0.15 + 0.7*rng.Float64()
					for j := range l.inside {
						l.inside[j] = rng.Float64() < dens
					}
					emit(l, f[3], f[4])
				}
			case "blocky":
				n := atoi(f[1])
				for i := 0; i < atoi(f[2]); i++ {
					emit(blockySolid(rng, n, 4), f[3], f[4])
				}
			case "aligned":
				alignedSolids(rng, atoi(f[1]), func(l *latticeSolid3) { emit(l, f[2], f[3]) })
			case "sat":
				n := atoi(f[1])
				for i := 0; i < atoi(f[2]); i++ {
					emit(satelliteSolid(rng, n), f[3], f[4])
				}
			default:
				fatal("bad plan item %q", item)
			}
		}
		writeJSONFile(a.str("stats", "stats.json"), stats)
	})
}

func atoi(s string) int {
	n := 0
	for _, ch := range s {
		if ch < '0' || ch > '9' {
			fatal("bad number %q", s)
		}
		n = n*10 + int(ch-'0')
	}
	return n
}

func parseDims(s string, nx, ny, nz *int) {
	f := strings.Split(s, ",")
	if len(f) != 3 {
		fatal("bad dims %q", s)
	}
	*nx, *ny, *nz = atoi(f[0]), atoi(f[1]), atoi(f[2])
}
