package main

import (
	"bufio"
	"encoding/json"
	"os"
	"sort"
)

// ndjson writer
type ndWriter struct {
	f *os.File
	w *bufio.Writer
	n int
}

func newNDWriter(path string) *ndWriter {
	f, err := os.Create(path)
	if err != nil {
		fatal("create %s: %v", path, err)
	}
	return &ndWriter{f: f, w: bufio.NewWriterSize(f, 1<<20)}
}

func (w *ndWriter) write(v any) {
	b, err := json.Marshal(v)
	if err != nil {
		fatal("marshal: %v", err)
	}
	w.w.Write(b)
	w.w.WriteByte('\n')
	w.n++
}

func (w *ndWriter) close() {
	w.w.Flush()
	w.f.Close()
}

func readNDJSON(path string, each func(line []byte)) {
	f, err := os.Open(path)
	if err != nil {
		fatal("open %s: %v", path, err)
	}
	defer f.Close()
	sc := bufio.NewScanner(f)
	sc.Buffer(make([]byte, 1<<20), 1<<28)
	for sc.Scan() {
		b := sc.Bytes()
		if len(b) == 0 {
			continue
		}
		each(b)
	}
	if err := sc.Err(); err != nil {
		fatal("read %s: %v", path, err)
	}
}

func writeJSONFile(path string, v any) {
	b, err := json.MarshalIndent(v, "", " ")
	if err != nil {
		fatal("marshal: %v", err)
	}
	if err := os.WriteFile(path, b, 0o644); err != nil {
		fatal("write %s: %v", path, err)
	}
}

func sortedInts(s []int) []int {
	r := append([]int{}, s...)
	sort.Ints(r)
	return r
}

// protect runs f and reports a panic as a string ("" if none).
func protect(f func()) (panicked string) {
	defer func() {
		if r := recover(); r != nil {
			panicked = toString(r)
		}
	}()
	f()
	return ""
}

func toString(r any) string {
	switch v := r.(type) {
	case error:
		return v.Error()
	case string:
		return v
	default:
		b, _ := json.Marshal(v)
		return string(b)
	}
}
