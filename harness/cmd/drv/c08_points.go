package main

// C08: point trees against brute force (records for spec/spatial/PointIndex.tla).

import (
	"math/rand"

	"github.com/unixpickle/model3d/model2d"
	"github.com/unixpickle/model3d/model3d"
)

type treeNode struct {
	C    [3]int `json:"c"`
	Axis int    `json:"axis"`
	Lt   int    `json:"lt"`
	Ge   int    `json:"ge"`
}

type sphereObs struct {
	M   int  `json:"m"`
	Hit bool `json:"hit"`
}

type pointQuery struct {
	Q        [3]int      `json:"q"`
	NN       [3]int      `json:"nn"`
	K        int         `json:"k"`
	KNN      [][3]int    `json:"knn"`
	Contains bool        `json:"contains"`
	Spheres  []sphereObs `json:"spheres"`
}

type pointRecord struct {
	Id      int          `json:"id"`
	Dim     int          `json:"dim"`
	Panic   string       `json:"panic"`
	Pts     [][3]int     `json:"pts"`
	Tree    []treeNode   `json:"tree"`
	Slice   [][3]int     `json:"slice"`
	Queries []pointQuery `json:"queries"`
}

func h3(p [3]int) model3d.Coord3D {
	return model3d.XYZ(float64(p[0])/2, float64(p[1])/2, float64(p[2])/2)
}
func h2(p [3]int) model2d.Coord   { return model2d.XY(float64(p[0])/2, float64(p[1])/2) }
func i3(c model3d.Coord3D) [3]int { return [3]int{int(c.X * 2), int(c.Y * 2), int(c.Z * 2)} }
func i2(c model2d.Coord) [3]int   { return [3]int{int(c.X * 2), int(c.Y * 2), 0} }

func walkTree3(t *model3d.CoordTree, out *[]treeNode) int {
	if t == nil {
		return 0
	}
	*out = append(*out, treeNode{})
	idx := len(*out)
	lt := walkTree3(t.LessThan, out)
	ge := walkTree3(t.GreaterEqual, out)
	(*out)[idx-1] = treeNode{C: i3(t.Coord), Axis: t.SplitAxis, Lt: lt, Ge: ge}
	return idx
}

func walkTree2(t *model2d.CoordTree, out *[]treeNode) int {
	if t == nil {
		return 0
	}
	*out = append(*out, treeNode{})
	idx := len(*out)
	lt := walkTree2(t.LessThan, out)
	ge := walkTree2(t.GreaterEqual, out)
	(*out)[idx-1] = treeNode{C: i2(t.Coord), Axis: t.SplitAxis, Lt: lt, Ge: ge}
	return idx
}

func runPoints(id, dim int, pts [][3]int, queries [][3]int, maxK, maxM int) pointRecord {
	rec := pointRecord{Id: id, Dim: dim, Pts: pts, Tree: []treeNode{}, Slice: [][3]int{}, Queries: []pointQuery{}}
	if rec.Pts == nil {
		rec.Pts = [][3]int{}
	}
	rec.Panic = protect(func() {
		if dim == 3 {
			var cs []model3d.Coord3D
			for _, p := range pts {
				cs = append(cs, h3(p))
			}
			t := model3d.NewCoordTree(cs)
			walkTree3(t, &rec.Tree)
			for _, c := range t.Slice() {
				rec.Slice = append(rec.Slice, i3(c))
			}
			for qi, q := range queries {
				o := pointQuery{Q: q, K: qi % (maxK + 1), KNN: [][3]int{}, Spheres: []sphereObs{}}
				if len(pts) > 0 {
					o.NN = i3(t.NearestNeighbor(h3(q)))
				}
				for _, c := range t.KNN(o.K, h3(q)) {
					o.KNN = append(o.KNN, i3(c))
				}
				o.Contains = t.Contains(h3(q))
				for m := 0; m <= maxM; m++ {
					o.Spheres = append(o.Spheres, sphereObs{m, t.SphereCollision(h3(q), float64(m)/2)})
				}
				rec.Queries = append(rec.Queries, o)
			}
		} else {
			var cs []model2d.Coord
			for _, p := range pts {
				cs = append(cs, h2(p))
			}
			t := model2d.NewCoordTree(cs)
			walkTree2(t, &rec.Tree)
			for _, c := range t.Slice() {
				rec.Slice = append(rec.Slice, i2(c))
			}
			for qi, q := range queries {
				o := pointQuery{Q: q, K: qi % (maxK + 1), KNN: [][3]int{}, Spheres: []sphereObs{}}
				if len(pts) > 0 {
					o.NN = i2(t.NearestNeighbor(h2(q)))
				}
				for _, c := range t.KNN(o.K, h2(q)) {
					o.KNN = append(o.KNN, i2(c))
				}
				o.Contains = t.Contains(h2(q))
				for m := 0; m <= maxM; m++ {
					o.Spheres = append(o.Spheres, sphereObs{m, t.SphereCollision(h2(q), float64(m)/2)})
				}
				rec.Queries = append(rec.Queries, o)
			}
		}
	})
	return rec
}

func init() {
	// c08-points out= stats= maxn=N grid=GX,GY,GZ random=R rn=N seed=
	// all multisets of <= maxn points of the (even-coordinate) grid, queries on the half grid
	register("c08-points", func(a args) {
		out := newNDWriter(a.str("out", "records.ndjson"))
		defer out.close()
		rng := rand.New(rand.NewSource(int64(a.int("seed", 1))))
		stats := map[string]int{}
		var gx, gy, gz int
		parseDims(a.str("grid", "3,2,2"), &gx, &gy, &gz)
		id := 0
		for _, dim := range []int{3, 2} {
			var grid [][3]int
			zs := gz
			if dim == 2 {
				zs = 1
			}
			for z := 0; z < zs; z++ {
				for y := 0; y < gy; y++ {
					for x := 0; x < gx; x++ {
						grid = append(grid, [3]int{2 * x, 2 * y, 2 * z})
					}
				}
			}
			var queries [][3]int
			for z := -1; z <= 2*(zs-1)+1; z++ {
				for y := -1; y <= 2*(gy-1)+1; y++ {
					for x := -1; x <= 2*(gx-1)+1; x++ {
						if dim == 2 && z != 0 {
							continue
						}
						queries = append(queries, [3]int{x, y, z})
					}
				}
			}
			emit := func(pts [][3]int) {
				id++
				rec := runPoints(id, dim, pts, queries, a.int("maxk", 5), a.int("maxm", 6))
				stats["records"]++
				stats["queries"] += len(rec.Queries)
				if len(pts) >= 2 {
					stats["nonempty"]++
				}
				out.write(rec)
			}
			// multisets in non-decreasing index order
			var rec func(start int, cur [][3]int)
			rec = func(start int, cur [][3]int) {
				emit(append([][3]int{}, cur...))
				if len(cur) == a.int("maxn", 3) {
					return
				}
				for i := start; i < len(grid); i++ {
					rec(i, append(cur, grid[i]))
				}
			}
			rec(0, nil)
			for i := 0; i < a.int("random", 0); i++ {
				n := 4 + rng.Intn(a.int("rn", 12))
				var pts [][3]int
				for j := 0; j < n; j++ {
					pts = append(pts, grid[rng.Intn(len(grid))])
				}
				// shuffled input order matters for tie-breaking in the sort
				rng.Shuffle(len(pts), func(i, j int) { pts[i], pts[j] = pts[j], pts[i] })
				emit(pts)
			}
		}
		writeJSONFile(a.str("stats", "stats.json"), stats)
	})
}
