package main

// C03 / C06 / C07 "prims" stages, derived objects: solids, colliders and distance fields that the library
// derives from other objects and whose true shape is known exactly when the operands have integer data.
//
//	model3d.ProfileSolid(2-D Rect, z0, z1)                      = box
//	model3d.SDFToSolid / model2d.SDFToSolid(Rect, outset)       = open box (0), rounded box (> 0), smaller box (< 0)
//	model3d.RevolveSolid(2-D Rect [r0,r1] x [y0,y1], axis)      = annular cylinder around the axis
//	model3d.CrossSectionSolid(Rect / Sphere, axis, value)       = 2-D rect / circle
//	NewColliderSolidInset(box collider, inset)  (3-D and 2-D)   = smaller box (> 0), rounded box (< 0)
//	NewColliderSolidHollow(box collider, r)     (3-D and 2-D)   = points within r of the box surface
//	CheckedFuncSolid(min, max, f)               (3-D and 2-D)   = box intersected with f
//	model3d.ProfileCollider(2-D Rect / Circle, z0, z1)          = box / cylinder (as collider)
//	model3d.ProfileSDF / ProfilePointSDF(2-D Rect / Circle)     = box / cylinder (as distance field, no normals)
//
// Boundary conventions (from the doc comments and the code they describe): CheckedFuncSolid and InBounds are closed;
// SDFToSolid is "SDF > -outset" (open); ColliderContains with a margin and SphereCollision at tangency are not
// documented - PrimJudge never decides a probe that lies exactly on the boundary of the true shape (Side = "on").

import (
	"fmt"
	"math"
	"math/rand"

	"github.com/unixpickle/model3d/model2d"
	"github.com/unixpickle/model3d/model3d"
	"github.com/unixpickle/model3d/toolbox3d"
)

func derivedBox(rng *rand.Rand, dim int) (lo, hi [3]int) {
	for i := 0; i < dim; i++ {
		lo[i] = ri(rng, -3, 1)
		hi[i] = lo[i] + ri(rng, 1, 4)
	}
	return
}

func boxData(lo, hi [3]int) []int {
	return []int{4 * lo[0], 4 * lo[1], 4 * lo[2], 4 * hi[0], 4 * hi[1], 4 * hi[2]}
}

// the region in which the true shape lies (probed whatever the reported bounds are)
func extraBox(lo, hi [3]int, grow float64) *[2]pvec {
	return &[2]pvec{pvSub(i3f(lo), pvec{grow, grow, grow}), pvAdd(i3f(hi), pvec{grow, grow, grow})}
}

func rect3(lo, hi [3]int) *model3d.Rect { return model3d.NewRect(v3c(i3f(lo)), v3c(i3f(hi))) }
func rect2(lo, hi [3]int) *model2d.Rect { return model2d.NewRect(v2c(i3f(lo)), v2c(i3f(hi))) }

// box colliders: the primitive itself, or the triangle / segment mesh of its surface
func boxCollider3(lo, hi [3]int, mesh bool) (model3d.Collider, string) {
	if mesh {
		return model3d.MeshToCollider(model3d.NewMeshRect(v3c(i3f(lo)), v3c(i3f(hi)))), "MeshToCollider(NewMeshRect)"
	}
	return rect3(lo, hi), "Rect"
}

func boxCollider2(lo, hi [3]int, mesh bool) (model2d.Collider, string) {
	if mesh {
		return model2d.MeshToCollider(model2d.NewMeshRect(v2c(i3f(lo)), v2c(i3f(hi)))), "MeshToCollider(NewMeshRect)"
	}
	return rect2(lo, hi), "Rect"
}

// inset / outset / shell of a box with k quarter units: shape and data for PrimJudge
func insetShape(lo, hi [3]int, dim, k4 int) (string, []int) {
	if k4 >= 0 { // the points deeper than k inside: the box shrunk by k (empty if too thin)
		d := boxData(lo, hi)
		for i := 0; i < dim; i++ {
			d[i] += k4
			d[3+i] -= k4
		}
		return "box", d
	}
	return "rbox", append(boxData(lo, hi), -k4)
}

const nDerivedSolidKinds = 17

// genDerivedSolid: kind selects the constructor, the seed the data
func genDerivedSolid(rng *rand.Rand, kind int) *primShape {
	var s *primShape
	switch kind % nDerivedSolidKinds {
	case 0: // ProfileSolid of a 2-D rect
		lo, hi := derivedBox(rng, 2)
		lo[2] = ri(rng, -3, 1)
		hi[2] = lo[2] + ri(rng, 1, 4)
		s = lazySolid3("model3d.ProfileSolid", fmt.Sprintf("Rect lo=%v hi=%v z=[%d,%d]", lo[:2], hi[:2], lo[2], hi[2]),
			func() model3d.Solid { return model3d.ProfileSolid(rect2(lo, hi), float64(lo[2]), float64(hi[2])) })
		s.shape, s.data, s.extra = "box", boxData(lo, hi), extraBox(lo, hi, 0)
	case 1, 2, 3: // SDFToSolid of a 3-D rect: outset 0, > 0, < 0
		lo, hi := derivedBox(rng, 3)
		k4 := []int{0, ri(rng, 1, 8), -1}[kind%nDerivedSolidKinds-1]
		s = lazySolid3("model3d.SDFToSolid", fmt.Sprintf("Rect lo=%v hi=%v outset=%v", lo, hi, float64(k4)/4),
			func() model3d.Solid { return model3d.SDFToSolid(rect3(lo, hi), float64(k4)/4) })
		s.shape, s.data = insetShape(lo, hi, 3, -k4)
		s.extra = extraBox(lo, hi, float64(k4)/4)
	case 4, 5: // model2d.SDFToSolid
		lo, hi := derivedBox(rng, 2)
		k4 := []int{ri(rng, 0, 8), -1}[kind%nDerivedSolidKinds-4]
		s = lazySolid2("model2d.SDFToSolid", fmt.Sprintf("Rect lo=%v hi=%v outset=%v", lo[:2], hi[:2], float64(k4)/4),
			func() model2d.Solid { return model2d.SDFToSolid(rect2(lo, hi), float64(k4)/4) })
		s.shape, s.data = insetShape(lo, hi, 2, -k4)
		s.extra = extraBox(lo, hi, float64(k4)/4)
	case 6: // RevolveSolid of a rect on the non-negative side of the axis (or symmetric about it)
		axes := [][4]int{{0, 0, 1, 1}, {0, 1, 0, 1}, {1, 0, 0, 1}, {0, 0, -1, 1}, {2, 2, 1, 3}, {-2, 1, 2, 3}, {0, 3, 4, 5}, {0, 0, 2, 2}}
		ax := axes[rng.Intn(len(axes))]
		r0 := ri(rng, 0, 2)
		r1 := r0 + ri(rng, 1, 2)
		y0 := ri(rng, -2, 1)
		y1 := y0 + ri(rng, 1, 2)
		x0 := r0
		if r0 == 0 && rng.Intn(2) == 0 {
			x0 = -r1 // symmetric about the axis
		}
		s = lazySolid3("model3d.RevolveSolid", fmt.Sprintf("Rect x=[%d,%d] y=[%d,%d] axis=%v", x0, r1, y0, y1, ax[:3]),
			func() model3d.Solid {
				return model3d.RevolveSolid(rect2([3]int{x0, y0, 0}, [3]int{r1, y1, 0}), model3d.XYZ(float64(ax[0]), float64(ax[1]), float64(ax[2])))
			})
		s.shape, s.data = "annulus", []int{ax[0], ax[1], ax[2], ax[3], 4 * r0, 4 * r1, 4 * y0, 4 * y1}
		// the extent of the true shape along coordinate i: the axis segment plus the tilted rim disc
		var lo, hi pvec
		for i := 0; i < 3; i++ {
			u := float64(ax[i]) / float64(ax[3])
			rim := float64(r1) * math.Sqrt(math.Max(0, 1-u*u))
			lo[i] = math.Min(u*float64(y0), u*float64(y1)) - rim
			hi[i] = math.Max(u*float64(y0), u*float64(y1)) + rim
		}
		s.extra = &[2]pvec{lo, hi}
	case 7: // CrossSectionSolid of a box
		lo, hi := derivedBox(rng, 3)
		axis := rng.Intn(3)
		v4 := ri(rng, 4*lo[axis]+1, 4*hi[axis]-1)
		s = lazySolid2("model3d.CrossSectionSolid", fmt.Sprintf("Rect lo=%v hi=%v axis=%d value=%v", lo, hi, axis, float64(v4)/4),
			func() model2d.Solid { return model3d.CrossSectionSolid(rect3(lo, hi), axis, float64(v4)/4) })
		u, v := []int{1, 0, 0}[axis], []int{2, 2, 1}[axis]
		lo2, hi2 := [3]int{lo[u], lo[v], 0}, [3]int{hi[u], hi[v], 0}
		s.shape, s.data, s.extra = "box", boxData(lo2, hi2), extraBox(lo2, hi2, 0)
	case 8: // CrossSectionSolid of a sphere at a height where the section radius is an integer
		c := [3]int{ri(rng, -2, 2), ri(rng, -2, 2), ri(rng, -2, 2)}
		rh := [][3]int{{5, 3, 4}, {5, 4, 3}, {5, 0, 5}, {5, -3, 4}}[rng.Intn(4)]
		axis := rng.Intn(3)
		s = lazySolid2("model3d.CrossSectionSolid", fmt.Sprintf("Sphere c=%v r=%d axis=%d value=%d", c, rh[0], axis, c[axis]+rh[1]),
			func() model2d.Solid {
				return model3d.CrossSectionSolid(&model3d.Sphere{Center: v3c(i3f(c)), Radius: float64(rh[0])}, axis, float64(c[axis]+rh[1]))
			})
		u, v := []int{1, 0, 0}[axis], []int{2, 2, 1}[axis]
		s.shape, s.data = "sphere", []int{4 * c[u], 4 * c[v], 0, 4 * rh[2]}
	case 9, 10: // NewColliderSolidInset, inset > 0 / < 0
		lo, hi := derivedBox(rng, 3)
		k4 := -ri(rng, 1, 6)
		if kind%nDerivedSolidKinds == 9 {
			k4 = ri(rng, 1, 3) // at most 3/4: boxes of side >= 2 keep an interior, thinner ones become empty
			hi[rng.Intn(3)]++
			if rng.Intn(3) == 0 {
				k4 = ri(rng, 4, 9) // more than half of some side: nothing is left, the bounds must still be a box
			}
		}
		mesh := rng.Intn(2) == 0
		_, cname := boxCollider3(lo, hi, mesh)
		s = lazySolid3("model3d.NewColliderSolidInset", fmt.Sprintf("%s lo=%v hi=%v inset=%v", cname, lo, hi, float64(k4)/4),
			func() model3d.Solid {
				c, _ := boxCollider3(lo, hi, mesh)
				return model3d.NewColliderSolidInset(c, float64(k4)/4)
			})
		s.shape, s.data = insetShape(lo, hi, 3, k4)
		s.extra = extraBox(lo, hi, float64(-k4)/4)
	case 11: // NewColliderSolidHollow
		lo, hi := derivedBox(rng, 3)
		k4 := ri(rng, 1, 6)
		mesh := rng.Intn(2) == 0
		_, cname := boxCollider3(lo, hi, mesh)
		s = lazySolid3("model3d.NewColliderSolidHollow", fmt.Sprintf("%s lo=%v hi=%v r=%v", cname, lo, hi, float64(k4)/4),
			func() model3d.Solid {
				c, _ := boxCollider3(lo, hi, mesh)
				return model3d.NewColliderSolidHollow(c, float64(k4)/4)
			})
		s.shape, s.data = "shell", append(boxData(lo, hi), k4)
		s.extra = extraBox(lo, hi, float64(k4)/4)
	case 12, 13: // model2d.NewColliderSolidInset
		lo, hi := derivedBox(rng, 2)
		k4 := -ri(rng, 1, 6)
		if kind%nDerivedSolidKinds == 12 {
			k4 = ri(rng, 1, 3)
			hi[rng.Intn(2)]++
			if rng.Intn(3) == 0 {
				k4 = ri(rng, 4, 9)
			}
		}
		mesh := rng.Intn(2) == 0
		_, cname := boxCollider2(lo, hi, mesh)
		s = lazySolid2("model2d.NewColliderSolidInset", fmt.Sprintf("%s lo=%v hi=%v inset=%v", cname, lo[:2], hi[:2], float64(k4)/4),
			func() model2d.Solid {
				c, _ := boxCollider2(lo, hi, mesh)
				return model2d.NewColliderSolidInset(c, float64(k4)/4)
			})
		s.shape, s.data = insetShape(lo, hi, 2, k4)
		s.extra = extraBox(lo, hi, float64(-k4)/4)
	case 14: // model2d.NewColliderSolidHollow
		lo, hi := derivedBox(rng, 2)
		k4 := ri(rng, 1, 6)
		mesh := rng.Intn(2) == 0
		_, cname := boxCollider2(lo, hi, mesh)
		s = lazySolid2("model2d.NewColliderSolidHollow", fmt.Sprintf("%s lo=%v hi=%v r=%v", cname, lo[:2], hi[:2], float64(k4)/4),
			func() model2d.Solid {
				c, _ := boxCollider2(lo, hi, mesh)
				return model2d.NewColliderSolidHollow(c, float64(k4)/4)
			})
		s.shape, s.data = "shell", append(boxData(lo, hi), k4)
		s.extra = extraBox(lo, hi, float64(k4)/4)
	case 15: // CheckedFuncSolid: f ignores the box (always true, or a ball that sticks out of it)
		lo, hi := derivedBox(rng, 3)
		if rng.Intn(2) == 0 {
			s = lazySolid3("model3d.CheckedFuncSolid", fmt.Sprintf("lo=%v hi=%v f=true", lo, hi), func() model3d.Solid {
				return model3d.CheckedFuncSolid(v3c(i3f(lo)), v3c(i3f(hi)), func(model3d.Coord3D) bool { return true })
			})
			s.shape, s.data = "box", boxData(lo, hi)
		} else {
			c := [3]int{ri(rng, lo[0], hi[0]), ri(rng, lo[1], hi[1]), ri(rng, lo[2], hi[2])}
			r := ri(rng, 1, 4)
			s = lazySolid3("model3d.CheckedFuncSolid", fmt.Sprintf("lo=%v hi=%v f=ball(c=%v r=%d)", lo, hi, c, r), func() model3d.Solid {
				ctr := v3c(i3f(c))
				return model3d.CheckedFuncSolid(v3c(i3f(lo)), v3c(i3f(hi)), func(p model3d.Coord3D) bool { return p.Dist(ctr) <= float64(r) })
			})
			s.shape, s.data = "boxsphere", append(boxData(lo, hi), 4*c[0], 4*c[1], 4*c[2], 4*r)
		}
		s.extra = extraBox(lo, hi, 0)
	default: // model2d.CheckedFuncSolid
		lo, hi := derivedBox(rng, 2)
		if rng.Intn(2) == 0 {
			s = lazySolid2("model2d.CheckedFuncSolid", fmt.Sprintf("lo=%v hi=%v f=true", lo[:2], hi[:2]), func() model2d.Solid {
				return model2d.CheckedFuncSolid(v2c(i3f(lo)), v2c(i3f(hi)), func(model2d.Coord) bool { return true })
			})
			s.shape, s.data = "box", boxData(lo, hi)
		} else {
			c := [3]int{ri(rng, lo[0], hi[0]), ri(rng, lo[1], hi[1]), 0}
			r := ri(rng, 1, 4)
			s = lazySolid2("model2d.CheckedFuncSolid", fmt.Sprintf("lo=%v hi=%v f=disc(c=%v r=%d)", lo[:2], hi[:2], c[:2], r), func() model2d.Solid {
				ctr := v2c(i3f(c))
				return model2d.CheckedFuncSolid(v2c(i3f(lo)), v2c(i3f(hi)), func(p model2d.Coord) bool { return p.Dist(ctr) <= float64(r) })
			})
			s.shape, s.data = "boxsphere", append(boxData(lo, hi), 4*c[0], 4*c[1], 0, 4*r)
		}
		s.extra = extraBox(lo, hi, 0)
	}
	return s
}

func genDerivedSolids(rng *rand.Rand, n int) []*primShape {
	out := []*primShape{}
	for i := 0; i < n*nDerivedSolidKinds; i++ {
		out = append(out, genDerivedSolid(rng, i))
	}
	return out
}

// ---------------------------------------------------------------------------- extruded primitives (C06, C07)

// genProfilePrim: a 2-D rect or circle extruded along z.  The reference primitive (model3d.Rect / Cylinder with the
// same data) supplies the exact shape for PrimJudge ("box") and the surface description for the general-position
// classification; every observed answer comes from the extruded object: ProfileCollider for rays and balls,
// ProfileSDF for the value, ProfilePointSDF for the nearest point, ProfileSolid for containment.  There is no
// normal field (hasNormal = false).
func genProfilePrim(rng *rand.Rand, kind int, asCollider bool) *primShape {
	z0 := ri(rng, -3, 1)
	z1 := z0 + ri(rng, 1, 4)
	var s *primShape
	var coll2 model2d.Collider
	var sdf2 model2d.PointSDF
	var solid2 model2d.Solid
	if kind%2 == 0 {
		lo, hi := derivedBox(rng, 2)
		lo[2], hi[2] = z0, z1
		s = adapt3("", "", rect3(lo, hi))
		s.variant = fmt.Sprintf("Rect lo=%v hi=%v z=[%d,%d]", lo[:2], hi[:2], z0, z1)
		s.shape, s.data, s.boxEdges = "box", boxData(lo, hi), true
		boxSpecials(s, i3scale(lo, 4), i3scale(hi, 4), 3, rng)
		r := rect2(lo, hi)
		coll2, sdf2, solid2 = r, r, r
	} else {
		c := [3]int{ri(rng, -2, 2), ri(rng, -2, 2), z0}
		r := ri(rng, 1, 4)
		top := [3]int{c[0], c[1], z1}
		s = adapt3("", "", &model3d.Cylinder{P1: v3c(i3f(c)), P2: v3c(i3f(top)), Radius: float64(r)})
		s.variant = fmt.Sprintf("Circle c=%v r=%d z=[%d,%d]", c[:2], r, z0, z1)
		s.circles = []primCircle{{i3f(c), pvec{0, 0, 1}, float64(r)}, {i3f(top), pvec{0, 0, 1}, float64(r)}}
		axisSpecials(s, i3scale(c, 4), [3]int{0, 0, z1 - z0}, 4*r, 3, []int{0, 1, 2, 0, 1, 2}, []int{1, 1, 1, 2, 2, 2})
		ci := &model2d.Circle{Center: v2c(i3f(c)), Radius: float64(r)}
		coll2, sdf2, solid2 = ci, ci, ci
	}
	fz0, fz1 := float64(z0), float64(z1)
	if asCollider {
		// rays, first hit, balls and bounds from the extruded collider; "on the surface", "outward" and "inside" are
		// judged with the reference primitive's own field
		coll := model3d.ProfileCollider(coll2, fz0, fz1)
		s.site = "model3d.ProfileCollider"
		s.bounds = func() (pvec, pvec) { return c3v(coll.Min()), c3v(coll.Max()) }
		s.rays = func(or, d pvec, cb bool) (int, []primHit) {
			r := &model3d.Ray{Origin: v3c(or), Direction: v3c(d)}
			if !cb {
				return coll.RayCollisions(r, nil), nil
			}
			hs := []primHit{}
			n := coll.RayCollisions(r, func(rc model3d.RayCollision) { hs = append(hs, primHit{rc.Scale, c3v(rc.Normal)}) })
			return n, hs
		}
		s.first = func(or, d pvec) (primHit, bool) {
			rc, ok := coll.FirstRayCollision(&model3d.Ray{Origin: v3c(or), Direction: v3c(d)})
			return primHit{rc.Scale, c3v(rc.Normal)}, ok
		}
		s.ball = func(c pvec, r float64) bool { return coll.SphereCollision(v3c(c), r) }
		return s
	}
	sdf := model3d.ProfileSDF(sdf2, fz0, fz1)
	psdf := model3d.ProfilePointSDF(sdf2, fz0, fz1)
	solid := model3d.ProfileSolid(solid2, fz0, fz1)
	s.site = "model3d.ProfilePointSDF"
	s.hasNoNormal = true
	s.normalSDF = nil
	s.bounds = func() (pvec, pvec) { return c3v(psdf.Min()), c3v(psdf.Max()) }
	s.contains = func(p pvec) bool { return solid.Contains(v3c(p)) }
	s.sdf = func(p pvec) float64 { return sdf.SDF(v3c(p)) }
	s.pointSDF = func(p pvec) (pvec, float64) { c, d := psdf.PointSDF(v3c(p)); return c3v(c), d }
	return s
}

func genProfilePrims(rng *rand.Rand, n int, asCollider bool) []*primShape {
	out := []*primShape{}
	for i := 0; i < 2*n; i++ {
		out = append(out, genProfilePrim(rng, i, asCollider))
	}
	return out
}

// ---------------------------------------------------------------------------- wrappers around a box (C03)
//
//	model3d / model2d .TranslateSolid, ScaleSolid, RotateSolid (quarter turns), VecScaleSolid (incl. negative
//	components) of a Rect                                          = the image box
//	toolbox3d.ClampAxisMax / ClampAxisMin / ClampXMax ... ClampZMin of a Rect = the box cut at the plane; of a
//	Sphere = the ball intersected with its bounding box cut at the plane ("boxsphere")
//	model3d / model2d .FuncSolid(min, max, f)                       = whatever f says (f = closed box here); the
//	documented panic on invalid bounds is projected onto the bounds clause (a solid with invalid bounds that was
//	constructed without a panic is handed to the judge as it is)
//	toolbox3d.RadialCurve over a straight curve with a constant / linearly vanishing radius = cylinder / cone;
//	over a closed square loop with constant radius = the points within r of the loop (harness-side definition,
//	probes within 1e-6 of that boundary undecided)

// quarter turns as integer matrices (right-handed about x, y, z; counter-clockwise in 2-D), row by row
var quarterTurns = [3][3][3]int{
	{{1, 0, 0}, {0, 0, -1}, {0, 1, 0}},
	{{0, 0, 1}, {0, 1, 0}, {-1, 0, 0}},
	{{0, -1, 0}, {1, 0, 0}, {0, 0, 1}},
}

func i3mat(m [3][3]int, v [3]int) [3]int {
	return [3]int{i3dot(m[0], v), i3dot(m[1], v), i3dot(m[2], v)}
}

// the box spanned by two opposite corners given in quarter units
func cornerBox4(a, b [3]int) []int {
	d := make([]int, 6)
	for i := 0; i < 3; i++ {
		d[i], d[3+i] = a[i], b[i]
		if a[i] > b[i] {
			d[i], d[3+i] = b[i], a[i]
		}
	}
	return d
}

func q4xy(q [3]int) []float64 { p := q4pt(q); return p[:2] }

func extraOfData(d []int) *[2]pvec {
	return &[2]pvec{q4pt([3]int{d[0], d[1], d[2]}), q4pt([3]int{d[3], d[4], d[5]})}
}

// a small box: side lengths 1..2 so that its scaled images stay within the exactly judged probe budget
func smallBox(rng *rand.Rand, dim int) (lo, hi [3]int) {
	for i := 0; i < dim; i++ {
		lo[i] = ri(rng, -2, 1)
		hi[i] = lo[i] + ri(rng, 1, 2)
	}
	return
}

// scale factors as quarters (the image of an integer box stays on the quarter lattice)
var wrapScales4 = []int{2, 4, 8, 12, 1, 6}
var wrapVecScales4 = []int{-8, -4, -2, -1, 2, 4, 8, 12, -6}

const nWrapperSolidKinds = 16

func genWrapperSolid(rng *rand.Rand, kind int) *primShape {
	var s *primShape
	switch kind % nWrapperSolidKinds {
	case 0, 4: // TranslateSolid
		dim := []int{3, 2}[kind%nWrapperSolidKinds/4]
		lo, hi := derivedBox(rng, dim)
		off4 := [3]int{ri(rng, -9, 9), ri(rng, -9, 9), ri(rng, -9, 9)}
		if dim == 2 {
			off4[2] = 0
			s = lazySolid2("model2d.TranslateSolid", fmt.Sprintf("Rect lo=%v hi=%v offset=%v", lo[:2], hi[:2], q4xy(off4)),
				func() model2d.Solid { return model2d.TranslateSolid(rect2(lo, hi), v2c(q4pt(off4))) })
		} else {
			s = lazySolid3("model3d.TranslateSolid", fmt.Sprintf("Rect lo=%v hi=%v offset=%v", lo, hi, q4pt(off4)),
				func() model3d.Solid { return model3d.TranslateSolid(rect3(lo, hi), v3c(q4pt(off4))) })
		}
		s.shape, s.data = "box", cornerBox4(i3add(i3scale(lo, 4), off4), i3add(i3scale(hi, 4), off4))
	case 1, 5: // ScaleSolid (positive factors: "the new solid is s times larger")
		dim := []int{3, 2}[kind%nWrapperSolidKinds/4]
		lo, hi := smallBox(rng, dim)
		k4 := wrapScales4[rng.Intn(len(wrapScales4))]
		if dim == 2 {
			s = lazySolid2("model2d.ScaleSolid", fmt.Sprintf("Rect lo=%v hi=%v s=%v", lo[:2], hi[:2], float64(k4)/4),
				func() model2d.Solid { return model2d.ScaleSolid(rect2(lo, hi), float64(k4)/4) })
		} else {
			s = lazySolid3("model3d.ScaleSolid", fmt.Sprintf("Rect lo=%v hi=%v s=%v", lo, hi, float64(k4)/4),
				func() model3d.Solid { return model3d.ScaleSolid(rect3(lo, hi), float64(k4)/4) })
		}
		s.shape, s.data = "box", cornerBox4(i3scale(lo, k4), i3scale(hi, k4))
	case 2: // model3d.RotateSolid: 1..3 quarter turns about +-x, +-y, +-z
		lo, hi := derivedBox(rng, 3)
		ax, sg, turns := rng.Intn(3), []int{1, -1}[rng.Intn(2)], ri(rng, 1, 3)
		axis := [3]int{}
		axis[ax] = sg
		s = lazySolid3("model3d.RotateSolid", fmt.Sprintf("Rect lo=%v hi=%v axis=%v angle=%d*pi/2", lo, hi, axis, turns),
			func() model3d.Solid {
				return model3d.RotateSolid(rect3(lo, hi), v3c(i3f(axis)), float64(turns)*math.Pi/2)
			})
		n := turns
		if sg < 0 {
			n = 4 - turns
		}
		a, b := i3scale(lo, 4), i3scale(hi, 4)
		for i := 0; i < n; i++ {
			a, b = i3mat(quarterTurns[ax], a), i3mat(quarterTurns[ax], b)
		}
		s.shape, s.data = "box", cornerBox4(a, b)
	case 6: // model2d.RotateSolid: -3..3 quarter turns, counter-clockwise for positive angles
		lo, hi := derivedBox(rng, 2)
		turns := []int{-3, -2, -1, 1, 2, 3}[rng.Intn(6)]
		s = lazySolid2("model2d.RotateSolid", fmt.Sprintf("Rect lo=%v hi=%v angle=%d*pi/2", lo[:2], hi[:2], turns),
			func() model2d.Solid { return model2d.RotateSolid(rect2(lo, hi), float64(turns)*math.Pi/2) })
		a, b := i3scale(lo, 4), i3scale(hi, 4)
		for i := 0; i < (turns+4)%4; i++ {
			a, b = i3mat(quarterTurns[2], a), i3mat(quarterTurns[2], b)
		}
		s.shape, s.data = "box", cornerBox4(a, b)
	case 3, 7: // VecScaleSolid, negative components included
		dim := []int{3, 2}[kind%nWrapperSolidKinds/4]
		lo, hi := smallBox(rng, dim)
		v4 := [3]int{4, 4, 4}
		for i := 0; i < dim; i++ {
			v4[i] = wrapVecScales4[rng.Intn(len(wrapVecScales4))]
		}
		a, b := [3]int{}, [3]int{}
		for i := 0; i < dim; i++ {
			a[i], b[i] = lo[i]*v4[i], hi[i]*v4[i]
		}
		if dim == 2 {
			s = lazySolid2("model2d.VecScaleSolid", fmt.Sprintf("Rect lo=%v hi=%v v=%v", lo[:2], hi[:2], q4xy(v4)),
				func() model2d.Solid { return model2d.VecScaleSolid(rect2(lo, hi), v2c(q4pt(v4))) })
		} else {
			s = lazySolid3("model3d.VecScaleSolid", fmt.Sprintf("Rect lo=%v hi=%v v=%v", lo, hi, q4pt(v4)),
				func() model3d.Solid { return model3d.VecScaleSolid(rect3(lo, hi), v3c(q4pt(v4))) })
		}
		s.shape, s.data = "box", cornerBox4(a, b)
	case 8, 9, 10: // toolbox3d clamps: generic (8), per-axis functions (9), either over a sphere (10)
		ax, isMax := rng.Intn(3), rng.Intn(2) == 0
		named := kind%nWrapperSolidKinds == 9 || (kind%nWrapperSolidKinds == 10 && rng.Intn(2) == 0)
		round := kind / nWrapperSolidKinds
		switch kind % nWrapperSolidKinds { // every function in turn
		case 8:
			isMax = round%2 == 0
		case 9:
			ax, isMax = round%3, (round/3)%2 == 0
		}
		var lo, hi [3]int
		var c [3]int
		r := 0
		if kind%nWrapperSolidKinds == 10 {
			c = [3]int{ri(rng, -2, 2), ri(rng, -2, 2), ri(rng, -2, 2)}
			r = ri(rng, 1, 3)
			for i := 0; i < 3; i++ {
				lo[i], hi[i] = c[i]-r, c[i]+r
			}
		} else {
			lo, hi = derivedBox(rng, 3)
		}
		// the cut in quarter units: through the solid, on its boundary, or beyond it on either side
		at4 := ri(rng, 4*lo[ax]-3, 4*hi[ax]+3)
		at := float64(at4) / 4
		base := func() model3d.Solid {
			if r > 0 {
				return &model3d.Sphere{Center: v3c(i3f(c)), Radius: float64(r)}
			}
			return rect3(lo, hi)
		}
		fname := fmt.Sprintf("ClampAxis%s", map[bool]string{true: "Max", false: "Min"}[isMax])
		if named {
			fname = fmt.Sprintf("Clamp%s%s", []string{"X", "Y", "Z"}[ax], map[bool]string{true: "Max", false: "Min"}[isMax])
		}
		desc := fmt.Sprintf("Rect lo=%v hi=%v", lo, hi)
		if r > 0 {
			desc = fmt.Sprintf("Sphere c=%v r=%d", c, r)
		}
		s = lazySolid3("toolbox3d."+fname, fmt.Sprintf("%s axis=%d at=%v", desc, ax, at), func() model3d.Solid {
			b := base()
			if !named {
				if isMax {
					return toolbox3d.ClampAxisMax(b, toolbox3d.Axis(ax), at)
				}
				return toolbox3d.ClampAxisMin(b, toolbox3d.Axis(ax), at)
			}
			fs := map[bool][]func(model3d.Solid, float64) model3d.Solid{
				true:  {toolbox3d.ClampXMax, toolbox3d.ClampYMax, toolbox3d.ClampZMax},
				false: {toolbox3d.ClampXMin, toolbox3d.ClampYMin, toolbox3d.ClampZMin},
			}
			return fs[isMax][ax](b, at)
		})
		d := boxData(lo, hi)
		if isMax && at4 < d[3+ax] {
			d[3+ax] = at4
		}
		if !isMax && at4 > d[ax] {
			d[ax] = at4
		}
		// (a cut beyond the solid leaves lo > hi on that axis: the exact shape is empty)
		s.shape, s.data = "box", d
		if r > 0 {
			s.shape, s.data = "boxsphere", append(d, 4*c[0], 4*c[1], 4*c[2], 4*r)
		}
		s.extra = extraBox(lo, hi, 0)
	case 11, 12: // FuncSolid
		dim := []int{3, 2}[kind%nWrapperSolidKinds-11]
		lo, hi := derivedBox(rng, dim)
		bad := (kind/nWrapperSolidKinds)%2 == 1
		badKind := rng.Intn(3)
		blo, bhi := i3f(lo), i3f(hi)
		variant := "f=closed box"
		if bad { // documented: "If the bounds are invalid, FuncSolid() will panic()"
			a := rng.Intn(dim)
			switch badKind {
			case 0:
				blo[a], bhi[a] = bhi[a], blo[a]
				variant = "invalid bounds (max < min)"
			case 1:
				bhi[a] = math.Inf(1)
				variant = "invalid bounds (infinite)"
			default:
				blo[a] = math.NaN()
				variant = "invalid bounds (NaN)"
			}
		}
		flo, fhi := i3f(lo), i3f(hi)
		if dim == 2 {
			in := func(p model2d.Coord) bool { return p.X >= flo[0] && p.X <= fhi[0] && p.Y >= flo[1] && p.Y <= fhi[1] }
			s = lazySolid2("model2d.FuncSolid", fmt.Sprintf("lo=%v hi=%v %s", lo[:2], hi[:2], variant), func() (res model2d.Solid) {
				if bad {
					// the expected panic leaves the plain box; a solid constructed nevertheless is judged as it is
					defer func() {
						if recover() != nil {
							res = model2d.FuncSolid(v2c(flo), v2c(fhi), in)
						}
					}()
				}
				return model2d.FuncSolid(v2c(blo), v2c(bhi), in)
			})
		} else {
			in := func(p model3d.Coord3D) bool {
				return p.X >= flo[0] && p.X <= fhi[0] && p.Y >= flo[1] && p.Y <= fhi[1] && p.Z >= flo[2] && p.Z <= fhi[2]
			}
			s = lazySolid3("model3d.FuncSolid", fmt.Sprintf("lo=%v hi=%v %s", lo, hi, variant), func() (res model3d.Solid) {
				if bad {
					defer func() {
						if recover() != nil {
							res = model3d.FuncSolid(v3c(flo), v3c(fhi), in)
						}
					}()
				}
				return model3d.FuncSolid(v3c(blo), v3c(bhi), in)
			})
		}
		s.shape, s.data = "box", boxData(lo, hi)
	case 13, 14: // RadialCurve along a straight segment: constant radius = cylinder, radius falling to 0 = cone
		p1 := [3]int{ri(rng, -2, 2), ri(rng, -2, 2), ri(rng, -2, 2)}
		a := randAxis(rng, 3)
		if i3dot(a, a) > 14 {
			a = [3]int{a[0] / 2, a[1] / 2, a[2] / 2}
		}
		r := ri(rng, 1, 3)
		steps := []int{1, 2, 4, 8}[rng.Intn(4)]
		cone := kind%nWrapperSolidKinds == 14
		s = lazySolid3("toolbox3d.RadialCurve", fmt.Sprintf("straight p1=%v a=%v r=%d cone=%v steps=%d", p1, a, r, cone, steps), func() model3d.Solid {
			return toolbox3d.RadialCurve(steps, false, func(t float64) (model3d.Coord3D, float64) {
				rad := float64(r)
				if cone {
					rad *= 1 - t
				}
				return v3c(pvAdd(i3f(p1), pvScale(i3f(a), t))), rad
			})
		})
		p14 := i3scale(p1, 4)
		s.shape, s.data = "cyl", []int{p14[0], p14[1], p14[2], a[0], a[1], a[2], 4 * r}
		if cone {
			s.shape = "cone"
		}
		var lo, hi pvec
		for i := 0; i < 3; i++ {
			u := float64(a[i]) / pvNorm(i3f(a))
			rim := float64(r) * math.Sqrt(math.Max(0, 1-u*u))
			lo[i] = math.Min(float64(p1[i]), float64(p1[i]+a[i])) - rim
			hi[i] = math.Max(float64(p1[i]), float64(p1[i]+a[i])) + rim
		}
		s.extra = &[2]pvec{lo, hi}
	default: // RadialCurve around a closed axis-parallel square loop, constant radius
		c := [3]int{ri(rng, -1, 1), ri(rng, -1, 1), ri(rng, -1, 1)}
		side := ri(rng, 2, 4)
		r4 := ri(rng, 1, 6) // quarter units
		per := []int{1, 2, 4}[rng.Intn(3)]
		pl := rng.Intn(3) // the loop lies in the plane normal to axis pl
		u, v := (pl+1)%3, (pl+2)%3
		corners := [5]pvec{}
		for i, uv := range [][2]int{{0, 0}, {1, 0}, {1, 1}, {0, 1}, {0, 0}} {
			p := i3f(c)
			p[u] += float64(uv[0] * side)
			p[v] += float64(uv[1] * side)
			corners[i] = p
		}
		rad := float64(r4) / 4
		curve := func(t float64) (model3d.Coord3D, float64) {
			t -= math.Floor(t)
			k := int(math.Floor(t * 4))
			f := t*4 - float64(k)
			return v3c(pvAdd(pvScale(corners[k], 1-f), pvScale(corners[k+1], f))), rad
		}
		s = lazySolid3("toolbox3d.RadialCurve", fmt.Sprintf("closed square c=%v side=%d plane=%d r=%v steps=%d", c, side, pl, rad, 4*per),
			func() model3d.Solid { return toolbox3d.RadialCurve(4*per, true, curve) })
		// "extends in every normal direction to the curve": within rad of the loop
		s.def = func(p pvec) bool {
			best := math.Inf(1)
			for i := 0; i < 4; i++ {
				d := pvSub(corners[i+1], corners[i])
				t := math.Max(0, math.Min(1, pvDot(pvSub(p, corners[i]), d)/pvDot(d, d)))
				best = math.Min(best, pvNorm(pvSub(p, pvAdd(corners[i], pvScale(d, t)))))
			}
			return best < rad-1e-6
		}
		lo, hi := i3f(c), i3f(c)
		hi[u] += float64(side)
		hi[v] += float64(side)
		s.extra = &[2]pvec{pvSub(lo, pvec{rad, rad, rad}), pvAdd(hi, pvec{rad, rad, rad})}
	}
	if s.extra == nil && len(s.data) >= 6 && (s.shape == "box") {
		s.extra = extraOfData(s.data)
	}
	return s
}

func genWrapperSolids(rng *rand.Rand, n int) []*primShape {
	out := []*primShape{}
	for i := 0; i < n*nWrapperSolidKinds; i++ {
		out = append(out, genWrapperSolid(rng, i))
	}
	return out
}
