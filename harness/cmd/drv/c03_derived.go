package main

// C03 / C06 / C07 "prims" stages, derived objects: solids, colliders and distance fields that the library
// derives from other objects and whose true shape is known exactly when the operands have integer data.
//
//	model3d.ProfileSolid(2-D Rect, z0, z1)                      = box
//	model3d.SDFToSolid / model2d.SDFToSolid(Rect, outset)       = open box (0), rounded box (> 0), smaller box (< 0)
//	model3d.RevolveSolid(2-D Rect [r0,r1] x [y0,y1], axis)      = annular cylinder around the axis
//	model3d.CrossSectionSolid(Rect / Sphere, axis, value)       = 2-D rect / circle
//	NewColliderSolidInset(box collider, inset)  (3-D and 2-D)   = smaller box (> 0), rounded box (< 0)
//	NewColliderSolidHollow(box collider, r)     (3-D and 2-D)   = points within r of the box surface
//	CheckedFuncSolid(min, max, f)               (3-D and 2-D)   = box intersected with f
//	model3d.ProfileCollider(2-D Rect / Circle, z0, z1)          = box / cylinder (as collider)
//	model3d.ProfileSDF / ProfilePointSDF(2-D Rect / Circle)     = box / cylinder (as distance field, no normals)
//
// Boundary conventions (from the doc comments and the code they describe): CheckedFuncSolid and InBounds are closed;
// SDFToSolid is "SDF > -outset" (open); ColliderContains with a margin and SphereCollision at tangency are not
// documented - PrimJudge never decides a probe that lies exactly on the boundary of the true shape (Side = "on").

import (
	"fmt"
	"math"
	"math/rand"

	"github.com/unixpickle/model3d/model2d"
	"github.com/unixpickle/model3d/model3d"
)

func derivedBox(rng *rand.Rand, dim int) (lo, hi [3]int) {
	for i := 0; i < dim; i++ {
		lo[i] = ri(rng, -3, 1)
		hi[i] = lo[i] + ri(rng, 1, 4)
	}
	return
}

func boxData(lo, hi [3]int) []int {
	return []int{4 * lo[0], 4 * lo[1], 4 * lo[2], 4 * hi[0], 4 * hi[1], 4 * hi[2]}
}

// the region in which the true shape lies (probed whatever the reported bounds are)
func extraBox(lo, hi [3]int, grow float64) *[2]pvec {
	return &[2]pvec{pvSub(i3f(lo), pvec{grow, grow, grow}), pvAdd(i3f(hi), pvec{grow, grow, grow})}
}

func rect3(lo, hi [3]int) *model3d.Rect { return model3d.NewRect(v3c(i3f(lo)), v3c(i3f(hi))) }
func rect2(lo, hi [3]int) *model2d.Rect { return model2d.NewRect(v2c(i3f(lo)), v2c(i3f(hi))) }

// box colliders: the primitive itself, or the triangle / segment mesh of its surface
func boxCollider3(lo, hi [3]int, mesh bool) (model3d.Collider, string) {
	if mesh {
		return model3d.MeshToCollider(model3d.NewMeshRect(v3c(i3f(lo)), v3c(i3f(hi)))), "MeshToCollider(NewMeshRect)"
	}
	return rect3(lo, hi), "Rect"
}

func boxCollider2(lo, hi [3]int, mesh bool) (model2d.Collider, string) {
	if mesh {
		return model2d.MeshToCollider(model2d.NewMeshRect(v2c(i3f(lo)), v2c(i3f(hi)))), "MeshToCollider(NewMeshRect)"
	}
	return rect2(lo, hi), "Rect"
}

// inset / outset / shell of a box with k quarter units: shape and data for PrimJudge
func insetShape(lo, hi [3]int, dim, k4 int) (string, []int) {
	if k4 >= 0 { // the points deeper than k inside: the box shrunk by k (empty if too thin)
		d := boxData(lo, hi)
		for i := 0; i < dim; i++ {
			d[i] += k4
			d[3+i] -= k4
		}
		return "box", d
	}
	return "rbox", append(boxData(lo, hi), -k4)
}

const nDerivedSolidKinds = 17

// genDerivedSolid: kind selects the constructor, the seed the data
func genDerivedSolid(rng *rand.Rand, kind int) *primShape {
	var s *primShape
	switch kind % nDerivedSolidKinds {
	case 0: // ProfileSolid of a 2-D rect
		lo, hi := derivedBox(rng, 2)
		lo[2] = ri(rng, -3, 1)
		hi[2] = lo[2] + ri(rng, 1, 4)
		s = lazySolid3("model3d.ProfileSolid", fmt.Sprintf("Rect lo=%v hi=%v z=[%d,%d]", lo[:2], hi[:2], lo[2], hi[2]),
			func() model3d.Solid { return model3d.ProfileSolid(rect2(lo, hi), float64(lo[2]), float64(hi[2])) })
		s.shape, s.data, s.extra = "box", boxData(lo, hi), extraBox(lo, hi, 0)
	case 1, 2, 3: // SDFToSolid of a 3-D rect: outset 0, > 0, < 0
		lo, hi := derivedBox(rng, 3)
		k4 := []int{0, ri(rng, 1, 8), -1}[kind%nDerivedSolidKinds-1]
		s = lazySolid3("model3d.SDFToSolid", fmt.Sprintf("Rect lo=%v hi=%v outset=%v", lo, hi, float64(k4)/4),
			func() model3d.Solid { return model3d.SDFToSolid(rect3(lo, hi), float64(k4)/4) })
		s.shape, s.data = insetShape(lo, hi, 3, -k4)
		s.extra = extraBox(lo, hi, float64(k4)/4)
	case 4, 5: // model2d.SDFToSolid
		lo, hi := derivedBox(rng, 2)
		k4 := []int{ri(rng, 0, 8), -1}[kind%nDerivedSolidKinds-4]
		s = lazySolid2("model2d.SDFToSolid", fmt.Sprintf("Rect lo=%v hi=%v outset=%v", lo[:2], hi[:2], float64(k4)/4),
			func() model2d.Solid { return model2d.SDFToSolid(rect2(lo, hi), float64(k4)/4) })
		s.shape, s.data = insetShape(lo, hi, 2, -k4)
		s.extra = extraBox(lo, hi, float64(k4)/4)
	case 6: // RevolveSolid of a rect on the non-negative side of the axis (or symmetric about it)
		axes := [][4]int{{0, 0, 1, 1}, {0, 1, 0, 1}, {1, 0, 0, 1}, {0, 0, -1, 1}, {2, 2, 1, 3}, {-2, 1, 2, 3}, {0, 3, 4, 5}, {0, 0, 2, 2}}
		ax := axes[rng.Intn(len(axes))]
		r0 := ri(rng, 0, 2)
		r1 := r0 + ri(rng, 1, 2)
		y0 := ri(rng, -2, 1)
		y1 := y0 + ri(rng, 1, 2)
		x0 := r0
		if r0 == 0 && rng.Intn(2) == 0 {
			x0 = -r1 // symmetric about the axis
		}
		s = lazySolid3("model3d.RevolveSolid", fmt.Sprintf("Rect x=[%d,%d] y=[%d,%d] axis=%v", x0, r1, y0, y1, ax[:3]),
			func() model3d.Solid {
				return model3d.RevolveSolid(rect2([3]int{x0, y0, 0}, [3]int{r1, y1, 0}), model3d.XYZ(float64(ax[0]), float64(ax[1]), float64(ax[2])))
			})
		s.shape, s.data = "annulus", []int{ax[0], ax[1], ax[2], ax[3], 4 * r0, 4 * r1, 4 * y0, 4 * y1}
		// the extent of the true shape along coordinate i: the axis segment plus the tilted rim disc
		var lo, hi pvec
		for i := 0; i < 3; i++ {
			u := float64(ax[i]) / float64(ax[3])
			rim := float64(r1) * math.Sqrt(math.Max(0, 1-u*u))
			lo[i] = math.Min(u*float64(y0), u*float64(y1)) - rim
			hi[i] = math.Max(u*float64(y0), u*float64(y1)) + rim
		}
		s.extra = &[2]pvec{lo, hi}
	case 7: // CrossSectionSolid of a box
		lo, hi := derivedBox(rng, 3)
		axis := rng.Intn(3)
		v4 := ri(rng, 4*lo[axis]+1, 4*hi[axis]-1)
		s = lazySolid2("model3d.CrossSectionSolid", fmt.Sprintf("Rect lo=%v hi=%v axis=%d value=%v", lo, hi, axis, float64(v4)/4),
			func() model2d.Solid { return model3d.CrossSectionSolid(rect3(lo, hi), axis, float64(v4)/4) })
		u, v := []int{1, 0, 0}[axis], []int{2, 2, 1}[axis]
		lo2, hi2 := [3]int{lo[u], lo[v], 0}, [3]int{hi[u], hi[v], 0}
		s.shape, s.data, s.extra = "box", boxData(lo2, hi2), extraBox(lo2, hi2, 0)
	case 8: // CrossSectionSolid of a sphere at a height where the section radius is an integer
		c := [3]int{ri(rng, -2, 2), ri(rng, -2, 2), ri(rng, -2, 2)}
		rh := [][3]int{{5, 3, 4}, {5, 4, 3}, {5, 0, 5}, {5, -3, 4}}[rng.Intn(4)]
		axis := rng.Intn(3)
		s = lazySolid2("model3d.CrossSectionSolid", fmt.Sprintf("Sphere c=%v r=%d axis=%d value=%d", c, rh[0], axis, c[axis]+rh[1]),
			func() model2d.Solid {
				return model3d.CrossSectionSolid(&model3d.Sphere{Center: v3c(i3f(c)), Radius: float64(rh[0])}, axis, float64(c[axis]+rh[1]))
			})
		u, v := []int{1, 0, 0}[axis], []int{2, 2, 1}[axis]
		s.shape, s.data = "sphere", []int{4 * c[u], 4 * c[v], 0, 4 * rh[2]}
	case 9, 10: // NewColliderSolidInset, inset > 0 / < 0
		lo, hi := derivedBox(rng, 3)
		k4 := -ri(rng, 1, 6)
		if kind%nDerivedSolidKinds == 9 {
			k4 = ri(rng, 1, 3) // at most 3/4: boxes of side >= 2 keep an interior, thinner ones become empty
			hi[rng.Intn(3)]++
		}
		mesh := rng.Intn(2) == 0
		_, cname := boxCollider3(lo, hi, mesh)
		s = lazySolid3("model3d.NewColliderSolidInset", fmt.Sprintf("%s lo=%v hi=%v inset=%v", cname, lo, hi, float64(k4)/4),
			func() model3d.Solid {
				c, _ := boxCollider3(lo, hi, mesh)
				return model3d.NewColliderSolidInset(c, float64(k4)/4)
			})
		s.shape, s.data = insetShape(lo, hi, 3, k4)
		s.extra = extraBox(lo, hi, float64(-k4)/4)
	case 11: // NewColliderSolidHollow
		lo, hi := derivedBox(rng, 3)
		k4 := ri(rng, 1, 6)
		mesh := rng.Intn(2) == 0
		_, cname := boxCollider3(lo, hi, mesh)
		s = lazySolid3("model3d.NewColliderSolidHollow", fmt.Sprintf("%s lo=%v hi=%v r=%v", cname, lo, hi, float64(k4)/4),
			func() model3d.Solid {
				c, _ := boxCollider3(lo, hi, mesh)
				return model3d.NewColliderSolidHollow(c, float64(k4)/4)
			})
		s.shape, s.data = "shell", append(boxData(lo, hi), k4)
		s.extra = extraBox(lo, hi, float64(k4)/4)
	case 12, 13: // model2d.NewColliderSolidInset
		lo, hi := derivedBox(rng, 2)
		k4 := -ri(rng, 1, 6)
		if kind%nDerivedSolidKinds == 12 {
			k4 = ri(rng, 1, 3)
			hi[rng.Intn(2)]++
		}
		mesh := rng.Intn(2) == 0
		_, cname := boxCollider2(lo, hi, mesh)
		s = lazySolid2("model2d.NewColliderSolidInset", fmt.Sprintf("%s lo=%v hi=%v inset=%v", cname, lo[:2], hi[:2], float64(k4)/4),
			func() model2d.Solid {
				c, _ := boxCollider2(lo, hi, mesh)
				return model2d.NewColliderSolidInset(c, float64(k4)/4)
			})
		s.shape, s.data = insetShape(lo, hi, 2, k4)
		s.extra = extraBox(lo, hi, float64(-k4)/4)
	case 14: // model2d.NewColliderSolidHollow
		lo, hi := derivedBox(rng, 2)
		k4 := ri(rng, 1, 6)
		mesh := rng.Intn(2) == 0
		_, cname := boxCollider2(lo, hi, mesh)
		s = lazySolid2("model2d.NewColliderSolidHollow", fmt.Sprintf("%s lo=%v hi=%v r=%v", cname, lo[:2], hi[:2], float64(k4)/4),
			func() model2d.Solid {
				c, _ := boxCollider2(lo, hi, mesh)
				return model2d.NewColliderSolidHollow(c, float64(k4)/4)
			})
		s.shape, s.data = "shell", append(boxData(lo, hi), k4)
		s.extra = extraBox(lo, hi, float64(k4)/4)
	case 15: // CheckedFuncSolid: f ignores the box (always true, or a ball that sticks out of it)
		lo, hi := derivedBox(rng, 3)
		if rng.Intn(2) == 0 {
			s = lazySolid3("model3d.CheckedFuncSolid", fmt.Sprintf("lo=%v hi=%v f=true", lo, hi), func() model3d.Solid {
				return model3d.CheckedFuncSolid(v3c(i3f(lo)), v3c(i3f(hi)), func(model3d.Coord3D) bool { return true })
			})
			s.shape, s.data = "box", boxData(lo, hi)
		} else {
			c := [3]int{ri(rng, lo[0], hi[0]), ri(rng, lo[1], hi[1]), ri(rng, lo[2], hi[2])}
			r := ri(rng, 1, 4)
			s = lazySolid3("model3d.CheckedFuncSolid", fmt.Sprintf("lo=%v hi=%v f=ball(c=%v r=%d)", lo, hi, c, r), func() model3d.Solid {
				ctr := v3c(i3f(c))
				return model3d.CheckedFuncSolid(v3c(i3f(lo)), v3c(i3f(hi)), func(p model3d.Coord3D) bool { return p.Dist(ctr) <= float64(r) })
			})
			s.shape, s.data = "boxsphere", append(boxData(lo, hi), 4*c[0], 4*c[1], 4*c[2], 4*r)
		}
		s.extra = extraBox(lo, hi, 0)
	default: // model2d.CheckedFuncSolid
		lo, hi := derivedBox(rng, 2)
		if rng.Intn(2) == 0 {
			s = lazySolid2("model2d.CheckedFuncSolid", fmt.Sprintf("lo=%v hi=%v f=true", lo[:2], hi[:2]), func() model2d.Solid {
				return model2d.CheckedFuncSolid(v2c(i3f(lo)), v2c(i3f(hi)), func(model2d.Coord) bool { return true })
			})
			s.shape, s.data = "box", boxData(lo, hi)
		} else {
			c := [3]int{ri(rng, lo[0], hi[0]), ri(rng, lo[1], hi[1]), 0}
			r := ri(rng, 1, 4)
			s = lazySolid2("model2d.CheckedFuncSolid", fmt.Sprintf("lo=%v hi=%v f=disc(c=%v r=%d)", lo[:2], hi[:2], c[:2], r), func() model2d.Solid {
				ctr := v2c(i3f(c))
				return model2d.CheckedFuncSolid(v2c(i3f(lo)), v2c(i3f(hi)), func(p model2d.Coord) bool { return p.Dist(ctr) <= float64(r) })
			})
			s.shape, s.data = "boxsphere", append(boxData(lo, hi), 4*c[0], 4*c[1], 0, 4*r)
		}
		s.extra = extraBox(lo, hi, 0)
	}
	return s
}

func genDerivedSolids(rng *rand.Rand, n int) []*primShape {
	out := []*primShape{}
	for i := 0; i < n*nDerivedSolidKinds; i++ {
		out = append(out, genDerivedSolid(rng, i))
	}
	return out
}

// ---------------------------------------------------------------------------- extruded primitives (C06, C07)

// genProfilePrim: a 2-D rect or circle extruded along z.  The reference primitive (model3d.Rect / Cylinder with the
// same data) supplies the exact shape for PrimJudge ("box") and the surface description for the general-position
// classification; every observed answer comes from the extruded object: ProfileCollider for rays and balls,
// ProfileSDF for the value, ProfilePointSDF for the nearest point, ProfileSolid for containment.  There is no
// normal field (hasNormal = false).
func genProfilePrim(rng *rand.Rand, kind int, asCollider bool) *primShape {
	z0 := ri(rng, -3, 1)
	z1 := z0 + ri(rng, 1, 4)
	var s *primShape
	var coll2 model2d.Collider
	var sdf2 model2d.PointSDF
	var solid2 model2d.Solid
	if kind%2 == 0 {
		lo, hi := derivedBox(rng, 2)
		lo[2], hi[2] = z0, z1
		s = adapt3("", "", rect3(lo, hi))
		s.variant = fmt.Sprintf("Rect lo=%v hi=%v z=[%d,%d]", lo[:2], hi[:2], z0, z1)
		s.shape, s.data, s.boxEdges = "box", boxData(lo, hi), true
		boxSpecials(s, i3scale(lo, 4), i3scale(hi, 4), 3, rng)
		r := rect2(lo, hi)
		coll2, sdf2, solid2 = r, r, r
	} else {
		c := [3]int{ri(rng, -2, 2), ri(rng, -2, 2), z0}
		r := ri(rng, 1, 4)
		top := [3]int{c[0], c[1], z1}
		s = adapt3("", "", &model3d.Cylinder{P1: v3c(i3f(c)), P2: v3c(i3f(top)), Radius: float64(r)})
		s.variant = fmt.Sprintf("Circle c=%v r=%d z=[%d,%d]", c[:2], r, z0, z1)
		s.circles = []primCircle{{i3f(c), pvec{0, 0, 1}, float64(r)}, {i3f(top), pvec{0, 0, 1}, float64(r)}}
		axisSpecials(s, i3scale(c, 4), [3]int{0, 0, z1 - z0}, 4*r, 3, []int{0, 1, 2, 0, 1, 2}, []int{1, 1, 1, 2, 2, 2})
		ci := &model2d.Circle{Center: v2c(i3f(c)), Radius: float64(r)}
		coll2, sdf2, solid2 = ci, ci, ci
	}
	fz0, fz1 := float64(z0), float64(z1)
	if asCollider {
		// rays, first hit, balls and bounds from the extruded collider; "on the surface", "outward" and "inside" are
		// judged with the reference primitive's own field
		coll := model3d.ProfileCollider(coll2, fz0, fz1)
		s.site = "model3d.ProfileCollider"
		s.bounds = func() (pvec, pvec) { return c3v(coll.Min()), c3v(coll.Max()) }
		s.rays = func(or, d pvec, cb bool) (int, []primHit) {
			r := &model3d.Ray{Origin: v3c(or), Direction: v3c(d)}
			if !cb {
				return coll.RayCollisions(r, nil), nil
			}
			hs := []primHit{}
			n := coll.RayCollisions(r, func(rc model3d.RayCollision) { hs = append(hs, primHit{rc.Scale, c3v(rc.Normal)}) })
			return n, hs
		}
		s.first = func(or, d pvec) (primHit, bool) {
			rc, ok := coll.FirstRayCollision(&model3d.Ray{Origin: v3c(or), Direction: v3c(d)})
			return primHit{rc.Scale, c3v(rc.Normal)}, ok
		}
		s.ball = func(c pvec, r float64) bool { return coll.SphereCollision(v3c(c), r) }
		return s
	}
	sdf := model3d.ProfileSDF(sdf2, fz0, fz1)
	psdf := model3d.ProfilePointSDF(sdf2, fz0, fz1)
	solid := model3d.ProfileSolid(solid2, fz0, fz1)
	s.site = "model3d.ProfilePointSDF"
	s.hasNoNormal = true
	s.normalSDF = nil
	s.bounds = func() (pvec, pvec) { return c3v(psdf.Min()), c3v(psdf.Max()) }
	s.contains = func(p pvec) bool { return solid.Contains(v3c(p)) }
	s.sdf = func(p pvec) float64 { return sdf.SDF(v3c(p)) }
	s.pointSDF = func(p pvec) (pvec, float64) { c, d := psdf.PointSDF(v3c(p)); return c3v(c), d }
	return s
}

func genProfilePrims(rng *rand.Rand, n int, asCollider bool) []*primShape {
	out := []*primShape{}
	for i := 0; i < 2*n; i++ {
		out = append(out, genProfilePrim(rng, i, asCollider))
	}
	return out
}
