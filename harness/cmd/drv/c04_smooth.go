package main

import (
	"encoding/json"

	"github.com/unixpickle/model3d/model2d"
	"github.com/unixpickle/model3d/model3d"
)

type smoothCase struct {
	R  int   `json:"r"`
	Ks []int `json:"ks"`
}

type smoothRecord struct {
	Id    int    `json:"id"`
	R     int    `json:"r"`
	Ks    []int  `json:"ks"`
	Panic string `json:"panic"`
	V13d  bool   `json:"v1_3d"`
	V12d  bool   `json:"v1_2d"`
	V23d  bool   `json:"v2_3d"`
	V22d  bool   `json:"v2_2d"`
}

// box at distance k/4 from the origin along direction i (0..5: +x,+y,+z,-x,-y,-z)
func smoothBox3(i int, k int) *model3d.Rect {
	d := float64(k) / 4
	lo := [3]float64{-1, -1, -1}
	hi := [3]float64{1, 1, 1}
	ax := i % 3
	if i < 3 {
		lo[ax], hi[ax] = d, d+1
	} else {
		lo[ax], hi[ax] = -d-1, -d
	}
	return model3d.NewRect(model3d.NewCoord3DArray(lo), model3d.NewCoord3DArray(hi))
}

// 2-D directions 0..3: +x,+y,-x,-y
func smoothBox2(i int, k int) *model2d.Rect {
	d := float64(k) / 4
	lo := [2]float64{-1, -1}
	hi := [2]float64{1, 1}
	ax := i % 2
	if i < 2 {
		lo[ax], hi[ax] = d, d+1
	} else {
		lo[ax], hi[ax] = -d-1, -d
	}
	return model2d.NewRect(model2d.XY(lo[0], lo[1]), model2d.XY(hi[0], hi[1]))
}

func init() {
	register("c04-smooth", func(a args) {
		out := newNDWriter(a.str("out", "records.ndjson"))
		defer out.close()
		id := 0
		stats := map[string]int{}
		readNDJSON(a.str("in", "cases.ndjson"), func(line []byte) {
			var c smoothCase
			if err := json.Unmarshal(line, &c); err != nil {
				fatal("bad case: %v", err)
			}
			id++
			rec := smoothRecord{Id: id, R: c.R, Ks: c.Ks}
			r := float64(c.R) / 4
			rec.Panic = protect(func() {
				var s3 []model3d.SDF
				var n3 []model3d.NormalSDF
				for i, k := range c.Ks {
					b := smoothBox3(i, k)
					s3 = append(s3, b)
					n3 = append(n3, b)
				}
				rec.V13d = model3d.SmoothJoin(r, s3...).Contains(model3d.Coord3D{})
				rec.V23d = model3d.SmoothJoinV2(r, n3...).Contains(model3d.Coord3D{})
				if len(c.Ks) <= 4 {
					var s2 []model2d.SDF
					var n2 []model2d.NormalSDF
					for i, k := range c.Ks {
						b := smoothBox2(i, k)
						s2 = append(s2, b)
						n2 = append(n2, b)
					}
					rec.V12d = model2d.SmoothJoin(r, s2...).Contains(model2d.Coord{})
					rec.V22d = model2d.SmoothJoinV2(r, n2...).Contains(model2d.Coord{})
				}
			})
			stats["records"]++
			if len(c.Ks) >= 3 {
				stats["nonempty"]++
			}
			out.write(rec)
		})
		writeJSONFile(a.str("stats", "stats.json"), stats)
	})
}
