package main

// C05: chains of transform atoms (spec/solids/Transforms.tla) realised with the real
// model3d transforms; observations for spec/solids/TransformJudge.tla.

import (
	"encoding/json"
	"math"
	"math/rand"

	"github.com/unixpickle/model3d/model2d"
	"github.com/unixpickle/model3d/model3d"
)

const tfD = 8.0

func tfAtom(name string) model3d.Transform {
	cols := func(m [3][3]float64) *model3d.Matrix3 {
		return model3d.NewMatrix3Columns(
			model3d.XYZ(m[0][0], m[1][0], m[2][0]),
			model3d.XYZ(m[0][1], m[1][1], m[2][1]),
			model3d.XYZ(m[0][2], m[1][2], m[2][2]))
	}
	switch name {
	case "T1":
		return &model3d.Translate{Offset: model3d.XYZ(1, -2, 3)}
	case "T2":
		return &model3d.Translate{Offset: model3d.XYZ(-0.5, 0, 0.5)}
	case "S2":
		return &model3d.Scale{Scale: 2}
	case "Sh":
		return &model3d.Scale{Scale: 0.5}
	case "S3":
		return &model3d.Scale{Scale: 3}
	case "V":
		return &model3d.VecScale{Scale: model3d.XYZ(2, -1, 0.5)}
	case "Mp":
		return &model3d.Matrix3Transform{Matrix: cols([3][3]float64{{0, 0, 1}, {1, 0, 0}, {0, 1, 0}})}
	case "Ms":
		return &model3d.Matrix3Transform{Matrix: cols([3][3]float64{{1, 1, 0}, {0, 1, 0}, {0, 0, 1}})}
	case "Md":
		return &model3d.Matrix3Transform{Matrix: cols([3][3]float64{{2, 1, 0}, {0, 1, 0}, {0, 0, 1}})}
	case "Mu":
		return &model3d.Matrix3Transform{Matrix: cols([3][3]float64{{2, 1, 0}, {1, 1, 0}, {0, 0, 1}})}
	case "Ma":
		return &model3d.Matrix3Transform{Matrix: cols([3][3]float64{{1, 1, 1}, {0, 1, 0}, {0, 0, 1}})}
	case "Rz":
		return model3d.Rotation(model3d.Z(1), math.Pi/2)
	case "Rx2":
		return model3d.Rotation(model3d.X(1), math.Pi)
	case "Ry":
		return model3d.Rotation(model3d.Y(1), math.Pi/2)
	}
	fatal("unknown transform atom %q", name)
	return nil
}

func tfPt(p []int) model3d.Coord3D {
	return model3d.XYZ(float64(p[0])/tfD, float64(p[1])/tfD, float64(p[2])/tfD)
}

func tfInts(c model3d.Coord3D, scale float64) ([]int, bool) {
	out := make([]int, 3)
	exact := true
	for i, x := range c.Array() {
		y := x * scale
		r := math.Round(y)
		if math.IsNaN(y) || math.Abs(y-r) > 1e-6 || math.Abs(r) > 1e8 {
			exact = false
			r = 0
		}
		out[i] = int(r)
	}
	return out, exact
}

type tfHit struct {
	T12  int   `json:"t12"`
	TX   bool  `json:"tx"`
	N    []int `json:"n"`
	Unit bool  `json:"unit"`
}
type tfRay struct {
	O     []int   `json:"o"`
	D     []int   `json:"d"`
	N     int     `json:"n"`
	CB    int     `json:"cb"`
	NN    int     `json:"nn"`
	Hits  []tfHit `json:"hits"`
	First struct {
		Hit bool `json:"hit"`
		T12 int  `json:"t12"`
	} `json:"first"`
}
type tfRec struct {
	ID    int      `json:"id"`
	Site  string   `json:"site"`
	Chain []string `json:"chain"`
	Dist  bool     `json:"dist"`
	Panic string   `json:"panic"`
	Pts   []struct {
		P    []int `json:"p"`
		AP   []int `json:"ap"`
		APX  bool  `json:"apx"`
		Inv  bool  `json:"inv"`
		Inv2 bool  `json:"inv2"`
	} `json:"pts"`
	Box struct {
		Lo []int `json:"lo"`
		Hi []int `json:"hi"`
	} `json:"box"`
	BLo   []int `json:"blo"`
	BHi   []int `json:"bhi"`
	BX    bool  `json:"bx"`
	Dists []struct {
		P   []int `json:"p"`
		Q   []int `json:"q"`
		AD2 int   `json:"ad2"`
		ADX bool  `json:"adx"`
	} `json:"dists"`
	Solid []struct {
		X  []int `json:"x"`
		In bool  `json:"in"`
	} `json:"solid"`
	SDF []struct {
		X   []int `json:"x"`
		S2  int   `json:"s2"`
		Pos bool  `json:"pos"`
		SX  bool  `json:"sx"`
	} `json:"sdf"`
	Meta []struct {
		X    []int `json:"x"`
		Same bool  `json:"same"`
	} `json:"meta"`
	Rays  []tfRay `json:"rays"`
	Balls []struct {
		C   []int `json:"c"`
		R8  int   `json:"r8"`
		Hit bool  `json:"hit"`
	} `json:"balls"`
}

func tfRun(id int, chain []string, rng *rand.Rand, nprobe int) (rec tfRec) {
	// empty (non-nil) slices, so that they are JSON arrays
	json.Unmarshal([]byte(`{"pts":[],"dists":[],"solid":[],"sdf":[],"meta":[],"rays":[],"balls":[]}`), &rec)
	rec.ID = id
	rec.Site = "model3d"
	rec.Chain = chain
	rec.Box.Lo = []int{-8, 0, -16}
	rec.Box.Hi = []int{16, 8, 8}
	rec.BLo, rec.BHi = []int{0, 0, 0}, []int{0, 0, 0}
	rec.Dist = true
	var t model3d.Transform
	var parts model3d.JoinedTransform
	for _, a := range chain {
		at := tfAtom(a)
		if _, ok := at.(model3d.DistTransform); !ok {
			rec.Dist = false
		}
		parts = append(parts, at)
	}
	if len(parts) == 1 {
		t = parts[0]
	} else {
		t = parts
	}
	// initialise slices so that they are JSON arrays
	rec.Rays = []tfRay{}
	box := &model3d.Rect{MinVal: tfPt(rec.Box.Lo), MaxVal: tfPt(rec.Box.Hi)}
	rec.Panic = protect(func() {
		inv := t.Inverse()
		// lattice points: corners, face points, interior and exterior points of the box
		var pts [][]int
		for x := -16; x <= 24; x += 8 {
			for y := -8; y <= 16; y += 8 {
				for z := -24; z <= 16; z += 8 {
					pts = append(pts, []int{x, y, z})
				}
			}
		}
		for _, p := range pts {
			c := tfPt(p)
			ac := t.Apply(c)
			ap, apx := tfInts(ac, tfD)
			rec.Pts = append(rec.Pts, struct {
				P    []int `json:"p"`
				AP   []int `json:"ap"`
				APX  bool  `json:"apx"`
				Inv  bool  `json:"inv"`
				Inv2 bool  `json:"inv2"`
			}{p, ap, apx, inv.Apply(ac).Dist(c) < 1e-9, t.Apply(inv.Apply(c)).Dist(c) < 1e-9})
		}
		bmin, bmax := t.ApplyBounds(box.MinVal, box.MaxVal)
		var x1, x2 bool
		rec.BLo, x1 = tfInts(bmin, tfD)
		rec.BHi, x2 = tfInts(bmax, tfD)
		// bounds need not be lattice values: round outwards if inexact
		if !x1 || !x2 {
			for a := 0; a < 3; a++ {
				rec.BLo[a] = int(math.Floor(bmin.Array()[a]*tfD + 1e-9))
				rec.BHi[a] = int(math.Ceil(bmax.Array()[a]*tfD - 1e-9))
			}
		}
		rec.BX = !math.IsNaN(bmin.Sum()) && !math.IsNaN(bmax.Sum())
		// off-face probe points (odd multiples of 4)
		probe := func() []int {
			return []int{4 + 8*(rng.Intn(7)-3), 4 + 8*(rng.Intn(5)-2), 4 + 8*(rng.Intn(7)-4)}
		}
		solid := model3d.TransformSolid(t, box)
		for i := 0; i < nprobe; i++ {
			x := probe()
			rec.Solid = append(rec.Solid, struct {
				X  []int `json:"x"`
				In bool  `json:"in"`
			}{x, solid.Contains(t.Apply(tfPt(x)))})
		}
		dt, isDist := t.(model3d.DistTransform)
		if !isDist || !rec.Dist {
			rec.Dist = false
			return
		}
		for i := 0; i < nprobe; i++ {
			p, q := probe(), probe()
			d := dt.ApplyDistance(tfPt(p).Dist(tfPt(q)))
			v := d * d * tfD * tfD
			rec.Dists = append(rec.Dists, struct {
				P   []int `json:"p"`
				Q   []int `json:"q"`
				AD2 int   `json:"ad2"`
				ADX bool  `json:"adx"`
			}{p, q, int(math.Round(v)), math.Abs(v-math.Round(v)) < 1e-6})
		}
		sdf := model3d.TransformSDF(dt, box)
		meta := model3d.TransformMetaball(dt, box)
		for i := 0; i < nprobe; i++ {
			x := probe()
			y := t.Apply(tfPt(x))
			s := sdf.SDF(y)
			v := s * s * tfD * tfD * 64 // 64 more: chains of three halvings scale distances by 1/8
			rec.SDF = append(rec.SDF, struct {
				X   []int `json:"x"`
				S2  int   `json:"s2"`
				Pos bool  `json:"pos"`
				SX  bool  `json:"sx"`
			}{x, int(math.Round(v)), s > 0, math.Abs(v-math.Round(v)) < 1e-6})
			rec.Meta = append(rec.Meta, struct {
				X    []int `json:"x"`
				Same bool  `json:"same"`
			}{x, math.Abs(meta.MetaballField(y)-box.MetaballField(tfPt(x))) < 1e-9})
		}
		coll := model3d.TransformCollider(dt, box)
		for i := 0; i < nprobe; i++ {
			var q tfRay
			q.O = probe()
			q.D = []int{rng.Intn(7) - 3, rng.Intn(7) - 3, rng.Intn(7) - 3}
			if q.D[0] == 0 && q.D[1] == 0 && q.D[2] == 0 {
				q.D[rng.Intn(3)] = 2
			}
			if i%3 != 0 {
				// aim at an interior lattice point of the box
				k := 1 + rng.Intn(4)
				target := []int{-4 + 8*rng.Intn(3), 4, -12 + 8*rng.Intn(3)}
				for a := 0; a < 3; a++ {
					q.O[a] = target[a] - k*q.D[a]*4
				}
				for a := 0; a < 3; a++ {
					q.D[a] *= 4
				}
			}
			o := tfPt(q.O)
			d := tfPt(q.D)
			ray := &model3d.Ray{Origin: t.Apply(o), Direction: t.Apply(o.Add(d)).Sub(t.Apply(o))}
			q.Hits = []tfHit{}
			q.N = coll.RayCollisions(ray, func(rc model3d.RayCollision) {
				q.CB++
				t12 := rc.Scale * 12
				n, unit := tfInts(rc.Normal, 1)
				q.Hits = append(q.Hits, tfHit{T12: int(math.Round(t12)), TX: math.Abs(t12-math.Round(t12)) < 1e-6, N: n,
					Unit: unit && math.Abs(rc.Normal.Norm()-1) < 1e-9})
			})
			q.NN = coll.RayCollisions(ray, nil)
			if rc, ok := coll.FirstRayCollision(ray); ok {
				q.First.Hit = true
				q.First.T12 = int(math.Round(rc.Scale * 12))
			}
			rec.Rays = append(rec.Rays, q)
		}
		for i := 0; i < nprobe; i++ {
			c := probe()
			r8 := 1 + rng.Intn(20)
			rec.Balls = append(rec.Balls, struct {
				C   []int `json:"c"`
				R8  int   `json:"r8"`
				Hit bool  `json:"hit"`
			}{c, r8, coll.SphereCollision(t.Apply(tfPt(c)), dt.ApplyDistance(float64(r8)/tfD))})
		}
	})
	return rec
}

// ---------------------------------------------------------------- model2d (z is padded with 0)

func tfAtom2(name string) model2d.Transform {
	mat := func(a, b, c, d float64) *model2d.Matrix2 {
		// rows (a b; c d), stored row by row (as NewMatrix2Columns / NewMatrix2Rotation do)
		return &model2d.Matrix2{a, b, c, d}
	}
	switch name {
	case "T1":
		return &model2d.Translate{Offset: model2d.XY(1, -2)}
	case "T2":
		return &model2d.Translate{Offset: model2d.XY(-0.5, 0)}
	case "S2":
		return &model2d.Scale{Scale: 2}
	case "Sh":
		return &model2d.Scale{Scale: 0.5}
	case "S3":
		return &model2d.Scale{Scale: 3}
	case "V":
		return &model2d.VecScale{Scale: model2d.XY(2, -1)}
	case "Ms":
		return &model2d.Matrix2Transform{Matrix: mat(1, 1, 0, 1)}
	case "Md":
		return &model2d.Matrix2Transform{Matrix: mat(2, 1, 0, 1)}
	case "Mu":
		return &model2d.Matrix2Transform{Matrix: mat(2, 1, 1, 1)}
	case "Rz":
		return model2d.Rotation(math.Pi / 2)
	}
	return nil // atom has no 2-D counterpart
}

func tfPt2(p []int) model2d.Coord { return model2d.XY(float64(p[0])/tfD, float64(p[1])/tfD) }

func tfInts2(c model2d.Coord, scale float64) ([]int, bool) {
	v, ok := tfInts(model3d.XYZ(c.X, c.Y, 0), scale)
	return v, ok
}

func tfRun2(id int, chain []string, rng *rand.Rand, nprobe int) (rec tfRec, ok bool) {
	json.Unmarshal([]byte(`{"pts":[],"dists":[],"solid":[],"sdf":[],"meta":[],"rays":[],"balls":[]}`), &rec)
	rec.ID = id
	rec.Site = "model2d"
	rec.Chain = chain
	rec.Box.Lo = []int{-8, 0, -8}
	rec.Box.Hi = []int{16, 8, 8}
	rec.BLo, rec.BHi = []int{0, 0, -8}, []int{0, 0, 8}
	rec.Dist = true
	var parts model2d.JoinedTransform
	for _, a := range chain {
		at := tfAtom2(a)
		if at == nil {
			return rec, false
		}
		if _, isd := at.(model2d.DistTransform); !isd {
			rec.Dist = false
		}
		parts = append(parts, at)
	}
	var t model2d.Transform = parts
	if len(parts) == 1 {
		t = parts[0]
	}
	box := &model2d.Rect{MinVal: tfPt2(rec.Box.Lo), MaxVal: tfPt2(rec.Box.Hi)}
	rec.Panic = protect(func() {
		inv := t.Inverse()
		for x := -16; x <= 24; x += 8 {
			for y := -8; y <= 16; y += 8 {
				p := []int{x, y, 0}
				c := tfPt2(p)
				ac := t.Apply(c)
				ap, apx := tfInts2(ac, tfD)
				rec.Pts = append(rec.Pts, struct {
					P    []int `json:"p"`
					AP   []int `json:"ap"`
					APX  bool  `json:"apx"`
					Inv  bool  `json:"inv"`
					Inv2 bool  `json:"inv2"`
				}{p, ap, apx, inv.Apply(ac).Dist(c) < 1e-9, t.Apply(inv.Apply(c)).Dist(c) < 1e-9})
			}
		}
		bmin, bmax := t.ApplyBounds(box.MinVal, box.MaxVal)
		rec.BLo = []int{int(math.Floor(bmin.X*tfD + 1e-9)), int(math.Floor(bmin.Y*tfD + 1e-9)), -8}
		rec.BHi = []int{int(math.Ceil(bmax.X*tfD - 1e-9)), int(math.Ceil(bmax.Y*tfD - 1e-9)), 8}
		rec.BX = !math.IsNaN(bmin.X+bmin.Y) && !math.IsNaN(bmax.X+bmax.Y)
		probe := func() []int { return []int{4 + 8*(rng.Intn(7)-3), 4 + 8*(rng.Intn(5)-2), 0} }
		solid := model2d.TransformSolid(t, box)
		for i := 0; i < nprobe; i++ {
			x := probe()
			rec.Solid = append(rec.Solid, struct {
				X  []int `json:"x"`
				In bool  `json:"in"`
			}{x, solid.Contains(t.Apply(tfPt2(x)))})
		}
		dt, isDist := t.(model2d.DistTransform)
		if !isDist || !rec.Dist {
			rec.Dist = false
			return
		}
		for i := 0; i < nprobe; i++ {
			p, q := probe(), probe()
			d := dt.ApplyDistance(tfPt2(p).Dist(tfPt2(q)))
			v := d * d * tfD * tfD
			rec.Dists = append(rec.Dists, struct {
				P   []int `json:"p"`
				Q   []int `json:"q"`
				AD2 int   `json:"ad2"`
				ADX bool  `json:"adx"`
			}{p, q, int(math.Round(v)), math.Abs(v-math.Round(v)) < 1e-6})
		}
		sdf := model2d.TransformSDF(dt, box)
		meta := model2d.TransformMetaball(dt, box)
		for i := 0; i < nprobe; i++ {
			x := probe()
			y := t.Apply(tfPt2(x))
			sv := sdf.SDF(y)
			v := sv * sv * tfD * tfD * 64
			rec.SDF = append(rec.SDF, struct {
				X   []int `json:"x"`
				S2  int   `json:"s2"`
				Pos bool  `json:"pos"`
				SX  bool  `json:"sx"`
			}{x, int(math.Round(v)), sv > 0, math.Abs(v-math.Round(v)) < 1e-6})
			rec.Meta = append(rec.Meta, struct {
				X    []int `json:"x"`
				Same bool  `json:"same"`
			}{x, math.Abs(meta.MetaballField(y)-box.MetaballField(tfPt2(x))) < 1e-9})
		}
		coll := model2d.TransformCollider(dt, box)
		for i := 0; i < nprobe; i++ {
			var q tfRay
			q.O = probe()
			q.D = []int{rng.Intn(7) - 3, rng.Intn(7) - 3, 0}
			if q.D[0] == 0 && q.D[1] == 0 {
				q.D[rng.Intn(2)] = 2
			}
			if i%3 != 0 {
				k := 1 + rng.Intn(4)
				target := []int{-4 + 8*rng.Intn(3), 4, 0}
				for a := 0; a < 2; a++ {
					q.O[a] = target[a] - k*q.D[a]*4
					q.D[a] *= 4
				}
			}
			o, d := tfPt2(q.O), tfPt2(q.D)
			ray := &model2d.Ray{Origin: t.Apply(o), Direction: t.Apply(o.Add(d)).Sub(t.Apply(o))}
			q.Hits = []tfHit{}
			q.N = coll.RayCollisions(ray, func(rc model2d.RayCollision) {
				q.CB++
				t12 := rc.Scale * 12
				n, unit := tfInts2(rc.Normal, 1)
				q.Hits = append(q.Hits, tfHit{T12: int(math.Round(t12)), TX: math.Abs(t12-math.Round(t12)) < 1e-6, N: n,
					Unit: unit && math.Abs(rc.Normal.Norm()-1) < 1e-9})
			})
			q.NN = coll.RayCollisions(ray, nil)
			if rc, hit := coll.FirstRayCollision(ray); hit {
				q.First.Hit = true
				q.First.T12 = int(math.Round(rc.Scale * 12))
			}
			rec.Rays = append(rec.Rays, q)
		}
		for i := 0; i < nprobe; i++ {
			c := probe()
			r8 := 1 + rng.Intn(20)
			rec.Balls = append(rec.Balls, struct {
				C   []int `json:"c"`
				R8  int   `json:"r8"`
				Hit bool  `json:"hit"`
			}{c, r8, coll.CircleCollision(t.Apply(tfPt2(c)), dt.ApplyDistance(float64(r8)/tfD))})
		}
	})
	return rec, true
}

func init() {
	register("c05-transform", func(a args) {
		rng := rand.New(rand.NewSource(int64(a.int("seed", 1))))
		out := newNDWriter(a.str("out", "records.ndjson"))
		defer out.close()
		stats := map[string]int{}
		id := 0
		readNDJSON(a.str("in", "cases.ndjson"), func(line []byte) {
			var chain []string
			if err := json.Unmarshal(line, &chain); err != nil {
				fatal("bad case: %v", err)
			}
			id++
			rec := tfRun(id, chain, rng, a.int("probes", 12))
			out.write(rec)
			stats["records"]++
			if rec2, ok := tfRun2(id+1, chain, rng, a.int("probes", 12)); ok {
				id++
				out.write(rec2)
				stats["records"]++
				stats["model2d"]++
			}
			if rec.Dist {
				stats["dist"]++
			}
			if rec.Panic != "" {
				stats["panics"]++
			}
		})
		stats["nonempty"] = stats["records"]
		writeJSONFile(a.str("stats", "stats.json"), stats)
	})
}
