package main

// C09 (in-place editors): the same mesh object is queried before and after it was handed to a
// library routine; the second round of answers is recorded for spec/mesh/EditorJudge.tla.

import (
	"math"
	"math/rand"
	"os"
	"sort"
	"time"

	"github.com/unixpickle/model3d/model3d"
)

type edFind1 struct {
	V  int   `json:"v"`
	Fs []int `json:"fs"`
}
type edFind2 struct {
	A  int   `json:"a"`
	B  int   `json:"b"`
	Fs []int `json:"fs"`
}
type edNbr struct {
	F  int   `json:"f"`
	Fs []int `json:"fs"`
}
type edRec struct {
	ID     int       `json:"id"`
	Site   string    `json:"site"`
	Mesh   string    `json:"mesh"`
	F      [][]int   `json:"F"`
	VSlice []int     `json:"vslice"`
	Find1  []edFind1 `json:"find1"`
	Find2  []edFind2 `json:"find2"`
	Nbrs   []edNbr   `json:"nbrs"`
	Panic  string    `json:"panic"`
}

// genSolid: the bounding box of the mesh with a ball cut out of one corner
func genSolid(m *model3d.Mesh) model3d.Solid {
	box := model3d.NewRect(m.Min(), m.Max())
	return &model3d.SubtractedSolid{Positive: box, Negative: &model3d.Sphere{Center: m.Max(), Radius: 0.8}}
}

func init() {
	register("c09-editors", func(a args) {
		rng := rand.New(rand.NewSource(int64(a.int("seed", 1))))
		out := newNDWriter(a.str("out", "records.ndjson"))
		defer out.close()
		stats := map[string]int{}
		editors := map[string]func(m *model3d.Mesh) *model3d.Mesh{
			"FlattenBase":       func(m *model3d.Mesh) *model3d.Mesh { return m.FlattenBase(0) },
			"Blur":              func(m *model3d.Mesh) *model3d.Mesh { return m.Blur(0.3) },
			"SmoothAreas":       func(m *model3d.Mesh) *model3d.Mesh { return m.SmoothAreas(0.05, 2) },
			"EliminateCoplanar": func(m *model3d.Mesh) *model3d.Mesh { return m.EliminateCoplanar(1e-8) },
			"EliminateEdges": func(m *model3d.Mesh) *model3d.Mesh {
				return m.EliminateEdges(func(tmp *model3d.Mesh, s model3d.Segment) bool { return s.Length() < 1.2 })
			},
			// welds only edges that are a few ulps long: the midpoint of such an edge is one of its ends
			"EliminateEdges(ulp)": func(m *model3d.Mesh) *model3d.Mesh {
				return m.EliminateEdges(func(tmp *model3d.Mesh, s model3d.Segment) bool { return s.Length() < 1e-9 })
			},
			"DecimateSimple":  func(m *model3d.Mesh) *model3d.Mesh { return model3d.DecimateSimple(m, 0.02) },
			"FlipDelaunay":    func(m *model3d.Mesh) *model3d.Mesh { return m.FlipDelaunay() },
			"SubdivideEdges":  func(m *model3d.Mesh) *model3d.Mesh { return model3d.SubdivideEdges(m, 2) },
			"LoopSubdivision": func(m *model3d.Mesh) *model3d.Mesh { return model3d.LoopSubdivision(m, 1) },
			"MapCoords": func(m *model3d.Mesh) *model3d.Mesh {
				return m.MapCoords(func(c model3d.Coord3D) model3d.Coord3D { return c.Scale(2) })
			},
			"Repair":           func(m *model3d.Mesh) *model3d.Mesh { return m.Repair(1e-6) },
			"RepairNormals":    func(m *model3d.Mesh) *model3d.Mesh { r, _ := m.RepairNormals(1e-6); return r },
			"InvertNormals":    func(m *model3d.Mesh) *model3d.Mesh { m.InvertNormals(); return nil },
			"MeshToCollider":   func(m *model3d.Mesh) *model3d.Mesh { model3d.MeshToCollider(m); return nil },
			"MeshToSDF":        func(m *model3d.Mesh) *model3d.Mesh { model3d.MeshToSDF(m); return nil },
			"MeshToPlaneGraph": func(m *model3d.Mesh) *model3d.Mesh { model3d.MeshToPlaneGraphs(m); return nil },
			"MeshToHierarchy":  func(m *model3d.Mesh) *model3d.Mesh { model3d.MeshToHierarchy(m); return nil },
			"ARAP":             func(m *model3d.Mesh) *model3d.Mesh { model3d.NewARAP(m); return nil },
			"VoxelSmoother": func(m *model3d.Mesh) *model3d.Mesh {
				(&model3d.VoxelSmoother{StepSize: 0.1, Iterations: 2}).Smooth(m)
				return nil
			},
			// edits its argument in place by contract
			"Subdivider.Subdivide": func(m *model3d.Mesh) *model3d.Mesh {
				sub := model3d.NewSubdivider()
				sub.AddFiltered(m, func(p1, p2 model3d.Coord3D) bool { return p1.Dist(p2) > 1.5 })
				sub.Subdivide(m, func(p1, p2 model3d.Coord3D) model3d.Coord3D { return p1.Mid(p2) })
				return nil
			},
			"AddMesh(self-copy)": func(m *model3d.Mesh) *model3d.Mesh { m.AddMesh(m.Copy()); return nil },
			// meshes the library's generators hand out after their own in-place vertex rewrites (the input mesh
			// only supplies the solid: its bounding box with a sphere cut out)
			"MarchingCubesInterior(iters=0)": func(m *model3d.Mesh) *model3d.Mesh {
				res, _ := model3d.MarchingCubesInterior(genSolid(m), 0.5, 0)
				return res
			},
			"MarchingCubesInterior(iters=2)": func(m *model3d.Mesh) *model3d.Mesh {
				res, _ := model3d.MarchingCubesInterior(genSolid(m), 0.5, 2)
				return res
			},
			"MarchingCubesSearch": func(m *model3d.Mesh) *model3d.Mesh { return model3d.MarchingCubesSearch(genSolid(m), 0.5, 3) },
			"DualContouring(Repair)": func(m *model3d.Mesh) *model3d.Mesh {
				dc := &model3d.DualContouring{S: model3d.SolidSurfaceEstimator{Solid: genSolid(m)}, Delta: 0.5, Repair: true, Clip: true}
				return dc.Mesh()
			},
		}
		var names []string
		for k := range editors {
			names = append(names, k)
		}
		sort.Strings(names)
		id := 0
		for _, meshName := range []string{"box", "boxsub", "voxL", "octa", "thin", "roundbox", "ico", "skirt", "ulpring"} {
			for _, ed := range names {
				id++
				rec := edRec{ID: id, Site: ed, Mesh: meshName, F: [][]int{}, VSlice: []int{}, Find1: []edFind1{}, Find2: []edFind2{}, Nbrs: []edNbr{}}
				var m *model3d.Mesh
				if meshName == "roundbox" {
					// a box with a rounded skirt around its flat base (something for FlattenBase to do)
					m = model3d.LoopSubdivision(model3d.NewMeshRect(model3d.XYZ(0, 0, 0), model3d.XYZ(2, 2, 2)), 2)
				} else if meshName == "skirt" {
					// a pyramid whose flat base is surrounded by shallow, downward-facing skirt triangles
					// with exactly two vertices on the base plane: FlattenBase pulls the skirt down
					a, b, c, d := model3d.XYZ(0, 0, 0), model3d.XYZ(1, 0, 0), model3d.XYZ(1, 1, 0), model3d.XYZ(0, 1, 0)
					pab, pbc := model3d.XYZ(0.5, -1, 0.1), model3d.XYZ(2, 0.5, 0.1)
					pcd, pda := model3d.XYZ(0.5, 2, 0.1), model3d.XYZ(-1, 0.5, 0.1)
					top := model3d.XYZ(0.5, 0.5, 2)
					m = model3d.NewMesh()
					for _, t := range [][3]model3d.Coord3D{{a, c, b}, {a, d, c}, {a, b, pab}, {b, c, pbc}, {c, d, pcd}, {d, a, pda},
						{pab, b, top}, {b, pbc, top}, {pbc, c, top}, {c, pcd, top}, {pcd, d, top}, {d, pda, top}, {pda, a, top}, {a, pab, top}} {
						m.Add(&model3d.Triangle{t[0], t[1], t[2]})
					}
				} else if meshName == "ulpring" {
					// a bipyramid over a ring in which two (or three) neighbouring ring points are one ulp apart
					top, bot := model3d.XYZ(0.3, 0.2, 1.5), model3d.XYZ(0.1, -0.2, -1.25)
					p := model3d.XYZ(1.1, 0.3, 0.1)
					p1 := p
					p1.X = math.Nextafter(p.X, 2)
					q := model3d.XYZ(-0.4, 1.3, 0.2)
					q1, q2 := q, q
					q1.Y = math.Nextafter(q.Y, 2)
					q2.Y = math.Nextafter(q1.Y, 2)
					ring := []model3d.Coord3D{p, p1, q, q1, q2, model3d.XYZ(-1.2, -0.1, -0.1), model3d.XYZ(0.1, -1.3, 0.05)}
					m = model3d.NewMesh()
					for i := range ring {
						a, b := ring[i], ring[(i+1)%len(ring)]
						m.Add(&model3d.Triangle{top, a, b})
						m.Add(&model3d.Triangle{bot, b, a})
					}
				} else {
					m, _, _ = mesh3(meshName)
				}
				vname := map[model3d.Coord3D]int{}
				nameOf := func(c model3d.Coord3D) int {
					if _, ok := vname[c]; !ok {
						vname[c] = len(vname) + 1
					}
					return vname[c]
				}
				var result *model3d.Mesh
				observe := func(rec *edRec, m *model3d.Mesh) {
					tris := m.TriangleSlice()
					fidx := map[*model3d.Triangle]int{}
					for i, t := range tris {
						fidx[t] = i + 1
						rec.F = append(rec.F, []int{nameOf(t[0]), nameOf(t[1]), nameOf(t[2])})
					}
					for _, v := range m.VertexSlice() {
						rec.VSlice = append(rec.VSlice, nameOf(v))
					}
					ids := func(ts []*model3d.Triangle) []int {
						r := []int{}
						for _, t := range ts {
							r = append(r, fidx[t]) // 0 for a face that is not in the mesh any more
						}
						return r
					}
					var coords []model3d.Coord3D
					for c := range vname {
						coords = append(coords, c)
					}
					sort.Slice(coords, func(i, j int) bool { return vname[coords[i]] < vname[coords[j]] })
					for _, c := range coords {
						rec.Find1 = append(rec.Find1, edFind1{V: vname[c], Fs: ids(m.Find(c))})
					}
					for k := 0; k < 40 && len(tris) > 0; k++ {
						t := tris[rng.Intn(len(tris))]
						a, b := t[rng.Intn(3)], t[rng.Intn(3)]
						if a == b {
							continue
						}
						rec.Find2 = append(rec.Find2, edFind2{A: vname[a], B: vname[b], Fs: ids(m.Find(a, b))})
					}
					for k := 0; k < 25 && len(tris) > 0; k++ {
						f := rng.Intn(len(tris))
						rec.Nbrs = append(rec.Nbrs, edNbr{F: f + 1, Fs: ids(m.Neighbors(tris[f]))})
					}
				}
				var outcome string
				outcome, rec.Panic = withDeadline(120*time.Second, func() {
					// first round of queries: builds the lazy index
					for _, v := range m.VertexSlice() {
						nameOf(v)
						m.Find(v)
					}
					result = editors[ed](m)
					// second round on the same object
					observe(&rec, m)
				})
				if outcome == "hang" {
					// the abandoned goroutine may still be writing to rec: report a fresh record and stop
					// here (the runaway call keeps a processor busy); the records so far are judged
					rec = edRec{ID: id, Site: ed, Mesh: meshName, F: [][]int{}, VSlice: []int{}, Find1: []edFind1{}, Find2: []edFind2{}, Nbrs: []edNbr{},
						Panic: "did not terminate within 120s"}
					out.write(rec)
					stats["records"]++
					stats["aborted_after_hang"] = 1
					out.close()
					writeJSONFile(a.str("stats", "stats.json"), stats)
					os.Exit(0)
				}
				out.write(rec)
				stats["records"]++
				stats["nonempty"]++
				stats["site:"+ed]++
				if result != nil && result != m && rec.Panic == "" {
					// the mesh the routine handed back has been through the library's own in-place edits:
					// its answers must describe its own faces too
					id++
					res := edRec{ID: id, Site: ed + ":result", Mesh: meshName, F: [][]int{}, VSlice: []int{}, Find1: []edFind1{}, Find2: []edFind2{}, Nbrs: []edNbr{}}
					res.Panic = protect(func() { observe(&res, result) })
					out.write(res)
					stats["records"]++
					stats["nonempty"]++
					stats["site:"+res.Site]++
				}
			}
		}
		writeJSONFile(a.str("stats", "stats.json"), stats)
	})
}
