package main

// C09 (in-place editors): the same mesh object is queried before and after it was handed to a
// library routine; the second round of answers is recorded for spec/mesh/EditorJudge.tla.

import (
	"math/rand"
	"sort"

	"github.com/unixpickle/model3d/model3d"
)

type edFind1 struct {
	V  int   `json:"v"`
	Fs []int `json:"fs"`
}
type edFind2 struct {
	A  int   `json:"a"`
	B  int   `json:"b"`
	Fs []int `json:"fs"`
}
type edNbr struct {
	F  int   `json:"f"`
	Fs []int `json:"fs"`
}
type edRec struct {
	ID     int       `json:"id"`
	Site   string    `json:"site"`
	Mesh   string    `json:"mesh"`
	F      [][]int   `json:"F"`
	VSlice []int     `json:"vslice"`
	Find1  []edFind1 `json:"find1"`
	Find2  []edFind2 `json:"find2"`
	Nbrs   []edNbr   `json:"nbrs"`
	Panic  string    `json:"panic"`
}

func init() {
	register("c09-editors", func(a args) {
		rng := rand.New(rand.NewSource(int64(a.int("seed", 1))))
		out := newNDWriter(a.str("out", "records.ndjson"))
		defer out.close()
		stats := map[string]int{}
		editors := map[string]func(m *model3d.Mesh){
			"FlattenBase":       func(m *model3d.Mesh) { m.FlattenBase(0) },
			"Blur":              func(m *model3d.Mesh) { m.Blur(0.3) },
			"SmoothAreas":       func(m *model3d.Mesh) { m.SmoothAreas(0.05, 2) },
			"EliminateCoplanar": func(m *model3d.Mesh) { m.EliminateCoplanar(1e-8) },
			"EliminateEdges": func(m *model3d.Mesh) {
				m.EliminateEdges(func(tmp *model3d.Mesh, s model3d.Segment) bool { return s.Length() < 1.2 })
			},
			"DecimateSimple":   func(m *model3d.Mesh) { model3d.DecimateSimple(m, 0.02) },
			"FlipDelaunay":     func(m *model3d.Mesh) { m.FlipDelaunay() },
			"SubdivideEdges":   func(m *model3d.Mesh) { model3d.SubdivideEdges(m, 2) },
			"LoopSubdivision":  func(m *model3d.Mesh) { model3d.LoopSubdivision(m, 1) },
			"MapCoords":        func(m *model3d.Mesh) { m.MapCoords(func(c model3d.Coord3D) model3d.Coord3D { return c.Scale(2) }) },
			"Repair":           func(m *model3d.Mesh) { m.Repair(1e-6) },
			"RepairNormals":    func(m *model3d.Mesh) { m.RepairNormals(1e-6) },
			"InvertNormals":    func(m *model3d.Mesh) { m.InvertNormals() },
			"MeshToCollider":   func(m *model3d.Mesh) { model3d.MeshToCollider(m) },
			"MeshToSDF":        func(m *model3d.Mesh) { model3d.MeshToSDF(m) },
			"MeshToPlaneGraph": func(m *model3d.Mesh) { model3d.MeshToPlaneGraphs(m) },
			"MeshToHierarchy":  func(m *model3d.Mesh) { model3d.MeshToHierarchy(m) },
			"ARAP":             func(m *model3d.Mesh) { model3d.NewARAP(m) },
			"VoxelSmoother":    func(m *model3d.Mesh) { (&model3d.VoxelSmoother{StepSize: 0.1, Iterations: 2}).Smooth(m) },
			// edits its argument in place by contract
			"Subdivider.Subdivide": func(m *model3d.Mesh) {
				sub := model3d.NewSubdivider()
				sub.AddFiltered(m, func(p1, p2 model3d.Coord3D) bool { return p1.Dist(p2) > 1.5 })
				sub.Subdivide(m, func(p1, p2 model3d.Coord3D) model3d.Coord3D { return p1.Mid(p2) })
			},
			"AddMesh(self-copy)": func(m *model3d.Mesh) { m.AddMesh(m.Copy()) },
		}
		var names []string
		for k := range editors {
			names = append(names, k)
		}
		sort.Strings(names)
		id := 0
		for _, meshName := range []string{"box", "boxsub", "voxL", "octa", "thin", "roundbox", "ico", "skirt"} {
			for _, ed := range names {
				id++
				rec := edRec{ID: id, Site: ed, Mesh: meshName, F: [][]int{}, VSlice: []int{}, Find1: []edFind1{}, Find2: []edFind2{}, Nbrs: []edNbr{}}
				var m *model3d.Mesh
				if meshName == "roundbox" {
					// a box with a rounded skirt around its flat base (something for FlattenBase to do)
					m = model3d.LoopSubdivision(model3d.NewMeshRect(model3d.XYZ(0, 0, 0), model3d.XYZ(2, 2, 2)), 2)
				} else if meshName == "skirt" {
					// a pyramid whose flat base is surrounded by shallow, downward-facing skirt triangles
					// with exactly two vertices on the base plane: FlattenBase pulls the skirt down
					a, b, c, d := model3d.XYZ(0, 0, 0), model3d.XYZ(1, 0, 0), model3d.XYZ(1, 1, 0), model3d.XYZ(0, 1, 0)
					pab, pbc := model3d.XYZ(0.5, -1, 0.1), model3d.XYZ(2, 0.5, 0.1)
					pcd, pda := model3d.XYZ(0.5, 2, 0.1), model3d.XYZ(-1, 0.5, 0.1)
					top := model3d.XYZ(0.5, 0.5, 2)
					m = model3d.NewMesh()
					for _, t := range [][3]model3d.Coord3D{{a, c, b}, {a, d, c}, {a, b, pab}, {b, c, pbc}, {c, d, pcd}, {d, a, pda},
						{pab, b, top}, {b, pbc, top}, {pbc, c, top}, {c, pcd, top}, {pcd, d, top}, {d, pda, top}, {pda, a, top}, {a, pab, top}} {
						m.Add(&model3d.Triangle{t[0], t[1], t[2]})
					}
				} else {
					m, _, _ = mesh3(meshName)
				}
				vname := map[model3d.Coord3D]int{}
				nameOf := func(c model3d.Coord3D) int {
					if _, ok := vname[c]; !ok {
						vname[c] = len(vname) + 1
					}
					return vname[c]
				}
				rec.Panic = protect(func() {
					// first round of queries: builds the lazy index
					for _, v := range m.VertexSlice() {
						nameOf(v)
						m.Find(v)
					}
					editors[ed](m)
					// second round on the same object
					tris := m.TriangleSlice()
					fidx := map[*model3d.Triangle]int{}
					for i, t := range tris {
						fidx[t] = i + 1
						rec.F = append(rec.F, []int{nameOf(t[0]), nameOf(t[1]), nameOf(t[2])})
					}
					for _, v := range m.VertexSlice() {
						rec.VSlice = append(rec.VSlice, nameOf(v))
					}
					ids := func(ts []*model3d.Triangle) []int {
						r := []int{}
						for _, t := range ts {
							r = append(r, fidx[t]) // 0 for a face that is not in the mesh any more
						}
						return r
					}
					var coords []model3d.Coord3D
					for c := range vname {
						coords = append(coords, c)
					}
					sort.Slice(coords, func(i, j int) bool { return vname[coords[i]] < vname[coords[j]] })
					for _, c := range coords {
						rec.Find1 = append(rec.Find1, edFind1{V: vname[c], Fs: ids(m.Find(c))})
					}
					for k := 0; k < 40 && len(tris) > 0; k++ {
						t := tris[rng.Intn(len(tris))]
						a, b := t[rng.Intn(3)], t[rng.Intn(3)]
						if a == b {
							continue
						}
						rec.Find2 = append(rec.Find2, edFind2{A: vname[a], B: vname[b], Fs: ids(m.Find(a, b))})
					}
					for k := 0; k < 25 && len(tris) > 0; k++ {
						f := rng.Intn(len(tris))
						rec.Nbrs = append(rec.Nbrs, edNbr{F: f + 1, Fs: ids(m.Neighbors(tris[f]))})
					}
				})
				out.write(rec)
				stats["records"]++
				stats["nonempty"]++
				stats["site:"+ed]++
			}
		}
		writeJSONFile(a.str("stats", "stats.json"), stats)
	})
}
