// Command drv is the Go side of the /verif checks: it executes operations against the
// real unixpickle/model3d code (built from /repo's working tree with -tags verif) and
// writes ndjson observation records that TLC judges against the TLA+ specifications.
//
// usage: drv <property-stage> [key=value ...]
package main

import (
	"fmt"
	"os"
	"sort"
	"strconv"
	"strings"
)

type args map[string]string

func (a args) str(k, def string) string {
	if v, ok := a[k]; ok {
		return v
	}
	return def
}

func (a args) int(k string, def int) int {
	if v, ok := a[k]; ok {
		n, err := strconv.Atoi(v)
		if err != nil {
			fatal("bad int for %s: %v", k, err)
		}
		return n
	}
	return def
}

func fatal(f string, a ...any) {
	fmt.Fprintf(os.Stderr, "drv: "+f+"\n", a...)
	os.Exit(3)
}

var commands = map[string]func(args){}

func register(name string, f func(args)) { commands[name] = f }

func main() {
	if len(os.Args) < 2 {
		names := []string{}
		for k := range commands {
			names = append(names, k)
		}
		sort.Strings(names)
		fatal("usage: drv <cmd> [k=v ...]; commands: %s", strings.Join(names, " "))
	}
	a := args{}
	for _, kv := range os.Args[2:] {
		i := strings.IndexByte(kv, '=')
		if i < 0 {
			fatal("bad argument %q", kv)
		}
		a[kv[:i]] = kv[i+1:]
	}
	if _, ok := a["seed"]; !ok {
		if s := os.Getenv("VERIF_SEED"); s != "" {
			a["seed"] = s
		}
	}
	f, ok := commands[os.Args[1]]
	if !ok {
		fatal("unknown command %q", os.Args[1])
	}
	f(a)
}
