package main

// C13: concurrent read-only use.  Built with -race by the check; hook traces of the lazy
// vertex index are validated by spec/conc/V2FTrace.tla; data races are reported by the Go
// race detector (GORACE log_path) and keyed by the check.

import (
	"bytes"
	"math"
	"math/rand"
	"os"
	"runtime"
	"sort"
	"strconv"
	"sync"
	"sync/atomic"
	"time"

	"github.com/unixpickle/model3d/model2d"
	"github.com/unixpickle/model3d/model3d"
	"github.com/unixpickle/model3d/numerical"
	"github.com/unixpickle/model3d/render3d"
	"github.com/unixpickle/model3d/toolbox3d"
)

type v2fEvent struct {
	G    int    `json:"g"`
	Ev   string `json:"ev"`
	Flag bool   `json:"flag"`
}

type v2fRecord struct {
	Id         int        `json:"id"`
	Site       string     `json:"site"`
	Readers    int        `json:"readers"`
	Ev         []v2fEvent `json:"ev"`
	Mismatches int        `json:"mismatches"`
	Panic      string     `json:"panic"`
}

func goroutineID() int {
	var buf [64]byte
	n := runtime.Stack(buf[:], false)
	// "goroutine 123 ["
	f := bytes.Fields(buf[:n])
	id, _ := strconv.Atoi(string(f[1]))
	return id
}

type hookLog struct {
	mu     sync.Mutex
	events []v2fEvent
	gids   map[int]int
	onBeg  func()
}

func (h *hookLog) hook(ev string, obj any, flag bool) {
	gid := goroutineID()
	h.mu.Lock()
	g, ok := h.gids[gid]
	if !ok {
		g = len(h.gids) + 1
		h.gids[gid] = g
	}
	h.events = append(h.events, v2fEvent{g, ev, flag})
	h.mu.Unlock()
	if ev == "v2f.build.begin" && h.onBeg != nil {
		h.onBeg()
	}
}

func sortedFindSummary3(m *model3d.Mesh, verts []model3d.Coord3D) []int {
	var out []int
	for _, v := range verts {
		out = append(out, len(m.Find(v)))
	}
	out = append(out, len(m.VertexSlice()), len(m.SingularVertices()))
	n := 0
	m.IterateVertices(func(model3d.Coord3D) { n++ })
	out = append(out, n)
	m.Iterate(func(t *model3d.Triangle) { n += len(m.Neighbors(t)) })
	out = append(out, n)
	return out
}

func summary2(m *model2d.Mesh, verts []model2d.Coord) []int {
	var out []int
	for _, v := range verts {
		out = append(out, len(m.Find(v)))
	}
	out = append(out, len(m.VertexSlice()))
	n := 0
	m.IterateVertices(func(model2d.Coord) { n++ })
	m.Iterate(func(s *model2d.Segment) { n += len(m.Neighbors(s)) })
	out = append(out, n)
	return out
}

func equalIntSlices(a, b []int) bool { return equalInts(a, b) }

func runV2F3(id, readers int, gate bool, build func() *model3d.Mesh) v2fRecord {
	rec := v2fRecord{Id: id, Site: "model3d.Mesh", Readers: readers, Ev: []v2fEvent{}}
	rec.Panic = protect(func() {
		ref := build()
		verts := ref.VertexSlice()
		sort.Slice(verts, func(i, j int) bool {
			a, b := verts[i], verts[j]
			if a.X != b.X {
				return a.X < b.X
			}
			if a.Y != b.Y {
				return a.Y < b.Y
			}
			return a.Z < b.Z
		})
		want := sortedFindSummary3(ref, verts)
		m := build()
		log := &hookLog{gids: map[int]int{}}
		start := make(chan struct{})
		late := make(chan struct{})
		var once sync.Once
		if gate {
			// release the late readers while the builder is inside the fill loop
			log.onBeg = func() {
				once.Do(func() { close(late) })
				time.Sleep(2 * time.Millisecond)
			}
		}
		model3d.VerifHook = log.hook
		var wg sync.WaitGroup
		var mu sync.Mutex
		for i := 0; i < readers; i++ {
			wg.Add(1)
			go func(i int) {
				defer wg.Done()
				<-start
				if gate && i > 0 {
					select {
					case <-late:
					case <-time.After(50 * time.Millisecond):
					}
				}
				got := sortedFindSummary3(m, verts)
				if !equalIntSlices(got, want) {
					mu.Lock()
					rec.Mismatches++
					mu.Unlock()
				}
			}(i)
		}
		close(start)
		wg.Wait()
		model3d.VerifHook = nil
		rec.Ev = log.events
	})
	return rec
}

func runV2F2(id, readers int, gate bool, build func() *model2d.Mesh) v2fRecord {
	rec := v2fRecord{Id: id, Site: "model2d.Mesh", Readers: readers, Ev: []v2fEvent{}}
	rec.Panic = protect(func() {
		ref := build()
		verts := ref.VertexSlice()
		sort.Slice(verts, func(i, j int) bool {
			a, b := verts[i], verts[j]
			if a.X != b.X {
				return a.X < b.X
			}
			return a.Y < b.Y
		})
		want := summary2(ref, verts)
		m := build()
		log := &hookLog{gids: map[int]int{}}
		start := make(chan struct{})
		late := make(chan struct{})
		var once sync.Once
		if gate {
			log.onBeg = func() {
				once.Do(func() { close(late) })
				time.Sleep(2 * time.Millisecond)
			}
		}
		model2d.VerifHook = log.hook
		var wg sync.WaitGroup
		var mu sync.Mutex
		for i := 0; i < readers; i++ {
			wg.Add(1)
			go func(i int) {
				defer wg.Done()
				<-start
				if gate && i > 0 {
					select {
					case <-late:
					case <-time.After(50 * time.Millisecond):
					}
				}
				got := summary2(m, verts)
				if !equalIntSlices(got, want) {
					mu.Lock()
					rec.Mismatches++
					mu.Unlock()
				}
			}(i)
		}
		close(start)
		wg.Wait()
		model2d.VerifHook = nil
		rec.Ev = log.events
	})
	return rec
}

// ---- free-running scenarios (race detector is the monitor) -------------------------

type scenarioResult struct {
	Name       string `json:"name"`
	Procs      int    `json:"procs"`
	Mismatches int    `json:"mismatches"`
	Panic      string `json:"panic"`
	Millis     int    `json:"millis"`
}

func parallelDo(n int, f func(i int)) {
	var wg sync.WaitGroup
	for i := 0; i < n; i++ {
		wg.Add(1)
		go func(i int) {
			defer wg.Done()
			f(i)
		}(i)
	}
	wg.Wait()
}

func stressScenarios(rng *rand.Rand) map[string]func() int {
	sphereMesh := func() *model3d.Mesh { return model3d.NewMeshIcosphere(model3d.Coord3D{}, 1, 4) }
	return map[string]func() int{
		"mesh-first-queries": func() int {
			bad := 0
			for round := 0; round < 4; round++ {
				ref := sphereMesh()
				verts := ref.VertexSlice()[:20]
				want := sortedFindSummary3(ref, verts)
				m := sphereMesh()
				var mu sync.Mutex
				parallelDo(8, func(int) {
					if !equalIntSlices(sortedFindSummary3(m, verts), want) {
						mu.Lock()
						bad++
						mu.Unlock()
					}
				})
			}
			return bad
		},
		"mesh2d-first-queries": func() int {
			bad := 0
			for round := 0; round < 4; round++ {
				mk := func() *model2d.Mesh {
					return model2d.NewMeshPolar(func(t float64) float64 { return 1 + 0.2*math.Sin(3*t) }, 300)
				}
				ref := mk()
				verts := ref.VertexSlice()[:20]
				want := summary2(ref, verts)
				m := mk()
				var mu sync.Mutex
				parallelDo(8, func(int) {
					if !equalIntSlices(summary2(m, verts), want) {
						mu.Lock()
						bad++
						mu.Unlock()
					}
				})
			}
			return bad
		},
		"collider-sdf-solid-queries": func() int {
			m := sphereMesh()
			coll := model3d.MeshToCollider(m)
			sdf := model3d.MeshToSDF(m)
			solid := model3d.NewColliderSolid(coll)
			hier := model3d.MeshToHierarchy(m)
			pts := make([]model3d.Coord3D, 64)
			for i := range pts {
				pts[i] = model3d.XYZ(rng.Float64()*2-1, rng.Float64()*2-1, rng.Float64()*2-1)
			}
			type ans struct {
				n    int
				d    float64
				in   bool
				inH  bool
				ball bool
			}
			eval := func(p model3d.Coord3D) ans {
				ray := &model3d.Ray{Origin: p, Direction: model3d.XYZ(0.3, 0.5, 0.8)}
				return ans{coll.RayCollisions(ray, nil), sdf.SDF(p), solid.Contains(p), hier[0].Contains(p),
					coll.SphereCollision(p, 0.1)}
			}
			want := make([]ans, len(pts))
			for i, p := range pts {
				want[i] = eval(p)
			}
			bad := 0
			var mu sync.Mutex
			parallelDo(8, func(int) {
				for i, p := range pts {
					if eval(p) != want[i] {
						mu.Lock()
						bad++
						mu.Unlock()
					}
				}
			})
			return bad
		},
		"marching-cubes": func() int {
			s := &model3d.Sphere{Radius: 1}
			a := model3d.MarchingCubesSearch(s, 0.1, 4)
			b := model3d.MarchingCubesFilter(s, func(*model3d.Rect) bool { return true }, 0.1)
			c := model3d.MarchingCubesC2F(s, 0.2, 0.1, 0, 2)
			if a.NumTriangles() != b.NumTriangles() || a.NumTriangles() != c.NumTriangles() {
				return 1
			}
			return 0
		},
		"dual-contouring": func() int {
			s := &model3d.Sphere{Radius: 1}
			dc := &model3d.DualContouring{S: model3d.SolidSurfaceEstimator{Solid: s}, Delta: 0.1, Clip: true, Repair: true,
				BufferSize: 4000}
			m1, _ := dc.MeshInterior()
			dc.MaxGos = 1
			m2, _ := dc.MeshInterior()
			if m1.NumTriangles() != m2.NumTriangles() {
				return 1
			}
			return 0
		},
		"marching-squares-rasterize": func() int {
			c := &model2d.Circle{Radius: 1}
			m := model2d.MarchingSquaresSearch(c, 0.05, 4)
			m2 := model2d.MarchingSquaresFilter(c, func(*model2d.Rect) bool { return true }, 0.05)
			r := &model2d.Rasterizer{Scale: 20}
			img1 := r.RasterizeSolid(c)
			img2 := r.RasterizeColliderSolid(model2d.MeshToCollider(m))
			_ = img2
			img3 := r.RasterizeSolidFilter(c, func(*model2d.Rect) bool { return true })
			bad := 0
			if m.NumSegments() != m2.NumSegments() {
				bad++
			}
			if !bytes.Equal(img1.Pix, img3.Pix) {
				bad++
			}
			return bad
		},
		"kmeans": func() int {
			data := make([]numerical.Vec3, 3000)
			for i := range data {
				data[i] = numerical.Vec3{rng.Float64(), rng.Float64(), rng.Float64()}
			}
			km := numerical.NewKMeans(data, 5)
			bad := 0
			for it := 0; it < 5; it++ {
				// sequential loss of the current centres
				want := 0.0
				for _, v := range data {
					best := math.Inf(1)
					for _, c := range km.Centers {
						if d := v.DistSquared(c); d < best {
							best = d
						}
					}
					want += best
				}
				want /= float64(len(data))
				// sequential update: every centre moves to the mean of the points nearest to it
				sums := make([]numerical.Vec3, len(km.Centers))
				counts := make([]int, len(km.Centers))
				for _, v := range data {
					bi, best := 0, math.Inf(1)
					for i, c := range km.Centers {
						if d := v.DistSquared(c); d < best {
							bi, best = i, d
						}
					}
					sums[bi] = sums[bi].Add(v)
					counts[bi]++
				}
				got := km.Iterate()
				if math.Abs(got-want) > 1e-9*math.Max(1, want) {
					bad++
				}
				for i, c := range km.Centers {
					if counts[i] > 0 && c.Dist(sums[i].Scale(1/float64(counts[i]))) > 1e-9 {
						bad++
					}
				}
			}
			km.Assign(data[:100])
			return bad
		},
		"heightmap-spheres-sdf": func() int {
			shape := model2d.MeshToSDF(model2d.NewMeshRect(model2d.XY(0, 0), model2d.XY(2, 1)))
			hm := toolbox3d.NewHeightMap(model2d.XY(0, 0), model2d.XY(2, 1), 40)
			hm.AddSpheresSDF(shape, 400, 0.02, 0)
			hm2 := toolbox3d.NewHeightMap(model2d.XY(0, 0), model2d.XY(2, 1), 40)
			hm2.AddSpheresSDF(shape, 400, 0.02, 0.2)
			return 0
		},
		"render": func() int {
			obj := &render3d.ColliderObject{Collider: &model3d.Sphere{Radius: 1},
				Material: &render3d.LambertMaterial{DiffuseColor: render3d.NewColor(0.5), EmissionColor: render3d.NewColor(0.2)}}
			light := &render3d.ColliderObject{Collider: &model3d.Sphere{Center: model3d.XYZ(0, 0, 4), Radius: 0.5},
				Material: &render3d.LambertMaterial{EmissionColor: render3d.NewColor(10)}}
			scene := render3d.JoinedObject{obj, light}
			cam := render3d.NewCameraAt(model3d.XYZ(0, -4, 0), model3d.Coord3D{}, math.Pi/3)
			rt := &render3d.RecursiveRayTracer{Camera: cam, MaxDepth: 3, NumSamples: 4}
			img := render3d.NewImage(24, 16)
			rt.Render(img, scene)
			rc := &render3d.RayCaster{Camera: cam, Lights: []*render3d.PointLight{{Origin: model3d.XYZ(0, 0, 4), Color: render3d.NewColor(1)}}}
			rc.Render(img, scene)
			bp := &render3d.BidirPathTracer{Camera: cam, Light: render3d.NewSphereAreaLight(&model3d.Sphere{Center: model3d.XYZ(0, 0, 4), Radius: 0.5}, render3d.NewColor(10)),
				MaxDepth: 3, MinDepth: 2, NumSamples: 2}
			bp.Render(img, scene)
			return 0
		},
		// one extruded-outline collider queried by eight goroutines; every answer must be the sequential one
		"profile-collider-shared": func() int {
			outline := model2d.NewMeshRect(model2d.XY(-1, -1), model2d.XY(1, 1))
			outline.AddMesh(model2d.NewMeshRect(model2d.XY(2, -1), model2d.XY(3, 2)))
			coll := model3d.ProfileCollider(model2d.MeshToCollider(outline), -1, 1)
			type ans struct {
				n     int
				first float64
				ok    bool
			}
			rays := make([]*model3d.Ray, 64)
			want := make([]ans, len(rays))
			for i := range rays {
				rays[i] = &model3d.Ray{Origin: model3d.XYZ(-4, float64(i%8)*0.37-1.3, float64(i/8)*0.29-1.1),
					Direction: model3d.XYZ(1, 0.05*float64(i%5), 0.03*float64(i%7))}
				rc, ok := coll.FirstRayCollision(rays[i])
				want[i] = ans{coll.RayCollisions(rays[i], nil), rc.Scale, ok}
			}
			bad := 0
			var mu sync.Mutex
			parallelDo(8, func(g int) {
				for rep := 0; rep < 20; rep++ {
					for k := range rays {
						i := (k*7 + g*11) % len(rays)
						cnt := 0
						n := coll.RayCollisions(rays[i], func(model3d.RayCollision) { cnt++; runtime.Gosched() })
						rc, ok := coll.FirstRayCollision(rays[i])
						if n != want[i].n || cnt != n || ok != want[i].ok || (ok && rc.Scale != want[i].first) {
							mu.Lock()
							bad++
							mu.Unlock()
						}
					}
				}
			})
			return bad
		},
		// several goroutines each build their own scene around one shared, finished joined collider; every
		// scene must be the one a single caller would have built, and the shared member must stay as it was
		"joined-shared-child": func() int {
			bad := 0
			for _, k := range []int{3, 5, 6, 7} {
				var members []model3d.Collider
				for i := 0; i < k; i++ {
					members = append(members, &model3d.Sphere{Center: model3d.XYZ(float64(i)*3-9, 0, 0), Radius: 1})
				}
				// corner spheres fix the bounds, so that everything added later lies inside them
				members[0] = &model3d.Sphere{Center: model3d.XYZ(-12, -12, -12), Radius: 1}
				members[1] = &model3d.Sphere{Center: model3d.XYZ(12, 12, 12), Radius: 1}
				room := model3d.NewJoinedCollider(members)
				extras := make([]model3d.Collider, 6)
				for i := range extras {
					extras[i] = &model3d.Sphere{Center: model3d.XYZ(1.5, float64(i)*3-7, 5), Radius: 1}
				}
				scenes := make([]*model3d.JoinedCollider, len(extras))
				parallelDo(len(extras), func(i int) {
					scenes[i] = model3d.NewJoinedCollider([]model3d.Collider{room, extras[i]})
				})
				var mu sync.Mutex
				parallelDo(len(extras), func(i int) {
					for j := range extras {
						// a ray down onto extra j hits something only in scene j
						ray := &model3d.Ray{Origin: model3d.XYZ(1.5, float64(j)*3-7, 20), Direction: model3d.Z(-1)}
						n := scenes[i].RayCollisions(ray, nil)
						if (n == 2) != (i == j) || (n != 0 && n != 2) {
							mu.Lock()
							bad++
							mu.Unlock()
						}
					}
				})
			}
			return bad
		},
		// one renderer of each kind used by several goroutines at once (each with its own image), and
		// two path tracers of different depth in flight together; the ray caster has no randomness
		// and must paint the same picture as alone
		"render-shared": func() int {
			obj := &render3d.ColliderObject{Collider: &model3d.Sphere{Radius: 1},
				Material: &render3d.LambertMaterial{DiffuseColor: render3d.NewColor(0.5), EmissionColor: render3d.NewColor(0.2)}}
			light := &render3d.ColliderObject{Collider: &model3d.Sphere{Center: model3d.XYZ(0, 0, 4), Radius: 0.5},
				Material: &render3d.LambertMaterial{EmissionColor: render3d.NewColor(10)}}
			scene := render3d.JoinedObject{obj, light}
			cam := render3d.NewCameraAt(model3d.XYZ(0, -4, 0), model3d.Coord3D{}, math.Pi/3)
			rt := &render3d.RecursiveRayTracer{Camera: cam, MaxDepth: 3, NumSamples: 3}
			rc := &render3d.RayCaster{Camera: cam, Lights: []*render3d.PointLight{{Origin: model3d.XYZ(0, 0, 4), Color: render3d.NewColor(1)}}}
			area := render3d.NewSphereAreaLight(&model3d.Sphere{Center: model3d.XYZ(0, 0, 4), Radius: 0.5}, render3d.NewColor(10))
			bp1 := &render3d.BidirPathTracer{Camera: cam, Light: area, MaxDepth: 2, MinDepth: 2, NumSamples: 2}
			bp2 := &render3d.BidirPathTracer{Camera: cam, Light: area, MaxDepth: 5, MinDepth: 2, NumSamples: 2}
			alone := render3d.NewImage(20, 14)
			rc.Render(alone, scene)
			bad := 0
			var mu sync.Mutex
			parallelDo(8, func(i int) {
				img := render3d.NewImage(20, 14)
				switch i % 4 {
				case 0:
					rt.Render(img, scene)
					rt.RayVariance(scene, 20, 14, 3)
				case 1:
					rc.Render(img, scene)
					for k := range img.Data {
						if img.Data[k] != alone.Data[k] {
							mu.Lock()
							bad++
							mu.Unlock()
							break
						}
					}
				case 2:
					bp1.Render(img, scene)
				case 3:
					bp2.Render(img, scene)
					bp2.RayVariance(scene, 20, 14, 2)
				}
				for _, c := range img.Data {
					if math.IsNaN(c.X+c.Y+c.Z) || c.X < 0 || c.Y < 0 || c.Z < 0 {
						mu.Lock()
						bad++
						mu.Unlock()
						break
					}
				}
			})
			return bad
		},
		// the first evaluation of an argument is still running when a second goroutine asks for the
		// same argument (forced: the wrapped function waits for the second caller to return)
		"cached-scalar-func-overlap": func() int {
			bad := 0
			for _, val := range []float64{5, -3, 0.25} {
				var calls int32
				started := make(chan struct{})
				secondDone := make(chan struct{})
				g := func(x float64) float64 {
					if atomic.AddInt32(&calls, 1) == 1 {
						close(started)
						select {
						case <-secondDone:
						case <-time.After(2 * time.Second):
						}
					}
					return val * x
				}
				f := model2d.CacheScalarFunc(g)
				var r1 float64
				d1 := make(chan struct{})
				go func() { r1 = f(2); close(d1) }()
				select {
				case <-started:
				case <-time.After(2 * time.Second):
				}
				r2 := f(2)
				close(secondDone)
				<-d1
				if r1 != 2*val || r2 != 2*val || f(2) != 2*val {
					bad++
				}
			}
			return bad
		},
		"cached-scalar-func": func() int {
			curve := model2d.BezierCurve{model2d.XY(0, 0), model2d.XY(1, 2), model2d.XY(2, 0)}
			f := model2d.CacheScalarFunc(curve.EvalX)
			bad := 0
			var mu sync.Mutex
			parallelDo(8, func(i int) {
				for k := 0; k < 200; k++ {
					x := float64(k%20) / 10
					if f(x) != curve.EvalX(x) {
						mu.Lock()
						bad++
						mu.Unlock()
					}
				}
			})
			return bad
		},
	}
}

func init() {
	// c13-v2f out= stats= rounds=N
	register("c13-v2f", func(a args) {
		out := newNDWriter(a.str("out", "records.ndjson"))
		defer out.close()
		stats := map[string]int{}
		id := 0
		builders3 := []func() *model3d.Mesh{
			func() *model3d.Mesh { return model3d.NewMeshIcosphere(model3d.Coord3D{}, 1, 3) },
			func() *model3d.Mesh { return model3d.NewMeshRect(model3d.XYZ(0, 0, 0), model3d.XYZ(1, 2, 3)) },
			func() *model3d.Mesh { return model3d.NewMeshTorus(model3d.Coord3D{}, model3d.Z(1), 0.3, 1, 12, 24) },
		}
		builders2 := []func() *model2d.Mesh{
			func() *model2d.Mesh { return model2d.NewMeshPolar(func(float64) float64 { return 1 }, 200) },
			func() *model2d.Mesh { return model2d.NewMeshRect(model2d.XY(0, 0), model2d.XY(1, 2)) },
		}
		for round := 0; round < a.int("rounds", 3); round++ {
			for _, readers := range []int{2, 3, 4} {
				for _, gate := range []bool{false, true} {
					for _, b := range builders3 {
						id++
						rec := runV2F3(id, readers, gate, b)
						countV2F(rec, stats)
						out.write(rec)
					}
					for _, b := range builders2 {
						id++
						rec := runV2F2(id, readers, gate, b)
						countV2F(rec, stats)
						out.write(rec)
					}
				}
			}
		}
		writeJSONFile(a.str("stats", "stats.json"), stats)
	})

	// c13-stress out=results.json procs=2,4,16 only=name,name
	register("c13-stress", func(a args) {
		rng := rand.New(rand.NewSource(int64(a.int("seed", 1))))
		var results []scenarioResult
		scen := stressScenarios(rng)
		var names []string
		for n := range scen {
			names = append(names, n)
		}
		sort.Strings(names)
		// (one processor too: the internally parallel routines size their pools and pipelines by it)
		for _, p := range []int{2, 4, 16, 1} {
			old := runtime.GOMAXPROCS(p)
			for _, n := range names {
				r := scenarioResult{Name: n, Procs: p}
				t0 := time.Now()
				mism := 0
				outcome, pan := withDeadline(240*time.Second, func() { mism = scen[n]() })
				r.Panic = pan
				r.Millis = int(time.Since(t0).Milliseconds())
				if outcome == "hang" {
					// the runaway scenario keeps its goroutines: report what there is and stop here
					r.Panic = "did not terminate within 240 s"
					results = append(results, r)
					writeJSONFile(a.str("out", "stress.json"), results)
					os.Exit(0)
				}
				r.Mismatches = mism
				results = append(results, r)
			}
			runtime.GOMAXPROCS(old)
		}
		writeJSONFile(a.str("out", "stress.json"), results)
	})
}

func countV2F(rec v2fRecord, stats map[string]int) {
	stats["records"]++
	stats["events"] += len(rec.Ev)
	// non-trivial: at least two readers saw nil at their first load (both went for the lock)
	n := 0
	for _, e := range rec.Ev {
		if e.Ev == "v2f.load1" && !e.Flag {
			n++
		}
	}
	if n >= 2 {
		stats["nonempty"]++
	}
	stats["mismatches"] += rec.Mismatches
}
