package main

// C20 (closed-form radiance): scenes whose radiance is known in closed form, rendered with the
// recursive ray tracer and the bidirectional path tracer for small and large depth limits.
//
//   emitter  a uniform emitter fills the view: every pixel is the emission (no randomness is left)
//   furnace  the camera inside a closed matte emitting room (an inward-facing icosphere) (recursive tracer: every sample of a
//            cosine-sampled Lambert surface carries the weight rho, so the pixel is
//            E (1 + rho + ... + rho^MaxDepth) up to rounding)
//   floor    a matte floor under a spherical emitter: rho L (R/d)^2 cos(theta) per floor point; a
//            Monte-Carlo estimate, judged on the mean over the image of rendered / closed form
//
// spec/render/RadianceJudge.tla decides each record on the integers dev and tol.

import (
	"math"
	"math/rand"

	"github.com/unixpickle/model3d/model3d"
	"github.com/unixpickle/model3d/render3d"
)

type radRec struct {
	ID     int    `json:"id"`
	Kind   string `json:"kind"`
	Site   string `json:"site"`
	Depth  int    `json:"depth"`
	Finite bool   `json:"finite"`
	Dev    int    `json:"dev"` // emitter / furnace: largest |pixel - closed form| in 1e-12 units (capped); floor: |mean ratio - 1| in 1e-6 units
	Tol    int    `json:"tol"`
	Note   string `json:"note"`
	Panic  string `json:"panic"`
}

func radDev(img *render3d.Image, want render3d.Color, rec *radRec) {
	rec.Finite = true
	worst := 0.0
	for _, c := range img.Data {
		if math.IsNaN(c.Sum()) || math.IsInf(c.Sum(), 0) {
			rec.Finite = false
			continue
		}
		worst = math.Max(worst, math.Max(math.Abs(c.X-want.X), math.Max(math.Abs(c.Y-want.Y), math.Abs(c.Z-want.Z))))
	}
	rec.Dev = int(math.Min(worst*1e12, 1e9))
}

func init() {
	register("c20-radiance", func(a args) {
		rng := rand.New(rand.NewSource(int64(a.int("seed", 1))))
		out := newNDWriter(a.str("out", "records.ndjson"))
		defer out.close()
		stats := map[string]int{}
		floorSamples := a.int("floorsamples", 20000)
		id := 0
		emit := func(rec radRec) {
			out.write(rec)
			stats["records"]++
			stats["nonempty"]++
			stats["site:"+rec.Site]++
		}
		emission := render3d.Color{X: 0.25, Y: 0.5, Z: 0.75}

		// ---- emitter
		for _, depth := range []int{1, 2, 3, 4, 7, 12} {
			for _, aa := range []float64{0, 1} {
				lightMesh := model3d.NewMeshRect(model3d.XYZ(-5-rng.Float64(), 1, -5), model3d.XYZ(5, 2+rng.Float64(), 5))
				light := render3d.NewMeshAreaLight(lightMesh, emission)
				cam := render3d.NewCameraAt(model3d.Origin, model3d.Y(1), math.Pi/3)
				for _, h := range []float64{0, 2} {
					id++
					rec := radRec{ID: id, Kind: "emitter", Site: "BidirPathTracer", Depth: depth, Tol: 1000}
					rec.Panic = protect(func() {
						bpt := &render3d.BidirPathTracer{Camera: cam, Light: light, MaxDepth: depth, NumSamples: 5, PowerHeuristic: h, Antialias: aa}
						if depth > 3 && h == 2 {
							bpt.MinDepth = 2
							bpt.RouletteDelta = 0.2
						}
						img := render3d.NewImage(4, 3)
						bpt.Render(img, light)
						radDev(img, emission, &rec)
					})
					emit(rec)
				}
				id++
				rec := radRec{ID: id, Kind: "emitter", Site: "RecursiveRayTracer", Depth: depth, Tol: 1000}
				rec.Panic = protect(func() {
					obj := &render3d.ColliderObject{Collider: model3d.MeshToCollider(lightMesh), Material: &render3d.LambertMaterial{EmissionColor: emission}}
					rt := &render3d.RecursiveRayTracer{Camera: cam, MaxDepth: depth, NumSamples: 5, Antialias: aa}
					img := render3d.NewImage(4, 3)
					rt.Render(img, obj)
					radDev(img, emission, &rec)
				})
				emit(rec)
			}
		}

		// ---- furnace (recursive tracer)
		for _, depth := range []int{0, 1, 2, 5, 60} {
			rho := []float64{0.5, 0.25, 0.75}[rng.Intn(3)]
			id++
			rec := radRec{ID: id, Kind: "furnace", Site: "RecursiveRayTracer", Depth: depth, Tol: 100000}
			rec.Panic = protect(func() {
				// the faces look inwards: a matte surface reflects on the side of its normal only
				room := model3d.NewMeshIcosphere(model3d.XYZ(0.3, 0.2, -0.1), 4, 3).InvertNormals()
				obj := &render3d.ColliderObject{Collider: model3d.MeshToCollider(room),
					Material: &render3d.LambertMaterial{DiffuseColor: render3d.NewColor(rho), EmissionColor: emission}}
				cam := render3d.NewCameraAt(model3d.Origin, model3d.XYZ(1, 1, 0.5), math.Pi/2)
				rt := &render3d.RecursiveRayTracer{Camera: cam, MaxDepth: depth, NumSamples: 7}
				img := render3d.NewImage(5, 4)
				rt.Render(img, obj)
				sum := 0.0
				for i := 0; i <= depth; i++ {
					sum += math.Pow(rho, float64(i))
				}
				radDev(img, emission.Scale(sum), &rec)
			})
			emit(rec)
		}

		// ---- floor
		const radiance, radius = 10.0, 1.0
		for k, depth := range []int{2, 2, 3, 4, 2, 3, 6} {
			rho := 0.3 + 0.5*rng.Float64()
			center := model3d.XYZ(0.4*rng.Float64(), 0.4*rng.Float64(), 2.5+rng.Float64())
			light := render3d.NewSphereAreaLight(&model3d.Sphere{Center: center, Radius: radius}, render3d.NewColor(radiance))
			scene := render3d.JoinedObject{
				&render3d.ColliderObject{
					Collider: model3d.MeshToCollider(model3d.NewMeshRect(model3d.XYZ(-50, -50, -1), model3d.XYZ(50, 50, 0))),
					Material: &render3d.LambertMaterial{DiffuseColor: render3d.NewColor(rho)},
				},
				light,
			}
			cam := render3d.NewCameraAt(model3d.XYZ(0.5, -4, 2), model3d.XYZ(0.5, 0, 0), 0.05)
			caster := cam.Caster(3, 3)
			expected := func(x, y int) float64 {
				ray := &model3d.Ray{Origin: cam.Origin, Direction: caster(float64(x), float64(y))}
				t := -ray.Origin.Z / ray.Direction.Z
				p := ray.Origin.Add(ray.Direction.Scale(t))
				to := center.Sub(p)
				d := to.Norm()
				return rho * radiance * (radius * radius / (d * d)) * (to.Z / d)
			}
			site := "BidirPathTracer"
			if k >= 4 {
				site = "RecursiveRayTracer"
			}
			id++
			rec := radRec{ID: id, Kind: "floor", Site: site, Depth: depth, Tol: 50000}
			rec.Panic = protect(func() {
				img := render3d.NewImage(4, 4)
				if site == "BidirPathTracer" {
					bpt := &render3d.BidirPathTracer{Camera: cam, Light: light, MaxDepth: depth, NumSamples: floorSamples, PowerHeuristic: float64(2 * (k % 2))}
					bpt.Render(img, scene)
				} else {
					rt := &render3d.RecursiveRayTracer{Camera: cam, MaxDepth: depth - 1, NumSamples: floorSamples}
					if k == 5 {
						rt.FocusPoints = []render3d.FocusPoint{&render3d.SphereFocusPoint{Center: center, Radius: radius}}
						rt.FocusPointProbs = []float64{0.5}
					}
					rt.Render(img, scene)
				}
				rec.Finite = true
				ratio := 0.0
				for y := 0; y < 4; y++ {
					for x := 0; x < 4; x++ {
						c := img.At(x, y)
						if math.IsNaN(c.Sum()) || math.IsInf(c.Sum(), 0) {
							rec.Finite = false
						}
						ratio += c.Sum() / 3 / expected(x, y) / 16
					}
				}
				if rec.Finite {
					rec.Dev = int(math.Min(math.Abs(ratio-1)*1e6, 1e9))
				}
			})
			emit(rec)
		}
		writeJSONFile(a.str("stats", "stats.json"), stats)
	})
}
