package main

// C15 (mesh API half): abstract meshes of spec/codec/MeshCodec.tla pushed through every
// writer/reader pair of the mesh API; the decoded faces are projected back to vertex
// names and judged by spec/codec/CodecJudge.tla.

import (
	"archive/zip"
	"bytes"
	"encoding/json"
	"encoding/xml"
	"fmt"
	"io"
	"math"
	"math/rand"
	"strconv"
	"strings"

	"github.com/unixpickle/model3d/fileformats"
	"github.com/unixpickle/model3d/model2d"
	"github.com/unixpickle/model3d/model3d"
)

type rtRec struct {
	Kind    string  `json:"kind"`
	ID      int     `json:"id"`
	Site    string  `json:"site"`
	Real    string  `json:"real"`
	Faces   [][]int `json:"faces"`
	Cls     []int   `json:"cls"`
	Out     [][]int `json:"out"`
	Err     string  `json:"err"`
	Ordered bool    `json:"ordered"`
	Colors  bool    `json:"colors"`
}

var negZero = math.Copysign(0, -1)

// coordinate realisations of the vertex names 1..4
var rtReal = map[string][4][3]float64{
	"plain":  {{0, 0, 0}, {1, 0, 0}, {0, 1, 0}, {0, 0, 1}},
	"limits": {{negZero, 0.5, 3e38}, {1e-40, -1e-40, 1}, {1.0 / 3, 2, -7}, {16777217, 0.1, -0.1}},
	"near":   {{5, 6, 7}, {-1, 0.25, 0}, {1, 2, 3}, {1 + 1e-12, 2, 3}},
	"tiny":   {{1e-300, 0, 0}, {0, 1e-300, 0}, {1e300, 0, 0}, {0, 0, 0}},
}

// Realisations whose coordinates are exactly representable in single precision but need more
// decimal digits as a float64 than as a float32 (values that went through a float32: binary STL
// / PLY imports, casts; powers of two; the float32 extremes and subnormals).  A float64-preserving
// format must hand back the very same float64; a float32 format stores them unchanged.
func f32v(x float32) float64 { return float64(x) }

var rtRealF32 = map[string][4][3]float64{
	"f32": {{f32v(0.1), f32v(1.0000001), f32v(123456.789)}, {float64(float32(1) / 3), -f32v(0.7), f32v(2.5e-5)},
		{math.MaxFloat32, math.SmallestNonzeroFloat32, math.Ldexp(1, -20)}, {math.Ldexp(1, 30), -math.MaxFloat32, f32v(16777216 * 3)}},
	"f32b": {{math.Ldexp(1, 40), math.Ldexp(1, -126), f32v(1e10)}, {-math.Ldexp(1, -149), float64(math.Float32frombits(0x00012345)), f32v(3.4e38)},
		{f32v(1e-38), f32v(-1e-45), f32v(0.3)}, {f32v(33554434), f32v(1.1754942e-38), -f32v(6.02e23)}},
}

// rtSeededF32 draws float32 bit patterns (any exponent incl. subnormals, both signs; no NaN / Inf)
func rtSeededF32(seed int64) [4][3]float64 {
	rnd := rand.New(rand.NewSource(seed))
	var res [4][3]float64
	seen := map[float64]bool{}
	for v := 0; v < 4; v++ {
		for a := 0; a < 3; a++ {
			for {
				bits := rnd.Uint32()
				switch rnd.Intn(4) {
				case 0: // subnormal
					bits &= 0x807fffff
				case 1: // moderate exponent
					bits = bits&0x807fffff | uint32(100+rnd.Intn(56))<<23
				}
				x := float64(math.Float32frombits(bits))
				if math.IsNaN(x) || math.IsInf(x, 0) || x == 0 || seen[x] {
					continue
				}
				seen[x] = true
				res[v][a] = x
				break
			}
		}
	}
	return res
}

func rtColor(cls int) [3]uint8 { return [3]uint8{uint8(cls * 60), uint8(255 - cls), uint8(cls)} }

func f32r(x float64) float64 { return float64(float32(x)) }

func sameBits(a, b [3]float64) bool {
	for i := range a {
		if math.Float64bits(a[i]) != math.Float64bits(b[i]) {
			return false
		}
	}
	return true
}

// classes: cls[v] = smallest name whose stored coordinate has the same bits
func rtClasses(coords [4][3]float64, store func(float64) float64, nv int) ([]int, [][3]float64) {
	stored := make([][3]float64, nv)
	cls := make([]int, nv)
	for v := 0; v < nv; v++ {
		for a := 0; a < 3; a++ {
			stored[v][a] = store(coords[v][a])
		}
		cls[v] = v + 1
		for u := 0; u < v; u++ {
			if sameBits(stored[u], stored[v]) {
				cls[v] = u + 1
				break
			}
		}
	}
	return cls, stored
}

func rtName(stored [][3]float64, c [3]float64) int {
	for v, s := range stored {
		if sameBits(s, c) {
			return v + 1
		}
	}
	return 0
}

func rtMesh3(faces [][]int, coords [4][3]float64) []*model3d.Triangle {
	tris := make([]*model3d.Triangle, len(faces))
	for i, f := range faces {
		t := &model3d.Triangle{}
		for k := 0; k < 3; k++ {
			t[k] = model3d.NewCoord3DArray(coords[f[k]-1])
		}
		tris[i] = t
	}
	return tris
}

func trisToNames(tris []*model3d.Triangle, stored [][3]float64) [][]int {
	out := make([][]int, len(tris))
	for i, t := range tris {
		out[i] = []int{rtName(stored, t[0].Array()), rtName(stored, t[1].Array()), rtName(stored, t[2].Array())}
	}
	return out
}

func ident(x float64) float64 { return x }

type threeMFDoc struct {
	Resources struct {
		Objects []struct {
			Mesh struct {
				Vertices struct {
					V []struct {
						X string `xml:"x,attr"`
						Y string `xml:"y,attr"`
						Z string `xml:"z,attr"`
					} `xml:"vertex"`
				} `xml:"vertices"`
				Triangles struct {
					T []struct {
						V1 string `xml:"v1,attr"`
						V2 string `xml:"v2,attr"`
						V3 string `xml:"v3,attr"`
					} `xml:"triangle"`
				} `xml:"triangles"`
			} `xml:"mesh"`
		} `xml:"object"`
	} `xml:"resources"`
}

func rtRun3(id *int, out *ndWriter, stats map[string]int, faces [][]int, real string) {
	coords := rtReal[real]
	tris := rtMesh3(faces, coords)
	emit := func(site string, cls []int, res [][]int, err string, ordered, colors bool) {
		*id++
		if res == nil {
			res = [][]int{}
		}
		out.write(rtRec{Kind: "rt", ID: *id, Site: site, Real: real, Faces: faces, Cls: cls, Out: res, Err: err,
			Ordered: ordered, Colors: colors})
		stats["records"]++
		stats["site:"+site]++
		if len(faces) > 0 {
			stats["nonempty"]++
		}
	}
	// colour of a coordinate = colour of its float32 class (so "unchanged" is well defined)
	cls32, stored32 := rtClasses(coords, f32r, 4)
	cls64, stored64 := rtClasses(coords, ident, 4)
	colorOf := func(c model3d.Coord3D) [3]uint8 {
		return rtColor(cls32[rtName(stored64, c.Array())-1])
	}

	// binary STL
	{
		var got []*model3d.Triangle
		var err error
		p := protect(func() { got, err = model3d.ReadSTL(bytes.NewReader(model3d.EncodeSTL(tris))) })
		emit("STL", cls32, trisToNames(got, stored32), errText(err, p), true, true)
	}
	// coloured PLY
	{
		var got []*model3d.Triangle
		var cm *model3d.CoordMap[[3]uint8]
		var err error
		p := protect(func() {
			got, cm, err = model3d.ReadColorPLY(bytes.NewReader(model3d.EncodePLY(tris, colorOf)))
		})
		colors := true
		if err == nil && p == "" {
			used := map[int]bool{}
			for _, f := range faces {
				for _, v := range f {
					used[v] = true
				}
			}
			classes := map[int]bool{}
			for v := range used {
				col, ok := cm.Load(model3d.NewCoord3DArray(stored32[v-1]))
				if !ok || col != rtColor(cls32[v-1]) {
					colors = false
				}
				classes[cls32[v-1]] = true
			}
			if cm.Len() != len(classes) {
				colors = false
			}
		}
		emit("PLY", cls32, trisToNames(got, stored32), errText(err, p), true, colors)
	}
	// OBJ builders: every face referenced exactly once, indices in range, same vertices
	deref := func(o *fileformats.OBJFile) ([][]int, string) {
		var res [][]int
		for _, g := range o.FaceGroups {
			for _, f := range g.Faces {
				var names []int
				for k := 0; k < 3; k++ {
					idx := f[k][0]
					if idx < 1 || idx > len(o.Vertices) {
						return res, "vertex index out of range"
					}
					names = append(names, rtName(stored64, o.Vertices[idx-1]))
				}
				res = append(res, names)
			}
		}
		return res, ""
	}
	{
		var o *fileformats.OBJFile
		p := protect(func() {
			o, _ = model3d.BuildMaterialOBJ(tris, func(t *model3d.Triangle) [3]float64 {
				c := colorOf(t[0])
				return [3]float64{float64(c[0]) / 255, float64(c[1]) / 255, float64(c[2]) / 255}
			})
		})
		var res [][]int
		e := p
		if p == "" {
			res, e = deref(o)
		}
		emit("BuildMaterialOBJ", cls64, res, e, false, true)
	}
	{
		var o *fileformats.OBJFile
		p := protect(func() {
			o = model3d.BuildVertexColorOBJ(tris, func(c model3d.Coord3D) [3]float64 {
				col := colorOf(c)
				return [3]float64{float64(col[0]), float64(col[1]), float64(col[2])}
			})
		})
		var res [][]int
		e := p
		colors := true
		if p == "" {
			res, e = deref(o)
			if len(o.VertexColors) != len(o.Vertices) {
				colors = false
			} else {
				for i, v := range o.Vertices {
					col := colorOf(model3d.NewCoord3DArray(v))
					if o.VertexColors[i] != [3]float64{float64(col[0]), float64(col[1]), float64(col[2])} {
						colors = false
					}
				}
			}
		}
		emit("BuildVertexColorOBJ", cls64, res, e, true, colors)
	}
	// 3MF (plain coordinates only: the format prints 32 decimals, so tiny values vanish)
	if real == "plain" || real == "near" {
		var buf bytes.Buffer
		var err error
		var res [][]int
		p := protect(func() { err = model3d.Write3MF(&buf, fileformats.ThreeMFUnitMillimeter, tris) })
		e := errText(err, p)
		if e == "" {
			res, e = parse3MF(buf.Bytes(), stored64)
		}
		emit("3MF", cls64, res, e, false, true)
	}
}

func parse3MF(data []byte, stored [][3]float64) ([][]int, string) {
	zr, err := zip.NewReader(bytes.NewReader(data), int64(len(data)))
	if err != nil {
		return nil, "zip: " + err.Error()
	}
	for _, f := range zr.File {
		if f.Name != "3D/3dmodel.model" {
			continue
		}
		rc, err := f.Open()
		if err != nil {
			return nil, err.Error()
		}
		body, _ := io.ReadAll(rc)
		rc.Close()
		var doc threeMFDoc
		if err := xml.Unmarshal(body, &doc); err != nil {
			return nil, "xml: " + err.Error()
		}
		if len(doc.Resources.Objects) != 1 {
			return nil, "expected one object"
		}
		m := doc.Resources.Objects[0].Mesh
		verts := make([][3]float64, len(m.Vertices.V))
		for i, v := range m.Vertices.V {
			for a, s := range []string{v.X, v.Y, v.Z} {
				x, err := strconv.ParseFloat(s, 64)
				if err != nil {
					return nil, "bad coordinate " + s
				}
				verts[i][a] = x
			}
		}
		var res [][]int
		for _, t := range m.Triangles.T {
			var names []int
			for _, s := range []string{t.V1, t.V2, t.V3} {
				idx, err := strconv.Atoi(s)
				if err != nil || idx < 0 || idx >= len(verts) {
					return res, "vertex index out of range"
				}
				// printed with 32 decimals: compare to the same rendering of the original
				name := 0
				for v, sc := range stored {
					same := true
					for a := 0; a < 3; a++ {
						want, _ := strconv.ParseFloat(strconv.FormatFloat(sc[a], 'f', 32, 64), 64)
						if want != verts[idx][a] {
							same = false
						}
					}
					if same {
						name = v + 1
						break
					}
				}
				names = append(names, name)
			}
			res = append(res, names)
		}
		return res, ""
	}
	return nil, "3D/3dmodel.model missing"
}

func errText(err error, p string) string {
	if p != "" {
		return "panic: " + p
	}
	if err != nil {
		return err.Error()
	}
	return ""
}

func rtRun2(id *int, out *ndWriter, stats map[string]int, faces [][]int, real string) {
	coords := rtReal[real]
	cls, stored := rtClasses(coords, ident, 4)
	// 2-D: only x, y matter
	for v := range stored {
		stored[v][2] = 0
	}
	for v := 0; v < 4; v++ {
		cls[v] = v + 1
		for u := 0; u < v; u++ {
			if sameBits(stored[u], stored[v]) {
				cls[v] = u + 1
				break
			}
		}
	}
	m := model2d.NewMesh()
	for _, f := range faces {
		m.Add(&model2d.Segment{model2d.XY(coords[f[0]-1][0], coords[f[0]-1][1]), model2d.XY(coords[f[1]-1][0], coords[f[1]-1][1])})
	}
	var segs []*model2d.Segment
	var err error
	p := protect(func() { segs, err = model2d.DecodeCSV(model2d.EncodeCSV(m)) })
	res := [][]int{}
	for _, s := range segs {
		res = append(res, []int{rtName(stored, [3]float64{s[0].X, s[0].Y, 0}), rtName(stored, [3]float64{s[1].X, s[1].Y, 0})})
	}
	*id++
	out.write(rtRec{Kind: "rt", ID: *id, Site: "CSV", Real: real, Faces: faces, Cls: cls, Out: res, Err: errText(err, p),
		Ordered: false, Colors: true})
	stats["records"]++
	stats["site:CSV"]++
	if len(faces) > 0 {
		stats["nonempty"]++
	}
	// the row writer / reader pair directly: rows come back in the order written
	{
		var buf bytes.Buffer
		var err error
		res := [][]int{}
		p := protect(func() {
			w := fileformats.NewSegmentCSVWriter(&buf)
			for _, f := range faces {
				a, b := coords[f[0]-1], coords[f[1]-1]
				if err = w.Write([4]float64{a[0], a[1], b[0], b[1]}); err != nil {
					return
				}
			}
			r := fileformats.NewSegmentCSVReader(bytes.NewReader(buf.Bytes()))
			for {
				row, e := r.Read()
				if e == io.EOF {
					return
				}
				if e != nil {
					err = e
					return
				}
				res = append(res, []int{rtName(stored, [3]float64{row[0], row[1], 0}), rtName(stored, [3]float64{row[2], row[3], 0})})
			}
		})
		*id++
		out.write(rtRec{Kind: "rt", ID: *id, Site: "SegmentCSV", Real: real, Faces: faces, Cls: cls, Out: res, Err: errText(err, p),
			Ordered: true, Colors: true})
		stats["records"]++
		stats["site:SegmentCSV"]++
		if len(faces) > 0 {
			stats["nonempty"]++
		}
	}
}

type bigRec struct {
	Kind string `json:"kind"`
	ID   int    `json:"id"`
	Site string `json:"site"`
	NIn  int    `json:"nin"`
	NOut int    `json:"nout"`
	Same bool   `json:"same"`
	Err  string `json:"err"`
}

// files with more faces than the decoders' capacity hints (2^16)
func bigRun(id *int, out *ndWriter, stats map[string]int) {
	for _, n := range []int{65536, 65537, 70001} {
		tris := make([]*model3d.Triangle, n)
		for i := range tris {
			x := float64(i % 1024)
			y := float64(i / 1024)
			tris[i] = &model3d.Triangle{model3d.XYZ(x, y, 0), model3d.XYZ(x+1, y, 0), model3d.XYZ(x, y+1, 1)}
		}
		same := func(got []*model3d.Triangle) bool {
			if len(got) != len(tris) {
				return false
			}
			for i := range got {
				if *got[i] != *tris[i] {
					return false
				}
			}
			return true
		}
		emit := func(site string, got []*model3d.Triangle, err error, p string) {
			*id++
			out.write(bigRec{Kind: "big", ID: *id, Site: site, NIn: n, NOut: len(got), Same: same(got), Err: errText(err, p)})
			stats["records"]++
			stats["site:"+site]++
			stats["nonempty"]++
		}
		{
			var got []*model3d.Triangle
			var err error
			p := protect(func() { got, err = model3d.ReadSTL(bytes.NewReader(model3d.EncodeSTL(tris))) })
			emit("STL-large", got, err, p)
		}
		{
			// OFF text with one vertex table entry per corner
			var sb strings.Builder
			fmt.Fprintf(&sb, "OFF\n%d %d 0\n", 3*n, n)
			for _, t := range tris {
				for _, c := range t {
					fmt.Fprintf(&sb, "%g %g %g\n", c.X, c.Y, c.Z)
				}
			}
			for i := 0; i < n; i++ {
				fmt.Fprintf(&sb, "3 %d %d %d\n", 3*i, 3*i+1, 3*i+2)
			}
			var got []*model3d.Triangle
			var err error
			p := protect(func() { got, err = model3d.ReadOFF(strings.NewReader(sb.String())) })
			emit("OFF-large", got, err, p)
		}
		if n == 65537 {
			var got []*model3d.Triangle
			var err error
			p := protect(func() {
				got, _, err = model3d.ReadColorPLY(bytes.NewReader(model3d.EncodePLY(tris, func(model3d.Coord3D) [3]uint8 { return [3]uint8{1, 2, 3} })))
			})
			emit("PLY-large", got, err, p)
		}
	}
}

func init() {
	register("c15-mesh", func(a args) {
		out := newNDWriter(a.str("out", "records.ndjson"))
		defer out.close()
		stats := map[string]int{}
		arity := a.int("arity", 3)
		id := a.int("firstid", 0)
		if arity == 3 {
			bigRun(&id, out, stats)
		}
		for k, v := range rtRealF32 {
			rtReal[k] = v
		}
		seed := int64(a.int("seed", 0))
		rtReal["f32rand"] = rtSeededF32(seed)
		rtReal["f32rand2"] = rtSeededF32(seed + 7919)
		rtReal["f32rand3"] = rtSeededF32(seed + 2*7919)
		readNDJSON(a.str("in", "cases.ndjson"), func(line []byte) {
			var faces [][]int
			if err := json.Unmarshal(line, &faces); err != nil {
				fatal("bad case %s: %v", line, err)
			}
			if faces == nil {
				faces = [][]int{}
			}
			for _, real := range []string{"plain", "limits", "near", "tiny", "f32", "f32b", "f32rand", "f32rand2", "f32rand3"} {
				if arity == 3 {
					if real == "f32rand2" || real == "f32rand3" {
						continue // the 2-D (CSV) stage takes all seeded draws
					}
					if real == "tiny" {
						continue // float32 formats: 1e-300 and 0 are not distinguishable vertices
					}
					rtRun3(&id, out, stats, faces, real)
				} else {
					rtRun2(&id, out, stats, faces, real)
				}
			}
		})
		writeJSONFile(a.str("stats", "stats.json"), stats)
	})
}
