package main

// C03 / C06 / C07 "prims" stages: the primitive shapes of model3d / model2d (and the simple
// toolbox3d solids) with INTEGER defining data, run as solids, distance fields and colliders on
// exact inputs (quarter-unit lattice points, integer ray directions).  Observations are
// projected to scaled integers (with an exactness flag) or to booleans where the property is a
// tolerance statement; spec/geom/PrimJudge.tla decides every clause.
//
//	c03-prims  out= stats= seed= n=      records of kind "solid"
//	c06-prims  out= stats= seed= n= q=   records of kind "sdf"
//	c07-prims  out= stats= seed= n= rays= balls=   records of kind "collider"

import (
	"fmt"
	"math"
	"math/rand"
	"sort"

	"github.com/unixpickle/model3d/model2d"
	"github.com/unixpickle/model3d/model3d"
	"github.com/unixpickle/model3d/toolbox3d"
)

type pvec = [3]float64

func v3c(v pvec) model3d.Coord3D { return model3d.XYZ(v[0], v[1], v[2]) }
func c3v(c model3d.Coord3D) pvec { return pvec{c.X, c.Y, c.Z} }
func v2c(v pvec) model2d.Coord   { return model2d.XY(v[0], v[1]) }
func c2v(c model2d.Coord) pvec   { return pvec{c.X, c.Y, 0} }

func pvAdd(a, b pvec) pvec           { return pvec{a[0] + b[0], a[1] + b[1], a[2] + b[2]} }
func pvSub(a, b pvec) pvec           { return pvec{a[0] - b[0], a[1] - b[1], a[2] - b[2]} }
func pvScale(a pvec, s float64) pvec { return pvec{a[0] * s, a[1] * s, a[2] * s} }
func pvDot(a, b pvec) float64        { return a[0]*b[0] + a[1]*b[1] + a[2]*b[2] }
func pvNorm(a pvec) float64          { return math.Sqrt(pvDot(a, a)) }
func pvMaxAbs(a pvec) float64 {
	return math.Max(math.Abs(a[0]), math.Max(math.Abs(a[1]), math.Abs(a[2])))
}
func q4pt(q [3]int) pvec                { return pvec{float64(q[0]) / 4, float64(q[1]) / 4, float64(q[2]) / 4} }
func i3f(a [3]int) pvec                 { return pvec{float64(a[0]), float64(a[1]), float64(a[2])} }
func i3add(a, b [3]int) [3]int          { return [3]int{a[0] + b[0], a[1] + b[1], a[2] + b[2]} }
func i3scale(a [3]int, k int) [3]int    { return [3]int{a[0] * k, a[1] * k, a[2] * k} }
func i3dot(a, b [3]int) int             { return a[0]*b[0] + a[1]*b[1] + a[2]*b[2] }
func i3slice(a [3]int) []int            { return []int{a[0], a[1], a[2]} }
func isFinite(x float64) bool           { return !math.IsNaN(x) && !math.IsInf(x, 0) }
func ri(rng *rand.Rand, lo, hi int) int { return lo + rng.Intn(hi-lo+1) }

// scaledInt projects x*k to an integer; exact iff |x*k - round(x*k)| < 1e-6.
func scaledInt(x, k float64) (int, bool) {
	y := x * k
	if !isFinite(y) || math.Abs(y) > 1e9 {
		return 0, false
	}
	r := math.Round(y)
	return int(r), math.Abs(y-r) < 1e-6
}

func scaledVec(v pvec, k float64) ([]int, bool) {
	out := make([]int, 3)
	ok := true
	for i := range v {
		var e bool
		out[i], e = scaledInt(v[i], k)
		ok = ok && e
	}
	return out, ok
}

// ---------------------------------------------------------------------------- shapes

type primHit struct {
	t float64
	n pvec
}

type primSpecial struct {
	q   [3]int // quarter units
	tag string
}

type primCircle struct {
	c, a pvec // centre, unit normal
	r    float64
}

type primShape struct {
	site, variant string
	dim           int
	smooth        bool   // the surface has a unique normal everywhere
	shape         string // exact predicate known to PrimJudge ("none" if not available)
	data          []int
	bounds        func() (pvec, pvec)
	contains      func(pvec) bool
	def           func(pvec) bool // independent (harness-side) definition of the true shape; may be nil
	extra         *[2]pvec        // additional region that must be probed
	sdf           func(pvec) float64
	pointSDF      func(pvec) (pvec, float64)
	normalSDF     func(pvec) (pvec, float64)
	rays          func(o, d pvec, cb bool) (int, []primHit)
	first         func(o, d pvec) (primHit, bool)
	ball          func(c pvec, r float64) bool
	special       []primSpecial
	circles       []primCircle         // creases of the surface: circles
	points        []pvec               // creases of the surface: isolated points (apex, 2D corners)
	boxEdges      bool                 // creases are the edges of an axis-aligned box (decided from the hit points)
	coneAxis      *pvec                // cone: unit axis, and
	coneSlope     float64              // radius / height (rays parallel to a generator line are not in general position)
	approx        float64              // > 0: a sampling collider of that resolution (positions to that accuracy, noisy normals, no ball queries)
	oracleDist    func(pvec) float64   // independent (harness-side) distance from a point to the surface; may be nil
	normalAt      func(p, n pvec) bool // if set: n is an admissible normal at the surface point p (replaces primNormalAt)
	mustProbe     []pvec               // further points of the true shape (just inside its extremes) that the leak clause must look at
	hasNoNormal   bool                 // the distance field offers no NormalSDF (extruded profiles): normal clauses are not asked
}

type prim3 interface {
	model3d.Solid
	model3d.Collider
	model3d.PointSDF
	model3d.NormalSDF
}

type prim2 interface {
	model2d.Solid
	model2d.Collider
	model2d.PointSDF
	model2d.NormalSDF
}

func adapt3(site, variant string, o prim3) *primShape {
	s := &primShape{site: site, variant: variant, dim: 3, shape: "none"}
	s.bounds = func() (pvec, pvec) { return c3v(o.Min()), c3v(o.Max()) }
	s.contains = func(p pvec) bool { return o.Contains(v3c(p)) }
	s.sdf = func(p pvec) float64 { return o.SDF(v3c(p)) }
	s.pointSDF = func(p pvec) (pvec, float64) { c, d := o.PointSDF(v3c(p)); return c3v(c), d }
	s.normalSDF = func(p pvec) (pvec, float64) { c, d := o.NormalSDF(v3c(p)); return c3v(c), d }
	s.rays = func(or, d pvec, cb bool) (int, []primHit) {
		r := &model3d.Ray{Origin: v3c(or), Direction: v3c(d)}
		if !cb {
			return o.RayCollisions(r, nil), nil
		}
		hs := []primHit{}
		n := o.RayCollisions(r, func(rc model3d.RayCollision) { hs = append(hs, primHit{rc.Scale, c3v(rc.Normal)}) })
		return n, hs
	}
	s.first = func(or, d pvec) (primHit, bool) {
		rc, ok := o.FirstRayCollision(&model3d.Ray{Origin: v3c(or), Direction: v3c(d)})
		return primHit{rc.Scale, c3v(rc.Normal)}, ok
	}
	s.ball = func(c pvec, r float64) bool { return o.SphereCollision(v3c(c), r) }
	return s
}

func adapt2(site, variant string, o prim2) *primShape {
	s := &primShape{site: site, variant: variant, dim: 2, shape: "none"}
	s.bounds = func() (pvec, pvec) { return c2v(o.Min()), c2v(o.Max()) }
	s.contains = func(p pvec) bool { return o.Contains(v2c(p)) }
	s.sdf = func(p pvec) float64 { return o.SDF(v2c(p)) }
	s.pointSDF = func(p pvec) (pvec, float64) { c, d := o.PointSDF(v2c(p)); return c2v(c), d }
	s.normalSDF = func(p pvec) (pvec, float64) { c, d := o.NormalSDF(v2c(p)); return c2v(c), d }
	s.rays = func(or, d pvec, cb bool) (int, []primHit) {
		r := &model2d.Ray{Origin: v2c(or), Direction: v2c(d)}
		if !cb {
			return o.RayCollisions(r, nil), nil
		}
		hs := []primHit{}
		n := o.RayCollisions(r, func(rc model2d.RayCollision) { hs = append(hs, primHit{rc.Scale, c2v(rc.Normal)}) })
		return n, hs
	}
	s.first = func(or, d pvec) (primHit, bool) {
		rc, ok := o.FirstRayCollision(&model2d.Ray{Origin: v2c(or), Direction: v2c(d)})
		return primHit{rc.Scale, c2v(rc.Normal)}, ok
	}
	s.ball = func(c pvec, r float64) bool { return o.CircleCollision(v2c(c), r) }
	return s
}

// miniature replaces the object behind a shape by the same object built in a unit of 2^-20 (exact): queries are
// scaled down on the way in and distances and points scaled back on the way out, so that everything else about the
// shape (exact predicate, special points, creases) stays as it is.  A shape does not depend on the unit it is
// written in.
func miniature(s *primShape, twin *primShape) {
	const k = 1.0 / (1 << 20)
	dn := func(p pvec) pvec { return pvScale(p, k) }
	up := func(p pvec) pvec { return pvScale(p, 1/k) }
	s.variant += " unit=2^-20"
	s.bounds = func() (pvec, pvec) { a, b := twin.bounds(); return up(a), up(b) }
	s.contains = func(p pvec) bool { return twin.contains(dn(p)) }
	s.sdf = func(p pvec) float64 { return twin.sdf(dn(p)) / k }
	s.pointSDF = func(p pvec) (pvec, float64) { c, d := twin.pointSDF(dn(p)); return up(c), d / k }
	s.normalSDF = func(p pvec) (pvec, float64) { n, d := twin.normalSDF(dn(p)); return n, d / k }
	s.rays = func(o, d pvec, cb bool) (int, []primHit) { return twin.rays(dn(o), dn(d), cb) }
	s.first = func(o, d pvec) (primHit, bool) { return twin.first(dn(o), dn(d)) }
	s.ball = func(c pvec, r float64) bool { return twin.ball(dn(c), r*k) }
}

func solidOnly3(site, variant string, o model3d.Solid) *primShape {
	s := &primShape{site: site, variant: variant, dim: 3, shape: "none"}
	s.bounds = func() (pvec, pvec) { return c3v(o.Min()), c3v(o.Max()) }
	s.contains = func(p pvec) bool { return o.Contains(v3c(p)) }
	return s
}

func solidOnly2(site, variant string, o model2d.Solid) *primShape {
	s := &primShape{site: site, variant: variant, dim: 2, shape: "none"}
	s.bounds = func() (pvec, pvec) { return c2v(o.Min()), c2v(o.Max()) }
	s.contains = func(p pvec) bool { return o.Contains(v2c(p)) }
	return s
}

// lazily constructed solids (the constructor itself is real code that may panic)
func lazySolid3(site, variant string, mk func() model3d.Solid) *primShape {
	var o model3d.Solid
	get := func() model3d.Solid {
		if o == nil {
			o = mk()
		}
		return o
	}
	s := &primShape{site: site, variant: variant, dim: 3, shape: "none"}
	s.bounds = func() (pvec, pvec) { return c3v(get().Min()), c3v(get().Max()) }
	s.contains = func(p pvec) bool { return get().Contains(v3c(p)) }
	return s
}

func lazySolid2(site, variant string, mk func() model2d.Solid) *primShape {
	var o model2d.Solid
	get := func() model2d.Solid {
		if o == nil {
			o = mk()
		}
		return o
	}
	s := &primShape{site: site, variant: variant, dim: 2, shape: "none"}
	s.bounds = func() (pvec, pvec) { return c2v(get().Min()), c2v(get().Max()) }
	s.contains = func(p pvec) bool { return get().Contains(v2c(p)) }
	return s
}

// ---------------------------------------------------------------------------- integer geometry helpers

func randAxis(rng *rand.Rand, dim int) [3]int {
	for {
		a := [3]int{ri(rng, -3, 3), ri(rng, -3, 3), ri(rng, -3, 3)}
		if dim == 2 {
			a[2] = 0
		}
		if a != [3]int{} {
			return a
		}
	}
}

func isqrtExact(n int) (int, bool) {
	if n < 0 {
		return 0, false
	}
	r := int(math.Round(math.Sqrt(float64(n))))
	return r, r*r == n
}

// integer vectors perpendicular to a whose length is an integer
type intPerp struct {
	u [3]int
	s int
}

func intPerps(a [3]int, dim int) []intPerp {
	out := []intPerp{}
	for x := -4; x <= 4; x++ {
		for y := -4; y <= 4; y++ {
			for z := -4; z <= 4; z++ {
				u := [3]int{x, y, z}
				if dim == 2 && z != 0 {
					continue
				}
				if u == [3]int{} || i3dot(u, a) != 0 {
					continue
				}
				if s, ok := isqrtExact(i3dot(u, u)); ok {
					out = append(out, intPerp{u, s})
				}
			}
		}
	}
	return out
}

// c4 + u*(m4/s) in quarter units if representable
func alongQ(c4 [3]int, u [3]int, m4, s int) ([3]int, bool) {
	var out [3]int
	for i := range out {
		if (u[i]*m4)%s != 0 {
			return out, false
		}
		out[i] = c4[i] + u[i]*m4/s
	}
	return out, true
}

var pythBase = [][3]int{{3, 4, 0}, {6, 8, 0}, {2, 3, 6}, {1, 4, 8}}

// Pythagorean offsets (all with integer length), in seeded orientation
func pythOffsets(rng *rand.Rand, dim int) [][3]int {
	out := [][3]int{}
	for _, b := range pythBase {
		if dim == 2 && b[2] != 0 {
			continue
		}
		for _, k := range []int{1, 4} {
			v := i3scale(b, k)
			if dim == 3 {
				p := rng.Perm(3)
				v = [3]int{v[p[0]], v[p[1]], v[p[2]]}
			} else if rng.Intn(2) == 0 {
				v = [3]int{v[1], v[0], 0}
			}
			for i := range v {
				if rng.Intn(2) == 0 {
					v[i] = -v[i]
				}
			}
			out = append(out, v)
		}
	}
	return out
}

// ---------------------------------------------------------------------------- generators: full primitives

func genSphere(rng *rand.Rand) *primShape {
	c := [3]int{ri(rng, -2, 2), ri(rng, -2, 2), ri(rng, -2, 2)}
	r := ri(rng, 1, 5)
	s := adapt3("model3d.Sphere", fmt.Sprintf("c=%v r=%d", c, r), &model3d.Sphere{Center: v3c(i3f(c)), Radius: float64(r)})
	s.smooth = true
	c4 := i3scale(c, 4)
	s.shape, s.data = "sphere", []int{c4[0], c4[1], c4[2], 4 * r}
	s.special = append(s.special, primSpecial{c4, "centre"})
	for a := 0; a < 3; a++ {
		for _, sg := range []int{-1, 1} {
			q := c4
			q[a] += sg * 4 * r
			s.special = append(s.special, primSpecial{q, "surface"})
		}
	}
	for _, o := range pythOffsets(rng, 3) {
		s.special = append(s.special, primSpecial{i3add(c4, o), "pyth"})
	}
	return s
}

func genCircle(rng *rand.Rand) *primShape {
	c := [3]int{ri(rng, -2, 2), ri(rng, -2, 2), 0}
	r := ri(rng, 1, 5)
	s := adapt2("model2d.Circle", fmt.Sprintf("c=%v r=%d", c[:2], r), &model2d.Circle{Center: v2c(i3f(c)), Radius: float64(r)})
	s.smooth = true
	c4 := i3scale(c, 4)
	s.shape, s.data = "sphere", []int{c4[0], c4[1], 0, 4 * r}
	s.special = append(s.special, primSpecial{c4, "centre"})
	for a := 0; a < 2; a++ {
		for _, sg := range []int{-1, 1} {
			q := c4
			q[a] += sg * 4 * r
			s.special = append(s.special, primSpecial{q, "surface"})
		}
	}
	for _, o := range pythOffsets(rng, 2) {
		s.special = append(s.special, primSpecial{i3add(c4, o), "pyth"})
	}
	return s
}

func boxSpecials(s *primShape, lo4, hi4 [3]int, dim int, rng *rand.Rand) {
	// every combination of {lo, mid, hi} per axis: corners, edge / face centres, the centre
	var rec func(a int, q [3]int)
	rec = func(a int, q [3]int) {
		if a == dim {
			tag := "surface"
			inner := true
			for i := 0; i < dim; i++ {
				if q[i] == lo4[i] || q[i] == hi4[i] {
					inner = false
				}
			}
			if inner {
				tag = "centre"
			}
			s.special = append(s.special, primSpecial{q, tag})
			return
		}
		for _, v := range []int{lo4[a], (lo4[a] + hi4[a]) / 2, hi4[a]} {
			q[a] = v
			rec(a+1, q)
		}
	}
	rec(0, [3]int{})
	// Pythagorean offsets away from a corner (exact corner distance)
	for _, o := range pythOffsets(rng, dim) {
		q := [3]int{}
		for i := 0; i < dim; i++ {
			if o[i] < 0 {
				q[i] = lo4[i] + o[i]
			} else {
				q[i] = hi4[i] + o[i]
			}
		}
		s.special = append(s.special, primSpecial{q, "pyth"})
	}
}

func genRect3(rng *rand.Rand) *primShape {
	lo := [3]int{ri(rng, -3, 1), ri(rng, -3, 1), ri(rng, -3, 1)}
	hi := [3]int{lo[0] + ri(rng, 1, 4), lo[1] + ri(rng, 1, 4), lo[2] + ri(rng, 1, 4)}
	s := adapt3("model3d.Rect", fmt.Sprintf("lo=%v hi=%v", lo, hi), model3d.NewRect(v3c(i3f(lo)), v3c(i3f(hi))))
	lo4, hi4 := i3scale(lo, 4), i3scale(hi, 4)
	s.shape, s.data = "box", []int{lo4[0], lo4[1], lo4[2], hi4[0], hi4[1], hi4[2]}
	s.boxEdges = true
	boxSpecials(s, lo4, hi4, 3, rng)
	return s
}

func genRect2(rng *rand.Rand) *primShape {
	lo := [3]int{ri(rng, -3, 1), ri(rng, -3, 1), 0}
	hi := [3]int{lo[0] + ri(rng, 1, 4), lo[1] + ri(rng, 1, 4), 0}
	s := adapt2("model2d.Rect", fmt.Sprintf("lo=%v hi=%v", lo[:2], hi[:2]), model2d.NewRect(v2c(i3f(lo)), v2c(i3f(hi))))
	lo4, hi4 := i3scale(lo, 4), i3scale(hi, 4)
	s.shape, s.data = "box", []int{lo4[0], lo4[1], 0, hi4[0], hi4[1], 0}
	for _, x := range []int{lo[0], hi[0]} {
		for _, y := range []int{lo[1], hi[1]} {
			s.points = append(s.points, pvec{float64(x), float64(y), 0})
		}
	}
	boxSpecials(s, lo4, hi4, 2, rng)
	return s
}

// axis and radius with seeded variety, including extreme aspect ratios
func axisRadius(rng *rand.Rand, dim int) (a [3]int, r int) {
	a = randAxis(rng, dim)
	switch rng.Intn(6) {
	case 0: // flat disc
		r = ri(rng, 5, 6)
	case 1: // long and thin
		a = i3scale(a, 4)
		r = 1
	case 2:
		a = i3scale(a, 2)
		r = ri(rng, 1, 3)
	default:
		r = ri(rng, 1, 3)
	}
	return
}

func axisSpecials(s *primShape, p14 [3]int, a [3]int, r4 int, dim int, rimAt []int, rimScale []int) {
	p24 := i3add(p14, i3scale(a, 4))
	mid4 := i3add(p14, i3scale(a, 2))
	s.special = append(s.special, primSpecial{p14, "axis"}, primSpecial{p24, "axis"}, primSpecial{mid4, "centre"},
		primSpecial{i3add(p14, i3scale(a, -4)), "axis"}, primSpecial{i3add(p24, i3scale(a, 4)), "axis"},
		primSpecial{i3add(p14, a), "axis"})
	perps := intPerps(a, dim)
	for k, pp := range perps {
		if k >= 6 {
			break
		}
		for j, base := range [][3]int{p14, mid4, p24} {
			for _, m4 := range []int{r4, 2 * r4} {
				use := false
				for i := range rimAt {
					if rimAt[i] == j && rimScale[i]*r4 == m4 {
						use = true
					}
				}
				if !use {
					continue
				}
				if q, ok := alongQ(base, pp.u, m4, pp.s); ok {
					tag := "surface"
					if m4 != r4 {
						tag = "lattice"
					}
					s.special = append(s.special, primSpecial{q, tag})
				}
			}
		}
	}
}

func genCylinder(rng *rand.Rand) *primShape {
	p1 := [3]int{ri(rng, -2, 2), ri(rng, -2, 2), ri(rng, -2, 2)}
	a, r := axisRadius(rng, 3)
	p2 := i3add(p1, a)
	s := adapt3("model3d.Cylinder", fmt.Sprintf("p1=%v p2=%v r=%d", p1, p2, r),
		&model3d.Cylinder{P1: v3c(i3f(p1)), P2: v3c(i3f(p2)), Radius: float64(r)})
	p14 := i3scale(p1, 4)
	s.shape, s.data = "cyl", []int{p14[0], p14[1], p14[2], a[0], a[1], a[2], 4 * r}
	ax := pvScale(i3f(a), 1/pvNorm(i3f(a)))
	s.circles = []primCircle{{i3f(p1), ax, float64(r)}, {i3f(p2), ax, float64(r)}}
	axisSpecials(s, p14, a, 4*r, 3, []int{0, 1, 2, 0, 1, 2}, []int{1, 1, 1, 2, 2, 2})
	if rng.Intn(3) == 0 {
		const k = 1.0 / (1 << 20)
		miniature(s, adapt3("", "", &model3d.Cylinder{P1: v3c(pvScale(i3f(p1), k)), P2: v3c(pvScale(i3f(p2), k)), Radius: float64(r) * k}))
	}
	return s
}

// genTilted: a flat cylinder / cone / torus whose axis is a coordinate axis tilted by 1e-9 .. 1e-3 rad:
// the rim reaches radius * sin(tilt) beyond the plane of the disc.  Only bounds and leaks are judged (shape "none").
func genTilted(rng *rand.Rand, kind int) *primShape {
	k := rng.Intn(3)
	j := (k + 1 + rng.Intn(2)) % 3
	tilt := []float64{1e-9, 1e-8, 1e-7, 1e-6, 1e-5, 1e-4, 1e-3}[rng.Intn(7)]
	if rng.Intn(2) == 0 {
		tilt = -tilt
	}
	radius := []float64{1, 2, 3}[rng.Intn(3)]
	var axis pvec
	axis[k], axis[j] = math.Cos(tilt), math.Sin(tilt)
	// the unit vector across the axis that climbs most steeply along coordinate k
	var u pvec
	u[k], u[j] = math.Abs(math.Sin(tilt)), -math.Cos(tilt)*math.Copysign(1, tilt)
	centre := pvec{float64(ri(rng, -2, 2)), float64(ri(rng, -2, 2)), float64(ri(rng, -2, 2))}
	var s *primShape
	h := 0.5
	switch kind % 3 {
	case 0:
		s = solidOnly3("model3d.Cylinder", fmt.Sprintf("tilted %g rad, radius %g", tilt, radius),
			&model3d.Cylinder{P1: v3c(centre), P2: v3c(pvAdd(centre, pvScale(axis, h))), Radius: radius})
		s.mustProbe = []pvec{pvAdd(pvAdd(centre, pvScale(axis, h*(1-1e-9))), pvScale(u, radius*(1-1e-9))),
			pvAdd(pvAdd(centre, pvScale(axis, h*1e-9)), pvScale(u, -radius*(1-1e-9)))}
	case 1:
		s = solidOnly3("model3d.Cone", fmt.Sprintf("tilted %g rad, radius %g", tilt, radius),
			&model3d.Cone{Base: v3c(centre), Tip: v3c(pvAdd(centre, pvScale(axis, h))), Radius: radius})
		s.mustProbe = []pvec{pvAdd(pvAdd(centre, pvScale(axis, h*1e-9)), pvScale(u, radius*(1-1e-8))),
			pvAdd(pvAdd(centre, pvScale(axis, h*1e-9)), pvScale(u, -radius*(1-1e-8)))}
	default:
		inner := radius / 100
		s = solidOnly3("model3d.Torus", fmt.Sprintf("tilted %g rad, radius %g", tilt, radius),
			&model3d.Torus{Center: v3c(centre), Axis: v3c(axis), OuterRadius: radius, InnerRadius: inner})
		s.mustProbe = []pvec{pvAdd(pvAdd(centre, pvScale(u, radius)), pvScale(axis, inner*(1-1e-9))),
			pvAdd(pvAdd(centre, pvScale(u, -radius)), pvScale(axis, -inner*(1-1e-9)))}
	}
	return s
}

func genCapsule3(rng *rand.Rand) *primShape {
	p1 := [3]int{ri(rng, -2, 2), ri(rng, -2, 2), ri(rng, -2, 2)}
	a, r := axisRadius(rng, 3)
	p2 := i3add(p1, a)
	s := adapt3("model3d.Capsule", fmt.Sprintf("p1=%v p2=%v r=%d", p1, p2, r),
		&model3d.Capsule{P1: v3c(i3f(p1)), P2: v3c(i3f(p2)), Radius: float64(r)})
	s.smooth = true
	p14 := i3scale(p1, 4)
	s.shape, s.data = "capsule", []int{p14[0], p14[1], p14[2], a[0], a[1], a[2], 4 * r}
	axisSpecials(s, p14, a, 4*r, 3, []int{0, 1, 2, 1}, []int{1, 1, 1, 2})
	if l, ok := isqrtExact(i3dot(a, a)); ok { // the two poles
		if q, ok := alongQ(p14, a, -4*r, l); ok {
			s.special = append(s.special, primSpecial{q, "surface"})
		}
	}
	if rng.Intn(3) == 0 {
		const k = 1.0 / (1 << 20)
		miniature(s, adapt3("", "", &model3d.Capsule{P1: v3c(pvScale(i3f(p1), k)), P2: v3c(pvScale(i3f(p2), k)), Radius: float64(r) * k}))
	}
	return s
}

func genCapsule2(rng *rand.Rand) *primShape {
	p1 := [3]int{ri(rng, -2, 2), ri(rng, -2, 2), 0}
	a, r := axisRadius(rng, 2)
	p2 := i3add(p1, a)
	s := adapt2("model2d.Capsule", fmt.Sprintf("p1=%v p2=%v r=%d", p1[:2], p2[:2], r),
		&model2d.Capsule{P1: v2c(i3f(p1)), P2: v2c(i3f(p2)), Radius: float64(r)})
	s.smooth = true
	p14 := i3scale(p1, 4)
	s.shape, s.data = "capsule", []int{p14[0], p14[1], 0, a[0], a[1], 0, 4 * r}
	axisSpecials(s, p14, a, 4*r, 2, []int{0, 1, 2, 1}, []int{1, 1, 1, 2})
	return s
}

func genCone(rng *rand.Rand) *primShape {
	base := [3]int{ri(rng, -2, 2), ri(rng, -2, 2), ri(rng, -2, 2)}
	a, r := axisRadius(rng, 3)
	tip := i3add(base, a)
	s := adapt3("model3d.Cone", fmt.Sprintf("base=%v tip=%v r=%d", base, tip, r),
		&model3d.Cone{Tip: v3c(i3f(tip)), Base: v3c(i3f(base)), Radius: float64(r)})
	b4 := i3scale(base, 4)
	if i3dot(a, a) <= 27 && r <= 4 { // keeps the exact predicate inside 32-bit integers
		s.shape, s.data = "cone", []int{b4[0], b4[1], b4[2], a[0], a[1], a[2], 4 * r}
	}
	ax := pvScale(i3f(a), 1/pvNorm(i3f(a)))
	s.circles = []primCircle{{i3f(base), ax, float64(r)}}
	s.points = []pvec{i3f(tip)}
	s.coneAxis, s.coneSlope = &ax, float64(r)/pvNorm(i3f(a))
	axisSpecials(s, b4, a, 4*r, 3, []int{0, 0}, []int{1, 2})
	s.special = append(s.special, primSpecial{i3scale(tip, 4), "apex"})
	if rng.Intn(3) == 0 {
		const k = 1.0 / (1 << 20)
		miniature(s, adapt3("", "", &model3d.Cone{Tip: v3c(pvScale(i3f(tip), k)), Base: v3c(pvScale(i3f(base), k)), Radius: float64(r) * k}))
	}
	return s
}

func genTorus(rng *rand.Rand) *primShape {
	c := [3]int{ri(rng, -2, 2), ri(rng, -2, 2), ri(rng, -2, 2)}
	a := randAxis(rng, 3)
	R := ri(rng, 2, 5)
	r := ri(rng, 1, R-1)
	s := adapt3("model3d.Torus", fmt.Sprintf("c=%v axis=%v R=%d r=%d", c, a, R, r),
		&model3d.Torus{Center: v3c(i3f(c)), Axis: v3c(i3f(a)), OuterRadius: float64(R), InnerRadius: float64(r)})
	s.smooth = true
	c4 := i3scale(c, 4)
	s.special = append(s.special, primSpecial{c4, "centre"}, primSpecial{i3add(c4, i3scale(a, 4)), "axis"},
		primSpecial{i3add(c4, i3scale(a, -2)), "axis"})
	l, lok := isqrtExact(i3dot(a, a))
	for k, pp := range intPerps(a, 3) {
		if k >= 8 {
			break
		}
		ring, ok := alongQ(c4, pp.u, 4*R, pp.s)
		if !ok {
			continue
		}
		s.special = append(s.special, primSpecial{ring, "ring"})
		if q, ok := alongQ(c4, pp.u, 4*(R+r), pp.s); ok {
			s.special = append(s.special, primSpecial{q, "surface"})
		}
		if q, ok := alongQ(c4, pp.u, 4*(R-r), pp.s); ok {
			s.special = append(s.special, primSpecial{q, "surface"})
		}
		if lok {
			if q, ok := alongQ(ring, a, 4*r, l); ok {
				s.special = append(s.special, primSpecial{q, "surface"})
			}
		}
	}
	if rng.Intn(3) == 0 {
		const k = 1.0 / (1 << 20)
		miniature(s, adapt3("", "", &model3d.Torus{Center: v3c(pvScale(i3f(c), k)), Axis: v3c(i3f(a)), OuterRadius: float64(R) * k, InnerRadius: float64(r) * k}))
	}
	return s
}

func genTriangle(rng *rand.Rand, ccw bool) *primShape {
	var p [3][3]int
	var area2 int
	for {
		for i := range p {
			p[i] = [3]int{ri(rng, -4, 4), ri(rng, -4, 4), 0}
		}
		area2 = (p[1][0]-p[0][0])*(p[2][1]-p[0][1]) - (p[1][1]-p[0][1])*(p[2][0]-p[0][0])
		if area2 != 0 {
			break
		}
	}
	if (area2 > 0) != ccw {
		p[1], p[2] = p[2], p[1]
	}
	orient := "clockwise"
	if ccw {
		orient = "counter-clockwise"
	}
	s := adapt2("model2d.Triangle", fmt.Sprintf("%v %v %v %s", p[0][:2], p[1][:2], p[2][:2], orient),
		model2d.NewTriangle(v2c(i3f(p[0])), v2c(i3f(p[1])), v2c(i3f(p[2]))))
	s.shape = "tri2"
	for i := range p {
		s.data = append(s.data, 4*p[i][0], 4*p[i][1])
		s.points = append(s.points, i3f(p[i]))
		s.special = append(s.special, primSpecial{i3scale(p[i], 4), "apex"},
			primSpecial{i3add(i3scale(p[i], 2), i3scale(p[(i+1)%3], 2)), "surface"},
			// beyond the vertex, along the median
			primSpecial{i3add(i3scale(p[i], 8), i3add(i3scale(p[(i+1)%3], -2), i3scale(p[(i+2)%3], -2))), "lattice"})
	}
	return s
}

func genFull(rng *rand.Rand, n int) []*primShape {
	out := []*primShape{}
	for i := 0; i < n; i++ {
		out = append(out, genSphere(rng), genRect3(rng), genCylinder(rng), genCapsule3(rng), genCone(rng), genTorus(rng),
			genCircle(rng), genRect2(rng), genCapsule2(rng), genTriangle(rng, i%2 == 0))
	}
	return out
}

// genSolidCollider: the solid-sampling collider around a primitive whose true surface is known
func genSolidCollider(rng *rand.Rand, kind int) *primShape {
	var base *primShape
	var solid model3d.Solid
	switch kind % 3 {
	case 0:
		lo := [3]int{ri(rng, -3, 1), ri(rng, -3, 1), ri(rng, -3, 1)}
		hi := [3]int{lo[0] + ri(rng, 1, 4), lo[1] + ri(rng, 1, 4), lo[2] + ri(rng, 1, 4)}
		r := model3d.NewRect(v3c(i3f(lo)), v3c(i3f(hi)))
		base, solid = adapt3("", "", r), r
		base.variant = fmt.Sprintf("Rect lo=%v hi=%v", lo, hi)
		lo4, hi4 := i3scale(lo, 4), i3scale(hi, 4)
		boxSpecials(base, lo4, hi4, 3, rng)
		// rays through an edge or inside a face plane are not in general position
		base.boxEdges, base.data = true, []int{lo4[0], lo4[1], lo4[2], hi4[0], hi4[1], hi4[2]}
	case 1:
		c := [3]int{ri(rng, -2, 2), ri(rng, -2, 2), ri(rng, -2, 2)}
		r := ri(rng, 1, 3)
		sp := &model3d.Sphere{Center: v3c(i3f(c)), Radius: float64(r)}
		base, solid = adapt3("", "", sp), sp
		base.variant = fmt.Sprintf("Sphere c=%v r=%d", c, r)
		base.special = append(base.special, primSpecial{i3scale(c, 4), "centre"})
	default:
		p1 := [3]int{ri(rng, -2, 2), ri(rng, -2, 2), ri(rng, -2, 0)}
		h, r := ri(rng, 1, 3), ri(rng, 1, 2)
		cy := &model3d.Cylinder{P1: v3c(i3f(p1)), P2: v3c(i3f([3]int{p1[0], p1[1], p1[2] + h})), Radius: float64(r)}
		base, solid = adapt3("", "", cy), cy
		base.variant = fmt.Sprintf("Cylinder p1=%v h=%d r=%d", p1, h, r)
		base.special = append(base.special, primSpecial{i3scale(p1, 4), "centre"})
		base.circles = []primCircle{{i3f(p1), pvec{0, 0, 1}, float64(r)}, {i3f([3]int{p1[0], p1[1], p1[2] + h}), pvec{0, 0, 1}, float64(r)}}
	}
	eps := []float64{1.0 / 64, 1.0 / 16, 3.0 / 128}[kind/3%3]
	sc := &model3d.SolidCollider{Solid: solid, Epsilon: eps}
	if kind%2 == 1 {
		sc.NormalBisectEpsilon = eps / 8
	}
	s := base
	s.site = "model3d.SolidCollider"
	s.variant += fmt.Sprintf(" eps=%g", eps)
	s.shape = "none"
	s.approx = eps
	s.bounds = func() (pvec, pvec) { return c3v(sc.Min()), c3v(sc.Max()) }
	s.rays = func(or, d pvec, cb bool) (int, []primHit) {
		r := &model3d.Ray{Origin: v3c(or), Direction: v3c(d)}
		if !cb {
			return sc.RayCollisions(r, nil), nil
		}
		hs := []primHit{}
		n := sc.RayCollisions(r, func(rc model3d.RayCollision) { hs = append(hs, primHit{rc.Scale, c3v(rc.Normal)}) })
		return n, hs
	}
	s.first = func(or, d pvec) (primHit, bool) {
		rc, ok := sc.FirstRayCollision(&model3d.Ray{Origin: v3c(or), Direction: v3c(d)})
		return primHit{rc.Scale, c3v(rc.Normal)}, ok
	}
	s.ball = nil
	return s
}

// closest point of triangle abc to p by Voronoi-region classification (Ericson, Real-Time Collision
// Detection 5.1.5) - deliberately not the projection-and-clamp scheme of the library
func bruteTriDist(p, a, b, c pvec) float64 {
	ab, ac, ap := pvSub(b, a), pvSub(c, a), pvSub(p, a)
	d1, d2 := pvDot(ab, ap), pvDot(ac, ap)
	if d1 <= 0 && d2 <= 0 {
		return pvNorm(ap)
	}
	bp := pvSub(p, b)
	d3, d4 := pvDot(ab, bp), pvDot(ac, bp)
	if d3 >= 0 && d4 <= d3 {
		return pvNorm(bp)
	}
	vc := d1*d4 - d3*d2
	if vc <= 0 && d1 >= 0 && d3 <= 0 {
		return pvNorm(pvSub(p, pvAdd(a, pvScale(ab, d1/(d1-d3)))))
	}
	cp := pvSub(p, c)
	d5, d6 := pvDot(ab, cp), pvDot(ac, cp)
	if d6 >= 0 && d5 <= d6 {
		return pvNorm(cp)
	}
	vb := d5*d2 - d1*d6
	if vb <= 0 && d2 >= 0 && d6 <= 0 {
		return pvNorm(pvSub(p, pvAdd(a, pvScale(ac, d2/(d2-d6)))))
	}
	va := d3*d6 - d5*d4
	if va <= 0 && (d4-d3) >= 0 && (d5-d6) >= 0 {
		w := (d4 - d3) / ((d4 - d3) + (d5 - d6))
		return pvNorm(pvSub(p, pvAdd(b, pvScale(pvSub(c, b), w))))
	}
	den := 1 / (va + vb + vc)
	q := pvAdd(a, pvAdd(pvScale(ab, vb*den), pvScale(ac, vc*den)))
	return pvNorm(pvSub(p, q))
}

// genTriangleDist: a single 3-D triangle as an (unsigned) distance field: Dist and Closest against a brute-force
// distance; every third one has zero area (collinear or repeated corners), where the distance is that to its sides
func genTriangleDist(rng *rand.Rand, kind int) *primShape {
	v := func() [3]int { return [3]int{ri(rng, -3, 3), ri(rng, -3, 3), ri(rng, -3, 3)} }
	a, b, c := v(), v(), v()
	name := "generic"
	switch kind % 4 {
	case 1:
		d := [3]int{ri(rng, -1, 1), ri(rng, -1, 1), ri(rng, -1, 1)}
		if d == [3]int{} {
			d = [3]int{1, 0, -1}
		}
		b, c = i3add(a, d), i3add(a, i3scale(d, 3))
		name = "collinear"
	case 3:
		c = b
		name = "repeated corner"
	}
	if a == b || a == c {
		a = i3add(a, [3]int{1, 2, 0})
	}
	t := &model3d.Triangle{v3c(i3f(a)), v3c(i3f(b)), v3c(i3f(c))}
	s := &primShape{site: "model3d.Triangle", variant: fmt.Sprintf("%s %v %v %v", name, a, b, c), dim: 3, shape: "none", hasNoNormal: true}
	s.bounds = func() (pvec, pvec) { return c3v(t.Min()), c3v(t.Max()) }
	s.contains = func(pvec) bool { return false }
	s.sdf = func(p pvec) float64 { return -t.Dist(v3c(p)) }
	s.pointSDF = func(p pvec) (pvec, float64) { q := t.Closest(v3c(p)); return c3v(q), -q.Dist(v3c(p)) }
	segDist := func(p, u, w pvec) float64 {
		d := pvSub(w, u)
		l2 := pvDot(d, d)
		if l2 == 0 {
			return pvNorm(pvSub(p, u))
		}
		f := math.Max(0, math.Min(1, pvDot(pvSub(p, u), d)/l2))
		return pvNorm(pvSub(p, pvAdd(u, pvScale(d, f))))
	}
	A, B, C := i3f(a), i3f(b), i3f(c)
	degenerate := kind%4 == 1 || kind%4 == 3
	s.oracleDist = func(p pvec) float64 {
		if degenerate {
			return math.Min(segDist(p, A, B), math.Min(segDist(p, B, C), segDist(p, A, C)))
		}
		return bruteTriDist(p, A, B, C)
	}
	return s
}

// genMeshSDF: MeshToSDF over closed integer-coordinate meshes that are NOT voxel worlds (obtuse and acute
// corners, slanted faces); the distance is compared with a brute-force minimum over the faces
func genMeshSDF(rng *rand.Rand, kind int) *primShape {
	var vs [][3]int
	var faces [][3]int
	name := ""
	switch kind % 3 {
	case 0:
		// a tetrahedron with obtuse face angles at vertex 0 on both faces around the ridge 0-1
		vs = [][3]int{{0, 0, 0}, {1, 0, 0}, {-2, 1, -1}, {-2, -1, -1}}
		name = "obtuse tetrahedron"
	case 1:
		for len(vs) < 4 {
			vs = [][3]int{{ri(rng, -3, 3), ri(rng, -3, 3), ri(rng, -3, 3)}, {ri(rng, -3, 3), ri(rng, -3, 3), ri(rng, -3, 3)},
				{ri(rng, -3, 3), ri(rng, -3, 3), ri(rng, -3, 3)}, {ri(rng, -3, 3), ri(rng, -3, 3), ri(rng, -3, 3)}}
			a, b, c := i3add(vs[1], i3scale(vs[0], -1)), i3add(vs[2], i3scale(vs[0], -1)), i3add(vs[3], i3scale(vs[0], -1))
			det := a[0]*(b[1]*c[2]-b[2]*c[1]) - a[1]*(b[0]*c[2]-b[2]*c[0]) + a[2]*(b[0]*c[1]-b[1]*c[0])
			if det == 0 {
				vs = nil
			}
		}
		name = fmt.Sprintf("tetrahedron %v", vs)
	default:
		// a stretched octahedron
		sx, sy, sz := ri(rng, 1, 3), ri(rng, 1, 3), ri(rng, 1, 3)
		vs = [][3]int{{sx, 0, 0}, {-sx, 0, 0}, {0, sy, 0}, {0, -sy, 0}, {0, 0, sz}, {0, 0, -sz}}
		faces = [][3]int{{0, 2, 4}, {2, 1, 4}, {1, 3, 4}, {3, 0, 4}, {2, 0, 5}, {1, 2, 5}, {3, 1, 5}, {0, 3, 5}}
		name = fmt.Sprintf("octahedron %d %d %d", sx, sy, sz)
	}
	if faces == nil {
		faces = [][3]int{{0, 1, 2}, {0, 3, 1}, {0, 2, 3}, {1, 3, 2}}
	}
	signed := 0 // (Mesh.Volume is unsigned)
	for _, f := range faces {
		a, b, c := vs[f[0]], vs[f[1]], vs[f[2]]
		signed += a[0]*(b[1]*c[2]-b[2]*c[1]) - a[1]*(b[0]*c[2]-b[2]*c[0]) + a[2]*(b[0]*c[1]-b[1]*c[0])
	}
	// outward orientation, and every face listed from each of its three vertices in turn (which vertex
	// comes first must not matter)
	rot := kind / 3 % 3
	name += fmt.Sprintf(" faces rotated by %d", rot)
	mesh := model3d.NewMesh()
	for _, f := range faces {
		if signed < 0 {
			f[1], f[2] = f[2], f[1]
		}
		mesh.Add(&model3d.Triangle{v3c(i3f(vs[f[rot]])), v3c(i3f(vs[f[(rot+1)%3]])), v3c(i3f(vs[f[(rot+2)%3]]))})
	}
	tris := mesh.TriangleSlice()
	sdf := model3d.MeshToSDF(mesh)
	solid := model3d.NewColliderSolid(model3d.MeshToCollider(mesh))
	s := &primShape{site: "model3d.MeshToSDF", variant: name, dim: 3, shape: "none"}
	s.bounds = func() (pvec, pvec) { return c3v(sdf.Min()), c3v(sdf.Max()) }
	s.contains = func(p pvec) bool { return solid.Contains(v3c(p)) }
	s.sdf = func(p pvec) float64 { return sdf.SDF(v3c(p)) }
	s.pointSDF = func(p pvec) (pvec, float64) { c, d := sdf.PointSDF(v3c(p)); return c3v(c), d }
	s.normalSDF = func(p pvec) (pvec, float64) { c, d := sdf.NormalSDF(v3c(p)); return c3v(c), d }
	s.oracleDist = func(p pvec) float64 {
		best := math.Inf(1)
		for _, t := range tris {
			if d := bruteTriDist(p, c3v(t[0]), c3v(t[1]), c3v(t[2])); d < best {
				best = d
			}
		}
		return best
	}
	// a mesh field reports the normal of a nearest face: n must be the normal of a face that contains p
	s.normalAt = func(p, n pvec) bool {
		for _, t := range tris {
			if bruteTriDist(p, c3v(t[0]), c3v(t[1]), c3v(t[2])) <= 1e-9 && pvNorm(pvSub(c3v(t.Normal()), n)) <= 1e-9 {
				return true
			}
		}
		return false
	}
	for _, v := range vs {
		s.special = append(s.special, primSpecial{i3scale(v, 4), "vertex"})
	}
	if kind%3 == 0 {
		// the whole half-unit lattice around the small fixed tetrahedron
		for x := -10; x <= 6; x += 2 {
			for y := -6; y <= 6; y += 2 {
				for z := -6; z <= 4; z += 2 {
					s.special = append(s.special, primSpecial{[3]int{x, y, z}, "dense"})
				}
			}
		}
	}
	return s
}

// ---------------------------------------------------------------------------- generators: solids only

// genSmoothJoin: two or three blocks whose smooth fillet bulges beyond their common box (tops flush, a
// small gap): the box that SmoothJoin / SmoothJoinV2 impose must not cut the fillet.  The "underlying
// definition" is the same join with one more, far away, tiny operand: it does not take part in any blend
// near the blocks (only the two nearest operands do, and it is more than the radius away) but it makes
// the imposed box huge.
func genSmoothJoin(rng *rand.Rand, kind int) *primShape {
	h := float64(ri(rng, 1, 2))
	gap := float64(ri(rng, 0, 2)) / 4
	r := []float64{1, 2, 1.5}[kind%3]
	a := model3d.NewRect(model3d.XYZ(-2, -1, 0), model3d.XYZ(0, 1, h))
	b := model3d.NewRect(model3d.XYZ(gap, -1, 0), model3d.XYZ(gap+2, 1, h))
	far := model3d.NewRect(model3d.XYZ(40, 40, 40), model3d.XYZ(40.25, 40.25, 40.25))
	far2 := model3d.NewRect(model3d.XYZ(-40, -40, -40), model3d.XYZ(-40.25, -40.25, -40.25))
	v2 := kind%2 == 1
	name := fmt.Sprintf("two blocks h=%g gap=%g r=%g", h, gap, r)
	var tight, wide model3d.Solid
	mk := func() {
		if tight != nil {
			return
		}
		if v2 {
			tight = model3d.SmoothJoinV2(r, a, b)
			wide = model3d.SmoothJoinV2(r, a, b, far, far2)
		} else {
			tight = model3d.SmoothJoin(r, a, b)
			wide = model3d.SmoothJoin(r, a, b, far, far2)
		}
	}
	site := "model3d.SmoothJoin"
	if v2 {
		site = "model3d.SmoothJoinV2"
	}
	s := lazySolid3(site, name, func() model3d.Solid { mk(); return tight })
	s.def = func(p pvec) bool { mk(); return wide.Contains(v3c(p)) }
	return s
}

// genDegenerateTriangle: a 2-D triangle with collinear or repeated vertices is accepted by the constructor
// (it stores a pseudo-inverse); whatever it contains must still lie inside its reported box
func genDegenerateTriangle(rng *rand.Rand, kind int) *primShape {
	a := [2]int{ri(rng, -2, 2), ri(rng, -2, 2)}
	d := [2]int{ri(rng, -2, 2), ri(rng, -2, 2)}
	if d == [2]int{} {
		d = [2]int{1, 1}
	}
	pt := func(k int) model2d.Coord { return model2d.XY(float64(a[0]+k*d[0]), float64(a[1]+k*d[1])) }
	var ps [3]model2d.Coord
	switch kind % 4 {
	case 0:
		ps = [3]model2d.Coord{pt(0), pt(1), pt(2)} // collinear, in order
	case 1:
		ps = [3]model2d.Coord{pt(2), pt(0), pt(1)} // collinear, middle vertex last
	case 2:
		ps = [3]model2d.Coord{pt(0), pt(0), pt(2)} // a repeated vertex
	default:
		ps = [3]model2d.Coord{pt(1), pt(1), pt(1)} // a point
	}
	return lazySolid2("model2d.Triangle(degenerate)", fmt.Sprintf("%v %v %v", ps[0], ps[1], ps[2]), func() model2d.Solid {
		return model2d.NewTriangle(ps[0], ps[1], ps[2])
	})
}

func genPolytope(rng *rand.Rand, kind int) *primShape {
	lo := [3]int{ri(rng, -3, 0), ri(rng, -3, 0), ri(rng, -3, 0)}
	hi := [3]int{lo[0] + ri(rng, 1, 4), lo[1] + ri(rng, 1, 4), lo[2] + ri(rng, 1, 4)}
	type con struct {
		n [3]int
		m int
	}
	var cons []con
	variant := ""
	switch kind % 4 {
	case 0:
		variant = fmt.Sprintf("rect lo=%v hi=%v", lo, hi)
		for a := 0; a < 3; a++ {
			var n1, n2 [3]int
			n1[a], n2[a] = 1, -1
			cons = append(cons, con{n1, hi[a]}, con{n2, -lo[a]})
		}
	case 1: // sheared box: lo0 <= x + k*y <= hi0
		k := []int{-2, -1, 1, 2}[rng.Intn(4)]
		variant = fmt.Sprintf("sheared k=%d lo=%v hi=%v", k, lo, hi)
		cons = append(cons, con{[3]int{1, k, 0}, hi[0]}, con{[3]int{-1, -k, 0}, -lo[0]},
			con{[3]int{0, 1, 0}, hi[1]}, con{[3]int{0, -1, 0}, -lo[1]},
			con{[3]int{0, 0, 1}, hi[2]}, con{[3]int{0, 0, -1}, -lo[2]})
	case 2: // octahedron |x-c| + |y-c| + |z-c| <= m
		m := ri(rng, 1, 4)
		variant = fmt.Sprintf("octahedron c=%v m=%d", lo, m)
		for _, sx := range []int{-1, 1} {
			for _, sy := range []int{-1, 1} {
				for _, sz := range []int{-1, 1} {
					n := [3]int{sx, sy, sz}
					cons = append(cons, con{n, m + i3dot(n, lo)})
				}
			}
		}
	default: // box with non-unit normals and a doubly sheared pair
		k, l := ri(rng, -2, 2), ri(rng, -1, 1)
		variant = fmt.Sprintf("sheared2 k=%d l=%d lo=%v hi=%v", k, l, lo, hi)
		cons = append(cons, con{[3]int{2, 0, 0}, 2 * hi[0]}, con{[3]int{-3, 0, 0}, -3 * lo[0]},
			con{[3]int{0, 1, 0}, hi[1]}, con{[3]int{0, -1, 0}, -lo[1]},
			con{[3]int{k, l, 1}, hi[2]}, con{[3]int{-k, -l, -1}, -lo[2]})
	}
	poly := model3d.ConvexPolytope{}
	data := []int{}
	// the same half-spaces written with short or long normals (n.x <= m scaled by a power of two)
	scale := math.Ldexp(1, []int{0, 0, -12, 20, -9}[kind/4%5])
	if scale != 1 {
		variant += fmt.Sprintf(" constraints*%g", scale)
	}
	for i, c := range cons {
		k := scale
		if kind/4%5 == 4 && i%2 == 1 {
			k = 1 // mixed lengths
		}
		poly = append(poly, &model3d.LinearConstraint{Normal: v3c(i3f(c.n)).Scale(k), Max: float64(c.m) * k})
		data = append(data, c.n[0], c.n[1], c.n[2], 4*c.m)
	}
	var s *primShape
	if kind%4 == 0 && kind%8 == 0 {
		s = lazySolid3("model3d.ConvexPolytope", "NewConvexPolytopeRect "+variant, func() model3d.Solid {
			return model3d.NewConvexPolytopeRect(v3c(i3f(lo)), v3c(i3f(hi))).Solid()
		})
	} else {
		s = lazySolid3("model3d.ConvexPolytope", variant, func() model3d.Solid { return poly.Solid() })
	}
	s.shape, s.data = "poly", data
	s.def = func(p pvec) bool { return poly.Contains(v3c(p)) }
	return s
}

type mbSpec struct {
	site, variant string
	mbs           []model3d.Metaball
	thr           float64
	reach         float64 // how far beyond the metaballs' own bounds the true shape may extend
}

func genMetaball3(rng *rand.Rand, kind int) *primShape {
	base := func() (model3d.Metaball, string) {
		if rng.Intn(2) == 0 {
			lo := [3]int{ri(rng, -2, 0), ri(rng, -2, 0), ri(rng, -2, 0)}
			hi := [3]int{lo[0] + ri(rng, 1, 2), lo[1] + ri(rng, 1, 2), lo[2] + ri(rng, 1, 2)}
			return model3d.NewRect(v3c(i3f(lo)), v3c(i3f(hi))), fmt.Sprintf("Rect(%v,%v)", lo, hi)
		}
		c := [3]int{ri(rng, -1, 1), ri(rng, -1, 1), ri(rng, -1, 1)}
		r := ri(rng, 1, 2)
		return &model3d.Sphere{Center: v3c(i3f(c)), Radius: float64(r)}, fmt.Sprintf("Sphere(%v,%d)", c, r)
	}
	thr := []float64{0.5, 1, 1.5}[rng.Intn(3)]
	sp := mbSpec{thr: thr, reach: thr}
	switch kind % 4 {
	case 0:
		sp.site = "MetaballSolid"
		n := ri(rng, 1, 3)
		for i := 0; i < n; i++ {
			m, d := base()
			sp.mbs = append(sp.mbs, m)
			sp.variant += d + " "
		}
		sp.reach = thr * 2
	case 1:
		sp.site = "TransformMetaball"
		m, d := base()
		switch rng.Intn(3) {
		case 0:
			off := [3]int{ri(rng, -2, 2), ri(rng, -2, 2), ri(rng, -2, 2)}
			sp.mbs = []model3d.Metaball{model3d.TransformMetaball(&model3d.Translate{Offset: v3c(i3f(off))}, m)}
			sp.variant = fmt.Sprintf("Translate%v %s", off, d)
		case 1:
			ax := [3]int{}
			ax[rng.Intn(3)] = 1
			sp.mbs = []model3d.Metaball{model3d.TransformMetaball(model3d.Rotation(v3c(i3f(ax)), math.Pi/2), m)}
			sp.variant = fmt.Sprintf("Rotation(%v,pi/2) %s", ax, d)
		default:
			off := [3]int{ri(rng, -2, 2), ri(rng, -2, 2), ri(rng, -2, 2)}
			sp.mbs = []model3d.Metaball{model3d.TransformMetaball(model3d.JoinedTransform{&model3d.Scale{Scale: 2},
				&model3d.Translate{Offset: v3c(i3f(off))}}, m)}
			sp.variant = fmt.Sprintf("Scale(2)+Translate%v %s", off, d)
			sp.reach = 2 * thr
		}
	case 2:
		sp.site = "ScaleMetaball"
		m, d := base()
		k := []float64{0.5, 2, 3}[rng.Intn(3)]
		sp.mbs = []model3d.Metaball{model3d.ScaleMetaball(m, k)}
		if rng.Intn(2) == 0 {
			// metaballs that fade at different rates, the quickly fading one first
			sp.mbs = []model3d.Metaball{&model3d.Sphere{Center: v3c(pvec{0.5, 0, 0}), Radius: 0.25}, sp.mbs[0]}
			d = "Sphere((0.5,0,0),0.25) + " + d
		}
		sp.variant = fmt.Sprintf("scale=%v %s", k, d)
		sp.reach = thr * k
		if len(sp.mbs) == 2 {
			sp.reach = 2*thr*k + 1
		}
	default:
		sp.site = "VecScaleMetaball"
		m, d := base()
		scales := []pvec{{1, 0.5, -3}, {-2, 1, 1}, {2, -0.5, 1}, {-1, -1, -4}, {1, 2, 3}, {0.5, 0.5, -0.25}, {-3, 0.5, 2}, {1, -2, 0.5}}
		sc := scales[rng.Intn(len(scales))]
		if rng.Intn(3) == 0 {
			p := rng.Perm(3)
			sc = pvec{sc[p[0]], sc[p[1]], sc[p[2]]}
		}
		sp.mbs = []model3d.Metaball{model3d.VecScaleMetaball(m, v3c(sc))}
		sp.variant = fmt.Sprintf("scale=%v %s", sc, d)
		sp.reach = thr * pvMaxAbs(sc)
	}
	sp.variant = fmt.Sprintf("threshold=%v %s", thr, sp.variant)
	mbs := sp.mbs
	s := lazySolid3(sp.site, sp.variant, func() model3d.Solid { return model3d.MetaballSolid(nil, thr, mbs...) })
	// the definition of the shape (metaball.go): sum f(field_i(c)) > f(threshold)
	s.def = func(p pvec) bool {
		var sum float64
		for _, m := range mbs {
			sum += model3d.QuarticMetaballFalloffFunc(m.MetaballField(v3c(p)))
		}
		return sum > model3d.QuarticMetaballFalloffFunc(thr)
	}
	lo, hi := c3v(mbs[0].Min()), c3v(mbs[0].Max())
	for _, m := range mbs[1:] {
		a, b := c3v(m.Min()), c3v(m.Max())
		for i := 0; i < 3; i++ {
			lo[i], hi[i] = math.Min(lo[i], a[i]), math.Max(hi[i], b[i])
		}
	}
	for i := 0; i < 3; i++ {
		lo[i] -= sp.reach + 0.5
		hi[i] += sp.reach + 0.5
	}
	s.extra = &[2]pvec{lo, hi}
	return s
}

func genMetaball2(rng *rand.Rand, kind int) *primShape {
	var m model2d.Metaball
	var d string
	if rng.Intn(2) == 0 {
		lo := [3]int{ri(rng, -2, 0), ri(rng, -2, 0), 0}
		hi := [3]int{lo[0] + ri(rng, 1, 2), lo[1] + ri(rng, 1, 2), 0}
		m, d = model2d.NewRect(v2c(i3f(lo)), v2c(i3f(hi))), fmt.Sprintf("Rect(%v,%v)", lo[:2], hi[:2])
	} else {
		c := [3]int{ri(rng, -1, 1), ri(rng, -1, 1), 0}
		r := ri(rng, 1, 2)
		m, d = &model2d.Circle{Center: v2c(i3f(c)), Radius: float64(r)}, fmt.Sprintf("Circle(%v,%d)", c[:2], r)
	}
	thr := []float64{0.5, 1, 1.5}[rng.Intn(3)]
	reach := thr
	site := ""
	switch kind % 3 {
	case 0:
		site = "model2d.TransformMetaball"
		off := [3]int{ri(rng, -2, 2), ri(rng, -2, 2), 0}
		m = model2d.TransformMetaball(&model2d.Translate{Offset: v2c(i3f(off))}, m)
		d = fmt.Sprintf("Translate%v %s", off[:2], d)
	case 1:
		site = "model2d.ScaleMetaball"
		k := []float64{0.5, 2, 3}[rng.Intn(3)]
		m = model2d.ScaleMetaball(m, k)
		d = fmt.Sprintf("scale=%v %s", k, d)
		reach = thr * k
	default:
		site = "model2d.VecScaleMetaball"
		sc := []pvec{{1, -3, 0}, {-2, 1, 0}, {0.5, -4, 0}, {-3, -1, 0}, {2, 3, 0}, {-0.5, 0.25, 0}}[rng.Intn(6)]
		m = model2d.VecScaleMetaball(m, v2c(sc))
		d = fmt.Sprintf("scale=%v %s", sc[:2], d)
		reach = thr * pvMaxAbs(sc)
	}
	mb := m
	s := lazySolid2(site, fmt.Sprintf("threshold=%v %s", thr, d), func() model2d.Solid { return model2d.MetaballSolid(nil, thr, mb) })
	s.def = func(p pvec) bool {
		return model2d.QuarticMetaballFalloffFunc(mb.MetaballField(v2c(p))) > model2d.QuarticMetaballFalloffFunc(thr)
	}
	lo, hi := c2v(mb.Min()), c2v(mb.Max())
	for i := 0; i < 2; i++ {
		lo[i] -= reach + 0.5
		hi[i] += reach + 0.5
	}
	s.extra = &[2]pvec{lo, hi}
	return s
}

func genBitmap(rng *rand.Rand) *primShape {
	w, h := ri(rng, 2, 5), ri(rng, 2, 5)
	bmp := model2d.NewBitmap(w, h)
	data := []int{w, h}
	for i := range bmp.Data {
		bmp.Data[i] = rng.Intn(2) == 0
	}
	// set pixels in row 0 and column 0
	bmp.Data[rng.Intn(w)] = true
	bmp.Data[rng.Intn(h)*w] = true
	str := ""
	for i, b := range bmp.Data {
		if i%w == 0 && i > 0 {
			str += "/"
		}
		if b {
			data = append(data, 1)
			str += "#"
		} else {
			data = append(data, 0)
			str += "."
		}
	}
	s := lazySolid2("model2d.BitmapToSolid", fmt.Sprintf("%dx%d %s", w, h, str), func() model2d.Solid { return model2d.BitmapToSolid(bmp) })
	s.shape, s.data = "bitmap", data
	return s
}

func genToolbox(rng *rand.Rand, kind int) *primShape {
	p1 := [3]int{ri(rng, -2, 2), ri(rng, -2, 2), ri(rng, -2, 2)}
	a := randAxis(rng, 3)
	if rng.Intn(3) == 0 {
		a = i3scale(a, 2)
	}
	p2 := i3add(p1, a)
	P1, P2 := v3c(i3f(p1)), v3c(i3f(p2))
	r := float64(ri(rng, 1, 3))
	switch kind % 16 {
	case 0:
		g := []float64{0.25, 0.5, 1}[rng.Intn(3)]
		pointed := rng.Intn(2) == 0
		return solidOnly3("toolbox3d.ScrewSolid", fmt.Sprintf("p1=%v p2=%v r=%v groove=%v pointed=%v", p1, p2, r+1, g, pointed),
			&toolbox3d.ScrewSolid{P1: P1, P2: P2, Radius: r + 1, GrooveSize: g, Pointed: pointed})
	case 1:
		dir := randAxis(rng, 2)
		if rng.Intn(4) == 0 {
			dir = [3]int{}
		}
		// the direction need not be a unit vector: short, long and unit ones
		dscale := []float64{0.125, 1, 0.3, 5}[kind/16%4]
		return solidOnly2("toolbox3d.Teardrop2D", fmt.Sprintf("c=%v r=%v dir=%v*%g", p1[:2], r, dir[:2], dscale),
			&toolbox3d.Teardrop2D{Center: model2d.XY(float64(p1[0]), float64(p1[1])), Radius: r, Direction: v2c(i3f(dir)).Scale(dscale)})
	case 2:
		return lazySolid3("toolbox3d.Teardrop3D", fmt.Sprintf("p1=%v p2=%v r=%v", p1, p2, r),
			func() model3d.Solid { return toolbox3d.Teardrop3D(P1, P2, r) })
	case 3:
		return solidOnly3("toolbox3d.Ramp", fmt.Sprintf("cylinder p1=%v p2=%v r=%v", p1, p2, r),
			&toolbox3d.Ramp{Solid: &model3d.Cylinder{P1: P1, P2: P2, Radius: r}, P1: P1, P2: P2})
	case 4:
		// a box around the ramp axis (the axis runs through the box)
		lo := [3]int{p1[0] - ri(rng, 1, 2), p1[1] - ri(rng, 1, 2), p1[2]}
		hi := [3]int{p1[0] + ri(rng, 1, 2), p1[1] + ri(rng, 1, 2), p1[2] + ri(rng, 2, 4)}
		top := [3]int{p1[0], p1[1], hi[2]}
		return solidOnly3("toolbox3d.Ramp", fmt.Sprintf("rect lo=%v hi=%v axis %v->%v", lo, hi, p1, top),
			&toolbox3d.Ramp{Solid: model3d.NewRect(v3c(i3f(lo)), v3c(i3f(hi))), P1: P1, P2: v3c(i3f(top))})
	case 5:
		segs := []model3d.Segment{model3d.NewSegment(P1, P2), model3d.NewSegment(P2, v3c(i3f(i3add(p2, randAxis(rng, 3)))))}
		return lazySolid3("toolbox3d.LineJoin", fmt.Sprintf("r=%v %v", r/2, segs), func() model3d.Solid { return toolbox3d.LineJoin(r/2, segs...) })
	case 6:
		segs := []model3d.Segment{model3d.NewSegment(P1, P2), model3d.NewSegment(P2, v3c(i3f(i3add(p2, randAxis(rng, 3)))))}
		return lazySolid3("toolbox3d.L1LineJoin", fmt.Sprintf("r=%v %v", r/2, segs), func() model3d.Solid { return toolbox3d.L1LineJoin(r/2, segs...) })
	case 7:
		p3 := v3c(i3f(i3add(p2, randAxis(rng, 3))))
		cl := rng.Intn(2) == 0
		return lazySolid3("toolbox3d.TriangularPolygon", fmt.Sprintf("t=%v close=%v %v %v %v", r/2, cl, P1, P2, p3),
			func() model3d.Solid { return toolbox3d.TriangularPolygon(r/2, cl, P1, P2, p3) })
	case 8:
		return lazySolid3("toolbox3d.TriangularLine", fmt.Sprintf("t=%v %v %v", r/2, p1, p2),
			func() model3d.Solid { return toolbox3d.TriangularLine(r/2, P1, P2) })
	case 9:
		return lazySolid3("toolbox3d.TriangularBall", fmt.Sprintf("t=%v %v", r, p1),
			func() model3d.Solid { return toolbox3d.TriangularBall(r, P1) })
	case 10:
		teeth := ri(rng, 8, 14)
		return lazySolid3("toolbox3d.SpurGear", fmt.Sprintf("axis=%v teeth=%d", a, teeth), func() model3d.Solid {
			return &toolbox3d.SpurGear{P1: model3d.Origin, P2: v3c(i3f(a)), Profile: toolbox3d.InvoluteGearProfile(20*math.Pi/180, 0.5, 0.1, teeth)}
		})
	case 11:
		teeth := ri(rng, 8, 14)
		return lazySolid3("toolbox3d.HelicalGear", fmt.Sprintf("axis=%v teeth=%d", a, teeth), func() model3d.Solid {
			return &toolbox3d.HelicalGear{P1: model3d.Origin, P2: v3c(i3f(a)), Angle: 0.3,
				Profile: toolbox3d.InvoluteGearProfileSizes(20*math.Pi/180, 0.5, 0.4, 0.5, teeth)}
		})
	case 12:
		bidir := rng.Intn(2) == 0
		return lazySolid3("toolbox3d.HeightMapToSolid", fmt.Sprintf("c=%v r=%v bidir=%v", p1[:2], r, bidir), func() model3d.Solid {
			hm := toolbox3d.NewHeightMap(model2d.XY(float64(p1[0])-3, float64(p1[1])-2), model2d.XY(float64(p1[0])+3, float64(p1[1])+3), 40)
			hm.AddSphere(model2d.XY(float64(p1[0]), float64(p1[1])), r)
			hm.AddSphere(model2d.XY(float64(p1[0])+2.5, float64(p1[1])+2.5), r)
			if bidir {
				return toolbox3d.HeightMapToSolidBidir(hm)
			}
			return toolbox3d.HeightMapToSolid(hm)
		})
	case 13:
		ax := toolbox3d.Axis(rng.Intn(3))
		lo, hi := float64(p1[ax])-0.5, float64(p1[ax])+float64(ri(rng, 0, 2))
		return lazySolid3("toolbox3d.ClampAxis", fmt.Sprintf("sphere c=%v r=%v axis=%d [%v,%v]", p1, r+1, ax, lo, hi), func() model3d.Solid {
			return toolbox3d.ClampAxis(&model3d.Sphere{Center: P1, Radius: r + 1}, ax, lo, hi)
		})
	case 14:
		ax := toolbox3d.Axis(rng.Intn(3))
		return lazySolid2("toolbox3d.SliceSolid", fmt.Sprintf("cylinder p1=%v p2=%v r=%v axis=%d", p1, p2, r, ax), func() model2d.Solid {
			return toolbox3d.SliceSolid(&model3d.Cylinder{P1: P1, P2: P2, Radius: r}, ax, float64(p1[ax])+0.25)
		})
	default:
		// the ramp axis runs beside the solid (the solid does not contain the axis)
		lo := [3]int{p1[0] + 2, p1[1], p1[2]}
		hi := [3]int{p1[0] + 3, p1[1] + 1, p1[2] + 4}
		top := [3]int{p1[0], p1[1], p1[2] + 4}
		if rng.Intn(2) == 0 {
			// an oblique axis whose tip lies beside the solid: the shrunken copies reach towards the tip
			lo = [3]int{p1[0] + 2, p1[1] - 1, p1[2]}
			hi = [3]int{p1[0] + 3, p1[1] + 1, p1[2] + 3}
			top = [3]int{p1[0] + 3, p1[1], p1[2] + 3}
		}
		s := solidOnly3("toolbox3d.Ramp(axis outside the solid)", fmt.Sprintf("rect lo=%v hi=%v axis %v->%v", lo, hi, p1, top),
			&toolbox3d.Ramp{Solid: model3d.NewRect(v3c(i3f(lo)), v3c(i3f(hi))), P1: P1, P2: v3c(i3f(top))})
		s.extra = &[2]pvec{pvAdd(i3f(p1), pvec{-1, -2, -1}), pvAdd(i3f(hi), pvec{1, 1, 1})}
		return s
	}
}

// ---------------------------------------------------------------------------- C03: solids

type primSolidRec struct {
	ID         int     `json:"id"`
	Kind       string  `json:"kind"`
	Site       string  `json:"site"`
	Variant    string  `json:"variant"`
	Panic      string  `json:"panic"`
	Dim        int     `json:"dim"`
	Bok        bool    `json:"bok"`
	Bexact     bool    `json:"bexact"`
	Bmin       []int   `json:"bmin"`
	Bmax       []int   `json:"bmax"`
	Plo        []int   `json:"plo"`
	Phi        []int   `json:"phi"`
	NProbe     int     `json:"nprobe"`
	NSkin      int     `json:"nskin"` // probes just outside the faces of the reported box (leak clause only)
	NContained int     `json:"ncontained"`
	Runs       [][]int `json:"runs"`
	NLeaks     int     `json:"nleaks"`
	Leaks      [][]int `json:"leaks"`
	NCuts      int     `json:"ncuts"`
	Cuts       [][]int `json:"cuts"`
	Shape      string  `json:"shape"`
	Data       []int   `json:"data"`
}

const primMaxExactProbes = 120000

func primProbeSolid(id int, s *primShape) primSolidRec {
	rec := primSolidRec{ID: id, Kind: "solid", Site: s.site, Variant: s.variant, Dim: s.dim, Shape: s.shape, Data: s.data,
		Bmin: []int{0, 0, 0}, Bmax: []int{0, 0, 0}, Plo: []int{0, 0, 0}, Phi: []int{0, 0, 0},
		Runs: [][]int{}, Leaks: [][]int{}, Cuts: [][]int{}}
	if rec.Data == nil {
		rec.Data = []int{}
	}
	var mn, mx pvec
	rec.Panic = protect(func() { mn, mx = s.bounds() })
	if rec.Panic != "" {
		rec.Shape = "none"
		return rec
	}
	rec.Bok = true
	for i := 0; i < s.dim; i++ {
		if !isFinite(mn[i]) || !isFinite(mx[i]) || mn[i] > mx[i] || math.Abs(mn[i]) > 1e6 || math.Abs(mx[i]) > 1e6 {
			rec.Bok = false
		}
	}
	if !rec.Bok {
		rec.Shape = "none"
		return rec
	}
	var e1, e2 bool
	rec.Bmin, e1 = scaledVec(mn, 4)
	rec.Bmax, e2 = scaledVec(mx, 4)
	rec.Bexact = e1 && e2
	lo, hi := mn, mx
	if s.extra != nil {
		for i := 0; i < s.dim; i++ {
			lo[i], hi[i] = math.Min(lo[i], s.extra[0][i]), math.Max(hi[i], s.extra[1][i])
		}
	}
	np := 1
	for i := 0; i < s.dim; i++ {
		rec.Plo[i] = int(math.Floor(4 * (lo[i] - 1.5)))
		rec.Phi[i] = int(math.Ceil(4 * (hi[i] + 1.5)))
		np *= rec.Phi[i] - rec.Plo[i] + 1
	}
	if np > 4000000 {
		fatal("prims: probe lattice of %s %s has %d points", s.site, s.variant, np)
	}
	if np > primMaxExactProbes {
		rec.Shape = "none"
	}
	rec.NProbe = np
	p := protect(func() {
		idx := 0
		runStart, runLen := 0, 0
		flush := func() {
			if runLen > 0 {
				rec.Runs = append(rec.Runs, []int{runStart, runLen})
				runLen = 0
			}
		}
		for z := rec.Plo[2]; z <= rec.Phi[2]; z++ {
			for y := rec.Plo[1]; y <= rec.Phi[1]; y++ {
				for x := rec.Plo[0]; x <= rec.Phi[0]; x++ {
					idx++
					c := pvec{float64(x) / 4, float64(y) / 4, float64(z) / 4}
					in := s.contains(c)
					if in {
						rec.NContained++
						if runLen > 0 && runStart+runLen == idx {
							runLen++
						} else {
							flush()
							runStart, runLen = idx, 1
						}
						outside := false
						for i := 0; i < s.dim; i++ {
							if c[i] < mn[i] || c[i] > mx[i] {
								outside = true
							}
						}
						if outside {
							rec.NLeaks++
							if len(rec.Leaks) < 5 {
								rec.Leaks = append(rec.Leaks, []int{x, y, z})
							}
						}
					} else if s.def != nil && s.def(c) {
						rec.NCuts++
						if len(rec.Cuts) < 5 {
							rec.Cuts = append(rec.Cuts, []int{x, y, z})
						}
					}
				}
			}
		}
		flush()
		// extreme points of the true shape supplied by the generator: contained, so they must be in the reported box
		for _, c := range s.mustProbe {
			rec.NSkin++
			outside := false
			for b := 0; b < s.dim; b++ {
				if c[b] < mn[b] || c[b] > mx[b] {
					outside = true
				}
			}
			if outside && s.contains(c) {
				rec.NLeaks++
				if len(rec.Leaks) < 5 {
					rec.Leaks = append(rec.Leaks, []int{int(math.Floor(4 * c[0])), int(math.Floor(4 * c[1])), int(math.Floor(4 * c[2]))})
				}
			}
		}
		// skin probes: points just outside every face of the reported box (closer than the
		// quarter-unit lattice gets), over a grid of in-face positions that is not aligned with it
		const skinN = 14
		for a := 0; a < s.dim; a++ {
			for side := 0; side < 2; side++ {
				for _, off := range []float64{1.0 / 64, 1.0 / 4096, 1e-9} {
					var at float64
					if side == 0 {
						at = mn[a] - off*math.Max(1, math.Abs(mn[a]))
					} else {
						at = mx[a] + off*math.Max(1, math.Abs(mx[a]))
					}
					for i := 0; i < skinN; i++ {
						for j := 0; j < skinN; j++ {
							if s.dim == 2 && j > 0 {
								break
							}
							c := pvec{}
							fr := []float64{(float64(i) + 0.37) / skinN, (float64(j) + 0.61) / skinN}
							k := 0
							for b := 0; b < s.dim; b++ {
								if b == a {
									c[b] = at
								} else {
									c[b] = mn[b] + fr[k]*(mx[b]-mn[b])
									k++
								}
							}
							rec.NSkin++
							if s.contains(c) {
								rec.NLeaks++
								if len(rec.Leaks) < 5 {
									rec.Leaks = append(rec.Leaks, []int{int(math.Floor(4 * c[0])), int(math.Floor(4 * c[1])), int(math.Floor(4 * c[2]))})
								}
							}
						}
					}
				}
			}
		}
	})
	if p != "" {
		rec.Panic = p
	}
	if rec.Shape == "none" {
		rec.Runs = [][]int{}
	}
	return rec
}

// ---------------------------------------------------------------------------- C06: distance fields

type primSdfQ struct {
	Q      []int  `json:"q"`
	Tag    string `json:"tag"`
	Onsurf bool   `json:"onsurf"`
	Orc    bool   `json:"orc"` // |SDF| equals the harness's own brute-force distance (true when there is no such oracle)
	Sign   bool   `json:"sign"`
	Agree  bool   `json:"agree"`
	Pdist  bool   `json:"pdist"`
	Psurf  bool   `json:"psurf"`
	Nunit  bool   `json:"nunit"`
	Nout   bool   `json:"nout"`
	Ncons  bool   `json:"ncons"`
	V4     int    `json:"v4"`
	V4x    bool   `json:"v4x"`
	V256   int    `json:"v256"`
	P4     []int  `json:"p4"`
	P4x    bool   `json:"p4x"`
	N1     []int  `json:"n1"`
	N1x    bool   `json:"n1x"`
	// the field has no NormalSDF: nunit / nout / ncons are vacuously true and n1 is not an observation
	Nonormal bool `json:"nonormal"`
}

type primSdfRec struct {
	ID      int        `json:"id"`
	Kind    string     `json:"kind"`
	Site    string     `json:"site"`
	Variant string     `json:"variant"`
	Panic   string     `json:"panic"`
	Dim     int        `json:"dim"`
	Shape   string     `json:"shape"`
	Data    []int      `json:"data"`
	Qs      []primSdfQ `json:"qs"`
}

const primEps = 1e-3

// outward: stepping from the surface point x along n leaves the shape
func primOutward(s *primShape, x, n pvec) bool {
	return s.sdf(pvAdd(x, pvScale(n, primEps))) < -primEps*1e-3
}

// smoothAt: x is not within 1e-4 of a crease (rim, apex, corner, box edge) of the surface
func primSmoothAt(s *primShape, x pvec) bool {
	if s.smooth {
		return true
	}
	for _, c := range s.circles {
		w := pvSub(x, c.c)
		h := pvDot(w, c.a)
		rho := pvNorm(pvSub(w, pvScale(c.a, h)))
		if math.Hypot(rho-c.r, h) < 1e-4 {
			return false
		}
	}
	for _, p := range s.points {
		if pvNorm(pvSub(x, p)) < 1e-4 {
			return false
		}
	}
	if s.boxEdges {
		onFaces := 0
		for i := 0; i < 3; i++ {
			if math.Abs(x[i]-float64(s.data[i])/4) < 1e-4 || math.Abs(x[i]-float64(s.data[3+i])/4) < 1e-4 {
				onFaces++
			}
		}
		if onFaces >= 2 {
			return false
		}
	}
	return true
}

// the outward unit normal at a smooth surface point x, from the distance field itself:
// -grad SDF (central differences); ok only if the gradient has unit length there
func primGradNormal(s *primShape, x pvec) (pvec, bool) {
	const h = 1e-6
	var g pvec
	for i := 0; i < s.dim; i++ {
		a, b := x, x
		a[i] += h
		b[i] -= h
		g[i] = (s.sdf(a) - s.sdf(b)) / (2 * h)
	}
	n := pvNorm(g)
	if !(n > 1-1e-3 && n < 1+1e-3) {
		return pvec{}, false
	}
	return pvScale(g, -1/n), true
}

// the normal n reported for the surface point x is the surface normal there: at a smooth point
// it equals -grad SDF; at a crease of a convex shape it lies in the normal cone, i.e. x is the
// nearest surface point of x + n/2 (vertices of model2d.Triangle follow their own documented
// convention and are only required to point outward)
func primNormalAt(s *primShape, x, n pvec) bool {
	if primSmoothAt(s, x) {
		if g, ok := primGradNormal(s, x); ok {
			return pvDot(n, g) >= 1-1e-6
		}
		return true
	}
	if s.shape == "tri2" {
		return true
	}
	return math.Abs(s.sdf(pvAdd(x, pvScale(n, 0.5)))+0.5) <= 1e-9
}

func primSdfQuery(s *primShape, q [3]int, tag string) primSdfQ {
	o := primSdfQ{Q: i3slice(q), Tag: tag}
	c := q4pt(q)
	v := s.sdf(c)
	in := s.contains(c)
	o.Onsurf = math.Abs(v) < 1e-9
	o.Orc = s.oracleDist == nil || math.Abs(math.Abs(v)-s.oracleDist(c)) <= 1e-9*(1+math.Abs(v))
	o.Sign = (v > 0) == in
	p, vp := s.pointSDF(c)
	var n pvec
	vn := v
	if !s.hasNoNormal {
		n, vn = s.normalSDF(c)
	}
	o.Agree = math.Abs(vp-v) <= 1e-9 && math.Abs(vn-v) <= 1e-9
	d := pvNorm(pvSub(p, c))
	o.Pdist = math.Abs(d-math.Abs(v)) <= 1e-9*(1+math.Abs(v))
	o.Psurf = math.Abs(s.sdf(p)) <= 1e-9*(1+pvMaxAbs(p))
	o.V4, o.V4x = scaledInt(v, 4)
	o.V256, _ = scaledInt(v, 256)
	o.P4, o.P4x = scaledVec(p, 4)
	if s.hasNoNormal {
		o.Nunit, o.Nout, o.Ncons, o.Nonormal = true, true, true, true
		o.N1 = []int{0, 0, 0}
		return o
	}
	o.Nunit = math.Abs(pvNorm(n)-1) <= 1e-9
	// the normal is judged at the nearest point only if PointSDF delivered a surface point (clause
	// "point" otherwise); on everywhere-smooth shapes NormalSDF is also judged on its own: the
	// query moved by SDF * normal must land on the surface
	o.Nout, o.Ncons = true, true
	if o.Psurf && o.Pdist && s.normalAt != nil {
		o.Nout = primOutward(s, p, n)
		o.Ncons = s.normalAt(p, n)
	} else if o.Psurf && o.Pdist {
		o.Nout = primOutward(s, p, n)
		o.Ncons = primNormalAt(s, p, n)
		if d > 1e-6 && primSmoothAt(s, p) {
			// the nearest point is a smooth surface point: the query lies on its normal line
			u := pvScale(pvSub(c, p), 1/d)
			if v > 0 {
				u = pvScale(u, -1) // the query is inside: the outward direction points away from it
			}
			o.Ncons = o.Ncons && pvDot(n, u) >= 1-1e-6
		}
	}
	if s.smooth {
		x := pvAdd(c, pvScale(n, v))
		o.Ncons = o.Ncons && math.Abs(s.sdf(x)) <= 1e-9*(1+pvMaxAbs(x))
	}
	o.N1, o.N1x = scaledVec(n, 1)
	return o
}

func primLatticePoint(rng *rand.Rand, mn, mx pvec, dim int, margin float64, step int) [3]int {
	var q [3]int
	for i := 0; i < dim; i++ {
		lo := int(math.Floor(4 * (mn[i] - margin)))
		hi := int(math.Ceil(4 * (mx[i] + margin)))
		v := ri(rng, lo, hi)
		q[i] = v - ((v%step)+step)%step
	}
	return q
}

func primRunSdf(id int, s *primShape, rng *rand.Rand, nq int) primSdfRec {
	rec := primSdfRec{ID: id, Kind: "sdf", Site: s.site, Variant: s.variant, Dim: s.dim, Shape: s.shape, Data: s.data, Qs: []primSdfQ{}}
	if rec.Shape != "sphere" && rec.Shape != "box" {
		rec.Shape, rec.Data = "none", []int{}
	}
	var mn, mx pvec
	rec.Panic = protect(func() { mn, mx = s.bounds() })
	if rec.Panic != "" {
		return rec
	}
	qs := append([]primSpecial{}, s.special...)
	for i := 0; i < nq; i++ {
		qs = append(qs, primSpecial{primLatticePoint(rng, mn, mx, s.dim, 1.5, 1+rng.Intn(2)), "lattice"})
	}
	for _, q := range qs {
		var o primSdfQ
		if p := protect(func() { o = primSdfQuery(s, q.q, q.tag) }); p != "" {
			if rec.Panic == "" {
				rec.Panic = fmt.Sprintf("query %v: %s", q.q, p)
			}
			continue
		}
		rec.Qs = append(rec.Qs, o)
	}
	return rec
}

// ---------------------------------------------------------------------------- C07: colliders

type primRayQ struct {
	O       []int `json:"o"`
	D       []int `json:"d"`
	E       int   `json:"e"`
	N       int   `json:"n"`
	Ncb     int   `json:"ncb"`
	Nnil    int   `json:"nnil"`
	Tpos    bool  `json:"tpos"`
	Onsurf  bool  `json:"onsurf"`
	Nunit   bool  `json:"nunit"`
	Nout    bool  `json:"nout"`
	Nsurf   bool  `json:"nsurf"`
	Firstok bool  `json:"firstok"`
	Gp      bool  `json:"gp"`
	Inside  bool  `json:"inside"`
	T24     []int `json:"t24"`
	T24x    bool  `json:"t24x"`
}

type primBallQ struct {
	C      []int `json:"c"`
	R4     int   `json:"r4"`
	Hit    bool  `json:"hit"`
	Near   bool  `json:"near"`
	Expect bool  `json:"expect"`
}

type primColRec struct {
	ID      int         `json:"id"`
	Kind    string      `json:"kind"`
	Site    string      `json:"site"`
	Variant string      `json:"variant"`
	Panic   string      `json:"panic"`
	Dim     int         `json:"dim"`
	Shape   string      `json:"shape"`
	Data    []int       `json:"data"`
	Rays    []primRayQ  `json:"rays"`
	Balls   []primBallQ `json:"balls"`
}

func primRay(s *primShape, o4, d [3]int, e int, extent float64) primRayQ {
	q := primRayQ{O: i3slice(o4), D: i3slice(d), E: e, T24: []int{}}
	o := q4pt(o4)
	dir := pvScale(i3f(d), math.Ldexp(1, e))
	dn := pvNorm(dir)
	n, hits := s.rays(o, dir, true)
	q.N, q.Ncb = n, len(hits)
	q.Nnil, _ = s.rays(o, dir, false)
	q.Tpos, q.Onsurf, q.Nunit, q.Nout, q.Nsurf = true, true, true, true, true
	q.Gp = true
	check := func(h primHit) (tpos, onsurf, nunit, nout, nsurf bool) {
		x := pvAdd(o, pvScale(dir, h.t))
		tpos = h.t >= 0
		onsurf = math.Abs(s.sdf(x)) < 1e-7*math.Max(1, math.Max(pvMaxAbs(x), extent))
		nunit = math.Abs(pvNorm(h.n)-1) <= 1e-9
		if s.approx > 0 {
			// sampled: the bisected position is on the surface to far better than the step, the
			// normal is a Monte-Carlo estimate (unit; outward only in the weak sense of not pointing inward)
			onsurf = math.Abs(s.sdf(x)) < 1e-6*math.Max(1, math.Max(pvMaxAbs(x), extent))
			nout = nunit && s.sdf(pvAdd(x, pvScale(h.n, s.approx))) < s.approx*0.5
			nsurf = true
			return
		}
		nout = primOutward(s, x, h.n)
		nsurf = !onsurf || !nunit || primNormalAt(s, x, h.n)
		return
	}
	dist := []float64{}
	for _, h := range hits {
		a, b, c, dd, ee := check(h)
		q.Tpos, q.Onsurf, q.Nunit, q.Nout, q.Nsurf = q.Tpos && a, q.Onsurf && b, q.Nunit && c, q.Nout && dd, q.Nsurf && ee
		dist = append(dist, h.t*dn)
		if math.Abs(pvDot(h.n, dir)) < 1e-6*dn {
			q.Gp = false // grazing
		}
		if s.boxEdges {
			x := pvAdd(o, pvScale(dir, h.t))
			onFaces := 0
			for i := 0; i < 3; i++ {
				if math.Abs(x[i]-float64(s.data[i])/4) < 1e-6 || math.Abs(x[i]-float64(s.data[3+i])/4) < 1e-6 {
					onFaces++
				}
			}
			if onFaces >= 2 {
				q.Gp = false // through an edge of the box
			}
		}
	}
	sort.Float64s(dist)
	for i := 1; i < len(dist); i++ {
		if dist[i]-dist[i-1] < 1e-6 {
			q.Gp = false
		}
	}
	q.Inside = s.contains(o)
	if math.Abs(s.sdf(o)) < 1e-6 {
		q.Gp = false // the origin is on the surface
	}
	// creases of the surface (rims, apex, corners): a ray through one of them is not in general position
	for _, c := range s.circles {
		da := pvDot(dir, c.a)
		off := pvDot(pvSub(c.c, o), c.a)
		if math.Abs(da) <= 1e-9*dn {
			if math.Abs(off) < 1e-6 {
				q.Gp = false
			}
			continue
		}
		t := off / da
		x := pvAdd(o, pvScale(dir, t))
		if t*dn > -1e-6 && math.Abs(pvNorm(pvSub(x, c.c))-c.r) < 1e-6 {
			q.Gp = false
		}
	}
	for _, p := range s.points {
		w := pvSub(p, o)
		t := pvDot(w, dir) / (dn * dn)
		if t*dn < -1e-6 {
			continue
		}
		if pvNorm(pvSub(w, pvScale(dir, t))) < 1e-6 {
			q.Gp = false
		}
	}
	if s.coneAxis != nil {
		// a ray parallel to a generator line meets the (double) cone in one point instead of two
		da := pvDot(dir, *s.coneAxis)
		perp2 := dn*dn - da*da
		if math.Abs(perp2-s.coneSlope*s.coneSlope*da*da) < 1e-9*dn*dn {
			q.Gp = false
		}
	}
	// first collision
	f, ok := s.first(o, dir)
	q.Firstok = ok == (n > 0)
	if ok && len(hits) > 0 {
		// the first collision is the reported collision of minimum parameter (same normal, unless
		// several collisions share that parameter)
		best := hits[0]
		same := 0
		for _, h := range hits {
			if h.t < best.t {
				best = h
			}
		}
		for _, h := range hits {
			if math.Abs(h.t-best.t) <= 1e-9*math.Max(1, math.Abs(best.t)) {
				same++
			}
		}
		q.Firstok = q.Firstok && math.Abs(f.t-best.t) <= 1e-9*math.Max(1, math.Abs(best.t)) &&
			(same > 1 || s.approx > 0 || pvNorm(pvSub(f.n, best.n)) <= 1e-9)
	}
	// exact ray parameters (boxes): 24 * t * 2^e is an integer
	q.T24x = true
	ts := []float64{}
	for _, h := range hits {
		ts = append(ts, h.t)
	}
	sort.Float64s(ts)
	for _, t := range ts {
		v, ex := scaledInt(t*math.Ldexp(1, e), 24)
		q.T24 = append(q.T24, v)
		q.T24x = q.T24x && ex
	}
	return q
}

func primRunCollider(id int, s *primShape, rng *rand.Rand, nrays, nballs int) primColRec {
	rec := primColRec{ID: id, Kind: "collider", Site: s.site, Variant: s.variant, Dim: s.dim, Shape: s.shape, Data: s.data,
		Rays: []primRayQ{}, Balls: []primBallQ{}}
	if rec.Shape != "sphere" && rec.Shape != "box" {
		rec.Shape, rec.Data = "none", []int{}
	}
	var mn, mx pvec
	rec.Panic = protect(func() { mn, mx = s.bounds() })
	if rec.Panic != "" {
		return rec
	}
	extent := math.Max(pvMaxAbs(mn), pvMaxAbs(mx))
	type rq struct {
		o, d [3]int
		e    int
	}
	exps := []int{0, 0, -30, 10}
	rays := []rq{}
	for i := 0; i < nrays; i++ {
		rays = append(rays, rq{primLatticePoint(rng, mn, mx, s.dim, 2, 2), randAxis(rng, s.dim), exps[rng.Intn(len(exps))]})
	}
	// rays aimed at (or starting from) the special points: centre, axis, apex, rim, surface
	for _, sp := range s.special {
		if sp.tag == "lattice" || sp.tag == "pyth" {
			continue
		}
		d := randAxis(rng, s.dim)
		k := ri(rng, 0, 3)
		rays = append(rays, rq{i3add(sp.q, i3scale(d, -4*k)), d, exps[rng.Intn(len(exps))]})
	}
	if len(s.data) == 7 && (s.shape == "cyl" || s.shape == "capsule" || s.shape == "cone") {
		// rays exactly along the shape's own axis direction (both ways), from lattice points and from the axis itself
		ax := [3]int{s.data[3], s.data[4], s.data[5]}
		for i := 0; i < 6; i++ {
			d := ax
			if i%2 == 1 {
				d = i3scale(ax, -1)
			}
			o := primLatticePoint(rng, mn, mx, s.dim, 2, 2)
			if i >= 4 {
				o = i3add([3]int{s.data[0], s.data[1], s.data[2]}, i3scale(d, -8))
			} else if i >= 2 {
				// from the middle of the axis (inside the shape): an odd number of hits
				o = i3add([3]int{s.data[0], s.data[1], s.data[2]}, i3scale(ax, 2))
			}
			rays = append(rays, rq{o, d, exps[rng.Intn(len(exps))]})
		}
	}
	if s.approx > 0 {
		// sampling colliders: axis-parallel rays through the middle of the bounds, whose path inside a
		// box is a whole number of sampling steps, with direction lengths k * 2^e (the step count is
		// then only known up to rounding)
		var c4 [3]int
		for i := 0; i < 3; i++ {
			c4[i] = int(math.Round(2 * (mn[i] + mx[i])))
		}
		for a := 0; a < 3; a++ {
			for _, k := range []int{1, 3, 5, 7, -3} {
				for _, e := range []int{0, -30, -40, 10, 33} {
					var d, o4 [3]int
					d[a] = k
					o4 = c4
					if k > 0 {
						o4[a] = int(math.Floor(4*mn[a])) - 4
					} else {
						o4[a] = int(math.Ceil(4*mx[a])) + 4
					}
					rays = append(rays, rq{o4, d, e})
				}
			}
		}
	}
	for _, r := range rays {
		var o primRayQ
		if p := protect(func() { o = primRay(s, r.o, r.d, r.e, extent) }); p != "" {
			if rec.Panic == "" {
				rec.Panic = fmt.Sprintf("ray o4=%v d=%v e=%d: %s", r.o, r.d, r.e, p)
			}
			continue
		}
		rec.Rays = append(rec.Rays, o)
	}
	for i := 0; i < nballs && s.ball != nil; i++ {
		c4 := primLatticePoint(rng, mn, mx, s.dim, 2, 1)
		r4 := ri(rng, 1, 16)
		var b primBallQ
		p := protect(func() {
			c := q4pt(c4)
			r := float64(r4) / 4
			v := math.Abs(s.sdf(c))
			b = primBallQ{C: i3slice(c4), R4: r4, Hit: s.ball(c, r), Near: math.Abs(v-r) < 1e-6, Expect: v <= r}
		})
		if p != "" {
			if rec.Panic == "" {
				rec.Panic = fmt.Sprintf("ball c4=%v r4=%d: %s", c4, r4, p)
			}
			continue
		}
		rec.Balls = append(rec.Balls, b)
	}
	return rec
}

// ---------------------------------------------------------------------------- commands

func init() {
	register("c03-prims", func(a args) {
		out := newNDWriter(a.str("out", "records.ndjson"))
		defer out.close()
		rng := rand.New(rand.NewSource(int64(a.int("seed", 1))*7919 + 3))
		n := a.int("n", 4)
		stats := map[string]int{}
		shapes := genFull(rng, n)
		for i := 0; i < 4*n; i++ {
			shapes = append(shapes, genPolytope(rng, i), genMetaball3(rng, i))
		}
		for i := 0; i < 3*n; i++ {
			shapes = append(shapes, genMetaball2(rng, i), genBitmap(rng), genDegenerateTriangle(rng, i), genSmoothJoin(rng, i))
		}
		for i := 0; i < 16*((n+3)/4); i++ {
			shapes = append(shapes, genToolbox(rng, i))
		}
		for i := 0; i < 8; i++ {
			shapes = append(shapes, genToolbox(rng, 1+16*i)) // teardrops with every length of direction vector
		}
		// flat cylinders / cones / tori on barely tilted axes (own stream)
		tr := rand.New(rand.NewSource(int64(a.int("seed", 1))*7919 + 35))
		for i := 0; i < 12*n; i++ {
			shapes = append(shapes, genTilted(tr, i))
		}
		// derived solids (own stream: the records above do not depend on them)
		shapes = append(shapes, genDerivedSolids(rand.New(rand.NewSource(int64(a.int("seed", 1))*7919+33)), n)...)
		// wrappers around boxes: Translate / Scale / Rotate / VecScaleSolid, toolbox3d clamps, FuncSolid, RadialCurve (own stream)
		shapes = append(shapes, genWrapperSolids(rand.New(rand.NewSource(int64(a.int("seed", 1))*7919+34)), n)...)
		for i, s := range shapes {
			rec := primProbeSolid(i+1, s)
			stats["records"]++
			stats["site:"+s.site]++
			stats["probes"] += rec.NProbe + rec.NSkin
			if rec.NContained > 0 {
				stats["nonempty"]++
			}
			if rec.Shape != "none" {
				stats["exact-shape"]++
			}
			out.write(rec)
		}
		writeJSONFile(a.str("stats", "stats.json"), stats)
	})
	register("c06-prims", func(a args) {
		out := newNDWriter(a.str("out", "records.ndjson"))
		defer out.close()
		rng := rand.New(rand.NewSource(int64(a.int("seed", 1))*7919 + 6))
		stats := map[string]int{}
		shapes := genFull(rng, a.int("n", 4))
		nFull := len(shapes)
		// extruded profiles as distance fields (own stream: the records above do not depend on them)
		rng2 := rand.New(rand.NewSource(int64(a.int("seed", 1))*7919 + 66))
		shapes = append(shapes, genProfilePrims(rng2, a.int("n", 4), false)...)
		for i := 0; i < 9+a.int("n", 4); i++ {
			shapes = append(shapes, genMeshSDF(rng2, i))
		}
		for i := 0; i < 8+a.int("n", 4); i++ {
			shapes = append(shapes, genTriangleDist(rng2, i))
		}
		for i, s := range shapes {
			if i == nFull {
				rng = rng2
			}
			rec := primRunSdf(i+1, s, rng, a.int("q", 60))
			stats["records"]++
			stats["site:"+s.site]++
			stats["queries"] += len(rec.Qs)
			if len(rec.Qs) > 0 {
				stats["nonempty"]++
			}
			out.write(rec)
		}
		writeJSONFile(a.str("stats", "stats.json"), stats)
	})
	register("c07-prims", func(a args) {
		out := newNDWriter(a.str("out", "records.ndjson"))
		defer out.close()
		rng := rand.New(rand.NewSource(int64(a.int("seed", 1))*7919 + 7))
		stats := map[string]int{}
		shapes := genFull(rng, a.int("n", 4))
		for i := 0; i < 3*a.int("n", 4); i++ {
			shapes = append(shapes, genSolidCollider(rng, i))
		}
		nFull := len(shapes)
		// extruded profiles as colliders (own stream: the records above do not depend on them)
		rng2 := rand.New(rand.NewSource(int64(a.int("seed", 1))*7919 + 77))
		shapes = append(shapes, genProfilePrims(rng2, a.int("n", 4), true)...)
		for i, s := range shapes {
			if i == nFull {
				rng = rng2
			}
			rec := primRunCollider(i+1, s, rng, a.int("rays", 60), a.int("balls", 20))
			stats["records"]++
			stats["site:"+s.site]++
			stats["rays"] += len(rec.Rays)
			for _, r := range rec.Rays {
				if r.Gp {
					stats["rays-general-position"]++
				}
			}
			if len(rec.Rays) > 0 {
				stats["nonempty"]++
			}
			out.write(rec)
		}
		writeJSONFile(a.str("stats", "stats.json"), stats)
	})
}
