package main

// C20: scripted scene objects and convergence callbacks observe the real renderers.
//   c20-estimator  per-pixel traces (cast / conv / done) for spec/render/EstimatorTrace.tla
//   c20-pixels     multi-pixel images: casts per pixel and written values (PixelPool)
//   c20-scene      nearest hit of composite / transformed box objects and camera round trips

import (
	"encoding/json"
	"math"
	"math/rand"
	"runtime"
	"sync"

	"github.com/unixpickle/model3d/model3d"
	"github.com/unixpickle/model3d/render3d"
)

type estEv struct {
	Op    string `json:"op"`
	V     int    `json:"v"`
	B     bool   `json:"b"`
	Pix   []int  `json:"pix"`
	Exact bool   `json:"exact"`
}

type estRec struct {
	ID     int     `json:"id"`
	Site   string  `json:"site"`
	Num    int     `json:"num"`
	Min    int     `json:"min"`
	Chk    bool    `json:"chk"`
	Silent bool    `json:"silent"`
	Ev     []estEv `json:"ev"`
	Pan    string  `json:"panic"`
}

// scriptObj hands out the next scripted radiance on every primary ray
type scriptObj struct {
	mu   sync.Mutex
	next func(r *model3d.Ray) (int, bool)
}

func (s *scriptObj) Min() model3d.Coord3D { return model3d.Ones(-1e6) }
func (s *scriptObj) Max() model3d.Coord3D { return model3d.Ones(1e6) }
func (s *scriptObj) Cast(r *model3d.Ray) (model3d.RayCollision, render3d.Material, bool) {
	s.mu.Lock()
	defer s.mu.Unlock()
	v, ok := s.next(r)
	if !ok {
		return model3d.RayCollision{}, nil, false
	}
	e := float64(v)
	return model3d.RayCollision{Scale: 1, Normal: model3d.Z(1)},
		&render3d.LambertMaterial{EmissionColor: render3d.Color{X: e, Y: 2 * e, Z: 3 * e}}, true
}

func pix840(c render3d.Color) ([]int, bool) {
	out := make([]int, 3)
	exact := true
	for i, x := range c.Array() {
		y := x * 840
		r := math.Round(y)
		if math.IsNaN(y) || math.Abs(y-r) > 1e-6 || math.Abs(r) > 1e9 {
			exact = false
			r = 0
		}
		out[i] = int(r)
	}
	return out, exact
}

type estCase struct {
	Num int    `json:"num"`
	Min int    `json:"min"`
	Chk bool   `json:"chk"`
	Pat []bool `json:"pat"`
}

// estRun renders a 2x2 image on ONE worker (the process runs under taskset -c 0, so that
// mapCoordinates starts a single goroutine and pixels are rendered one after the other);
// casts carry their pixel (decoded from the ray direction), a consultation of the
// criterion belongs to the pixel of the preceding cast.
func estRun(id *int, c estCase, site string, rng *rand.Rand) []estRec {
	const w, h = 2, 2
	recs := make([]estRec, w*h)
	for i := range recs {
		*id++
		recs[i] = estRec{ID: *id, Site: site, Num: c.Num, Min: c.Min, Chk: c.Chk, Silent: site == "RecursiveRayTracer-maxstddev"}
	}
	cam := render3d.NewCameraAt(model3d.XYZ(0, -5, 0), model3d.Origin, 0)
	caster := cam.Caster(w-1, h-1)
	dirs := map[model3d.Coord3D]int{}
	for y := 0; y < h; y++ {
		for x := 0; x < w; x++ {
			dirs[caster(float64(x), float64(y))] = y*w + x
		}
	}
	vals := []int{0, 1, 3, 7, 2}
	constant := site == "RecursiveRayTracer-maxstddev" && rng.Intn(2) == 0
	cv := vals[rng.Intn(len(vals))]
	cur := -1
	consults := make([]int, w*h)
	obj := &scriptObj{next: func(r *model3d.Ray) (int, bool) {
		idx, ok := dirs[r.Direction]
		if !ok {
			return 0, false // secondary ray: nothing else in the scene
		}
		cur = idx
		v := vals[rng.Intn(len(vals))]
		if constant {
			v = cv
		}
		recs[idx].Ev = append(recs[idx].Ev, estEv{Op: "cast", V: v, Pix: []int{}})
		return v, true
	}}
	conv := func(mean, stddev render3d.Color) bool {
		if cur < 0 {
			return false
		}
		b := false
		if consults[cur] < len(c.Pat) {
			b = c.Pat[consults[cur]]
		}
		consults[cur]++
		recs[cur].Ev = append(recs[cur].Ev, estEv{Op: "conv", B: b, Pix: []int{}})
		return b
	}
	img := render3d.NewImage(w, h)
	pan := protect(func() {
		rt := &render3d.RecursiveRayTracer{Camera: cam, NumSamples: c.Num, MinSamples: c.Min, MaxDepth: 0}
		switch site {
		case "RecursiveRayTracer":
			if c.Chk {
				rt.Convergence = conv
			}
		case "RecursiveRayTracer-maxstddev":
			if c.Chk {
				rt.MaxStddev = 0.5
			}
		case "RecursiveRayTracer-depth":
			// one diffuse bounce that escapes: depth does not change the emission-only radiance
			rt.MaxDepth = 2
			if c.Chk {
				rt.Convergence = conv
			}
		}
		rt.Render(img, obj)
	})
	for i := range recs {
		p, exact := pix840(img.Data[i])
		recs[i].Ev = append(recs[i].Ev, estEv{Op: "done", Pix: p, Exact: exact})
		recs[i].Pan = pan
	}
	return recs
}

// ---------------------------------------------------------------- pixel pool

type pixRec struct {
	ID     int    `json:"id"`
	Kind   string `json:"kind"`
	Site   string `json:"site"`
	W      int    `json:"w"`
	H      int    `json:"h"`
	N      int    `json:"n"`
	CPUs   int    `json:"cpus"`
	Casts  []int  `json:"casts"`
	DataOK []bool `json:"dataok"`
	Stray  int    `json:"stray"`
	Pan    string `json:"panic"`
}

func pixRun(id int, site string, w, h, n int) pixRec {
	rec := pixRec{ID: id, Kind: "pixels", Site: site, W: w, H: h, N: n, CPUs: runtime.NumCPU()}
	cam := render3d.NewCameraAt(model3d.XYZ(0, -5, 0), model3d.Origin, 0)
	caster := cam.Caster(float64(w)-1, float64(h)-1)
	dirs := map[model3d.Coord3D]int{}
	for y := 0; y < h; y++ {
		for x := 0; x < w; x++ {
			dirs[caster(float64(x), float64(y))] = y*w + x
		}
	}
	if len(dirs) != w*h {
		fatal("pixel directions are not distinct")
	}
	casts := make([]int, w*h)
	stray := 0
	obj := &scriptObj{next: func(r *model3d.Ray) (int, bool) {
		idx, ok := dirs[r.Direction]
		if !ok {
			stray++
			return 0, false
		}
		casts[idx]++
		return idx + 1, true // pixel idx always shows radiance idx+1
	}}
	img := render3d.NewImage(w, h)
	for i := range img.Data {
		img.Data[i] = render3d.NewColor(-1)
	}
	rec.Pan = protect(func() {
		switch site {
		case "RecursiveRayTracer":
			(&render3d.RecursiveRayTracer{Camera: cam, NumSamples: n, MaxDepth: 0}).Render(img, obj)
		case "RayCaster":
			(&render3d.RayCaster{Camera: cam}).Render(img, obj)
		}
	})
	rec.Casts = casts
	rec.Stray = stray
	for i, c := range img.Data {
		e := float64(i + 1)
		rec.DataOK = append(rec.DataOK, c == render3d.Color{X: e, Y: 2 * e, Z: 3 * e})
	}
	return rec
}

func init() {
	register("c20-estimator", func(a args) {
		if runtime.NumCPU() != 1 {
			fatal("c20-estimator must run on one CPU (taskset -c 0): attribution of consultations needs one worker")
		}
		rng := rand.New(rand.NewSource(int64(a.int("seed", 1))))
		out := newNDWriter(a.str("out", "records.ndjson"))
		defer out.close()
		stats := map[string]int{}
		id := 0
		reps := a.int("reps", 1)
		readNDJSON(a.str("in", "cases.ndjson"), func(line []byte) {
			var c estCase
			if err := json.Unmarshal(line, &c); err != nil {
				fatal("bad case: %v", err)
			}
			for rep := 0; rep < reps; rep++ {
				for _, site := range []string{"RecursiveRayTracer", "RecursiveRayTracer-maxstddev", "RecursiveRayTracer-depth"} {
					if site == "RecursiveRayTracer-maxstddev" {
						// the built-in criterion ignores the scripted pattern: once per setting
						anyTrue := false
						for _, b := range c.Pat {
							anyTrue = anyTrue || b
						}
						if anyTrue {
							continue
						}
					}
					for _, rec := range estRun(&id, c, site, rng) {
						out.write(rec)
						stats["records"]++
						stats["events"] += len(rec.Ev)
						stats["site:"+site]++
						if len(rec.Ev)-1 < c.Num {
							stats["nonempty"]++ // stopped early
						}
					}
				}
			}
		})
		writeJSONFile(a.str("stats", "stats.json"), stats)
	})
	register("c20-pixels", func(a args) {
		out := newNDWriter(a.str("out", "records.ndjson"))
		defer out.close()
		stats := map[string]int{}
		id := a.int("firstid", 0)
		for _, sz := range [][2]int{{2, 2}, {3, 2}, {5, 4}, {16, 9}, {2, 7}} {
			for _, n := range []int{1, 3} {
				for _, site := range []string{"RecursiveRayTracer", "RayCaster"} {
					if site == "RayCaster" && n != 1 {
						continue
					}
					id++
					out.write(pixRun(id, site, sz[0], sz[1], n))
					stats["records"]++
					stats["nonempty"]++
				}
			}
		}
		stats["cpus"] = runtime.NumCPU()
		writeJSONFile(a.str("stats", "stats.json"), stats)
	})
}

// ---------------------------------------------------------------- scenes and cameras

type sceneXf struct {
	K string `json:"k"`
	O []int  `json:"o"`
}
type sceneObj struct {
	Lo []int     `json:"lo"`
	Hi []int     `json:"hi"`
	Xf []sceneXf `json:"xf"`
	// Bare: the part has no material of its own (a ColliderObject meant to be coloured later)
	Bare bool `json:"bare"`
}
type sceneRay struct {
	O     []int `json:"o"`
	D     []int `json:"d"`
	Hit   bool  `json:"hit"`
	T12   int   `json:"t12"`
	Exact bool  `json:"exact"`
	N     []int `json:"n"`
	Unit  bool  `json:"unit"`
	Mat   int   `json:"mat"`
}
type sceneRec struct {
	ID    int        `json:"id"`
	Kind  string     `json:"kind"`
	Site  string     `json:"site"`
	Objs  []sceneObj `json:"objs"`
	Rays  []sceneRay `json:"rays"`
	Panic string     `json:"panic"`
}

func half(v []int) model3d.Coord3D {
	return model3d.XYZ(float64(v[0])/2, float64(v[1])/2, float64(v[2])/2)
}

func sceneBuild(objs []sceneObj, site string, rng *rand.Rand) render3d.Object {
	var parts []render3d.Object
	for i, o := range objs {
		var obj render3d.Object = &render3d.ColliderObject{
			Collider: &model3d.Rect{MinVal: half(o.Lo), MaxVal: half(o.Hi)},
			Material: &render3d.LambertMaterial{EmissionColor: render3d.NewColor(float64(i + 1))},
		}
		if o.Bare {
			obj = &render3d.ColliderObject{Collider: &model3d.Rect{MinVal: half(o.Lo), MaxVal: half(o.Hi)}}
		}
		for _, x := range o.Xf {
			switch x.K {
			case "t":
				obj = render3d.Translate(obj, half(x.O))
			case "s2":
				obj = render3d.Scale(obj, 2)
			case "sh":
				obj = render3d.Scale(obj, 0.5)
			case "rz":
				obj = render3d.Rotate(obj, model3d.Z(1), math.Pi/2)
			case "rx":
				obj = render3d.Rotate(obj, model3d.X(1), math.Pi/2)
			case "sw":
				obj = render3d.MatrixMultiply(obj, &model3d.Matrix3{0, 1, 0, 1, 0, 0, 0, 0, 1})
			}
		}
		parts = append(parts, obj)
	}
	switch site {
	case "JoinedObject":
		return render3d.JoinedObject(parts)
	case "BVHToObject":
		return render3d.BVHToObject(model3d.NewBVHAreaDensity(parts))
	case "BVHWide":
		// a hand-built hierarchy whose branches have three or four children (any fan-out >= 2 is a valid BVH)
		var build func(ps []render3d.Object) *model3d.BVH[render3d.Object]
		build = func(ps []render3d.Object) *model3d.BVH[render3d.Object] {
			if len(ps) == 1 {
				return &model3d.BVH[render3d.Object]{Leaf: ps[0]}
			}
			fan := 3 + rng.Intn(2)
			if fan > len(ps) {
				fan = len(ps)
			}
			b := &model3d.BVH[render3d.Object]{}
			for k := 0; k < fan; k++ {
				lo, hi := k*len(ps)/fan, (k+1)*len(ps)/fan
				b.Branch = append(b.Branch, build(ps[lo:hi]))
			}
			return b
		}
		return render3d.BVHToObject(build(parts))
	case "FilteredObject":
		j := render3d.JoinedObject(parts)
		return &render3d.FilteredObject{Object: j, Bounds: model3d.BoundsRect(j)}
	default: // nested joins
		if len(parts) < 3 {
			return render3d.JoinedObject(parts)
		}
		k := 1 + rng.Intn(len(parts)-1)
		return render3d.JoinedObject{render3d.JoinedObject(parts[:k]), render3d.BVHToObject(model3d.NewBVHAreaDensity(parts[k:]))}
	}
}

func sceneRun(id int, site string, rng *rand.Rand, nrays int) sceneRec {
	rec := sceneRec{ID: id, Kind: "hit", Site: site}
	nobj := 1 + rng.Intn(4)
	if site == "BVHWide" {
		nobj = 3 + rng.Intn(5)
	}
	for i := 0; i < nobj; i++ {
		var o sceneObj
		for a := 0; a < 3; a++ {
			lo := 4 * (rng.Intn(5) - 2)
			o.Lo = append(o.Lo, lo)
			o.Hi = append(o.Hi, lo+4*(1+rng.Intn(2)))
		}
		halvings := 0
		o.Bare = rng.Intn(4) == 0
		for k := rng.Intn(4); k > 0; k-- {
			kinds := []string{"t", "s2", "sh", "rz", "sw", "rx", "rx"}
			x := sceneXf{K: kinds[rng.Intn(len(kinds))], O: []int{0, 0, 0}}
			if x.K == "sh" {
				if halvings == 1 {
					x.K = "rz"
				}
				halvings++
			}
			if x.K == "t" {
				x.O = []int{4 * (rng.Intn(5) - 2), 4 * (rng.Intn(5) - 2), 4 * (rng.Intn(3) - 1)}
			}
			o.Xf = append(o.Xf, x)
		}
		if o.Xf == nil {
			o.Xf = []sceneXf{}
		}
		rec.Objs = append(rec.Objs, o)
	}
	var obj render3d.Object
	rec.Panic = protect(func() { obj = sceneBuild(rec.Objs, site, rng) })
	if rec.Panic != "" {
		rec.Rays = []sceneRay{}
		return rec
	}
	for r := 0; r < nrays; r++ {
		q := sceneRay{N: []int{0, 0, 0}}
		for a := 0; a < 3; a++ {
			q.O = append(q.O, rng.Intn(49)-24) // odd values keep origins off the (even) box faces
			q.D = append(q.D, rng.Intn(7)-3)
		}
		if q.D[0] == 0 && q.D[1] == 0 && q.D[2] == 0 {
			q.D[rng.Intn(3)] = 1
		}
		if r%4 != 0 {
			// aim at a point of one of the base boxes (moved by its translations only), so
			// that most rays hit something; the origin stays on the half-unit lattice
			o := rec.Objs[rng.Intn(len(rec.Objs))]
			k := 1 + rng.Intn(6)
			for a := 0; a < 3; a++ {
				target := o.Lo[a] + 1 + rng.Intn(o.Hi[a]-o.Lo[a]-1)
				for _, x := range o.Xf {
					if x.K == "t" {
						target += x.O[a]
					}
				}
				q.O[a] = target - k*q.D[a]
			}
		}
		ray := &model3d.Ray{Origin: half(q.O), Direction: half(q.D)} // both in half units: same ray parameter as the spec
		p := protect(func() {
			rc, mat, ok := obj.Cast(ray)
			q.Hit = ok
			if ok {
				t := rc.Scale * 12
				q.T12 = int(math.Round(t))
				q.Exact = math.Abs(t-math.Round(t)) < 1e-6
				q.Unit = math.Abs(rc.Normal.Norm()-1) < 1e-9
				for a, x := range rc.Normal.Array() {
					q.N[a] = int(math.Round(x))
					if math.Abs(x-math.Round(x)) > 1e-9 {
						q.Unit = false
					}
				}
				if mat != nil {
					q.Mat = int(math.Round(mat.Emission().X))
				}
			}
		})
		if p != "" {
			rec.Panic = p
		}
		rec.Rays = append(rec.Rays, q)
	}
	return rec
}

type camPt struct {
	X      int   `json:"x"`
	Y      int   `json:"y"`
	C      []int `json:"c"`
	CExact bool  `json:"cexact"`
	UX     int   `json:"ux"`
	UY     int   `json:"uy"`
	UExact bool  `json:"uexact"`
}
type camRec struct {
	ID   int     `json:"id"`
	Kind string  `json:"kind"`
	Site string  `json:"site"`
	W    int     `json:"w"`
	H    int     `json:"h"`
	Pts  []camPt `json:"pts"`
}

func camRun(id, w, h int, rng *rand.Rand) camRec {
	rec := camRec{ID: id, Kind: "camera", W: w, H: h}
	// axis-aligned cameras: a signed permutation of the axes, integer origin
	axes := []model3d.Coord3D{model3d.X(1), model3d.Y(1), model3d.Z(1)}
	i := rng.Intn(3)
	j := (i + 1 + rng.Intn(2)) % 3
	sx := axes[i].Scale(float64(1 - 2*rng.Intn(2)))
	sy := axes[j].Scale(float64(1 - 2*rng.Intn(2)))
	origin := model3d.XYZ(float64(rng.Intn(9)-4), float64(rng.Intn(9)-4), float64(rng.Intn(9)-4))
	var cam *render3d.Camera
	if rng.Intn(2) == 0 {
		rec.Site = "Camera"
		cam = &render3d.Camera{Origin: origin, ScreenX: sx, ScreenY: sy, FieldOfView: math.Pi / 2}
	} else {
		rec.Site = "NewCameraAt"
		cam = render3d.NewCameraAt(origin, origin.Add(sx.Cross(sy).Scale(float64(1+rng.Intn(5)))), 0)
	}
	zAxis := cam.ScreenX.Cross(cam.ScreenY)
	caster := cam.Caster(float64(w), float64(h))
	uncaster := cam.Uncaster(float64(w), float64(h))
	for y := 0; y <= h; y++ {
		for x := 0; x <= w; x++ {
			p := camPt{X: x, Y: y, CExact: true, UExact: true}
			d := caster(float64(x), float64(y))
			for _, ax := range []model3d.Coord3D{cam.ScreenX, cam.ScreenY, zAxis} {
				v := d.Dot(ax) * float64(w*h)
				p.C = append(p.C, int(math.Round(v)))
				if math.Abs(v-math.Round(v)) > 1e-6 {
					p.CExact = false
				}
			}
			s := float64(1 + rng.Intn(7))
			ux, uy := uncaster(cam.Origin.Add(d.Scale(s)))
			p.UX, p.UY = int(math.Round(ux*1000)), int(math.Round(uy*1000))
			if math.Abs(ux*1000-math.Round(ux*1000)) > 1e-5 || math.Abs(uy*1000-math.Round(uy*1000)) > 1e-5 {
				p.UExact = false
			}
			rec.Pts = append(rec.Pts, p)
		}
	}
	return rec
}

// ---------------------------------------------------------------- auto-framing camera

type frameRec struct {
	ID      int    `json:"id"`
	Kind    string `json:"kind"`
	Site    string `json:"site"`
	Box     []int  `json:"box"`
	Dir     []int  `json:"dir"`
	Inside  []bool `json:"inside"`
	InFront []bool `json:"infront"`
	Panic   string `json:"panic"`
}

func frameRun(id int, rng *rand.Rand) frameRec {
	rec := frameRec{ID: id, Kind: "frame", Site: "DirectionalCamera", Inside: []bool{}, InFront: []bool{}}
	lo := []int{rng.Intn(7) - 3, rng.Intn(7) - 3, rng.Intn(7) - 3}
	hi := []int{lo[0] + 1 + rng.Intn(5), lo[1] + 1 + rng.Intn(5), lo[2] + 1 + rng.Intn(5)}
	rec.Box = append(append([]int{}, lo...), hi...)
	dir := []int{rng.Intn(5) - 2, rng.Intn(5) - 2, rng.Intn(5) - 2}
	if dir[0] == 0 && dir[1] == 0 && dir[2] == 0 {
		dir = []int{1, 1, 1}
	}
	rec.Dir = dir
	obj := &ColliderObjectBox{lo: model3d.XYZ(float64(lo[0]), float64(lo[1]), float64(lo[2])),
		hi: model3d.XYZ(float64(hi[0]), float64(hi[1]), float64(hi[2]))}
	rec.Panic = protect(func() {
		d := model3d.XYZ(float64(dir[0]), float64(dir[1]), float64(dir[2])).Normalize()
		// the helper frames the object for its own field of view (pi / 3.6); ask for that one
		cam := render3d.DirectionalCamera(obj, d, math.Pi/3.6)
		un := cam.Uncaster(1, 1)
		zAxis := cam.ScreenX.Cross(cam.ScreenY)
		for _, x := range []float64{obj.lo.X, obj.hi.X} {
			for _, y := range []float64{obj.lo.Y, obj.hi.Y} {
				for _, z := range []float64{obj.lo.Z, obj.hi.Z} {
					c := model3d.XYZ(x, y, z)
					sx, sy := un(c)
					rec.Inside = append(rec.Inside, sx >= 0.05-1e-6 && sx <= 0.95+1e-6 && sy >= 0.05-1e-6 && sy <= 0.95+1e-6)
					rec.InFront = append(rec.InFront, c.Sub(cam.Origin).Dot(zAxis) > 0)
				}
			}
		}
	})
	return rec
}

// ColliderObjectBox is a render3d.Object that is just a box (only its bounds matter here)
type ColliderObjectBox struct{ lo, hi model3d.Coord3D }

func (c *ColliderObjectBox) Min() model3d.Coord3D { return c.lo }
func (c *ColliderObjectBox) Max() model3d.Coord3D { return c.hi }
func (c *ColliderObjectBox) Cast(r *model3d.Ray) (model3d.RayCollision, render3d.Material, bool) {
	return model3d.RayCollision{}, nil, false
}

func init() {
	register("c20-scene", func(a args) {
		rng := rand.New(rand.NewSource(int64(a.int("seed", 1))))
		out := newNDWriter(a.str("out", "records.ndjson"))
		defer out.close()
		stats := map[string]int{}
		id := a.int("firstid", 0)
		for i := 0; i < a.int("scenes", 50); i++ {
			for _, site := range []string{"JoinedObject", "BVHToObject", "FilteredObject", "Nested", "BVHWide"} {
				id++
				out.write(sceneRun(id, site, rng, a.int("rays", 40)))
				stats["records"]++
				stats["site:"+site]++
			}
		}
		for i := 0; i < a.int("frames", 60); i++ {
			id++
			out.write(frameRun(id, rng))
			stats["records"]++
			stats["site:frame"]++
		}
		for i := 0; i < a.int("shadows", 30); i++ {
			id++
			out.write(shadowRun(id, rng))
			stats["records"]++
			stats["site:shadow"]++
		}
		for _, sz := range [][2]int{{2, 2}, {4, 2}, {2, 4}, {3, 5}, {5, 3}, {1, 3}, {8, 6}, {199, 99}} {
			for k := 0; k < a.int("cams", 4); k++ {
				if sz[0] > 50 && k > 0 {
					continue
				}
				id++
				out.write(camRun(id, sz[0], sz[1], rng))
				stats["records"]++
				stats["site:camera"]++
			}
		}
		writeJSONFile(a.str("stats", "stats.json"), stats)
	})
}

// ---------------------------------------------------------------- a lit matte scene

type shadowPt struct {
	P      []int `json:"p"`
	PExact bool  `json:"pexact"`
	N      []int `json:"n"`
	Own    int   `json:"own"`
	Pix6   int   `json:"pix6"`
}
type shadowRec struct {
	ID    int        `json:"id"`
	Kind  string     `json:"kind"`
	Site  string     `json:"site"`
	Objs  []sceneObj `json:"objs"`
	Light []int      `json:"light"`
	Pts   []shadowPt `json:"pts"`
	// Sums: per pixel, in 1e-6 units: the tracer under light A, light B (below the ground), [A, B], [B, A]; the ray
	// caster under A, B, [A, B], [B, A]  (-1: a channel differs or a value is out of range)
	Sums  [][]int `json:"sums"`
	Panic string  `json:"panic"`
}

func shadowRun(id int, rng *rand.Rand) shadowRec {
	rec := shadowRec{ID: id, Kind: "shadow", Site: "RecursiveRayTracer+PointLight"}
	ev := func(n int) int { return 2 * (rng.Intn(2*n+1) - n) }
	zlo := 2 * (1 + rng.Intn(3))
	ox, oy := ev(5), ev(5)
	rec.Objs = []sceneObj{
		{Lo: []int{-80, -80, -2}, Hi: []int{80, 80, 0}, Xf: []sceneXf{}},
		{Lo: []int{ox, oy, zlo}, Hi: []int{ox + 2*(1+rng.Intn(5)), oy + 2*(1+rng.Intn(5)), zlo + 2}, Xf: []sceneXf{}},
	}
	rec.Light = []int{rng.Intn(31) - 15, rng.Intn(31) - 15, 3 + rng.Intn(13)}
	var parts render3d.JoinedObject
	for _, o := range rec.Objs {
		lo := model3d.XYZ(float64(o.Lo[0]), float64(o.Lo[1]), float64(o.Lo[2]))
		hi := model3d.XYZ(float64(o.Hi[0]), float64(o.Hi[1]), float64(o.Hi[2]))
		parts = append(parts, &render3d.ColliderObject{
			Collider: &model3d.Rect{MinVal: lo, MaxVal: hi},
			Material: &render3d.LambertMaterial{DiffuseColor: render3d.NewColor(1)},
		})
	}
	cam := &render3d.Camera{
		Origin:  model3d.XYZ(float64(ev(3)), float64(ev(3)), 16),
		ScreenX: model3d.X(1), ScreenY: model3d.Y(-1), FieldOfView: math.Pi / 2,
	}
	const w, h = 5, 5
	img := render3d.NewImage(w, h)
	rt := &render3d.RecursiveRayTracer{
		Camera: cam, NumSamples: 1, MaxDepth: 0,
		Lights: []*render3d.PointLight{{
			Origin: model3d.XYZ(float64(rec.Light[0]), float64(rec.Light[1]), float64(rec.Light[2])),
			Color:  render3d.NewColor(1),
		}},
	}
	rec.Panic = protect(func() { rt.Render(img, parts) })
	// several lights, in both orders: the picture is the sum of the pictures under each light
	rec.Sums = make([][]int, w*h)
	var extraLights []model3d.Coord3D
	if rec.Panic == "" {
		la := rt.Lights[0]
		lb := &render3d.PointLight{Origin: model3d.XYZ(float64(ev(7)), float64(ev(7)), -float64(3+rng.Intn(9))), Color: render3d.NewColor(1)}
		lc := &render3d.PointLight{Origin: model3d.XYZ(float64(ev(7)), float64(ev(7)), float64(5+rng.Intn(9))), Color: render3d.NewColor(0.5)}
		sets := [][]*render3d.PointLight{{la}, {lb, lc}, {la, lb, lc}, {lb, lc, la}}
		extraLights = []model3d.Coord3D{la.Origin, lb.Origin, lc.Origin}
		rec.Panic = protect(func() {
			for k := 0; k < 8; k++ {
				im := render3d.NewImage(w, h)
				if k < 4 {
					(&render3d.RecursiveRayTracer{Camera: cam, NumSamples: 1, MaxDepth: 0, Lights: sets[k]}).Render(im, parts)
				} else {
					(&render3d.RayCaster{Camera: cam, Lights: sets[k-4]}).Render(im, parts)
				}
				for i, c := range im.Data {
					v := int(math.Round(c.X * 1e6))
					if c.X != c.Y || c.Y != c.Z || c.X < 0 || math.IsNaN(c.X) {
						v = -1
					} else if c.X > 1000 {
						v = -2 // a light almost on the surface: too bright for the judge's integers, not decided
					}
					rec.Sums[i] = append(rec.Sums[i], v)
				}
			}
		})
	}
	for i := range rec.Sums {
		if rec.Sums[i] == nil {
			rec.Sums[i] = []int{}
		}
		for _, v := range rec.Sums[i] {
			if v == -2 {
				rec.Sums[i] = []int{0, 0, 0, 0, 0, 0, 0, 0}
			}
		}
	}
	caster := cam.Caster(w-1, h-1)
	for y := 0; y < h; y++ {
		for x := 0; x < w; x++ {
			q := shadowPt{N: []int{0, 0, 0}, P: []int{0, 0, 0}}
			ray := &model3d.Ray{Origin: cam.Origin, Direction: caster(float64(x), float64(y))}
			best := -1
			var bc model3d.RayCollision
			for i, o := range parts {
				if c, _, ok := o.Cast(ray); ok && (best < 0 || c.Scale < bc.Scale) {
					best, bc = i, c
				}
			}
			if best >= 0 {
				q.Own = best + 1
				q.PExact = true
				pt := ray.Origin.Add(ray.Direction.Scale(bc.Scale))
				for a, v := range pt.Array() {
					q.P[a] = int(math.Round(v))
					if math.Abs(v-math.Round(v)) > 1e-9 {
						q.PExact = false
					}
					q.N[a] = int(math.Round(bc.Normal.Array()[a]))
				}
			}
			c := img.Data[y*w+x]
			q.Pix6 = int(math.Round(c.X * 1e6))
			if c.X != c.Y || c.Y != c.Z || c.X < 0 || c.X > 2 {
				q.Pix6 = -1
			}
			rec.Pts = append(rec.Pts, q)
			// a light that sits exactly on the visible surface point (or inside the surface it lights): the
			// direction to it has no length; such a pixel is not decided
			if best >= 0 {
				pt := ray.Origin.Add(ray.Direction.Scale(bc.Scale))
				for _, l := range extraLights {
					if l.Dist(pt) < 1e-9 {
						rec.Sums[y*w+x] = []int{0, 0, 0, 0, 0, 0, 0, 0}
					}
				}
			}
		}
	}
	return rec
}
