package main

// C12: hook traces of the sliding window of dual contouring (dcCubeLayout), validated against
// spec/pipeline/DcWindow.tla by DcWindowTrace.

import (
	"math/rand"
	"sync"

	"github.com/unixpickle/model3d/model3d"
)

type dcwEvent struct {
	Ev   string   `json:"ev"`
	Zoff int      `json:"zoff"`
	Last bool     `json:"last"`
	Tris [][3]int `json:"tris"`
}

type dcwRecord struct {
	Id      int        `json:"id"`
	Site    string     `json:"site"`
	Cfg     string     `json:"cfg"`
	N       []int      `json:"n"`
	Nz      int        `json:"nz"`
	Bufrows int        `json:"bufrows"`
	Quads   int        `json:"quads"`
	Ntri    int        `json:"ntri"`
	Panic   string     `json:"panic"`
	Ev      []dcwEvent `json:"ev"`
}

func runDcWindow(id int, l *latticeSolid3, gos, rows int) dcwRecord {
	rec := dcwRecord{Id: id, Site: "DualContouring", N: l.n[:], Ev: []dcwEvent{}}
	var mu sync.Mutex
	var dims [3]int
	pending := [][3]int{}
	hook := func(ev string, obj any, flag bool) {
		if len(ev) < 3 || ev[:3] != "dc." {
			return
		}
		a := obj.([3]any)
		mu.Lock()
		defer mu.Unlock()
		switch ev {
		case "dc.begin":
			dims = a[1].([3]int)
			rec.Nz, rec.Bufrows = dims[2], a[2].(int)
		case "dc.tri":
			idx, zoff := a[1].(int), a[2].(int)
			xc, yc, zc := (dims[0]-1)*dims[1], (dims[1]-1)*dims[0], dims[0]*dims[1]
			row, pos := idx/(xc+yc+zc), idx%(xc+yc+zc)
			kind := 0
			if pos >= xc+yc {
				kind = 1
			}
			pending = append(pending, [3]int{kind, zoff + row, pos})
			rec.Ntri++
		case "dc.pass":
			rec.Ev = append(rec.Ev, dcwEvent{Ev: "pass", Zoff: a[1].(int), Last: flag, Tris: pending})
			pending = [][3]int{}
		case "dc.shift":
			rec.Ev = append(rec.Ev, dcwEvent{Ev: "shift", Zoff: a[1].(int), Tris: [][3]int{}})
		}
	}
	dc := &model3d.DualContouring{S: model3d.SolidSurfaceEstimator{Solid: l}, Delta: 1, MaxGos: gos, Clip: true}
	if rows > 0 {
		dc.BufferSize = rows * (l.n[0] + 2) * (l.n[1] + 2)
	}
	rec.Cfg = dcCfg{maxGos: gos, bufRows: rows}.String()
	model3d.VerifHook = hook
	rec.Panic = protect(func() {
		rec.Quads = len(dc.Mesh().TriangleSlice()) / 2
	})
	model3d.VerifHook = nil
	return rec
}

func init() {
	// c12-dcwin out= stats= rounds=N seed=S
	register("c12-dcwin", func(a args) {
		out := newNDWriter(a.str("out", "records.ndjson"))
		defer out.close()
		rng := rand.New(rand.NewSource(int64(a.int("seed", 1))*37 + 5))
		stats := map[string]int{}
		id := 0
		for round := 0; round < a.int("rounds", 1); round++ {
			for _, nz := range []int{1, 2, 3, 5, 8, 12, 17} {
				for _, rows := range []int{0, 4, 5, 6, 7, 9, 12} {
					if rows > nz+2 {
						continue
					}
					l := newLatticeSolid3(2+rng.Intn(2), 2+rng.Intn(2), nz, 0)
					l.shift = float64(latShiftNum) / 16
					for j := range l.inside {
						l.inside[j] = rng.Intn(2) == 0
					}
					id++
					rec := runDcWindow(id, l, []int{1, 2, 8}[rng.Intn(3)], rows)
					stats["records"]++
					stats["events"] += len(rec.Ev)
					stats["tris"] += rec.Ntri
					if len(rec.Ev) > 1 {
						stats["nonempty"]++ // the window moved at least once
					}
					out.write(rec)
				}
			}
		}
		writeJSONFile(a.str("stats", "stats.json"), stats)
	})
}
