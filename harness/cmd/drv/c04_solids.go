package main

// C03 / C04: expression trees over integer boxes built with the real constructors and
// probed on a half-integer grid.  Tree vocabulary mirrors spec/solids/SolidAlgebra.tla.

import (
	"fmt"
	"math"
	"math/rand"

	"github.com/unixpickle/model3d/model3d"
	"github.com/unixpickle/model3d/toolbox3d"
)

type tree struct {
	Op   string  `json:"op"`
	Lo   []int   `json:"lo,omitempty"`
	Hi   []int   `json:"hi,omitempty"`
	Args []*tree `json:"args,omitempty"`
	A    *tree   `json:"a,omitempty"`
	B    *tree   `json:"b,omitempty"`
	E    *tree   `json:"e,omitempty"`
	T    []int   `json:"t,omitempty"`
	Num  any     `json:"num,omitempty"`
	Den  any     `json:"den,omitempty"`
	P    []int   `json:"p,omitempty"`
	Sg   []int   `json:"sg,omitempty"`
}

func v3(a []int) model3d.Coord3D {
	return model3d.XYZ(float64(a[0]), float64(a[1]), float64(a[2]))
}

func buildSolid(t *tree) model3d.Solid {
	switch t.Op {
	case "box":
		return model3d.NewRect(v3(t.Lo), v3(t.Hi))
	case "join", "joinopt", "mux", "isect", "stack", "stacked", "rectset":
		var args []model3d.Solid
		for _, a := range t.Args {
			args = append(args, buildSolid(a))
		}
		switch t.Op {
		case "join":
			return model3d.JoinedSolid(args)
		case "joinopt":
			// Optimize "creates a version of the solid": the operand slice it is called on stays as it was
			before := make([]string, len(args))
			for i, a := range args {
				before[i] = fmt.Sprintf("%T:%p", a, a)
			}
			res := model3d.JoinedSolid(args).Optimize()
			for i, a := range args {
				if fmt.Sprintf("%T:%p", a, a) != before[i] {
					panic("JoinedSolid.Optimize reordered the operand slice it was called on")
				}
			}
			return res
		case "mux":
			return model3d.NewSolidMux(args)
		case "isect":
			return model3d.IntersectedSolid(args)
		case "stack":
			return model3d.StackSolids(args...)
		case "stacked":
			return model3d.StackedSolid(args)
		default:
			rs := toolbox3d.NewRectSet()
			for _, a := range t.Args {
				rs.Add(model3d.NewRect(v3(a.Lo), v3(a.Hi)))
			}
			return rs.Solid()
		}
	case "sub":
		return &model3d.SubtractedSolid{Positive: buildSolid(t.A), Negative: buildSolid(t.B)}
	case "xlate":
		return model3d.TransformSolid(&model3d.Translate{Offset: v3(t.T)}, buildSolid(t.E))
	case "scale":
		return model3d.TransformSolid(&model3d.Scale{Scale: float64(t.Num.(int)) / float64(t.Den.(int))}, buildSolid(t.E))
	case "vscale":
		n, d := t.Num.([]int), t.Den.([]int)
		return model3d.TransformSolid(&model3d.VecScale{Scale: model3d.XYZ(float64(n[0])/float64(d[0]),
			float64(n[1])/float64(d[1]), float64(n[2])/float64(d[2]))}, buildSolid(t.E))
	case "perm":
		// image[k] = sg[k] * original[p[k]]  (p is 1-based)
		var cols [3][3]float64 // cols[j][k] = component k of the image of basis vector j
		for k := 0; k < 3; k++ {
			cols[t.P[k]-1][k] = float64(t.Sg[k])
		}
		m := *model3d.NewMatrix3Columns(model3d.NewCoord3DArray(cols[0]), model3d.NewCoord3DArray(cols[1]),
			model3d.NewCoord3DArray(cols[2]))
		return model3d.TransformSolid(&model3d.Matrix3Transform{Matrix: &m}, buildSolid(t.E))
	case "force":
		return model3d.ForceSolidBounds(buildSolid(t.E), v3(t.Lo), v3(t.Hi))
	case "cache":
		return model3d.CacheSolidBounds(buildSolid(t.E))
	}
	fatal("unknown tree op %q", t.Op)
	return nil
}

type muxObs struct {
	All   int `json:"all"`
	Iter  int `json:"iter"`
	Cb    int `json:"cb"`
	Nilcb int `json:"nilcb"`
	Dup   int `json:"dup"`
}

type solidRecord struct {
	Id      int      `json:"id"`
	Site    string   `json:"site"`
	Variant string   `json:"variant"`
	Tree    *tree    `json:"tree"`
	Plo     []int    `json:"plo"`
	Phi     []int    `json:"phi"`
	Inside  []int    `json:"inside"`
	Panic   string   `json:"panic"`
	Bvalid  bool     `json:"bvalid"`
	Bexact  bool     `json:"bexact"`
	Bmin    []int    `json:"bmin"`
	Bmax    []int    `json:"bmax"`
	Mux     []muxObs `json:"mux"`
}

func to16(c model3d.Coord3D) ([]int, bool) {
	out := make([]int, 3)
	ok := true
	for i, v := range c.Array() {
		x := v * 16
		if math.IsNaN(x) || math.IsInf(x, 0) || math.Abs(x) > 1e6 {
			return []int{0, 0, 0}, false
		}
		r := math.Round(x)
		if math.Abs(x-r) > 1e-9 {
			ok = false
		}
		out[i] = int(r)
	}
	return out, ok
}

func probeSolid(rec *solidRecord, s model3d.Solid, plo, phi []int) {
	rec.Plo, rec.Phi = plo, phi
	rec.Inside = []int{}
	rec.Bmin, rec.Bmax = []int{0, 0, 0}, []int{0, 0, 0}
	mn, mx := s.Min(), s.Max()
	var e1, e2 bool
	rec.Bmin, e1 = to16(mn)
	rec.Bmax, e2 = to16(mx)
	rec.Bexact = e1 && e2
	rec.Bvalid = model3d.BoundsValid(s)
	mux, isMux := s.(*model3d.SolidMux)
	var mo muxObs
	i := 0
	for z := plo[2]; z <= phi[2]; z++ {
		for y := plo[1]; y <= phi[1]; y++ {
			for x := plo[0]; x <= phi[0]; x++ {
				i++
				c := model3d.XYZ(float64(x)/2, float64(y)/2, float64(z)/2)
				if s.Contains(c) {
					rec.Inside = append(rec.Inside, i)
				}
				if isMux {
					for _, b := range mux.AllContains(c) {
						if b {
							mo.All++
						}
					}
					seen := map[int]bool{}
					n := mux.IterContains(c, func(k int) {
						mo.Cb++
						if seen[k] {
							mo.Dup++
						}
						seen[k] = true
					})
					mo.Iter += n
					mo.Nilcb += mux.IterContains(c, nil)
				}
			}
		}
	}
	if isMux {
		rec.Mux = []muxObs{mo}
	}
}

// --- generation -------------------------------------------------------------------

func randBox(rng *rand.Rand) *tree {
	lo := []int{rng.Intn(4) - 2, rng.Intn(4) - 2, rng.Intn(4) - 2}
	hi := []int{lo[0] + 1 + rng.Intn(3), lo[1] + 1 + rng.Intn(3), lo[2] + 1 + rng.Intn(3)}
	return &tree{Op: "box", Lo: lo, Hi: hi}
}

func randArgs(rng *rand.Rand, depth, minN int, leafOnly bool) []*tree {
	n := minN + rng.Intn(3)
	var out []*tree
	for i := 0; i < n; i++ {
		if leafOnly {
			out = append(out, randBox(rng))
		} else {
			out = append(out, randTree(rng, depth-1))
		}
	}
	return out
}

// simple operand for stack: box, join of boxes or translated box (model bounds defined)
func stackOperand(rng *rand.Rand) *tree {
	switch rng.Intn(3) {
	case 0:
		return &tree{Op: "join", Args: randArgs(rng, 0, 2, true)}
	case 1:
		return &tree{Op: "xlate", T: []int{rng.Intn(3) - 1, rng.Intn(3) - 1, rng.Intn(5) - 2}, E: randBox(rng)}
	}
	return randBox(rng)
}

func randTree(rng *rand.Rand, depth int) *tree {
	if depth <= 0 {
		return randBox(rng)
	}
	switch k := rng.Intn(15); k {
	case 0:
		return &tree{Op: "join", Args: randArgs(rng, depth, 1, false)}
	case 1:
		return &tree{Op: "joinopt", Args: randArgs(rng, depth, 1, false)}
	case 2:
		return &tree{Op: "mux", Args: randArgs(rng, depth, 1, false)}
	case 3:
		return &tree{Op: "isect", Args: randArgs(rng, depth, 1, false)}
	case 4:
		return &tree{Op: "sub", A: randTree(rng, depth-1), B: randTree(rng, depth-1)}
	case 5:
		n := 1 + rng.Intn(3)
		var args []*tree
		for i := 0; i < n; i++ {
			args = append(args, stackOperand(rng))
		}
		op := "stack"
		if rng.Intn(2) == 0 {
			op = "stacked"
		}
		return &tree{Op: op, Args: args}
	case 6:
		return &tree{Op: "xlate", T: []int{rng.Intn(5) - 2, rng.Intn(5) - 2, rng.Intn(5) - 2}, E: randTree(rng, depth-1)}
	case 7:
		if rng.Intn(2) == 0 {
			return &tree{Op: "scale", Num: 2, Den: 1, E: randTree(rng, depth-1)}
		}
		return &tree{Op: "scale", Num: 1, Den: 2, E: randTree(rng, depth-1)}
	case 8:
		nums := [][2]int{{1, 1}, {-1, 1}, {2, 1}, {-2, 1}, {1, 2}, {-1, 2}}
		n, d := make([]int, 3), make([]int, 3)
		for i := range n {
			c := nums[rng.Intn(len(nums))]
			n[i], d[i] = c[0], c[1]
		}
		return &tree{Op: "vscale", Num: n, Den: d, E: randTree(rng, depth-1)}
	case 9:
		p := rng.Perm(3)
		sg := []int{1 - 2*rng.Intn(2), 1 - 2*rng.Intn(2), 1 - 2*rng.Intn(2)}
		return &tree{Op: "perm", P: []int{p[0] + 1, p[1] + 1, p[2] + 1}, Sg: sg, E: randTree(rng, depth-1)}
	case 10:
		b := randBox(rng)
		return &tree{Op: "force", Lo: b.Lo, Hi: b.Hi, E: randTree(rng, depth-1)}
	case 11:
		return &tree{Op: "cache", E: randTree(rng, depth-1)}
	case 12:
		return &tree{Op: "rectset", Args: randArgs(rng, 0, 1, true)}
	}
	return randBox(rng)
}

func permutations(n int) [][]int {
	if n == 1 {
		return [][]int{{0}}
	}
	var out [][]int
	for _, p := range permutations(n - 1) {
		for pos := 0; pos <= len(p); pos++ {
			q := append(append(append([]int{}, p[:pos]...), n-1), p[pos:]...)
			out = append(out, q)
		}
	}
	return out
}

func init() {
	// c04-solids out= stats= trees=N perms=N depth=D range=R seed=S
	register("c04-solids", func(a args) {
		out := newNDWriter(a.str("out", "records.ndjson"))
		defer out.close()
		rng := rand.New(rand.NewSource(int64(a.int("seed", 1))))
		stats := map[string]int{}
		id := 0
		rg := a.int("range", 8) // probes from -rg..rg+2 half units
		plo := []int{-rg, -rg, -rg}
		phi := []int{rg + 2, rg + 2, rg + 2}
		emit := func(site, variant string, t *tree) {
			id++
			rec := solidRecord{Id: id, Site: site, Variant: variant, Tree: t, Plo: plo, Phi: phi, Inside: []int{},
				Bmin: []int{0, 0, 0}, Bmax: []int{0, 0, 0}, Mux: []muxObs{}}
			rec.Panic = protect(func() { probeSolid(&rec, buildSolid(t), plo, phi) })
			stats["records"]++
			stats["site:"+site]++
			if len(rec.Inside) > 0 {
				stats["nonempty"]++
			}
			out.write(rec)
		}
		// random expression trees
		for i := 0; i < a.int("trees", 100); i++ {
			t := randTree(rng, a.int("depth", 3))
			emit("tree", t.Op, t)
		}
		// operand lists in every order, through every n-ary combinator
		for i := 0; i < a.int("perms", 10); i++ {
			n := 2 + rng.Intn(3)
			var ops []*tree
			for j := 0; j < n; j++ {
				switch rng.Intn(4) {
				case 0:
					if j > 0 {
						ops = append(ops, ops[rng.Intn(j)]) // duplicate operand
						continue
					}
					fallthrough
				default:
					ops = append(ops, randBox(rng))
				}
			}
			for _, p := range permutations(n) {
				args := make([]*tree, n)
				for k, idx := range p {
					args[k] = ops[idx]
				}
				for _, op := range []string{"join", "joinopt", "mux", "isect", "rectset", "stack", "stacked"} {
					emit("perm:"+op, op, &tree{Op: op, Args: args})
				}
			}
		}
		writeJSONFile(a.str("stats", "stats.json"), stats)
	})
}
