package main

// C16 / C15 (text grammars): renders the token-stream cases of spec/codec/CodecFaults.tla to
// bytes, runs every decoder of the format on them and records the outcome
// (ok / err / panic / hang / overalloc, rows returned, bytes allocated) for CodecJudge.tla.

import (
	"bytes"
	"encoding/binary"
	"encoding/json"
	"errors"
	"fmt"
	"io"
	"math"
	"math/big"
	"os"
	"runtime"
	"strconv"
	"strings"
	"time"

	"github.com/unixpickle/model3d/fileformats"
	"github.com/unixpickle/model3d/model2d"
	"github.com/unixpickle/model3d/model3d"
)

type cfTok struct {
	T string `json:"t"`
	V string `json:"v"`
}
type cfLine struct {
	Bin  bool    `json:"bin"`
	Toks []cfTok `json:"toks"`
}
type cfCase struct {
	Fmt  string `json:"fmt"`
	Mesh struct {
		NV    int     `json:"nv"`
		Faces [][]int `json:"faces"`
	} `json:"mesh"`
	Var    string `json:"var"`
	NLines int    `json:"nlines"`
	Fault  struct {
		Kind string `json:"kind"`
		K    int    `json:"k"`
		J    int    `json:"j"`
		S    string `json:"s"`
	} `json:"fault"`
	File struct {
		Lines []cfLine `json:"lines"`
		NL    int      `json:"nl"`
		Cut   int      `json:"cut"`
	} `json:"file"`
	// field-level CSV cases (fmt "csvf"): what the format prescribes for the file ("ok" | "err" |
	// "any") and the segments (vertex pairs) of its well-formed rows, in order
	Expect string  `json:"expect"`
	Want   [][]int `json:"want"`
}

type cfRec struct {
	Kind    string `json:"kind"`
	ID      int    `json:"id"`
	Site    string `json:"site"`
	Variant string `json:"variant"`
	Fmt     string `json:"fmt"`
	Fault   string `json:"fault"`
	K       int    `json:"k"`
	J       int    `json:"j"`
	S       string `json:"s"`
	Valid   bool   `json:"valid"`
	Len     int    `json:"len"`
	Outcome string `json:"outcome"`
	Rows    int    `json:"rows"`
	AllocKB int    `json:"allockb"`
	MeshOK  bool   `json:"meshok"`
	Panic   string `json:"panic"`
	Noisy   bool   `json:"noisy"`
	Hex     string `json:"hex,omitempty"`
	Expect  string `json:"expect,omitempty"`
}

// coordinates of the case's vertices: exactly representable in float32, pairwise distinct
func cfCoord(v, a int) float64 {
	// all in the plane z = x/2 + y, so that the polygons of CodecFaults!Poly are planar and convex
	// (vertex 7 lies inside the pentagon 1..5: polygons through it are concave)
	table := [][3]float64{{0, 0, 0}, {4, 0, 2}, {4, 2, 4}, {2, 4, 5}, {0, 2, 2}, {7, 7, 7}, {1, 1, 1.5}}
	if v < 1 || v > len(table) || a < 1 || a > 3 {
		return 0
	}
	return table[v-1][a-1]
}

// VERIF_COORDS=mid: the coordinates of a valid single-precision text file are written as long decimals just
// above / just below the midpoint between two neighbouring float32 values; they must be read as the float32 on the
// right side of that midpoint (a reader that rounds to double first and to single afterwards lands on the even
// neighbour instead)
var cfCoordMode = os.Getenv("VERIF_COORDS")

// cfMid: text and correctly rounded single-precision value of table coordinate (v, a) in mode "mid"
func cfMid(v, a int) (string, float64) {
	b := float32(cfCoord(v, a))
	if b == 0 {
		return "0", 0
	}
	up := math.Nextafter32(b, float32(math.Inf(1)))
	mid := new(big.Float).SetPrec(200).Add(new(big.Float).SetFloat64(float64(b)), new(big.Float).SetFloat64(float64(up)))
	mid.Quo(mid, big.NewFloat(2))
	digits := strings.TrimRight(mid.Text('f', 80), "0")
	if (v+a)%2 == 0 {
		return digits + "1", float64(up) // just above the midpoint
	}
	last := digits[len(digits)-1]
	return digits[:len(digits)-1] + string(last-1) + "9", float64(b) // just below it
}

// VERIF_READER=dribble: the decoders read the file through a reader that hands out a few bytes per Read call
// (3 first, then 1..7), as a pipe or a network connection may; the answers must not depend on it
type dribbleReader struct {
	data []byte
	n    int
}

func (d *dribbleReader) Read(p []byte) (int, error) {
	if len(d.data) == 0 {
		return 0, io.EOF
	}
	k := 3
	if d.n > 0 {
		k = 1 + (d.n*5)%7
	}
	d.n++
	if k > len(p) {
		k = len(p)
	}
	if k > len(d.data) {
		k = len(d.data)
	}
	copy(p, d.data[:k])
	d.data = d.data[k:]
	return k, nil
}

func cfReader(data []byte) io.Reader {
	if os.Getenv("VERIF_READER") == "dribble" {
		return &dribbleReader{data: data}
	}
	return bytes.NewReader(data)
}

func cfValueText(v string) string {
	// "$i:a" anywhere in the word (CSV packs four of them with commas)
	for {
		i := strings.IndexByte(v, '$')
		if i < 0 {
			return v
		}
		j := i + 1
		for j < len(v) && (v[j] >= '0' && v[j] <= '9' || v[j] == ':') {
			j++
		}
		var vi, ai int
		fmt.Sscanf(v[i+1:j], "%d:%d", &vi, &ai)
		if cfCoordMode == "mid" {
			txt, _ := cfMid(vi, ai)
			v = v[:i] + txt + v[j:]
			continue
		}
		v = v[:i] + strconv.FormatFloat(cfCoord(vi, ai), 'g', -1, 64) + v[j:]
	}
}

func cfField(t cfTok) []byte {
	ty := t.T
	var order binary.ByteOrder = binary.LittleEndian
	if strings.HasSuffix(ty, "be") {
		order = binary.BigEndian
		ty = strings.TrimSuffix(ty, "be")
	}
	txt := cfValueText(t.V)
	switch ty {
	case "raw80":
		return make([]byte, 80)
	case "raw80s":
		b := bytes.Repeat([]byte{' '}, 80)
		copy(b, "solid binary\x00")
		return b
	case "f32":
		f, _ := strconv.ParseFloat(txt, 64)
		if n, err := strconv.ParseUint(txt, 10, 64); err == nil && !strings.HasPrefix(t.V, "$") && n > 1<<24 {
			// adversarial integer in a float field: use its bit pattern
			return putU32(order, uint32(n))
		}
		return putU32(order, math.Float32bits(float32(f)))
	case "f64":
		f, _ := strconv.ParseFloat(txt, 64)
		return putU64(order, math.Float64bits(f))
	}
	n, _ := strconv.ParseUint(txt, 10, 64)
	if strings.HasPrefix(txt, "-") {
		m, _ := strconv.ParseInt(txt, 10, 64)
		n = uint64(m)
	}
	switch ty {
	case "u8":
		return []byte{byte(n)}
	case "u16":
		return putU16(order, uint16(n))
	case "u32", "i32":
		return putU32(order, uint32(n))
	}
	fatal("unknown field type %q", t.T)
	return nil
}

func putU16(o binary.ByteOrder, v uint16) []byte { b := make([]byte, 2); o.PutUint16(b, v); return b }
func putU32(o binary.ByteOrder, v uint32) []byte { b := make([]byte, 4); o.PutUint32(b, v); return b }
func putU64(o binary.ByteOrder, v uint64) []byte { b := make([]byte, 8); o.PutUint64(b, v); return b }

func cfRender(c *cfCase) []byte {
	var buf bytes.Buffer
	lines := c.File.Lines
	for i, ln := range lines {
		if ln.Bin {
			for _, t := range ln.Toks {
				buf.Write(cfField(t))
			}
			continue
		}
		ws := make([]string, len(ln.Toks))
		for j, t := range ln.Toks {
			ws[j] = cfValueText(t.V)
		}
		if c.Fmt == "csvf" {
			// the tokens of a line are the fields of a CSV row; "~q" is a double quote
			buf.WriteString(strings.ReplaceAll(strings.Join(ws, ","), "~q", "\""))
		} else {
			buf.WriteString(strings.Join(ws, " "))
		}
		if i < len(lines)-1 || c.File.NL == 1 {
			buf.WriteByte('\n')
		}
	}
	if c.File.Cut == 1 && c.Fault.Kind == "cutt" {
		// one more byte: the first byte of the token that was cut off
		buf.WriteByte(0x01)
	}
	data := buf.Bytes()
	switch c.Fault.Kind {
	case "cutb", "byte", "insb":
		// byte-level faults: position floor(n * k / j) of the rendered file
		pos := 0
		if c.Fault.J > 0 {
			pos = len(data) * c.Fault.K / c.Fault.J
		}
		if pos > len(data) {
			pos = len(data)
		}
		v, _ := strconv.Atoi(c.Fault.S)
		switch c.Fault.Kind {
		case "cutb":
			data = data[:pos]
		case "byte":
			if pos < len(data) {
				data = append([]byte{}, data...)
				data[pos] = byte(v)
			}
		case "insb":
			data = append(append(append([]byte{}, data[:pos]...), byte(v)), data[pos:]...)
		}
	}
	return data
}

// expected triangles of a valid file, as vertex coordinates (polygons: any triangulation)
func cfMeshMatches(c *cfCase, tris []*model3d.Triangle, single bool) bool {
	want := 0
	for _, f := range c.Mesh.Faces {
		want += len(f) - 2
	}
	if len(tris) != want {
		return false
	}
	conv := func(v int) model3d.Coord3D {
		x, y, z := cfCoord(v+1, 1), cfCoord(v+1, 2), cfCoord(v+1, 3)
		if cfCoordMode == "mid" {
			_, x = cfMid(v+1, 1)
			_, y = cfMid(v+1, 2)
			_, z = cfMid(v+1, 3)
		}
		if single {
			return model3d.XYZ(float64(float32(x)), float64(float32(y)), float64(float32(z)))
		}
		return model3d.XYZ(x, y, z)
	}
	k := 0
	for _, f := range c.Mesh.Faces {
		if len(f) == 3 {
			t := tris[k]
			if t[0] != conv(f[0]) || t[1] != conv(f[1]) || t[2] != conv(f[2]) {
				return false
			}
			k++
			continue
		}
		// polygon: n-2 triangles over the polygon's vertices (TriangulateFace rebuilds the
		// coordinates from a 2-D basis, hence the tolerance), same total vector area
		var wantArea, gotArea model3d.Coord3D
		p0 := conv(f[0])
		for i := 1; i+1 < len(f); i++ {
			wantArea = wantArea.Add(conv(f[i]).Sub(p0).Cross(conv(f[i+1]).Sub(p0)))
		}
		for i := 0; i < len(f)-2; i++ {
			t := tris[k]
			for _, p := range t {
				found := false
				for _, v := range f {
					if conv(v).Dist(p) < 1e-9 {
						found = true
					}
				}
				if !found {
					return false
				}
			}
			ta := t[1].Sub(t[0]).Cross(t[2].Sub(t[0]))
			if ta.Dot(wantArea) < -1e-9 {
				return false // a triangle turned against the polygon: it lies outside a concave face
			}
			gotArea = gotArea.Add(ta)
			k++
		}
		if gotArea.Dist(wantArea) > 1e-9 {
			return false
		}
	}
	return true
}

type cfDecoder struct {
	name string
	run  func(data []byte, c *cfCase) (rows int, err error, meshOK bool)
}

var errTooManyRows = errors.New("more rows than input bytes")

func cfDecoders(format string) []cfDecoder {
	switch format {
	case "off":
		return []cfDecoder{
			{"ReadOFF", func(data []byte, c *cfCase) (int, error, bool) {
				tris, err := model3d.ReadOFF(cfReader(data))
				return len(tris), err, err == nil && cfMeshMatches(c, tris, false)
			}},
			{"OFFReader", func(data []byte, c *cfCase) (int, error, bool) {
				r, err := fileformats.NewOFFReader(cfReader(data))
				if err != nil {
					return 0, err, false
				}
				n := 0
				for {
					_, err := r.ReadFace()
					if err == io.EOF {
						return n, nil, n == len(c.Mesh.Faces)
					} else if err != nil {
						return n, err, false
					}
					n++
					if n > len(data)+2 {
						return n, errTooManyRows, false
					}
				}
			}},
		}
	case "stla", "stlb":
		return []cfDecoder{
			{"ReadSTL", func(data []byte, c *cfCase) (int, error, bool) {
				tris, err := model3d.ReadSTL(cfReader(data))
				return len(tris), err, err == nil && cfMeshMatches(c, tris, true)
			}},
			{"STLReader", func(data []byte, c *cfCase) (int, error, bool) {
				r, err := fileformats.NewSTLReader(cfReader(data))
				if err != nil {
					return 0, err, false
				}
				n := 0
				for {
					_, _, err := r.ReadTriangle()
					if err == io.EOF {
						return n, nil, n == len(c.Mesh.Faces)
					} else if err != nil {
						return n, err, false
					}
					n++
					if n > len(data)+2 {
						return n, errTooManyRows, false
					}
				}
			}},
		}
	case "plya", "plyb":
		return []cfDecoder{
			{"ReadColorPLY", func(data []byte, c *cfCase) (int, error, bool) {
				tris, colors, err := model3d.ReadColorPLY(cfReader(data))
				ok := err == nil && cfMeshMatches(c, tris, true)
				if ok {
					for v := 0; v < c.Mesh.NV; v++ {
						p := model3d.XYZ(cfCoord(v+1, 1), cfCoord(v+1, 2), cfCoord(v+1, 3))
						col, has := colors.Load(p)
						if !has || col != [3]uint8{uint8(10 * (v + 1)), uint8(20 * (v + 1)), 255} {
							ok = false
						}
					}
				}
				return len(tris), err, ok
			}},
			{"PLYReader", func(data []byte, c *cfCase) (int, error, bool) {
				r, err := fileformats.NewPLYReader(cfReader(data))
				if err != nil {
					return 0, err, false
				}
				n := 0
				for {
					_, _, err := r.Read()
					if errors.Is(err, io.EOF) {
						return n, nil, true
					} else if err != nil {
						return n, err, false
					}
					n++
					if n > len(data)+2 {
						return n, errTooManyRows, false
					}
				}
			}},
			{"PLYHeaderDecode", func(data []byte, c *cfCase) (int, error, bool) {
				s := string(data)
				if i := strings.Index(s, "end_header\n"); i >= 0 {
					s = s[:i+len("end_header\n")]
				}
				_, err := fileformats.NewPLYHeaderDecode(s)
				return 0, err, true
			}},
		}
	case "csv", "csvf":
		// the segments a file must decode to: the mesh's faces, or (field-level cases) those of
		// its well-formed rows
		wanted := func(c *cfCase) [][]int {
			if c.Fmt == "csvf" {
				return c.Want
			}
			return c.Mesh.Faces
		}
		return []cfDecoder{
			{"DecodeCSV", func(data []byte, c *cfCase) (int, error, bool) {
				segs, err := model2d.DecodeCSV(data)
				ok := err == nil && len(segs) == len(wanted(c))
				if ok {
					for i, f := range wanted(c) {
						a := model2d.XY(cfCoord(f[0]+1, 1), cfCoord(f[0]+1, 2))
						b := model2d.XY(cfCoord(f[1]+1, 1), cfCoord(f[1]+1, 2))
						if segs[i][0] != a || segs[i][1] != b {
							ok = false
						}
					}
				}
				return len(segs), err, ok
			}},
			{"SegmentCSVReader", func(data []byte, c *cfCase) (int, error, bool) {
				r := fileformats.NewSegmentCSVReader(cfReader(data))
				n := 0
				same := true
				for {
					row, err := r.Read()
					if err == io.EOF {
						return n, nil, n == len(wanted(c)) && same
					} else if err != nil {
						return n, err, false
					}
					if w := wanted(c); n < len(w) {
						f := w[n]
						if row != [4]float64{cfCoord(f[0]+1, 1), cfCoord(f[0]+1, 2), cfCoord(f[1]+1, 1), cfCoord(f[1]+1, 2)} {
							same = false
						}
					}
					n++
					if n > len(data)+2 {
						return n, errTooManyRows, false
					}
				}
			}},
		}
	}
	fatal("unknown format %q", format)
	return nil
}

// runs one decoder on one input with a deadline; a timed-out goroutine is abandoned
func cfRun(d cfDecoder, data []byte, c *cfCase, deadline time.Duration) (rec cfRec) {
	type result struct {
		rows   int
		err    error
		meshOK bool
		pan    string
		alloc  uint64
	}
	ch := make(chan result, 1)
	go func() {
		var res result
		var m0, m1 runtime.MemStats
		runtime.ReadMemStats(&m0)
		res.pan = protect(func() { res.rows, res.err, res.meshOK = d.run(data, c) })
		runtime.ReadMemStats(&m1)
		res.alloc = m1.TotalAlloc - m0.TotalAlloc
		ch <- res
	}()
	select {
	case res := <-ch:
		rec.Rows = res.rows
		rec.MeshOK = res.meshOK
		rec.Panic = res.pan
		kb := res.alloc / 1024
		if kb > 1<<30 {
			kb = 1 << 30
		}
		rec.AllocKB = int(kb)
		switch {
		case res.pan != "":
			rec.Outcome = "panic"
		case res.err == errTooManyRows:
			rec.Outcome = "hang"
		case res.err != nil:
			rec.Outcome = "err"
		default:
			rec.Outcome = "ok"
		}
	case <-time.After(deadline):
		rec.Outcome = "hang"
	}
	return rec
}

func init() {
	register("c16-faults", func(a args) {
		out := newNDWriter(a.str("out", "records.ndjson"))
		defer out.close()
		// progress marker so that the caller can tell which case killed the process
		marker := a.str("marker", "")
		stats := map[string]int{}
		id := a.int("firstid", 0)
		skip := a.int("skip", 0)
		hangs := 0
		siteHangs := map[string]int{}
		for _, sname := range strings.Split(a.str("skipsites", ""), ",") {
			if sname != "" {
				siteHangs[sname] = 6 // sites that already crashed the process repeatedly
			}
		}
		n := 0
		readNDJSON(a.str("in", "cases.ndjson"), func(line []byte) {
			n++
			if n <= skip {
				return
			}
			var c cfCase
			if err := json.Unmarshal(line, &c); err != nil {
				fatal("bad case: %v", err)
			}
			data := cfRender(&c)
			// valid: the unfaulted file, with or (text formats) without the final newline
			valid := c.Fault.Kind == "none"
			if strings.HasPrefix(c.Var, "noprops") {
				valid = false // an element without properties: outcome not prescribed
			}
			if nl := c.NLines; c.Fault.Kind == "cutl" && c.Fault.K == nl && nl > 0 {
				last := c.File.Lines[nl-1]
				// (the newline after "end_header" delimits the body: a header-only file without it is not claimed valid)
				endsWithHeader := len(last.Toks) > 0 && last.Toks[0].V == "end_header"
				valid = (c.Fault.J == 1 || (!last.Bin && !endsWithHeader)) && !strings.HasPrefix(c.Var, "noprops")
			}
			for _, d := range cfDecoders(c.Fmt) {
				if c.Var == "biglist" || strings.HasPrefix(c.Var, "biglist-") || strings.HasPrefix(c.Var, "signedlist") {
					if d.name == "ReadColorPLY" {
						continue // rejected by design: the mesh reader wants the standard face element
					}
				}
				if siteHangs[d.name] >= 6 {
					// each hang costs the deadline and leaves a spinning goroutine behind
					stats["skipped-after-hangs:"+d.name]++
					continue
				}
				id++
				if marker != "" {
					out.w.Flush() // a dying process must not take finished records with it
					os.WriteFile(marker, []byte(fmt.Sprintf("%d %d %s", n, id, d.name)), 0o644)
				}
				// allocation is measured process-wide, so cases run one at a time
				rec := cfRun(d, data, &c, 3*time.Second)
				rec.ID = id
				rec.Kind = "fault"
				rec.Site = d.name
				rec.Variant = c.Var
				rec.Fmt = c.Fmt
				rec.Fault = c.Fault.Kind
				rec.K, rec.J, rec.S = c.Fault.K, c.Fault.J, c.Fault.S
				rec.Valid = valid
				rec.Expect = c.Expect
				rec.Len = len(data)
				rec.Noisy = hangs > 0 // an abandoned goroutine may still be allocating
				unexpected := c.Expect == "err" && rec.Outcome != "err" || c.Expect == "ok" && !(rec.Outcome == "ok" && rec.MeshOK) ||
					c.Expect == "any" && rec.Outcome == "ok" && !rec.MeshOK
				if rec.Outcome != "ok" && rec.Outcome != "err" || (valid && !(rec.Outcome == "ok" && rec.MeshOK)) || unexpected {
					h := data
					if len(h) > 600 {
						h = h[:600]
					}
					rec.Hex = strconv.Quote(string(h))
				}
				out.write(rec)
				stats["records"]++
				stats["outcome:"+rec.Outcome]++
				stats["site:"+d.name]++
				if valid {
					stats["valid"]++
				}
				if rec.Outcome == "hang" {
					hangs++
					siteHangs[d.name]++
				}
			}
		})
		stats["cases"] = n
		stats["nonempty"] = stats["records"]
		writeJSONFile(a.str("stats", "stats.json"), stats)
	})
}
