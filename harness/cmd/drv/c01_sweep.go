package main

// C01: parameter sweeps of the parametric mesh generators ("for all valid parameters"): every stop count
// in a range, not a seeded few.  The meshes are too many and too large to hand to TLC face by face; the
// harness counts, for each mesh, the directed edges that are not used exactly once with their reverse used
// exactly once, degenerate faces and V - E + F; spec/mesh/SweepJudge.tla requires the counts it prescribes.

import (
	"fmt"
	"math"

	"github.com/unixpickle/model3d/model2d"
	"github.com/unixpickle/model3d/model3d"
)

type sweepRec struct {
	ID        int    `json:"id"`
	Site      string `json:"site"`
	Param     string `json:"param"`
	Dim       int    `json:"dim"`
	Faces     int    `json:"faces"`
	Unmatched int    `json:"unmatched"`
	Degen     int    `json:"degen"`
	Euler     int    `json:"euler"`
	WantEuler int    `json:"wanteuler"`
	Inward    int    `json:"inward"` // faces whose normal points towards the reference interior point
	Panic     string `json:"panic"`
}

func sweepMesh3(rec *sweepRec, m *model3d.Mesh, inside model3d.Coord3D, star bool) {
	type de [2]model3d.Coord3D
	cnt := map[de]int{}
	verts := map[model3d.Coord3D]bool{}
	m.Iterate(func(t *model3d.Triangle) {
		rec.Faces++
		if t[0] == t[1] || t[1] == t[2] || t[0] == t[2] {
			rec.Degen++
		}
		for i := 0; i < 3; i++ {
			cnt[de{t[i], t[(i+1)%3]}]++
			verts[t[i]] = true
		}
		if star && t.Normal().Dot(t[0].Add(t[1]).Add(t[2]).Scale(1.0/3).Sub(inside)) <= 0 {
			rec.Inward++
		}
	})
	und := map[de]bool{}
	for e, c := range cnt {
		if c != 1 || cnt[de{e[1], e[0]}] != 1 {
			rec.Unmatched++
		}
		a, b := e[0], e[1]
		if a.X > b.X || (a.X == b.X && (a.Y > b.Y || (a.Y == b.Y && a.Z > b.Z))) {
			a, b = b, a
		}
		und[de{a, b}] = true
	}
	rec.Euler = len(verts) - len(und) + rec.Faces
}

func sweepMesh2(rec *sweepRec, m *model2d.Mesh) {
	in, out := map[model2d.Coord]int{}, map[model2d.Coord]int{}
	m.Iterate(func(s *model2d.Segment) {
		rec.Faces++
		if s[0] == s[1] {
			rec.Degen++
		}
		out[s[0]]++
		in[s[1]]++
	})
	for v, c := range out {
		if c != 1 || in[v] != 1 {
			rec.Unmatched++
		}
	}
	for v := range in {
		if out[v] == 0 {
			rec.Unmatched++
		}
	}
	rec.Euler = len(out) - rec.Faces // vertices - segments = 0 for closed curves
}

func init() {
	// c01-sweep out= stats= max=N   (stop counts 3..N)
	register("c01-sweep", func(a args) {
		out := newNDWriter(a.str("out", "records.ndjson"))
		defer out.close()
		max := a.int("max", 120)
		stats := map[string]int{}
		id := 0
		emit := func(site, param string, dim, wantEuler int, f func(rec *sweepRec)) {
			id++
			rec := sweepRec{ID: id, Site: site, Param: param, Dim: dim, WantEuler: wantEuler}
			rec.Panic = protect(func() { f(&rec) })
			stats["records"]++
			stats["site:"+site]++
			if rec.Faces > 0 {
				stats["nonempty"]++
			}
			out.write(rec)
		}
		c0 := model3d.XYZ(0.5, -0.25, 1)
		for n := 3; n <= max; n++ {
			n := n
			emit("model3d.NewMeshPolar", fmt.Sprintf("stops=%d", n), 3, 2, func(rec *sweepRec) {
				sweepMesh3(rec, model3d.NewMeshPolar(func(g model3d.GeoCoord) float64 { return 1 + 0.2*math.Sin(3*g.Lon) }, n), model3d.Coord3D{}, true)
			})
			emit("model3d.NewMeshCylinder", fmt.Sprintf("stops=%d", n), 3, 2, func(rec *sweepRec) {
				sweepMesh3(rec, model3d.NewMeshCylinder(c0, c0.Add(model3d.XYZ(1, 2, 2)), 0.75, n), c0.Add(model3d.XYZ(0.5, 1, 1)), true)
			})
			emit("model3d.NewMeshCone", fmt.Sprintf("stops=%d", n), 3, 2, func(rec *sweepRec) {
				sweepMesh3(rec, model3d.NewMeshCone(c0.Add(model3d.XYZ(1, 2, 2)), c0, 0.75, n), c0.Add(model3d.XYZ(0.25, 0.5, 0.5)), true)
			})
			emit("model2d.NewMeshPolar", fmt.Sprintf("stops=%d", n), 2, 0, func(rec *sweepRec) {
				sweepMesh2(rec, model2d.NewMeshPolar(func(t float64) float64 { return 1 + 0.3*math.Cos(2*t) }, n))
			})
		}
		tmax := 24
		if max < 60 {
			tmax = 10
		}
		for i := 3; i <= tmax; i++ {
			for j := 3; j <= tmax; j++ {
				i, j := i, j
				emit("model3d.NewMeshTorus", fmt.Sprintf("inner=%d outer=%d", i, j), 3, 0, func(rec *sweepRec) {
					sweepMesh3(rec, model3d.NewMeshTorus(c0, model3d.XYZ(1, 2, 2).Normalize(), 0.5, 2, i, j), c0, false)
				})
			}
		}
		for n := 0; n <= 6; n++ {
			n := n
			emit("model3d.NewMeshIcosphere", fmt.Sprintf("n=%d", n+1), 3, 2, func(rec *sweepRec) {
				sweepMesh3(rec, model3d.NewMeshIcosphere(c0, 1.5, n+1), c0, true)
			})
		}
		writeJSONFile(a.str("stats", "stats.json"), stats)
	})
}
